import SJ.Proofs.FloatDefault
/-!
# Error analysis of `f64_from_parts` for `|exponent| ≤ 308` (one table operation)

All statements are on exact naturals: `c = 2^1074` is the scale of magnitudes, `ε = 2^-53`;
"`A ≤ (1+nε)·S`" is written `2^53 * A ≤ (2^53 + n) * S`.
-/
namespace SJ.Proofs.FloatDefault
open SJ SJ.Spec.Ieee SJ.Spec.Decimal SJ.Model.FloatDefault SJ.Proofs.Ieee

/-! ## One-step characterisation of the loop for `|exponent| ≤ 308` -/

/-- `0 ≤ e ≤ 308`: `significand as f64 * POW10[e]`, rejected iff that product rounds to infinity -/
theorem f64FromParts_mul (positive : Bool) (s : Nat) (e : Int) (hs : s < 2 ^ 64)
    (he1 : 0 ≤ e) (he2 : e ≤ 308) :
    f64FromParts positive s e = roundNE64 (!positive)
      (F64.mag (F64.ofU64 s) * F64.mag (litPow10 e.natAbs)) (2 ^ 1074 * 2 ^ 1074) := by
  obtain ⟨_, hafin, hasign⟩ := F64.ofU64_finite s hs
  obtain ⟨hbfin, hbsign, _, _⟩ := litPow10_facts e.natAbs (by omega)
  have hfuel : fuelFor e = (e.natAbs + 1) + 1 := rfl
  have hden : 0 < 2 ^ 1074 * 2 ^ 1074 := Nat.mul_pos (two_pow_pos' _) (two_pow_pos' _)
  unfold f64FromParts
  rw [hfuel]
  unfold loop
  rw [wrappingAbsUsize_small e (by omega) (by omega), pow10_eq, if_pos (by omega)]
  simp only
  rw [if_pos he1, F64.mul_finite _ _ hafin hbfin, hasign, hbsign]
  generalize F64.mag (F64.ofU64 s) * F64.mag (litPow10 e.natAbs) = AB
  generalize 2 ^ 1074 * 2 ^ 1074 = cc at hden ⊢
  rcases roundOrInf_cases (false != false) AB cc hden with ⟨_, h1, h2, _⟩ | ⟨hov, h⟩
  · rw [F64.finite_not_inf _ h2]
    simp only [Bool.false_eq_true, if_false]
    rw [show (false != false) = false from rfl] at h1 ⊢
    cases positive
    · simp only [Bool.false_eq_true, if_false, Bool.not_false]
      have := roundNE64_neg false AB cc
      rw [h1] at this; exact this
    · simp only [if_true, Bool.not_true]; exact h1.symm
  · rw [h, F64.inf_isInf]
    simp only [if_true]
    exact ((roundNE64_none_iff _ AB cc hden).2 hov).symm

/-- `-308 ≤ e < 0`: `significand as f64 / POW10[-e]` -/
theorem f64FromParts_div (positive : Bool) (s : Nat) (e : Int) (hs : s < 2 ^ 64)
    (he1 : -308 ≤ e) (he2 : e < 0) :
    f64FromParts positive s e = roundNE64 (!positive)
      (F64.mag (F64.ofU64 s)) (F64.mag (litPow10 e.natAbs)) := by
  obtain ⟨_, hafin, hasign⟩ := F64.ofU64_finite s hs
  obtain ⟨hbfin, hbsign, hbz, hbm⟩ := litPow10_facts e.natAbs (by omega)
  have hfuel : fuelFor e = (e.natAbs + 1) + 1 := rfl
  have hden : 0 < F64.mag (litPow10 e.natAbs) := by have := two_pow_pos' 1074; omega
  have hno : ¬ Overflows64 (F64.mag (F64.ofU64 s)) (F64.mag (litPow10 e.natAbs)) := by
    unfold Overflows64
    have h1 := F64.mag_le_max _ hafin
    have h2 := max_lt_threshold
    have h3 : (2 ^ 1024 - 2 ^ 970) * 2 ^ 1074 ≤ (2 ^ 1024 - 2 ^ 970) * F64.mag (litPow10 e.natAbs) :=
      Nat.mul_le_mul_left _ hbm
    omega
  unfold f64FromParts
  rw [hfuel]
  unfold loop
  rw [wrappingAbsUsize_small e (by omega) (by omega), pow10_eq, if_pos (by omega)]
  simp only
  rw [if_neg (by omega), F64.div_finite _ _ hafin hbfin hbz, hasign, hbsign]
  generalize F64.mag (F64.ofU64 s) = A at hno ⊢
  generalize F64.mag (litPow10 e.natAbs) = B at hno hden ⊢
  rcases roundOrInf_cases (false != false) A B hden with ⟨_, h1, _, _⟩ | ⟨hov, _⟩
  · rw [show (false != false) = false from rfl] at h1 ⊢
    cases positive
    · simp only [Bool.false_eq_true, if_false, Bool.not_false]
      have := roundNE64_neg false A B
      rw [h1] at this; exact this
    · simp only [if_true, Bool.not_true]; exact h1.symm
  · exact absurd hov hno

/-! ## Relative accuracy of the two operands -/

/-- `s as f64 = s·(1 ± ε)` for `1 ≤ s < 2^64` -/
theorem ofU64_rel (s : Nat) (hs1 : 1 ≤ s) (hs : s < 2 ^ 64) :
    2 ^ 53 * adiff (F64.mag (F64.ofU64 s)) (s * 2 ^ 1074) ≤ s * 2 ^ 1074 := by
  obtain ⟨h1, _, _⟩ := F64.ofU64_finite s hs
  obtain ⟨hu, hr⟩ := roundNE64_some false s 1 _ h1
  rw [hr, bits64_mag false _ hu]
  have hn : 2 ^ b64.mbits * 1 ≤ s * 2 ^ 1074 := by
    rw [b64_mbits]
    have : 2 ^ 52 * 1 ≤ 2 ^ 1074 := by decide +kernel
    have : 1 * 2 ^ 1074 ≤ s * 2 ^ 1074 := Nat.mul_le_mul_right _ hs1
    omega
  have := roundMag_rel b64 (s * 2 ^ 1074) 1 (by decide) hn
  rw [b64_mbits] at this
  unfold rmag64
  simpa using this

theorem ofU64_bounds (s : Nat) (hs1 : 1 ≤ s) (hs : s < 2 ^ 64) :
    2 ^ 53 * F64.mag (F64.ofU64 s) ≤ (2 ^ 53 + 1) * (s * 2 ^ 1074) ∧
    (2 ^ 53 - 1) * (s * 2 ^ 1074) ≤ 2 ^ 53 * F64.mag (F64.ofU64 s) := by
  have h := ofU64_rel s hs1 hs
  unfold adiff at h
  generalize F64.mag (F64.ofU64 s) = A at h ⊢
  generalize s * 2 ^ 1074 = S at h ⊢
  have e1 : (2 ^ 53 + 1) * S = 2 ^ 53 * S + S := by ring
  have e2 : (2 ^ 53 - 1) * S = 2 ^ 53 * S - S := by rw [Nat.sub_mul]; simp
  have e3 : 2 ^ 53 * (A - S + (S - A)) = 2 ^ 53 * (A - S) + 2 ^ 53 * (S - A) := by ring
  have e4 : 2 ^ 53 * (A - S) = 2 ^ 53 * A - 2 ^ 53 * S := Nat.mul_sub _ _ _
  have e5 : 2 ^ 53 * (S - A) = 2 ^ 53 * S - 2 ^ 53 * A := Nat.mul_sub _ _ _
  omega


/-! ## Products of two `(1 ± ε)` operands -/

theorem prod_upper (A S B T : Nat) (hA : 2 ^ 53 * A ≤ (2 ^ 53 + 1) * S)
    (hB : 2 ^ 53 * B ≤ (2 ^ 53 + 1) * T) : 2 ^ 106 * (A * B) ≤ (2 ^ 53 + 1) ^ 2 * (S * T) := by
  have := Nat.mul_le_mul hA hB
  calc 2 ^ 106 * (A * B) = (2 ^ 53 * A) * (2 ^ 53 * B) := by ring
    _ ≤ ((2 ^ 53 + 1) * S) * ((2 ^ 53 + 1) * T) := this
    _ = (2 ^ 53 + 1) ^ 2 * (S * T) := by ring

theorem prod_lower (A S B T : Nat) (hA : (2 ^ 53 - 1) * S ≤ 2 ^ 53 * A)
    (hB : (2 ^ 53 - 1) * T ≤ 2 ^ 53 * B) : (2 ^ 53 - 1) ^ 2 * (S * T) ≤ 2 ^ 106 * (A * B) := by
  have := Nat.mul_le_mul hA hB
  calc (2 ^ 53 - 1) ^ 2 * (S * T) = ((2 ^ 53 - 1) * S) * ((2 ^ 53 - 1) * T) := by ring
    _ ≤ (2 ^ 53 * A) * (2 ^ 53 * B) := this
    _ = 2 ^ 106 * (A * B) := by ring

/-- the operands of the table step, bounded against `s·c` and `10^k·c` (`c = 2^1074`) -/
theorem operands_upper (s k : Nat) (hs1 : 1 ≤ s) (hs : s < 2 ^ 64) (hk : k < 309) :
    2 ^ 106 * (F64.mag (F64.ofU64 s) * F64.mag (litPow10 k)) ≤
      (2 ^ 53 + 1) ^ 2 * (s * 10 ^ k * (2 ^ 1074 * 2 ^ 1074)) := by
  have := prod_upper _ _ _ _ (ofU64_bounds s hs1 hs).1 (litPow10_rel k hk).1
  calc _ ≤ (2 ^ 53 + 1) ^ 2 * (s * 2 ^ 1074 * (10 ^ k * 2 ^ 1074)) := this
    _ = _ := by ring

theorem operands_lower (s k : Nat) (hs1 : 1 ≤ s) (hs : s < 2 ^ 64) (hk : k < 309) :
    (2 ^ 53 - 1) ^ 2 * (s * 10 ^ k * (2 ^ 1074 * 2 ^ 1074)) ≤
      2 ^ 106 * (F64.mag (F64.ofU64 s) * F64.mag (litPow10 k)) := by
  have := prod_lower _ _ _ _ (ofU64_bounds s hs1 hs).2 (litPow10_rel k hk).2
  calc _ = (2 ^ 53 - 1) ^ 2 * (s * 2 ^ 1074 * (10 ^ k * 2 ^ 1074)) := by ring
    _ ≤ _ := this

/-! ## Overflow direction (`0 ≤ exponent ≤ 308`) -/

/-- rejected ⇒ the exact value is at least `2^1024 − 2^970 − 2^972` (within 2 ulp of the threshold) -/
theorem mul_rejected_lower (positive : Bool) (s : Nat) (e : Int) (hs : s < 2 ^ 64)
    (he1 : 0 ≤ e) (he2 : e ≤ 308) (h : f64FromParts positive s e = none) :
    2 ^ 1024 - 2 ^ 970 - 2 ^ 972 ≤ s * 10 ^ e.natAbs := by
  rw [f64FromParts_mul positive s e hs he1 he2] at h
  have hcc : 0 < 2 ^ 1074 * 2 ^ 1074 := Nat.mul_pos (two_pow_pos' _) (two_pow_pos' _)
  have hov := (roundNE64_none_iff _ _ _ hcc).1 h
  unfold Overflows64 at hov
  rcases Nat.eq_zero_or_pos s with h0 | hs1
  · -- s = 0: the product is 0 and cannot overflow
    subst h0
    have : F64.mag (F64.ofU64 0) = 0 := by simpa using F64.ofU64_exact 0 (by decide)
    rw [this, Nat.zero_mul] at hov
    have : 0 < (2 ^ 1024 - 2 ^ 970) * (2 ^ 1074 * 2 ^ 1074) := Nat.mul_pos (by decide +kernel) hcc
    omega
  · have hup := operands_upper s e.natAbs hs1 hs (by omega)
    have hnum : (2 ^ 53 + 1) ^ 2 * (2 ^ 1024 - 2 ^ 970 - 2 ^ 972) ≤ 2 ^ 106 * (2 ^ 1024 - 2 ^ 970) := by
      decide +kernel
    have hK : 0 < (2 ^ 53 + 1) ^ 2 := by decide
    generalize F64.mag (F64.ofU64 s) * F64.mag (litPow10 e.natAbs) = AB at hov hup
    generalize s * 10 ^ e.natAbs = x at hup ⊢
    generalize 2 ^ 1074 * 2 ^ 1074 = cc at hcc hov hup
    generalize 2 ^ 1024 - 2 ^ 970 - 2 ^ 972 = lo at hnum ⊢
    generalize 2 ^ 1024 - 2 ^ 970 = thr at hnum hov
    generalize (2 ^ 53 + 1) ^ 2 = K at hnum hup hK
    generalize 2 ^ 106 = L at hnum hup
    have h1 : L * (thr * cc) ≤ K * (x * cc) := Nat.le_trans (Nat.mul_le_mul_left L hov) hup
    have h2 : (L * thr) * cc ≤ (K * x) * cc := by
      calc _ = L * (thr * cc) := by ring
        _ ≤ K * (x * cc) := h1
        _ = _ := by ring
    have h3 := Nat.le_of_mul_le_mul_right h2 hcc
    have h4 := Nat.le_trans hnum h3
    exact Nat.le_of_mul_le_mul_left h4 hK

/-- an exact value of at least `2^1024 + 2^972` is rejected -/
theorem mul_rejects_above (positive : Bool) (s : Nat) (e : Int) (hs : s < 2 ^ 64)
    (he1 : 0 ≤ e) (he2 : e ≤ 308) (hx : 2 ^ 1024 + 2 ^ 972 ≤ s * 10 ^ e.natAbs) :
    f64FromParts positive s e = none := by
  rw [f64FromParts_mul positive s e hs he1 he2]
  have hcc : 0 < 2 ^ 1074 * 2 ^ 1074 := Nat.mul_pos (two_pow_pos' _) (two_pow_pos' _)
  apply (roundNE64_none_iff _ _ _ hcc).2
  unfold Overflows64
  have hs1 : 1 ≤ s := by
    rcases Nat.eq_zero_or_pos s with h0 | h
    · subst h0; simp at hx
    · exact h
  have hlo := operands_lower s e.natAbs hs1 hs (by omega)
  have hnum : 2 ^ 106 * (2 ^ 1024 - 2 ^ 970) ≤ (2 ^ 53 - 1) ^ 2 * (2 ^ 1024 + 2 ^ 972) := by
    decide +kernel
  have hL : 0 < 2 ^ 106 := by decide
  generalize F64.mag (F64.ofU64 s) * F64.mag (litPow10 e.natAbs) = AB at hlo ⊢
  generalize s * 10 ^ e.natAbs = x at hlo hx
  generalize 2 ^ 1074 * 2 ^ 1074 = cc at hcc hlo ⊢
  generalize 2 ^ 1024 - 2 ^ 970 = thr at hnum ⊢
  generalize 2 ^ 1024 + 2 ^ 972 = hi at hnum hx
  generalize (2 ^ 53 - 1) ^ 2 = K at hnum hlo
  generalize 2 ^ 106 = L at hnum hlo hL
  have h1 : L * (thr * cc) ≤ L * AB := by
    calc L * (thr * cc) = (L * thr) * cc := by ring
      _ ≤ (K * hi) * cc := Nat.mul_le_mul_right _ hnum
      _ ≤ (K * x) * cc := Nat.mul_le_mul_right _ (Nat.mul_le_mul_left _ hx)
      _ = K * (x * cc) := by ring
      _ ≤ L * AB := hlo
  exact Nat.le_of_mul_le_mul_left h1 hL


/-! ## Exponents outside the table -/

theorem ofU64_zero : F64.ofU64 0 = 0 := by decide +kernel

theorem ofU64_not_zero (s : Nat) (hs1 : 1 ≤ s) (hs : s < 2 ^ 64) :
    F64.isZero (F64.ofU64 s) = false := by
  have hlo := (ofU64_bounds s hs1 hs).2
  have hpos : 0 < (2 ^ 53 - 1) * (s * 2 ^ 1074) :=
    Nat.mul_pos (by decide) (Nat.mul_pos hs1 (two_pow_pos' _))
  have hA : 0 < F64.mag (F64.ofU64 s) := by
    rcases Nat.eq_zero_or_pos (F64.mag (F64.ofU64 s)) with h | h
    · rw [h] at hlo; omega
    · exact h
  cases hz : F64.isZero (F64.ofU64 s) with
  | false => rfl
  | true =>
    have := (F64.isZero_iff _).1 hz
    unfold F64.mag at hA
    rw [this] at hA
    have : magOfBits b64 0 = 0 := by decide
    omega

theorem loop_none_arm (n : Nat) (f : UInt64) (e : Int) (hidx : ¬ wrappingAbsUsize e < 309) :
    loop (n + 1) f e =
      if F64.isZero f then .done f
      else if e ≥ 0 then .outOfRange
      else loop n (F64.div f (litPow10 Gen.fromPartsBigExp)) (e + Gen.fromPartsStep) := by
  rw [loop, pow10_eq, if_neg hidx]

/-- `exponent ≥ 309`: outside the table, so zero stays zero and everything else is out of range -/
theorem f64FromParts_big (positive : Bool) (s : Nat) (e : Int) (hs : s < 2 ^ 64)
    (he : 309 ≤ e) :
    f64FromParts positive s e = if s = 0 then some (F64.zero (!positive)) else none := by
  have hidx : ¬ wrappingAbsUsize e < 309 := by
    unfold wrappingAbsUsize i32Min
    rw [if_neg (by omega)]; omega
  obtain ⟨n, hn⟩ : ∃ n, fuelFor e = n + 1 := ⟨e.natAbs + 1, rfl⟩
  unfold f64FromParts
  rw [hn, loop_none_arm n _ e hidx]
  by_cases h0 : s = 0
  · subst h0
    rw [ofU64_zero, if_pos rfl]
    have : F64.isZero 0 = true := by decide
    rw [if_pos this]
    cases positive <;> decide
  · rw [if_neg h0, ofU64_not_zero s (by omega) hs]
    simp only [Bool.false_eq_true, if_false]
    rw [if_pos (by omega)]

theorem loop_neg_not_rejected : ∀ (fuel : Nat) (f : UInt64) (e : Int), e < 0 →
    loop fuel f e ≠ .outOfRange := by
  intro fuel
  induction fuel with
  | zero => intro f e _; simp [loop]
  | succ n ih =>
    intro f e he
    unfold loop
    rw [pow10_eq]
    by_cases hidx : wrappingAbsUsize e < 309
    · rw [if_pos hidx]
      simp only
      rw [if_neg (by omega)]
      simp
    · rw [if_neg hidx]
      simp only
      split
      · simp
      · rw [if_neg (by omega)]
        apply ih
        have hs : (Gen.fromPartsStep : Int) = 308 := rfl
        rw [hs]
        unfold wrappingAbsUsize i32Min at hidx
        split at hidx <;> omega

/-- a negative exponent is never rejected -/
theorem f64FromParts_neg_some (positive : Bool) (s : Nat) (e : Int) (he : e < 0) :
    f64FromParts positive s e ≠ none := by
  unfold f64FromParts
  have h1 := loop_neg_not_rejected (fuelFor e) (F64.ofU64 s) e he
  have h2 := loop_fuel (F64.ofU64 s) e
  split <;> simp_all

theorem pow10_309_ge : 2 ^ 1024 + 2 ^ 972 ≤ 10 ^ 309 := by decide +kernel

/-- **Overflow direction at `f64_from_parts`, all exponents.** -/
theorem f64FromParts_overflow_direction (positive : Bool) (s : Nat) (e : Int) (hs : s < 2 ^ 64) :
    (f64FromParts positive s e = none →
        0 ≤ e ∧ 2 ^ 1024 - 2 ^ 970 - 2 ^ 972 ≤ s * 10 ^ e.natAbs) ∧
    (0 ≤ e → 2 ^ 1024 + 2 ^ 972 ≤ s * 10 ^ e.natAbs → f64FromParts positive s e = none) := by
  constructor
  · intro h
    rcases Int.lt_or_le e 0 with hneg | hpos
    · exact absurd h (f64FromParts_neg_some positive s e hneg)
    · refine ⟨hpos, ?_⟩
      rcases Int.lt_or_le e 309 with hlt | hge
      · exact mul_rejected_lower positive s e hs hpos (by omega) h
      · rw [f64FromParts_big positive s e hs hge] at h
        have hs1 : 1 ≤ s := by
          rcases Nat.eq_zero_or_pos s with h0 | h1
          · rw [if_pos h0] at h; cases h
          · exact h1
        have h1 : 10 ^ 309 ≤ 10 ^ e.natAbs := Nat.pow_le_pow_right (by decide) (by omega)
        have h2 : 1 * 10 ^ e.natAbs ≤ s * 10 ^ e.natAbs := Nat.mul_le_mul_right _ hs1
        have h3 : 2 ^ 1024 - 2 ^ 970 - 2 ^ 972 ≤ 10 ^ 309 := by decide +kernel
        generalize 10 ^ e.natAbs = X at h1 h2 ⊢
        generalize 10 ^ 309 = Y at h1 h3
        generalize 2 ^ 1024 - 2 ^ 970 - 2 ^ 972 = lo at h3 ⊢
        omega
  · intro hpos hx
    rcases Int.lt_or_le e 309 with hlt | hge
    · exact mul_rejects_above positive s e hs hpos (by omega) hx
    · rw [f64FromParts_big positive s e hs hge]
      have : s ≠ 0 := by
        intro h0; subst h0; simp at hx
      rw [if_neg this]

end SJ.Proofs.FloatDefault
