import SJ.Proofs.FloatDefault
/-!
# Helper lemmas for C08: digit collection (`partsOfLiteral`) on grammatical literals
-/
namespace SJ.Proofs.FloatDefault
open SJ SJ.Spec.Ieee SJ.Spec.Decimal SJ.Model.FloatDefault SJ.Proofs.Ieee

theorem digitVal_le (c : UInt8) (h : isDigit c = true) : digitVal c ≤ 9 := by
  unfold isDigit at h
  simp only [Bool.and_eq_true, decide_eq_true_eq, UInt8.le_iff_toNat_le] at h
  unfold digitVal
  have : (0x39 : UInt8).toNat = 57 := rfl
  omega

/-- value of a digit string appended to an accumulator -/
def digitsFrom (sig : Nat) (ds : Bytes) : Nat := ds.foldl (fun a d => a * 10 + digitVal d) sig

theorem digitsVal_eq (ds : Bytes) : digitsVal ds = digitsFrom 0 ds := rfl

theorem digitsFrom_cons (sig : Nat) (c : UInt8) (cs : Bytes) :
    digitsFrom sig (c :: cs) = digitsFrom (sig * 10 + digitVal c) cs := by
  unfold digitsFrom; rw [List.foldl_cons]

theorem digitsFrom_append (sig : Nat) (xs ys : Bytes) :
    digitsFrom sig (xs ++ ys) = digitsFrom (digitsFrom sig xs) ys := by
  unfold digitsFrom; rw [List.foldl_append]

theorem digitsFrom_ge (ds : Bytes) : ∀ sig, sig ≤ digitsFrom sig ds := by
  induction ds with
  | nil => intro sig; exact Nat.le_refl _
  | cons c cs ih =>
    intro sig
    rw [digitsFrom_cons]
    have := ih (sig * 10 + digitVal c)
    omega

theorem intLoop_le (ds : Bytes) : ∀ sig, ds.all isDigit = true → sig ≤ u64Max →
    (intLoop sig ds).1 ≤ u64Max := by
  induction ds with
  | nil => intro sig _ h; exact h
  | cons c cs ih =>
    intro sig hd hs
    simp only [List.all_cons, Bool.and_eq_true] at hd
    unfold intLoop
    simp only
    rw [overflow_eq _ _ _ (digitVal_le c hd.1)]
    by_cases h : sig * 10 + digitVal c > u64Max
    · simp only [h, decide_true, if_true]; exact hs
    · simp only [h, decide_false, Bool.false_eq_true, if_false]
      exact ih _ hd.2 (by omega)

theorem intLoop_noovf (ds : Bytes) : ∀ sig, ds.all isDigit = true → digitsFrom sig ds ≤ u64Max →
    intLoop sig ds = (digitsFrom sig ds, []) := by
  induction ds with
  | nil => intro sig _ _; rfl
  | cons c cs ih =>
    intro sig hd h
    simp only [List.all_cons, Bool.and_eq_true] at hd
    rw [digitsFrom_cons] at h ⊢
    have := digitsFrom_ge cs (sig * 10 + digitVal c)
    unfold intLoop
    simp only
    rw [overflow_eq _ _ _ (digitVal_le c hd.1)]
    have hno : ¬ sig * 10 + digitVal c > u64Max := by omega
    simp only [hno, decide_false, Bool.false_eq_true, if_false]
    exact ih _ hd.2 h

theorem fracLoop_le (ds : Bytes) : ∀ sig ea, ds.all isDigit = true → sig ≤ u64Max →
    (fracLoop sig ea ds).1 ≤ u64Max := by
  induction ds with
  | nil => intro sig ea _ h; exact h
  | cons c cs ih =>
    intro sig ea hd hs
    simp only [List.all_cons, Bool.and_eq_true] at hd
    unfold fracLoop
    simp only
    rw [overflow_eq _ _ _ (digitVal_le c hd.1)]
    by_cases h : sig * 10 + digitVal c > u64Max
    · simp only [h, decide_true, if_true]; exact hs
    · simp only [h, decide_false, Bool.false_eq_true, if_false]
      exact ih _ _ hd.2 (by omega)

theorem fracLoop_noovf (ds : Bytes) : ∀ sig ea, ds.all isDigit = true → digitsFrom sig ds ≤ u64Max →
    fracLoop sig ea ds = (digitsFrom sig ds, ea - (ds.length : Int)) := by
  induction ds with
  | nil => intro sig ea _ _; simp [fracLoop, digitsFrom]
  | cons c cs ih =>
    intro sig ea hd h
    simp only [List.all_cons, Bool.and_eq_true] at hd
    rw [digitsFrom_cons] at h ⊢
    have := digitsFrom_ge cs (sig * 10 + digitVal c)
    unfold fracLoop
    simp only
    rw [overflow_eq _ _ _ (digitVal_le c hd.1)]
    have hno : ¬ sig * 10 + digitVal c > u64Max := by omega
    simp only [hno, decide_false, Bool.false_eq_true, if_false]
    rw [ih _ _ hd.2 h]
    simp only [List.length_cons, Nat.cast_add, Nat.cast_one]
    congr 1; omega

theorem expLoop_noovf (ds : Bytes) : ∀ e, ds.all isDigit = true → digitsFrom e ds ≤ i32Max →
    expLoop e ds = some (digitsFrom e ds) := by
  induction ds with
  | nil => intro e _ _; rfl
  | cons c cs ih =>
    intro e hd h
    simp only [List.all_cons, Bool.and_eq_true] at hd
    rw [digitsFrom_cons] at h ⊢
    have := digitsFrom_ge cs (e * 10 + digitVal c)
    unfold expLoop
    simp only
    rw [overflow_eq _ _ _ (digitVal_le c hd.1)]
    have hno : ¬ e * 10 + digitVal c > i32Max := by omega
    simp only [hno, decide_false, Bool.false_eq_true, if_false]
    exact ih _ hd.2 h

/-! ## What the digit collection can hand on -/

/-- sign and range invariants of the hand-over -/
def Parts.Good (neg : Bool) : Parts → Prop
  | .u64 n => neg = false ∧ n < 2 ^ 64
  | .i64 n => neg = true ∧ n.natAbs < 2 ^ 64
  | .negInt n => neg = true ∧ n < 2 ^ 64
  | .parts p s _ => p = !neg ∧ s < 2 ^ 64
  | .expOverflow p _ _ => p = !neg
  | .invalid => True

theorem wf_parts (l : NumLit) (h : l.WF = true) :
    l.intDigits.all isDigit = true ∧ l.fracDigits.all isDigit = true ∧
    l.expDigits.all isDigit = true := by
  unfold NumLit.WF at h
  simp only [Bool.and_eq_true] at h
  exact ⟨h.1.1.1.1, h.1.1.1.2, h.1.1.2⟩

theorem parseExponent_good (l : NumLit) (s : Nat) (st : Int) (hs : s < 2 ^ 64) :
    Parts.Good l.neg (parseExponent l (!l.neg) s st) := by
  unfold parseExponent
  split
  · trivial
  · split
    · exact rfl
    · exact ⟨rfl, hs⟩

theorem parseDecimal_good (l : NumLit) (hwf : l.WF = true) (s : Nat) (eb : Int) (hs : s ≤ u64Max) :
    Parts.Good l.neg (parseDecimal l (!l.neg) s eb) := by
  obtain ⟨_, hfd, _⟩ := wf_parts l hwf
  have hle := fracLoop_le l.fracDigits s 0 hfd hs
  have hu : u64Max < 2 ^ 64 := by decide
  unfold parseDecimal
  generalize fracLoop s 0 l.fracDigits = p at hle
  obtain ⟨s', ea⟩ := p
  simp only at hle ⊢
  split
  · exact ⟨rfl, by omega⟩
  · exact parseExponent_good l s' _ (by omega)

theorem partsOfLiteral_good (l : NumLit) (hwf : l.WF = true) :
    Parts.Good l.neg (partsOfLiteral l) := by
  obtain ⟨hid, _, _⟩ := wf_parts l hwf
  have hu : u64Max < 2 ^ 64 := by decide
  unfold partsOfLiteral
  simp only
  split
  · trivial
  · rename_i c cs hint
    rw [hint] at hid
    simp only [List.all_cons, Bool.and_eq_true] at hid
    split
    · trivial
    · have hc := digitVal_le c hid.1
      have hle := intLoop_le cs (digitVal c) hid.2 (by unfold u64Max; omega)
      generalize intLoop (digitVal c) cs = p at hle
      obtain ⟨s, rest⟩ := p
      simp only at hle ⊢
      split
      · exact parseDecimal_good l hwf s _ hle
      · split
        · exact parseExponent_good l s _ (by omega)
        · split
          · exact ⟨rfl, by omega⟩
          · split
            · rename_i hp
              refine ⟨?_, by omega⟩
              simpa using hp
            · rename_i hp
              have hneg : l.neg = true := by simpa using hp
              split
              · exact ⟨hneg, by omega⟩
              · refine ⟨hneg, ?_⟩
                simp only [Int.natAbs_neg, Int.natAbs_natCast]; omega

/-- the f64 the model returns is finite and carries the literal's sign (including `-0`) -/
theorem toF64_finite_signed (neg : Bool) (p : Parts) (r : UInt64) (hg : Parts.Good neg p)
    (h : p.toF64 = some r) : F64.isFinite r = true ∧ F64.sign r = neg := by
  cases p with
  | u64 n =>
    obtain ⟨hn, hlt⟩ := hg
    obtain ⟨_, h1, h2⟩ := F64.ofU64_finite n hlt
    simp only [Parts.toF64, Option.some.injEq] at h
    subst h; rw [hn]; exact ⟨h1, h2⟩
  | i64 n =>
    obtain ⟨hn, hlt⟩ := hg
    obtain ⟨_, h1, h2⟩ := F64.ofU64_finite n.natAbs hlt
    simp only [Parts.toF64, Option.some.injEq] at h
    subst h; rw [hn, F64.neg_finite, F64.neg_sign, h2]; exact ⟨h1, rfl⟩
  | negInt n =>
    obtain ⟨hn, hlt⟩ := hg
    obtain ⟨_, h1, h2⟩ := F64.ofU64_finite n hlt
    simp only [Parts.toF64, Option.some.injEq] at h
    subst h; rw [hn, F64.neg_finite, F64.neg_sign, h2]; exact ⟨h1, rfl⟩
  | parts p s e =>
    obtain ⟨hp, hlt⟩ := hg
    have := f64FromParts_finite_signed p s e r hlt h
    rw [hp] at this
    simpa using this
  | expOverflow p z pe =>
    simp only [Parts.toF64, parseExponentOverflow] at h
    split at h
    · cases h
    · simp only [Option.some.injEq] at h
      subst h
      have hp : p = !neg := hg
      rw [hp]
      simp only [Bool.not_not]
      exact ⟨F64.zero_finite _, F64.zero_sign _⟩
  | invalid => simp [Parts.toF64] at h


/-! ## Short literals: the digit collection delivers the exact decimal -/

theorem satI32_id (x : Int) (h1 : -(2 ^ 31) ≤ x) (h2 : x ≤ 2 ^ 31 - 1) : satI32 x = x := by
  unfold satI32 i32Max i32Min
  rw [if_neg (by omega), if_neg (by omega)]

theorem wf_int (l : NumLit) (h : l.WF = true) :
    ∃ c cs, l.intDigits = c :: cs ∧ (c == 0x30 && !cs.isEmpty) = false := by
  unfold NumLit.WF at h
  simp only [Bool.and_eq_true] at h
  have h4 := h.1.2
  match hint : l.intDigits with
  | [] => rw [hint] at h4; simp at h4
  | [c] => exact ⟨c, [], rfl, by simp⟩
  | c :: d :: r =>
    rw [hint] at h4
    refine ⟨c, d :: r, rfl, ?_⟩
    simp only [bne_iff_ne, ne_eq] at h4
    simp [h4]

/-- the parts a short literal is handed on as: no digit is dropped, no exponent saturates -/
theorem partsOfLiteral_short (l : NumLit) (hwf : l.WF = true) (hD : l.sigVal < 10 ^ 15)
    (h1 : -22 ≤ l.netExp) (h2 : l.netExp ≤ 22) (hlen : l.fracDigits.length < 2 ^ 30) :
    (partsOfLiteral l = .parts (!l.neg) l.sigVal l.netExp) ∨
    (l.netExp = 0 ∧ l.neg = false ∧ partsOfLiteral l = .u64 l.sigVal) ∨
    (l.netExp = 0 ∧ l.neg = true ∧ l.sigVal = 0 ∧ partsOfLiteral l = .negInt 0) ∨
    (l.netExp = 0 ∧ l.neg = true ∧ partsOfLiteral l = .i64 (-(l.sigVal : Int))) := by
  obtain ⟨hid, hfd, hed⟩ := wf_parts l hwf
  obtain ⟨c, cs, hint, hlead⟩ := wf_int l hwf
  have hu : (10 : Nat) ^ 15 ≤ u64Max := by decide
  -- the integer part
  have hI : digitsFrom 0 l.intDigits = digitsFrom (digitVal c) cs := by
    rw [hint, digitsFrom_cons]; simp
  have hDdef : l.sigVal = digitsFrom (digitsFrom (digitVal c) cs) l.fracDigits := by
    unfold NumLit.sigVal NumLit.digits
    rw [digitsVal_eq, digitsFrom_append, hI]
  have hIle : digitsFrom (digitVal c) cs ≤ l.sigVal := by rw [hDdef]; exact digitsFrom_ge _ _
  rw [hint] at hid
  simp only [List.all_cons, Bool.and_eq_true] at hid
  have hint' := intLoop_noovf cs (digitVal c) hid.2 (by omega)
  have hfrac := fracLoop_noovf l.fracDigits (digitsFrom (digitVal c) cs) 0 hfd (by rw [← hDdef]; omega)
  rw [← hDdef] at hfrac
  -- the exponent part
  have hE : ∀ c' cs', l.expDigits = c' :: cs' → l.expVal ≤ i32Max →
      expLoop (digitVal c') cs' = some l.expVal := by
    intro c' cs' hex hle
    rw [hex] at hed
    simp only [List.all_cons, Bool.and_eq_true] at hed
    have : l.expVal = digitsFrom (digitVal c') cs' := by
      unfold NumLit.expVal; rw [digitsVal_eq, hex, digitsFrom_cons]; simp
    rw [this] at hle ⊢
    exact expLoop_noovf cs' _ hed.2 hle
  have hEb : l.expVal ≤ i32Max := by
    unfold NumLit.netExp at h1 h2
    unfold i32Max
    cases hx : l.expNeg <;> simp only [hx, Bool.false_eq_true, if_false, if_true] at h1 h2 <;> omega
  unfold partsOfLiteral
  rw [hint]
  simp only [hlead, Bool.false_eq_true, if_false, hint', longIntegerExponent, List.length_nil,
    List.isEmpty_nil, Bool.not_true]
  by_cases hfe : l.fracDigits.isEmpty = true
  · -- no fraction
    have hfnil : l.fracDigits = [] := by simpa using hfe
    have hDI : l.sigVal = digitsFrom (digitVal c) cs := by rw [hDdef, hfnil]; rfl
    simp only [hfe, Bool.not_true, Bool.false_eq_true, if_false]
    by_cases hee : l.expDigits.isEmpty = true
    · -- pure integer
      have henil : l.expDigits = [] := by simpa using hee
      have hnet : l.netExp = 0 := by
        unfold NumLit.netExp NumLit.expVal
        rw [henil, hfnil]; simp [digitsVal]
      simp only [hee, Bool.not_true, Bool.false_eq_true, if_false, ← hDI]
      by_cases hneg : l.neg = true
      · simp only [hneg, Bool.not_true, Bool.false_eq_true, if_false]
        by_cases hz : l.sigVal = 0
        · right; right; left
          simp only [hz, decide_true, Bool.true_or, if_true]
          simp [hnet]
        · right; right; right
          have : ¬ (l.sigVal > 2 ^ 63) := by
            have : (10 : Nat) ^ 15 ≤ 2 ^ 63 := by decide
            omega
          simp only [hz, this, decide_false, Bool.or_self, Bool.false_eq_true, if_false]
          simp [hnet]
      · have hneg' : l.neg = false := by simpa using hneg
        right; left
        simp only [hneg', Bool.not_false, if_true]
        simp [hnet]
    · -- exponent only
      left
      simp only [hee, Bool.not_false, if_true]
      obtain ⟨c', cs', hex⟩ : ∃ c' cs', l.expDigits = c' :: cs' := by
        cases hx : l.expDigits with
        | nil => rw [hx] at hee; simp at hee
        | cons a b => exact ⟨a, b, rfl⟩
      unfold parseExponent
      rw [hex]
      simp only [hE c' cs' hex hEb, ← hDI]
      have hnet : l.netExp = (if l.expNeg then -(l.expVal : Int) else (l.expVal : Int)) := by
        unfold NumLit.netExp; rw [hfnil]; simp
      congr 1
      cases hx : l.expNeg
      · simp only [Bool.not_false, if_true]
        rw [hnet, hx] at h1 h2 ⊢
        simp only [Bool.false_eq_true, if_false] at h1 h2 ⊢
        rw [satI32_id _ (by omega) (by omega)]; omega
      · simp only [Bool.not_true, Bool.false_eq_true, if_false]
        rw [hnet, hx] at h1 h2 ⊢
        simp only [if_true] at h1 h2 ⊢
        rw [satI32_id _ (by omega) (by omega)]; omega
  · -- with a fraction
    left
    simp only [hfe, Bool.not_false, if_true]
    unfold parseDecimal
    rw [show ((0 : Nat) : Int) = 0 from rfl, hfrac]
    simp only
    by_cases hee : l.expDigits.isEmpty = true
    · have henil : l.expDigits = [] := by simpa using hee
      simp only [hee, if_true]
      congr 1
      unfold NumLit.netExp NumLit.expVal
      rw [henil]; simp [digitsVal]
    · simp only [hee, Bool.false_eq_true, if_false]
      obtain ⟨c', cs', hex⟩ : ∃ c' cs', l.expDigits = c' :: cs' := by
        cases hx : l.expDigits with
        | nil => rw [hx] at hee; simp at hee
        | cons a b => exact ⟨a, b, rfl⟩
      unfold parseExponent
      rw [hex]
      simp only [hE c' cs' hex hEb]
      congr 1
      unfold NumLit.netExp at h1 h2 ⊢
      cases hx : l.expNeg
      · simp only [Bool.not_false, if_true]
        rw [hx] at h1 h2
        simp only [Bool.false_eq_true, if_false] at h1 h2 ⊢
        rw [satI32_id _ (by omega) (by omega)]; omega
      · simp only [Bool.not_true, Bool.false_eq_true, if_false]
        rw [hx] at h1 h2
        simp only [if_true] at h1 h2 ⊢
        rw [satI32_id _ (by omega) (by omega)]; omega


theorem scale10_zero (D : Nat) : scale10 D 0 = (D, 1) := by
  unfold scale10; simp

/-- **Exactness on the short domain, literal level.** -/
theorem floatOfLiteral_exact (l : NumLit) (hwf : l.WF = true) (hD : l.sigVal < 10 ^ 15)
    (h1 : -22 ≤ l.netExp) (h2 : l.netExp ≤ 22) (hlen : l.fracDigits.length < 2 ^ 30) :
    floatOfLiteral l = roundNE64 l.neg l.exact.1 l.exact.2 := by
  have h53 : l.sigVal < 2 ^ 53 := by
    have : (10 : Nat) ^ 15 < 2 ^ 53 := by decide
    omega
  obtain ⟨hof, _, _⟩ := F64.ofU64_finite l.sigVal (by omega)
  unfold floatOfLiteral NumLit.exact
  rcases partsOfLiteral_short l hwf hD h1 h2 hlen with h | ⟨hn, hneg, h⟩ | ⟨hn, hneg, hz, h⟩ | ⟨hn, hneg, h⟩
  · rw [h]
    simp only [Parts.toF64]
    rw [f64FromParts_exact _ _ _ h53 h1 h2, Bool.not_not]
  · rw [h, hn, hneg, scale10_zero]
    simp only [Parts.toF64]
    exact hof.symm
  · rw [h, hn, hneg, scale10_zero, hz]
    rw [hz] at hof
    simp only [Parts.toF64]
    have := roundNE64_neg false 0 1
    rw [hof] at this; exact this
  · rw [h, hn, hneg, scale10_zero]
    simp only [Parts.toF64, Int.natAbs_neg, Int.natAbs_natCast]
    have := roundNE64_neg false l.sigVal 1
    rw [hof] at this; exact this

/-! ## The f32 target -/

/-- float-path literals: the f32 is the f64 result rounded once -/
theorem toF32_once (p : Parts) (h : ∀ n, p ≠ .u64 n) (h' : ∀ n, p ≠ .i64 n) :
    p.toF32 = p.toF64.map F64.toF32 := by
  cases p with
  | u64 n => exact absurd rfl (h n)
  | i64 n => exact absurd rfl (h' n)
  | _ => rfl

end SJ.Proofs.FloatDefault
