import SJ.Proofs.TypedAgreeMap
/-!
# Integer map keys: `MapKey`'s numeric methods on the quoted key text against `MapKeyDeserializer`'s re-parse of the key
# string (`deserialize_numeric_key!` on both sides) — for ARBITRARY key strings

Both sides accept exactly the keys that are the plain decimal spelling of an integer in range (`-0` for the signed
128-bit type included, as `str::parse` takes it); on such a key both return that integer.
-/
set_option linter.unusedSectionVars false
set_option linter.unusedVariables false

namespace SJ.Proofs.Typed
open SJ SJ.Gen SJ.Model SJ.Model.Typed SJ.Model.Num SJ.Proofs.NumInt
open SJ.Spec.Image (quote escItem strItems)
open SJ.Spec.Grammar (StrItem)
open SJ.Spec.Number (natDigits digitsAux decimal)

/-! ## canonical digit strings are the digits of their value -/

/-- digits, at least one, and a leading `0` stands alone -/
def Canon (ds : Bytes) : Prop := IsDigits ds ∧ ds ≠ [] ∧ ∀ tl, ds = 0x30 :: tl → tl = []

theorem canon_natDigits (n : Nat) : Canon (natDigits n) := by
  obtain ⟨c, tl, h, hc, htl, h0⟩ := natDigits_shape n
  refine ⟨SJ.Proofs.RoundTripNum.isDigits_natDigits n, by rw [h]; simp, fun tl' e => ?_⟩
  rw [h] at e
  cases e
  exact h0 rfl

theorem digitsAux_eq (n : Nat) : ∀ (fuel : Nat), n < fuel → ∀ acc, digitsAux fuel n acc = natDigits n ++ acc := by
  induction n using Nat.strongRecOn with
  | _ n ih =>
    intro fuel hf acc
    cases fuel with
    | zero => omega
    | succ f =>
      by_cases h10 : n < 10
      · simp [digitsAux, natDigits, h10]
      · have hnd : natDigits n = natDigits (n / 10) ++ [UInt8.ofNat (0x30 + n % 10)] := by
          show digitsAux (n + 1) n [] = _
          simp only [digitsAux, h10, if_false]
          exact ih (n / 10) (by omega) n (by omega) _
        simp only [digitsAux, h10, if_false]
        rw [ih (n / 10) (by omega) f (by omega), hnd]
        simp

theorem natDigits_step (n : Nat) (h : 10 ≤ n) : natDigits n = natDigits (n / 10) ++ [UInt8.ofNat (0x30 + n % 10)] := by
  show digitsAux (n + 1) n [] = _
  have h10 : ¬ n < 10 := by omega
  simp only [digitsAux, h10, if_false]
  exact digitsAux_eq (n / 10) n (by omega) _

theorem ofNat_dig (c : UInt8) (h : (0x30 : UInt8) ≤ c ∧ c ≤ 0x39) : UInt8.ofNat (0x30 + dig c) = c := by
  have h1 := UInt8.le_iff_toNat_le.1 h.1
  change 48 ≤ c.toNat at h1
  simp only [dig]
  have : 0x30 + (c.toNat - 0x30) = c.toNat := by omega
  rw [this]
  simp

theorem natOfDigits_snoc (ds : Bytes) (c : UInt8) : natOfDigits (ds ++ [c]) = natOfDigits ds * 10 + dig c := by
  simp [natOfDigits, List.foldl_append]

theorem snoc_cases {α : Type} : ∀ l : List α, l = [] ∨ ∃ init x, l = init ++ [x]
  | [] => .inl rfl
  | a :: r => by
    rcases snoc_cases r with rfl | ⟨init, x, rfl⟩
    · exact .inr ⟨[], a, rfl⟩
    · exact .inr ⟨a :: init, x, rfl⟩

/-- a canonical digit string is the decimal spelling of its value -/
theorem natDigits_natOfDigits : ∀ (k : Nat) (ds : Bytes), ds.length = k → Canon ds → natDigits (natOfDigits ds) = ds := by
  intro k
  induction k using Nat.strongRecOn with
  | _ k ihk =>
    intro ds hlen hcan
    rcases snoc_cases ds with rfl | ⟨init, l, rfl⟩
    · exact absurd rfl hcan.2.1
    obtain ⟨hd, _, h0⟩ := hcan
    have ih : Canon init → natDigits (natOfDigits init) = init :=
      ihk init.length (by rw [← hlen]; simp) init rfl
    have hl := hd l (by simp)
    have hdl := dig_lt_10 l hl
    rw [natOfDigits_snoc]
    cases init with
    | nil =>
      simp only [natOfDigits, List.foldl_nil, Nat.zero_mul, Nat.zero_add]
      have : natDigits (dig l) = [UInt8.ofNat (0x30 + dig l)] := by
        simp [natDigits, digitsAux, hdl, Nat.mod_eq_of_lt hdl]
      rw [this, ofNat_dig l hl]; rfl
    | cons c r =>
      have hci : Canon (c :: r) := by
        refine ⟨fun x hx => hd x (by simp at hx ⊢; rcases hx with h | h <;> simp [h]), by simp, fun tl e => ?_⟩
        cases e
        have := h0 (r ++ [l]) (by simp)
        simp at this
      have hpos : 0 < natOfDigits (c :: r) := by
        apply natOfDigits_pos _ hci.1 (by simp)
        intro tl e
        cases e
        have := h0 (r ++ [l]) (by simp)
        simp at this
      rw [natDigits_step _ (by omega)]
      have e1 : (natOfDigits (c :: r) * 10 + dig l) / 10 = natOfDigits (c :: r) := by omega
      have e2 : (natOfDigits (c :: r) * 10 + dig l) % 10 = dig l := by omega
      rw [e1, e2, ih hci, ofNat_dig l hl]

/-! ## digits and `-` are written as they are -/

def plainB (c : UInt8) : Bool := decide (0x20 ≤ c) && c != 0x22 && c != 0x5c

theorem escItem_plain_table : ∀ n : Nat, n < 256 → plainB (UInt8.ofNat n) = true → escItem (UInt8.ofNat n) = .raw (UInt8.ofNat n) := by
  decide +kernel

theorem escItem_plain (c : UInt8) (h : plainB c = true) : escItem c = .raw c := by
  simpa using escItem_plain_table c.toNat c.toNat_lt (by simpa using h)

theorem strBody_cons_plain (c : UInt8) (h : plainB c = true) (r : Bytes) : strBody (c :: r) = c :: strBody r := by
  rw [strBody_cons, escItem_plain c h]; rfl

theorem digit_plain {c : UInt8} (h : (0x30 : UInt8) ≤ c ∧ c ≤ 0x39) : plainB c = true := by
  have h1 := UInt8.le_iff_toNat_le.1 h.1
  have h2 := UInt8.le_iff_toNat_le.1 h.2
  change 48 ≤ c.toNat at h1
  change c.toNat ≤ 57 at h2
  simp only [plainB, Bool.and_eq_true, decide_eq_true_eq, bne_iff_ne, ne_eq]
  refine ⟨⟨UInt8.le_iff_toNat_le.2 (by change 32 ≤ c.toNat; omega), ?_⟩, ?_⟩ <;> (intro e; subst e; simp at h1 h2)

theorem strBody_digits : ∀ (ds r : Bytes), IsDigits ds → strBody (ds ++ r) = ds ++ strBody r
  | [], r, _ => rfl
  | c :: ds, r, h => by
    rw [List.cons_append, strBody_cons_plain c (digit_plain (h c (by simp))),
      strBody_digits ds r fun x hx => h x (by simp [hx])]
    rfl

theorem strBody_nil : strBody [] = [] := rfl

/-- a key splits into its leading digits and the rest -/
theorem digit_split : ∀ k : Bytes, ∃ ds junk, k = ds ++ junk ∧ IsDigits ds ∧
    (junk = [] ∨ ∃ j r, junk = j :: r ∧ Machine.isDigit j = false)
  | [] => ⟨[], [], rfl, fun _ h => by simp at h, .inl rfl⟩
  | c :: k => by
    by_cases hc : Machine.isDigit c = true
    · obtain ⟨ds, junk, h1, h2, h3⟩ := digit_split k
      refine ⟨c :: ds, junk, by rw [h1]; rfl, fun x hx => ?_, h3⟩
      rcases List.mem_cons.mp hx with rfl | hx
      · exact (isDigit_iff _).1 hc
      · exact h2 x hx
    · exact ⟨[], c :: k, rfl, fun _ h => by simp at h, .inr ⟨c, k, rfl, by simpa using hc⟩⟩

/-- the byte that follows the digits in the quoted text: the closing quote, or a non-digit that is not a quote -/
theorem after_digits (junk X : Bytes) (hj : junk = [] ∨ ∃ j r, junk = j :: r ∧ Machine.isDigit j = false) :
    ∃ z Y, strBody junk ++ 0x22 :: X = z :: Y ∧ Machine.isDigit z = false ∧ (z = 0x22 → junk = [] ∧ Y = X) ∧
      (∀ j r, junk = j :: r → z = j ∨ z = 0x5c) := by
  rcases hj with rfl | ⟨j, r, rfl, hjd⟩
  · exact ⟨0x22, X, rfl, by decide, fun _ => ⟨rfl, rfl⟩, fun j r e => by cases e⟩
  · rw [strBody_cons]
    rcases item_bytes_cases j with ⟨hb, h2, _⟩ | ⟨tl, hb⟩
    · rw [hb]
      exact ⟨j, _, rfl, hjd, fun e => absurd e h2, fun j' r' e => by cases e; exact .inl rfl⟩
    · rw [hb]
      exact ⟨0x5c, _, rfl, by decide, fun e => absurd e (by decide), fun j' r' e => Or.inr rfl⟩

/-! ## what the typed scanners do on digits followed by a non-digit -/

section
variable {env : Env}

theorem scanAfterInt_int (neg : Bool) (int : Bytes) (z : UInt8) (Y : Bytes) (pos : Nat) (parts : Parts) (r : Bytes) (p : Nat)
    (h : scanAfterInt env neg int (z :: Y) pos = .ok parts r p) (hf : parts.frac = none) (he : parts.exp = none) :
    r = z :: Y ∧ p = pos := by
  have h3 := (scanAfterInt_parts neg int (z :: Y) pos parts r p h).2.2
  unfold scanAfterInt at h
  simp only at h
  by_cases h1 : (z == 0x2e) = true
  · exact absurd hf (h3 z Y rfl h1)
  · simp only [h1, Bool.false_eq_true, if_false] at h
    split at h
    · exact absurd he (scanExp_parts _ _ _ _ _ _ _ _ h).1
    · cases h; exact ⟨rfl, rfl⟩

/-- `parse_integer` on digits followed by a non-digit: the digits are canonical, and a literal without fraction and
    exponent ends right after them -/
theorem scanInteger_inv (neg : Bool) (ds : Bytes) (z : UInt8) (Y : Bytes) (pos : Nat) (hd : IsDigits ds)
    (hz : Machine.isDigit z = false) (parts : Parts) (r : Bytes) (p : Nat)
    (h : scanInteger env neg (ds ++ z :: Y) pos = .ok parts r p) :
    Canon ds ∧ parts.int = ds ∧ parts.neg = neg ∧
      (parts.frac = none → parts.exp = none → r = z :: Y ∧ p = pos + ds.length) := by
  cases ds with
  | nil =>
    simp only [List.nil_append, scanInteger] at h
    have : (z == 0x30) = false := by
      cases hz0 : z == 0x30 with
      | false => rfl
      | true => have : z = 0x30 := by simpa using hz0
                subst this; simp [Machine.isDigit] at hz
    simp [this, hz] at h
  | cons c ds' =>
    have hc := (isDigit_iff c).2 (hd c (by simp))
    have hd' : IsDigits ds' := fun x hx => hd x (by simp [hx])
    simp only [List.cons_append, scanInteger] at h
    by_cases h0 : (c == 0x30) = true
    · simp only [h0, if_true] at h
      cases ds' with
      | nil =>
        simp only [List.nil_append, hz, Bool.false_eq_true, if_false] at h
        have hp := scanAfterInt_parts _ _ _ _ _ _ _ h
        refine ⟨⟨hd, by simp, fun tl e => by cases e; rfl⟩, hp.1, hp.2.1, fun hf he => ?_⟩
        have := scanAfterInt_int _ _ _ _ _ _ _ _ h hf he
        simpa using this
      | cons d ds'' =>
        have hdd := (isDigit_iff d).2 (hd d (by simp))
        simp [hdd] at h
    · simp only [h0, Bool.false_eq_true, if_false, hc, if_true] at h
      rw [digitsOf_term ds' (z :: Y) hd' (.inr ⟨z, Y, rfl, hz⟩)] at h
      simp only at h
      have hp := scanAfterInt_parts _ _ _ _ _ _ _ h
      refine ⟨⟨hd, by simp, fun tl e => ?_⟩, hp.1, hp.2.1, fun hf he => ?_⟩
      · cases e; simp at h0
      · have := scanAfterInt_int _ _ _ _ _ _ _ _ h hf he
        simp only [List.length_cons]
        exact ⟨this.1, by rw [this.2]; omega⟩

theorem scanDigits_term (hflt : env.flt = false) (z : UInt8) (Y : Bytes) (hz : Machine.isDigit z = false) :
    ∀ (ds acc : Bytes) (p : Nat), IsDigits ds →
      scanDigits env acc (ds ++ z :: Y) p = .ok (acc.reverse ++ ds) (z :: Y) (p + ds.length)
  | [], acc, p, _ => by simp [scanDigits, hz]
  | x :: xs, acc, p, hd => by
    have hx : Machine.isDigit x = true := (isDigit_iff x).2 (hd x (by simp))
    simp only [List.cons_append, scanDigits, hx, if_true]
    rw [scanDigits_term hflt z Y hz xs (x :: acc) (p + 1) (fun c hc => hd c (by simp [hc]))]
    simp only [List.reverse_cons, List.append_assoc, List.singleton_append, List.length_cons]
    congr 1; omega

/-- `scan_integer128` on digits followed by a non-digit -/
theorem scanInteger128_inv (hflt : env.flt = false) (ds : Bytes) (z : UInt8) (Y : Bytes) (pos : Nat) (hd : IsDigits ds)
    (hz : Machine.isDigit z = false) (ds' r : Bytes) (p : Nat)
    (h : scanInteger128 env (ds ++ z :: Y) pos = .ok ds' r p) :
    Canon ds ∧ ds' = ds ∧ r = z :: Y ∧ p = pos + ds.length := by
  cases ds with
  | nil =>
    simp only [List.nil_append, scanInteger128] at h
    have : (z == 0x30) = false := by
      cases hz0 : z == 0x30 with
      | false => rfl
      | true => have : z = 0x30 := by simpa using hz0
                subst this; simp [Machine.isDigit] at hz
    simp [this, hz] at h
  | cons c ds0 =>
    have hc := (isDigit_iff c).2 (hd c (by simp))
    have hd0 : IsDigits ds0 := fun x hx => hd x (by simp [hx])
    simp only [List.cons_append, scanInteger128] at h
    by_cases h0 : (c == 0x30) = true
    · simp only [h0, if_true] at h
      cases ds0 with
      | nil =>
        simp only [List.nil_append, hz, Bool.false_eq_true, if_false] at h
        cases h
        exact ⟨⟨hd, by simp, fun tl e => by cases e; rfl⟩, rfl, rfl, rfl⟩
      | cons d ds1 =>
        have hdd := (isDigit_iff d).2 (hd d (by simp))
        simp [hdd] at h
    · simp only [h0, Bool.false_eq_true, if_false, hc, if_true] at h
      rw [scanDigits_term hflt z Y hz ds0 [c] (pos + 1) hd0] at h
      cases h
      refine ⟨⟨hd, by simp, fun tl e => by cases e; simp at h0⟩, by simp, rfl, by simp only [List.length_cons]; omega⟩

/-! ## the typed key parsers: a successful parse tells the shape of the key -/

theorem int_ne_f32 (w : IntTy) : (env.cfg.fr && (NumTy.int w == NumTy.f32)) = false := by
  have : (NumTy.int w == NumTy.f32) = false := by show decide (NumTy.int w = NumTy.f32) = false; simp
  rw [this]; simp

/-- `deserialize_number` with an integer visitor succeeds only on a literal without fraction and exponent -/
theorem deNumber_ok_inv (w : IntTy) (b : UInt8) (R : Bytes) (p0 : Nat) (v : TVal) (r' : Bytes) (p' : Nat)
    (hb : Machine.isWs b = false) (hns : isNumStart b = true)
    (h : deNumber env (.int w) (b :: R) p0 = .ok v r' p') :
    ∃ parts, scanNumber env (b :: R) p0 = .ok parts r' p' ∧ parts.frac = none ∧ parts.exp = none := by
  unfold deNumber at h
  rw [withPeek_cons env _ hb] at h
  simp only [hns, if_true] at h
  obtain ⟨parts, r1, p1, hs, hk⟩ := bind_ok h
  simp only [int_ne_f32, Bool.false_eq_true, if_false] at hk
  cases hpn : parserNumber env parts with
  | none => rw [hpn] at hk; simp at hk
  | some n =>
    rw [hpn] at hk
    simp only at hk
    cases hv : visitNumber (.int w) n with
    | error e => rw [hv] at hk; simp [ofVisit, fixPos] at hk
    | ok t =>
      rw [hv] at hk
      simp only [ofVisit, fixPos, Res.ok.injEq] at hk
      obtain ⟨rfl, rfl, rfl⟩ := hk
      have hf := intFacts_of_visit env w parts (scanNumber_ok _ _ _ _ _ hs).1 n t hpn hv
      exact ⟨parts, hs, hf.1, hf.2.1⟩

/-- the 128-bit methods: a success is a success of `scan_integer128` (after the sign, for the signed type) -/
theorem deInt128_ok_inv (w : IntTy) (b : UInt8) (R : Bytes) (p0 : Nat) (v : TVal) (r' : Bytes) (p' : Nat)
    (hb : Machine.isWs b = false) (h : deInt128 env w (b :: R) p0 = .ok v r' p') :
    (b = 0x2d ∧ ∃ ds', scanInteger128 env R (p0 + 1) = .ok ds' r' p') ∨
    (b ≠ 0x2d ∧ ∃ ds', scanInteger128 env (b :: R) p0 = .ok ds' r' p') := by
  unfold deInt128 at h
  rw [withPeek_cons env _ hb] at h
  simp only at h
  by_cases hm : (b == 0x2d) = true
  · simp only [hm, if_true] at h
    split at h
    · obtain ⟨ds', r1, p1, hs, hk⟩ := bind_ok h
      split at hk
      · simp only [Res.ok.injEq] at hk
        obtain ⟨_, rfl, rfl⟩ := hk
        exact .inl ⟨by simpa using hm, ds', hs⟩
      · simp at hk
    · simp at h
  · simp only [hm, Bool.false_eq_true, if_false] at h
    obtain ⟨ds', r1, p1, hs, hk⟩ := bind_ok h
    split at hk
    · simp only [Res.ok.injEq] at hk
      obtain ⟨_, rfl, rfl⟩ := hk
      exact .inr ⟨by simpa using hm, ds', hs⟩
    · simp at hk

/-- optional `-`, then canonical digits -/
def KeyShape (k : Bytes) (neg : Bool) (ds : Bytes) : Prop := Canon ds ∧ k = (if neg then [0x2d] else []) ++ ds

theorem minus_plain : plainB 0x2d = true := by decide

/-- `deInt` on (optional `-`, digits, a non-digit `z`): a success stops right at `z`, and the digits are canonical -/
theorem deInt_ok_inv (hflt : env.flt = false) (w : IntTy) (neg : Bool) (ds : Bytes) (z : UInt8) (Y : Bytes) (p0 : Nat)
    (hd : IsDigits ds) (hz : Machine.isDigit z = false) (hne : neg = false → ds ≠ []) (v : TVal) (r' : Bytes) (p' : Nat)
    (h : deInt env w ((if neg then [0x2d] else []) ++ (ds ++ z :: Y)) p0 = .ok v r' p') :
    Canon ds ∧ r' = z :: Y := by
  -- the first byte
  obtain ⟨b, R, hbR, hbw, hbn, hcase⟩ : ∃ b R, (if neg then [0x2d] else []) ++ (ds ++ z :: Y) = b :: R ∧ Machine.isWs b = false ∧
      isNumStart b = true ∧ ((neg = true ∧ b = 0x2d ∧ R = ds ++ z :: Y) ∨
        (neg = false ∧ b ≠ 0x2d ∧ b :: R = ds ++ z :: Y)) := by
    cases neg with
    | true => exact ⟨0x2d, _, rfl, by decide, by decide, .inl ⟨rfl, rfl, rfl⟩⟩
    | false =>
      cases ds with
      | nil => exact absurd rfl (hne rfl)
      | cons c ds' =>
        have hc := hd c (by simp)
        have hcd := (isDigit_iff c).2 hc
        refine ⟨c, ds' ++ z :: Y, rfl, isDigit_not_ws hcd, by simp [isNumStart, hcd], .inr ⟨rfl, ?_, rfl⟩⟩
        intro e; subst e; simp [Machine.isDigit] at hcd
  rw [hbR] at h
  unfold deInt at h
  split at h
  · -- 128-bit
    rcases deInt128_ok_inv w b R p0 v r' p' hbw h with ⟨hb, ds', hs⟩ | ⟨hb, ds', hs⟩
    · rcases hcase with ⟨_, _, hR⟩ | ⟨_, hnb, _⟩
      · rw [hR] at hs
        have := scanInteger128_inv hflt ds z Y _ hd hz ds' r' p' hs
        exact ⟨this.1, this.2.2.1⟩
      · exact absurd hb hnb
    · rcases hcase with ⟨_, hb', _⟩ | ⟨_, _, hR⟩
      · exact absurd hb' hb
      · rw [hR] at hs
        have := scanInteger128_inv hflt ds z Y _ hd hz ds' r' p' hs
        exact ⟨this.1, this.2.2.1⟩
  · obtain ⟨parts, hs, hf, he⟩ := deNumber_ok_inv w b R p0 v r' p' hbw hbn h
    unfold scanNumber at hs
    rcases hcase with ⟨_, hb, hR⟩ | ⟨_, hnb, hR⟩
    · subst hb
      simp only [beq_self_eq_true, if_true] at hs
      rw [hR] at hs
      have := scanInteger_inv true ds z Y _ hd hz parts r' p' hs
      exact ⟨this.1, (this.2.2.2 hf he).1⟩
    · have hb2 : (b == 0x2d) = false := by simpa using hnb
      simp only [hb2, Bool.false_eq_true, if_false] at hs
      rw [hR] at hs
      have := scanInteger_inv false ds z Y _ hd hz parts r' p' hs
      exact ⟨this.1, (this.2.2.2 hf he).1⟩

/-- a key that `MapKey`'s numeric method accepts is an optional `-` followed by canonical digits -/
theorem keyInt_typed_inv (hflt : env.flt = false) (w : IntTy) (k tl : Bytes) (pos : Nat) (a : TVal) (r : Bytes) (p : Nat)
    (h : keyInt env w (quote k ++ 0x3a :: tl) pos = .ok a r p) : ∃ neg ds, KeyShape k neg ds := by
  rw [quote_eq] at h
  unfold keyInt at h
  simp only [List.cons_append, List.append_assoc, List.drop_succ_cons, List.drop_zero, List.nil_append] at h
  -- the sign
  obtain ⟨neg, body, hk, hbody⟩ : ∃ neg body, k = (if neg then [0x2d] else []) ++ body ∧ (neg = false → ∀ r, body ≠ 0x2d :: r) := by
    cases k with
    | nil => exact ⟨false, [], rfl, fun _ r e => by cases e⟩
    | cons c k' =>
      by_cases hc : c = 0x2d
      · exact ⟨true, k', by rw [hc]; rfl, fun e => by cases e⟩
      · exact ⟨false, c :: k', rfl, fun _ r e => by cases e; exact hc rfl⟩
  obtain ⟨ds, junk, hsplit, hd, hjunk⟩ := digit_split body
  obtain ⟨z, Y, htxt, hz, hzq, hzj⟩ := after_digits junk (0x3a :: tl) hjunk
  have hText : strBody k ++ 0x22 :: 0x3a :: tl = (if neg then [0x2d] else []) ++ (ds ++ z :: Y) := by
    rw [hk, hsplit]
    cases neg with
    | true =>
      simp only [if_true, List.singleton_append]
      rw [strBody_cons_plain _ minus_plain, strBody_digits ds junk hd, List.cons_append, List.append_assoc, htxt]
    | false =>
      simp only [Bool.false_eq_true, if_false, List.nil_append]
      rw [strBody_digits ds junk hd, List.append_assoc, htxt]
  rw [hText] at h
  -- without a sign there is at least one digit: otherwise the first byte does not start a number
  have hne : neg = false → ds ≠ [] := by
    intro hn hds
    subst hn; subst hds
    simp only [Bool.false_eq_true, if_false, List.nil_append] at h
    have hzn : isNumStart z = false := by
      have hzm : (z == 0x2d) = false := by
        cases hzm : z == 0x2d with
        | false => rfl
        | true =>
          have hz' : z = 0x2d := by simpa using hzm
          rcases hjunk with rfl | ⟨j, r', rfl, _⟩
          · simp [strBody_nil] at htxt; rw [← htxt.1] at hz'; cases hz'
          · rcases hzj j r' rfl with e | e
            · rw [hz'] at e
              exact absurd (by rw [hsplit, ← e]; rfl) (hbody rfl r')
            · rw [hz'] at e; cases e
      simp [isNumStart, hzm, hz]
    simp [hzn] at h
  -- the first byte starts a number: go on with `deInt`
  cases htx : (if neg then [0x2d] else []) ++ (ds ++ z :: Y) with
  | nil => cases neg <;> cases ds <;> simp at htx
  | cons b R =>
    rw [htx] at h
    simp only at h
    split at h
    · simp at h
    · obtain ⟨v, r', p', hde, hq⟩ := bind_ok h
      rw [← htx] at hde
      have := deInt_ok_inv hflt w neg ds z Y (pos + 1) hd hz hne v r' p' hde
      obtain ⟨hcan, hr'⟩ := this
      subst hr'
      simp only at hq
      split at hq
      · rename_i hzq'
        have := hzq (by simpa using hzq')
        refine ⟨neg, ds, hcan, ?_⟩
        rw [hk, hsplit, this.1]; simp
      · simp at hq

end

/-! ## the value side: `MapKeyDeserializer`'s parsers on (digits, a non-digit or the end) -/

theorem gdigit_iff (c : UInt8) : Spec.Grammar.isDigit c = true ↔ ((0x30 : UInt8) ≤ c ∧ c ≤ 0x39) := by
  simp [Spec.Grammar.isDigit]

theorem gdigit_eq (c : UInt8) : Spec.Grammar.isDigit c = Machine.isDigit c := rfl

/-- what follows the leading digits of a key -/
def JunkOK (junk : Bytes) : Prop := junk = [] ∨ ∃ j r, junk = j :: r ∧ Machine.isDigit j = false

theorem keyParseNumber_map (positive : Bool) (n : Nat) (junk : Bytes) :
    FromValue.keyParseNumber positive n junk = (FromValue.keyParseNumber positive n junk).map fun x => (x.1, junk) := by
  unfold FromValue.keyParseNumber
  repeat' split
  all_goals first | rfl | (simp only []; split <;> rfl)

theorem keyParseNumber_rest (positive : Bool) (n : Nat) (junk : Bytes) (pn : FromValue.PN) (rest : Bytes)
    (h : FromValue.keyParseNumber positive n junk = some (pn, rest)) : rest = junk := by
  rw [keyParseNumber_map] at h
  cases hk : FromValue.keyParseNumber positive n junk with
  | none => rw [hk] at h; simp at h
  | some x => rw [hk] at h; simp at h; exact h.2.symm

/-- a leading `0` followed by another digit -/
def leadZero : Bytes → Bool
  | c :: _ :: _ => c == 0x30
  | _ => false

theorem keyDigits_spec (positive : Bool) (junk : Bytes) (hj : JunkOK junk) : ∀ (ds : Bytes) (sig : Nat), IsDigits ds → sig ≤ u64Max →
    FromValue.keyDigits positive sig (ds ++ junk) =
      if val sig ds > u64Max then none else FromValue.keyParseNumber positive (val sig ds) junk
  | [], sig, _, hs => by
    have : ¬ val sig [] > u64Max := by simp [val]; omega
    simp only [List.nil_append, this, if_false]
    rcases hj with rfl | ⟨j, r, rfl, hjd⟩
    · simp [FromValue.keyDigits, val]
    · simp [FromValue.keyDigits, gdigit_eq, hjd, val]
  | c :: ds, sig, hd, hs => by
    have hc := hd c (by simp)
    have hcd : Spec.Grammar.isDigit c = true := (gdigit_iff c).2 hc
    simp only [List.cons_append, FromValue.keyDigits, hcd, if_true, overflowMacro_spec _ _ _ (dig_lt_10 c hc), val_cons]
    by_cases hov : sig * 10 + dig c > u64Max
    · have := le_val (sig * 10 + dig c) ds
      have h2 : val (sig * 10 + dig c) ds > u64Max := by omega
      simp [hov, h2]
    · simp only [hov, decide_false, Bool.false_eq_true, if_false]
      exact keyDigits_spec positive junk hj ds _ (fun x hx => hd x (by simp [hx])) (by omega)

theorem not_gdigit19_of_not_digit {j : UInt8} (h : Machine.isDigit j = false) : Spec.Grammar.isDigit19 j = false := by
  cases h19 : Spec.Grammar.isDigit19 j with
  | false => rfl
  | true =>
    simp only [Spec.Grammar.isDigit19, Bool.and_eq_true, decide_eq_true_eq] at h19
    have : Machine.isDigit j = true := by
      simp only [Machine.isDigit, Bool.and_eq_true, decide_eq_true_eq]
      refine ⟨?_, h19.2⟩
      have := UInt8.le_iff_toNat_le.1 h19.1
      exact UInt8.le_iff_toNat_le.2 (by change 48 ≤ j.toNat; change 49 ≤ j.toNat at this; omega)
    rw [h] at this; cases this

theorem not_zero_of_not_digit {j : UInt8} (h : Machine.isDigit j = false) : (j == 0x30) = false := by
  cases h0 : j == 0x30 with
  | false => rfl
  | true => have : j = 0x30 := by simpa using h0
            subst this; simp [Machine.isDigit] at h

theorem gdigit19_of_digit {c : UInt8} (h : (0x30 : UInt8) ≤ c ∧ c ≤ 0x39) (h0 : (c == 0x30) = false) : Spec.Grammar.isDigit19 c = true := by
  have h1 := UInt8.le_iff_toNat_le.1 h.1
  change 48 ≤ c.toNat at h1
  have hne : c.toNat ≠ 48 := fun e => by
    have : c = 0x30 := UInt8.toNat_inj.1 (by simpa using e)
    simp [this] at h0
  simp only [Spec.Grammar.isDigit19, Bool.and_eq_true, decide_eq_true_eq]
  exact ⟨UInt8.le_iff_toNat_le.2 (by change 49 ≤ c.toNat; omega), h.2⟩

/-- `parse_integer` of `MapKeyDeserializer` on (digits, junk): canonical digits, then `parse_number` at the junk -/
theorem keyParseInteger_spec (positive : Bool) (ds junk : Bytes) (hd : IsDigits ds) (hj : JunkOK junk) :
    FromValue.keyParseInteger positive (ds ++ junk) =
      if ds.isEmpty || leadZero ds then none
      else if natOfDigits ds > u64Max then none
      else FromValue.keyParseNumber positive (natOfDigits ds) junk := by
  cases ds with
  | nil =>
    simp only [List.nil_append, List.isEmpty_nil, Bool.true_or, if_true]
    rcases hj with rfl | ⟨j, r, rfl, hjd⟩
    · rfl
    · simp [FromValue.keyParseInteger, not_zero_of_not_digit hjd, not_gdigit19_of_not_digit hjd]
  | cons c ds' =>
    have hc := hd c (by simp)
    have hd' : IsDigits ds' := fun x hx => hd x (by simp [hx])
    simp only [List.cons_append, FromValue.keyParseInteger, List.isEmpty_cons, Bool.false_or]
    by_cases h0 : (c == 0x30) = true
    · have hc0 : c = 0x30 := by simpa using h0
      subst hc0
      simp only [beq_self_eq_true, if_true]
      cases ds' with
      | nil =>
        have hval : natOfDigits [0x30] = 0 := by decide
        have : ¬ (0 > u64Max) := by simp
        simp only [List.nil_append, leadZero, Bool.false_eq_true, if_false, hval, this]
        rcases hj with rfl | ⟨j, r, rfl, hjd⟩
        · rfl
        · simp [gdigit_eq, hjd]
      | cons d tl =>
        have hdd : Spec.Grammar.isDigit d = true := (gdigit_iff d).2 (hd d (by simp))
        simp [hdd, leadZero]
    · have h0' : (c == 0x30) = false := by simpa using h0
      have hlz : leadZero (c :: ds') = false := by cases ds' <;> simp [leadZero, h0']
      simp only [h0', Bool.false_eq_true, if_false, gdigit19_of_digit hc h0', if_true, hlz]
      rw [keyDigits_spec positive junk hj ds' (dig c) hd' (by have := dig_lt_10 c hc; simp [u64Max]; omega)]
      have : val (dig c) ds' = natOfDigits (c :: ds') := by
        rw [natOfDigits_eq_val, val_cons]; simp
      rw [this]

theorem takeWhile_digits (ds junk : Bytes) (hd : IsDigits ds) (hj : JunkOK junk) :
    (ds ++ junk).takeWhile Spec.Grammar.isDigit = ds ∧ (ds ++ junk).dropWhile Spec.Grammar.isDigit = junk := by
  induction ds with
  | nil =>
    rcases hj with rfl | ⟨j, r, rfl, hjd⟩
    · simp
    · simp [gdigit_eq, hjd]
  | cons c ds ih =>
    have hcd : Spec.Grammar.isDigit c = true := (gdigit_iff c).2 (hd c (by simp))
    have := ih (fun x hx => hd x (by simp [hx]))
    simp [hcd, this.1, this.2]

/-- `scan_integer128` of `MapKeyDeserializer` -/
theorem vscan128_spec (ds junk : Bytes) (hd : IsDigits ds) (hj : JunkOK junk) :
    FromValue.scanInteger128 (ds ++ junk) =
      if ds.isEmpty || leadZero ds then none else some (ds, junk) := by
  cases ds with
  | nil =>
    simp only [List.nil_append, List.isEmpty_nil, Bool.true_or, if_true]
    rcases hj with rfl | ⟨j, r, rfl, hjd⟩
    · rfl
    · simp [FromValue.scanInteger128, not_zero_of_not_digit hjd, not_gdigit19_of_not_digit hjd]
  | cons c ds' =>
    have hc := hd c (by simp)
    have hd' : IsDigits ds' := fun x hx => hd x (by simp [hx])
    simp only [List.cons_append, FromValue.scanInteger128, List.isEmpty_cons, Bool.false_or]
    by_cases h0 : (c == 0x30) = true
    · have hc0 : c = 0x30 := by simpa using h0
      subst hc0
      simp only [beq_self_eq_true, if_true]
      cases ds' with
      | nil =>
        simp only [List.nil_append, leadZero, Bool.false_eq_true, if_false]
        rcases hj with rfl | ⟨j, r, rfl, hjd⟩
        · rfl
        · simp [gdigit_eq, hjd]
      | cons d tl =>
        have hdd : Spec.Grammar.isDigit d = true := (gdigit_iff d).2 (hd d (by simp))
        simp [hdd, leadZero]
    · have h0' : (c == 0x30) = false := by simpa using h0
      have hlz : leadZero (c :: ds') = false := by cases ds' <;> simp [leadZero, h0']
      have htw := takeWhile_digits ds' junk hd' hj
      simp only [h0', Bool.false_eq_true, if_false, gdigit19_of_digit hc h0', if_true, hlz, htw.1, htw.2]

theorem canon_iff (ds : Bytes) (hd : IsDigits ds) : Canon ds ↔ (ds.isEmpty || leadZero ds) = false := by
  constructor
  · rintro ⟨_, hne, h0⟩
    cases ds with
    | nil => exact absurd rfl hne
    | cons c r =>
      cases r with
      | nil => simp [leadZero]
      | cons d tl =>
        simp only [List.isEmpty_cons, Bool.false_or, leadZero]
        cases hc : c == 0x30 with
        | false => rfl
        | true =>
          have : c = 0x30 := by simpa using hc
          subst this
          have := h0 (d :: tl) rfl
          cases this
  · intro h
    refine ⟨hd, ?_, fun tl e => ?_⟩
    · intro e; subst e; simp at h
    · subst e
      cases tl with
      | nil => rfl
      | cons d tl' => simp [leadZero] at h

/-! ## `MapKeyDeserializer` on a key: what it returns, and on which keys -/

/-- the 8- to 64-bit branch of `deserialize_numeric_key!` on the value side -/
def keyInt64 (w : IntTy) (c : UInt8) (r : Bytes) : FromValue.R :=
  match (if c == 0x2d then FromValue.keyParseInteger false r else FromValue.keyParseInteger true (c :: r)) with
  | none => FromValue.fail
  | some (pn, rest) =>
    match (match pn with | .u64 n => FromValue.visitInt w n | .i64 n => FromValue.visitInt w n) with
    | .error e => .error e
    | .ok t => if rest.isEmpty then .ok t else FromValue.fail

theorem keyInt_64 (w : IntTy) (h : is128 w = false) (c : UInt8) (r : Bytes) :
    FromValue.keyInt w (c :: r) = if !(Spec.Grammar.isDigit c || c == 0x2d) then FromValue.fail else keyInt64 w c r := by
  cases w <;> first | rfl | simp [is128, IntTy.bits] at h

/-- what both sides return on (optional `-`, canonical digits of value `n`) -/
def keySpec (w : IntTy) (neg : Bool) (n : Nat) : FromValue.R :=
  if neg then
    (if n = 0 then (if is128 w && w.signed then .ok (.int 0) else FromValue.fail) else FromValue.visitInt w (-(n : Int)))
  else FromValue.visitInt w n

theorem visitInt_big (w : IntTy) (h : is128 w = false) (x : Int) (hx : x < -(2 ^ 63 : Int) ∨ (2 ^ 64 : Int) ≤ x) :
    FromValue.visitInt w x = FromValue.fail := by
  unfold FromValue.visitInt
  split
  · rename_i hr
    have := small_of_inRange w (by simp [h]) x hr
    omega
  · rfl

theorem junkOK_nil : JunkOK [] := .inl rfl

theorem minus_not_digit : Spec.Grammar.isDigit 0x2d = false := by decide

theorem canon_head_digit {ds : Bytes} (h : Canon ds) : ∃ c r, ds = c :: r ∧ Spec.Grammar.isDigit c = true ∧ (c == 0x2d) = false := by
  obtain ⟨hd, hne, _⟩ := h
  cases ds with
  | nil => exact absurd rfl hne
  | cons c r =>
    have hc := hd c (by simp)
    refine ⟨c, r, rfl, (gdigit_iff c).2 hc, ?_⟩
    have h1 := UInt8.le_iff_toNat_le.1 hc.1
    change 48 ≤ c.toNat at h1
    simp only [beq_eq_false_iff_ne, ne_eq]
    intro e; subst e; simp at h1

/-- the value side on a key of the shape -/
theorem keyInt_value_shape (w : IntTy) (k : Bytes) (neg : Bool) (ds : Bytes) (h : KeyShape k neg ds) :
    FromValue.keyInt w k = keySpec w neg (natOfDigits ds) := by
  obtain ⟨hcan, hk⟩ := h
  have hd := hcan.1
  have hcb := (canon_iff ds hd).1 hcan
  obtain ⟨c, r, hds, hcd, hcm⟩ := canon_head_digit hcan
  have hp64 : ∀ positive, FromValue.keyParseInteger positive ds =
      if natOfDigits ds > u64Max then none else FromValue.keyParseNumber positive (natOfDigits ds) [] := by
    intro positive
    have := keyParseInteger_spec positive ds [] hd junkOK_nil
    simpa [hcb] using this
  have hp128 : FromValue.scanInteger128 ds = some (ds, []) := by
    have := vscan128_spec ds [] hd junkOK_nil
    simpa [hcb] using this
  have hne : ds ≠ [] := hcan.2.1
  by_cases h128 : is128 w = true
  · -- the 128-bit methods
    have hw : w = .i128 ∨ w = .u128 := by cases w <;> simp [is128, IntTy.bits] at h128 <;> simp
    cases neg with
    | true =>
      simp only [if_true, List.singleton_append] at hk
      subst hk
      rcases hw with rfl | rfl
      · simp only [FromValue.keyInt, minus_not_digit, Bool.false_or, beq_self_eq_true, Bool.not_true, Bool.false_eq_true, if_false, if_true, hp128]
        have := parse128 .i128 true (fun _ => rfl) ds hd hne
        simp only [if_true] at this
        rw [this]
        unfold keySpec
        simp only [if_true, FromValue.rangeChecked, FromValue.visitInt, List.isEmpty_nil]
        by_cases hn : natOfDigits ds = 0
        · simp [hn, is128, IntTy.bits, IntTy.signed, IntTy.inRange, IntTy.lo, IntTy.hi]
        · simp only [hn, if_false]
          by_cases hr : IntTy.i128.inRange (-(natOfDigits ds : Int)) = true <;> simp [hr, FromValue.fail]
      · simp [FromValue.keyInt, minus_not_digit, keySpec, FromValue.visitInt, is128, IntTy.bits, IntTy.signed,
          IntTy.inRange, IntTy.lo, IntTy.hi, FromValue.fail]
    | false =>
      simp only [Bool.false_eq_true, if_false, List.nil_append] at hk
      subst hk
      subst hds
      rcases hw with rfl | rfl
      · simp only [FromValue.keyInt, hcd, Bool.true_or, Bool.not_true, Bool.false_eq_true, if_false, hcm, hp128]
        have := parse128 .i128 false (fun h => by cases h) (c :: r) hd hne
        simp only [Bool.false_eq_true, if_false] at this
        rw [this]
        unfold keySpec
        simp only [Bool.false_eq_true, if_false, FromValue.rangeChecked, FromValue.visitInt, List.isEmpty_nil]
        by_cases hr : IntTy.i128.inRange (natOfDigits (c :: r) : Int) = true <;> simp [hr, FromValue.fail]
      · simp only [FromValue.keyInt, hcd, Bool.true_or, Bool.not_true, Bool.false_eq_true, if_false, hcm, hp128]
        have := parse128 .u128 false (fun h => by cases h) (c :: r) hd hne
        simp only [Bool.false_eq_true, if_false] at this
        rw [this]
        unfold keySpec
        simp only [Bool.false_eq_true, if_false, FromValue.rangeChecked, FromValue.visitInt, List.isEmpty_nil]
        by_cases hr : IntTy.u128.inRange (natOfDigits (c :: r) : Int) = true <;> simp [hr, FromValue.fail]
  · have h128' : is128 w = false := by simpa using h128
    cases neg with
    | true =>
      simp only [if_true, List.singleton_append] at hk
      subst hk
      rw [keyInt_64 w h128']
      simp only [minus_not_digit, Bool.false_or, beq_self_eq_true, Bool.not_true, Bool.false_eq_true, if_false, keyInt64, if_true, hp64]
      unfold keySpec
      simp only [if_true, h128', Bool.false_and, Bool.false_eq_true, if_false]
      by_cases hbig : natOfDigits ds > u64Max
      · simp only [hbig, if_true]
        have hn0 : natOfDigits ds ≠ 0 := by simp [u64Max] at hbig; omega
        simp only [hn0, if_false]
        rw [visitInt_big w h128' _ (.inl (by simp [u64Max] at hbig; omega))]
      · simp only [hbig, if_false]
        simp only [FromValue.keyParseNumber]
        simp only [u64Max] at hbig
        by_cases hn0 : natOfDigits ds = 0
        · simp [hn0, FromValue.wrappingNeg64, FromValue.toI64]
        · simp only [hn0, if_false, Bool.false_eq_true]
          by_cases hsm : natOfDigits ds ≤ 2 ^ 63
          · have hneg : FromValue.wrappingNeg64 (FromValue.toI64 (natOfDigits ds)) = -(natOfDigits ds : Int) := by
              unfold FromValue.wrappingNeg64 FromValue.toI64
              by_cases he : natOfDigits ds = 2 ^ 63
              · rw [he]; decide
              · have : natOfDigits ds < 2 ^ 63 := by omega
                simp only [this, if_true]
                have : ((natOfDigits ds : Int) == -(2 : Int) ^ 63) = false := by
                  rw [beq_eq_false_iff_ne]; omega
                simp [this]
            rw [hneg]
            have hlt : ¬ (-(natOfDigits ds : Int) ≥ 0) := by omega
            simp only [hlt, if_false]
            cases hv : FromValue.visitInt w (-(natOfDigits ds : Int)) <;> simp
          · have hpos : FromValue.wrappingNeg64 (FromValue.toI64 (natOfDigits ds)) ≥ 0 := by
              unfold FromValue.wrappingNeg64 FromValue.toI64
              have : ¬ natOfDigits ds < 2 ^ 63 := by omega
              simp only [this, if_false]
              have : (((natOfDigits ds : Int) - 2 ^ 64) == -(2 : Int) ^ 63) = false := by
                rw [beq_eq_false_iff_ne]; omega
              simp only [this, Bool.false_eq_true, if_false]
              omega
            simp only [hpos, if_true]
            rw [visitInt_big w h128' _ (.inl (by omega))]
    | false =>
      simp only [Bool.false_eq_true, if_false, List.nil_append] at hk
      subst hk
      subst hds
      rw [keyInt_64 w h128']
      simp only [hcd, Bool.true_or, Bool.not_true, Bool.false_eq_true, if_false, keyInt64, hcm, hp64]
      unfold keySpec
      simp only [Bool.false_eq_true, if_false]
      by_cases hbig : natOfDigits (c :: r) > u64Max
      · simp only [hbig, if_true]
        rw [visitInt_big w h128' _ (.inr (by simp [u64Max] at hbig; omega))]
      · simp only [hbig, if_false, FromValue.keyParseNumber, if_true]
        cases hv : FromValue.visitInt w (natOfDigits (c :: r) : Int) <;> simp

/-- the 8- to 64-bit branch accepts only canonical digits followed by nothing -/
theorem keyInt64_core (w : IntTy) (positive : Bool) (ds junk : Bytes) (hd : IsDigits ds) (hjunk : JunkOK junk) (a : TVal)
    (h : (match FromValue.keyParseInteger positive (ds ++ junk) with
      | none => FromValue.fail
      | some (pn, rest) =>
        match (match pn with | .u64 n => FromValue.visitInt w n | .i64 n => FromValue.visitInt w n) with
        | .error e => .error e
        | .ok t => if rest.isEmpty then .ok t else FromValue.fail) = .ok a) : Canon ds ∧ junk = [] := by
  rw [keyParseInteger_spec positive ds junk hd hjunk] at h
  by_cases hcb : (ds.isEmpty || leadZero ds) = true
  · simp [hcb, FromValue.fail] at h
  · by_cases hbig : natOfDigits ds > u64Max
    · simp [hcb, hbig, FromValue.fail] at h
    · simp only [hcb, hbig, Bool.false_eq_true, if_false] at h
      cases hkp : FromValue.keyParseNumber positive (natOfDigits ds) junk with
      | none => rw [hkp] at h; simp [FromValue.fail] at h
      | some pr =>
        obtain ⟨pn, rest⟩ := pr
        rw [hkp] at h
        simp only at h
        have hrest := keyParseNumber_rest _ _ _ _ _ hkp
        subst hrest
        cases hv : (match pn with | .u64 n => FromValue.visitInt w n | .i64 n => FromValue.visitInt w n) with
        | error e => rw [hv] at h; simp at h
        | ok t =>
          rw [hv] at h
          simp only at h
          by_cases hemp : rest.isEmpty = true
          · exact ⟨(canon_iff ds hd).2 (by simpa using hcb), by simpa using hemp⟩
          · simp [hemp, FromValue.fail] at h

/-- the 128-bit branches accept only canonical digits followed by nothing -/
theorem keyInt128_core (w : IntTy) (neg : Bool) (ds junk : Bytes) (hd : IsDigits ds) (hjunk : JunkOK junk) (a : TVal)
    (h : (match FromValue.scanInteger128 (ds ++ junk) with
      | none => FromValue.fail
      | some (ds', rest) =>
        match FromValue.rustParseInt w (if neg then 0x2d :: ds' else ds') with
        | none => FromValue.fail
        | some x => if rest.isEmpty then (.ok (TVal.int x) : FromValue.R) else FromValue.fail) = .ok a) : Canon ds ∧ junk = [] := by
  rw [vscan128_spec ds junk hd hjunk] at h
  by_cases hcb : (ds.isEmpty || leadZero ds) = true
  · simp [hcb, FromValue.fail] at h
  · simp only [hcb, Bool.false_eq_true, if_false] at h
    cases hp : FromValue.rustParseInt w (if neg then 0x2d :: ds else ds) with
    | none => rw [hp] at h; simp [FromValue.fail] at h
    | some x =>
      rw [hp] at h
      simp only at h
      by_cases hemp : junk.isEmpty = true
      · exact ⟨(canon_iff ds hd).2 (by simpa using hcb), by simpa using hemp⟩
      · simp [hemp, FromValue.fail] at h

/-- a key the value side accepts is an optional `-` followed by canonical digits -/
theorem keyInt_value_inv (w : IntTy) (k : Bytes) (a : TVal) (h : FromValue.keyInt w k = .ok a) : ∃ neg ds, KeyShape k neg ds := by
  cases k with
  | nil => simp [FromValue.keyInt, FromValue.fail] at h
  | cons c r =>
    by_cases hm : c = 0x2d
    · subst hm
      obtain ⟨ds, junk, hsplit, hd, hjunk⟩ := digit_split r
      subst hsplit
      by_cases h128 : is128 w = true
      · have hw : w = .i128 ∨ w = .u128 := by cases w <;> simp [is128, IntTy.bits] at h128 <;> simp
        rcases hw with rfl | rfl
        · simp only [FromValue.keyInt, minus_not_digit, Bool.false_or, beq_self_eq_true, Bool.not_true, Bool.false_eq_true, if_false, if_true] at h
          obtain ⟨hc, hj⟩ := keyInt128_core .i128 true ds junk hd hjunk a h
          subst hj
          exact ⟨true, ds, hc, by simp⟩
        · simp [FromValue.keyInt, minus_not_digit, FromValue.fail] at h
      · have h128' : is128 w = false := by simpa using h128
        rw [keyInt_64 w h128'] at h
        simp only [minus_not_digit, Bool.false_or, beq_self_eq_true, Bool.not_true, Bool.false_eq_true, if_false, keyInt64, if_true] at h
        obtain ⟨hc, hj⟩ := keyInt64_core w false ds junk hd hjunk a h
        subst hj
        exact ⟨true, ds, hc, by simp⟩
    · have hcm : (c == 0x2d) = false := by simpa using hm
      obtain ⟨ds, junk, hsplit, hd, hjunk⟩ := digit_split (c :: r)
      by_cases hcd : Spec.Grammar.isDigit c = true
      · by_cases h128 : is128 w = true
        · have hw : w = .i128 ∨ w = .u128 := by cases w <;> simp [is128, IntTy.bits] at h128 <;> simp
          rcases hw with rfl | rfl
          · simp only [FromValue.keyInt, hcd, Bool.true_or, Bool.not_true, Bool.false_eq_true, if_false, hcm] at h
            rw [hsplit] at h
            obtain ⟨hc, hj⟩ := keyInt128_core .i128 false ds junk hd hjunk a h
            subst hj
            exact ⟨false, ds, hc, by simp [hsplit]⟩
          · simp only [FromValue.keyInt, hcd, Bool.true_or, Bool.not_true, Bool.false_eq_true, if_false, hcm] at h
            rw [hsplit] at h
            obtain ⟨hc, hj⟩ := keyInt128_core .u128 false ds junk hd hjunk a h
            subst hj
            exact ⟨false, ds, hc, by simp [hsplit]⟩
        · have h128' : is128 w = false := by simpa using h128
          rw [keyInt_64 w h128'] at h
          simp only [hcd, Bool.true_or, Bool.not_true, Bool.false_eq_true, if_false, keyInt64, hcm] at h
          rw [hsplit] at h
          obtain ⟨hc, hj⟩ := keyInt64_core w true ds junk hd hjunk a h
          subst hj
          exact ⟨false, ds, hc, by simp [hsplit]⟩
      · have hcd' : Spec.Grammar.isDigit c = false := by simpa using hcd
        by_cases h128 : is128 w = true
        · have hw : w = .i128 ∨ w = .u128 := by cases w <;> simp [is128, IntTy.bits] at h128 <;> simp
          rcases hw with rfl | rfl <;> simp [FromValue.keyInt, hcd', hcm, FromValue.fail] at h
        · have h128' : is128 w = false := by simpa using h128
          rw [keyInt_64 w h128'] at h
          simp [hcd', hcm, FromValue.fail] at h

/-! ## the typed side on a key of the shape, and the agreement -/

section
variable (ext : Spec.Program.Ext) (hext : Spec.Program.ExtOK ext) {env : Env} (hflt : env.flt = false)

theorem keyInt_unfold (w : IntTy) (b : UInt8) (R : Bytes) (pos : Nat) (hb : isNumStart b = true) :
    keyInt env w (0x22 :: b :: R) pos = (deInt env w (b :: R) (pos + 1)).bind fun v r' p' =>
      match r' with
      | [] => atEof env .EofWhileParsingString p'
      | c :: r'' => if c == 0x22 then .ok v r'' (p' + 1) else .err .ExpectedDoubleQuote (p' + 1) := by
  unfold keyInt
  simp only [List.drop_succ_cons, List.drop_zero, hb, Bool.not_true, Bool.false_eq_true, if_false]
  rfl

theorem strBody_shape (k : Bytes) (neg : Bool) (ds : Bytes) (h : KeyShape k neg ds) : strBody k = k := by
  obtain ⟨hcan, rfl⟩ := h
  cases neg with
  | true =>
    simp only [if_true, List.singleton_append]
    rw [strBody_cons_plain _ minus_plain]
    have := strBody_digits ds [] hcan.1
    simp only [List.append_nil, strBody_nil] at this
    rw [this]
  | false =>
    have := strBody_digits ds [] hcan.1
    simpa [strBody_nil] using this

include hext hflt in
theorem keyInt_typed_shape (w : IntTy) (k : Bytes) (neg : Bool) (ds : Bytes) (h : KeyShape k neg ds) (tl : Bytes) (pos : Nat) :
    match keySpec w neg (natOfDigits ds) with
    | .ok a => keyInt env w (quote k ++ 0x3a :: tl) pos = .ok a (0x3a :: tl) (pos + (quote k).length)
    | .error _ => ∀ x r p, keyInt env w (quote k ++ 0x3a :: tl) pos ≠ .ok x r p := by
  have hbody := strBody_shape k neg ds h
  obtain ⟨hcan, hk⟩ := h
  have hnd := natDigits_natOfDigits ds.length ds rfl hcan
  generalize hn : natOfDigits ds = n at hnd ⊢
  have hqlen : (quote k).length = k.length + 2 := by rw [quote_length, hbody]
  have hq : quote k ++ 0x3a :: tl = 0x22 :: (k ++ 0x22 :: 0x3a :: tl) := by
    rw [quote_eq, hbody]; simp
  rw [hq]
  have hsep : SepOK (0x22 :: 0x3a :: tl) := .inr ⟨0x22, _, rfl, .inr (.inr (.inr (.inl rfl)))⟩
  -- through `agree_int` on the number whose text the key is
  have viaNum : ∀ (v : JV) (hv : VOK v) (hnf : ∀ b, v ≠ .num (.float b)) (hT : T ext v = k) (b : UInt8) (R : Bytes) (hbR : k ++ 0x22 :: 0x3a :: tl = b :: R)
      (hb : isNumStart b = true),
      match FromValue.fromValue {} {} (.int w) v with
      | .ok a => keyInt env w (0x22 :: (k ++ 0x22 :: 0x3a :: tl)) pos = .ok a (0x3a :: tl) (pos + (quote k).length)
      | .error _ => ∀ x r p, keyInt env w (0x22 :: (k ++ 0x22 :: 0x3a :: tl)) pos ≠ .ok x r p := by
    intro v hv hnf hT b R hbR hb
    have hag := agree_int ext hext hflt {} rfl {} w v hv (fun b hb => absurd hb (hnf b)) (0x22 :: 0x3a :: tl) (pos + 1) hsep
    rw [hT] at hag
    rw [hbR, keyInt_unfold w b R pos hb, ← hbR]
    cases hfv : FromValue.fromValue {} {} (.int w) v with
    | ok a =>
      rw [hfv] at hag
      simp only at hag ⊢
      rw [hag]
      simp only [Res.bind, beq_self_eq_true, if_true, hqlen]
      congr 1
      omega
    | error e =>
      rw [hfv] at hag
      simp only at hag ⊢
      exact bind_not_ok hag
  obtain ⟨c, r, hds, hcd, _⟩ := canon_head_digit hcan
  cases neg with
  | false =>
    simp only [Bool.false_eq_true, if_false, List.nil_append] at hk
    have hT : T ext (.num (.pos n)) = k := by rw [T_pos ext hext, hnd, hk]
    have := viaNum (.num (.pos n)) rfl (fun b h => by cases h) hT c (r ++ 0x22 :: 0x3a :: tl) (by rw [hk, hds]; rfl)
      (by simp [isNumStart, gdigit_eq c ▸ hcd])
    have e : FromValue.fromValue {} {} (.int w) (.num (.pos n)) = FromValue.visitInt w n := by
      simp [FromValue.fromValue, FromValue.deInt, FromValue.numberInt]
    rw [e] at this
    simpa [keySpec] using this
  | true =>
    simp only [if_true, List.singleton_append] at hk
    by_cases hn0 : n = 0
    · -- the key `-0`
      subst hn0
      have hds0 : ds = [0x30] := by rw [← hnd]; rfl
      subst hds0
      subst hk
      by_cases h128 : is128 w = true
      · have hw : w = .i128 ∨ w = .u128 := by cases w <;> simp [is128, IntTy.bits] at h128 <;> simp
        rcases hw with rfl | rfl
        · simp only [keySpec, if_true, is128, IntTy.bits, IntTy.signed, beq_self_eq_true, Bool.and_self]
          show keyInt env _ (0x22 :: 0x2d :: 0x30 :: 0x22 :: 0x3a :: tl) pos = _
          rw [keyInt_unfold _ 0x2d _ _ (by decide)]
          have hs := scanInteger128_natDigits hflt 0 (0x22 :: 0x3a :: tl) (pos + 1 + 1) hsep
          have h0 : natDigits 0 = [0x30] := rfl
          rw [h0] at hs
          simp only [List.singleton_append] at hs
          simp only [deInt, is128, IntTy.bits, beq_self_eq_true, if_true, deInt128, List.singleton_append, List.cons_append, List.nil_append]
          rw [withPeek_cons env _ (by decide)]
          simp only [beq_self_eq_true, if_true, IntTy.signed, hs, Res.bind]
          have hp : FromValue.rustParseInt .i128 [0x2d, 0x30] = some 0 := by decide
          simp [hp, hqlen]
        · simp only [keySpec, if_true, is128, IntTy.bits, IntTy.signed, beq_self_eq_true, Bool.and_false, Bool.false_eq_true, if_false]
          intro x r' p'
          show keyInt env _ (0x22 :: 0x2d :: 0x30 :: 0x22 :: 0x3a :: tl) pos ≠ _
          rw [keyInt_unfold _ 0x2d _ _ (by decide)]
          apply bind_not_ok
          simp only [deInt, is128, IntTy.bits, beq_self_eq_true, if_true, deInt128, List.singleton_append, List.cons_append, List.nil_append]
          rw [withPeek_cons env _ (by decide)]
          simp [IntTy.signed]
      · have h128' : is128 w = false := by simpa using h128
        simp only [keySpec, if_true, h128', Bool.false_and, Bool.false_eq_true, if_false]
        intro x r' p'
        show keyInt env _ (0x22 :: 0x2d :: 0x30 :: 0x22 :: 0x3a :: tl) pos ≠ _
        rw [keyInt_unfold _ 0x2d _ _ (by decide)]
        apply bind_not_ok
        simp only [deInt, h128', Bool.false_eq_true, if_false, List.singleton_append, List.cons_append, List.nil_append]
        unfold deNumber
        rw [withPeek_cons env _ (by decide)]
        simp only [show isNumStart 0x2d = true by decide, if_true]
        unfold scanNumber
        simp only [beq_self_eq_true, if_true]
        have hs := scanInteger_natDigits hflt true 0 (0x22 :: 0x3a :: tl) (pos + 1 + 1) hsep
        have h0 : natDigits 0 = [0x30] := rfl
        rw [h0] at hs
        simp only [List.singleton_append] at hs
        rw [hs]
        simp only [Res.bind, int_ne_f32, Bool.false_eq_true, if_false]
        have hni : NotInt (conv env (mkParts true [0x30] none none)) :=
          conv_of_intClass_none env _ rfl rfl (by intro x hx; have : x = 0x30 := by simpa [mkParts] using hx
                                                  subst this; decide) (by decide)
        exact visit_notInt env w _ _ _ hni
    · have hi : (-(n : Int)) < 0 := by omega
      have hT : T ext (.num (.neg (-(n : Int)))) = k := by
        rw [T_neg ext hext _ hi, hk]
        have : (-(n : Int)).natAbs = n := by omega
        rw [this, hnd]
      have := viaNum (.num (.neg (-(n : Int)))) (by simp [VOK, shapeW, wfNumW]; omega) (fun b h => by cases h) hT 0x2d (ds ++ 0x22 :: 0x3a :: tl) (by rw [hk]; rfl)
        (by decide)
      have e : FromValue.fromValue {} {} (.int w) (.num (.neg (-(n : Int)))) = FromValue.visitInt w (-(n : Int)) := by
        simp [FromValue.fromValue, FromValue.deInt, FromValue.numberInt]
      rw [e] at this
      simpa [keySpec, hn0] using this

include hext hflt in
/-- **integer keys**: `MapKey`'s numeric methods against `MapKeyDeserializer`'s, on every key string -/
theorem keyAgree_int (w : IntTy) : KeyAgree (keyInt env w) (FromValue.keyInt w) := by
  intro k hu tl pos
  cases hfk : FromValue.keyInt w k with
  | ok a =>
    obtain ⟨neg, ds, hs⟩ := keyInt_value_inv w k a hfk
    have hv := keyInt_value_shape w k neg ds hs
    have ht := keyInt_typed_shape ext hext hflt w k neg ds hs tl pos
    rw [← hv, hfk] at ht
    exact ht
  | error e =>
    intro x r p hok
    obtain ⟨neg, ds, hs⟩ := keyInt_typed_inv hflt w k tl pos x r p hok
    have hv := keyInt_value_shape w k neg ds hs
    have ht := keyInt_typed_shape ext hext hflt w k neg ds hs tl pos
    rw [← hv, hfk] at ht
    exact ht x r p hok

end

end SJ.Proofs.Typed
