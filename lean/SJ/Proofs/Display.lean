import SJ.Model.Display
import SJ.Spec.WF
import SJ.Proofs.SerUtf8
import SJ.Proofs.SerValue
/-!
# C03: the `Display for Value` adapter (`Model.Display`) against its reference behaviour

* `writeBufs_feed`: running the serializer's buffer list through `WriterFormatter` (`write_all` →
  `write` → `from_utf8_unchecked` → `write_str`) is feeding the non-empty buffers to the sink as `&str`
  fragments until one is rejected; the result is `Err(io_error(_))` exactly when one was;
* `writeBufs_ub`: if every buffer is valid UTF-8 the `ub` flag stays as it was;
* `feed_take`: what a sink has accepted is a prefix of the fragment list, and a rejection happened
  exactly at the next fragment; `feed_unbounded`, `feed_budget_*`: the two sinks of the model;
* `ofValue_utf8OK`: a `Value` satisfying the representation invariant (`Spec.WF.shapeOK`: strings and
  keys UTF-8, `arbitrary_precision` literals numbers) is a UTF-8 program.
-/
namespace SJ.Proofs.Display
open SJ SJ.Model.Ser SJ.Model.Display SJ.Spec.Program SJ.Spec.Utf8

/-! ## fragments -/

theorem frags_flatten : ∀ bufs : List Bytes, (frags bufs).flatten = bufs.flatten
  | [] => rfl
  | b :: bs => by
    cases b with
    | nil => simpa [frags] using frags_flatten bs
    | cons x xs =>
      have := frags_flatten bs
      simp only [frags] at this
      simp [frags, this]

theorem mem_frags {bufs : List Bytes} {b : Bytes} (h : b ∈ frags bufs) : b ∈ bufs :=
  (List.mem_filter.1 h).1

/-! ## the sink -/

theorem feed_nil (s : Sink) : s.feed [] = (s, false) := rfl

theorem feed_cons_rej (s : Sink) (f : Bytes) (fs : List Bytes) (h : s.fails s.accepted f = true) :
    s.feed (f :: fs) = (s, true) := by
  simp [Sink.feed, Sink.writeStr, h]

theorem feed_cons_acc (s : Sink) (f : Bytes) (fs : List Bytes) (h : s.fails s.accepted f = false) :
    s.feed (f :: fs) = ({ s with accepted := s.accepted ++ [f] } : Sink).feed fs := by
  simp [Sink.feed, Sink.writeStr, h]

/-- the sink afterwards holds a prefix of the fragments (`take k`), keeps its policy, `k` is the whole
    list when nothing was rejected, and otherwise the policy rejected fragment number `k` -/
theorem feed_take : ∀ (fs : List Bytes) (s : Sink),
    ∃ k, (s.feed fs).1.accepted = s.accepted ++ fs.take k ∧ (s.feed fs).1.fails = s.fails ∧
      ((s.feed fs).2 = false → fs.length ≤ k) ∧
      ((s.feed fs).2 = true → ∃ rej, fs[k]? = some rej ∧ s.fails (s.accepted ++ fs.take k) rej = true)
  | [], s => ⟨0, by simp [feed_nil]⟩
  | f :: fs, s => by
    cases h : s.fails s.accepted f with
    | true => exact ⟨0, by simp [feed_cons_rej s f fs h, h]⟩
    | false =>
      obtain ⟨k, h1, h2, h3, h4⟩ := feed_take fs ({ s with accepted := s.accepted ++ [f] } : Sink)
      rw [feed_cons_acc s f fs h]
      refine ⟨k + 1, by simpa using h1, h2, fun h0 => by simpa using h3 h0, fun h0 => ?_⟩
      obtain ⟨rej, hr, hf⟩ := h4 h0
      exact ⟨rej, by simpa using hr, by simpa using hf⟩

/-- a sink whose policy never rejects takes everything -/
theorem feed_never (fs : List Bytes) (s : Sink) (hs : ∀ acc f, s.fails acc f = false) :
    (s.feed fs).2 = false ∧ (s.feed fs).1.accepted = s.accepted ++ fs := by
  obtain ⟨k, h1, _, h3, h4⟩ := feed_take fs s
  cases h : (s.feed fs).2 with
  | true => obtain ⟨rej, _, hf⟩ := h4 h; rw [hs] at hf; cases hf
  | false => exact ⟨rfl, by rw [h1, List.take_of_length_le (h3 h)]⟩

theorem feed_unbounded (fs : List Bytes) :
    (Sink.unbounded.feed fs).2 = false ∧ (Sink.unbounded.feed fs).1.accepted = fs := by
  simpa [Sink.unbounded] using feed_never fs Sink.unbounded (fun _ _ => rfl)

theorem len_snoc (acc : List Bytes) (f : Bytes) : (acc ++ [f]).flatten.length = acc.flatten.length + f.length := by
  simp only [List.flatten_append, List.flatten_cons, List.flatten_nil, List.append_nil, List.length_append]

/-- the budget sink never holds more than its budget -/
theorem feed_budget_le (m : Nat) : ∀ (fs : List Bytes) (s : Sink), s.fails = (Sink.budget m).fails →
    s.accepted.flatten.length ≤ m → (s.feed fs).1.accepted.flatten.length ≤ m
  | [], s, _, h => by rw [feed_nil]; exact h
  | f :: fs, s, hp, h => by
    cases hf : s.fails s.accepted f with
    | true => rw [feed_cons_rej s f fs hf]; exact h
    | false =>
      rw [feed_cons_acc s f fs hf]
      refine feed_budget_le m fs _ hp ?_
      have : ¬ (m < s.accepted.flatten.length + f.length) := by simpa [hp, Sink.budget] using hf
      show (s.accepted ++ [f]).flatten.length ≤ m
      rw [len_snoc]; omega

/-- … and rejects a fragment iff the whole text does not fit -/
theorem feed_budget_rej (m : Nat) : ∀ (fs : List Bytes) (s : Sink), s.fails = (Sink.budget m).fails →
    s.accepted.flatten.length ≤ m →
    ((s.feed fs).2 = true ↔ m < s.accepted.flatten.length + fs.flatten.length)
  | [], s, _, h => by
    rw [feed_nil]
    constructor
    · intro h; cases h
    · intro h'; simp only [List.flatten_nil, List.length_nil, Nat.add_zero] at h'; omega
  | f :: fs, s, hp, h => by
    cases hf : s.fails s.accepted f with
    | true =>
      rw [feed_cons_rej s f fs hf]
      have : m < s.accepted.flatten.length + f.length := by simpa [hp, Sink.budget] using hf
      simp only [List.flatten_cons, List.length_append, true_iff]; omega
    | false =>
      have hn : ¬ (m < s.accepted.flatten.length + f.length) := by simpa [hp, Sink.budget] using hf
      have hl : (s.accepted ++ [f]).flatten.length ≤ m := by rw [len_snoc]; omega
      rw [feed_cons_acc s f fs hf, feed_budget_rej m fs ⟨s.accepted ++ [f], s.fails⟩ hp hl]
      show m < (s.accepted ++ [f]).flatten.length + _ ↔ _
      rw [len_snoc]
      simp only [List.flatten_cons, List.length_append]; omega

/-! ## the adapter -/

theorem frags_cons_nil (bs : List Bytes) : frags ([] :: bs) = frags bs := rfl
theorem frags_cons_cons (x : UInt8) (xs : Bytes) (bs : List Bytes) : frags ((x :: xs) :: bs) = (x :: xs) :: frags bs := rfl

theorem writeBufs_nil (a : Adapter) : a.writeBufs [] = (a, .ok ()) := rfl

theorem writeBufs_cons_nil (a : Adapter) (bs : List Bytes) : a.writeBufs ([] :: bs) = a.writeBufs bs := rfl

theorem writeBufs_cons_rej (a : Adapter) (x : UInt8) (xs : Bytes) (bs : List Bytes)
    (h : a.inner.fails a.inner.accepted (x :: xs) = true) :
    a.writeBufs ((x :: xs) :: bs) = ({ a with ub := a.ub || !validUtf8 (x :: xs) }, .error .other) := by
  simp [Adapter.writeBufs, Adapter.writeAll, Adapter.write, Sink.writeStr, h]

theorem writeBufs_cons_acc (a : Adapter) (x : UInt8) (xs : Bytes) (bs : List Bytes)
    (h : a.inner.fails a.inner.accepted (x :: xs) = false) :
    a.writeBufs ((x :: xs) :: bs) =
      ({ inner := { a.inner with accepted := a.inner.accepted ++ [x :: xs] },
         ub := a.ub || !validUtf8 (x :: xs) } : Adapter).writeBufs bs := by
  simp [Adapter.writeBufs, Adapter.writeAll, Adapter.write, Sink.writeStr, h]

/-- the adapter run over a buffer list = feeding the non-empty buffers to the sink -/
theorem writeBufs_feed : ∀ (bufs : List Bytes) (a : Adapter),
    (a.writeBufs bufs).1.inner = (a.inner.feed (frags bufs)).1 ∧
    (a.writeBufs bufs).2 = if (a.inner.feed (frags bufs)).2 then .error .other else .ok ()
  | [], a => ⟨rfl, rfl⟩
  | [] :: bs, a => by rw [writeBufs_cons_nil, frags_cons_nil]; exact writeBufs_feed bs a
  | (x :: xs) :: bs, a => by
    rw [frags_cons_cons]
    cases h : a.inner.fails a.inner.accepted (x :: xs) with
    | true => rw [writeBufs_cons_rej a x xs bs h, feed_cons_rej _ _ _ h]; exact ⟨rfl, rfl⟩
    | false => rw [writeBufs_cons_acc a x xs bs h, feed_cons_acc _ _ _ h]; exact writeBufs_feed bs _

/-- `from_utf8_unchecked` is only ever applied to valid UTF-8 if every buffer is valid on its own -/
theorem writeBufs_ub : ∀ (bufs : List Bytes) (a : Adapter), (∀ b ∈ bufs, validUtf8 b = true) →
    (a.writeBufs bufs).1.ub = a.ub
  | [], _, _ => rfl
  | [] :: bs, a, h => by rw [writeBufs_cons_nil]; exact writeBufs_ub bs a fun b hb => h b (by simp [hb])
  | (x :: xs) :: bs, a, h => by
    have hx : validUtf8 (x :: xs) = true := h _ (by simp)
    cases hf : a.inner.fails a.inner.accepted (x :: xs) with
    | true => rw [writeBufs_cons_rej a x xs bs hf]; simp [hx]
    | false =>
      rw [writeBufs_cons_acc a x xs bs hf, writeBufs_ub bs _ fun b hb => h b (by simp [hb])]
      simp [hx]

/-- `.map_err(|_| fmt::Error)` -/
def mapRes : Except IoError Unit → Except FmtError Unit
  | .ok () => .ok ()
  | .error _ => .error .error

/-- `Display::fmt` once the serializer's buffers are known -/
theorem fmtValue_ok (ext : Ext) (v : JV) (alternate : Bool) (sink : Sink) (bufs : List Bytes)
    (hb : (if alternate then serPretty ext defaultIndent (ofValue v) else serCompact ext (ofValue v)) = .ok bufs) :
    (fmtValue ext v alternate sink).1 = (({ inner := sink } : Adapter).writeBufs bufs).1 ∧
    (fmtValue ext v alternate sink).2 = mapRes (({ inner := sink } : Adapter).writeBufs bufs).2 := by
  unfold fmtValue
  simp only [hb]
  cases hr : ({ inner := sink } : Adapter).writeBufs bufs with
  | mk wr res =>
    cases res with
    | ok u => cases u; exact ⟨rfl, rfl⟩
    | error e => exact ⟨rfl, rfl⟩

/-! ## `Value`s that satisfy the representation invariant are UTF-8 programs -/

open SJ.Spec.WF in
mutual
theorem ofValue_utf8OK (c : Spec.Canon.Cfg) : ∀ v : JV, shapeOK c v = true → (ofValue v).utf8OK = true
  | .null, _ => rfl
  | .bool _, _ => rfl
  | .num (.pos _), _ => rfl
  | .num (.neg _), _ => rfl
  | .num (.float _), _ => rfl
  | .num (.lit s), h => by
    simp only [shapeOK, wfNum, Bool.and_eq_true] at h
    simp only [ofValue, SVal.utf8OK]
    exact ProgSide.number_utf8 s ((Number.isNumber_iff s).1 h.2)
  | .str s, h => by simpa [shapeOK, ofValue, SVal.utf8OK] using h
  | .arr xs, h => by
    simp only [shapeOK] at h; simp only [ofValue, SVal.utf8OK]; exact ofValues_utf8OK c xs h
  | .obj kvs, h => by
    simp only [shapeOK, Bool.and_eq_true] at h; simp only [ofValue, SVal.utf8OK]; exact ofMembers_utf8OK c kvs h.2
theorem ofValues_utf8OK (c : Spec.Canon.Cfg) : ∀ xs : List JV, shapeOKs c xs = true → utf8OKList (ofValues xs) = true
  | [], _ => rfl
  | x :: xs, h => by
    simp only [shapeOKs, Bool.and_eq_true] at h
    simp [ofValues, utf8OKList, ofValue_utf8OK c x h.1, ofValues_utf8OK c xs h.2]
theorem ofMembers_utf8OK (c : Spec.Canon.Cfg) : ∀ kvs : List (Bytes × JV), shapeOKm c kvs = true →
    utf8OKEntries (ofMembers kvs) = true
  | [], _ => rfl
  | (k, x) :: kvs, h => by
    simp only [shapeOKm, Bool.and_eq_true] at h
    simp [ofMembers, utf8OKEntries, SVal.utf8OK, h.1.1, ofValue_utf8OK c x h.1.2, ofMembers_utf8OK c kvs h.2]
end

end SJ.Proofs.Display
