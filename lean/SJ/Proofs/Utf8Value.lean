import SJ.Proofs.Utf8Text
import SJ.Proofs.RoundTripWF
import SJ.Props.C02
/-!
# Every string and key of a parsed `Value` is valid UTF-8

`JV.stringsValid v`: every string and every object key inside `v` satisfies `validUtf8`.
`stringsValid_of_canonM`: the value a syntax tree denotes has this property when the tree's decoded
strings do (`Spec.Canon.stringsUtf8`). `parse_stringsValid`: so does whatever the parser returns —
on byte sources because the parser checks (C02), on the `&str` source because the input is valid
UTF-8 (`jsontext_utf8`).
-/
namespace SJ

mutual
/-- every string and object key inside the value is valid UTF-8 -/
def JV.stringsValid : JV → Bool
  | .str s => Spec.Utf8.validUtf8 s
  | .arr xs => JV.stringsValidList xs
  | .obj kvs => JV.stringsValidMembers kvs
  | _ => true
def JV.stringsValidList : List JV → Bool
  | [] => true
  | x :: xs => JV.stringsValid x && JV.stringsValidList xs
def JV.stringsValidMembers : List (Bytes × JV) → Bool
  | [] => true
  | (k, x) :: kvs => Spec.Utf8.validUtf8 k && JV.stringsValid x && JV.stringsValidMembers kvs
end

end SJ

namespace SJ.Proofs.Utf8
open SJ SJ.Spec.Utf8 SJ.Spec.Grammar SJ.Spec.Denote SJ.Spec.Canon SJ.Model.Machine SJ.Proofs.CanonM
open SJ.Proofs.MkObj SJ.Proofs.RoundTripWF

theorem stringsValidMembers_iff : ∀ l : List (Bytes × JV),
    JV.stringsValidMembers l = true ↔ ∀ e ∈ l, validUtf8 e.1 = true ∧ JV.stringsValid e.2 = true
  | [] => by simp [JV.stringsValidMembers]
  | (k, x) :: l => by
    simp only [JV.stringsValidMembers, Bool.and_eq_true, stringsValidMembers_iff l, List.mem_cons,
      forall_eq_or_imp]

theorem stringsValidList_iff : ∀ l : List JV,
    JV.stringsValidList l = true ↔ ∀ e ∈ l, JV.stringsValid e = true
  | [] => by simp [JV.stringsValidList]
  | x :: l => by
    simp only [JV.stringsValidList, Bool.and_eq_true, stringsValidList_iff l, List.mem_cons, forall_eq_or_imp]

section
variable (cfg : Model.Machine.Cfg)

mutual
theorem stringsValid_of_canonM : ∀ (t : CST) (v : JV), stringsUtf8 t = true → canonM cfg t = some v →
    JV.stringsValid v = true
  | .null, v, _, h => by simp only [canonM, Option.some.injEq] at h; subst h; rfl
  | .true_, v, _, h => by simp only [canonM, Option.some.injEq] at h; subst h; rfl
  | .false_, v, _, h => by simp only [canonM, Option.some.injEq] at h; subst h; rfl
  | .num p, v, _, h => by
    simp only [canonM, Option.map_eq_some_iff] at h
    obtain ⟨n, _, rfl⟩ := h
    rfl
  | .str s, v, hu, h => by
    simp only [canonM, Option.map_eq_some_iff] at h
    obtain ⟨b, hb, rfl⟩ := h
    simp only [stringsUtf8, hb, Option.all_some] at hu
    simpa [JV.stringsValid] using hu
  | .arr xs, v, hu, h => by
    simp only [canonM, Option.map_eq_some_iff] at h
    obtain ⟨vs, hvs, rfl⟩ := h
    simp only [stringsUtf8] at hu
    simpa [JV.stringsValid] using stringsValid_of_canonMList xs vs hu hvs
  | .obj ms, v, hu, h => by
    simp only [canonM, Option.map_eq_some_iff] at h
    obtain ⟨kvs, hkvs, rfl⟩ := h
    simp only [stringsUtf8] at hu
    have hm := stringsValid_of_canonMMembers ms kvs hu hkvs
    rw [mkObj_eq_build]
    simp only [JV.stringsValid]
    rw [stringsValidMembers_iff] at hm ⊢
    exact fun e he => hm e (mem_build cfg kvs e he)
theorem stringsValid_of_canonMList : ∀ (ts : List CST) (vs : List JV), stringsUtf8List ts = true →
    canonMList cfg ts = some vs → JV.stringsValidList vs = true
  | [], vs, _, h => by simp only [canonMList, Option.some.injEq] at h; subst h; rfl
  | t :: ts, vs, hu, h => by
    simp only [canonMList] at h
    simp only [stringsUtf8List, Bool.and_eq_true] at hu
    split at h
    · rename_i v vs' hv hvs
      cases h
      simp only [JV.stringsValidList, Bool.and_eq_true]
      exact ⟨stringsValid_of_canonM t v hu.1 hv, stringsValid_of_canonMList ts vs' hu.2 hvs⟩
    · cases h
theorem stringsValid_of_canonMMembers : ∀ (ms : List (List StrItem × CST)) (kvs : List (Bytes × JV)),
    stringsUtf8Members ms = true → canonMMembers cfg ms = some kvs → JV.stringsValidMembers kvs = true
  | [], kvs, _, h => by simp only [canonMMembers, Option.some.injEq] at h; subst h; rfl
  | (k, t) :: ms, kvs, hu, h => by
    simp only [canonMMembers] at h
    simp only [stringsUtf8Members, Bool.and_eq_true] at hu
    split at h
    · rename_i kb v r hk hv hr
      cases h
      have hkb : validUtf8 kb = true := by simpa [hk] using hu.1.1
      simp only [JV.stringsValidMembers, Bool.and_eq_true]
      exact ⟨⟨hkb, stringsValid_of_canonM t v hu.1.2 hv⟩, stringsValid_of_canonMMembers ms r hu.2 hr⟩
    · cases h
end
end

/-- the syntax tree of an accepted text has valid UTF-8 strings: checked by the parser on byte
    sources, inherited from the input on the `&str` source -/
theorem parse_stringsUtf8 (env : Env) (henv : env.tgt = .value) (bs : Bytes) (v : JV)
    (h : parseTop env bs = .ok v) (hstr : env.src = .str → validUtf8 bs = true) :
    ∃ t, JsonText bs t ∧ canonM env.cfg t = some v ∧ (env.cfg.limitOff = true ∨ depth t ≤ 127) ∧
      surrogatesPaired t = true ∧ stringsUtf8 t = true ∧ numbersInRange (specCfg env.cfg) t = true := by
  obtain ⟨t, ht, hc, hd, hs, hu, hn⟩ := SJ.Props.C02.c02_denotes env henv bs v h
  refine ⟨t, ht, hc, hd, hs, ?_, hn⟩
  by_cases hsrc : env.src = .str
  · exact jsontext_utf8 ht (hstr hsrc) hs
  · exact hu hsrc

theorem parse_stringsValid (env : Env) (bs : Bytes) (v : JV) (h : parseTop env bs = .ok v)
    (hstr : env.src = .str → validUtf8 bs = true) : JV.stringsValid v = true := by
  cases henv : env.tgt with
  | value =>
    obtain ⟨t, _, hc, _, _, hu, _⟩ := parse_stringsUtf8 env henv bs v h hstr
    exact stringsValid_of_canonM env.cfg t v hu hc
  | ignored =>
    rw [SJ.Props.C02.c19_skip_value env henv bs v h]; rfl

end SJ.Proofs.Utf8
