import SJ.Model.WriteThreaded
import SJ.Proofs.WriteTrace
/-!
# Threading the writer through the traversal = `runBufs` over the buffer list (C13, writer clause)

`runT fuel t` reads a trace `t : T α` (`Model.WriteTrace`: the buffers written and the result) as a piece of
the threaded serializer: `runBufs` over the buffers, then the result. `runT` is a monad morphism
(`runT_bind`: `runBufs` over an append splits with early exit, `runBufs_append`), it sends the leaves of
`serT` to the leaves of `serW`, hence `serW_eq`: `serW = runT ∘ serT`, by induction over the program along
the mutual structure serT / serElemsT / serEntriesT / serFieldsT.
-/
namespace SJ.Proofs.WriteThreaded
open SJ SJ.Model.Ser SJ.Model.Write SJ.Model.WriteTrace SJ.Model.WriteThreaded SJ.Model.EscapeLocal

/-- how the writer's side of a run ends, as a `Stop` -/
def stopOf {α : Type} (res : Except SerErr α) : Out → Except Stop α
  | .ok => (match res with | .ok x => .ok x | .error e => .error (.ser e))
  | .err e => .error (.io e)
  | .hang => .error .hang
  | .panic => .error .panic

/-- a trace as a piece of the threaded serializer: its buffers through `runBufs`, then its result -/
def runT {α : Type} (fuel : Nat) (t : T α) : M α := fun w =>
  ((w.runBufs fuel t.bufs).1, stopOf t.res (w.runBufs fuel t.bufs).2)

/-- `runBufs` over an append: the first list, and the second one only after `Ok` -/
theorem runBufs_append (fuel : Nat) : ∀ (a b : List Bytes) (w : Writer),
    w.runBufs fuel (a ++ b) =
      match w.runBufs fuel a with
      | (w', .ok) => w'.runBufs fuel b
      | (w', o) => (w', o)
  | [], b, w => by simp [Writer.runBufs]
  | x :: a, b, w => by
    simp only [List.cons_append, Writer.runBufs]
    rcases h : w.writeAll fuel x with ⟨w1, o⟩
    cases o with
    | ok => simp only [runBufs_append fuel a b w1]
    | err e => rfl
    | hang => rfl
    | panic => rfl

theorem runT_pure {α : Type} (fuel : Nat) (x : α) : runT fuel ({ bufs := [], res := .ok x } : T α) = M.pure x := rfl

/-- `runT` commutes with `tri!` -/
theorem runT_bind {α β : Type} (fuel : Nat) (t : T α) (k : α → T β) :
    runT fuel (t.bind k) = (runT fuel t).bind fun x => runT fuel (k x) := by
  funext w
  rcases t with ⟨bufs, res⟩
  cases res with
  | error e =>
    simp only [T.bind, runT, M.bind]
    rcases h : w.runBufs fuel bufs with ⟨w1, o⟩
    cases o <;> rfl
  | ok x =>
    simp only [T.bind, runT, M.bind, runBufs_append]
    rcases h : w.runBufs fuel bufs with ⟨w1, o⟩
    cases o <;> rfl

/-- the `tri!` chain of one `Formatter` method is `runBufs` over its buffers -/
theorem writesM_eq (fuel : Nat) : ∀ (bufs : List Bytes) (w : Writer),
    writesM fuel bufs w = ((w.runBufs fuel bufs).1, stopOf (.ok ()) (w.runBufs fuel bufs).2)
  | [], w => rfl
  | b :: bs, w => by
    simp only [writesM, M.bind, writeAllM, Writer.runBufs]
    rcases h : w.writeAll fuel b with ⟨w1, o⟩
    cases o with
    | ok => simp only [writesM_eq fuel bs w1]
    | err e => rfl
    | hang => rfl
    | panic => rfl

theorem writes_then {α : Type} (fuel : Nat) (bufs : List Bytes) (x : α) :
    ((writesM fuel bufs).bind fun _ => M.pure x) = runT fuel { bufs := bufs, res := .ok x } := by
  funext w
  simp only [M.bind, writesM_eq, runT, M.pure]
  rcases h : w.runBufs fuel bufs with ⟨w1, o⟩
  cases o <;> rfl

theorem runT_ofW (fuel : Nat) (a : W) : runT fuel (ofW a) = fmtW fuel a := (writes_then fuel a.bufs a.st).symm

theorem runT_ofWS (fuel : Nat) (a : WS) : runT fuel (ofWS a) = fmtWS fuel a :=
  (writes_then fuel a.bufs (a.state, a.st)).symm

theorem runT_ofKey (fuel : Nat) (r : Except SerErr (List Bytes)) (st : FState) :
    runT fuel (ofKey r st) = keyW fuel r st := by
  cases r with
  | ok kb => exact (writes_then fuel kb st).symm
  | error e => rfl

variable (fuel : Nat) (ext : Ext) (f : Fmt)

mutual
/-- the threaded traversal is `runBufs` over the trace's buffers, then the trace's result -/
theorem serW_eq : ∀ (p : SVal) (st : FState), serW fuel ext f p st = runT fuel (serT ext f p st)
  | .bool _, _ | .int _ _, _ | .f32 _, _ | .f64 _, _ | .char _, _ | .str _, _ | .bytes _, _ | .none, _ | .unit, _
  | .unitStruct, _ | .unitVariant _, _ | .collectStr _, _ | .numberLit _, _ => by
    simp only [serW, serT, runT_ofW]
  | .some p, st => by simp only [serW, serT]; exact serW_eq p st
  | .newtypeStruct p, st => by simp only [serW, serT]; exact serW_eq p st
  | .newtypeVariant v p, st => by
    have ih := fun st => serW_eq p st
    simp only [serW, serT, runT_bind, runT_ofW, ih]
  | .seq hint xs, st => by
    have ih := fun s st => serElemsW_eq xs s st
    simp only [serW, serT, runT_bind, runT_ofW, runT_ofWS, ih]
  | .tuple xs, st => by
    have ih := fun s st => serElemsW_eq xs s st
    simp only [serW, serT, runT_bind, runT_ofW, runT_ofWS, ih]
  | .tupleStruct xs, st => by
    have ih := fun s st => serElemsW_eq xs s st
    simp only [serW, serT, runT_bind, runT_ofW, runT_ofWS, ih]
  | .tupleVariant v xs, st => by
    have ih := fun s st => serElemsW_eq xs s st
    simp only [serW, serT, runT_bind, runT_ofW, runT_ofWS, ih]
  | .map hint es, st => by
    have ih := fun s st => serEntriesW_eq es s st
    simp only [serW, serT, runT_bind, runT_ofW, runT_ofWS, ih]
  | .struct_ fs, st => by
    have ih := fun s st => serFieldsW_eq fs s st
    simp only [serW, serT, runT_bind, runT_ofW, runT_ofWS, ih]
  | .structVariant v fs, st => by
    have ih := fun s st => serFieldsW_eq fs s st
    simp only [serW, serT, runT_bind, runT_ofW, runT_ofWS, ih]
theorem serElemsW_eq : ∀ (xs : List SVal) (state : State) (st : FState),
    serElemsW fuel ext f xs state st = runT fuel (serElemsT ext f xs state st)
  | [], _, _ => by simp only [serElemsW, serElemsT, runT_pure]
  | x :: xs, state, st => by
    have ihx := fun st => serW_eq x st
    have iht := fun s st => serElemsW_eq xs s st
    simp only [serElemsW, serElemsT, runT_bind, runT_ofW, ihx, iht]
theorem serEntriesW_eq : ∀ (es : List (SVal × SVal)) (state : State) (st : FState),
    serEntriesW fuel ext f es state st = runT fuel (serEntriesT ext f es state st)
  | [], _, _ => by simp only [serEntriesW, serEntriesT, runT_pure]
  | (k, v) :: es, state, st => by
    have ihv := fun st => serW_eq v st
    have iht := fun s st => serEntriesW_eq es s st
    simp only [serEntriesW, serEntriesT, runT_bind, runT_ofW, runT_ofKey, ihv, iht]
theorem serFieldsW_eq : ∀ (fs : List (Bytes × SVal)) (state : State) (st : FState),
    serFieldsW fuel ext f fs state st = runT fuel (serFieldsT ext f fs state st)
  | [], _, _ => by simp only [serFieldsW, serFieldsT, runT_pure]
  | (k, v) :: fs, state, st => by
    have ihv := fun st => serW_eq v st
    have iht := fun s st => serFieldsW_eq fs s st
    simp only [serFieldsW, serFieldsT, runT_bind, runT_ofW, ihv, iht]
end

/-- `to_writer*` with the writer threaded through = `runBufs` over the buffer list, for every program -/
theorem toWriterW_eq (fmt : Fmt) (p : SVal) (w : Writer) :
    toWriterW fuel ext fmt p w = toWriterT fuel ext fmt p w := by
  simp only [toWriterW, toWriterT, serW_eq, runT]
  rcases h : w.runBufs fuel (serT ext fmt p FState.init).bufs with ⟨w1, o⟩
  cases o with
  | ok => cases hr : (serT ext fmt p FState.init).res <;> simp [stopOf, resOf]
  | err e => rfl
  | hang => rfl
  | panic => rfl

end SJ.Proofs.WriteThreaded
