import SJ.Proofs.TypedAgreeMach
/-!
# The text leg of C16 on string, char and bytes targets

`to_string` writes a string in the serializer's escaped spelling; `deserialize_str` (validated `parse_str`: the machine's
string sub-states) and `deserialize_bytes` (`parse_str_raw`: the raw escape automaton) read the string back; the
visitors are the ones `from_value` uses.
-/
set_option linter.unusedSectionVars false
set_option linter.unusedVariables false

namespace SJ.Proofs.Typed
open SJ SJ.Gen SJ.Model SJ.Model.Typed
open SJ.Model.Stream (skipWs)
open SJ.Spec.Image (render imageOfValue quote)

variable (ext : Spec.Program.Ext)

theorem T_str_eq (s : Bytes) : T ext (.str s) = 0x22 :: (strBody s ++ [0x22]) := by
  simp only [T, render, imageOfValue, Spec.Image.layoutWith]
  exact quote_eq s

variable (hext : Spec.Program.ExtOK ext)
include hext

section
variable {env : Env} (hflt : env.flt = false) (cfg' : FromValue.Cfg) (hap : cfg'.ap = false) (ext' : FromValue.Ext)
include hflt

omit hext in
/-- `deserialize_str` with any visitor on a printed string -/
theorem deStr_quote (visit : Bytes → FromValue.R) (s : Bytes) (hu : Spec.Utf8.validUtf8 s = true) (rest : Bytes) (pos : Nat) :
    deStr env visit (T ext (.str s) ++ rest) pos =
      fixPos env false (ofVisit (visit s) rest (pos + (T ext (.str s)).length)) := by
  rw [T_str_eq]
  simp only [List.cons_append, List.append_assoc, List.singleton_append]
  unfold deStr
  rw [withPeek_cons env _ (by decide)]
  simp only [beq_self_eq_true, if_true]
  rw [parseStr_quote env hflt s (fun _ => hu)]
  simp only [Res.bind, List.length_cons, List.length_append, List.length_nil]
  congr 2
  omega

omit hext ext in
/-- the same, on the quoted spelling -/
theorem deStr_quote' (visit : Bytes → FromValue.R) (s : Bytes) (hu : Spec.Utf8.validUtf8 s = true) (rest : Bytes) (pos : Nat) :
    deStr env visit (quote s ++ rest) pos = fixPos env false (ofVisit (visit s) rest (pos + (quote s).length)) := by
  rw [quote_eq]
  simp only [List.cons_append, List.append_assoc, List.singleton_append]
  unfold deStr
  rw [withPeek_cons env _ (by decide)]
  simp only [beq_self_eq_true, if_true]
  rw [parseStr_quote env hflt s (fun _ => hu)]
  simp only [Res.bind, List.length_cons, List.length_append, List.length_nil]
  congr 2
  omega

/-- string-like targets (`String`, `char`, identifiers): the visitor's verdict on the string, failure on anything else -/
theorem agree_strlike_g (visit : Bytes → FromValue.R) (v : JV) (hv : VOKg v) :
    Agree1 (deStr env visit) (match v with | .str s => visit s | _ => FromValue.fail) (T ext v) := by
  intro rest pos hs
  obtain ⟨c, tl, hT, hc⟩ := T_head_g ext hext v hv
  have hw := (headOf_facts hc).1
  have ht := headOf_tests hc
  cases v with
  | str s =>
    have hu : Spec.Utf8.validUtf8 s = true := vokg_str hv
    have hq := deStr_quote ext hflt visit s hu rest pos
    simp only []
    cases hvis : visit s with
    | ok tv => simp only []; rw [hq, hvis]; simp [ofVisit, fixPos]
    | error e => simp only []; intro x r p; rw [hq, hvis]; simp [ofVisit, fixPos]
  | null | bool _ | num _ | arr _ | obj _ =>
    simp only [FromValue.fail]
    intro x r p
    rw [hT]
    simp only [List.cons_append]
    unfold deStr
    rw [withPeek_cons env _ hw]
    simp only [ht.2.2.2.2.2.2.2.2, Bool.false_eq_true, if_false]
    exact peekInvalidType_not_ok _ _ _ _ _ _

include hap in
theorem agree_strlike (visit : Bytes → FromValue.R) (v : JV) (hv : VOK v) :
    Agree1 (deStr env visit) (match v with | .str s => visit s | _ => FromValue.fail) (T ext v) := by
  have := agree_strlike_g ext hext hflt visit v hv.g
  cases v <;> exact this

theorem agree_string_g (v : JV) (hv : VOKg v) :
    Agree1 (deStr env (fun x => .ok (.str x))) (FromValue.fromValue cfg' ext' .string v) (T ext v) := by
  have := agree_strlike_g ext hext hflt (fun x => .ok (.str x)) v hv
  cases v <;> simpa [FromValue.fromValue] using this

theorem agree_char_g (v : JV) (hv : VOKg v) :
    Agree1 (deStr env FromValue.visitCharStr) (FromValue.fromValue cfg' ext' .char v) (T ext v) := by
  have := agree_strlike_g ext hext hflt FromValue.visitCharStr v hv
  cases v <;> simpa [FromValue.fromValue] using this

include hap in
theorem agree_string (v : JV) (hv : VOK v) :
    Agree1 (deStr env (fun x => .ok (.str x))) (FromValue.fromValue cfg' ext' .string v) (T ext v) :=
  agree_string_g ext hext hflt cfg' ext' v hv.g

include hap in
theorem agree_char (v : JV) (hv : VOK v) :
    Agree1 (deStr env FromValue.visitCharStr) (FromValue.fromValue cfg' ext' .char v) (T ext v) :=
  agree_char_g ext hext hflt cfg' ext' v hv.g

omit hflt hext in
theorem deSeq_open (t : Nat) (visit : Bytes → Nat → TOut) (tl : Bytes) (pos : Nat) (htd : tooDeep env t = false) :
    deSeq env t visit (0x5b :: tl) pos = closeWith env (endSeq env) (visit tl (pos + 1)) := by
  unfold deSeq
  rw [withPeek_cons env _ (by decide)]
  simp only [beq_self_eq_true, if_true, htd, Bool.false_eq_true, if_false]

/-- byte buffers: a string (raw: escapes decoded, no validation) or an array of `u8`. `hel8`: the `u8` target on every element
    of an array (`agree_int` without `arbitrary_precision`) -/
theorem agree_bytes_g (t : Nat) (v : JV) (hv : VOKg v) (hd : DepthOK env t v)
    (hel8 : ∀ xs, v = .arr xs → ∀ x ∈ xs, Agree1w (deInt env .u8) (FromValue.fromValue cfg' ext' (.int .u8) x) (T ext x)) :
    Agree1 (deBytes env t) (FromValue.fromValue cfg' ext' .bytes v) (T ext v) := by
  intro rest pos hs
  obtain ⟨c, tl, hT, hc⟩ := T_head_g ext hext v hv
  have hw := (headOf_facts hc).1
  have ht := headOf_tests hc
  cases v with
  | str s =>
    simp only [FromValue.fromValue]
    rw [T_str_eq]
    simp only [List.cons_append, List.append_assoc]
    unfold deBytes
    rw [withPeek_cons env _ (by decide)]
    simp only [beq_self_eq_true, if_true]
    rw [parseStrRaw_quote]
    simp only [Res.map, Res.bind, List.length_cons, List.length_append, List.length_nil]
    congr 1
    omega
  | arr xs =>
    have hel : ∀ x ∈ xs, Agree1w (deNumber env (.int .u8)) (FromValue.deInt cfg' .u8 x) (T ext x) ∧
        ∃ c tl, T ext x = c :: tl ∧ HeadOf x c := by
      intro x hx
      have hvx := vokg_elem xs x hx hv
      refine ⟨?_, T_head_g ext hext x hvx⟩
      have e : deInt env .u8 = deNumber env (.int .u8) := by funext r p; simp [deInt, is128, IntTy.bits]
      have := hel8 xs rfl x hx
      rw [e] at this
      simpa [FromValue.fromValue] using this
    have hloop := seqLoop_text ext hext hflt (deNumber env (.int .u8)) (FromValue.deInt cfg' .u8) xs hel true []
      ((Telems ext xs ++ 0x5d :: rest).length + 1) rest (pos + 1) (by simp)
    simp only [if_true] at hloop
    have hde : deBytes env t (0x5b :: (Telems ext xs ++ 0x5d :: rest)) pos =
        closeWith env (endSeq env) ((seqLoop env (deNumber env (.int .u8)) ((Telems ext xs ++ 0x5d :: rest).length + 1) true []
          (Telems ext xs ++ 0x5d :: rest) (pos + 1)).map fun ys => .bytes (FromValue.bytesOfInts ys)) := by
      unfold deBytes
      rw [withPeek_cons env _ (by decide)]
      simp only [show ((0x5b : UInt8) == 0x22) = false by decide, Bool.false_eq_true, if_false, beq_self_eq_true, if_true]
      rw [deSeq_open t _ _ pos (tooDeep_false t xs hd)]
    simp only [FromValue.fromValue]
    rw [T_arr]
    simp only [List.cons_append, List.append_assoc, List.nil_append]
    cases hall : FromValue.seqAll (FromValue.deInt cfg' .u8) xs with
    | error e =>
      rw [hall] at hloop
      simp only at hloop
      simp only [FromValue.visitArray]
      intro x r p
      rw [hde]
      exact closeWith_not_ok _ (map_not_ok hloop) x r p
    | ok pr =>
      obtain ⟨ys, rem⟩ := pr
      rw [hall] at hloop
      simp only at hloop
      have hrem := seqAll_rem _ _ _ _ hall
      subst hrem
      simp only [FromValue.visitArray, List.isEmpty_nil, if_true]
      rw [hde, hloop]
      simp only [Res.map, Res.bind, closeWith, endSeq_close, List.nil_append, List.reverse_nil, List.length_cons, List.length_append,
        List.length_nil]
      congr 1
      omega
  | null | bool _ | num _ | obj _ =>
    simp only [FromValue.fromValue, FromValue.fail]
    intro x r p
    rw [hT]
    simp only [List.cons_append]
    unfold deBytes
    rw [withPeek_cons env _ hw]
    simp only [ht.2.2.2.2.2.2.2.2, ht.2.2.2.2.2.2.1, Bool.false_eq_true, if_false]
    exact peekInvalidType_not_ok _ _ _ _ _ _

include hap in
/-- byte buffers without `arbitrary_precision`. `hfl`: a float among the elements is refused by `deserialize_u8` (see `agree_int`) -/
theorem agree_bytes (t : Nat) (v : JV) (hv : VOK v) (hd : DepthOK env t v)
    (hfl : ∀ xs, v = .arr xs → ∀ x ∈ xs, ∀ b, x = .num (.float b) → ∀ rest pos, SepOK rest → ∀ y r p,
      deInt env .u8 (T ext x ++ rest) pos ≠ .ok y r p) :
    Agree1 (deBytes env t) (FromValue.fromValue cfg' ext' .bytes v) (T ext v) :=
  agree_bytes_g ext hext hflt cfg' ext' t v hv.g hd fun xs hxs x hx =>
    (agree_int ext hext hflt cfg' hap ext' .u8 x (vok_elem xs x hx (hxs ▸ hv)) (hfl xs hxs x hx)).weak

end

end SJ.Proofs.Typed
