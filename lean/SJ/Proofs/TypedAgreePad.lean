import SJ.Proofs.TypedAgreeMach
/-!
# A nested `Value` target: the machine started on `t` padding frames (`runPfx … t`) reads one printed value

The typed model runs the byte-step machine on a stack of `t` padding frames so that a `Value` nested in typed containers
shares their recursion budget. This file shows that such a run is, frame for frame, the run of the same machine without
padding and without the depth limit (`unlim`), as long as the padded run does not hit the limit — which C01's
completeness (`drive`, with the side condition `t + depth ≤ 127`) guarantees on a printed value — and that the padded run
stops exactly where the value ends.
-/
set_option linter.unusedSectionVars false
set_option linter.unusedVariables false

namespace SJ.Proofs.Typed
open SJ SJ.Gen SJ.Model SJ.Model.Typed
open SJ.Model.Machine (St Mode Frame Step step1 errIdx endNumber finishMode init complete closeArr closeObj startValue
  stepNum stepStr endStr depthExceeded numValue ValCtx)
open SJ.Model.Stream (runPrefix POut)

/-- the same machine without the recursion limit -/
def unlim (menv : Machine.Env) : Machine.Env := { menv with cfg := { menv.cfg with limitOff := true } }

/-- modes in which the top-level value is still being scanned (nothing of it is on the stack) -/
def TopMode : Mode → Prop
  | .val ctx => ctx = .top
  | .lit _ _ => True
  | .num _ => True
  | .str st => st.isKey = false
  | _ => False

/-- `s` is the padded state, `u` the unpadded one: same mode, the stack of `s` is the stack of `u` on top of `base` -/
def Rel (base : List Frame) (s u : St) : Prop :=
  s.stack = u.stack ++ base ∧ u.mode = s.mode ∧ (u.stack = [] → TopMode s.mode) ∧ ∀ v, s.mode ≠ .done v

/-- the value has just been completed on both sides -/
def Fin (base : List Frame) (s u : St) : Prop := ∃ v, s = complete base v ∧ u = complete [] v

def StepRel (base : List Frame) : Step → Step → Prop
  | .next s', .next u' => Rel base s' u' ∨ Fin base s' u'
  | .again s', .again u' => Rel base s' u' ∨ Fin base s' u'
  | .err _ _, _ => True
  | _, _ => False

variable (menv : Machine.Env) (base : List Frame)

theorem complete_app (f : Frame) (fs0 : List Frame) (v : JV) :
    complete (f :: (fs0 ++ base)) v = ⟨(complete (f :: fs0) v).mode, (complete (f :: fs0) v).stack ++ base⟩ := by
  cases f <;> rfl

/-- completing a value in corresponding states -/
theorem rel_complete (fs : List Frame) (v : JV) :
    Rel base (complete (fs ++ base) v) (complete fs v) ∨ Fin base (complete (fs ++ base) v) (complete fs v) := by
  cases fs with
  | nil => exact .inr ⟨v, rfl, rfl⟩
  | cons f fs0 =>
    left
    rw [List.cons_append, complete_app]
    refine ⟨rfl, rfl, fun h => ?_, fun v h => ?_⟩
    · cases f <;> simp [complete] at h
    · cases f <;> simp [complete] at h

theorem unlim_tgt : (unlim menv).tgt = menv.tgt := rfl
theorem unlim_src : (unlim menv).src = menv.src := rfl
theorem unlim_depth (u : St) : depthExceeded (unlim menv) u = false := by simp [depthExceeded, unlim]
theorem unlim_numValue (n : Machine.NumSt) : numValue (unlim menv) n = numValue menv n := rfl
theorem unlim_mkObj (ms : List (Bytes × JV)) : Machine.mkObj (unlim menv).cfg ms = Machine.mkObj menv.cfg ms := rfl

theorem sim_closeArr (s u : St) (h : Rel base s u) (hne : u.stack ≠ []) :
    StepRel base (closeArr menv s) (closeArr (unlim menv) u) := by
  obtain ⟨hs, hm, _, _⟩ := h
  cases hu : u.stack with
  | nil => exact absurd hu hne
  | cons f fs0 =>
    rw [hu] at hs
    unfold closeArr
    rw [hs, hu]
    cases f with
    | arr es => simp only [List.cons_append, unlim_tgt, StepRel]; exact rel_complete base fs0 _
    | obj ms k => simp [StepRel]

theorem sim_closeObj (s u : St) (h : Rel base s u) (hne : u.stack ≠ []) :
    StepRel base (closeObj menv s) (closeObj (unlim menv) u) := by
  obtain ⟨hs, hm, _, _⟩ := h
  cases hu : u.stack with
  | nil => exact absurd hu hne
  | cons f fs0 =>
    rw [hu] at hs
    unfold closeObj
    rw [hs, hu]
    cases f with
    | arr es => simp [StepRel]
    | obj ms k => simp only [List.cons_append, unlim_tgt, unlim_mkObj, StepRel]; exact rel_complete base fs0 _

/-- `startValue` either moves to a scanning mode on the same stack, pushes a frame (unless the depth limit is hit), or fails -/
theorem startValue_cases (env : Machine.Env) (b : UInt8) :
    (∃ m : Machine.Tgt → Mode, (∀ g, TopMode (m g)) ∧ ∀ (env' : Machine.Env) (s' : St),
      startValue env' s' b = .next { s' with mode := m env'.tgt }) ∨
    (∃ (m : Mode) (f : Frame), (m = .val .arrFirst ∨ m = .objFirst) ∧ ∀ (env' : Machine.Env) (s' : St), startValue env' s' b =
      if depthExceeded env' s' then .err .RecursionLimitExceeded .incl else .next { mode := m, stack := f :: s'.stack }) ∨
    (∀ (env' : Machine.Env) (s' : St), startValue env' s' b = .err .ExpectedSomeValue .incl) := by
  by_cases h1 : (b == 0x6e) = true
  · exact .inl ⟨fun _ => .lit Gen.identNull .null, fun _ => trivial, fun env' s' => by simp [startValue, h1]⟩
  by_cases h2 : (b == 0x74) = true
  · exact .inl ⟨fun g => .lit Gen.identTrue (if g = .value then .bool true else .null), fun _ => trivial,
      fun env' s' => by simp [startValue, h1, h2]⟩
  by_cases h3 : (b == 0x66) = true
  · exact .inl ⟨fun g => .lit Gen.identFalse (if g = .value then .bool false else .null), fun _ => trivial,
      fun env' s' => by simp [startValue, h1, h2, h3]⟩
  by_cases h4 : (b == 0x2d) = true
  · exact .inl ⟨fun _ => .num { phase := .afterMinus, neg := true, raw := [b] }, fun _ => trivial,
      fun env' s' => by simp [startValue, h1, h2, h3, h4]⟩
  by_cases h5 : (b == 0x30) = true
  · exact .inl ⟨fun _ => .num { phase := .zero, int := [b], raw := [b] }, fun _ => trivial,
      fun env' s' => by simp [startValue, h1, h2, h3, h4, h5]⟩
  by_cases h6 : Machine.isDigit b = true
  · exact .inl ⟨fun _ => .num { phase := .int, int := [b], raw := [b] }, fun _ => trivial,
      fun env' s' => by simp [startValue, h1, h2, h3, h4, h5, h6]⟩
  by_cases h7 : (b == 0x22) = true
  · exact .inl ⟨fun _ => .str {}, fun _ => rfl, fun env' s' => by simp [startValue, h1, h2, h3, h4, h5, h6, h7]⟩
  by_cases h8 : (b == 0x5b) = true
  · exact .inr (.inl ⟨.val .arrFirst, .arr [], .inl rfl, fun env' s' => by simp [startValue, h1, h2, h3, h4, h5, h6, h7, h8]⟩)
  by_cases h9 : (b == 0x7b) = true
  · exact .inr (.inl ⟨.objFirst, .obj [] [], .inr rfl, fun env' s' => by simp [startValue, h1, h2, h3, h4, h5, h6, h7, h8, h9]⟩)
  · exact .inr (.inr fun env' s' => by simp [startValue, h1, h2, h3, h4, h5, h6, h7, h8, h9])

theorem sim_startValue (s u : St) (h : Rel base s u) (b : UInt8) :
    StepRel base (startValue menv s b) (startValue (unlim menv) u b) := by
  obtain ⟨hs, hm, _, _⟩ := h
  rcases startValue_cases menv b with ⟨m, hm', he⟩ | ⟨m, f, hmf, he⟩ | he
  · rw [he menv s, he (unlim menv) u]
    exact .inl ⟨hs, rfl, fun _ => hm' _, fun v h => by
      have := hm' menv.tgt
      simp only at h
      rw [h] at this; exact this⟩
  · rw [he menv s, he (unlim menv) u, unlim_depth]
    split
    · trivial
    · refine .inl ⟨by simp [hs], rfl, fun h => by simp at h, fun v h => ?_⟩
      rcases hmf with rfl | rfl <;> cases h
  · rw [he menv s]; trivial

theorem sim_endNumber (s u : St) (h : Rel base s u) (n : Machine.NumSt) :
    match endNumber menv s n, endNumber (unlim menv) u n with
    | .ok s', .ok u' => Rel base s' u' ∨ Fin base s' u'
    | .error _, _ => True
    | _, _ => False := by
  obtain ⟨hs, hm, _, _⟩ := h
  unfold endNumber
  simp only [unlim_tgt, unlim_numValue]
  by_cases htg : menv.tgt = .value
  · simp only [htg, if_true]
    cases numValue menv n with
    | ok v => simp only []; rw [hs]; exact rel_complete base u.stack v
    | error c => trivial
  · simp only [htg, if_false]
    rw [hs]; exact rel_complete base u.stack .null

/-- the three kinds of outcome of a number step: stay in a number state, end the number, fail -/
def numFinish (env : Machine.Env) (s : St) (n : Machine.NumSt) : Step :=
  match endNumber env s n with
  | .ok s' => .again s'
  | .error (c, a) => .err c a

theorem stepNum_cases (env : Machine.Env) (n : Machine.NumSt) (b : UInt8) :
    (∃ n' : Machine.NumSt, ∀ (env' : Machine.Env) (s' : St), env'.tgt = env.tgt → env'.cfg.ap = env.cfg.ap →
      stepNum env' s' n b = .next { s' with mode := .num n' }) ∨
    (∀ (env' : Machine.Env) (s' : St), env'.tgt = env.tgt → env'.cfg.ap = env.cfg.ap →
      stepNum env' s' n b = numFinish env' s' n) ∨
    (∃ c a, ∀ (env' : Machine.Env) (s' : St), env'.tgt = env.tgt → env'.cfg.ap = env.cfg.ap →
      stepNum env' s' n b = .err c a) := by
  cases hph : n.phase
  case afterMinus =>
    by_cases h1 : (b == 0x30) = true
    · exact .inl ⟨_, fun env' s' _ _ => by simp [stepNum, hph, h1] <;> first | rfl | exact ⟨rfl, rfl⟩⟩
    by_cases h2 : Machine.isDigit b = true
    · exact .inl ⟨_, fun env' s' _ _ => by simp [stepNum, hph, h1, h2] <;> first | rfl | exact ⟨rfl, rfl⟩⟩
    · exact .inr (.inr ⟨_, _, fun env' s' _ _ => by simp [stepNum, hph, h1, h2] <;> first | rfl | exact ⟨rfl, rfl⟩⟩)
  case zero =>
    by_cases h1 : Machine.isDigit b = true
    · exact .inr (.inr ⟨_, _, fun env' s' _ _ => by simp [stepNum, hph, h1] <;> first | rfl | exact ⟨rfl, rfl⟩⟩)
    by_cases h2 : (b == 0x2e) = true
    · exact .inl ⟨_, fun env' s' _ _ => by simp [stepNum, hph, h1, h2] <;> first | rfl | exact ⟨rfl, rfl⟩⟩
    by_cases h3 : (b == 0x65 || b == 0x45) = true
    · exact .inl ⟨_, fun env' s' _ _ => by simp [stepNum, hph, h1, h2, h3] <;> first | rfl | exact ⟨rfl, rfl⟩⟩
    · exact .inr (.inl fun env' s' _ _ => by simp [stepNum, hph, h1, h2, h3, numFinish] <;> first | rfl | exact ⟨rfl, rfl⟩)
  case int =>
    by_cases h1 : Machine.isDigit b = true
    · exact .inl ⟨_, fun env' s' _ _ => by simp [stepNum, hph, h1] <;> first | rfl | exact ⟨rfl, rfl⟩⟩
    by_cases h2 : (b == 0x2e) = true
    · exact .inl ⟨_, fun env' s' _ _ => by simp [stepNum, hph, h1, h2] <;> first | rfl | exact ⟨rfl, rfl⟩⟩
    by_cases h3 : (b == 0x65 || b == 0x45) = true
    · exact .inl ⟨_, fun env' s' _ _ => by simp [stepNum, hph, h1, h2, h3] <;> first | rfl | exact ⟨rfl, rfl⟩⟩
    · exact .inr (.inl fun env' s' _ _ => by simp [stepNum, hph, h1, h2, h3, numFinish] <;> first | rfl | exact ⟨rfl, rfl⟩)
  case fracStart =>
    by_cases h1 : Machine.isDigit b = true
    · exact .inl ⟨_, fun env' s' _ _ => by simp [stepNum, hph, h1] <;> first | rfl | exact ⟨rfl, rfl⟩⟩
    · exact .inr (.inr ⟨_, _, fun env' s' _ _ => by simp [stepNum, hph, h1] <;> first | rfl | exact ⟨rfl, rfl⟩⟩)
  case frac =>
    by_cases h1 : Machine.isDigit b = true
    · exact .inl ⟨_, fun env' s' _ _ => by simp [stepNum, hph, h1] <;> first | rfl | exact ⟨rfl, rfl⟩⟩
    by_cases h3 : (b == 0x65 || b == 0x45) = true
    · exact .inl ⟨_, fun env' s' _ _ => by simp [stepNum, hph, h1, h3] <;> first | rfl | exact ⟨rfl, rfl⟩⟩
    · exact .inr (.inl fun env' s' _ _ => by simp [stepNum, hph, h1, h3, numFinish] <;> first | rfl | exact ⟨rfl, rfl⟩)
  case expStart =>
    by_cases h1 : (b == 0x2b) = true
    · exact .inl ⟨_, fun env' s' _ _ => by simp [stepNum, hph, h1] <;> first | rfl | exact ⟨rfl, rfl⟩⟩
    by_cases h2 : (b == 0x2d) = true
    · exact .inl ⟨_, fun env' s' _ _ => by simp [stepNum, hph, h1, h2] <;> first | rfl | exact ⟨rfl, rfl⟩⟩
    by_cases h3 : Machine.isDigit b = true
    · exact .inl ⟨_, fun env' s' _ _ => by simp [stepNum, hph, h1, h2, h3] <;> first | rfl | exact ⟨rfl, rfl⟩⟩
    · exact .inr (.inr ⟨_, _, fun env' s' _ _ => by simp [stepNum, hph, h1, h2, h3] <;> first | rfl | exact ⟨rfl, rfl⟩⟩)
  case expSign =>
    by_cases h1 : Machine.isDigit b = true
    · exact .inl ⟨_, fun env' s' _ _ => by simp [stepNum, hph, h1] <;> first | rfl | exact ⟨rfl, rfl⟩⟩
    · exact .inr (.inr ⟨_, _, fun env' s' _ _ => by simp [stepNum, hph, h1] <;> first | rfl | exact ⟨rfl, rfl⟩⟩)
  case exp =>
    by_cases h1 : Machine.isDigit b = true
    · by_cases h2 : (decide (env.tgt = .value) && !env.cfg.ap && Model.Num.expOverflows (b :: n.expDigits).reverse
          && !((n.int.reverse ++ n.frac.reverse).all (· == 0x30)) && !n.expNeg) = true
      · exact .inr (.inr ⟨_, _, fun env' s' ht ha => by
          rw [← ht, ← ha] at h2
          simp only [stepNum, hph, h1, if_true]
          rw [if_pos h2]⟩)
      · exact .inl ⟨_, fun env' s' ht ha => by
          rw [← ht, ← ha] at h2
          simp only [stepNum, hph, h1, if_true]
          rw [if_neg h2]⟩
    · exact .inr (.inl fun env' s' _ _ => by simp [stepNum, hph, h1, numFinish] <;> first | rfl | exact ⟨rfl, rfl⟩)

theorem sim_stepNum (s u : St) (h : Rel base s u) (n : Machine.NumSt) (b : UInt8) :
    StepRel base (stepNum menv s n b) (stepNum (unlim menv) u n b) := by
  have hen := sim_endNumber menv base s u h n
  obtain ⟨hs, hm, _, _⟩ := h
  rcases stepNum_cases menv n b with ⟨n', he⟩ | he | ⟨c, a, he⟩
  · rw [he menv s rfl rfl, he (unlim menv) u rfl rfl]
    exact .inl ⟨hs, rfl, fun _ => trivial, fun v h => by cases h⟩
  · rw [he menv s rfl rfl, he (unlim menv) u rfl rfl]
    unfold numFinish
    cases h1 : endNumber menv s n with
    | error e => obtain ⟨c, a⟩ := e; trivial
    | ok s' =>
      cases h2 : endNumber (unlim menv) u n with
      | error e => rw [h1, h2] at hen; exact hen.elim
      | ok u' => rw [h1, h2] at hen; exact hen
  · rw [he menv s rfl rfl]; trivial

theorem sim_endStr (s u : St) (h : Rel base s u) (st : Machine.StrSt) (hst : u.stack = [] → st.isKey = false) :
    StepRel base (endStr menv s st) (endStr (unlim menv) u st) := by
  obtain ⟨hs, hm, _, _⟩ := h
  have key : ∀ e2 : Machine.Env, e2.tgt = menv.tgt → e2.src = menv.src → StepRel base (endStr menv s st) (endStr e2 u st) := by
    intro e2 h1 h2
    unfold endStr
    rw [h1, h2]
    by_cases hbad : (decide (menv.tgt = .value) && menv.src != .str && !Spec.Utf8.validUtf8 st.out.reverse) = true
    · simp only [hbad, if_true]; trivial
    · simp only [hbad, Bool.false_eq_true, if_false]
      by_cases hk : st.isKey = true
      · simp only [hk, if_true]
        cases hu : u.stack with
        | nil => rw [hst hu] at hk; cases hk
        | cons f fs0 =>
          rw [hu] at hs
          rw [hs]
          cases f with
          | arr es => trivial
          | obj ms k => exact .inl ⟨rfl, rfl, fun h => by simp at h, fun v h => by cases h⟩
      · simp only [hk, Bool.false_eq_true, if_false]
        rw [hs]; exact rel_complete base u.stack _
  exact key (unlim menv) rfl rfl

/-- the outcomes of a string step: stay in a string state (same `isKey`), end the string, fail -/
theorem stepStr_cases (env : Machine.Env) (st : Machine.StrSt) (b : UInt8) :
    (∃ st' : Machine.StrSt, st'.isKey = st.isKey ∧ ∀ (env' : Machine.Env) (s' : St), env'.tgt = env.tgt →
      stepStr env' s' st b = .next { s' with mode := .str st' }) ∨
    (∀ (env' : Machine.Env) (s' : St), env'.tgt = env.tgt → stepStr env' s' st b = endStr env' s' st) ∨
    (∃ c a, ∀ (env' : Machine.Env) (s' : St), env'.tgt = env.tgt → stepStr env' s' st b = .err c a) := by
  cases hesc : st.esc
  case none =>
    by_cases h1 : (b == 0x22) = true
    · exact .inr (.inl fun env' s' _ => by simp [stepStr, hesc, h1])
    by_cases h2 : (b == 0x5c) = true
    · exact .inl ⟨{ st with esc := .bs, escaped := true }, rfl, fun env' s' _ => by simp [stepStr, hesc, h1, h2]⟩
    by_cases h3 : b < 0x20
    · exact .inr (.inr ⟨.ControlCharacterWhileParsingString, .incl, fun env' s' _ => by simp [stepStr, hesc, h1, h2, h3]⟩)
    · exact .inl ⟨{ st with out := b :: st.out }, rfl, fun env' s' _ => by simp [stepStr, hesc, h1, h2, h3]⟩
  case bs =>
    by_cases h1 : (b == 0x75) = true
    · exact .inl ⟨{ st with esc := .hex [] none }, rfl, fun env' s' _ => by simp [stepStr, hesc, h1]⟩
    by_cases h2 : Spec.Grammar.isSimpleEscape b = true
    · exact .inl ⟨{ st with out := Spec.Denote.simpleEscape b :: st.out, esc := .none }, rfl,
        fun env' s' _ => by simp [stepStr, hesc, h1, h2]⟩
    · exact .inr (.inr ⟨.InvalidEscape, .incl, fun env' s' _ => by simp [stepStr, hesc, h1, h2]⟩)
  case hex acc lead =>
    by_cases h1 : (acc ++ [b]).length < 4
    · exact .inl ⟨{ st with esc := .hex (acc ++ [b]) lead }, rfl, fun env' s' _ => by simp only [stepStr, hesc]; rw [if_pos h1]⟩
    cases hx : Machine.hex4 (acc ++ [b]) with
    | none => exact .inr (.inr ⟨.InvalidEscape, .incl, fun env' s' _ => by simp only [stepStr, hesc]; rw [if_neg h1, hx]⟩)
    | some nn =>
      by_cases hig : env.tgt = .ignored
      · exact .inl ⟨{ st with esc := .none }, rfl, fun env' s' ht => by
          simp only [stepStr, hesc]; rw [if_neg h1, hx]; simp only []; rw [if_pos (ht ▸ hig)]⟩
      cases lead with
      | none =>
        by_cases h2 : (decide (0xDC00 ≤ nn) && decide (nn ≤ 0xDFFF)) = true
        · exact .inr (.inr ⟨.LoneLeadingSurrogateInHexEscape, .incl, fun env' s' ht => by
            simp only [stepStr, hesc]; rw [if_neg h1, hx]; simp only []; rw [if_neg (ht ▸ hig), if_pos h2]⟩)
        by_cases h3 : (decide (0xD800 ≤ nn) && decide (nn ≤ 0xDBFF)) = true
        · exact .inl ⟨{ st with esc := .lead1 nn }, rfl, fun env' s' ht => by
            simp only [stepStr, hesc]; rw [if_neg h1, hx]; simp only []; rw [if_neg (ht ▸ hig), if_neg h2, if_pos h3]⟩
        · exact .inl ⟨{ st with out := (Spec.Denote.utf8 nn).reverse ++ st.out, esc := .none }, rfl, fun env' s' ht => by
            simp only [stepStr, hesc]; rw [if_neg h1, hx]; simp only []; rw [if_neg (ht ▸ hig), if_neg h2, if_neg h3]⟩
      | some n1 =>
        by_cases h2 : (decide (nn < 0xDC00) || decide (nn > 0xDFFF)) = true
        · exact .inr (.inr ⟨.LoneLeadingSurrogateInHexEscape, .incl, fun env' s' ht => by
            simp only [stepStr, hesc]; rw [if_neg h1, hx]; simp only []; rw [if_neg (ht ▸ hig), if_pos h2]⟩)
        · exact .inl ⟨{ st with out := (Spec.Denote.utf8 (0x10000 + (n1 - 0xD800) * 0x400 + (nn - 0xDC00))).reverse ++ st.out, esc := .none },
            rfl, fun env' s' ht => by
            simp only [stepStr, hesc]; rw [if_neg h1, hx]; simp only []; rw [if_neg (ht ▸ hig), if_neg h2]⟩
  case lead1 n1 =>
    by_cases h1 : (b == 0x5c) = true
    · exact .inl ⟨{ st with esc := .lead2 n1 }, rfl, fun env' s' _ => by simp [stepStr, hesc, h1]⟩
    · exact .inr (.inr ⟨.UnexpectedEndOfHexEscape, .incl, fun env' s' _ => by simp [stepStr, hesc, h1]⟩)
  case lead2 n1 =>
    by_cases h1 : (b == 0x75) = true
    · exact .inl ⟨{ st with esc := .hex [] (some n1) }, rfl, fun env' s' _ => by simp [stepStr, hesc, h1]⟩
    · exact .inr (.inr ⟨.UnexpectedEndOfHexEscape, .incl, fun env' s' _ => by simp [stepStr, hesc, h1]⟩)

theorem sim_stepStr (s u : St) (h : Rel base s u) (st : Machine.StrSt) (hst : u.stack = [] → st.isKey = false) (b : UInt8) :
    StepRel base (stepStr menv s st b) (stepStr (unlim menv) u st b) := by
  have hend := sim_endStr menv base s u h st hst
  obtain ⟨hs, hm, _, _⟩ := h
  rcases stepStr_cases menv st b with ⟨st', hk, he⟩ | he | ⟨c, a, he⟩
  · rw [he menv s rfl, he (unlim menv) u rfl]
    exact .inl ⟨hs, rfl, fun hu => by simp only [TopMode]; rw [hk]; exact hst hu, fun v h => by cases h⟩
  · rw [he menv s rfl, he (unlim menv) u rfl]; exact hend
  · rw [he menv s rfl]; trivial

theorem stepRel_err_err (c1 c2 : Code) (a1 a2 : Machine.Adj) : StepRel base (.err c1 a1) (.err c2 a2) := trivial

/-- one machine step in corresponding states -/
theorem sim_step1 (s u : St) (h : Rel base s u) (b : UInt8) :
    StepRel base (step1 menv s b) (step1 (unlim menv) u b) := by
  have hself : StepRel base (.next s) (.next u) := .inl h
  obtain ⟨hs, hm, htop, hnd⟩ := h
  have hrel : Rel base s u := ⟨hs, hm, htop, hnd⟩
  have hstay : ∀ m : Mode, (u.stack = [] → TopMode m) → (∀ v, m ≠ .done v) →
      StepRel base (.next { s with mode := m }) (.next { u with mode := m }) :=
    fun m hmm hd => .inl ⟨hs, rfl, hmm, hd⟩
  unfold step1
  rw [hm]
  cases hmode : s.mode with
  | val ctx =>
    simp only []
    by_cases hw : Machine.isWs b = true
    · simp only [hw, if_true]; exact hself
    · simp only [hw, Bool.false_eq_true, if_false]
      by_cases hc1 : (b == 0x5d && decide (ctx = .arrFirst)) = true
      · simp only [hc1, if_true]
        refine sim_closeArr menv base s u hrel (fun hu => ?_)
        have h1 := htop hu
        rw [hmode] at h1
        simp only [TopMode] at h1
        subst h1
        simp at hc1
      · simp only [hc1, Bool.false_eq_true, if_false]
        by_cases hc2 : (b == 0x5d && decide (ctx = .arrNext)) = true
        · simp only [hc2, if_true]; exact stepRel_err_err base _ _ _ _
        · simp only [hc2, Bool.false_eq_true, if_false]
          exact sim_startValue menv base s u hrel b
  | lit rest v =>
    cases rest with
    | nil => exact stepRel_err_err base _ _ _ _
    | cons e es =>
      simp only []
      by_cases hbe : (b == e) = true
      · simp only [hbe, if_true]
        by_cases hes : es.isEmpty = true
        · simp only [hes, if_true, StepRel]; rw [hs]; exact rel_complete base u.stack v
        · simp only [hes, Bool.false_eq_true, if_false]
          exact hstay _ (fun _ => trivial) (fun v h => by cases h)
      · simp only [hbe, Bool.false_eq_true, if_false]; exact stepRel_err_err base _ _ _ _
  | num n => exact sim_stepNum menv base s u hrel n b
  | str st =>
    exact sim_stepStr menv base s u hrel st (fun hu => by have := htop hu; rw [hmode] at this; exact this) b
  | afterElem =>
    have hu : u.stack ≠ [] := fun hu => by have := htop hu; rw [hmode] at this; exact this
    simp only []
    by_cases hw : Machine.isWs b = true
    · simp only [hw, if_true]; exact hself
    · simp only [hw, Bool.false_eq_true, if_false]
      by_cases h1 : (b == 0x2c) = true
      · simp only [h1, if_true]; exact hstay _ (fun h => absurd h hu) (fun v h => by cases h)
      · simp only [h1, Bool.false_eq_true, if_false]
        by_cases h2 : (b == 0x5d) = true
        · simp only [h2, if_true]; exact sim_closeArr menv base s u hrel hu
        · simp only [h2, Bool.false_eq_true, if_false]; exact stepRel_err_err base _ _ _ _
  | objFirst =>
    have hu : u.stack ≠ [] := fun hu => by have := htop hu; rw [hmode] at this; exact this
    simp only []
    by_cases hw : Machine.isWs b = true
    · simp only [hw, if_true]; exact hself
    · simp only [hw, Bool.false_eq_true, if_false]
      by_cases h1 : (b == 0x7d) = true
      · simp only [h1, if_true]; exact sim_closeObj menv base s u hrel hu
      · simp only [h1, Bool.false_eq_true, if_false]
        by_cases h2 : (b == 0x22) = true
        · simp only [h2, if_true]; exact hstay _ (fun h => absurd h hu) (fun v h => by cases h)
        · simp only [h2, Bool.false_eq_true, if_false]; exact stepRel_err_err base _ _ _ _
  | objNextKey =>
    have hu : u.stack ≠ [] := fun hu => by have := htop hu; rw [hmode] at this; exact this
    simp only []
    by_cases hw : Machine.isWs b = true
    · simp only [hw, if_true]; exact hself
    · simp only [hw, Bool.false_eq_true, if_false]
      by_cases h2 : (b == 0x22) = true
      · simp only [h2, if_true]; exact hstay _ (fun h => absurd h hu) (fun v h => by cases h)
      · simp only [h2, Bool.false_eq_true, if_false]
        split <;> split <;> exact stepRel_err_err base _ _ _ _
  | afterKey =>
    have hu : u.stack ≠ [] := fun hu => by have := htop hu; rw [hmode] at this; exact this
    simp only []
    by_cases hw : Machine.isWs b = true
    · simp only [hw, if_true]; exact hself
    · simp only [hw, Bool.false_eq_true, if_false]
      by_cases h1 : (b == 0x3a) = true
      · simp only [h1, if_true]; exact hstay _ (fun h => absurd h hu) (fun v h => by cases h)
      · simp only [h1, Bool.false_eq_true, if_false]; exact stepRel_err_err base _ _ _ _
  | afterMember =>
    have hu : u.stack ≠ [] := fun hu => by have := htop hu; rw [hmode] at this; exact this
    simp only []
    by_cases hw : Machine.isWs b = true
    · simp only [hw, if_true]; exact hself
    · simp only [hw, Bool.false_eq_true, if_false]
      by_cases h1 : (b == 0x2c) = true
      · simp only [h1, if_true]; exact hstay _ (fun h => absurd h hu) (fun v h => by cases h)
      · simp only [h1, Bool.false_eq_true, if_false]
        by_cases h2 : (b == 0x7d) = true
        · simp only [h2, if_true]; exact sim_closeObj menv base s u hrel hu
        · simp only [h2, Bool.false_eq_true, if_false]; exact stepRel_err_err base _ _ _ _
  | done v => exact absurd hmode (hnd v)

/-! ## runs -/

theorem padStack_length (t : Nat) : (padStack t).length = t := by simp [padStack]

theorem completed_rel (t : Nat) (s u : St) (h : Rel (padStack t) s u) : completed t s = none := by
  obtain ⟨hs, hm, htop, hnd⟩ := h
  unfold completed
  cases hmode : s.mode with
  | done v => exact absurd hmode (hnd v)
  | afterElem =>
    have hu : u.stack ≠ [] := fun hu => by have := htop hu; rw [hmode] at this; exact this
    have : (s.stack.length == t) = false := by
      rw [hs]
      simp only [List.length_append, padStack_length, beq_eq_false_iff_ne, ne_eq]
      cases hus : u.stack with
      | nil => exact absurd hus hu
      | cons f fs => simp
    simp [this]
  | _ => rfl

theorem completed_fin (t : Nat) (s u : St) (h : Fin (padStack t) s u) : ∃ v, completed t s = some v ∧ u = ⟨.done v, []⟩ := by
  obtain ⟨v, rfl, rfl⟩ := h
  refine ⟨v, ?_, rfl⟩
  cases t with
  | zero => rfl
  | succ k =>
    show completed (k + 1) (complete (Frame.arr [] :: padStack k) v) = some v
    simp [complete, completed, padStack_length]

theorem finishMode_ok_done (env : Machine.Env) (s : St) (v : JV) (h : finishMode env s = .ok v) : s.mode = .done v := by
  unfold finishMode at h
  split at h <;> first | (simp at h; done) | (simp at h; subst h; assumption)

variable (t : Nat)

/-- the padded run agrees with the unlimited unpadded run, or fails -/
theorem sim_run : ∀ (bs : Bytes) (s u : St) (i : Nat) (val : JV) (e : Nat), Rel (padStack t) s u →
    runPrefix (unlim menv) u i bs = .ok val e →
    runPfx menv false t s i bs = .ok val e ∨ ∃ c k, runPfx menv false t s i bs = .err c k := by
  intro bs
  induction bs with
  | nil =>
    intro s u i val e hrel hrun
    simp only [runPrefix] at hrun
    simp only [runPfx, Bool.false_eq_true, if_false]
    cases hft : finishT menv t s with
    | error c => exact .inr ⟨c, i, rfl⟩
    | ok v =>
      left
      cases hfu : Machine.finish (unlim menv) u with
      | error c => rw [hfu] at hrun; simp at hrun
      | ok v' =>
        rw [hfu] at hrun
        simp only [POut.ok.injEq] at hrun
        obtain ⟨rfl, rfl⟩ := hrun
        -- both ends come from a pending number
        obtain ⟨hs, hm, htop, hnd⟩ := hrel
        have hrel : Rel (padStack t) s u := ⟨hs, hm, htop, hnd⟩
        unfold Machine.finish at hfu
        unfold finishT at hft
        rw [hm] at hfu
        cases hmode : s.mode with
        | num n =>
          rw [hmode] at hfu hft
          simp only at hfu hft
          have hen := sim_endNumber menv (padStack t) s u hrel n
          cases hph : n.phase <;> rw [hph] at hfu hft <;> simp only at hfu hft
          all_goals first
            | (simp at hfu; done)
            | (cases h1 : endNumber menv s n with
               | error er => rw [h1] at hft; simp at hft
               | ok s' =>
                 cases h2 : endNumber (unlim menv) u n with
                 | error er => rw [h2] at hfu; simp at hfu
                 | ok u' =>
                   rw [h1, h2] at hen
                   rw [h1] at hft
                   rw [h2] at hfu
                   simp only at hen hft hfu
                   have hud := finishMode_ok_done _ _ _ hfu
                   rcases hen with hr | hf
                   · exact absurd (hr.2.1 ▸ hud) (hr.2.2.2 v')
                   · obtain ⟨w, hc, hu'⟩ := completed_fin t s' u' hf
                     rw [hc] at hft
                     rw [hu'] at hud
                     simp at hft hud
                     rw [← hft, hud])
        | _ =>
          rw [hmode] at hfu
          simp only at hfu
          have := finishMode_ok_done _ _ _ hfu
          rw [hm, hmode] at this
          first | (cases this; exact absurd hmode (hnd _)) | cases this
  | cons b bs ih =>
    intro s u i val e hrel hrun
    have hst := sim_step1 menv (padStack t) s u hrel b
    unfold runPrefix at hrun
    unfold runPfx
    cases h1 : step1 menv s b with
    | err c a => exact .inr ⟨c, _, rfl⟩
    | next s' =>
      cases h2 : step1 (unlim menv) u b with
      | err c a => rw [h1, h2] at hst; exact hst.elim
      | again u' => rw [h1, h2] at hst; exact hst.elim
      | next u' =>
        rw [h1, h2] at hst
        rw [h2] at hrun
        simp only at hrun ⊢
        rcases hst with hr | hf
        · rw [completed_rel t s' u' hr]
          simp only
          have hnd : ∀ v, u'.mode ≠ .done v := fun v h => hr.2.2.2 v (hr.2.1 ▸ h)
          have : runPrefix (unlim menv) u' (i + 1) bs = .ok val e := by
            cases hmu : u'.mode <;> rw [hmu] at hrun <;> first | exact hrun | exact absurd hmu (hnd _)
          exact ih s' u' (i + 1) val e hr this
        · obtain ⟨w, hc, hu'⟩ := completed_fin t s' u' hf
          rw [hc]
          rw [hu'] at hrun
          simp only [POut.ok.injEq] at hrun
          obtain ⟨rfl, rfl⟩ := hrun
          exact .inl rfl
    | again s' =>
      cases h2 : step1 (unlim menv) u b with
      | err c a => rw [h1, h2] at hst; exact hst.elim
      | next u' => rw [h1, h2] at hst; exact hst.elim
      | again u' =>
        rw [h1, h2] at hst
        rw [h2] at hrun
        simp only at hrun ⊢
        rcases hst with hr | hf
        · rw [completed_rel t s' u' hr]
          simp only
          have hnd : ∀ v, u'.mode ≠ .done v := fun v h => hr.2.2.2 v (hr.2.1 ▸ h)
          have hrun2 : (match step1 (unlim menv) u' b with
              | .err c a => POut.err c (errIdx (unlim menv) a i)
              | .next s'' => (match s''.mode with | .done v => POut.ok v (i + 1) | _ => runPrefix (unlim menv) s'' (i + 1) bs)
              | .again _ => POut.err .ExpectedSomeValue (i + 1)) = .ok val e := by
            cases hmu : u'.mode <;> rw [hmu] at hrun <;> first | exact hrun | exact absurd hmu (hnd _)
          have hst2 := sim_step1 menv (padStack t) s' u' hr b
          cases h3 : step1 menv s' b with
          | err c a => exact .inr ⟨c, _, rfl⟩
          | again s'' => exact .inr ⟨_, _, rfl⟩
          | next s'' =>
            cases h4 : step1 (unlim menv) u' b with
            | err c a => rw [h3, h4] at hst2; exact hst2.elim
            | again u'' => rw [h3, h4] at hst2; exact hst2.elim
            | next u'' =>
              rw [h3, h4] at hst2
              rw [h4] at hrun2
              simp only at hrun2 ⊢
              rcases hst2 with hr2 | hf2
              · rw [completed_rel t s'' u'' hr2]
                simp only
                have hnd2 : ∀ v, u''.mode ≠ .done v := fun v h => hr2.2.2.2 v (hr2.2.1 ▸ h)
                have : runPrefix (unlim menv) u'' (i + 1) bs = .ok val e := by
                  cases hmu : u''.mode <;> rw [hmu] at hrun2 <;> first | exact hrun2 | exact absurd hmu (hnd2 _)
                exact ih s'' u'' (i + 1) val e hr2 this
              · obtain ⟨w, hc, hu'⟩ := completed_fin t s'' u'' hf2
                rw [hc]
                rw [hu'] at hrun2
                simp only [POut.ok.injEq] at hrun2
                obtain ⟨rfl, rfl⟩ := hrun2
                exact .inl rfl
        · obtain ⟨w, hc, hu'⟩ := completed_fin t s' u' hf
          rw [hc]
          rw [hu'] at hrun
          simp only [POut.ok.injEq] at hrun
          obtain ⟨rfl, rfl⟩ := hrun
          exact .inl rfl

/-! ## the padded run along a successful feed -/

open SJ.Proofs.Complete (Feeds feedS Pending GoodPhase numCont Side Res)
open SJ.Spec.Grammar (CST Derives)

theorem runPfx_cons (flt : Bool) (s : St) (i : Nat) (b : UInt8) (bs : Bytes) :
    runPfx menv flt t s i (b :: bs) =
      match step1 menv s b with
      | .err c a => .err c (errIdx menv a i)
      | .next s' =>
        (match completed t s' with
        | some v => .ok v (i + 1)
        | none => runPfx menv flt t s' (i + 1) bs)
      | .again s' =>
        (match completed t s' with
        | some v => .ok v i
        | none =>
          match step1 menv s' b with
          | .err c a => .err c (errIdx menv a i)
          | .next s'' =>
            (match completed t s'' with
            | some v => .ok v (i + 1)
            | none => runPfx menv flt t s'' (i + 1) bs)
          | .again _ => .err .ExpectedSomeValue (i + 1)) := by
  rw [runPfx]
  rfl

theorem step1_ws_complete (env : Machine.Env) (st : List Frame) (w : JV) (b : UInt8) (hw : Machine.isWs b = true) :
    step1 env (complete st w) b = .next (complete st w) := by
  cases st with
  | nil => simp [complete, step1, hw]
  | cons f fs => cases f <;> simp [complete, step1, hw]

theorem step1_done_cases (env : Machine.Env) (w : JV) (b : UInt8) :
    step1 env (complete [] w) b = if Machine.isWs b then .next (complete [] w) else .err .TrailingCharacters .incl := by
  simp [complete, step1]

/-- the padded run follows a successful feed until the value is complete -/
theorem runPfx_feeds_cont : ∀ (xs : Bytes) (s s_e : St) (i : Nat) (r : Bytes), Feeds menv s xs s_e →
    (∃ val e, runPfx menv false t s i (xs ++ r) = .ok val e) ∨
    (runPfx menv false t s i (xs ++ r) = runPfx menv false t s_e (i + xs.length) r ∧ (xs ≠ [] → completed t s_e = none)) := by
  intro xs
  induction xs with
  | nil =>
    intro s s_e i r hf
    simp only [Feeds, feedS, Except.ok.injEq] at hf
    subst hf
    exact .inr ⟨by simp, fun h => absurd rfl h⟩
  | cons b xs ih =>
    intro s s_e i r hf
    unfold Feeds at hf
    simp only [feedS] at hf
    cases hst : Machine.step menv s b with
    | error er => rw [hst] at hf; cases hf
    | ok s1 =>
      rw [hst] at hf
      have hf' : Feeds menv s1 xs s_e := hf
      have hidx : i + 1 + xs.length = i + (b :: xs).length := by simp only [List.length_cons]; omega
      -- what the run does after `s1` is reached without completion
      have cont : completed t s1 = none →
          ((∃ val e, runPfx menv false t s1 (i + 1) (xs ++ r) = .ok val e) ∨
           (runPfx menv false t s1 (i + 1) (xs ++ r) = runPfx menv false t s_e (i + (b :: xs).length) r ∧
             ((b :: xs) ≠ [] → completed t s_e = none))) := by
        intro hc1
        rcases ih s1 s_e (i + 1) r hf' with h | ⟨h1, h2⟩
        · exact .inl h
        · refine .inr ⟨by rw [h1, hidx], fun _ => ?_⟩
          cases xs with
          | nil =>
            simp only [Feeds, feedS, Except.ok.injEq] at hf'
            rw [← hf']; exact hc1
          | cons x xs' => exact h2 (by simp)
      unfold Machine.step at hst
      simp only [List.cons_append]
      rw [runPfx_cons]
      cases h1 : step1 menv s b with
      | err c a => rw [h1] at hst; simp at hst
      | next s' =>
        rw [h1] at hst
        simp only [Except.ok.injEq] at hst
        subst hst
        simp only
        cases hc : completed t s' with
        | some v => exact .inl ⟨v, _, rfl⟩
        | none => simp only; exact cont hc
      | again s0 =>
        rw [h1] at hst
        simp only at hst ⊢
        cases hc0 : completed t s0 with
        | some v => exact .inl ⟨v, _, rfl⟩
        | none =>
          simp only
          cases h2 : step1 menv s0 b with
          | err c a => rw [h2] at hst; simp at hst
          | again s'' => rw [h2] at hst; simp at hst
          | next s' =>
            rw [h2] at hst
            simp only [Except.ok.injEq] at hst
            subst hst
            simp only
            cases hc : completed t s' with
            | some v => exact .inl ⟨v, _, rfl⟩
            | none => simp only; exact cont hc

/-- two feeds of the same bytes from corresponding states stay in correspondence until the value is complete; if the
    value is complete before the end, the rest is fed to a `done` state of the unpadded machine -/
theorem sim_feeds : ∀ (xs : Bytes) (s u s_e u_e : St), Rel (padStack t) s u → Feeds menv s xs s_e →
    Feeds (unlim menv) u xs u_e →
    Rel (padStack t) s_e u_e ∨ Fin (padStack t) s_e u_e ∨
    (∃ xs1 xs2 u1 v1, xs = xs1 ++ xs2 ∧ xs2 ≠ [] ∧ Feeds (unlim menv) u xs1 u1 ∧ u1.mode = .done v1 ∧ Feeds (unlim menv) u1 xs2 u_e) := by
  intro xs
  induction xs with
  | nil =>
    intro s u s_e u_e hrel hf hfu
    simp only [Feeds, feedS, Except.ok.injEq] at hf hfu
    subst hf; subst hfu
    exact .inl hrel
  | cons b xs ih =>
    intro s u s_e u_e hrel hf hfu
    unfold Feeds at hf hfu
    simp only [feedS] at hf hfu
    cases hst : Machine.step menv s b with
    | error er => rw [hst] at hf; cases hf
    | ok s1 =>
      cases hsu : Machine.step (unlim menv) u b with
      | error er => rw [hsu] at hfu; cases hfu
      | ok u1 =>
        rw [hst] at hf
        rw [hsu] at hfu
        have hf' : Feeds menv s1 xs s_e := hf
        have hfu' : Feeds (unlim menv) u1 xs u_e := hfu
        have hone : Feeds (unlim menv) u [b] u1 := SJ.Proofs.Complete.Feeds.one hsu
        -- after the byte: still in correspondence, or the value is complete
        have after : Rel (padStack t) s1 u1 ∨ Fin (padStack t) s1 u1 := by
          have hs1 := sim_step1 menv (padStack t) s u hrel b
          unfold Machine.step at hst hsu
          cases h1 : step1 menv s b with
          | err c a => rw [h1] at hst; simp at hst
          | next s' =>
            rw [h1] at hst
            cases h2 : step1 (unlim menv) u b with
            | err c a => rw [h1, h2] at hs1; exact hs1.elim
            | again u' => rw [h1, h2] at hs1; exact hs1.elim
            | next u' =>
              rw [h2] at hsu
              simp only [Except.ok.injEq] at hst hsu
              subst hst; subst hsu
              rw [h1, h2] at hs1
              exact hs1
          | again s0 =>
            rw [h1] at hst
            cases h2 : step1 (unlim menv) u b with
            | err c a => rw [h1, h2] at hs1; exact hs1.elim
            | next u' => rw [h1, h2] at hs1; exact hs1.elim
            | again u0 =>
              rw [h2] at hsu
              rw [h1, h2] at hs1
              simp only at hst hsu
              rcases hs1 with hr0 | hf0
              · have hs2 := sim_step1 menv (padStack t) s0 u0 hr0 b
                cases h3 : step1 menv s0 b with
                | err c a => rw [h3] at hst; simp at hst
                | again _ => rw [h3] at hst; simp at hst
                | next s' =>
                  rw [h3] at hst
                  cases h4 : step1 (unlim menv) u0 b with
                  | err c a => rw [h3, h4] at hs2; exact hs2.elim
                  | again _ => rw [h3, h4] at hs2; exact hs2.elim
                  | next u' =>
                    rw [h4] at hsu
                    simp only [Except.ok.injEq] at hst hsu
                    subst hst; subst hsu
                    rw [h3, h4] at hs2
                    exact hs2
              · -- the number ended before `b`: `b` is whitespace after the complete value on both sides
                obtain ⟨w, hsw, huw⟩ := hf0
                right
                subst hsw; subst huw
                rw [step1_done_cases] at hsu
                by_cases hwsb : Machine.isWs b = true
                · simp only [hwsb, if_true, Except.ok.injEq] at hsu
                  rw [step1_ws_complete menv _ w b hwsb] at hst
                  simp only [Except.ok.injEq] at hst
                  exact ⟨w, hst.symm, hsu.symm⟩
                · simp [hwsb] at hsu
        rcases after with hr1 | hf1
        · rcases ih s1 u1 s_e u_e hr1 hf' hfu' with h | h | ⟨xs1, xs2, u2, v2, e, hne, hfa, hmd, hfb⟩
          · exact .inl h
          · exact .inr (.inl h)
          · exact .inr (.inr ⟨b :: xs1, xs2, u2, v2, by rw [e]; rfl, hne,
              SJ.Proofs.Complete.Feeds.append hone hfa, hmd, hfb⟩)
        · cases xs with
          | nil =>
            simp only [Feeds, feedS, Except.ok.injEq] at hf' hfu'
            subst hf'; subst hfu'
            exact .inr (.inl hf1)
          | cons x xs' =>
            obtain ⟨w, _, huw⟩ := hf1
            exact .inr (.inr ⟨[b], x :: xs', u1, w, rfl, by simp, hone, by rw [huw]; rfl, hfu'⟩)

/-! ## one printed value off the head of the input, on `t` padding frames -/

theorem complete_stack_inj (st st' : List Frame) (v v' : JV) (h : complete st v = complete st' v') : st = st' := by
  cases st with
  | nil =>
    cases st' with
    | nil => rfl
    | cons f fs => cases f <;> simp [complete] at h
  | cons f fs =>
    cases st' with
    | nil => cases f <;> simp [complete] at h
    | cons f' fs' =>
      cases f <;> cases f' <;> simp [complete] at h
      · obtain ⟨⟨_, rfl⟩, rfl⟩ := h; rfl
      · obtain ⟨⟨⟨_, rfl⟩, rfl⟩, rfl⟩ := h; rfl

theorem getLast?_append_ne : ∀ (a b : Bytes), b ≠ [] → (a ++ b).getLast? = b.getLast?
  | [], b, _ => rfl
  | x :: a, b, h => by
    rw [List.cons_append, SJ.Proofs.StreamValues.getLast?_cons_ne x (a ++ b) (by simp [h])]
    exact getLast?_append_ne a b h

open SJ.Proofs.StreamValues (derives_shape num_state_head opener_not_ws opener_not_num feeds_done runPrefix_complete) in
/-- **reading one value on a padded stack**: the denoted value and the index just past it -/
theorem machine_complete_pad (v : Bytes) (tree : CST) (hd : Derives v tree) (hside : Side menv t tree)
    (hsideU : Side (unlim menv) 0 tree) (r : Bytes) (p : Nat)
    (hfollow : (∃ q, tree = .num q) → ∀ d r', r = d :: r' → numCont d = false) :
    ∃ val, Res (unlim menv) tree val ∧
      machine menv false t ⟨.val .top, padStack t⟩ (v ++ r) p = .ok val r (p + v.length) := by
  obtain ⟨val, hres, hrunU⟩ := runPrefix_complete (unlim menv) v tree hd hsideU r p hfollow
  have hrel0 : Rel (padStack t) ⟨.val .top, padStack t⟩ init := ⟨rfl, rfl, fun _ => rfl, fun v h => by cases h⟩
  have hsim := sim_run menv t (v ++ r) _ init p val _ hrel0 hrunU
  suffices hok : ∃ val' e', runPfx menv false t ⟨.val .top, padStack t⟩ p (v ++ r) = .ok val' e' by
    rcases hsim with h | ⟨c, k, h⟩
    · refine ⟨val, hres, ?_⟩
      unfold machine
      rw [h]
      simp
    · obtain ⟨val', e', hk⟩ := hok
      rw [hk] at h; cases h
  obtain ⟨valp, s_e, _, hf, hp⟩ := SJ.Proofs.Complete.drive menv hd (padStack t) .top (by rw [padStack_length]; exact hside)
  rcases runPfx_feeds_cont menv t v _ s_e p r hf with h | ⟨hcont, hnone⟩
  · exact h
  · have hvne : v ≠ [] := SJ.Proofs.Complete.derives_ne_nil hd
    have hcn := hnone hvne
    rcases hp with rfl | ⟨n, hm, hg, he⟩
    · obtain ⟨w, hc, _⟩ := completed_fin t (complete (padStack t) valp) (complete [] valp) ⟨valp, rfl, rfl⟩
      rw [hc] at hcn; cases hcn
    · rcases derives_shape hd with ⟨q, rfl⟩ | ⟨b, c, hb, ho, hc, hcw⟩
      · -- a number: it ends at the end of the input or on a byte that cannot continue it
        rw [hcont]
        obtain ⟨w, hcw, _⟩ := completed_fin t (complete (padStack t) valp) (complete [] valp) ⟨valp, rfl, rfl⟩
        cases r with
        | nil =>
          refine ⟨w, p + v.length, ?_⟩
          simp only [runPfx, Bool.false_eq_true, if_false]
          unfold finishT
          rw [hm]
          simp only
          cases hph : n.phase <;> rw [hph] at hg <;> simp only [GoodPhase] at hg <;> simp only [he, hcw]
        | cons d r' =>
          have hnc := hfollow ⟨q, rfl⟩ d r' rfl
          have h1 : step1 menv s_e d = .again (complete (padStack t) valp) := by
            unfold step1; simp only [hm]; exact SJ.Proofs.Complete.stepNum_end menv s_e n d _ hg hnc he
          refine ⟨w, p + v.length, ?_⟩
          rw [runPfx_cons, h1]
          simp only [hcw]
      · -- not a number: the feed cannot end in a pending number
        exfalso
        obtain ⟨valu, u_e, _, hfu, hpu⟩ := SJ.Proofs.Complete.drive (unlim menv) hd [] .top hsideU
        rcases sim_feeds menv t v _ init s_e u_e hrel0 hf hfu with hr | hfin | ⟨xs1, xs2, u1, v1, e, hne, hfa, hmd, hfb⟩
        · rcases hpu with rfl | ⟨n', hm', hg', he'⟩
          · exact hr.2.2.2 valu (hr.2.1 ▸ rfl)
          · obtain ⟨x, hx⟩ := SJ.Proofs.Machine.endNumber_ok menv s_e n _ he
            have hst : s_e.stack = padStack t := complete_stack_inj _ _ _ _ hx.symm
            have hus : u_e.stack = [] := by
              have := hr.1
              rw [hst] at this
              exact List.append_left_eq_self.mp this.symm
            have hu : u_e = ⟨.num n', []⟩ := by
              obtain ⟨m, st⟩ := u_e
              simp only at hm' hus
              subst hm'; subst hus; rfl
            rw [hu] at hfu
            obtain ⟨b', hb', hcases⟩ := num_state_head (unlim menv) v n' hfu
            rw [hb] at hb'; cases hb'
            obtain ⟨h1, h2⟩ := opener_not_num b ho
            rcases hcases with h | h | h
            · rw [opener_not_ws b ho] at h; cases h
            · exact h1 h
            · rw [h2] at h; cases h
        · obtain ⟨w, hsw, _⟩ := hfin
          rw [hsw] at hm
          cases t with
          | zero => simp [complete, padStack] at hm
          | succ k =>
            have : padStack (k + 1) = Frame.arr [] :: padStack k := rfl
            rw [this] at hm
            simp [complete] at hm
        · obtain ⟨_, hall⟩ := feeds_done (unlim menv) u1 v1 hmd xs2 u_e hfb
          have hlast : v.getLast? = xs2.getLast? := by
            rw [e]
            exact getLast?_append_ne xs1 xs2 hne
          rw [hlast] at hc
          have hmem : c ∈ xs2 := List.mem_of_getLast? hc
          rw [hall c hmem] at hcw
          cases hcw

end SJ.Proofs.Typed
