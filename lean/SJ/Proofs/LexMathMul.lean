import SJ.Proofs.LexMathLarge
/-!
# Limb arithmetic: multiplication — `long_mul`, `karatsuba_mul`, `karatsuba_uneven_mul`, `large::imul`

Schoolbook multiplication denotes the product. Karatsuba (the recursive three-multiplication scheme with the cut-off
`KARATSUBA_CUTOFF` and the uneven variant) denotes the product *whenever it returns*: it can panic (see
`Props/C07.lean` `c07_karatsuba_panics`), and when it does not, the result is the product, made of limbs, and
normalised. Hence Karatsuba = schoolbook = product on every operand pair on which both return.
-/
namespace SJ.Proofs.LexMath
open SJ.Model.LexMath SJ.Gen

/-! ## `long_mul` -/

theorem longMulLoop_spec (x ys : Limbs) (i : Nat) (z : Limbs) (hvx : Valid x) (hvy : Valid ys) (hvz : Valid z)
    (hlen : i + ys.length ≤ z.length) :
    ∃ z', large.longMulLoop x ys i z = some z' ∧ value z' = value z + value x * value ys * 2 ^ (64 * (i + 1)) ∧
      Valid z' ∧ z.length ≤ z'.length := by
  induction ys generalizing i z with
  | nil => exact ⟨z, rfl, by simp, hvz, Nat.le_refl _⟩
  | cons yi ys ih =>
    have ⟨hyi, hvys⟩ := valid_cons.mp hvy
    have ⟨m1, m2⟩ := small_mul_spec x yi hvx hyi
    obtain ⟨z1, e1, v1, w1, l1, _, _⟩ := large_iaddImpl_spec z (small.mul x yi) (i + 1)
      (by simp at hlen; omega) hvz m2
    obtain ⟨z2, e2, v2, w2, l2⟩ := ih (i + 1) z1 hvys w1 (by simp at hlen; omega)
    refine ⟨z2, ?_, ?_, w2, by omega⟩
    · simp only [large.longMulLoop, e1, Option.bind_eq_bind, Option.bind_some]; exact e2
    · rw [v2, v1, m1, value_cons, pow64_succ (i + 1)]; ring

theorem large_longMul_none (x : Limbs) : large.longMul x [] = none := rfl

/-- **`long_mul` refines**: for a non-empty `y` it returns the normalised product. -/
theorem large_longMul_spec (x y : Limbs) (hy : y ≠ []) (hvx : Valid x) (hvy : Valid y) :
    ∃ z, large.longMul x y = some z ∧ value z = value x * value y ∧ Valid z ∧ Normal z := by
  cases y with
  | nil => exact absurd rfl hy
  | cons y0 ys =>
    have ⟨hy0, hvys⟩ := valid_cons.mp hvy
    have ⟨m1, m2⟩ := small_mul_spec x y0 hvx hy0
    have hl := (small_imul_length x y0).2
    have ⟨r1, r2, r3⟩ := large.resize_spec (small.mul x y0) (x.length + (y0 :: ys).length)
      (by simp [small.mul]; omega) m2
    obtain ⟨z, e, v, w, _⟩ := longMulLoop_spec x ys 0 _ hvx hvys r3 (by rw [r2]; simp; omega)
    refine ⟨small.normalize z, ?_, ?_, valid_normalize w, normal_normalize _⟩
    · simp only [large.longMul, e, Option.bind_eq_bind, Option.bind_some]
    · rw [value_normalize, v, r1, m1, value_cons]; ring
where
  large.resize_spec := @resize_spec

theorem large_longMul_some {x y z : Limbs} (h : large.longMul x y = some z) (hvx : Valid x) (hvy : Valid y) :
    value z = value x * value y ∧ Valid z ∧ Normal z := by
  by_cases hy : y = []
  · subst hy; simp [large.longMul] at h
  · obtain ⟨z', e, r⟩ := large_longMul_spec x y hy hvx hvy
    rw [e] at h; cases h; exact r

/-! ## Karatsuba -/

theorem karatsubaSplit_some {z a b : Limbs} {m : Nat} (h : large.karatsubaSplit z m = some (a, b)) :
    m ≤ z.length ∧ a = z.take m ∧ b = z.drop m ∧ a.length = m ∧ value z = value a + 2 ^ (64 * m) * value b := by
  unfold large.karatsubaSplit at h
  by_cases hm : z.length < m
  · simp [hm] at h
  · simp only [hm, if_false, Option.some.injEq, Prod.mk.injEq] at h
    obtain ⟨rfl, rfl⟩ := h
    have hl : (z.take m).length = m := by simp; omega
    refine ⟨by omega, rfl, rfl, hl, ?_⟩
    have := value_take_add_drop z m
    rwa [hl] at this

/-- what a correct multiplication routine does on the operands it is asked about -/
def MulOk (kmul : Limbs → Limbs → Option Limbs) : Prop :=
  ∀ x y z, Valid x → Valid y → kmul x y = some z → value z = value x * value y ∧ Valid z ∧ Normal z

theorem unevenLoop_some (kmul : Limbs → Limbs → Option Limbs) (hk : MulOk kmul) (x : Limbs) (hvx : Valid x) :
    ∀ (k : Nat) (y result : Limbs) (start : Nat) (r : Limbs), Valid y → Valid result →
      large.unevenLoop kmul x k y result start = some r →
      value r = value result + value x * value y * 2 ^ (64 * start) ∧ Valid r := by
  intro k
  induction k with
  | zero => intro y result start r _ _ h; simp [large.unevenLoop] at h
  | succ k ih =>
    intro y result start r hvy hvr h
    unfold large.unevenLoop at h
    by_cases he : y.isEmpty
    · have : y = [] := by simpa using he
      subst this
      simp only [List.isEmpty_nil, if_true, Option.some.injEq] at h
      subst h; exact ⟨by simp, hvr⟩
    · simp only [he, Bool.false_eq_true, if_false, Option.bind_eq_bind, Option.bind_eq_some_iff] at h
      obtain ⟨⟨yl, yh⟩, hs, prod, hp, res', ha, hrec⟩ := h
      have ⟨_, e1, e2, e3, e4⟩ := karatsubaSplit_some hs
      have hvyl : Valid yl := e1 ▸ valid_take hvy _
      have hvyh : Valid yh := e2 ▸ valid_drop hvy _
      have ⟨p1, p2, _⟩ := hk x yl prod hvx hvyl hp
      have ⟨_, a1, a2, _⟩ := large_iaddImpl_some ha hvr p2
      have ⟨i1, i2⟩ := ih yh res' _ r hvyh a2 hrec
      refine ⟨?_, i2⟩
      rw [i1, a1, p1, e4, pow64_add]; ring

theorem karatsubaUnevenMul_some (kmul : Limbs → Limbs → Option Limbs) (hk : MulOk kmul) {x y z : Limbs}
    (hvx : Valid x) (hvy : Valid y) (h : large.karatsubaUnevenMul kmul x y = some z) :
    value z = value x * value y ∧ Valid z ∧ Normal z := by
  unfold large.karatsubaUnevenMul at h
  simp only [Option.bind_eq_bind, Option.bind_eq_some_iff, Option.some.injEq] at h
  obtain ⟨r, hr, rfl⟩ := h
  have ⟨z1, z2, z3⟩ := resize_spec [] (x.length + y.length) (by simp) valid_nil
  have ⟨u1, u2⟩ := unevenLoop_some kmul hk x hvx _ y _ 0 r hvy z3 hr
  refine ⟨?_, valid_normalize u2, normal_normalize _⟩
  rw [value_normalize, u1, z1]; simp

/-- **Karatsuba = product.** Whenever `karatsuba_mul` returns (with any fuel), the result denotes the product of
    the numbers denoted, consists of limbs and is normalised. -/
theorem karatsubaMul_some : ∀ (fuel : Nat), MulOk (large.karatsubaMul fuel) := by
  intro fuel
  induction fuel with
  | zero => intro x y z _ _ h; simp [large.karatsubaMul] at h
  | succ fuel ih =>
    intro x y z hvx hvy h
    unfold large.karatsubaMul at h
    by_cases h1 : y.length ≤ karatsubaCutoff
    · rw [if_pos h1] at h; exact large_longMul_some h hvx hvy
    · rw [if_neg h1] at h
      by_cases h2 : x.length < y.length / 2
      · rw [if_pos h2] at h; exact karatsubaUnevenMul_some _ ih hvx hvy h
      · rw [if_neg h2] at h
        simp only [Option.bind_eq_bind, Option.bind_eq_some_iff, Option.some.injEq] at h
        obtain ⟨⟨xl, xh⟩, hsx, ⟨yl, yh⟩, hsy, z0, hz0, z1, hz1, z2, hz2, d1, hd1, d2, hd2, r1, ha1, r2, ha2, rfl⟩ := h
        have ⟨_, ex1, ex2, ex3, ex4⟩ := karatsubaSplit_some hsx
        have ⟨_, ey1, ey2, ey3, ey4⟩ := karatsubaSplit_some hsy
        have hvxl : Valid xl := ex1 ▸ valid_take hvx _
        have hvxh : Valid xh := ex2 ▸ valid_drop hvx _
        have hvyl : Valid yl := ey1 ▸ valid_take hvy _
        have hvyh : Valid yh := ey2 ▸ valid_drop hvy _
        have ⟨sx1, sx2, _⟩ := large_add_spec xl xh hvxl hvxh
        have ⟨sy1, sy2, _⟩ := large_add_spec yl yh hvyl hvyh
        have ⟨p0, v0, n0⟩ := ih xl yl z0 hvxl hvyl hz0
        have ⟨p1, v1, n1⟩ := ih _ _ z1 sx2 sy2 hz1
        have ⟨p2, v2, n2⟩ := ih xh yh z2 hvxh hvyh hz2
        -- z1 - z2
        have hge1 : value z2 ≤ value z1 := by
          rw [p1, p2, sx1, sy1]
          calc value xh * value yh ≤ (value xl + value xh) * value yh := Nat.mul_le_mul_right _ (Nat.le_add_left _ _)
            _ ≤ (value xl + value xh) * (value yl + value yh) := Nat.mul_le_mul_left _ (Nat.le_add_left _ _)
        have ⟨q1, w1, m1, _⟩ := large_isub_some hd1 v1 v2 (length_le_of_value_le v2 v1 n2 hge1) hge1
        -- (z1 - z2) - z0
        have hd1v : value d1 = value xl * value yl + value xl * value yh + value xh * value yl := by
          have : value d1 + value xh * value yh = (value xl + value xh) * (value yl + value yh) := by
            rw [← p2, ← sx1, ← sy1, ← p1]; exact q1
          nlinarith [this]
        have hge2 : value z0 ≤ value d1 := by rw [hd1v, p0]; omega
        have ⟨q2, w2, m2, _⟩ := large_isub_some hd2 w1 v0 (length_le_of_value_le v0 w1 n0 hge2) hge2
        have hd2v : value d2 = value xl * value yh + value xh * value yl := by
          rw [hd1v, p0] at q2; omega
        -- assemble
        have ⟨_, a1, b1, _, _, c1⟩ := large_iaddImpl_some ha1 v0 w2
        have ⟨_, a2, b2, _, _, c2⟩ := large_iaddImpl_some ha2 b1 v2
        refine ⟨?_, b2, c2 (c1 n0 m2) n2⟩
        rw [a2, a1, p0, hd2v, p2, ex4, ey4]
        have : (2 : Nat) ^ (64 * (2 * (y.length / 2))) = 2 ^ (64 * (y.length / 2)) * 2 ^ (64 * (y.length / 2)) := by
          rw [← Nat.pow_add]; congr 1; omega
        rw [this]; ring

/-- Karatsuba = schoolbook wherever both return -/
theorem karatsuba_eq_long {fuel : Nat} {x y z z' : Limbs} (hvx : Valid x) (hvy : Valid y)
    (hk : large.karatsubaMul fuel x y = some z) (hl : large.longMul x y = some z') : value z = value z' := by
  rw [(karatsubaMul_some fuel x y z hvx hvy hk).1, (large_longMul_some hl hvx hvy).1]

theorem karatsubaMulFwd_some {x y z : Limbs} (hvx : Valid x) (hvy : Valid y) (h : large.karatsubaMulFwd x y = some z) :
    value z = value x * value y ∧ Valid z ∧ Normal z := by
  unfold large.karatsubaMulFwd at h
  by_cases hl : x.length < y.length
  · rw [if_pos hl] at h; exact karatsubaMul_some _ x y z hvx hvy h
  · rw [if_neg hl] at h
    have := karatsubaMul_some _ y x z hvy hvx h
    rw [Nat.mul_comm]; exact this

/-- **`large::imul` refines** (partial correctness; it can panic through Karatsuba). -/
theorem large_imul_some {x y z : Limbs} (hvx : Valid x) (hvy : Valid y) (h : large.imul x y = some z) :
    value z = value x * value y ∧ Valid z ∧ (Normal x → value y ≠ 0 → Normal z) := by
  unfold large.imul at h
  split at h
  · rename_i y0
    simp only [Option.some.injEq] at h; subst h
    have hy0 : y0 < 2 ^ 64 := hvy y0 (by simp)
    have ⟨a, b⟩ := small_imul_spec x y0 hvx hy0
    refine ⟨by simpa using a, b, fun hn h0 => small_imul_normal x y0 hvx hy0 (by simpa using h0) hn⟩
  · have ⟨a, b, c⟩ := karatsubaMulFwd_some hvx hvy h
    exact ⟨a, b, fun _ _ => c⟩

end SJ.Proofs.LexMath
