import SJ.Proofs.MapOrder
import SJ.Model.MapBTree
/-! Helper lemmas for C17, default build (`BTreeMap`): every operation preserves "strictly
    ascending by key" and refines the dictionary contract `Spec.AMap.Step`. -/
namespace SJ.Proofs.MapBTree
open SJ SJ.Model.MapBTree SJ.Proofs.MapOrder
open SJ.Spec.AMap (ltB Asc ascB lookup AMap Entries HasLen Op Ret Step Flavour Shape Via removeRet)

variable {V : Type}

/-- the representation invariant of the default build -/
def Sorted (m : BMap V) : Prop := Asc (keys m)

/-- the abstraction function: the dictionary a store denotes -/
def absm (m : List (Bytes × V)) : AMap V := fun k => lookup k m

theorem sorted_nil : Sorted ([] : BMap V) := List.Pairwise.nil

theorem sorted_cons {k : Bytes} {v : V} {m : BMap V} :
    Sorted ((k, v) :: m) ↔ (∀ x ∈ keys m, ltB k x = true) ∧ Sorted m := by
  unfold Sorted Asc; simp only [keys, List.map_cons]; exact List.pairwise_cons

theorem Sorted.nodup {m : BMap V} (h : Sorted m) : (keys m).Nodup := asc_nodup h

theorem lookup_lt_head {k k' : Bytes} {v' : V} {r : BMap V} (hs : Sorted ((k', v') :: r))
    (hlt : ltB k k' = true) : lookup k ((k', v') :: r) = none := by
  apply lookup_none_of_not_mem
  simp only [keys, List.map_cons, List.mem_cons, not_or]
  have hs' := sorted_cons.mp hs
  refine ⟨ltB_ne hlt, fun hm => ?_⟩
  have := ltB_trans hlt (hs'.1 k hm)
  rw [ltB_irrefl] at this; cases this

/-! ### insert -/

theorem insert_keys_sub (k : Bytes) (v : V) (m : BMap V) :
    ∀ x ∈ keys (insert k v m).1, x = k ∨ x ∈ keys m := by
  induction m with
  | nil => intro x hx; simp [Model.MapBTree.insert, keys] at hx; exact Or.inl hx
  | cons kv r ih =>
    obtain ⟨k', v'⟩ := kv
    intro x hx
    simp only [Model.MapBTree.insert] at hx
    split at hx
    · exact Or.inr hx
    · split at hx
      · simp only [keys, List.map_cons, List.mem_cons] at hx ⊢
        rcases hx with h | h | h
        · exact Or.inl h
        · exact Or.inr (Or.inl h)
        · exact Or.inr (Or.inr h)
      · simp only [keys, List.map_cons, List.mem_cons] at hx ⊢
        rcases hx with h | h
        · exact Or.inr (Or.inl h)
        · rcases ih x h with h | h
          · exact Or.inl h
          · exact Or.inr (Or.inr h)

theorem insert_sorted (k : Bytes) (v : V) {m : BMap V} (hs : Sorted m) : Sorted (insert k v m).1 := by
  induction m with
  | nil => simp [Model.MapBTree.insert, Sorted, Asc, keys]
  | cons kv r ih =>
    obtain ⟨k', v'⟩ := kv
    have hs' := sorted_cons.mp hs
    simp only [Model.MapBTree.insert]
    split
    · exact sorted_cons.mpr hs'
    · rename_i hne
      split
      · rename_i hlt
        refine sorted_cons.mpr ⟨?_, hs⟩
        intro x hx
        simp only [keys, List.map_cons, List.mem_cons] at hx
        rcases hx with rfl | hx
        · exact hlt
        · exact ltB_trans hlt (hs'.1 x hx)
      · rename_i hnlt
        refine sorted_cons.mpr ⟨?_, ih hs'.2⟩
        intro x hx
        rcases insert_keys_sub k v r x hx with rfl | hx
        · cases h : ltB k' x with
          | true => rfl
          | false =>
            have := ltB_total h (by simpa using hnlt)
            exact absurd this hne
        · exact hs'.1 x hx

theorem insert_lookup (k : Bytes) (v : V) (m : BMap V) (k₂ : Bytes) :
    lookup k₂ (insert k v m).1 = if k₂ = k then some v else lookup k₂ m := by
  induction m with
  | nil =>
    simp only [Model.MapBTree.insert, lookup]
    by_cases e : k₂ = k
    · simp [e]
    · simp [e, Ne.symm e]
  | cons kv r ih =>
    obtain ⟨k', v'⟩ := kv
    simp only [Model.MapBTree.insert]
    split
    · rename_i e; subst e
      simp only [lookup]
      by_cases e : k' = k₂
      · simp [e]
      · simp [e, Ne.symm e]
    · rename_i hne
      split
      · simp only [lookup]
        by_cases e : k = k₂
        · subst e; simp
        · simp [e, Ne.symm e]
      · simp only [lookup, ih]
        by_cases e : k' = k₂
        · subst e; simp [hne]
        · simp [e]

theorem insert_old (k : Bytes) (v : V) {m : BMap V} (hs : Sorted m) : (insert k v m).2 = lookup k m := by
  induction m with
  | nil => rfl
  | cons kv r ih =>
    obtain ⟨k', v'⟩ := kv
    simp only [Model.MapBTree.insert]
    split
    · rename_i e; simp [lookup, e]
    · rename_i hne
      split
      · rename_i hlt; exact (lookup_lt_head hs hlt).symm
      · simp only [lookup, if_neg hne]; exact ih (sorted_cons.mp hs).2

/-! ### remove -/

theorem remove_sublist (k : Bytes) (m : BMap V) : (remove k m).1.Sublist m := by
  induction m with
  | nil => exact List.Sublist.slnil
  | cons kv r ih =>
    obtain ⟨k', v'⟩ := kv
    simp only [remove]
    split
    · exact List.sublist_cons_self ..
    · exact List.Sublist.cons_cons _ ih

theorem sorted_sublist {m₁ m₂ : BMap V} (h : m₁.Sublist m₂) (hs : Sorted m₂) : Sorted m₁ :=
  List.Pairwise.sublist (h.map (·.1)) hs

theorem remove_old (k : Bytes) (m : BMap V) : (remove k m).2 = lookup k m := by
  induction m with
  | nil => rfl
  | cons kv r ih =>
    obtain ⟨k', v'⟩ := kv
    simp only [remove, lookup]
    split
    · rfl
    · exact ih

theorem remove_lookup (k : Bytes) {m : BMap V} (nd : (keys m).Nodup) (k₂ : Bytes) :
    lookup k₂ (remove k m).1 = if k₂ = k then none else lookup k₂ m := by
  induction m with
  | nil => simp [remove, lookup]
  | cons kv r ih =>
    obtain ⟨k', v'⟩ := kv
    simp only [keys, List.map_cons, List.nodup_cons] at nd
    simp only [remove]
    split
    · rename_i e; subst e
      by_cases e : k₂ = k'
      · subst e; simp only [if_true]; exact lookup_none_of_not_mem nd.1
      · simp [lookup, e, Ne.symm e]
    · rename_i hne
      simp only [lookup, ih nd.2]
      by_cases e : k' = k₂
      · subst e; simp [hne]
      · simp [e]

/-! ### insertMany, retain -/

theorem insertMany_sorted (o : List (Bytes × V)) {m : BMap V} (hs : Sorted m) : Sorted (insertMany m o) := by
  induction o generalizing m with
  | nil => exact hs
  | cons kv r ih => obtain ⟨k, v⟩ := kv; exact ih (insert_sorted k v hs)

theorem insertMany_abs (o : List (Bytes × V)) (m : BMap V) :
    absm (insertMany m o) = Spec.AMap.insertMany (absm m) o := by
  induction o generalizing m with
  | nil => rfl
  | cons kv r ih =>
    obtain ⟨k, v⟩ := kv
    simp only [insertMany, Spec.AMap.insertMany]
    rw [ih]
    congr 1
    funext k₂
    simp [absm, insert_lookup, Spec.AMap.insert]

theorem retain_lookup (p : Bytes → V → Bool) {m : BMap V} (nd : (keys m).Nodup) (k : Bytes) :
    lookup k (retain p m) = Spec.AMap.retain p (absm m) k := by
  induction m with
  | nil => rfl
  | cons kv r ih =>
    obtain ⟨k', v'⟩ := kv
    simp only [keys, List.map_cons, List.nodup_cons] at nd
    simp only [retain, Spec.AMap.retain, absm, List.filter_cons, lookup] at ih ⊢
    by_cases e : k' = k
    · subst e
      simp only [if_true]
      by_cases hp : p k' v' = true
      · simp [hp, lookup]
      · simp only [hp, if_false, Bool.false_eq_true]
        apply lookup_none_of_not_mem
        intro hm
        exact nd.1 ((List.Sublist.map (fun x : Bytes × V => x.1) List.filter_sublist).subset hm)
    · simp only [if_neg e]
      by_cases hp : p k' v' = true
      · simp only [hp, if_true, lookup, if_neg e]; exact ih nd.2
      · simp only [hp, Bool.false_eq_true, if_false]; exact ih nd.2

theorem retain_sorted (p : Bytes → V → Bool) {m : BMap V} (hs : Sorted m) : Sorted (retain p m) :=
  sorted_sublist List.filter_sublist hs

/-! ### listings -/

theorem entries_self {m : List (Bytes × V)} (nd : (keys m).Nodup) : Entries (absm m) m := ⟨nd, fun _ => rfl⟩

theorem entries_reverse {m : List (Bytes × V)} (nd : (keys m).Nodup) : Entries (absm m) m.reverse := by
  refine ⟨?_, fun k => ?_⟩
  · show (List.map (·.1) m.reverse).Nodup
    rw [List.map_reverse]; exact (List.reverse_perm _).nodup_iff.mpr nd
  · exact (lookup_perm (List.reverse_perm m).symm nd k).symm

theorem hasLen_self {m : List (Bytes × V)} (nd : (keys m).Nodup) : HasLen (absm m) m.length :=
  ⟨m, entries_self nd, rfl⟩

/-! ### abstraction-level forms -/

theorem insert_abs (k : Bytes) (v : V) (m : BMap V) :
    absm (Model.MapBTree.insert k v m).1 = Spec.AMap.insert (absm m) k v := by
  funext k₂; simp [absm, insert_lookup, Spec.AMap.insert]

theorem remove_abs (k : Bytes) {m : BMap V} (nd : (keys m).Nodup) :
    absm (remove k m).1 = Spec.AMap.remove (absm m) k := by
  funext k₂; simp [absm, remove_lookup k nd, Spec.AMap.remove]

theorem retain_abs (p : Bytes → V → Bool) {m : BMap V} (nd : (keys m).Nodup) :
    absm (retain p m) = Spec.AMap.retain p (absm m) := by
  funext k; exact retain_lookup p nd k

/-! ### every operation keeps the store ascending -/

theorem step_sorted (o : Op V) {m : BMap V} (hs : Sorted m) : Sorted (step o m).1 := by
  cases o with
  | insert k v => exact insert_sorted k v hs
  | shiftInsert i k v => exact insert_sorted k v hs
  | remove fl sh via k => exact sorted_sublist (remove_sublist k m) hs
  | get k => exact hs
  | contains k => exact hs
  | len => exact hs
  | isEmpty => exact hs
  | clear => exact sorted_nil
  | append o => exact insertMany_sorted o hs
  | extend o => exact insertMany_sorted o hs
  | retain p => exact retain_sorted p hs
  | sortKeys => exact hs
  | entryOrInsert k v =>
    simp only [step]; split
    · exact hs
    · exact insert_sorted k v hs
  | entryInsert k v => exact insert_sorted k v hs
  | entryModify k v w =>
    simp only [step]; split
    · exact insert_sorted k v hs
    · exact insert_sorted k w hs
  | setMut k v =>
    simp only [step]; split
    · exact insert_sorted k v hs
    · exact hs
  | index k => simp only [step]; split <;> exact hs
  | indexSet k v =>
    simp only [step]; split
    · exact insert_sorted k v hs
    · exact hs
  | iter => exact hs
  | iterRev => exact hs
  | keys => exact hs
  | values => exact hs

/-! ### every operation satisfies the dictionary contract -/

theorem step_refines (o : Op V) (hd : o.inDefault = true) {m : BMap V} (hs : Sorted m) :
    Step o (absm m) (absm (step o m).1) (step o m).2 := by
  have nd := hs.nodup
  cases o with
  | insert k v => exact ⟨insert_abs k v m, by simp [step, insert_old k v hs, absm]⟩
  | shiftInsert i k v => simp [Op.inDefault] at hd   -- not in this build
  | remove fl sh via k => exact ⟨remove_abs k nd, by simp [step, remove_old, absm]⟩
  | get k => exact ⟨rfl, rfl⟩
  | contains k => exact ⟨rfl, rfl⟩
  | len => exact ⟨rfl, m.length, hasLen_self nd, rfl⟩
  | isEmpty => exact ⟨rfl, m.length, hasLen_self nd, rfl⟩
  | clear => exact ⟨rfl, rfl⟩
  | append o => exact ⟨insertMany_abs o m, rfl⟩
  | extend o => exact ⟨insertMany_abs o m, rfl⟩
  | retain p => exact ⟨retain_abs p nd, rfl⟩
  | sortKeys => exact ⟨rfl, rfl⟩
  | entryOrInsert k v =>
    simp only [Step, step, Model.MapBTree.get, absm]
    cases h : lookup k m with
    | some x => exact ⟨rfl, rfl⟩
    | none => exact ⟨insert_abs k v m, rfl⟩
  | entryInsert k v => exact ⟨insert_abs k v m, by simp [step, insert_old k v hs, absm]⟩
  | entryModify k v w =>
    simp only [Step, step, Model.MapBTree.get, absm]
    cases h : lookup k m with
    | some x => exact ⟨insert_abs k v m, rfl⟩
    | none => exact ⟨insert_abs k w m, rfl⟩
  | setMut k v =>
    simp only [Step, step, Model.MapBTree.get, absm]
    cases h : lookup k m with
    | some x => exact ⟨insert_abs k v m, rfl⟩
    | none => exact ⟨rfl, rfl⟩
  | index k =>
    simp only [Step, step, Model.MapBTree.get, absm]
    cases h : lookup k m with
    | some x => exact ⟨rfl, rfl⟩
    | none => exact ⟨rfl, rfl⟩
  | indexSet k v =>
    simp only [Step, step, Model.MapBTree.get, absm]
    cases h : lookup k m with
    | some x => exact ⟨insert_abs k v m, rfl⟩
    | none => exact ⟨rfl, rfl⟩
  | iter => exact ⟨rfl, m, entries_self nd, rfl⟩
  | iterRev => exact ⟨rfl, m.reverse, entries_reverse nd, rfl⟩
  | keys => exact ⟨rfl, m, entries_self nd, rfl⟩
  | values => exact ⟨rfl, m, entries_self nd, rfl⟩

end SJ.Proofs.MapBTree
