import SJ.Spec.Index
import SJ.Model.ValueIndex
/-!
# `get` / `Index` / `IndexMut` / `take`: the transcription against direct container access

Helper lemmas for `SJ/Props/C18.lean` (`c18_get_index`, `c18_index_mut`, `c18_take`).
-/
namespace SJ.Proofs.ValueIndex
open SJ SJ.Model.ValueOps SJ.Model.Machine SJ.Model.ValueIndex
open SJ.Spec.Index (Sel lookup member element select orNull insertIfMissing insertAscending setMember setElement ltBytes)

/-- the selector a probe denotes (the forwarding impls add nothing) -/
def sel : Probe → Sel
  | .usize i => .pos i
  | .str k => .key k
  | .string k => .key k
  | .ref p => sel p

def locSel : Loc → Sel
  | .key k => .key k
  | .idx i => .pos i

theorem mapGet_eq_lookup (k : Bytes) (m : List (Bytes × JV)) : mapGet k m = lookup k m := by
  induction m with
  | nil => rfl
  | cons kv m ih => obtain ⟨k', v⟩ := kv; simp [mapGet, lookup, ih]

theorem bytesLt_eq_ltBytes (a b : Bytes) : bytesLt a b = ltBytes a b := by
  induction a generalizing b with
  | nil => cases b <;> rfl
  | cons x xs ih =>
    cases b with
    | nil => rfl
    | cons y ys => simp only [bytesLt, ltBytes, ih, GT.gt]

theorem indexInto_eq (p : Probe) (v : JV) : indexInto p v = select (sel p) v := by
  induction p with
  | usize i => cases v <;> rfl
  | str k => cases v <;> simp [indexInto, strIndexInto, sel, select, member, mapGet_eq_lookup]
  | string k => cases v <;> simp [indexInto, strIndexInto, sel, select, member, mapGet_eq_lookup]
  | ref p ih => simpa [indexInto, sel] using ih

theorem mapUpd_const (k : Bytes) (x : JV) (m : List (Bytes × JV)) :
    mapUpd k (fun _ => some x) m = (lookup k m).map fun _ => setMember k x m := by
  induction m with
  | nil => rfl
  | cons kv m ih =>
    obtain ⟨k', v⟩ := kv
    by_cases h : k' = k
    · simp [mapUpd, lookup, setMember, h]
    · simp only [mapUpd, lookup, setMember, h, if_false, ih]
      cases lookup k m <;> rfl

theorem vecUpd_const (x : JV) (i : Nat) (l : List JV) :
    vecUpd (fun _ => some x) i l = l[i]?.map fun _ => setElement i x l := by
  induction l generalizing i with
  | nil => cases i <;> rfl
  | cons v l ih =>
    cases i with
    | zero => rfl
    | succ i =>
      simp only [vecUpd, ih, List.getElem?_cons_succ, setElement]
      cases l[i]? <;> rfl

theorem indexIntoMutSet_eq (p : Probe) (x v : JV) :
    indexIntoMutSet p x v = (select (sel p) v).map fun _ => Spec.Index.write x (sel p) v := by
  induction p with
  | usize i =>
    cases v <;> simp [indexIntoMutSet, usizeIndexIntoMutSet, sel, select, element, Spec.Index.write, vecUpd_const]
    rename_i l; cases l[i]? <;> rfl
  | str k =>
    cases v <;> simp [indexIntoMutSet, strIndexIntoMutSet, sel, select, member, Spec.Index.write, mapUpd_const]
    rename_i m; cases lookup k m <;> rfl
  | string k =>
    cases v <;> simp [indexIntoMutSet, strIndexIntoMutSet, sel, select, member, Spec.Index.write, mapUpd_const]
    rename_i m; cases lookup k m <;> rfl
  | ref p ih => simpa [indexIntoMutSet, sel] using ih

/-! ### `entry(k).or_insert(Null)` = insert-if-missing -/

theorem ixInsert_absent (k : Bytes) (v : JV) (m : List (Bytes × JV)) (h : lookup k m = none) :
    ixInsert k v m = m ++ [(k, v)] := by
  induction m with
  | nil => rfl
  | cons kv m ih =>
    obtain ⟨k', v'⟩ := kv
    by_cases hk : k' = k
    · simp [lookup, hk] at h
    · have hk' : ¬ k = k' := fun e => hk e.symm
      simp only [lookup, hk, if_false] at h
      simp [ixInsert, hk', ih h]

theorem btInsert_absent (k : Bytes) (v : JV) (m : List (Bytes × JV)) (h : lookup k m = none) :
    btInsert k v m = insertAscending k v m := by
  induction m with
  | nil => rfl
  | cons kv m ih =>
    obtain ⟨k', v'⟩ := kv
    by_cases hk : k' = k
    · simp [lookup, hk] at h
    · have hk' : ¬ k = k' := fun e => hk e.symm
      simp only [lookup, hk, if_false] at h
      simp only [btInsert, hk', if_false, insertAscending, bytesLt_eq_ltBytes, ih h]

theorem entryOrInsert_eq (po : Bool) (k : Bytes) (m : List (Bytes × JV)) :
    entryOrInsert po k .null m = insertIfMissing po k m := by
  unfold entryOrInsert insertIfMissing
  rw [mapGet_eq_lookup]
  cases h : lookup k m with
  | some _ => rfl
  | none =>
    cases po
    · simp [mapInsert, btInsert_absent k .null m h]
    · simp [mapInsert, ixInsert_absent k .null m h]

/-! ### what insert-if-missing does, in terms of lookups -/

theorem lookup_append_single (k' k : Bytes) (v : JV) (m : List (Bytes × JV)) :
    lookup k' (m ++ [(k, v)]) = match lookup k' m with
      | some x => some x
      | none => if k = k' then some v else none := by
  induction m with
  | nil => simp [lookup]
  | cons kv m ih =>
    obtain ⟨k0, v0⟩ := kv
    by_cases h : k0 = k'
    · simp [lookup, h]
    · simp [lookup, h, ih]

theorem lookup_insertAscending (k' k : Bytes) (v : JV) (m : List (Bytes × JV)) (hk : lookup k m = none) :
    lookup k' (insertAscending k v m) = if k' = k then some v else lookup k' m := by
  induction m with
  | nil =>
    by_cases h : k = k'
    · subst h; simp [insertAscending, lookup]
    · have : ¬ k' = k := fun e => h e.symm
      simp [insertAscending, lookup, h, this]
  | cons kv m ih =>
    obtain ⟨k0, v0⟩ := kv
    have h0 : ¬ k0 = k := by intro e; simp [lookup, e] at hk
    have hk' : lookup k m = none := by simpa [lookup, h0] using hk
    simp only [insertAscending]
    split
    · by_cases h : k = k'
      · subst h; simp [lookup]
      · have : ¬ k' = k := fun e => h e.symm
        simp [lookup, h, this]
    · by_cases h : k0 = k'
      · subst h; simp [lookup, h0]
      · simp [lookup, h, ih hk']

/-- after `value[k]` in a mutable context, member `k` exists (holding what it held, or `null`) and
    every other member is untouched -/
theorem lookup_insertIfMissing (po : Bool) (k k' : Bytes) (m : List (Bytes × JV)) :
    lookup k' (insertIfMissing po k m) =
      if k' = k then some (orNull (lookup k m)) else lookup k' m := by
  unfold insertIfMissing
  cases h : lookup k m with
  | some x => by_cases e : k' = k <;> simp [e, h, orNull]
  | none =>
    cases po
    · simp only [Bool.false_eq_true, if_false, lookup_insertAscending k' k .null m h, orNull]
    · simp only [if_true, lookup_append_single, orNull]
      by_cases e : k' = k
      · subst e; simp [h]
      · have : ¬ k = k' := fun x => e x.symm
        simp [e, this]
        cases lookup k' m <;> rfl

/-- the keys afterwards: unchanged if `k` was a member; otherwise `k` joins at the end
    (`preserve_order`) or in front of the first greater key (default) -/
theorem keys_insertIfMissing (po : Bool) (k : Bytes) (m : List (Bytes × JV)) :
    (insertIfMissing po k m).map (·.1) =
      if (lookup k m).isSome then m.map (·.1)
      else if po then m.map (·.1) ++ [k]
      else (m.map (·.1)).takeWhile (fun a => !ltBytes k a) ++ k :: (m.map (·.1)).dropWhile (fun a => !ltBytes k a) := by
  unfold insertIfMissing
  cases h : lookup k m with
  | some x => simp
  | none =>
    cases po
    · simp only [Bool.false_eq_true, if_false, Option.isSome_none]
      clear h
      induction m with
      | nil => simp [insertAscending]
      | cons kv m ih =>
        obtain ⟨k0, v0⟩ := kv
        simp only [insertAscending]
        by_cases hl : ltBytes k k0 = true
        · simp [hl]
        · simp [hl, ih]
    · simp

end SJ.Proofs.ValueIndex
