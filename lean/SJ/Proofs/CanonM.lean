import SJ.Spec.Canon
import SJ.Model.Machine
/-!
# `canonM`: the denotation of a syntax tree with objects built the way the machine builds them

Identical to `Spec.Canon.canon` except that an object is built by folding the map insertion
(`Model.Machine.mkObj`) over the members in source order instead of by the declarative
`Spec.Canon.objectOf`. Soundness and completeness of the machine are proved against `canonM`;
`canonM = canon` is a separate map-level lemma (`Proofs/MkObj.lean`).
-/
namespace SJ.Proofs.CanonM
open SJ SJ.Spec.Grammar SJ.Spec.Denote SJ.Model.Machine

def specCfg (c : Cfg) : Spec.Canon.Cfg := { po := c.po, fr := c.fr, ap := c.ap, limitOff := c.limitOff }

mutual
def canonM (cfg : Cfg) : CST → Option JV
  | .null => some .null
  | .true_ => some (.bool true)
  | .false_ => some (.bool false)
  | .num p => (Spec.Canon.numOf (specCfg cfg) p).map .num
  | .str s => (decodeItems s).map .str
  | .arr xs => (canonMList cfg xs).map .arr
  | .obj ms => (canonMMembers cfg ms).map (mkObj cfg)
def canonMList (cfg : Cfg) : List CST → Option (List JV)
  | [] => some []
  | x :: xs => match canonM cfg x, canonMList cfg xs with
    | some v, some vs => some (v :: vs)
    | _, _ => none
def canonMMembers (cfg : Cfg) : List (List StrItem × CST) → Option (List (Bytes × JV))
  | [] => some []
  | (k, x) :: ms => match decodeItems k, canonM cfg x, canonMMembers cfg ms with
    | some kb, some v, some r => some ((kb, v) :: r)
    | _, _, _ => none
end

end SJ.Proofs.CanonM
