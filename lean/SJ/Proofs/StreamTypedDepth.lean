import SJ.Proofs.StreamTypedDepthMach
import SJ.Proofs.TypedDepth
/-!
# C14 / C12 helper lemmas: the typed deserializer with the explicit `remaining_depth` counter (`deTypedD`) is `deTyped`
with the counter restored, and the typed stream with the counter (`historyTD`) is `historyT`

Invariant `Inv env t d`: while `check_recursion!` is active, `remaining_depth + (typed containers open) = 128`.
`Spec o r d`: the instrumented call `o`, started with the counter at `d`, returns what the plain call `r` returns, and leaves
the counter at `d` — or at `d - 1`, and then the result is the `RecursionLimitExceeded` error (`Post`).
-/
namespace SJ.Proofs.StreamTypedDepth
open SJ SJ.Gen SJ.Model SJ.Model.Typed SJ.Model.StreamTypedDepth
open SJ.Model.Machine (St Mode Frame Step step1 errIdx init)
open SJ.Model.Stream (SS skipWs isSelfDelineated isStreamDelim start)
open SJ.Model.StreamTyped (TItem failAt nextT historyT stateAfterT)
open SJ.Proofs.StreamDepth (DInv h128)
open SJ.Proofs.Typed (Rel padStack_length)

def Post {α : Type} (d : Nat) (o : RD α) : Prop :=
  o.2 = d ∨ (o.2 + 1 = d ∧ ∃ i, o.1 = .err .RecursionLimitExceeded i)

def Spec {α : Type} (o : RD α) (r : Res α) (d : Nat) : Prop := o.1 = r ∧ Post d o

def Inv (env : Env) (t d : Nat) : Prop := counting env = true → d + t = Gen.remainingDepthInit ∧ 1 ≤ d

theorem spec_pure {α : Type} (r : Res α) (d : Nat) : Spec (r, d) r d := ⟨rfl, .inl rfl⟩

theorem bindD_spec {α β : Type} (r : Res α) (d : Nat) (k : α → Bytes → Nat → RD β) (k' : α → Bytes → Nat → Res β)
    (h : ∀ a rest pos, Spec (k a rest pos) (k' a rest pos) d) : Spec (bindD r d k) (r.bind k') d := by
  cases r <;> simp only [bindD, Res.bind] <;> first | exact h _ _ _ | exact spec_pure _ _

theorem bindDD_spec {α β : Type} (o : RD α) (r : Res α) (d : Nat) (k : α → Bytes → Nat → Nat → RD β)
    (k' : α → Bytes → Nat → Res β) (ho : Spec o r d) (h : ∀ a rest pos, Spec (k a rest pos d) (k' a rest pos) d) :
    Spec (bindDD o k) (r.bind k') d := by
  obtain ⟨o1, o2⟩ := o
  obtain ⟨h1, h2⟩ := ho
  simp only at h1
  subst h1
  unfold bindDD
  simp only [Post] at h2
  cases o1 with
  | ok a rest pos =>
    have : o2 = d := by
      rcases h2 with h | ⟨_, i, hi⟩
      · exact h
      · cases hi
    subst this
    exact h a rest pos
  | err c i =>
    refine ⟨rfl, ?_⟩
    rcases h2 with h | ⟨h, j, hj⟩
    · exact .inl h
    · cases hj; exact .inr ⟨h, _, rfl⟩
  | data i => exact ⟨rfl, h2.elim .inl (fun ⟨_, _, hj⟩ => by cases hj)⟩
  | raw r p => exact ⟨rfl, h2.elim .inl (fun ⟨_, _, hj⟩ => by cases hj)⟩
  | io => exact ⟨rfl, h2.elim .inl (fun ⟨_, _, hj⟩ => by cases hj)⟩
  | fuel => exact ⟨rfl, h2.elim .inl (fun ⟨_, _, hj⟩ => by cases hj)⟩

theorem mapD_spec {α β : Type} (f : α → β) (o : RD α) (r : Res α) (d : Nat) (ho : Spec o r d) :
    Spec (mapD f o) (r.map f) d := by
  obtain ⟨h1, h2⟩ := ho
  refine ⟨by simp only [mapD, h1], ?_⟩
  rcases h2 with h | ⟨h, j, hj⟩
  · exact .inl h
  · exact .inr ⟨h, j, by simp only [mapD, hj]; rfl⟩

theorem closeWith_spec {α : Type} (env : Env) (e : Bytes → Nat → EndState) (o : RD α) (r : Res α) (d : Nat) (ho : Spec o r d) :
    Spec (closeWith env e o.1, o.2) (closeWith env e r) d := by
  obtain ⟨h1, h2⟩ := ho
  refine ⟨by simp only [h1], ?_⟩
  rcases h2 with h | ⟨h, j, hj⟩
  · exact .inl h
  · exact .inr ⟨h, j, by simp only [hj]; rfl⟩

theorem tooDeep_off {env : Env} (hc : counting env = false) (t : Nat) : tooDeep env t = false := by
  simp only [counting, Bool.not_eq_false'] at hc
  simp [tooDeep, hc]

theorem tooDeep_on {env : Env} (hc : counting env = true) (t : Nat) :
    tooDeep env t = decide (t + 1 ≥ Gen.remainingDepthInit) := by
  simp only [counting, Bool.not_eq_true'] at hc
  simp [tooDeep, hc]

/-- **the macro**: under the invariant the test on the counter is the test on the number of open containers; the body runs
    one level down; the counter is restored whatever the body returned; the early return leaves one unit behind -/
theorem checkRecursion_spec {α : Type} (env : Env) (t d p : Nat) (body : Nat → RD α) (r' : Res α) (hinv : Inv env t d)
    (hb : ∀ d1, Inv env (t + 1) d1 → Spec (body d1) r' d1) :
    Spec (checkRecursion env d p body) (if tooDeep env t then .err .RecursionLimitExceeded (p + 1) else r') d := by
  unfold checkRecursion
  cases hc : counting env with
  | false =>
    rw [tooDeep_off hc]
    simp only [Bool.false_eq_true, if_false]
    exact hb d (fun h => by rw [hc] at h; cases h)
  | true =>
    obtain ⟨hd, hd1⟩ := hinv hc
    rw [tooDeep_on hc]
    simp only [if_true]
    rw [h128] at hd ⊢
    by_cases hfull : t + 1 ≥ 128
    · have hd0 : (d - 1 == 0) = true := by simp; omega
      simp only [hd0, if_true, hfull, decide_true]
      exact ⟨rfl, .inr ⟨by show d - 1 + 1 = d; omega, p + 1, rfl⟩⟩
    · have hd0 : (d - 1 == 0) = false := by simp; omega
      simp only [hd0, Bool.false_eq_true, if_false, hfull, decide_false]
      obtain ⟨h1, h2⟩ := hb (d - 1) (fun _ => by rw [h128]; omega)
      refine ⟨h1, ?_⟩
      rcases h2 with h | ⟨h, j, hj⟩
      · left; show (body (d - 1)).2 + 1 = d; omega
      · right; exact ⟨by show (body (d - 1)).2 + 1 + 1 = d; omega, j, hj⟩

/-! ## sequences -/

theorem nextElementD_spec (env : Env) (de : Nat → Bytes → Nat → RD TVal) (de' : Bytes → Nat → TOut) (d : Nat)
    (hde : ∀ r p, Spec (de d r p) (de' r p) d) (first : Bool) (rest : Bytes) (pos : Nat) :
    Spec (nextElementD env de first d rest pos) (nextElement env de' first rest pos) d := by
  unfold nextElementD nextElement
  refine bindD_spec _ _ _ _ fun more r p => ?_
  cases more with
  | true => simp only [if_true]; exact mapD_spec _ _ _ _ (hde r p)
  | false => simp only [Bool.false_eq_true, if_false]; exact spec_pure _ _

theorem seqLoopD_spec (env : Env) (de : Nat → Bytes → Nat → RD TVal) (de' : Bytes → Nat → TOut) (d : Nat)
    (hde : ∀ r p, Spec (de d r p) (de' r p) d) : ∀ (n : Nat) (first : Bool) (acc : List TVal) (rest : Bytes) (pos : Nat),
    Spec (seqLoopD env de n first acc d rest pos) (seqLoop env de' n first acc rest pos) d := by
  intro n
  induction n with
  | zero => intro first acc rest pos; exact spec_pure _ _
  | succ n ih =>
    intro first acc rest pos
    unfold seqLoopD seqLoop
    refine bindDD_spec _ _ _ _ _ (nextElementD_spec env de de' d hde first rest pos) fun o r p => ?_
    cases o with
    | none => exact spec_pure _ _
    | some v => exact ih false (v :: acc) r p

theorem tupleLoopD_spec (env : Env) (de : Schema → Nat → Bytes → Nat → RD TVal) (de' : Schema → Bytes → Nat → TOut) (d : Nat)
    (hde : ∀ s r p, Spec (de s d r p) (de' s r p) d) : ∀ (ss : List Schema) (first : Bool) (acc : List TVal) (rest : Bytes) (pos : Nat),
    Spec (tupleLoopD env de ss first acc d rest pos) (tupleLoop env de' ss first acc rest pos) d := by
  intro ss
  induction ss with
  | nil => intro first acc rest pos; exact spec_pure _ _
  | cons s ss ih =>
    intro first acc rest pos
    unfold tupleLoopD tupleLoop
    refine bindDD_spec _ _ _ _ _ (nextElementD_spec env (de s) (de' s) d (hde s) first rest pos) fun o r p => ?_
    cases o with
    | none => exact spec_pure _ _
    | some v => exact ih false (v :: acc) r p

theorem deSeqD_spec (env : Env) (t d : Nat) (visit : Nat → Bytes → Nat → RD TVal) (visit' : Bytes → Nat → TOut)
    (hinv : Inv env t d) (hv : ∀ d1, Inv env (t + 1) d1 → ∀ r p, Spec (visit d1 r p) (visit' r p) d1) (rest : Bytes) (pos : Nat) :
    Spec (deSeqD env d visit rest pos) (deSeq env t visit' rest pos) d := by
  unfold deSeqD deSeq withPeek
  generalize skipWs rest pos = sk
  obtain ⟨l, p⟩ := sk
  cases l with
  | nil => exact spec_pure _ _
  | cons b r =>
    simp only
    by_cases hb : (b == 0x5b) = true
    · simp only [hb, if_true]
      have h := closeWith_spec env (endSeq env) _ _ _
        (checkRecursion_spec env t d p (fun d1 => visit d1 r (p + 1)) (visit' r (p + 1)) hinv (fun d1 h1 => hv d1 h1 r (p + 1)))
      by_cases htd : tooDeep env t = true
      · simp only [htd, if_true] at h ⊢; exact h
      · simp only [htd, Bool.false_eq_true, if_false] at h ⊢; exact h
    · simp only [hb, Bool.false_eq_true, if_false]; exact spec_pure _ _

theorem deBytesD_spec (env : Env) (t d : Nat) (hinv : Inv env t d) (rest : Bytes) (pos : Nat) :
    Spec (deBytesD env d rest pos) (deBytes env t rest pos) d := by
  unfold deBytesD deBytes withPeek
  generalize skipWs rest pos = sk
  obtain ⟨l, p⟩ := sk
  cases l with
  | nil => exact spec_pure _ _
  | cons b r =>
    simp only
    by_cases hb : (b == 0x22) = true
    · simp only [hb, if_true]; exact spec_pure _ _
    · simp only [hb, Bool.false_eq_true, if_false]
      by_cases hb2 : (b == 0x5b) = true
      · simp only [hb2, if_true]
        refine deSeqD_spec env t d _ _ hinv (fun d1 _ r' p' => ?_) (b :: r) p
        exact mapD_spec _ _ _ _ (seqLoopD_spec env _ _ d1 (fun r2 p2 => spec_pure _ _) _ _ _ _ _)
      · simp only [hb2, Bool.false_eq_true, if_false]; exact spec_pure _ _

/-! ## maps and structs -/

theorem mapLoopD_spec (env : Env) (k : KeyKind) (de : Nat → Bytes → Nat → RD TVal) (de' : Bytes → Nat → TOut) (d : Nat)
    (hde : ∀ r p, Spec (de d r p) (de' r p) d) : ∀ (n : Nat) (first : Bool) (acc : List (TVal × TVal)) (rest : Bytes) (pos : Nat),
    Spec (mapLoopD env k de n first acc d rest pos) (mapLoop env k de' n first acc rest pos) d := by
  intro n
  induction n with
  | zero => intro first acc rest pos; exact spec_pure _ _
  | succ n ih =>
    intro first acc rest pos
    unfold mapLoopD mapLoop
    refine bindD_spec _ _ _ _ fun more r p => ?_
    cases more with
    | false => exact spec_pure _ _
    | true =>
      simp only [Bool.not_true, Bool.false_eq_true, if_false]
      refine bindD_spec _ _ _ _ fun kv r1 p1 => ?_
      refine bindD_spec _ _ _ _ fun _ r2 p2 => ?_
      exact bindDD_spec _ _ _ _ _ (hde r2 p2) fun v r3 p3 => ih false ((kv, v) :: acc) r3 p3

theorem deMapD_spec (env : Env) (t d : Nat) (visit : Nat → Bytes → Nat → RD TVal) (visit' : Bytes → Nat → TOut)
    (hinv : Inv env t d) (hv : ∀ d1, Inv env (t + 1) d1 → ∀ r p, Spec (visit d1 r p) (visit' r p) d1) (rest : Bytes) (pos : Nat) :
    Spec (deMapD env d visit rest pos) (deMap env t visit' rest pos) d := by
  unfold deMapD deMap withPeek
  generalize skipWs rest pos = sk
  obtain ⟨l, p⟩ := sk
  cases l with
  | nil => exact spec_pure _ _
  | cons b r =>
    simp only
    by_cases hb : (b == 0x7b) = true
    · simp only [hb, if_true]
      have h := closeWith_spec env (endMap env) _ _ _
        (checkRecursion_spec env t d p (fun d1 => visit d1 r (p + 1)) (visit' r (p + 1)) hinv (fun d1 h1 => hv d1 h1 r (p + 1)))
      by_cases htd : tooDeep env t = true
      · simp only [htd, if_true] at h ⊢; exact h
      · simp only [htd, Bool.false_eq_true, if_false] at h ⊢; exact h
    · simp only [hb, Bool.false_eq_true, if_false]; exact spec_pure _ _

theorem structLoopD_spec (env : Env) (de : Schema → Nat → Bytes → Nat → RD TVal) (de' : Schema → Bytes → Nat → TOut)
    (fs : List (Bytes × Schema)) (deny : Bool) (d : Nat) (hde : ∀ s r p, Spec (de s d r p) (de' s r p) d) :
    ∀ (n : Nat) (first : Bool) (slots : List (Option TVal)) (rest : Bytes) (pos : Nat),
    Spec (structLoopD env de fs deny n first slots d rest pos) (structLoop env de' fs deny n first slots rest pos) d := by
  intro n
  induction n with
  | zero => intro first slots rest pos; exact spec_pure _ _
  | succ n ih =>
    intro first slots rest pos
    unfold structLoopD structLoop
    refine bindD_spec _ _ _ _ fun more r p => ?_
    cases more with
    | false => exact spec_pure _ _
    | true =>
      simp only [Bool.not_true, Bool.false_eq_true, if_false]
      refine bindD_spec _ _ _ _ fun name r1 p1 => ?_
      cases FromValue.nameIndex (fieldNames fs) name with
      | some i =>
        simp only
        cases slots.getD i none with
        | some _ => exact spec_pure _ _
        | none =>
          simp only
          refine bindD_spec _ _ _ _ fun _ r2 p2 => ?_
          cases fs[i]? with
          | none => exact spec_pure _ _
          | some fsi =>
            obtain ⟨nm, s⟩ := fsi
            exact bindDD_spec _ _ _ _ _ (hde s r2 p2) fun v r3 p3 => ih false (slots.set i (some v)) r3 p3
      | none =>
        simp only
        cases deny with
        | true => exact spec_pure _ _
        | false =>
          simp only [Bool.false_eq_true, if_false]
          refine bindD_spec _ _ _ _ fun _ r2 p2 => ?_
          exact bindD_spec _ _ _ _ fun _ r3 p3 => ih false slots r3 p3

theorem structVisitMapD_spec (env : Env) (de : Schema → Nat → Bytes → Nat → RD TVal) (de' : Schema → Bytes → Nat → TOut)
    (fs : List (Bytes × Schema)) (deny : Bool) (d : Nat) (hde : ∀ s r p, Spec (de s d r p) (de' s r p) d) (rest : Bytes) (pos : Nat) :
    Spec (structVisitMapD env de fs deny d rest pos) (structVisitMap env de' fs deny rest pos) d := by
  unfold structVisitMapD structVisitMap
  refine bindDD_spec _ _ _ _ _ (structLoopD_spec env de de' fs deny d hde _ _ _ _ _) fun slots r p => ?_
  cases FromValue.finishFields fs slots <;> exact spec_pure _ _

/-- what the recursive calls satisfy -/
def HDe (env : Env) (de : Nat → Schema → Nat → Bytes → Nat → RD TVal) (de' : Nat → Schema → Bytes → Nat → TOut) : Prop :=
  ∀ t2 d2 s2 r p, Inv env t2 d2 → Spec (de t2 s2 d2 r p) (de' t2 s2 r p) d2

theorem deStructD_spec (env : Env) (t d : Nat) (de : Nat → Schema → Nat → Bytes → Nat → RD TVal)
    (de' : Nat → Schema → Bytes → Nat → TOut) (hde : HDe env de de') (fs : List (Bytes × Schema)) (deny : Bool)
    (hinv : Inv env t d) (rest : Bytes) (pos : Nat) :
    Spec (deStructD env t d de fs deny rest pos) (deStruct env t de' fs deny rest pos) d := by
  unfold deStructD deStruct withPeek
  generalize skipWs rest pos = sk
  obtain ⟨l, p⟩ := sk
  cases l with
  | nil => exact spec_pure _ _
  | cons b r =>
    simp only
    by_cases hb : (b == 0x5b) = true
    · simp only [hb, if_true]
      have h := closeWith_spec env (endSeq env) _ _ _
        (checkRecursion_spec env t d p (fun d1 => mapD TVal.struct_ (tupleLoopD env (de (t + 1)) (fs.map (·.2)) true [] d1 r (p + 1)))
          ((tupleLoop env (de' (t + 1)) (fs.map (·.2)) true [] r (p + 1)).map .struct_) hinv
          (fun d1 h1 => mapD_spec _ _ _ _ (tupleLoopD_spec env _ _ d1 (fun s r p => hde (t + 1) d1 s r p h1) _ _ _ _ _)))
      by_cases htd : tooDeep env t = true
      · simp only [htd, if_true] at h ⊢; exact h
      · simp only [htd, Bool.false_eq_true, if_false] at h ⊢; exact h
    · simp only [hb, Bool.false_eq_true, if_false]
      by_cases hb2 : (b == 0x7b) = true
      · simp only [hb2, if_true]
        have h := closeWith_spec env (endMap env) _ _ _
          (checkRecursion_spec env t d p (fun d1 => structVisitMapD env (de (t + 1)) fs deny d1 r (p + 1))
            (structVisitMap env (de' (t + 1)) fs deny r (p + 1)) hinv
            (fun d1 h1 => structVisitMapD_spec env _ _ fs deny d1 (fun s r p => hde (t + 1) d1 s r p h1) _ _))
        by_cases htd : tooDeep env t = true
        · simp only [htd, if_true] at h ⊢; exact h
        · simp only [htd, Bool.false_eq_true, if_false] at h ⊢; exact h
      · simp only [hb2, Bool.false_eq_true, if_false]; exact spec_pure _ _

/-! ## enums -/

theorem dePayloadD_spec (env : Env) (t d : Nat) (de : Nat → Schema → Nat → Bytes → Nat → RD TVal)
    (de' : Nat → Schema → Bytes → Nat → TOut) (hde : HDe env de de') (sh : VariantShape) (hinv : Inv env t d)
    (rest : Bytes) (pos : Nat) : Spec (dePayloadD env t d de sh rest pos) (dePayload env t de' sh rest pos) d := by
  cases sh with
  | unit => exact spec_pure _ _
  | newtype s => exact hde t d s rest pos hinv
  | tuple ss =>
    simp only [dePayloadD, dePayload]
    refine deSeqD_spec env t d _ _ hinv (fun d1 h1 r p => ?_) rest pos
    exact mapD_spec _ _ _ _ (tupleLoopD_spec env _ _ d1 (fun s r p => hde (t + 1) d1 s r p h1) _ _ _ _ _)
  | struct_ fs => exact deStructD_spec env t d de de' hde fs false hinv rest pos

/-- the plain `{` arm of `deEnum`, with the visitor's result formed before the closing brace is read -/
theorem enum_assoc (A : TOut) (B : Bytes → Nat → Res Unit) (vs : List (Bytes × VariantShape))
    (P : VariantShape → Bytes → Nat → TOut) (tail : TVal → Bytes → Nat → TOut) :
    (A.bind fun iv r1 p1 =>
      let i := match iv with | .int i => i.toNat | _ => 0
      (B r1 p1).bind fun _ r2 p2 =>
        match vs[i]? with
        | none => .raw r2 p2
        | some (_, sh) => (P sh r2 p2).bind fun payload r3 p3 => tail (TVal.variant i payload) r3 p3) =
    (A.bind fun iv r1 p1 =>
      let i := match iv with | .int i => i.toNat | _ => 0
      (B r1 p1).bind fun _ r2 p2 =>
        match vs[i]? with
        | none => .raw r2 p2
        | some (_, sh) => (P sh r2 p2).map (fun payload => TVal.variant i payload)).bind tail := by
  cases A with
  | ok iv r1 p1 =>
    dsimp only [Res.bind]
    cases B r1 p1 with
    | ok u r2 p2 =>
      dsimp only [Res.bind]
      cases vs[(match iv with | .int i => i.toNat | _ => 0)]? with
      | none => rfl
      | some x =>
        obtain ⟨nm, sh⟩ := x
        dsimp only
        generalize P sh r2 p2 = q
        cases q <;> rfl
    | _ => rfl
  | _ => rfl

/-- the closing brace of the `{"V": payload}` form, read after the counter has been restored -/
def enumTail (env : Env) : TVal → Bytes → Nat → TOut := fun value r3 p3 =>
  match skipWs r3 p3 with
  | ([], q) => atEof env .EofWhileParsingObject q
  | (c :: r4, q) => if c == 0x7d then .ok value r4 (q + 1) else .err .ExpectedSomeValue (errorIdx env (c :: r4) q true)

theorem deEnumD_spec (env : Env) (t d : Nat) (de : Nat → Schema → Nat → Bytes → Nat → RD TVal)
    (de' : Nat → Schema → Bytes → Nat → TOut) (hde : HDe env de de') (vs : List (Bytes × VariantShape))
    (hinv : Inv env t d) (rest : Bytes) (pos : Nat) :
    Spec (deEnumD env t d de vs rest pos) (deEnum env t de' vs rest pos) d := by
  unfold deEnumD deEnum withPeek
  generalize skipWs rest pos = sk
  obtain ⟨l, p⟩ := sk
  cases l with
  | nil => exact spec_pure _ _
  | cons b r =>
    simp only
    by_cases hb : (b == 0x7b) = true
    · simp only [hb, if_true]
      have hassoc := enum_assoc (deVariantId env (variantNames vs) r (p + 1)) (parseObjectColon env) vs
        (fun sh => dePayload env (t + 1) de' sh) (enumTail env)
      have hbody := checkRecursion_spec env t d p
        (fun d1 => bindD (deVariantId env (variantNames vs) r (p + 1)) d1 fun iv r1 p1 =>
          let i := match iv with | .int i => i.toNat | _ => 0
          bindD (parseObjectColon env r1 p1) d1 fun _ r2 p2 =>
            match vs[i]? with
            | none => (.raw r2 p2, d1)
            | some (_, sh) => mapD (fun payload => TVal.variant i payload) (dePayloadD env (t + 1) d1 de sh r2 p2))
        ((deVariantId env (variantNames vs) r (p + 1)).bind fun iv r1 p1 =>
          let i := match iv with | .int i => i.toNat | _ => 0
          (parseObjectColon env r1 p1).bind fun _ r2 p2 =>
            match vs[i]? with
            | none => .raw r2 p2
            | some (_, sh) => (dePayload env (t + 1) de' sh r2 p2).map (fun payload => TVal.variant i payload))
        hinv (fun d1 h1 => by
          refine bindD_spec _ _ _ _ fun iv r1 p1 => ?_
          refine bindD_spec _ _ _ _ fun _ r2 p2 => ?_
          cases vs[(match iv with | .int i => i.toNat | _ => 0)]? with
          | none => exact spec_pure _ _
          | some x =>
            obtain ⟨nm, sh⟩ := x
            exact mapD_spec _ _ _ _ (dePayloadD_spec env (t + 1) d1 de de' hde sh h1 r2 p2))
      have h := bindDD_spec _ _ d
        (fun value r3 p3 d' =>
          match skipWs r3 p3 with
          | ([], q) => ((atEof env .EofWhileParsingObject q : TOut), d')
          | (c :: r4, q) =>
            if c == 0x7d then (.ok value r4 (q + 1), d')
            else (.err .ExpectedSomeValue (errorIdx env (c :: r4) q true), d'))
        (enumTail env) hbody (fun value r3 p3 => by
          unfold enumTail
          generalize skipWs r3 p3 = sk2
          obtain ⟨l2, q⟩ := sk2
          cases l2 with
          | nil => exact spec_pure _ _
          | cons c r4 =>
            simp only
            by_cases hc : (c == 0x7d) = true
            · simp only [hc, if_true]; exact spec_pure _ _
            · simp only [hc, Bool.false_eq_true, if_false]; exact spec_pure _ _)
      by_cases htd : tooDeep env t = true
      · simp only [htd, if_true] at h ⊢; exact h
      · simp only [htd, Bool.false_eq_true, if_false] at h ⊢
        exact ⟨h.1.trans hassoc.symm, h.2⟩
    · simp only [hb, Bool.false_eq_true, if_false]
      by_cases hb2 : (b == 0x22) = true
      · simp only [hb2, if_true]; exact spec_pure _ _
      · simp only [hb2, Bool.false_eq_true, if_false]; exact spec_pure _ _

/-! ## a nested `Value` -/

theorem counting_val (env : Env) : StreamDepth.counting (valEnv env) = counting env := by
  simp [StreamDepth.counting, valEnv, counting]

theorem machineD_spec (env : Env) (t d : Nat) (hinv : Inv env t d) (rest : Bytes) (pos : Nat) :
    Spec (machineD (valEnv env) env.flt t { mode := .val .top, stack := padStack t } d rest pos)
      (machine (valEnv env) env.flt t { mode := .val .top, stack := padStack t } rest pos) d := by
  unfold machineD machine
  cases hc : counting env with
  | false =>
    rw [runPfxD_off (valEnv env) (by rw [counting_val, hc]) env.flt t rest]
    cases runPfx (valEnv env) env.flt t { mode := .val .top, stack := padStack t } pos rest <;> exact spec_pure _ _
  | true =>
    have hcv : StreamDepth.counting (valEnv env) = true := by rw [counting_val, hc]
    obtain ⟨hd, hd1⟩ := hinv hc
    have hrel0 : Rel (padStack t) ⟨.val .top, padStack t⟩ init := ⟨rfl, rfl, fun _ => rfl, fun v h => by cases h⟩
    have hdinv : DInv (valEnv env) ⟨.val .top, padStack t⟩ d := fun _ => ⟨by simp only [padStack_length]; exact hd, hd1⟩
    obtain ⟨h1, h2⟩ := runPfxD_on (valEnv env) hcv env.flt t rest _ _ d pos hrel0 hdinv
    generalize runPfxD (valEnv env) env.flt t ⟨.val .top, padStack t⟩ d pos rest = o at h1 h2
    obtain ⟨m, d'⟩ := o
    simp only at h1
    subst h1
    unfold PostM at h2
    simp only at h2
    generalize runPfx (valEnv env) env.flt t ⟨.val .top, padStack t⟩ pos rest = m at h2 ⊢
    cases m with
    | ok v e =>
      refine ⟨rfl, .inl ?_⟩
      rcases h2 with h | ⟨_, i, hi⟩
      · show d' = d; omega
      · cases hi
    | io =>
      refine ⟨rfl, .inl ?_⟩
      rcases h2 with h | ⟨_, i, hi⟩
      · show d' = d; omega
      · cases hi
    | err c i =>
      refine ⟨rfl, ?_⟩
      rcases h2 with h | ⟨h, j, hj⟩
      · exact .inl (by show d' = d; omega)
      · cases hj; exact .inr ⟨by show d' + 1 = d; omega, _, rfl⟩

/-! ## the entry points -/

/-- **the typed deserializer with the explicit counter is the typed deserializer**, and the counter is restored -/
theorem deTypedD_spec (env : Env) : ∀ (f t d : Nat) (s : Schema) (rest : Bytes) (pos : Nat), Inv env t d →
    Spec (deTypedD env f t d s rest pos) (deTyped env f t s rest pos) d := by
  intro f
  induction f with
  | zero => intro t d s rest pos _; exact spec_pure _ _
  | succ f ih =>
    intro t d s rest pos hinv
    have hde : HDe env (fun t2 s2 d2 => deTypedD env f t2 d2 s2) (deTyped env f) := fun t2 d2 s2 r p h => ih t2 d2 s2 r p h
    cases s with
    | bytes => simp only [deTypedD, deTyped]; exact deBytesD_spec env t d hinv rest pos
    | option s' =>
      simp only [deTypedD, deTyped]
      generalize skipWs rest pos = sk
      obtain ⟨l, p⟩ := sk
      cases l with
      | nil =>
        simp only
        by_cases hf : env.flt = true
        · simp only [hf, if_true]; exact spec_pure _ _
        · simp only [hf, Bool.false_eq_true, if_false]; exact mapD_spec _ _ _ _ (ih t d s' [] p hinv)
      | cons b r =>
        simp only
        by_cases hb : (b == 0x6e) = true
        · simp only [hb, if_true]; exact spec_pure _ _
        · simp only [hb, Bool.false_eq_true, if_false]; exact mapD_spec _ _ _ _ (ih t d s' (b :: r) p hinv)
    | newtype s' => simp only [deTypedD, deTyped]; exact ih t d s' rest pos hinv
    | seq s' =>
      simp only [deTypedD, deTyped]
      refine deSeqD_spec env t d _ _ hinv (fun d1 h1 r p => ?_) rest pos
      exact mapD_spec _ _ _ _ (seqLoopD_spec env _ _ d1 (fun r p => ih (t + 1) d1 s' r p h1) _ _ _ _ _)
    | tuple ss =>
      simp only [deTypedD, deTyped]
      refine deSeqD_spec env t d _ _ hinv (fun d1 h1 r p => ?_) rest pos
      exact mapD_spec _ _ _ _ (tupleLoopD_spec env _ _ d1 (fun s2 r p => ih (t + 1) d1 s2 r p h1) _ _ _ _ _)
    | map k s' =>
      simp only [deTypedD, deTyped]
      refine deMapD_spec env t d _ _ hinv (fun d1 h1 r p => ?_) rest pos
      exact mapD_spec _ _ _ _ (mapLoopD_spec env k _ _ d1 (fun r p => ih (t + 1) d1 s' r p h1) _ _ _ _ _)
    | struct_ fs deny => simp only [deTypedD, deTyped]; exact deStructD_spec env t d _ _ hde fs deny hinv rest pos
    | enum_ vs => simp only [deTypedD, deTyped]; exact deEnumD_spec env t d _ _ hde vs hinv rest pos
    | any => simp only [deTypedD, deTyped]; exact mapD_spec _ _ _ _ (machineD_spec env t d hinv rest pos)
    | _ => simp only [deTypedD, deTyped]; exact spec_pure _ _

/-! ## along a stream -/

/-- before a call of `next()`: the stream has failed (nothing will be parsed any more), or the counter is at its
    initial value -/
def FreshT (env : Env) (st : SST) : Prop :=
  st.ss.failed = true ∨ (counting env = true → st.depth = Gen.remainingDepthInit)

/-- what a call reports about the counter: the full budget, or one unit short after the `RecursionLimitExceeded` item -/
def DepthOKT (env : Env) (it : TItem) (d : Nat) : Prop :=
  counting env = true → d = Gen.remainingDepthInit ∨ (d + 1 = Gen.remainingDepthInit ∧ ∃ i, it = .err .RecursionLimitExceeded i)

theorem failAt_failed (r : Bytes) (p : Nat) : (failAt r p).failed = true := rfl

/-- one instrumented call of `next()` is the plain call; the counter is restored unless the stream has failed -/
theorem nextTD_spec (env : Env) (s : Schema) (st : SST) (hf : FreshT env st) :
    ((nextTD env s st).1, (nextTD env s st).2.ss) = nextT env s st.ss ∧ FreshT env (nextTD env s st).2 ∧
      (st.ss.failed = false → DepthOKT env (nextTD env s st).1 (nextTD env s st).2.depth) := by
  unfold nextTD nextT
  cases hfail : st.ss.failed with
  | true =>
    simp only [if_true]
    exact ⟨by first | rfl | trivial, .inl hfail, fun h => by cases h⟩
  | false =>
    simp only [Bool.false_eq_true, if_false]
    have hdd : counting env = true → st.depth = Gen.remainingDepthInit := by
      rcases hf with h | h
      · rw [hfail] at h; cases h
      · exact h
    have hinv : Inv env 0 st.depth := fun hc => ⟨by rw [hdd hc]; rfl, by rw [hdd hc, h128]; omega⟩
    generalize skipWs st.ss.rest st.ss.pos = sk
    obtain ⟨l, p⟩ := sk
    cases l with
    | nil =>
      simp only
      by_cases hflt : env.flt = true
      · simp only [hflt, if_true]
        exact ⟨by first | rfl | trivial, .inl rfl, fun _ hc => .inl (hdd hc)⟩
      · simp only [hflt, Bool.false_eq_true, if_false]
        exact ⟨by first | rfl | trivial, .inr hdd, fun _ hc => .inl (hdd hc)⟩
    | cons b r =>
      simp only
      obtain ⟨h1, h2⟩ := deTypedD_spec env (Schema.size s + 1) 0 st.depth s (b :: r) p hinv
      generalize deTypedD env (Schema.size s + 1) 0 st.depth s (b :: r) p = o at h1 h2
      obtain ⟨o1, o2⟩ := o
      simp only at h1
      rw [← h1]
      simp only [Post] at h2
      cases o1 with
      | ok v rest' e =>
        have hd' : o2 = st.depth := by
          rcases h2 with h | ⟨_, i, hi⟩
          · exact h
          · cases hi
        have hdd' : counting env = true → o2 = Gen.remainingDepthInit := fun hc => by rw [hd', hdd hc]
        simp only
        by_cases hsd : isSelfDelineated b = true
        · simp only [hsd, if_true]
          exact ⟨by first | rfl | trivial, .inr hdd', fun _ hc => .inl (hdd' hc)⟩
        · simp only [hsd, Bool.false_eq_true, if_false]
          cases rest' with
          | nil =>
            simp only
            by_cases hflt : env.flt = true
            · simp only [hflt, if_true]
              exact ⟨by first | rfl | trivial, .inl rfl, fun _ hc => .inl (hdd' hc)⟩
            · simp only [hflt, Bool.false_eq_true, if_false]
              exact ⟨by first | rfl | trivial, .inr hdd', fun _ hc => .inl (hdd' hc)⟩
          | cons c rr =>
            simp only
            by_cases hdl : isStreamDelim c = true
            · simp only [hdl, if_true]
              exact ⟨by first | rfl | trivial, .inr hdd', fun _ hc => .inl (hdd' hc)⟩
            · simp only [hdl, Bool.false_eq_true, if_false]
              exact ⟨by first | rfl | trivial, .inr hdd', fun _ hc => .inl (hdd' hc)⟩
      | err c i =>
        refine ⟨by first | rfl | trivial, .inl (failAt_failed _ _), fun _ hc => ?_⟩
        rcases h2 with h | ⟨h, j, hj⟩
        · exact .inl (by show o2 = _; rw [h, hdd hc])
        · cases hj
          exact .inr ⟨by show o2 + 1 = _; rw [h, hdd hc], _, rfl⟩
      | data i =>
        refine ⟨by first | rfl | trivial, .inl (failAt_failed _ _), fun _ hc => .inl ?_⟩
        rcases h2 with h | ⟨_, j, hj⟩
        · show o2 = _; rw [h, hdd hc]
        · cases hj
      | raw r' p' =>
        refine ⟨by first | rfl | trivial, .inl (failAt_failed _ _), fun _ hc => .inl ?_⟩
        rcases h2 with h | ⟨_, j, hj⟩
        · show o2 = _; rw [h, hdd hc]
        · cases hj
      | io =>
        refine ⟨by first | rfl | trivial, .inl (failAt_failed _ _), fun _ hc => .inl ?_⟩
        rcases h2 with h | ⟨_, j, hj⟩
        · show o2 = _; rw [h, hdd hc]
        · cases hj
      | fuel =>
        refine ⟨by first | rfl | trivial, .inl (failAt_failed _ _), fun _ hc => .inl ?_⟩
        rcases h2 with h | ⟨_, j, hj⟩
        · show o2 = _; rw [h, hdd hc]
        · cases hj

theorem fresh_startT (env : Env) (bs : Bytes) : FreshT env (startTD bs) := .inr (fun _ => rfl)

/-- **whole histories**: the instrumented typed stream is the plain typed stream; the counter after every item -/
theorem historyTD_spec (env : Env) (s : Schema) : ∀ (k : Nat) (st : SST), FreshT env st →
    (historyTD env s k st).map (fun x => (x.1, x.2.1)) = historyT env s k st.ss ∧
    ∀ x ∈ historyTD env s k st, x.1 ≠ .none → DepthOKT env x.1 x.2.2
  | 0, _, _ => ⟨rfl, fun x hx => by simp [historyTD] at hx⟩
  | k + 1, st, hf => by
    obtain ⟨h1, h2, h3⟩ := nextTD_spec env s st hf
    obtain ⟨ih1, ih2⟩ := historyTD_spec env s k (nextTD env s st).2 h2
    simp only [historyTD, historyT, List.map_cons]
    have e1 : (nextTD env s st).1 = (nextT env s st.ss).1 := congrArg Prod.fst h1
    have e2 : (nextTD env s st).2.ss = (nextT env s st.ss).2 := congrArg Prod.snd h1
    refine ⟨?_, fun x hx hne => ?_⟩
    · rw [ih1, e1, e2]
    · simp only [List.mem_cons] at hx
      rcases hx with rfl | hx
      · cases hfail : st.ss.failed with
        | false => exact h3 hfail
        | true =>
          exfalso; apply hne
          simp only
          unfold nextTD; simp [hfail]
      · exact ih2 x hx hne

theorem fresh_stateAfterTD (env : Env) (s : Schema) : ∀ (k : Nat) (st : SST), FreshT env st → FreshT env (stateAfterTD env s k st)
  | 0, _, h => h
  | k + 1, st, h => fresh_stateAfterTD env s k _ (nextTD_spec env s st h).2.1

theorem stateAfterTD_ss (env : Env) (s : Schema) : ∀ (k : Nat) (st : SST), FreshT env st →
    (stateAfterTD env s k st).ss = stateAfterT env s k st.ss
  | 0, _, _ => rfl
  | k + 1, st, h => by
    obtain ⟨h1, h2, _⟩ := nextTD_spec env s st h
    simp only [stateAfterTD, stateAfterT]
    have e2 : (nextTD env s st).2.ss = (nextT env s st.ss).2 := congrArg Prod.snd h1
    rw [stateAfterTD_ss env s k _ h2, e2]

end SJ.Proofs.StreamTypedDepth
