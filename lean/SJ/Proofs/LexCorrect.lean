import SJ.Proofs.LexFast
import SJ.Proofs.IeeeOps
/-!
# C07 layer (vi): composition — `deFloatRoundtrip` is the correctly rounded value

`ModerateOk` isolates what the extended-precision step (`moderate_path`) must deliver for one call; it is the
explicit hypothesis of `c07_correct_partial` (see `Props/C07.lean`). Everything else — fast path, `into_float`,
bhcomp with its truncation, the `de.rs` digit split, sign, underflow, overflow — is proved here.
-/
namespace SJ.Proofs.LexCorrect
open SJ SJ.Gen SJ.Model.Lexical SJ.Model.Num SJ.Spec.Ieee
open SJ.Proofs.Ieee SJ.Proofs.LexRound SJ.Proofs.LexBh SJ.Proofs.LexFast SJ.Proofs.LexSplit SJ.Proofs.NumInt

/-- **the moderate-path layer, for one call.** `moderate_path(mant, mantExp, truncated)` is used for the decimal
    `N · 10^E` (`N = mant`, `E = mantExp` when nothing was cut; otherwise `mant` is `N` cut to its first digits). -/
structure ModerateOk (c : FC) (F : Fmt) (mant : Nat) (mantExp : Int) (truncated : Bool) (N : Nat) (E : Int) : Prop where
  /-- `moderate_path_sound`: when `error_is_accurate` accepts, rounding the extended value is rounding the exact one -/
  sound : (moderatePath c mant mantExp truncated).2 = true →
    intoFloat c (moderatePath c mant mantExp truncated).1 = roundDec F N E
  /-- when it rejects and the downward-rounded extended value `b` is finite, the exact value lies strictly between
      the midpoint below `b` and the midpoint above `b + 1` (the extended value is off by a few units of 2^-64) -/
  near : (moderatePath c mant mantExp truncated).2 = false →
    isSpecial c (intoDownwardFloat c (moderatePath c mant mantExp truncated).1) = false →
    intoDownwardFloat c (moderatePath c mant mantExp truncated).1 < F.infBits ∧
    NearBelow F (intoDownwardFloat c (moderatePath c mant mantExp truncated).1) (dNum F N E) (dDen E)
  /-- when it rejects and `b` is not finite, the exact value rounds to infinity as well -/
  special : (moderatePath c mant mantExp truncated).2 = false →
    isSpecial c (intoDownwardFloat c (moderatePath c mant mantExp truncated).1) = true →
    intoDownwardFloat c (moderatePath c mant mantExp truncated).1 = roundDec F N E

/-- a rejected call has a mantissa exponent inside the table range -/
theorem moderate_invalid_range (c : FC) (m : Nat) (e : Int) (t : Bool)
    (h : (moderatePath c m e t).2 = false) : -350 ≤ e ∧ e < 310 := by
  have hb : base10Bias = 350 := SJ.Proofs.LexTables.lengths.2.2.2.2.2.2.1
  have hs : base10Step = 10 := SJ.Proofs.LexTables.lengths.2.2.2.2.2.1
  have hl : base10LargeMantissa.length = 66 := SJ.Proofs.LexTables.lengths.2.2.2.1
  unfold moderatePath multiplyExponentExtended at h
  simp only [hb, hs, hl] at h
  by_cases h1 : satI32 (e + 350) < 0
  · rw [if_pos h1] at h; simp at h
  · rw [if_neg h1] at h
    by_cases h2 : (Int.tdiv (satI32 (e + 350)) 10).toNat ≥ 66
    · rw [if_pos h2] at h; simp at h
    · unfold satI32 at h1 h2
      split at h1
      · exfalso; apply h2; rw [if_pos (by assumption)]; decide
      · rename_i hle
        rw [if_neg hle] at h2
        split at h1
        · omega
        · rename_i hge
          rw [if_neg hge] at h2
          have : Int.tdiv (e + 350) 10 < 66 := by
            by_contra hc
            apply h2
            omega
          have := Int.lt_tdiv_add_one_mul_self (e + 350) (show (0 : Int) < 10 by decide)
          omega

theorem dNum_nil_append (F : Fmt) (ds : Bytes) (E : Int) : dNum F (natOfDigits (ds ++ [])) E = dNum F (natOfDigits ds) E := by
  rw [List.append_nil]

/-- `parse_concise_float(mant, e)` returns the correctly rounded `mant · 10^e`, given the moderate-path layer -/
theorem parseConcise_eq (single : Bool) (m : Nat) (e : Int) (hm : m < 2 ^ 64)
    (hmod : ModerateOk (fc single) (fmtOf single) m e false m e) :
    parseConciseFloat single m e = roundDec (fmtOf single) m e := by
  have h := fcokOf single
  unfold parseConciseFloat
  cases hf : fastPath single m e with
  | some r => exact fastPath_exact single m e r hf
  | none =>
    simp only []
    cases hv : (moderatePath (fc single) m e false).2 with
    | true =>
      have := hmod.sound hv
      simp only [hv, if_true]
      exact this
    | false =>
      simp only [hv, Bool.false_eq_true, if_false]
      cases hsp : isSpecial (fc single) (intoDownwardFloat (fc single) (moderatePath (fc single) m e false).1) with
      | true =>
        simp only [if_true]
        exact hmod.special hv hsp
      | false =>
        simp only [Bool.false_eq_true, if_false]
        obtain ⟨hb, hnear⟩ := hmod.near hv hsp
        obtain ⟨hr1, hr2⟩ := moderate_invalid_range _ _ _ _ hv
        have hm0 : 0 < m := by
          by_contra hc
          have : m = 0 := by omega
          subst this
          simp [fastPath] at hf
        obtain ⟨i1, i2, i3, i4, i5⟩ := itoa_spec m hm
        have := bhcomp_eq h (itoa m) [] i2 (by intro c hc; cases hc) (i3 hm0)
          (by rw [List.append_nil, i1]; exact hm0) e (by omega) (by omega)
          (by simp only [List.length_nil]; omega) _ hb
          (by
            intro hlt
            exfalso
            have hsl : (sigDigits (itoa m) []).length ≤ 20 := by
              unfold sigDigits
              split
              · simp
              · simpa using i4
            have := h.maxd
            omega)
          (by simpa [List.append_nil, i1] using hnear)
        simpa [List.append_nil, i1] using this

/-! ## `parse_truncated_float` -/

theorem takeWhile_zero (l : Bytes) : l.takeWhile (· == 0x30) = List.replicate (l.takeWhile (· == 0x30)).length 0x30 := by
  induction l with
  | nil => rfl
  | cons a l ih =>
    by_cases h : a = 0x30
    · subst h
      simp only [List.takeWhile, beq_self_eq_true, List.length_cons, List.replicate_succ]
      rw [← ih]
    · have : (a == 0x30) = false := by simpa using h
      simp [List.takeWhile, this]

theorem trim_spec (fraction : Bytes) :
    ∃ z, fraction = trimTrailingZeros fraction ++ List.replicate z 0x30 := by
  refine ⟨(fraction.reverse.takeWhile (· == 0x30)).length, ?_⟩
  unfold trimTrailingZeros
  have h1 := List.takeWhile_append_dropWhile (p := (· == (0x30 : UInt8))) (l := fraction.reverse)
  have h2 := takeWhile_zero fraction.reverse
  have h3 : fraction = (fraction.reverse.dropWhile (· == 0x30)).reverse ++ (fraction.reverse.takeWhile (· == 0x30)).reverse := by
    rw [← List.reverse_append, h1, List.reverse_reverse]
  conv_lhs => rw [h3]
  congr 1
  rw [h2, List.reverse_replicate, List.length_replicate]

theorem truncatedMantissa_le (ds : Bytes) (m : Nat) : (truncatedMantissa ds m).2 ≤ ds.length := by
  induction ds generalizing m with
  | nil => simp [truncatedMantissa]
  | cons d ds ih =>
    simp only [truncatedMantissa]
    cases addDigit m (dig d) with
    | some v => simp only []; have := ih v; simp only [List.length_cons]; omega
    | none => simp only [List.length_cons]; omega

/-- appending zeros to the digits and lowering the exponent does not change the value -/
theorem roundDec_shift (F : Fmt) (N : Nat) (E : Int) (z : Nat) :
    roundDec F (N * 10 ^ z) (E - z) = roundDec F N E := by
  unfold roundDec
  congr 1
  apply roundMag_congr _ _ _ _ _ (dDen_pos _) (dDen_pos _)
  unfold dNum dDen
  have key : (E - (z : Int)).toNat + z + (-E).toNat = E.toNat + (-(E - (z : Int))).toNat := by omega
  calc N * 10 ^ z * 10 ^ (E - (z : Int)).toNat * 2 ^ F.qexp * 10 ^ (-E).toNat
      = N * 2 ^ F.qexp * 10 ^ ((E - (z : Int)).toNat + z + (-E).toNat) := by rw [Nat.pow_add, Nat.pow_add]; ring
    _ = N * 2 ^ F.qexp * 10 ^ (E.toNat + (-(E - (z : Int))).toNat) := by rw [key]
    _ = N * 10 ^ E.toNat * 2 ^ F.qexp * 10 ^ (-(E - (z : Int))).toNat := by rw [Nat.pow_add]; ring

theorem intoI32_id (n : Nat) (h : n ≤ 2147483647) : intoI32 n = n := by
  unfold intoI32; rw [if_neg (by omega)]

theorem mantissaExponent_range (e : Int) (fd t : Nat) (hfd : fd < 2 ^ 29) (ht : t < 2 ^ 29)
    (h1 : -350 ≤ mantissaExponent e fd t) (h2 : mantissaExponent e fd t < 310) :
    -(2 ^ 30 : Int) < e ∧ e < 2 ^ 30 := by
  unfold mantissaExponent at h1 h2
  by_cases hc : fd > t
  · rw [if_pos hc, intoI32_id _ (by omega)] at h1 h2
    unfold satI32 at h1 h2
    split_ifs at h1 h2 <;> omega
  · rw [if_neg hc, intoI32_id _ (by omega)] at h1 h2
    unfold satI32 at h1 h2
    split_ifs at h1 h2 <;> omega

/-- `parse_truncated_float(integer, fraction, e)` returns the correctly rounded value of the digits, given the
    moderate-path layer for its (truncated) mantissa; `hz`: if more than `MAX_DIGITS - 1` significant digits are
    present, one of those beyond is not `0` (otherwise: known finding C07-zero-tail) -/
theorem parseTruncated_eq (single : Bool) (integer fraction : Bytes) (e : Int)
    (hdi : IsDigits integer) (hdf : IsDigits fraction) (hhead : ∀ d r, integer = d :: r → d ≠ 0x30)
    (hpos : 0 < natOfDigits (integer ++ fraction))
    (hlen : integer.length + fraction.length < 2 ^ 29)
    (hz : (fc single).maxDigits - 1 < (sigDigits integer (trimTrailingZeros fraction)).length →
      0 < natOfDigits ((sigDigits integer (trimTrailingZeros fraction)).drop ((fc single).maxDigits - 1)))
    (hmod : ModerateOk (fc single) (fmtOf single)
      (truncatedMantissa (integer ++ trimTrailingZeros fraction) 0).1
      (mantissaExponent e (trimTrailingZeros fraction).length (truncatedMantissa (integer ++ trimTrailingZeros fraction) 0).2)
      true (natOfDigits (integer ++ trimTrailingZeros fraction)) (e - (trimTrailingZeros fraction).length)) :
    parseTruncatedFloat single integer fraction e =
      roundDec (fmtOf single) (natOfDigits (integer ++ fraction)) (e - fraction.length) := by
  have h := fcokOf single
  obtain ⟨z, hzs⟩ := trim_spec fraction
  generalize htr : trimTrailingZeros fraction = fr at *
  have hdfr : IsDigits fr := isDigits_of_append_left (hzs ▸ hdf)
  have hfl : fraction.length = fr.length + z := by
    have := congrArg List.length hzs
    simpa using this
  -- the value with and without the trimmed zeros
  have hN : natOfDigits (integer ++ fraction) = natOfDigits (integer ++ fr) * 10 ^ z := by
    conv_lhs => rw [hzs, ← List.append_assoc, natOfDigits_append, natOfDigits_replicate_zero]
    simp
  have hspec : roundDec (fmtOf single) (natOfDigits (integer ++ fraction)) (e - fraction.length) =
      roundDec (fmtOf single) (natOfDigits (integer ++ fr)) (e - fr.length) := by
    rw [hN, hfl]
    have : e - ((fr.length + z : Nat) : Int) = (e - fr.length) - z := by push_cast; omega
    rw [this, roundDec_shift]
  have hpos' : 0 < natOfDigits (integer ++ fr) := by
    rw [hN] at hpos
    by_contra hc
    have : natOfDigits (integer ++ fr) = 0 := by omega
    rw [this] at hpos; simp at hpos
  rw [hspec]
  unfold parseTruncatedFloat
  rw [htr]
  simp only []
  unfold fallbackPath
  simp only []
  generalize hm : (truncatedMantissa (integer ++ fr) 0).1 = m at *
  generalize ht : (truncatedMantissa (integer ++ fr) 0).2 = t at *
  have htle : t ≤ (integer ++ fr).length := by rw [← ht]; exact truncatedMantissa_le _ _
  cases hv : (moderatePath (fc single) m (mantissaExponent e fr.length t) true).2 with
  | true =>
    simp only [if_true]
    exact hmod.sound hv
  | false =>
    simp only [Bool.false_eq_true, if_false]
    cases hsp : isSpecial (fc single) (intoDownwardFloat (fc single) (moderatePath (fc single) m (mantissaExponent e fr.length t) true).1) with
    | true =>
      simp only [if_true]
      exact hmod.special hv hsp
    | false =>
      simp only [Bool.false_eq_true, if_false]
      obtain ⟨hb, hnear⟩ := hmod.near hv hsp
      obtain ⟨hr1, hr2⟩ := moderate_invalid_range _ _ _ _ hv
      -- the written exponent is small because the mantissa exponent is
      have hlen' : (integer ++ fr).length < 2 ^ 29 := by simp only [List.length_append]; omega
      have hebound : -(2 ^ 30 : Int) < e ∧ e < 2 ^ 30 := by
        simp only [List.length_append] at hlen' htle
        exact mantissaExponent_range e fr.length t (by omega) (by omega) hr1 hr2
      exact bhcomp_eq h integer fr hdi hdfr hhead hpos' e hebound.1 hebound.2
        (by simp only [List.length_append] at hlen'; omega) _ hb hz hnear

/-! ## `de.rs`: infinity becomes `NumberOutOfRange`, the sign is applied afterwards -/

theorem infBits_lt (F : Fmt) : F.infBits < 2 ^ (F.mbits + F.ebits) := by
  unfold Fmt.infBits
  rw [Nat.pow_add, Nat.mul_comm (2 ^ F.mbits)]
  exact Nat.mul_lt_mul_of_pos_right (by have := pow_pos' F.ebits; omega) (pow_pos' _)

/-- on values `≤ infBits` (what lexical returns), `is_infinite` holds for `infBits` only -/
theorem isInf_iff {c : FC} {F : Fmt} (h : FCok c F) (b : Nat) (hb : b ≤ F.infBits) :
    isInf c b = decide (b = F.infBits) := by
  have hP := pow_pos' F.mbits
  have hlt := infBits_lt F
  unfold isInf isSpecial
  rw [h.emask, h.mmask, Nat.and_two_pow_sub_one_eq_mod]
  have hmask : b &&& F.infBits = b / 2 ^ F.mbits * 2 ^ F.mbits := and_expmask F b (by omega)
  rw [hmask]
  by_cases hbe : b = F.infBits
  · subst hbe
    have h1 : F.infBits / 2 ^ F.mbits * 2 ^ F.mbits = F.infBits := by
      unfold Fmt.infBits; rw [Nat.mul_div_cancel _ hP]
    have h2 : F.infBits % 2 ^ F.mbits = 0 := by unfold Fmt.infBits; exact Nat.mul_mod_left _ _
    simp [h1, h2]
  · have hblt : b < F.infBits := by omega
    have hq : b / 2 ^ F.mbits < 2 ^ F.ebits - 1 := by
      rw [Nat.div_lt_iff_lt_mul hP]; exact hblt
    have : ¬ (b / 2 ^ F.mbits * 2 ^ F.mbits = F.infBits) := by
      unfold Fmt.infBits
      intro heq
      have := Nat.eq_of_mul_eq_mul_right hP heq
      omega
    simp [this, hbe]

theorem clampInf_le (F : Fmt) (r : Nat) : clampInf F r ≤ F.infBits := by unfold clampInf; split <;> omega

theorem clampInf_eq_inf_iff (F : Fmt) (r : Nat) : clampInf F r = F.infBits ↔ F.infBits ≤ r := by
  unfold clampInf; split <;> omega

/-! ## the specification side: `Model.Num.exact` and `convertRoundtrip.conv` -/

theorem exact_eq (p : Parts) : exact p =
    if litN p == 0 then .zero
    else if litE p + ((toString (litN p)).length : Int) > 400 then .huge
    else if litE p + ((toString (litN p)).length : Int) < -400 then .tiny
    else if litE p ≥ 0 then .rat (litN p * 10 ^ (litE p).toNat) 1
    else .rat (litN p) (10 ^ (-(litE p)).toNat) := by
  unfold exact litN litE litExp
  rfl

theorem digits_bounds (n : Nat) (hn : 0 < n) :
    10 ^ ((toString n).length - 1) ≤ n ∧ n < 10 ^ (toString n).length := by
  have e : toString n = n.repr := rfl
  rw [e]
  have hpos := @Nat.length_repr_pos n
  constructor
  · by_cases h1 : n.repr.length = 1
    · rw [h1]; simp; omega
    · have := (@Nat.length_repr_le_iff n (n.repr.length - 1) (by omega))
      by_contra hc
      have := this.2 (by omega)
      omega
  · exact (@Nat.length_repr_le_iff n n.repr.length hpos).1 (Nat.le_refl _)

theorem roundMag_small (F : Fmt) (a b : Nat) (h : 2 * a < b) : roundMag F a b = 0 := by
  have hab : a / b = 0 := Nat.div_eq_of_lt (by omega)
  rw [roundMag_eq]
  have hk : kOf F a b = 0 := by unfold kOf; rw [hab]; simp [Nat.log2]
  rw [hk]
  unfold rne
  simp only [Nat.pow_zero, Nat.mul_one, hab, Nat.zero_mul, Nat.zero_add]
  rw [Nat.mod_eq_of_lt (by omega), if_pos h]

/-- digits and exponent say "at least 10^400": the rounded value is not finite -/
theorem huge_overflows {c : FC} {F : Fmt} (h : FCok c F) (N L : Nat) (E : Int) (hN : 10 ^ (L - 1) ≤ N) (hL : 1 ≤ L)
    (hE : E + (L : Int) > 400) : F.infBits ≤ roundMag F (dNum F N E) (dDen E) := by
  apply roundMag_overflow_of_ge h _ _ (dDen_pos E)
  unfold dNum dDen
  have h400 := h.huge400
  by_cases hE0 : 0 ≤ E
  · have : (-E).toNat = 0 := by omega
    rw [this, Nat.pow_zero, Nat.mul_one]
    obtain ⟨j, hj⟩ : ∃ j, (L - 1) + E.toNat = 400 + j := ⟨(L - 1) + E.toNat - 400, by omega⟩
    have h1 : 10 ^ 400 ≤ N * 10 ^ E.toNat := by
      calc 10 ^ 400 ≤ 10 ^ 400 * 10 ^ j := Nat.le_mul_of_pos_right _ (Nat.pos_of_ne_zero (by simp))
        _ = 10 ^ (L - 1) * 10 ^ E.toNat := by rw [← Nat.pow_add, ← Nat.pow_add, hj]
        _ ≤ N * 10 ^ E.toNat := Nat.mul_le_mul_right _ hN
    calc 2 ^ (F.mbits + 1) * 2 ^ (2 ^ F.ebits - 3) ≤ 10 ^ 400 * 2 ^ F.qexp := h400
      _ ≤ N * 10 ^ E.toNat * 2 ^ F.qexp := Nat.mul_le_mul_right _ h1
  · have hEt : E.toNat = 0 := by omega
    rw [hEt, Nat.pow_zero, Nat.mul_one]
    obtain ⟨j, hj⟩ : ∃ j, L - 1 = 400 + (-E).toNat + j := ⟨L - 1 - 400 - (-E).toNat, by omega⟩
    have h1 : 10 ^ 400 * 10 ^ (-E).toNat ≤ N := by
      calc 10 ^ 400 * 10 ^ (-E).toNat ≤ 10 ^ 400 * 10 ^ (-E).toNat * 10 ^ j :=
            Nat.le_mul_of_pos_right _ (Nat.pos_of_ne_zero (by simp))
        _ = 10 ^ (L - 1) := by rw [← Nat.pow_add, ← Nat.pow_add, hj]
        _ ≤ N := hN
    calc 2 ^ (F.mbits + 1) * 2 ^ (2 ^ F.ebits - 3) * 10 ^ (-E).toNat
        ≤ 10 ^ 400 * 2 ^ F.qexp * 10 ^ (-E).toNat := Nat.mul_le_mul_right _ h400
      _ = 10 ^ 400 * 10 ^ (-E).toNat * 2 ^ F.qexp := by ring
      _ ≤ N * 2 ^ F.qexp := Nat.mul_le_mul_right _ h1

/-- digits and exponent say "below 10^-400": the value rounds to zero -/
theorem tiny_underflows {c : FC} {F : Fmt} (h : FCok c F) (N L : Nat) (E : Int) (hN : N < 10 ^ L)
    (hE : E + (L : Int) < -400) : roundMag F (dNum F N E) (dDen E) = 0 := by
  apply roundMag_small
  unfold dNum dDen
  have hEt : E.toNat = 0 := by omega
  rw [hEt, Nat.pow_zero, Nat.mul_one]
  obtain ⟨j, hj⟩ : ∃ j, (-E).toNat = 401 + L + j := ⟨(-E).toNat - 401 - L, by omega⟩
  have ht := h.tiny400
  calc 2 * (N * 2 ^ F.qexp) = N * (2 * 2 ^ F.qexp) := by ring
    _ < 10 ^ L * (2 * 2 ^ F.qexp) := Nat.mul_lt_mul_of_pos_right hN (by have := pow_pos' F.qexp; omega)
    _ ≤ 10 ^ L * 10 ^ 401 := Nat.mul_le_mul_left _ ht
    _ ≤ 10 ^ L * 10 ^ 401 * 10 ^ j := Nat.le_mul_of_pos_right _ (Nat.pos_of_ne_zero (by simp))
    _ = 10 ^ (-E).toNat := by rw [hj, Nat.pow_add, Nat.pow_add]; ring

/-! ## both sides as "signed pattern or out of range" -/

theorem roundBits_eq (F : Fmt) (neg : Bool) (n d : Nat) :
    roundBits F neg n d =
      if roundMag F (n * 2 ^ F.qexp) d < F.infBits then
        some (if neg then F.signBit + roundMag F (n * 2 ^ F.qexp) d else roundMag F (n * 2 ^ F.qexp) d)
      else none := rfl

/-- what `Model.Num.exact` says, in terms of the rounding `R` of the decimal (any format) -/
theorem exact_cases {c : FC} {F : Fmt} (h : FCok c F) (p : Parts) (hN : litN p ≠ 0) :
    (exact p = .huge ∧ F.infBits ≤ roundMag F (dNum F (litN p) (litE p)) (dDen (litE p))) ∨
    (exact p = .tiny ∧ roundMag F (dNum F (litN p) (litE p)) (dDen (litE p)) = 0) ∨
    (∃ n d, exact p = .rat n d ∧ 0 < d ∧
      roundMag F (n * 2 ^ F.qexp) d = roundMag F (dNum F (litN p) (litE p)) (dDen (litE p))) := by
  have hNpos : 0 < litN p := Nat.pos_of_ne_zero hN
  obtain ⟨db1, db2⟩ := digits_bounds (litN p) hNpos
  have hLpos : 1 ≤ (toString (litN p)).length := by
    have e : toString (litN p) = (litN p).repr := rfl
    rw [e]; exact @Nat.length_repr_pos (litN p)
  rw [exact_eq]
  have hb : (litN p == 0) = false := by simpa using hN
  simp only [hb, Bool.false_eq_true, if_false]
  by_cases hh : litE p + ((toString (litN p)).length : Int) > 400
  · left
    rw [if_pos hh]
    exact ⟨rfl, huge_overflows h (litN p) _ (litE p) db1 hLpos hh⟩
  · rw [if_neg hh]
    by_cases ht : litE p + ((toString (litN p)).length : Int) < -400
    · right; left
      rw [if_pos ht]
      exact ⟨rfl, tiny_underflows h (litN p) _ (litE p) db2 ht⟩
    · right; right
      rw [if_neg ht]
      by_cases hE : litE p ≥ 0
      · rw [if_pos hE]
        refine ⟨_, _, rfl, Nat.one_pos, ?_⟩
        have e2 : dDen (litE p) = 1 := by
          unfold dDen
          have : (-(litE p)).toNat = 0 := by omega
          rw [this]; rfl
        rw [e2]; rfl
      · rw [if_neg hE]
        refine ⟨_, _, rfl, Nat.pos_of_ne_zero (by simp), ?_⟩
        have e1 : dNum F (litN p) (litE p) = litN p * 2 ^ F.qexp := by
          unfold dNum
          have : (litE p).toNat = 0 := by omega
          rw [this, Nat.pow_zero, Nat.mul_one]
        rw [e1]; rfl

theorem roundBits_of (F : Fmt) (neg : Bool) (n d R : Nat) (hr : roundMag F (n * 2 ^ F.qexp) d = R) :
    roundBits F neg n d = if R < F.infBits then some (if neg then F.signBit + R else R) else none := by
  rw [roundBits_eq, hr]

theorem infBits64_lt : b64.infBits < 2 ^ 63 := by decide

/-- flipping the sign bit of a positive pattern -/
theorem neg_ofNat (R : Nat) (hR : R < 2 ^ 63) :
    F64.neg (UInt64.ofNat R) = UInt64.ofNat (b64.signBit + R) := by
  have hs : b64.signBit = 2 ^ 63 := SJ.Proofs.Ieee.b64_signBit
  apply UInt64.toNat_inj.1
  unfold F64.neg
  rw [UInt64.toNat_add, UInt64.toNat_ofNat', UInt64.toNat_ofNat', hs]
  have h1 : (0x8000000000000000 : UInt64).toNat = 2 ^ 63 := by decide
  rw [h1]
  omega

/-- the common normal form of both sides for an `f64` target -/
def finish64 (neg : Bool) (R : Nat) : NRes :=
  if R < b64.infBits then .f64 (UInt64.ofNat (if neg then b64.signBit + R else R)) else .outOfRange

theorem finishFloat64 (positive : Bool) (R : Nat) :
    finishFloat false positive (clampInf b64 R) = finish64 (!positive) R := by
  have h := fcok64
  unfold finishFloat finish64
  have hfc : fc false = f64Consts := rfl
  rw [hfc, isInf_iff h _ (clampInf_le _ _)]
  by_cases hR : R < b64.infBits
  · have hc : clampInf b64 R = R := by unfold clampInf; rw [if_pos hR]
    rw [hc, if_pos hR]
    have hne : ¬ (R = b64.infBits) := by omega
    simp only [hne, decide_false, Bool.false_eq_true, if_false]
    cases positive
    · simp only [Bool.not_false, if_true, Bool.false_eq_true, if_false]
      rw [neg_ofNat R (by have := infBits64_lt; omega)]
    · simp
  · have hc : clampInf b64 R = b64.infBits := by unfold clampInf; rw [if_neg hR]
    rw [hc, if_neg hR]
    simp

theorem zero_eq (neg : Bool) : F64.zero neg = UInt64.ofNat (if neg then b64.signBit + 0 else 0) := by
  cases neg <;> decide

/-- `convertRoundtrip.conv` in the same normal form -/
theorem conv64_eq (p : Parts) (hN : litN p ≠ 0) :
    convertRoundtrip.conv p = finish64 p.neg (roundMag b64 (dNum b64 (litN p) (litE p)) (dDen (litE p))) := by
  unfold convertRoundtrip.conv finish64
  rcases exact_cases fcok64 p hN with ⟨hx, hr⟩ | ⟨hx, hr⟩ | ⟨n, d, hx, hd, hr⟩
  · rw [hx]
    simp only []
    rw [if_neg (by omega)]
  · rw [hx]
    simp only []
    rw [hr, if_pos (by have := infBits64_lt; unfold Fmt.infBits b64; norm_num), zero_eq]
  · rw [hx]
    simp only []
    have hd0 : (d == 0) = false := by simp; omega
    rw [hd0]
    simp only [Bool.false_eq_true, if_false]
    rw [SJ.Proofs.LexBridge.roundNE64_bridge, roundBits_of b64 p.neg n d _ hr]
    by_cases hlt : roundMag b64 (dNum b64 (litN p) (litE p)) (dDen (litE p)) < b64.infBits
    · rw [if_pos hlt, if_pos hlt]; rfl
    · rw [if_neg hlt, if_neg hlt]; rfl

/-! ## assembling: `deFloatRoundtrip false = convertRoundtrip` -/

/-- the moderate-path layer for the call `de.rs` makes on `p` -/
def ModOk (single : Bool) (p : Parts) : Prop :=
  match deCall single p with
  | .concise sig e => ModerateOk (fc single) (fmtOf single) sig e false sig e
  | .truncated integer fraction e =>
    ModerateOk (fc single) (fmtOf single)
      (truncatedMantissa (integer ++ trimTrailingZeros fraction) 0).1
      (mantissaExponent e (trimTrailingZeros fraction).length (truncatedMantissa (integer ++ trimTrailingZeros fraction) 0).2)
      true (natOfDigits (integer ++ trimTrailingZeros fraction)) (e - (trimTrailingZeros fraction).length)
  | _ => True

/-- not the shape of known finding C07-zero-tail: if bhcomp has to drop digits, one of them is non-zero -/
def NoZeroTail (single : Bool) (p : Parts) : Prop :=
  match deCall single p with
  | .truncated integer fraction _ =>
    (fc single).maxDigits - 1 < (sigDigits integer (trimTrailingZeros fraction)).length →
      0 < natOfDigits ((sigDigits integer (trimTrailingZeros fraction)).drop ((fc single).maxDigits - 1))
  | _ => True

theorem all_zero_iff (ds : Bytes) (hd : IsDigits ds) : ds.all (· == 0x30) = (natOfDigits ds == 0) := by
  induction ds with
  | nil => simp [natOfDigits]
  | cons c cs ih =>
    have hc := hd c (List.mem_cons_self ..)
    have hcs : IsDigits cs := fun x hx => hd x (List.mem_cons_of_mem _ hx)
    have hv : natOfDigits (c :: cs) = dig c * 10 ^ cs.length + natOfDigits cs := by
      rw [natOfDigits_eq_val, val_cons, val_eq]; simp
    rw [List.all_cons, ih hcs, hv]
    by_cases h0 : c = 0x30
    · subst h0
      have : dig (0x30 : UInt8) = 0 := by decide
      simp [this]
    · have hb : (c == 0x30) = false := by simpa using h0
      have hdig : 1 ≤ dig c := by
        have h48 := UInt8.le_iff_toNat_le.1 hc.1
        change 48 ≤ c.toNat at h48
        have : c.toNat ≠ 48 := fun hh => h0 (UInt8.toNat_inj.1 (by simpa using hh))
        simp only [dig]; omega
      have hp : 1 ≤ 10 ^ cs.length := Nat.one_le_pow _ _ (by decide)
      have : 1 ≤ dig c * 10 ^ cs.length := Nat.mul_le_mul hdig hp
      rw [hb, Bool.false_and]
      symm
      rw [beq_eq_false_iff_ne]
      omega

/-- a passing exponent is at most `i32::MAX` in absolute value -/
theorem litExp_bound (p : Parts) (wf : WF p) (hf : ExpFits p) : -(2147483647 : Int) ≤ litExp p ∧ litExp p ≤ 2147483647 := by
  unfold litExp
  cases hexp : p.exp with
  | none => simp
  | some e =>
    obtain ⟨en, eds⟩ := e
    obtain ⟨hed, hene⟩ := wf.exp_digits en eds hexp
    have hfit := hf en eds hexp
    rcases expDigits_spec eds hed hene with ⟨_, h2⟩ | ⟨_, _, h3⟩
    · rw [hfit] at h2; cases h2
    · simp only [i32Max] at h3
      cases en <;> simp <;> omega

/-- saturating the decimal exponent at `i32::MIN` does not change the (zero) result -/
theorem roundMag_sat {c : FC} {F : Fmt} (h : FCok c F) (N : Nat) (E : Int) (hN : N < 2 ^ 64) (hE : E ≤ 2147483647) :
    roundMag F (dNum F N (satI32 E)) (dDen (satI32 E)) = roundMag F (dNum F N E) (dDen E) := by
  by_cases hlo : -2147483648 ≤ E
  · rw [satI32_id' E hlo hE]
  · have hs : satI32 E = -2147483648 := by unfold satI32; rw [if_neg (by omega), if_pos (by omega)]
    have hN20 : N < 10 ^ 20 := by
      have : (2 : Nat) ^ 64 < 10 ^ 20 := by norm_num
      omega
    rw [hs, tiny_underflows h N 20 _ hN20 (by omega), tiny_underflows h N 20 _ hN20 (by omega)]

theorem u64_lt_80 (N : Nat) (h : N ≤ u64Max) : N < 2 ^ 80 ∧ N < 2 ^ 64 := by
  simp only [u64Max] at h
  constructor <;> omega

theorem ofU64_zero : F64.ofU64 0 = 0 := by
  apply UInt64.toNat_inj.1
  have : F64.ofU64 0 = F64.roundOrInf false 0 1 := rfl
  rw [this, roundOrInf64_toNat, Nat.zero_mul, roundMag_zero]
  unfold clampInf
  rw [if_pos (by have := infBits64_lt; unfold Fmt.infBits b64; norm_num)]
  rfl

/-- `-(significand as f64)` for a significand that fits `u64` is the rounding of `-significand` -/
theorem neg_ofU64 (N : Nat) (hN : N ≤ u64Max) :
    NRes.f64 (SJ.Spec.Ieee.F64.neg (SJ.Spec.Ieee.F64.ofU64 N)) =
      finish64 true (roundMag b64 (dNum b64 N 0) (dDen 0)) := by
  have h := fcok64
  obtain ⟨h80, _⟩ := u64_lt_80 N hN
  have hfin := finite_of_small h N h80
  have e1 : dNum b64 N 0 = N * 2 ^ b64.qexp := by unfold dNum; simp
  have e2 : dDen 0 = 1 := rfl
  rw [e1, e2]
  have ht := roundOrInf64_toNat N 1
  unfold clampInf at ht
  rw [if_pos hfin] at ht
  have hof : SJ.Spec.Ieee.F64.ofU64 N = UInt64.ofNat (roundMag b64 (N * 2 ^ b64.qexp) 1) := by
    apply UInt64.toNat_inj.1
    have : SJ.Spec.Ieee.F64.ofU64 N = F64.roundOrInf false N 1 := rfl
    rw [this, ht, UInt64.toNat_ofNat']
    exact (Nat.mod_eq_of_lt (by have := infBits64_lt; omega)).symm
  unfold finish64
  rw [hof, if_pos hfin, neg_ofNat _ (by have := infBits64_lt; omega)]
  simp

/-- **binary64.** `deFloatRoundtrip false` is `Model.Num.convertRoundtrip`, given the moderate-path layer for the
    call made and the absence of the zero-tail shape -/
theorem deFloat64_eq (p : Parts) (wf : WF p) (hlen : (p.int ++ p.frac.getD []).length + 20 < 2 ^ 29)
    (hz : NoZeroTail false p) (hmod : ModOk false p) :
    deFloatRoundtrip false p = convertRoundtrip p := by
  have h := fcok64
  have hpres := deCall_presents false p wf
  unfold deFloatRoundtrip
  unfold NoZeroTail at hz
  unfold ModOk at hmod
  cases hcall : deCall false p with
  | number r =>
    rw [hcall] at hpres
    obtain ⟨hfr, hexp, hN, hr⟩ := hpres
    have hNint : litN p = natOfDigits p.int := by simp [litN, hfr]
    simp only [runCall]
    unfold convertRoundtrip intClass
    simp only [hfr, hexp]
    rw [hr, ← hNint]
    simp only [u64Max] at hN
    cases hneg : p.neg
    · simp only [Bool.not_false, if_true]
      rw [if_pos (by omega)]
    · simp only [Bool.not_true, Bool.false_eq_true, if_false]
      by_cases h0 : litN p = 0
      · have hb : (litN p == 0) = true := by simpa using h0
        simp only [hb, if_true]
        rw [if_neg (by omega)]
        unfold convertRoundtrip.conv
        rw [exact_eq, hb, if_pos rfl, h0, hneg, ofU64_zero]
        simp only []
        have : F64.neg 0 = F64.zero true := by decide
        rw [this]
      · have hb : (litN p == 0) = false := by simpa using h0
        simp only [hb, Bool.false_eq_true, if_false]
        by_cases h63 : litN p ≤ 2 ^ 63
        · rw [if_pos h63, if_pos ⟨by omega, h63⟩]
        · rw [if_neg h63, if_neg (by omega)]
          rw [conv64_eq p h0, hneg]
          have hE : litE p = 0 := by simp [litE, litExp, hexp, hfr]
          rw [hE]
          exact neg_ofU64 (litN p) (by simp only [u64Max]; omega)
  | expOverflow zs pe =>
    rw [hcall] at hpres
    obtain ⟨en, eds, hexp, hov, hzs, hpe⟩ := hpres
    simp only [runCall]
    unfold convertRoundtrip
    have hic : intClass p = none := by unfold intClass; rw [hexp]; cases p.frac <;> rfl
    rw [hic]
    simp only [hexp, hov, if_true]
    rw [hzs, hpe]
    have := all_zero_iff (p.int ++ p.frac.getD []) (isDigits_append wf.int_digits wf.frac_digits)
    rw [this]; rfl
  | concise sig e =>
    rw [hcall] at hpres hmod
    obtain ⟨hsig, hs64, he, hfit⟩ := hpres
    simp only [runCall]
    have hs64' := (u64_lt_80 sig hs64).2
    rw [parseConcise_eq false sig e hs64' hmod]
    have hfmt : fmtOf false = b64 := rfl
    rw [hfmt]
    unfold roundDec
    rw [finishFloat64]
    simp only [Bool.not_not]
    -- the saturated exponent
    obtain ⟨hx1, hx2⟩ := litExp_bound p wf hfit
    have hEle : litE p ≤ 2147483647 := by unfold litE; omega
    rw [he, hsig, roundMag_sat h (litN p) (litE p) (hsig ▸ hs64') hEle]
    -- the specification
    have hconv : convertRoundtrip p = convertRoundtrip.conv p := by
      unfold convertRoundtrip
      have hic : intClass p = none := by
        unfold intClass
        cases hfr : p.frac with
        | some f => rfl
        | none =>
          cases hexp : p.exp with
          | some e => rfl
          | none =>
            -- a literal without fraction and exponent is never presented as `concise`
            exfalso
            have := deCall_presents false p wf
            unfold deCall at hcall
            rcases goInt_spec 0 p.int wf.int_digits (by simp [u64Max]) with ⟨g1, _⟩ | ⟨pre, c', post, _, _, _, g3⟩
            · rw [g1] at hcall; simp only [hfr, hexp] at hcall; split at hcall <;> cases hcall
            · rw [g3] at hcall; simp only [parseLongInteger, hfr, hexp, f64LongFromParts] at hcall; cases hcall
      rw [hic]
      cases hexp : p.exp with
      | none => rfl
      | some e' =>
        obtain ⟨en, eds⟩ := e'
        simp only []
        rw [hfit en eds hexp]
        simp
    rw [hconv]
    by_cases h0 : litN p = 0
    · unfold convertRoundtrip.conv
      have hb : (litN p == 0) = true := by simpa using h0
      rw [exact_eq, hb, if_pos rfl, h0]
      unfold dNum finish64
      simp only [Nat.zero_mul, roundMag_zero]
      rw [if_pos (by have := infBits64_lt; unfold Fmt.infBits b64; norm_num), zero_eq]
    · rw [conv64_eq p h0]
  | truncated integer fraction e =>
    rw [hcall] at hpres hmod hz
    obtain ⟨hNv, hEv, hdi, hdf, hbig, hhead, he1, he2, hfit, hsl⟩ := hpres
    simp only [runCall]
    have hlen' : integer.length + fraction.length < 2 ^ 29 := by omega
    rw [parseTruncated_eq false integer fraction e hdi hdf hhead (by rw [hNv]; simp only [u64Max] at hbig; omega) hlen' hz hmod]
    have hfmt : fmtOf false = b64 := rfl
    rw [hfmt, hNv, hEv]
    unfold roundDec
    rw [finishFloat64]
    simp only [Bool.not_not]
    have h0 : litN p ≠ 0 := by simp only [u64Max] at hbig; omega
    rw [← conv64_eq p h0]
    unfold convertRoundtrip
    have hic : intClass p = none := by
      unfold intClass
      cases hfr : p.frac with
      | some f => rfl
      | none =>
        cases hexp : p.exp with
        | some e => rfl
        | none =>
          simp only []
          have hNint : litN p = natOfDigits p.int := by simp [litN, hfr]
          rw [← hNint]
          simp only [u64Max] at hbig
          cases p.neg
          · simp only [Bool.not_false, if_true]; rw [if_neg (by omega)]
          · simp only [Bool.not_true, Bool.false_eq_true, if_false]
            have hb : (litN p == 0) = false := by simpa using h0
            rw [hb]; simp only [Bool.false_eq_true, if_false]
            rw [if_neg (by omega)]
    rw [hic]
    cases hexp : p.exp with
    | none => rfl
    | some e' =>
      obtain ⟨en, eds⟩ := e'
      simp only []
      rw [hfit en eds hexp]
      simp

/-! ## binary32 targets -/

/-- the common normal form of both sides for an `f32` target: the pattern is handed on as the (exactly) widened `f64` -/
def finish32 (neg : Bool) (R : Nat) : NRes :=
  if R < b32.infBits then .f64 (F32.toF64 (UInt32.ofNat (if neg then b32.signBit + R else R))) else .outOfRange

theorem infBits32 : b32.infBits = 0x7f800000 := by decide
theorem signBit32 : b32.signBit = 2 ^ 31 := by decide

/-- `(x as f64)` of the sign-flipped pattern is the sign-flipped `(x as f64)` -/
theorem toF64_neg (R : Nat) (hR : R < b32.infBits) :
    SJ.Spec.Ieee.F64.neg (F32.toF64 (UInt32.ofNat R)) = F32.toF64 (UInt32.ofNat (b32.signBit + R)) := by
  have hi := infBits32
  have hs := signBit32
  have t1 : (UInt32.ofNat R).toNat = R := by rw [UInt32.toNat_ofNat']; exact Nat.mod_eq_of_lt (by omega)
  have t2 : (UInt32.ofNat (b32.signBit + R)).toNat = 2 ^ 31 + R := by
    rw [UInt32.toNat_ofNat', hs]; exact Nat.mod_eq_of_lt (by omega)
  have a1 : F32.absBits (UInt32.ofNat R) = R := by unfold F32.absBits; rw [t1]; exact Nat.mod_eq_of_lt (by omega)
  have a2 : F32.absBits (UInt32.ofNat (b32.signBit + R)) = R := by
    unfold F32.absBits; rw [t2]; omega
  have n1 : F32.sign (UInt32.ofNat R) = false := by
    unfold F32.sign; rw [t1, Nat.div_eq_of_lt (by omega)]; rfl
  have n2 : F32.sign (UInt32.ofNat (b32.signBit + R)) = true := by
    unfold F32.sign; rw [t2]
    have : (2 ^ 31 + R) / 2 ^ 31 = 1 := by omega
    rw [this]; rfl
  have hE : R / 2 ^ 23 % 2 ^ 8 ≠ 255 := by
    have : R / 2 ^ 23 < 255 := by rw [Nat.div_lt_iff_lt_mul (by norm_num)]; omega
    omega
  have hE2 : (2 ^ 31 + R) / 2 ^ 23 % 2 ^ 8 ≠ 255 := by omega
  have i1 : F32.isInf (UInt32.ofNat R) = false := by
    unfold F32.isInf F32.expField; rw [t1]
    have : (R / 2 ^ 23 % 2 ^ 8 == 255) = false := by simpa using hE
    rw [this]; rfl
  have i2 : F32.isInf (UInt32.ofNat (b32.signBit + R)) = false := by
    unfold F32.isInf F32.expField; rw [t2]
    have : ((2 ^ 31 + R) / 2 ^ 23 % 2 ^ 8 == 255) = false := by simpa using hE2
    rw [this]; rfl
  unfold F32.toF64 F32.mag
  simp only [i1, i2, n1, n2, a1, a2, Bool.false_eq_true, if_false]
  unfold F64.roundOrInf
  have hneg := SJ.Proofs.Ieee.roundNE64_neg false (magOfBits b32 R) (2 ^ 149)
  simp only [Bool.not_false] at hneg
  rw [← hneg]
  cases roundNE64 false (magOfBits b32 R) (2 ^ 149) with
  | none => decide
  | some x => rfl

theorem finishFloat32 (positive : Bool) (R : Nat) :
    finishFloat true positive (clampInf b32 R) = finish32 (!positive) R := by
  have h := fcok32
  unfold finishFloat finish32
  have hfc : fc true = f32Consts := rfl
  rw [hfc, isInf_iff h _ (clampInf_le _ _)]
  by_cases hR : R < b32.infBits
  · have hc : clampInf b32 R = R := by unfold clampInf; rw [if_pos hR]
    rw [hc, if_pos hR]
    have hne : ¬ (R = b32.infBits) := by omega
    simp only [hne, decide_false, Bool.false_eq_true, if_false, if_true]
    cases positive
    · simp only [Bool.not_false, if_true, Bool.false_eq_true, if_false]
      rw [toF64_neg R hR]
    · simp
  · have hc : clampInf b32 R = b32.infBits := by unfold clampInf; rw [if_neg hR]
    rw [hc, if_neg hR]
    simp

theorem zero_toF64 (neg : Bool) :
    F64.zero neg = F32.toF64 (UInt32.ofNat (if neg then b32.signBit + 0 else 0)) := by
  cases neg <;> decide +kernel

theorem roundNE32_eq (neg : Bool) (n d : Nat) : roundNE32 neg n d = (roundBits b32 neg n d).map UInt32.ofNat := rfl


end SJ.Proofs.LexCorrect
