import SJ.Proofs.ReadMach
import SJ.Proofs.Hex
import SJ.Proofs.Bytes256
/-!
# The machine's `\uXXXX` accumulation, `decode_four_hex_digits` and the specification are one function

`Model.Machine.stepStr` collects the four bytes after `\u` in the sub-state `.hex acc lead` and decides at the fourth with its
own `hex4` (per-byte `Spec.Grammar.isHex` / `hexVal`); `Model.Hex.decodeFourHex` transcribes `read.rs`
`decode_four_hex_digits` over the generated tables `HEX0` / `HEX1` (sign-bit trick on `i32`); `Spec.Str.hex4Val` is the
statement's reading (RFC 8259 `4HEXDIG`). Per byte the three digit readers agree (256 values, kernel evaluation), hence on
every quadruple — no enumeration of the `2^32` groups.
-/
namespace SJ.Proofs.HexEquiv
open SJ SJ.Model.Machine SJ.Spec.Grammar

/-- per byte: the machine's digit reader is the specification's -/
def digitAgrees (b : UInt8) : Bool :=
  (Model.Machine.hexDigitVal b == Spec.Str.hexDigitVal b) &&
  ((Spec.Str.hexDigitVal b).isSome == isHex b) &&
  (match Spec.Str.hexDigitVal b with | some v => v == Spec.Grammar.hexVal b && decide (v < 16) | none => true)

theorem digitAgrees_all : ∀ b : UInt8, digitAgrees b = true :=
  Bytes256.all256 digitAgrees (by decide +kernel) (by decide +kernel) (by decide +kernel) (by decide +kernel)

theorem hexDigitVal_eq (b : UInt8) : Model.Machine.hexDigitVal b = Spec.Str.hexDigitVal b := by
  have := digitAgrees_all b
  simp only [digitAgrees, Bool.and_eq_true, beq_iff_eq] at this
  exact this.1.1

/-- the specification's digit reader accepts exactly the grammar's `HEXDIG` bytes (`0-9`, `a-f`, `A-F`) … -/
theorem specDigit_none_iff (b : UInt8) : Spec.Str.hexDigitVal b = none ↔ isHex b = false := by
  have := digitAgrees_all b
  simp only [digitAgrees, Bool.and_eq_true, beq_iff_eq] at this
  have h := this.1.2
  cases hv : Spec.Str.hexDigitVal b <;> rw [hv] at h <;> simp at h <;> simp [h]

/-- … and returns the grammar's digit value, below 16 -/
theorem specDigit_some (b : UInt8) (v : Nat) (h : Spec.Str.hexDigitVal b = some v) : v = Spec.Grammar.hexVal b ∧ v < 16 ∧ isHex b = true := by
  have := digitAgrees_all b
  simp only [digitAgrees, Bool.and_eq_true, beq_iff_eq, h, decide_eq_true_eq, Option.isSome_some] at this
  exact ⟨this.2.1, this.2.2, this.1.2.symm⟩

/-- **the machine's four-digit value is the specification's**, on every quadruple of bytes -/
theorem hex4_eq_spec (a b c d : UInt8) : hex4 [a, b, c, d] = Spec.Str.hex4Val a b c d := by
  simp only [hex4, hexDigitVal_eq, Spec.Str.hex4Val]
  cases Spec.Str.hexDigitVal a <;> cases Spec.Str.hexDigitVal b <;> cases Spec.Str.hexDigitVal c <;>
    cases Spec.Str.hexDigitVal d <;> rfl

/-- the accumulator decides only on exactly four bytes -/
theorem hex4_length (l : List UInt8) (h : l.length ≠ 4) : hex4 l = none := by
  match l with
  | [] => rfl
  | [_] => rfl
  | [_, _] => rfl
  | [_, _, _] => rfl
  | [_, _, _, _] => simp at h
  | _ :: _ :: _ :: _ :: _ :: _ => rfl

/-- the specification rejects a group exactly when one of its four bytes is not a hex digit -/
theorem hex4Val_none_iff (a b c d : UInt8) :
    Spec.Str.hex4Val a b c d = none ↔ (isHex a = false ∨ isHex b = false ∨ isHex c = false ∨ isHex d = false) := by
  simp only [← specDigit_none_iff, Spec.Str.hex4Val]
  cases Spec.Str.hexDigitVal a <;> cases Spec.Str.hexDigitVal b <;> cases Spec.Str.hexDigitVal c <;>
    cases Spec.Str.hexDigitVal d <;> simp

/-- on four hex digits the value is the positional one of the grammar (`uniVal`), below `2^16` -/
theorem hex4Val_some (a b c d : UInt8) (ha : isHex a = true) (hb : isHex b = true) (hc : isHex c = true) (hd : isHex d = true) :
    Spec.Str.hex4Val a b c d = some (uniVal a b c d) ∧ uniVal a b c d < 0x10000 := by
  have na : Spec.Str.hexDigitVal a ≠ none := by rw [Ne, specDigit_none_iff]; simp [ha]
  have nb : Spec.Str.hexDigitVal b ≠ none := by rw [Ne, specDigit_none_iff]; simp [hb]
  have nc : Spec.Str.hexDigitVal c ≠ none := by rw [Ne, specDigit_none_iff]; simp [hc]
  have nd : Spec.Str.hexDigitVal d ≠ none := by rw [Ne, specDigit_none_iff]; simp [hd]
  obtain ⟨x, hx⟩ := Option.ne_none_iff_exists'.1 na
  obtain ⟨y, hy⟩ := Option.ne_none_iff_exists'.1 nb
  obtain ⟨z, hz⟩ := Option.ne_none_iff_exists'.1 nc
  obtain ⟨w, hw⟩ := Option.ne_none_iff_exists'.1 nd
  obtain ⟨ex, lx, _⟩ := specDigit_some a x hx
  obtain ⟨ey, ly, _⟩ := specDigit_some b y hy
  obtain ⟨ez, lz, _⟩ := specDigit_some c z hz
  obtain ⟨ew, lw, _⟩ := specDigit_some d w hw
  subst ex ey ez ew
  refine ⟨?_, by unfold uniVal; omega⟩
  simp [Spec.Str.hex4Val, hx, hy, hz, hw, uniVal]

/-- the table-based `decode_four_hex_digits` is the machine's `hex4` (through the specification; `Proofs.ReadMach.hex4_eq`
    is the same statement, proved there for the reader refinements) -/
theorem hex4_eq_decodeFourHex (a b c d : UInt8) : hex4 [a, b, c, d] = Model.Hex.decodeFourHex a b c d := by
  rw [hex4_eq_spec, Proofs.Hex.decodeFourHex_eq]

/-! ## the `\u` sub-states of `stepStr` -/

/-- what `stepStr` does once the fourth byte completed a group of value `n` (`parse_unicode_escape` / `ignore_escape`):
    skipped content forgets it; a lone trailing surrogate is an error, a leading one waits for `\u`, anything else is pushed
    as UTF-8; after a leading surrogate only a trailing one is accepted and the pair is combined -/
def afterGroup (env : Env) (s : St) (st : StrSt) (lead : Option Nat) (n : Nat) : Step :=
  if env.tgt = .ignored then .next { s with mode := .str { st with esc := .none } }
  else
    match lead with
    | none =>
      if 0xDC00 ≤ n && n ≤ 0xDFFF then .err .LoneLeadingSurrogateInHexEscape .incl
      else if 0xD800 ≤ n && n ≤ 0xDBFF then .next { s with mode := .str { st with esc := .lead1 n } }
      else .next { s with mode := .str { st with out := (Spec.Denote.utf8 n).reverse ++ st.out, esc := .none } }
    | some n1 =>
      if n < 0xDC00 || n > 0xDFFF then .err .LoneLeadingSurrogateInHexEscape .incl
      else .next { s with mode := .str { st with
        out := (Spec.Denote.utf8 (0x10000 + (n1 - 0xD800) * 0x400 + (n - 0xDC00))).reverse ++ st.out, esc := .none } }

/-- the first three bytes after `\u` are stored whatever they are (no byte is judged before the fourth: the crate reads the
    four bytes as a block) -/
theorem stepStr_hex_store (env : Env) (s : St) (st : StrSt) (acc : List UInt8) (lead : Option Nat) (b : UInt8)
    (hacc : acc.length < 3) :
    stepStr env s { st with esc := .hex acc lead } b = .next { s with mode := .str { st with esc := .hex (acc ++ [b]) lead } } := by
  have : (acc ++ [b]).length < 4 := by simp; omega
  simp only [stepStr]
  rw [if_pos this]

/-- **the fourth byte**: the machine rejects with `InvalidEscape` exactly when `Spec.Str.hex4Val` is `none`, and otherwise goes
    on with exactly that value -/
theorem stepStr_hex_fourth (env : Env) (s : St) (st : StrSt) (lead : Option Nat) (a b c d : UInt8) :
    stepStr env s { st with esc := .hex [a, b, c] lead } d =
      match Spec.Str.hex4Val a b c d with
      | none => .err .InvalidEscape .incl
      | some n => afterGroup env s st lead n := by
  have h4 := hex4_eq_spec a b c d
  cases hv : Spec.Str.hex4Val a b c d with
  | none =>
    rw [hv] at h4
    simp [stepStr, h4]
  | some n =>
    rw [hv] at h4
    simp only [stepStr, List.cons_append, List.nil_append, List.length_cons, List.length_nil, Nat.lt_irrefl, if_false, h4,
      afterGroup]
    rfl

end SJ.Proofs.HexEquiv
