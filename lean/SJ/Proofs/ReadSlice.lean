import SJ.Model.ReadSlice
import SJ.Proofs.ReadEscape
import SJ.Proofs.LineCol
import SJ.Proofs.Swar
/-!
# `SliceRead` is a lawful reader, and its string loops refine the machine

`A bs r xs k p`: the `SliceRead` state `r` is `(bs, k)` with `k ≤ |bs|` and will deliver `xs = bs[k..]` (no peek
slot: `p = false`). `lawful` proves the laws the generic free functions need of `SlicePos.next` / `peek` /
`discard` and of `SliceRead::decode_hex_escape` (length check first). `parseStrLoop_validate` /
`ignoreStrLoop_spec`: the loops of `SliceRead::parse_str_bytes(.., true, ..)` and `SliceRead::ignore_str` — SWAR
scan to the next escape byte (`scan_split`, from C05's `skipToEscape_eq`), bulk copy of `slice[start..index]`,
borrowed-or-copied result — do what the machine's iterated `stepStr` does byte by byte.
-/
namespace SJ.Proofs.ReadSlice
open SJ SJ.Gen SJ.Model.Machine SJ.Model.LineCol SJ.Model.ReadEscape SJ.Model.ReadSlice SJ.Proofs.ReadMach SJ.Proofs.ReadEscape
open SJ.Proofs.LineCol (take_succ_getElem)

/-- the slice reader over `bs` stands at index `k ≤ |bs|` and will deliver `xs = bs[k..]`; a `SliceRead` has no
    peek slot (`peek()` is read-only), so nothing ever waits -/
def A (bs : Bytes) (r : SliceRead) (xs : Bytes) (k : Nat) (p : Bool) : Prop :=
  r.slice = bs ∧ r.index = k ∧ k ≤ bs.length ∧ xs = bs.drop k ∧ p = false

/-- the index `SliceRead::position()` counts: `position_of_index(self.index)` -/
def pos (r : SliceRead) : Nat := r.index

theorem A.mk' (bs : Bytes) (k : Nat) (h : k ≤ bs.length) : A bs ⟨bs, k⟩ (bs.drop k) k false :=
  ⟨rfl, rfl, h, rfl, rfl⟩

theorem A.eq {bs : Bytes} {r : SliceRead} {xs : Bytes} {k : Nat} {p : Bool} (h : A bs r xs k p) : r = ⟨bs, k⟩ := by
  obtain ⟨h1, h2, _⟩ := h; cases r; simp_all

theorem pos_eq {bs : Bytes} {r : SliceRead} {xs : Bytes} {k : Nat} {p : Bool} (h : A bs r xs k p) :
    pos r = k + (if p then 1 else 0) := by
  obtain ⟨_, h2, _, _, rfl⟩ := h; simp [pos, h2]

theorem drop_nil_len {bs : Bytes} {k : Nat} (hk : k ≤ bs.length) (h : [] = bs.drop k) : k = bs.length := by
  have := congrArg List.length h; simp at this; omega

theorem next_nil {bs : Bytes} {r : SliceRead} {k : Nat} {p : Bool} (h : A bs r [] k p) :
    ∃ r', SlicePos.next r = (none, r') ∧ A bs r' [] k false := by
  have hr := h.eq; subst hr
  obtain ⟨_, _, hk, hx, _⟩ := h
  have := drop_nil_len hk hx
  refine ⟨⟨bs, k⟩, ?_, rfl, rfl, hk, hx, rfl⟩
  simp [SlicePos.next, this]

theorem next_cons {bs : Bytes} {r : SliceRead} {b : UInt8} {xs : Bytes} {k : Nat} {p : Bool} (h : A bs r (b :: xs) k p) :
    ∃ r', SlicePos.next r = (some b, r') ∧ A bs r' xs (k + 1) false := by
  have hr := h.eq; subst hr
  obtain ⟨_, _, hk, hx, _⟩ := h
  obtain ⟨hlt, _, hdrop, hget⟩ := take_succ_getElem bs k b xs hx.symm
  have hgb : bs[k] = b := by rw [List.getElem?_eq_getElem hlt] at hget; exact Option.some.inj hget
  refine ⟨⟨bs, k + 1⟩, ?_, rfl, rfl, hlt, hdrop.symm, rfl⟩
  simp [SlicePos.next, hlt, hgb]

theorem peek_nil {bs : Bytes} {r : SliceRead} {k : Nat} (h : A bs r [] k false) :
    ∃ r', SlicePos.peek r = (none, r') ∧ A bs r' [] k false := by
  have hr := h.eq; subst hr
  obtain ⟨_, _, hk, hx, _⟩ := h
  have := drop_nil_len hk hx
  refine ⟨⟨bs, k⟩, ?_, rfl, rfl, hk, hx, rfl⟩
  simp [SlicePos.peek, this]

theorem peek_cons {bs : Bytes} {r : SliceRead} {b : UInt8} {xs : Bytes} {k : Nat} (h : A bs r (b :: xs) k false) :
    ∃ r' p', SlicePos.peek r = (some b, r') ∧ A bs r' (b :: xs) k p' ∧ A bs (SlicePos.discard r') xs (k + 1) false := by
  have hr := h.eq; subst hr
  obtain ⟨_, _, hk, hx, _⟩ := h
  obtain ⟨hlt, _, hdrop, hget⟩ := take_succ_getElem bs k b xs hx.symm
  have hgb : bs[k] = b := by rw [List.getElem?_eq_getElem hlt] at hget; exact Option.some.inj hget
  refine ⟨⟨bs, k⟩, false, ?_, ⟨rfl, rfl, hk, hx, rfl⟩, rfl, rfl, hlt, hdrop.symm, rfl⟩
  simp [SlicePos.peek, hlt, hgb]

/-- `SliceRead::decode_hex_escape` with fewer than four bytes left: the length check comes first -/
theorem hex_eof {bs : Bytes} {r : SliceRead} {xs : Bytes} {k : Nat} (h : A bs r xs k false) (hl : xs.length < 4) :
    ∃ r', Model.ReadSlice.decodeHexEscape r = .err .EofWhileParsingString r' ∧ A bs r' [] (k + xs.length) false := by
  have hr := h.eq; subst hr
  obtain ⟨_, _, hk, hx, _⟩ := h
  have hlen : k + xs.length = bs.length := by rw [hx]; simp; omega
  refine ⟨⟨bs, bs.length⟩, ?_, rfl, hlen.symm, by omega, by simp [hlen], rfl⟩
  unfold Model.ReadSlice.decodeHexEscape
  simp only [← hx]
  match xs, hl with
  | [], _ => rfl
  | [_], _ => rfl
  | [_, _], _ => rfl
  | [_, _, _], _ => rfl

theorem hex_ok {bs : Bytes} {r : SliceRead} {a b c d : UInt8} {xs : Bytes} {k : Nat}
    (h : A bs r (a :: b :: c :: d :: xs) k false) :
    ∃ r', A bs r' xs (k + 4) false ∧
      Model.ReadSlice.decodeHexEscape r = (match Model.Hex.decodeFourHex a b c d with
        | some n => .ok n r'
        | none => .err .InvalidEscape r') := by
  have hr := h.eq; subst hr
  obtain ⟨_, _, hk, hx, _⟩ := h
  have hd : bs.drop (k + 4) = xs := by
    rw [← List.drop_drop, ← hx]; rfl
  have hlen : k + 4 ≤ bs.length := by
    have := congrArg List.length hx; simp at this; omega
  refine ⟨⟨bs, k + 4⟩, ⟨rfl, rfl, hlen, hd.symm, rfl⟩, ?_⟩
  unfold Model.ReadSlice.decodeHexEscape
  simp only [← hx]
  have ht : (a :: b :: c :: d :: xs).take Gen.sliceHexGroupLen = [a, b, c, d] := rfl
  rw [ht]
  simp only
  cases Model.Hex.decodeFourHex a b c d <;> rfl

/-- **`SliceRead` is a lawful reader** -/
theorem lawful (bs : Bytes) : Lawful Model.ReadSlice.ops (A bs) pos :=
  { pos_eq := pos_eq, next_nil := next_nil, next_cons := next_cons, peek_nil := peek_nil, peek_cons := peek_cons,
    hex_eof := hex_eof, hex_ok := hex_ok }

/-! ## list facts about `&slice[a..b]` and about where `skip_to_escape` stops -/


theorem drop_split (l : Bytes) (a b : Nat) (h : a ≤ b) : l.drop a = (l.take b).drop a ++ l.drop b := by
  conv => lhs; rw [← List.take_append_drop b l]
  rw [List.drop_append]
  congr 1
  by_cases hb : b ≤ l.length
  · rw [List.length_take, Nat.min_eq_left hb, Nat.sub_eq_zero_of_le h]; rfl
  · rw [List.drop_of_length_le (l := l) (by omega)]; simp

theorem sub_append (bs : Bytes) (a b c : Nat) (hab : a ≤ b) (hbc : b ≤ c) : sub bs a c = sub bs a b ++ sub bs b c := by
  unfold sub
  rw [drop_split (bs.take c) a b hab, List.take_take, Nat.min_eq_left hbc]

theorem tw_split (p : UInt8 → Bool) (l : Bytes) :
    ∃ rest, l = l.takeWhile p ++ rest ∧ (∀ b ∈ l.takeWhile p, p b = true) ∧
      (rest = [] ∨ ∃ ch r, rest = ch :: r ∧ p ch = false) := by
  induction l with
  | nil => exact ⟨[], rfl, by simp, .inl rfl⟩
  | cons b l ih =>
    obtain ⟨rest, h1, h2, h3⟩ := ih
    cases hb : p b with
    | true =>
      refine ⟨rest, ?_, ?_, h3⟩
      · simp only [List.takeWhile_cons, hb, if_true, List.cons_append]; rw [← h1]
      · simp only [List.takeWhile_cons, hb, if_true, List.mem_cons]
        rintro x (rfl | hx)
        · exact hb
        · exact h2 x hx
    | false =>
      exact ⟨b :: l, by simp [hb], by simp [hb], .inr ⟨b, l, rfl, hb⟩⟩

theorem scan_split (bs : Bytes) (k : Nat) (hk : k ≤ bs.length) (forbid : Bool) :
    ∃ ys, Model.Swar.skipToEscape bs k forbid = k + ys.length ∧ k + ys.length ≤ bs.length ∧
      bs.drop k = ys ++ bs.drop (k + ys.length) ∧ (∀ b ∈ ys, Spec.Str.stopsScan b forbid = false) ∧
      (k + ys.length < bs.length → ∃ ch rest, bs.drop (k + ys.length) = ch :: rest ∧ Spec.Str.stopsScan ch forbid = true) := by
  rw [Proofs.Swar.skipToEscape_eq bs k forbid hk]
  unfold Spec.Str.firstEscape Spec.Str.runLength
  obtain ⟨rest, h1, h2, h3⟩ := tw_split (fun b => !Spec.Str.stopsScan b forbid) (bs.drop k)
  generalize hys : (bs.drop k).takeWhile (fun b => !Spec.Str.stopsScan b forbid) = ys at h1 h2
  have hlen : ys.length + rest.length = bs.length - k := by
    have := congrArg List.length h1; simp at this; omega
  have hd : bs.drop (k + ys.length) = rest := by
    rw [← List.drop_drop, h1]; simp
  refine ⟨ys, rfl, by omega, by rw [hd]; exact h1, fun b hb => by simpa using h2 b hb, fun hlt => ?_⟩
  rw [hd]
  rcases h3 with rfl | ⟨ch, r, rfl, hch⟩
  · simp at hlen; omega
  · exact ⟨ch, r, rfl, by simpa using hch⟩

theorem sub_eq (bs : Bytes) (k : Nat) (ys rest : Bytes) (h : bs.drop k = ys ++ rest) : sub bs k (k + ys.length) = ys := by
  unfold sub
  rw [List.drop_take, h]; simp

theorem stops_true (b : UInt8) : Spec.Str.stopsScan b true = (b == 0x22 || b == 0x5c || decide (b < 0x20)) := by
  simp [Spec.Str.stopsScan]

/-! ## `SliceRead::parse_str_bytes(scratch, validate = true, result)` against the machine -/

/-- `.map(Reference::Borrowed)` / `.map(Reference::Copied)` -/
def wrap (escaped : Bool) : Res Bytes SliceRead → Res Reference SliceRead
  | .ok b r => .ok (if escaped then .copied b else .borrowed b) r
  | .err c r => .err c r
  | .fuel => .fuel

/-- the loop's outcome `res` is what the machine's `strRun` says: at the closing quote the `result` closure is
    applied to the machine's decoded bytes with the reader right behind the quote, and the reference is borrowed
    exactly when the machine met no backslash; an error carries the same code at the same index -/
def LoopOK (bs : Bytes) (result : SliceRead → Bytes → Res Bytes SliceRead) (res : Res Reference SliceRead) : StrRes → Prop
  | .closed st' j rest => ∃ r', A bs r' rest j false ∧ res = wrap st'.escaped (result r' st'.out.reverse)
  | .err c j => ∃ r' xs', res = .err c r' ∧ A bs r' xs' j false

theorem parseStrLoop_validate (bs : Bytes) (env : Env) (henv : env.tgt = .value) (stk : List Frame)
    (result : SliceRead → Bytes → Res Bytes SliceRead) :
    ∀ (fuel k : Nat) (scratch : Bytes) (start : Nat) (st : StrSt), k ≤ bs.length → start ≤ k → st.esc = .none →
      scratch ++ sub bs start k = st.out.reverse → scratch.isEmpty = !st.escaped → bs.length - k < fuel →
      LoopOK bs result (parseStrLoop true result fuel ⟨bs, k⟩ scratch start) (strRun env stk st k (bs.drop k)) := by
  intro fuel
  induction fuel with
  | zero => intro k scratch start st _ _ _ _ _ h; omega
  | succ fuel ih =>
    intro k scratch start st hk hs hst hinv hemp hfuel
    obtain ⟨ys, he, hle, hdrop, hys, hstop⟩ := scan_split bs k hk true
    have hrun := strRun_run env stk st hst k ys (bs.drop (k + ys.length)) (fun b hb => by
      have := hys b hb; rw [stops_true] at this
      simp only [Bool.or_eq_false_iff, beq_eq_false_iff_ne, decide_eq_false_iff_not] at this
      exact ⟨this.1.1, this.1.2, this.2⟩)
    rw [hdrop, hrun]
    have hsub : scratch ++ sub bs start (k + ys.length) = (ys.reverse ++ st.out).reverse := by
      rw [sub_append bs start k _ hs (by omega), ← List.append_assoc, hinv, sub_eq bs k ys _ hdrop]; simp
    unfold parseStrLoop
    simp only [Model.ReadSlice.skipToEscape, he]
    have hke : k ≤ k + ys.length := Nat.le_add_right _ _
    generalize k + ys.length = e at *
    by_cases hlt : e < bs.length
    · obtain ⟨ch, rest, hd, hch⟩ := hstop hlt
      obtain ⟨_, _, hrest, hget⟩ := take_succ_getElem bs e ch rest hd
      have hgd : bs.getD e 0 = ch := by rw [List.getD_eq_getElem?_getD, hget]; rfl
      have hne : (e == bs.length) = false := by simp; omega
      simp only [hne, Bool.false_eq_true, if_false, hgd]
      rw [hd]
      rw [stops_true] at hch
      by_cases hq : ch = 0x22
      · subst hq
        simp only [beq_self_eq_true, if_true]
        rw [strRun_quote env stk { st with out := ys.reverse ++ st.out } hst]
        refine ⟨⟨bs, e + 1⟩, ⟨rfl, rfl, hlt, hrest.symm, rfl⟩, ?_⟩
        cases hsc : scratch.isEmpty with
        | true =>
          have hesc : st.escaped = false := by rw [hsc] at hemp; simpa using hemp.symm
          have hnil : scratch = [] := by simpa using hsc
          simp only [if_true, hesc]
          rw [hnil, List.nil_append] at hsub
          rw [hsub]
          cases result ⟨bs, e + 1⟩ (ys.reverse ++ st.out).reverse <;> rfl
        | false =>
          have hesc : st.escaped = true := by rw [hsc] at hemp; simpa using hemp.symm
          simp only [Bool.false_eq_true, if_false, hesc]
          rw [hsub]
          cases result ⟨bs, e + 1⟩ (ys.reverse ++ st.out).reverse <;> rfl
      · have hq' : (ch == 0x22) = false := by simpa using hq
        simp only [hq', Bool.false_eq_true, if_false]
        by_cases hb : ch = 0x5c
        · subst hb
          simp only [beq_self_eq_true, if_true]
          rw [strRun_backslash env stk { st with out := ys.reverse ++ st.out } hst]
          obtain ⟨f, rfl⟩ : ∃ f, fuel = f + 1 := ⟨fuel - 1, by omega⟩
          have hA1 : A bs ⟨bs, e + 1⟩ rest (e + 1) false := ⟨rfl, rfl, hlt, hrest.symm, rfl⟩
          have hag := parseEscape_validate (lawful bs) env stk henv f hA1
            { st with out := ys.reverse ++ st.out, esc := .bs, escaped := true } rfl
          rw [hsub]
          rcases hag with ⟨sc, r', xs', k', e2, hA', hl', hne', hrun'⟩ | ⟨c, r', xs', j', e2, hA', hrun'⟩
          · simp only at e2
            simp only [e2, hrun']
            have hr' := hA'.eq; subst hr'
            obtain ⟨_, _, hk', hx', _⟩ := hA'
            subst hx'
            have h1 : rest.length = bs.length - (e + 1) := by rw [← hrest]; simp
            have h2 : (bs.drop k').length = bs.length - k' := by simp
            rw [h1, h2] at hl'
            have := ih k' sc k' { st with out := sc.reverse, esc := .none, escaped := true } hk' (Nat.le_refl _) rfl
              (by simp [sub]) (by cases sc <;> simp_all) (by omega)
            simpa using this
          · simp only at e2
            simp only [e2, hrun', LoopOK]
            exact ⟨r', _, rfl, hA'⟩
        · have hb' : (ch == 0x5c) = false := by simpa using hb
          simp only [hb', Bool.false_eq_true, if_false]
          have hc : ch < 0x20 := by simpa [hq', hb'] using hch
          rw [strRun_ctrl env stk { st with out := ys.reverse ++ st.out } hst e ch rest hq hb hc]
          exact ⟨⟨bs, e + 1⟩, _, rfl, A.mk' bs (e + 1) hlt⟩
    · have hee : e = bs.length := by omega
      subst hee
      simp only [beq_self_eq_true, if_true, List.drop_length, strRun_nil]
      exact ⟨⟨bs, bs.length⟩, _, rfl, A.mk' bs bs.length (Nat.le_refl _)⟩

/-! ## `SliceRead::ignore_str` against the machine (skipped content) -/

def LoopOKI (bs : Bytes) (res : Res Unit SliceRead) : StrRes → Prop
  | .closed _ j rest => ∃ r', A bs r' rest j false ∧ res = .ok () r'
  | .err c j => ∃ r' xs', res = .err c r' ∧ A bs r' xs' j false

theorem ignoreStrLoop_spec (bs : Bytes) (env : Env) (henv : env.tgt = .ignored) (stk : List Frame) :
    ∀ (fuel k : Nat) (st : StrSt), k ≤ bs.length → st.esc = .none → bs.length - k < fuel →
      LoopOKI bs (ignoreStrLoop fuel ⟨bs, k⟩) (strRun env stk st k (bs.drop k)) := by
  intro fuel
  induction fuel with
  | zero => intro k st _ _ h; omega
  | succ fuel ih =>
    intro k st hk hst hfuel
    obtain ⟨ys, he, hle, hdrop, hys, hstop⟩ := scan_split bs k hk true
    have hrun := strRun_run env stk st hst k ys (bs.drop (k + ys.length)) (fun b hb => by
      have := hys b hb; rw [stops_true] at this
      simp only [Bool.or_eq_false_iff, beq_eq_false_iff_ne, decide_eq_false_iff_not] at this
      exact ⟨this.1.1, this.1.2, this.2⟩)
    rw [hdrop, hrun]
    unfold ignoreStrLoop
    simp only [Model.ReadSlice.skipToEscape, he]
    have hke : k ≤ k + ys.length := Nat.le_add_right _ _
    generalize k + ys.length = e at *
    by_cases hlt : e < bs.length
    · obtain ⟨ch, rest, hd, hch⟩ := hstop hlt
      obtain ⟨_, _, hrest, hget⟩ := take_succ_getElem bs e ch rest hd
      have hgd : bs.getD e 0 = ch := by rw [List.getD_eq_getElem?_getD, hget]; rfl
      have hne : (e == bs.length) = false := by simp; omega
      simp only [hne, Bool.false_eq_true, if_false, hgd]
      rw [hd]
      rw [stops_true] at hch
      by_cases hq : ch = 0x22
      · subst hq
        simp only [beq_self_eq_true, if_true]
        rw [strRun_quote env stk { st with out := ys.reverse ++ st.out } hst]
        exact ⟨⟨bs, e + 1⟩, ⟨rfl, rfl, hlt, hrest.symm, rfl⟩, rfl⟩
      · have hq' : (ch == 0x22) = false := by simpa using hq
        simp only [hq', Bool.false_eq_true, if_false]
        by_cases hb : ch = 0x5c
        · subst hb
          simp only [beq_self_eq_true, if_true]
          rw [strRun_backslash env stk { st with out := ys.reverse ++ st.out } hst]
          have hA1 : A bs ⟨bs, e + 1⟩ rest (e + 1) false := ⟨rfl, rfl, hlt, hrest.symm, rfl⟩
          have hag := ignoreEscape_spec (lawful bs) env stk henv hA1
            { st with out := ys.reverse ++ st.out, esc := .bs, escaped := true } rfl
          rcases hag with ⟨r', xs', k', st', e2, hA', hl', hst', hrun'⟩ | ⟨c, r', xs', j', e2, hA', hrun'⟩
          · simp only [e2, hrun']
            have hr' := hA'.eq; subst hr'
            obtain ⟨_, _, hk', hx', _⟩ := hA'
            subst hx'
            have h1 : rest.length = bs.length - (e + 1) := by rw [← hrest]; simp
            have h2 : (bs.drop k').length = bs.length - k' := by simp
            rw [h1, h2] at hl'
            exact ih k' st' hk' hst' (by omega)
          · simp only [e2, hrun', LoopOKI]
            exact ⟨r', _, rfl, hA'⟩
        · have hb' : (ch == 0x5c) = false := by simpa using hb
          simp only [hb', Bool.false_eq_true, if_false]
          have hc : ch < 0x20 := by simpa [hq', hb'] using hch
          rw [strRun_ctrl env stk { st with out := ys.reverse ++ st.out } hst e ch rest hq hb hc]
          exact ⟨⟨bs, e + 1⟩, _, rfl, A.mk' bs (e + 1) hlt⟩
    · have hee : e = bs.length := by omega
      subst hee
      simp only [beq_self_eq_true, if_true, List.drop_length, strRun_nil]
      exact ⟨⟨bs, bs.length⟩, _, rfl, A.mk' bs bs.length (Nat.le_refl _)⟩

end SJ.Proofs.ReadSlice
