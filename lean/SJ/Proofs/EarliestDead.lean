import SJ.Proofs.EarliestMain
/-!
# A state doomed by the UTF-8 side condition has no accepted completion

The converse direction of `viable_strVal`, in the simple case used to certify that the side
condition `SideOK` of `c11_earliest` cannot be dropped: if no extension of the text collected so far
is well-formed UTF-8, a `Value` string read from a byte source can never be closed.
-/
namespace SJ.Proofs.Earliest
open SJ SJ.Gen SJ.Model.Machine SJ.Proofs.Machine SJ.Proofs.Complete
open SJ.Spec.Utf8 (validUtf8)

/-- no extension of the collected text is well-formed -/
def Utf8Dead (out : Bytes) : Prop := ∀ ext, validUtf8 (out.reverse ++ ext) = false

theorem Utf8Dead.push {out : Bytes} (h : Utf8Dead out) (x : Bytes) : Utf8Dead (x ++ out) := by
  intro ext
  have := h (x.reverse ++ ext)
  simpa using this

theorem Utf8Dead.cons {out : Bytes} (h : Utf8Dead out) (b : UInt8) : Utf8Dead (b :: out) :=
  h.push [b]

/-- `0xFF` starts no UTF-8 sequence -/
theorem utf8Dead_ff : Utf8Dead [0xff] := by
  intro ext
  show validUtf8 (0xff :: ext) = false
  rw [validUtf8.eq_def]
  simp

theorem endStr_dead (env : Env) (hv : env.tgt = .value) (hs : env.src ≠ .str) (s : St) (st : StrSt)
    (hd : Utf8Dead st.out) (s' : St) : endStr env s st ≠ .next s' := by
  have h0 : validUtf8 st.out.reverse = false := by simpa using hd []
  have hs' : (env.src != .str) = true := by simpa using hs
  unfold endStr
  simp [hv, hs', h0]

/-- a step inside a doomed string stays inside a doomed string -/
theorem stepStr_dead (env : Env) (hv : env.tgt = .value) (hs : env.src ≠ .str) (s : St) (st : StrSt)
    (hd : Utf8Dead st.out) (b : UInt8) (s' : St) (h : stepStr env s st b = .next s') :
    ∃ st', s' = { s with mode := .str st' } ∧ Utf8Dead st'.out := by
  unfold stepStr at h
  simp only at h
  repeat' split at h
  all_goals first
    | (simp at h; done)
    | (simp only [Step.next.injEq] at h; subst h
       refine ⟨_, rfl, ?_⟩
       first
         | exact hd.push _
         | exact hd.cons _
         | exact hd)
    | exact absurd h (endStr_dead env hv hs s st hd s')

theorem step_dead (env : Env) (hv : env.tgt = .value) (hs : env.src ≠ .str) (fs : List Frame)
    (st : StrSt) (hd : Utf8Dead st.out) (b : UInt8) (s' : St)
    (h : step env ⟨.str st, fs⟩ b = .ok s') : ∃ st', s' = ⟨.str st', fs⟩ ∧ Utf8Dead st'.out := by
  have h1 : step1 env ⟨.str st, fs⟩ b = stepStr env ⟨.str st, fs⟩ st b := rfl
  unfold step at h
  rw [h1] at h
  split at h
  · rename_i s1 hs1
    simp only [Except.ok.injEq] at h; subst h
    exact stepStr_dead env hv hs _ st hd b s1 hs1
  · simp at h
  · rename_i s1 hs1; exact absurd hs1 (Sound.stepStr_not_again env _ st b s1)

theorem feeds_dead (env : Env) (hv : env.tgt = .value) (hs : env.src ≠ .str) (fs : List Frame)
    (ys : Bytes) : ∀ (st : StrSt) (s' : St), Utf8Dead st.out → Feeds env ⟨.str st, fs⟩ ys s' →
      ∃ st', s' = ⟨.str st', fs⟩ := by
  induction ys with
  | nil => intro st s' _ h; simp only [Feeds, feedS, Except.ok.injEq] at h; exact ⟨st, h.symm⟩
  | cons b bs ih =>
    intro st s' hd h
    unfold Feeds at h
    simp only [feedS] at h
    cases hst : step env ⟨.str st, fs⟩ b with
    | ok s1 =>
      rw [hst] at h
      obtain ⟨st1, rfl, hd1⟩ := step_dead env hv hs fs st hd b s1 hst
      exact ih st1 s' hd1 h
    | error e => rw [hst] at h; cases h

/-- **a string doomed by the UTF-8 check is not viable** -/
theorem not_viable_of_utf8Dead (env : Env) (hv : env.tgt = .value) (hs : env.src ≠ .str)
    (fs : List Frame) (st : StrSt) (hd : Utf8Dead st.out) : ¬ Viable env ⟨.str st, fs⟩ := by
  rintro ⟨ys, s', v, hf, hfin⟩
  obtain ⟨st', rfl⟩ := feeds_dead env hv hs fs ys st s' hd hf
  simp [finish, finishMode] at hfin

/-- splitting a feed -/
theorem feeds_split {env : Env} {s s'' : St} {xs ys : Bytes} (h : Feeds env s (xs ++ ys) s'') :
    ∃ s', Feeds env s xs s' ∧ Feeds env s' ys s'' := by
  induction xs generalizing s with
  | nil => exact ⟨s, Feeds.nil _ _, h⟩
  | cons b bs ih =>
    unfold Feeds at h
    simp only [List.cons_append, feedS] at h
    cases hst : step env s b with
    | ok s1 =>
      rw [hst] at h
      obtain ⟨s', h1, h2⟩ := ih h
      exact ⟨s', Feeds.cons hst h1, h2⟩
    | error e => rw [hst] at h; cases h

theorem feeds_det {env : Env} {s s1 s2 : St} {xs : Bytes} (h1 : Feeds env s xs s1)
    (h2 : Feeds env s xs s2) : s1 = s2 := by
  unfold Feeds at h1 h2; rw [h1] at h2; exact Except.ok.inj h2

/-- no continuation of a prefix that leads into a doomed string is accepted -/
theorem dead_prefix (env : Env) (hv : env.tgt = .value) (hs : env.src ≠ .str) (p : Bytes)
    (st : StrSt) (fs : List Frame) (hp : Feeds env init p ⟨.str st, fs⟩) (hd : Utf8Dead st.out) :
    ∀ ys v, parseTop env (p ++ ys) ≠ .ok v := by
  intro ys v h
  obtain ⟨s'', hf, hfin⟩ := (run_ok_iff env init 0 (p ++ ys) v).mp h
  obtain ⟨s', h1, h2⟩ := feeds_split hf
  have := feeds_det h1 hp
  subst this
  exact not_viable_of_utf8Dead env hv hs fs st hd ⟨ys, s'', v, h2, hfin⟩

end SJ.Proofs.Earliest
