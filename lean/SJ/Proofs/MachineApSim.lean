import SJ.Proofs.MachineApErase
/-!
# `MachineAp` against the machine on the same bytes

`R a m`: the state `a` of `MachineAp` and the state `m` of the machine after the same bytes — equal up to the collected
values outside a token object, and inside one: `MachineAp` in a token phase, the machine reading the member
`"<token>": <value>` of an ordinary object. `sim_step`: a successful step of `MachineAp` is a successful step of the machine.
Hence `ap_sound`: what the faithful model accepts, the machine accepts (so it is an RFC 8259 text meeting the side
conditions). `ap_iff`: and conversely, a text the machine accepts is accepted by `MachineAp` iff at every point where the
machine has read a first key equal to the token, the rest of that object has the `TokenTail` shape.
-/
namespace SJ.Proofs.MachineAp
open SJ SJ.Gen SJ.Model SJ.Model.Machine SJ.Proofs.Sound
open SJ.Spec.Grammar (StrItem StrWF strBytes Ws IsNumber)
open SJ.Spec.Denote (decodeItems)
open SJ.Spec.PrivateToken (TokenTail)
open SJ.Model.MachineAp (triggered liftStep ofMachine TPhase stepTok fromStr Fail)
open SJ.Proofs.Complete (Feeds feedS)

/-! ## `step`, `finish`, `triggered` on related states -/

def ResEqv : Except (Code × Adj) St → Except (Code × Adj) St → Prop
  | .ok s, .ok s' => Eqv s s'
  | .error e, .error e' => e = e'
  | _, _ => False

theorem step_eqv (env : Env) {s s' : St} (h : Eqv s s') (b : UInt8) : ResEqv (step env s b) (step env s' b) := by
  have h1 := step1_eqv env h b
  unfold step
  cases hs : step1 env s b with
  | next t =>
    cases hs' : step1 env s' b with
    | next t' => rw [hs, hs'] at h1; exact h1
    | again t' => rw [hs, hs'] at h1; exact h1.elim
    | err c a => rw [hs, hs'] at h1; exact h1.elim
  | err c a =>
    cases hs' : step1 env s' b with
    | next t' => rw [hs, hs'] at h1; exact h1.elim
    | again t' => rw [hs, hs'] at h1; exact h1.elim
    | err c' a' => rw [hs, hs'] at h1; obtain ⟨rfl, rfl⟩ := h1; rfl
  | again t =>
    cases hs' : step1 env s' b with
    | next t' => rw [hs, hs'] at h1; exact h1.elim
    | err c a => rw [hs, hs'] at h1; exact h1.elim
    | again t' =>
      rw [hs, hs'] at h1
      have h2 := step1_eqv env h1 b
      simp only
      cases ht : step1 env t b with
      | next u =>
        cases ht' : step1 env t' b with
        | next u' => rw [ht, ht'] at h2; exact h2
        | again u' => rw [ht, ht'] at h2; exact h2.elim
        | err c a => rw [ht, ht'] at h2; exact h2.elim
      | err c a =>
        cases ht' : step1 env t' b with
        | next u' => rw [ht, ht'] at h2; exact h2.elim
        | again u' => rw [ht, ht'] at h2; exact h2.elim
        | err c' a' => rw [ht, ht'] at h2; obtain ⟨rfl, rfl⟩ := h2; rfl
      | again u =>
        cases ht' : step1 env t' b with
        | next u' => rw [ht, ht'] at h2; exact h2.elim
        | err c a => rw [ht, ht'] at h2; exact h2.elim
        | again u' => rfl

theorem finishMode_ok (env : Env) (s : St) (v : JV) (h : finishMode env s = .ok v) : s.mode = .done v := by
  unfold finishMode at h
  split at h <;> first | (simp only [Except.ok.injEq] at h; subst h; assumption) | (simp only [reduceCtorEq] at h) | cases h

theorem finishMode_eqv (env : Env) {s s' : St} (h : Eqv s s') :
    (∃ v, finishMode env s = .ok v) → ∃ v', finishMode env s' = .ok v' := by
  rintro ⟨v, hv⟩
  have hm := finishMode_ok env s v hv
  obtain ⟨hmm, _⟩ := h
  rw [hm] at hmm
  cases hm' : s'.mode <;> rw [hm'] at hmm <;> simp only [ModeEqv] at hmm
  rename_i v'
  exact ⟨v', by unfold finishMode; rw [hm']⟩

theorem eqv_symm {s s' : St} (h : Eqv s s') : Eqv s' s := by
  obtain ⟨m, fs⟩ := s
  obtain ⟨m', fs'⟩ := s'
  obtain ⟨hm, hs⟩ := h
  simp only at hm hs
  refine ⟨?_, ?_⟩
  · show ModeEqv m' m
    cases m <;> cases m' <;> simp only [ModeEqv] at hm ⊢ <;> first | exact hm.symm | trivial
  · show StackEqv fs' fs
    clear hm
    induction hs with
    | nil => exact .nil
    | cons hf _ ih =>
      refine .cons ?_ ih
      cases hf with
      | arr es es' => exact .arr _ _
      | obj ms ms' k hi => exact .obj _ _ k hi.symm

theorem finish_not_num (env : Env) (a : Mode) (st : List Frame) (hn : ∀ n, a ≠ .num n) :
    finish env ⟨a, st⟩ = finishMode env ⟨a, st⟩ := by
  unfold finish
  cases a <;> first | rfl | exact absurd rfl (hn _)

theorem finish_eqv (env : Env) {s s' : St} (h : Eqv s s') :
    (∃ v, finish env s = .ok v) → ∃ v', finish env s' = .ok v' := by
  obtain ⟨m, fs⟩ := s
  obtain ⟨m', fs'⟩ := s'
  have h0 := h
  obtain ⟨hm, hs⟩ := h
  simp only at hm hs
  by_cases hnum : ∃ n, m = .num n
  · obtain ⟨n, rfl⟩ := hnum
    cases m' <;> simp only [ModeEqv] at hm
    subst hm
    rintro ⟨v, hv⟩
    have he := eqv_endNumber env (s := ⟨.num n, fs⟩) (s' := ⟨.num n, fs'⟩) hs n
    unfold numFinish at he
    unfold finish at hv ⊢
    simp only at hv ⊢
    cases hph : n.phase <;> simp only [hph] at hv ⊢ <;> first | (cases hv; done) | skip
    all_goals
      cases h1 : endNumber env ⟨.num n, fs⟩ n with
      | error e => rw [h1] at hv; obtain ⟨c, a⟩ := e; cases hv
      | ok t =>
        rw [h1] at hv he
        cases h2 : endNumber env ⟨.num n, fs'⟩ n with
        | error e => rw [h2] at he; obtain ⟨c, a⟩ := e; exact he.elim
        | ok t' =>
          rw [h2] at he
          simp only at hv ⊢
          exact finishMode_eqv env he ⟨v, hv⟩
  · have hn : ∀ n, m ≠ .num n := fun n hx => hnum ⟨n, hx⟩
    have hn' : ∀ n, m' ≠ .num n := by
      intro n hx
      subst hx
      cases m <;> simp only [ModeEqv] at hm
      exact hn _ rfl
    rw [finish_not_num env m fs hn, finish_not_num env m' fs' hn']
    exact finishMode_eqv env h0

theorem triggered_eqv (env : Env) {s s' : St} (h : Eqv s s') (b : UInt8) :
    (∀ fs, triggered env s b = some fs → ∃ fs', triggered env s' b = some fs' ∧ StackEqv fs fs') ∧
    (triggered env s b = none → triggered env s' b = none) := by
  have key : ∀ {t t' : St}, Eqv t t' → ∀ fs, triggered env t b = some fs →
      ∃ fs', triggered env t' b = some fs' ∧ StackEqv fs fs' := by
    intro t t' ht fs hf
    obtain ⟨hap, hv, hb, hm, hst⟩ := triggered_some hf
    obtain ⟨m, st⟩ := t
    obtain ⟨m', st'⟩ := t'
    obtain ⟨hmm, hss⟩ := ht
    simp only at hm hst hmm hss
    subst hm hst
    cases m' <;> simp only [ModeEqv] at hmm
    cases hss with
    | cons hf' hr =>
      cases hf' with
      | obj ms ms' k hi =>
        have : ms' = [] := hi.mp rfl
        subst this
        refine ⟨_, ?_, hr⟩
        unfold triggered
        simp [hap, hv, hb]
  refine ⟨key h, fun hn => ?_⟩
  cases ht : triggered env s' b with
  | none => rfl
  | some fs' =>
    have hsym : Eqv s' s := eqv_symm h
    obtain ⟨fs, hfs, _⟩ := key hsym fs' ht
    rw [hn] at hfs; cases hfs

/-! ## the simulation relation -/

inductive R : ASt → St → Prop
  | base {s s' : St} : Eqv s s' → R (.base s) s'
  | val {fs fs' : List Frame} : StackEqv fs fs' → R (.tok .val fs) ⟨.val .objVal, .obj [] Model.MachineAp.token :: fs'⟩
  | str {st : StrSt} {fs fs' : List Frame} : st.isKey = false → StackEqv fs fs' →
      R (.tok (.str st) fs) ⟨.str st, .obj [] Model.MachineAp.token :: fs'⟩
  | otherLit {rest : Bytes} {v v' : JV} {fs fs' : List Frame} : StackEqv fs fs' →
      R (.tok (.other ⟨.lit rest v, []⟩) fs) ⟨.lit rest v', .obj [] Model.MachineAp.token :: fs'⟩
  | otherNum {n : NumSt} {fs fs' : List Frame} : StackEqv fs fs' →
      R (.tok (.other ⟨.num n, []⟩) fs) ⟨.num n, .obj [] Model.MachineAp.token :: fs'⟩
  | endMap {txt : Bytes} {ms' : List (Bytes × JV)} {fs fs' : List Frame} : ms' ≠ [] → StackEqv fs fs' →
      R (.tok (.endMap txt) fs) ⟨.afterMember, .obj ms' Model.MachineAp.token :: fs'⟩

theorem astep_base_triggered (env : Env) (s : St) (b : UInt8) (fs : List Frame) (h : triggered env s b = some fs) :
    astep env (.base s) b = .ok (.tok .val fs) := by
  show Model.MachineAp.step env _ b = _
  unfold Model.MachineAp.step Model.MachineAp.step1
  simp [h]

theorem astep_base_free (env : Env) (s : St) (b : UInt8) (h : triggered env s b = none) :
    astep env (.base s) b = liftRes (step env s b) := step_base_eq env s b h

/-- a scalar that is neither a string nor a container starts a literal or a number, whatever the stack -/
theorem startValue_scalar (env : Env) (s : St) (b : UInt8) (t : St) (hq : (b == 0x22) = false)
    (hc : (b == 0x5b || b == 0x7b) = false) (h : startValue env s b = .next t) :
    (∃ rest v, t = { s with mode := .lit rest v } ∧ ∀ s' : St, startValue env s' b = .next { s' with mode := .lit rest v }) ∨
    (∃ n, t = { s with mode := .num n } ∧ ∀ s' : St, startValue env s' b = .next { s' with mode := .num n }) := by
  simp only [Bool.or_eq_false_iff] at hc
  unfold startValue at h
  by_cases h1 : (b == 0x6e) = true
  · simp only [h1, if_true, Step.next.injEq] at h
    exact .inl ⟨_, _, h.symm, fun s' => by unfold startValue; simp only [h1, if_true]⟩
  simp only [h1, Bool.false_eq_true, if_false] at h
  by_cases h2 : (b == 0x74) = true
  · simp only [h2, if_true, Step.next.injEq] at h
    exact .inl ⟨_, _, h.symm, fun s' => by unfold startValue; simp only [h1, h2, Bool.false_eq_true, if_false, if_true]⟩
  simp only [h2, Bool.false_eq_true, if_false] at h
  by_cases h3 : (b == 0x66) = true
  · simp only [h3, if_true, Step.next.injEq] at h
    exact .inl ⟨_, _, h.symm, fun s' => by unfold startValue; simp only [h1, h2, h3, Bool.false_eq_true, if_false, if_true]⟩
  simp only [h3, Bool.false_eq_true, if_false] at h
  by_cases h4 : (b == 0x2d) = true
  · simp only [h4, if_true, Step.next.injEq] at h
    exact .inr ⟨_, h.symm, fun s' => by unfold startValue; simp only [h1, h2, h3, h4, Bool.false_eq_true, if_false, if_true]⟩
  simp only [h4, Bool.false_eq_true, if_false] at h
  by_cases h5 : (b == 0x30) = true
  · simp only [h5, if_true, Step.next.injEq] at h
    exact .inr ⟨_, h.symm, fun s' => by unfold startValue; simp only [h1, h2, h3, h4, h5, Bool.false_eq_true, if_false, if_true]⟩
  simp only [h5, Bool.false_eq_true, if_false] at h
  by_cases h6 : isDigit b = true
  · simp only [h6, if_true, Step.next.injEq] at h
    exact .inr ⟨_, h.symm, fun s' => by
      unfold startValue; simp only [h1, h2, h3, h4, h5, h6, Bool.false_eq_true, if_false, if_true]⟩
  simp only [h6, Bool.false_eq_true, if_false, hq, hc.1, hc.2] at h
  cases h

theorem step_of_str (env : Env) (st : StrSt) (stk : List Frame) (b : UInt8) (t : St)
    (h : stepStr env ⟨.str st, stk⟩ st b = .next t) : step env ⟨.str st, stk⟩ b = .ok t := by
  simp [step, step1, h]

/-- **a successful step of `MachineAp` is a successful step of the machine** -/
theorem sim_step (env : Env) {a a' : ASt} {m : St} (b : UInt8) (hr : R a m) (hs : astep env a b = .ok a') :
    ∃ m', step env m b = .ok m' ∧ R a' m' := by
  cases hr with
  | @base s _ he =>
    cases ht : triggered env s b with
    | none =>
      rw [astep_base_free env s b ht] at hs
      have h1 := step_eqv env he b
      cases h2 : step env s b with
      | error e => rw [h2] at hs; obtain ⟨c, a⟩ := e; cases hs
      | ok s1 =>
        rw [h2] at hs h1
        simp only [liftRes, Except.ok.injEq] at hs
        subst hs
        cases h3 : step env m b with
        | error e => rw [h3] at h1; exact h1.elim
        | ok s1' => rw [h3] at h1; exact ⟨s1', rfl, .base h1⟩
    | some fs =>
      rw [astep_base_triggered env s b fs ht] at hs
      simp only [Except.ok.injEq] at hs
      subst hs
      obtain ⟨fs', ht', hfs⟩ := (triggered_eqv env he b).1 fs ht
      obtain ⟨_, _, hb, hm, hst⟩ := triggered_some ht'
      obtain ⟨m', stk'⟩ := m
      simp only at hm hst
      subst hm hst hb
      exact ⟨_, SJ.Proofs.Complete.step_colon env _, .val hfs⟩
  | @val fs fs' hfs =>
    by_cases hw : isWs b = true
    · rw [step_val_ws env fs b hw] at hs
      simp only [Except.ok.injEq] at hs; subst hs
      exact ⟨_, SJ.Proofs.Complete.step_ws env ⟨.val .objVal, _⟩ trivial b hw, .val hfs⟩
    · have hw' : isWs b = false := by simpa using hw
      by_cases hq : (b == 0x22) = true
      · have : b = 0x22 := by simpa using hq
        subst this
        rw [step_val_quote env fs] at hs
        simp only [Except.ok.injEq] at hs; subst hs
        exact ⟨_, SJ.Proofs.Complete.step_quote_open env .objVal _, .str rfl hfs⟩
      · have hq' : (b == 0x22) = false := by simpa using hq
        by_cases hc : (b == 0x5b || b == 0x7b) = true
        · rw [step_val_container env fs b hc] at hs; cases hs
        · have hc' : (b == 0x5b || b == 0x7b) = false := by simpa using hc
          rw [step_val_scalar env fs b hw' hq' hc'] at hs
          cases h1 : startValue env ⟨.val .top, []⟩ b with
          | err c a => rw [h1] at hs; cases hs
          | again t => rw [h1] at hs; cases hs
          | next t =>
            rw [h1] at hs
            simp only [Except.ok.injEq] at hs; subst hs
            have h5d : (b == 0x5d) = false := by
              cases hx : (b == 0x5d) with
              | false => rfl
              | true =>
                have : b = 0x5d := by simpa using hx
                subst this
                have : startValue env ⟨.val .top, []⟩ 0x5d = .err .ExpectedSomeValue .incl := by
                  simp [startValue, isDigit]
                rw [this] at h1; cases h1
            rcases startValue_scalar env _ b t hq' hc' h1 with ⟨rest, v, rfl, hall⟩ | ⟨n, rfl, hall⟩
            · exact ⟨_, SJ.Proofs.Complete.step_val env .objVal _ b _ hw' h5d (hall _), .otherLit hfs⟩
            · exact ⟨_, SJ.Proofs.Complete.step_val env .objVal _ b _ hw' h5d (hall _), .otherNum hfs⟩
  | @str st fs fs' hk hfs =>
    rw [step_str env fs st b] at hs
    rcases stepStr_cases env st b with ⟨st', hk', he⟩ | he | ⟨c, a, he⟩
    · rw [he env _ rfl] at hs
      simp only [Except.ok.injEq] at hs; subst hs
      exact ⟨_, step_of_str env st _ b _ (he env _ rfl), .str (hk' ▸ hk) hfs⟩
    · rw [he env _ rfl] at hs
      cases h1 : endStr env ⟨.str st, []⟩ st with
      | err c a => rw [h1] at hs; cases hs
      | again t => rw [h1] at hs; cases hs
      | next t =>
        rw [h1] at hs
        obtain ⟨_, rfl⟩ := endStr_scratch env _ st t h1
        -- the machine closes the string as the value of the member
        have hm : endStr env ⟨.str st, .obj [] Model.MachineAp.token :: fs'⟩ st =
            .next ⟨.afterMember, .obj [(Model.MachineAp.token, if env.tgt = .value then .str st.out.reverse else .null)]
              Model.MachineAp.token :: fs'⟩ := by
          unfold endStr at h1 ⊢
          simp only at h1 ⊢
          split at h1
          · cases h1
          · rename_i hbad
            simp only [hbad, if_false, hk, Bool.false_eq_true]
            rfl
        by_cases hv : env.tgt = .value
        · simp only [hv, if_true] at hs hm
          cases hf : fromStr st.out.reverse with
          | error e => rw [hf] at hs; obtain ⟨c, k⟩ := e; cases hs
          | ok u =>
            cases u
            rw [hf] at hs
            simp only [Except.ok.injEq] at hs; subst hs
            exact ⟨_, step_of_str env st _ b _ ((he env _ rfl).trans hm), .endMap (by simp) hfs⟩
        · simp only [hv, if_false] at hs; cases hs
    · rw [he env _ rfl] at hs; cases hs
  | @otherLit rest v v' fs fs' hfs =>
    rw [step_other env fs _ b] at hs
    cases rest with
    | nil => simp only [step1] at hs; cases hs
    | cons e es =>
      simp only [step1] at hs
      by_cases hbe : (b == e) = true
      · simp only [hbe, if_true] at hs
        by_cases hes : es.isEmpty = true
        · simp only [hes, if_true, complete] at hs; cases hs
        · simp only [hes, Bool.false_eq_true, if_false, Except.ok.injEq] at hs
          subst hs
          refine ⟨⟨.lit es v', _⟩, ?_, .otherLit hfs⟩
          simp [step, step1, hbe, hes]
      · simp only [hbe, Bool.false_eq_true, if_false] at hs; cases hs
  | @otherNum n fs fs' hfs =>
    rw [step_other env fs _ b] at hs
    simp only [step1] at hs
    rcases stepNum_cases env n b with ⟨n', he⟩ | he | ⟨c, a, he⟩
    · rw [he env _ rfl rfl] at hs
      simp only [Except.ok.injEq] at hs; subst hs
      refine ⟨⟨.num n', _⟩, ?_, .otherNum hfs⟩
      simp [step, step1, he env ⟨.num n, _⟩ rfl rfl]
    · rw [he env _ rfl rfl] at hs
      unfold numFinish at hs
      cases h1 : endNumber env ⟨.num n, []⟩ n with
      | ok t => rw [h1] at hs; cases hs
      | error e => rw [h1] at hs; obtain ⟨c, a⟩ := e; cases hs
    · rw [he env _ rfl rfl] at hs; cases hs
  | @endMap txt ms' fs fs' hne hfs =>
    by_cases hw : isWs b = true
    · rw [step_endMap_ws env fs txt b hw] at hs
      simp only [Except.ok.injEq] at hs; subst hs
      exact ⟨_, SJ.Proofs.Complete.step_ws env ⟨.afterMember, _⟩ trivial b hw, .endMap hne hfs⟩
    · have hw' : isWs b = false := by simpa using hw
      by_cases h1 : (b == 0x7d) = true
      · have : b = 0x7d := by simpa using h1
        subst this
        rw [step_endMap_close env fs txt] at hs
        simp only [Except.ok.injEq] at hs; subst hs
        exact ⟨_, SJ.Proofs.Complete.step_close_obj env ms' _ fs', .base (eqv_complete hfs _ _)⟩
      · by_cases h2 : (b == 0x2c) = true
        · have : b = 0x2c := by simpa using h2
          subst this
          rw [step_endMap_comma env fs txt] at hs; cases hs
        · rw [step_endMap_other env fs txt b hw' (by simpa using h1) (by simpa using h2)] at hs; cases hs

/-! ## runs: what `MachineAp` accepts, the machine accepts -/

theorem afinish_ok (env : Env) {a : ASt} {m : St} (hr : R a m) (v : JV) (h : Model.MachineAp.finish env a = .ok v) :
    ∃ v', finish env m = .ok v' := by
  cases hr with
  | @base s _ he =>
    simp only [Model.MachineAp.finish] at h
    cases hf : finish env s with
    | error c => rw [hf] at h; cases h
    | ok v0 => exact finish_eqv env he ⟨v0, hf⟩
  | val _ => simp only [Model.MachineAp.finish] at h; cases h
  | str _ _ => simp only [Model.MachineAp.finish] at h; cases h
  | @otherLit rest v1 v' fs fs' _ =>
    simp only [Model.MachineAp.finish] at h
    cases hf : finish env ⟨.lit rest v1, []⟩ <;> rw [hf] at h <;> cases h
  | @otherNum n fs fs' _ =>
    simp only [Model.MachineAp.finish] at h
    cases hf : finish env ⟨.num n, []⟩ <;> rw [hf] at h <;> cases h
  | endMap _ _ => simp only [Model.MachineAp.finish] at h; cases h

theorem run_nil (env : Env) (s : St) (j : Nat) :
    run env s j [] = (match finish env s with | .ok v => .ok v | .error c => .err c j) := rfl

theorem run_cons_ok (env : Env) (s s' : St) (j : Nat) (b : UInt8) (bs : Bytes) (h : step env s b = .ok s') :
    run env s j (b :: bs) = run env s' (j + 1) bs := by
  conv => lhs; unfold run
  rw [h]

theorem run_cons_ok' (env : Env) (s : St) (j : Nat) (b : UInt8) (bs : Bytes) (v : JV) (h : run env s j (b :: bs) = .ok v) :
    ∃ s', step env s b = .ok s' ∧ run env s' (j + 1) bs = .ok v := by
  unfold run at h
  cases hs : step env s b with
  | ok s' => rw [hs] at h; exact ⟨s', rfl, h⟩
  | error e => rw [hs] at h; obtain ⟨c, a⟩ := e; cases h

theorem sim_run (env : Env) : ∀ (bs : Bytes) (a : ASt) (m : St) (i j : Nat) (v : JV), R a m →
    arun env a i bs = .ok v → ∃ v', run env m j bs = .ok v'
  | [], a, m, i, j, v, hr, h => by
    rw [arun_nil] at h
    cases hf : Model.MachineAp.finish env a with
    | error e => rw [hf] at h; cases e <;> cases h
    | ok v0 =>
      obtain ⟨v', hv'⟩ := afinish_ok env hr v0 hf
      exact ⟨v', by rw [run_nil, hv']⟩
  | b :: bs, a, m, i, j, v, hr, h => by
    obtain ⟨a', hs, hrun⟩ := arun_cons_ok' env a i b bs v h
    obtain ⟨m', hm, hr'⟩ := sim_step env b hr hs
    obtain ⟨v', hv'⟩ := sim_run env bs a' m' (i + 1) (j + 1) v hr' hrun
    exact ⟨v', by rw [run_cons_ok env m m' j b bs hm]; exact hv'⟩

theorem eqv_refl (s : St) : Eqv s s := by
  refine ⟨?_, StackEqv.refl _⟩
  cases s.mode <;> simp [ModeEqv]

/-- **the faithful model accepts nothing the machine rejects**: under `arbitrary_precision` too, whatever `Value` parsing
    accepts is accepted by the machine — hence an RFC 8259 text meeting the side conditions (C02's `c02_denotes`) -/
theorem ap_sound (env : Env) (bs : Bytes) (v : JV) (h : Model.MachineAp.parseTop env bs = .ok v) :
    ∃ v', parseTop env bs = .ok v' :=
  sim_run env bs (.base init) init 0 0 v (.base (eqv_refl init)) h

/-! ## prefixes -/

theorem sim_prefix (env : Env) : ∀ (xs : Bytes) (a : ASt) (m : St) (i : Nat) (rest : Bytes) (v : JV), R a m →
    arun env a i (xs ++ rest) = .ok v →
    ∃ a' m', Feeds env m xs m' ∧ R a' m' ∧ arun env a' (i + xs.length) rest = .ok v
  | [], a, m, i, rest, v, hr, h => ⟨a, m, Feeds.nil _ _, hr, by simpa using h⟩
  | b :: xs, a, m, i, rest, v, hr, h => by
    obtain ⟨a1, hs, hrun⟩ := arun_cons_ok' env a i b (xs ++ rest) v h
    obtain ⟨m1, hm, hr1⟩ := sim_step env b hr hs
    obtain ⟨a', m', hf, hr', hrun'⟩ := sim_prefix env xs a1 m1 (i + 1) rest v hr1 hrun
    refine ⟨a', m', Feeds.cons hm hf, hr', ?_⟩
    rw [← hrun']; congr 1; simp; omega

theorem feeds_det {env : Env} {s s1 s2 : St} {xs : Bytes} (h1 : Feeds env s xs s1) (h2 : Feeds env s xs s2) : s1 = s2 := by
  unfold Feeds at h1 h2
  rw [h1] at h2
  exact Except.ok.inj h2

/-- at every point where the machine, run from `s` over `bs`, has read a first key equal to the token and looks at the
    `:`, what remains is a well-shaped tail (`ws "number literal" ws }` after the colon) -/
def TailsOK (env : Env) (s : St) (bs : Bytes) : Prop :=
  ∀ (xs : Bytes) (b : UInt8) (ys : Bytes) (s1 : St) (fs : List Frame), bs = xs ++ b :: ys → Feeds env s xs s1 →
    triggered env s1 b = some fs → ∃ txt rest', TokenTail (b :: ys) txt rest'

theorem tails_of_ap (env : Env) (bs : Bytes) (v : JV) (h : Model.MachineAp.parseTop env bs = .ok v) :
    TailsOK env init bs := by
  intro xs b ys s1 fs' hbs hf ht
  subst hbs
  obtain ⟨a', m', hf', hr, hrun⟩ := sim_prefix env xs (.base init) init 0 (b :: ys) v (.base (eqv_refl init)) h
  have := feeds_det hf' hf
  subst this
  obtain ⟨hap, hv, _, hm, hst⟩ := triggered_some ht
  cases hr with
  | @base s _ he =>
    cases ht2 : triggered env s b with
    | none => have := (triggered_eqv env he b).2 ht2; rw [this] at ht; cases ht
    | some fs =>
      obtain ⟨_, _, _, hm2, hst2⟩ := triggered_some ht2
      obtain ⟨md, stk⟩ := s
      simp only at hm2 hst2
      subst hm2 hst2
      obtain ⟨txt, rest', htail, _⟩ := token_tail_sound env hap hv fs (b :: ys) _ v hrun
      exact ⟨txt, rest', htail⟩
  | val _ => cases hm
  | str _ _ => cases hm
  | otherLit _ => cases hm
  | otherNum _ => cases hm
  | endMap _ _ => cases hm

/-! ## the machine on a well-shaped tail -/

theorem machine_tail_feeds (env : Env) (hv : env.tgt = .value) (fs' : List Frame) (rest txt rest' : Bytes)
    (h : TokenTail rest txt rest') :
    ∃ pre, rest = pre ++ rest' ∧ pre ≠ [] ∧
      Feeds env ⟨.afterKey, .obj [] Model.MachineAp.token :: fs'⟩ pre
        (complete fs' (mkObj env.cfg [(Model.MachineAp.token, .str txt)])) := by
  obtain ⟨w₁, w₂, items, w₃, rfl, hw₁, hw₂, hw₃, hwf, hdec, hnum⟩ := h
  let stk : List Frame := .obj [] Model.MachineAp.token :: fs'
  obtain ⟨dec, e', hd, hscan⟩ := SJ.Proofs.Complete.scan_value env hv stk false items hwf (paired_of_decode items txt hdec) [] false
  rw [hdec] at hd
  simp only [Option.some.injEq] at hd
  subst hd
  have hclose := SJ.Proofs.Complete.step_quote_close env stk (txt.reverse ++ []) e'
    (fun _ _ => by simpa using isNumber_utf8 txt hnum)
  have hstr : Feeds env ⟨.val .objVal, stk⟩ (strBytes items)
      ⟨.afterMember, .obj [(Model.MachineAp.token, .str txt)] Model.MachineAp.token :: fs'⟩ := by
    have h1 : strBytes items = [0x22] ++ items.flatMap StrItem.bytes ++ [0x22] := rfl
    rw [h1]
    refine Feeds.append (Feeds.append (Feeds.one (SJ.Proofs.Complete.step_quote_open env .objVal stk)) hscan) (Feeds.one ?_)
    rw [hclose]
    simp [complete, hv, stk]
  refine ⟨w₁ ++ [0x3a] ++ w₂ ++ strBytes items ++ w₃ ++ [0x7d], by simp, by simp, ?_⟩
  have hend : step env ⟨.afterMember, .obj [(Model.MachineAp.token, .str txt)] Model.MachineAp.token :: fs'⟩ 0x7d =
      .ok (complete fs' (mkObj env.cfg [(Model.MachineAp.token, .str txt)])) := by
    rw [SJ.Proofs.Complete.step_close_obj]; simp [hv]
  exact Feeds.append (Feeds.append (Feeds.append (Feeds.append (Feeds.append
    (SJ.Proofs.Complete.feeds_ws env _ (SJ.Proofs.Complete.wsStable_afterKey _) w₁ hw₁)
    (Feeds.one (SJ.Proofs.Complete.step_colon env stk)))
    (SJ.Proofs.Complete.feeds_ws env ⟨.val .objVal, stk⟩ trivial w₂ hw₂)) hstr)
    (SJ.Proofs.Complete.feeds_ws env ⟨.afterMember, _⟩ trivial w₃ hw₃)) (Feeds.one hend)

theorem run_feeds (env : Env) {s s' : St} {xs : Bytes} (h : Feeds env s xs s') (j : Nat) (r : Bytes) :
    run env s j (xs ++ r) = run env s' (j + xs.length) r := by
  rw [SJ.Proofs.Machine.run_append, h.to_feed j]

theorem tailsOK_after (env : Env) {s s' : St} {xs r : Bytes} (hf : Feeds env s xs s') (h : TailsOK env s (xs ++ r)) :
    TailsOK env s' r := by
  intro ys b zs s1 fs hr hf1 ht
  exact h (xs ++ ys) b zs s1 fs (by rw [hr]; simp) (Feeds.append hf hf1) ht

/-- **a text the machine accepts, with a well-shaped tail at every token first key, is accepted by `MachineAp`** -/
theorem back_run (env : Env) (hap : env.cfg.ap = true) (hv : env.tgt = .value) : ∀ (n : Nat) (bs : Bytes), bs.length ≤ n →
    ∀ (s s' : St) (i j : Nat), Eqv s s' → (∃ v', run env s' j bs = .ok v') → TailsOK env s' bs →
    ∃ v, arun env (.base s) i bs = .ok v
  | n, [], _, s, s', i, j, he, ⟨v', hv'⟩, _ => by
    rw [run_nil] at hv'
    cases hf : finish env s' with
    | error c => rw [hf] at hv'; cases hv'
    | ok v0 =>
      obtain ⟨v, hfin⟩ := finish_eqv env (eqv_symm he) ⟨v0, hf⟩
      refine ⟨v, ?_⟩
      rw [arun_nil]
      simp only [Model.MachineAp.finish, hfin]
  | 0, b :: r, hlen, _, _, _, _, _, _, _ => by simp at hlen
  | n + 1, b :: r, hlen, s, s', i, j, he, ⟨v', hv'⟩, htails => by
    cases ht : triggered env s b with
    | none =>
      obtain ⟨s1', hs1', hrun'⟩ := run_cons_ok' env s' j b r v' hv'
      have hres := step_eqv env he b
      rw [hs1'] at hres
      cases hs1 : step env s b with
      | error e => rw [hs1] at hres; exact hres.elim
      | ok s1 =>
        rw [hs1] at hres
        have hstep : astep env (.base s) b = .ok (.base s1) := by rw [astep_base_free env s b ht, hs1]; rfl
        obtain ⟨v, hv2⟩ := back_run env hap hv n r (by simpa using hlen) s1 s1' (i + 1) (j + 1) hres ⟨v', hrun'⟩
          (tailsOK_after env (xs := [b]) (Feeds.one hs1') htails)
        exact ⟨v, by rw [arun_cons_ok env _ _ i b r hstep]; exact hv2⟩
    | some fs =>
      obtain ⟨fs', ht', hfs⟩ := (triggered_eqv env he b).1 fs ht
      obtain ⟨txt, rest', htail⟩ := htails [] b r s' fs' rfl (Feeds.nil _ _) ht'
      obtain ⟨_, _, _, hm, hst⟩ := triggered_some ht
      obtain ⟨_, _, _, hm', hst'⟩ := triggered_some ht'
      obtain ⟨md, stk⟩ := s
      obtain ⟨md', stk'⟩ := s'
      simp only at hm hst hm' hst'
      subst hm hst hm' hst'
      have hap_run := token_tail_accepts env hap hv fs (b :: r) txt rest' htail i
      obtain ⟨pre, hpre, hne, hfeeds⟩ := machine_tail_feeds env hv fs' (b :: r) txt rest' htail
      have hm_run := run_feeds env hfeeds j rest'
      rw [← hpre] at hm_run
      rw [hm_run] at hv'
      have hlen' : rest'.length ≤ n := by
        have h1 : (b :: r).length = pre.length + rest'.length := by rw [hpre]; simp
        have h2 : 0 < pre.length := List.length_pos_iff.mpr hne
        simp only [List.length_cons] at h1 hlen
        omega
      obtain ⟨v, hv2⟩ := back_run env hap hv n rest' hlen' _ _ (i + ((b :: r).length - rest'.length)) (j + pre.length)
        (eqv_complete hfs (.num (.lit txt)) (mkObj env.cfg [(Model.MachineAp.token, .str txt)])) ⟨v', hv'⟩
        (tailsOK_after env hfeeds (by rw [← hpre]; exact htails))
      exact ⟨v, by rw [hap_run]; exact hv2⟩

/-- **the language of the faithful model**, relative to the machine's: `MachineAp` accepts exactly the texts the machine
    accepts in which every token-first object has the shape `{ "<token>" : "<number literal>" }` -/
theorem ap_iff (env : Env) (hap : env.cfg.ap = true) (hv : env.tgt = .value) (bs : Bytes) :
    (∃ v, Model.MachineAp.parseTop env bs = .ok v) ↔ (∃ v', parseTop env bs = .ok v') ∧ TailsOK env init bs := by
  constructor
  · rintro ⟨v, h⟩
    exact ⟨ap_sound env bs v h, tails_of_ap env bs v h⟩
  · rintro ⟨hm, ht⟩
    exact back_run env hap hv bs.length bs (Nat.le_refl _) init init 0 0 (eqv_refl init) hm ht

end SJ.Proofs.MachineAp
