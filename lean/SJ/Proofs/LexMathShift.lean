import SJ.Proofs.LexMathSmall
/-!
# Limb arithmetic: shifts (`ishl_bits`, `ishl_limbs`, `ishl`), `leading_zeros`, `bit_length`

`ishl x n` denotes `value x · 2^n`, keeps limbs limbs and normalised vectors normalised; on a normalised vector
`bit_length` is the bit length of the number denoted.
-/
namespace SJ.Proofs.LexMath
open SJ.Model.LexMath

theorem two_pow_64_split {n : Nat} (hn : n ≤ 64) : (2 : Nat) ^ 64 = 2 ^ (64 - n) * 2 ^ n := by
  rw [← Nat.pow_add]; congr 1; omega

/-- `limb (x << n) | (prev >> (64 - n))` as arithmetic: the two halves do not overlap -/
theorem ishl_head {x prev n : Nat} (_hn0 : 0 < n) (hn : n < 64) (hp : prev < 2 ^ 64) :
    (limb (x <<< n) ||| (prev >>> (64 - n))) = (x % 2 ^ (64 - n)) * 2 ^ n + prev / 2 ^ (64 - n) ∧
    prev / 2 ^ (64 - n) < 2 ^ n := by
  have hsplit := two_pow_64_split (Nat.le_of_lt hn)
  have hlt : prev / 2 ^ (64 - n) < 2 ^ n := by
    apply Nat.div_lt_of_lt_mul; rw [← hsplit]; exact hp
  refine ⟨?_, hlt⟩
  have e1 : limb (x <<< n) = (x % 2 ^ (64 - n)) <<< n := by
    unfold limb; rw [Nat.shiftLeft_eq, Nat.shiftLeft_eq, hsplit, Nat.mul_mod_mul_right]
  rw [e1, Nat.shiftRight_eq_div_pow, ← Nat.shiftLeft_add_eq_or_of_lt hlt, Nat.shiftLeft_eq]

theorem ishlBitsLoop_spec (n prev : Nat) (xs : Limbs) (hn0 : 0 < n) (hn : n < 64) (hp : prev < 2 ^ 64) (hv : Valid xs) :
    value (small.ishlBitsLoop n prev xs) = value xs * 2 ^ n + prev / 2 ^ (64 - n) ∧
    Valid (small.ishlBitsLoop n prev xs) := by
  have hsplit := two_pow_64_split (Nat.le_of_lt hn)
  induction xs generalizing prev with
  | nil =>
    unfold small.ishlBitsLoop
    simp only [Nat.shiftRight_eq_div_pow]
    have hle : prev / 2 ^ (64 - n) < 2 ^ 64 := Nat.lt_of_le_of_lt (Nat.div_le_self _ _) hp
    by_cases h : prev / 2 ^ (64 - n) = 0
    · simp [h]
    · simp [h, valid_singleton hle]
  | cons x xs ih =>
    have ⟨hx, hxs⟩ := valid_cons.mp hv
    simp only [small.ishlBitsLoop]
    have ⟨e, hlt⟩ := ishl_head (x := x) hn0 hn hp
    have ⟨i1, i2⟩ := ih x hx hxs
    have hmod : x % 2 ^ (64 - n) < 2 ^ (64 - n) := Nat.mod_lt _ (Nat.two_pow_pos _)
    have hdm := Nat.mod_add_div x (2 ^ (64 - n))
    constructor
    · rw [value_cons, e, i1, value_cons]
      have : x * 2 ^ n = (x % 2 ^ (64 - n)) * 2 ^ n + 2 ^ 64 * (x / 2 ^ (64 - n)) := by
        conv => lhs; rw [← hdm]
        rw [hsplit]; ring
      rw [Nat.add_mul, Nat.mul_assoc, this]; ring
    · refine valid_cons.mpr ⟨?_, i2⟩
      rw [e, hsplit]
      have : (x % 2 ^ (64 - n) + 1) * 2 ^ n ≤ 2 ^ (64 - n) * 2 ^ n := Nat.mul_le_mul_right _ hmod
      nlinarith

theorem ishlBitsLoop_length_le (n prev : Nat) (xs : Limbs) : xs.length ≤ (small.ishlBitsLoop n prev xs).length := by
  induction xs generalizing prev with
  | nil => simp
  | cons x xs ih => simp [small.ishlBitsLoop]; exact ih _

theorem ishlBitsLoop_normal (n prev : Nat) (xs : Limbs) (hn0 : 0 < n) (hn : n < 64) (hp : prev < 2 ^ 64) (hv : Valid xs)
    (hnm : Normal xs) : Normal (small.ishlBitsLoop n prev xs) := by
  induction xs generalizing prev with
  | nil =>
    unfold small.ishlBitsLoop
    by_cases h : prev >>> (64 - n) = 0
    · simp [h, normal_nil]
    · simp [h, Normal]
  | cons x xs ih =>
    have ⟨hx, hxs⟩ := valid_cons.mp hv
    simp only [small.ishlBitsLoop]
    by_cases hne : xs = []
    · subst hne
      have hx0 : x ≠ 0 := (normal_iff [x]).mp hnm x [] rfl
      unfold small.ishlBitsLoop
      by_cases h : x >>> (64 - n) = 0
      · simp only [h, bne_self_eq_false, Bool.false_eq_true, if_false, Normal, List.getLast?_singleton, ne_eq,
          Option.some.injEq]
        have ⟨e, _⟩ := ishl_head (x := x) hn0 hn hp
        rw [e]
        rw [Nat.shiftRight_eq_div_pow] at h
        have hxm : x % 2 ^ (64 - n) = x := Nat.mod_eq_of_lt ((Nat.div_eq_zero_iff_lt (Nat.two_pow_pos _)).mp h)
        rw [hxm]
        have : 1 * 1 ≤ x * 2 ^ n := Nat.mul_le_mul (Nat.pos_of_ne_zero hx0) (Nat.two_pow_pos n)
        generalize x * 2 ^ n = q at this ⊢
        generalize prev / 2 ^ (64 - n) = d
        omega
      · simp [h, Normal]
    · have hn' : Normal xs := by
        unfold Normal at *; rwa [List.getLast?_cons_of_ne_nil hne] at hnm
      have hne' : small.ishlBitsLoop n x xs ≠ [] := by
        intro e
        have := ishlBitsLoop_length_le n x xs
        rw [e] at this
        exact hne (List.length_eq_zero_iff.mp (by simpa using this))
      exact normal_cons_of_normal (ih x hx hxs hn') hne'

theorem small_ishlBits_spec (x : Limbs) (n : Nat) (hn : n < 64) (hv : Valid x) :
    value (small.ishlBits x n) = value x * 2 ^ n ∧ Valid (small.ishlBits x n) ∧
    (Normal x → Normal (small.ishlBits x n)) := by
  unfold small.ishlBits
  by_cases h : n = 0
  · subst h; simp [hv]
  · have hn0 : 0 < n := Nat.pos_of_ne_zero h
    simp only [beq_iff_eq, h, if_false]
    have ⟨a, b⟩ := ishlBitsLoop_spec n 0 x hn0 hn (by norm_num) hv
    exact ⟨by simpa using a, b, ishlBitsLoop_normal n 0 x hn0 hn (by norm_num) hv⟩

theorem small_ishlLimbs_spec (x : Limbs) (n : Nat) (hv : Valid x) :
    value (small.ishlLimbs x n) = value x * 2 ^ (64 * n) ∧ Valid (small.ishlLimbs x n) ∧
    (Normal x → Normal (small.ishlLimbs x n)) := by
  unfold small.ishlLimbs
  cases x with
  | nil => simp [normal_nil]
  | cons a r =>
    simp only [List.isEmpty_cons, Bool.not_false, if_true]
    refine ⟨?_, valid_append.mpr ⟨valid_replicate_zero n, hv⟩, ?_⟩
    · rw [value_append, value_replicate_zero, List.length_replicate]; ring
    · intro h; unfold Normal at *; rw [List.getLast?_append]; simpa using h

theorem small_ishl_spec (x : Limbs) (n : Nat) (hv : Valid x) :
    value (small.ishl x n) = value x * 2 ^ n ∧ Valid (small.ishl x n) ∧ (Normal x → Normal (small.ishl x n)) := by
  unfold small.ishl
  have ⟨a1, a2, a3⟩ := small_ishlBits_spec x (n % 64) (Nat.mod_lt _ (by norm_num)) hv
  have hn : n = n % 64 + 64 * (n / 64) := (Nat.mod_add_div n 64).symm
  by_cases h : n / 64 = 0
  · simp only [h, bne_self_eq_false, Bool.false_eq_true, if_false]
    have : n = n % 64 := by omega
    rw [← this] at a1 a2 a3 ⊢
    exact ⟨a1, a2, a3⟩
  · simp only [bne_iff_ne, ne_eq, h, not_false_eq_true, if_true]
    have ⟨b1, b2, b3⟩ := small_ishlLimbs_spec (small.ishlBits x (n % 64)) (n / 64) a2
    refine ⟨?_, b2, fun hnm => b3 (a3 hnm)⟩
    rw [b1, a1, Nat.mul_assoc, ← Nat.pow_add]
    congr 2; omega

/-! ## `leading_zeros`, `bit_length` -/

/-- `log2` of a number with a known top chunk: `r < 2^k`, `a ≥ 1` -/
theorem log2_add_mul {r k a : Nat} (hr : r < 2 ^ k) (ha : a ≠ 0) : Nat.log2 (r + 2 ^ k * a) = k + Nat.log2 a := by
  have hne : r + 2 ^ k * a ≠ 0 := by
    have : 1 * 1 ≤ 2 ^ k * a := Nat.mul_le_mul (Nat.two_pow_pos k) (Nat.pos_of_ne_zero ha)
    omega
  rw [Nat.log2_eq_iff hne]
  have h1 := Nat.log2_self_le ha
  have h2 := @Nat.lt_log2_self a
  constructor
  · calc 2 ^ (k + a.log2) = 2 ^ k * 2 ^ a.log2 := Nat.pow_add _ _ _
      _ ≤ 2 ^ k * a := Nat.mul_le_mul_left _ h1
      _ ≤ r + 2 ^ k * a := Nat.le_add_left _ _
  · have : 2 ^ (k + a.log2 + 1) = 2 ^ k * 2 ^ (a.log2 + 1) := by rw [← Nat.pow_add]; congr 1
    rw [this]
    have : 2 ^ k * (a + 1) ≤ 2 ^ k * 2 ^ (a.log2 + 1) := Nat.mul_le_mul_left _ h2
    nlinarith

/-- the `Nat`-level `bit_length` (`Model.Lexical.bitLength`, restated here to keep this file independent of it) -/
def natBitLength (n : Nat) : Nat := if n = 0 then 0 else Nat.log2 n + 1

theorem log2_lt_64 {a : Nat} (ha : a < 2 ^ 64) (h0 : a ≠ 0) : Nat.log2 a < 64 := (Nat.log2_lt h0).mpr ha

theorem small_bitLength_spec (x : Limbs) (hv : Valid x) (hn : Normal x) :
    small.bitLength x = natBitLength (value x) := by
  unfold small.bitLength small.leadingZeros natBitLength
  rcases List.eq_nil_or_concat x with e | ⟨r, a, rfl⟩
  · subst e; simp
  · have ha : a ≠ 0 := normal_append_singleton.mp (by simpa using hn)
    have hva : a < 2 ^ 64 := hv a (by simp)
    have hr : value r < 2 ^ (64 * r.length) := value_lt (valid_append.mp (by simpa using hv)).1
    simp only [List.concat_eq_append, List.getLast?_append, List.getLast?_singleton, Option.some_or,
      List.length_append, List.length_singleton, value_append, value_singleton]
    have hne : value r + 2 ^ (64 * r.length) * a ≠ 0 := by
      have : 1 * 1 ≤ 2 ^ (64 * r.length) * a := Nat.mul_le_mul (Nat.two_pow_pos _) (Nat.pos_of_ne_zero ha)
      omega
    rw [if_neg hne, log2_add_mul hr ha]
    unfold small.lz64
    have := log2_lt_64 hva ha
    simp only [beq_iff_eq, ha, if_false]
    omega

end SJ.Proofs.LexMath
