import SJ.Proofs.TypedBasic
/-!
# Progress and fuel: every successful typed parse consumes at least one byte and advances the position
# by what it consumed, the loops never run out of their fuel, and `deTyped` needs no more fuel than the
# size of the schema
-/
namespace SJ.Proofs.Typed
open SJ SJ.Gen SJ.Model SJ.Model.Typed
open SJ.Model.Machine (St Mode Frame Step step1 errIdx endNumber finishMode init)
open SJ.Model.Stream (skipWs)

/-- a deserializer for one value: never out of fuel, consumes at least one byte -/
def Good (de : Bytes → Nat → TOut) : Prop := ∀ r p, Shr r p (de r p)

/-! ## helpers -/

theorem atEof_shr {α : Type} {env : Env} {c : Code} {i : Nat} {rest : Bytes} {pos : Nat} : Shr rest pos (atEof env c i : Res α) :=
  shr_of_not_ok (atEof_ne_fuel env c i) (atEof_ne_ok env c i)
theorem err_shr {α : Type} {c : Code} {i : Nat} {rest : Bytes} {pos : Nat} : Shr rest pos (.err c i : Res α) :=
  shr_of_not_ok (by simp) (by simp)
theorem raw_shr {α : Type} {r : Bytes} {p : Nat} {rest : Bytes} {pos : Nat} : Shr rest pos (.raw r p : Res α) :=
  shr_of_not_ok (by simp) (by simp)
theorem data_shr {α : Type} {i : Nat} {rest : Bytes} {pos : Nat} : Shr rest pos (.data i : Res α) :=
  shr_of_not_ok (by simp) (by simp)
theorem io_shr {α : Type} {rest : Bytes} {pos : Nat} : Shr rest pos (.io : Res α) :=
  shr_of_not_ok (by simp) (by simp)
theorem ok_shrLe_of {α : Type} {a : α} {r rest : Bytes} {p pos : Nat} (h : r.length ≤ rest.length)
    (hp : p + r.length = pos + rest.length) : ShrLe rest pos (.ok a r p : Res α) :=
  ⟨by simp, fun _ _ _ e => by cases e; exact ⟨h, hp⟩⟩
theorem ok_shr_of {α : Type} {a : α} {r rest : Bytes} {p pos : Nat} (h : r.length < rest.length)
    (hp : p + r.length = pos + rest.length) : Shr rest pos (.ok a r p : Res α) :=
  ⟨by simp, fun _ _ _ e => by cases e; exact ⟨h, hp⟩⟩
theorem ok_shrLe {α : Type} (a : α) (r : Bytes) (p : Nat) : ShrLe r p (.ok a r p : Res α) := ok_shrLe_of (Nat.le_refl _) rfl

/-- after skipping whitespace and consuming one byte -/
theorem shr_after_skip {α : Type} {rest : Bytes} {pos : Nat} {b : UInt8} {r : Bytes} {p : Nat}
    (h : skipWs rest pos = (b :: r, p)) {x : Res α} (hx : ShrLe r (p + 1) x) : Shr rest pos x := by
  have := skipWs_eq h
  simp only [List.length_cons] at this
  exact hx.step (by omega) (by omega)

theorem shr_skip {α : Type} {rest : Bytes} {pos : Nat} {r : Bytes} {p : Nat}
    (h : skipWs rest pos = (r, p)) {x : Res α} (hx : Shr r p x) : Shr rest pos x :=
  hx.mono (skipWs_eq h).1 (skipWs_eq h).2

theorem shrLe_skip {α : Type} {rest : Bytes} {pos : Nat} {r : Bytes} {p : Nat}
    (h : skipWs rest pos = (r, p)) {x : Res α} (hx : ShrLe r p x) : ShrLe rest pos x :=
  hx.mono (skipWs_eq h).1 (skipWs_eq h).2

theorem withPeek_shr {α : Type} {env : Env} {c : Code} {rest : Bytes} {pos : Nat} {k : UInt8 → Bytes → Nat → Res α}
    (h : ∀ b r p, skipWs rest pos = (b :: r, p) → Shr rest pos (k b r p)) : Shr rest pos (withPeek env c rest pos k) := by
  unfold withPeek
  split
  · exact atEof_shr
  · rename_i b r p hs; exact h b r p hs

theorem withPeek_le {α : Type} {env : Env} {c : Code} {rest : Bytes} {pos : Nat} {k : UInt8 → Bytes → Nat → Res α}
    (h : ∀ b r p, skipWs rest pos = (b :: r, p) → ShrLe rest pos (k b r p)) : ShrLe rest pos (withPeek env c rest pos k) := by
  unfold withPeek
  split
  · exact atEof_shr.le
  · rename_i b r p hs; exact h b r p hs

/-! ## scalars -/

theorem parseIdent_le (env : Env) (id : Bytes) (rest : Bytes) (pos : Nat) : ShrLe rest pos (parseIdent env id rest pos) := by
  induction id generalizing rest pos with
  | nil => simp only [parseIdent]; exact ok_shrLe _ _ _
  | cons e es ih =>
    cases rest with
    | nil => simp only [parseIdent]; exact atEof_shr.le
    | cons b r =>
      simp only [parseIdent]
      split
      · exact (ih r (pos + 1)).mono (by simp) (by simp only [List.length_cons]; omega)
      · exact err_shr.le

theorem peekInvalidType_not_ok {α : Type} (env : Env) (rest : Bytes) (pos : Nat) (a : α) (r : Bytes) (p : Nat) :
    (peekInvalidType env rest pos : Res α) ≠ .ok a r p := by
  unfold peekInvalidType
  repeat' split
  all_goals simp

theorem peekInvalidType_ne_fuel {α : Type} (env : Env) (rest : Bytes) (pos : Nat) :
    (peekInvalidType env rest pos : Res α) ≠ .fuel := by
  cases rest with
  | nil => simp [peekInvalidType]
  | cons b bs =>
    simp only [peekInvalidType]
    split
    · simp
    · have := (machine_shr (valEnv env) env.flt 0 init startable_init (b :: bs) pos).1
      cases hm : machine (valEnv env) env.flt 0 init (b :: bs) pos <;> simp_all

theorem peekInvalidType_shr {α : Type} {env : Env} {rest rest0 : Bytes} {pos pos0 : Nat} :
    Shr rest0 pos0 (peekInvalidType env rest pos : Res α) :=
  shr_of_not_ok (peekInvalidType_ne_fuel env rest pos) (peekInvalidType_not_ok env rest pos)

theorem ident_then_ok (env : Env) (id : Bytes) (v : TVal) (r : Bytes) (p : Nat) :
    ShrLe r p ((parseIdent env id r p).bind fun _ r' p' => (.ok v r' p' : TOut)) :=
  (parseIdent_le env id r p).bind_le fun _ r1 p1 _ => ok_shrLe _ _ _

theorem deBool_shr (env : Env) : Good (deBool env) := by
  intro rest pos
  unfold deBool
  refine withPeek_shr fun b r p h => ?_
  split
  · exact shr_after_skip h (ident_then_ok _ _ _ _ _)
  · split
    · exact shr_after_skip h (ident_then_ok _ _ _ _ _)
    · exact peekInvalidType_shr

theorem deUnit_shr (env : Env) : Good (deUnit env) := by
  intro rest pos
  unfold deUnit
  refine withPeek_shr fun b r p h => ?_
  split
  · exact shr_after_skip h (ident_then_ok _ _ _ _ _)
  · exact peekInvalidType_shr

theorem fixPos_shr {α : Type} (env : Env) (pk : Bool) {rest : Bytes} {pos : Nat} {x : Res α} (h : Shr rest pos x) :
    Shr rest pos (fixPos env pk x) := by
  unfold fixPos
  split
  · exact data_shr
  · exact h

theorem fixPos_shrLe {α : Type} (env : Env) (pk : Bool) {rest : Bytes} {pos : Nat} {x : Res α} (h : ShrLe rest pos x) :
    ShrLe rest pos (fixPos env pk x) := by
  unfold fixPos
  split
  · exact data_shr.le
  · exact h

theorem ofVisit_shrLe (v : FromValue.R) (r : Bytes) (p : Nat) : ShrLe r p (ofVisit v r p) := by
  unfold ofVisit
  split
  · exact ok_shrLe _ _ _
  · exact raw_shr.le

theorem digitsOf_length (r : Bytes) : (digitsOf r).1.length + (digitsOf r).2.length = r.length := by
  induction r with
  | nil => simp [digitsOf]
  | cons c r ih =>
    simp only [digitsOf]
    split
    · simp only [List.length_cons]; omega
    · simp

theorem scanExpDigits_le (env : Env) (neg : Bool) (int : Bytes) (frac : Option Bytes) (en : Bool) (rest : Bytes) (pos : Nat) :
    ShrLe rest pos (scanExpDigits env neg int frac en rest pos) := by
  unfold scanExpDigits
  split
  · exact atEof_shr.le
  · rename_i d r2
    have h2 := digitsOf_length r2
    dsimp only
    repeat' split
    all_goals first
      | exact err_shr.le
      | exact io_shr.le
      | exact ok_shrLe_of (by simp only [List.length_cons]; omega) (by simp only [List.length_cons]; omega)

theorem scanExp_le (env : Env) (neg : Bool) (int : Bytes) (frac : Option Bytes) (rest : Bytes) (pos : Nat) :
    ShrLe rest pos (scanExp env neg int frac rest pos) := by
  unfold scanExp
  split
  · exact atEof_shr.le
  · repeat' split
    all_goals first
      | exact (scanExpDigits_le _ _ _ _ _ _ _).mono (by simp) (by simp only [List.length_cons]; omega)
      | exact scanExpDigits_le _ _ _ _ _ _ _

theorem scanAfterInt_le (env : Env) (neg : Bool) (int : Bytes) (rest : Bytes) (pos : Nat) :
    ShrLe rest pos (scanAfterInt env neg int rest pos) := by
  unfold scanAfterInt
  split
  · split
    · exact io_shr.le
    · exact ok_shrLe _ _ _
  · rename_i c r
    split
    · dsimp only
      have h2 := digitsOf_length r
      split
      · rename_i h3
        rw [h3] at h2
        repeat' split
        all_goals first
          | exact atEof_shr.le
          | exact io_shr.le
          | exact ok_shrLe_of (by simp) (by simp only [List.length_cons, List.length_nil] at *; omega)
      · rename_i c2 r3 h3
        rw [h3] at h2
        simp only [List.length_cons] at h2
        repeat' split
        all_goals first
          | exact err_shr.le
          | exact (scanExp_le _ _ _ _ _ _).mono (by simp only [List.length_cons]; omega) (by simp only [List.length_cons]; omega)
          | exact ok_shrLe_of (by simp only [List.length_cons]; omega) (by simp only [List.length_cons]; omega)
    · split
      · exact (scanExp_le _ _ _ _ _ _).mono (by simp) (by simp only [List.length_cons]; omega)
      · exact ok_shrLe _ _ _

theorem scanInteger_shr (env : Env) (neg : Bool) (rest : Bytes) (pos : Nat) : Shr rest pos (scanInteger env neg rest pos) := by
  unfold scanInteger
  split
  · exact atEof_shr
  · rename_i c r
    split
    · split
      · exact (scanAfterInt_le _ _ _ _ _).step (by simp) (by simp)
      · split
        · exact err_shr
        · exact (scanAfterInt_le _ _ _ _ _).step (by simp) (by simp only [List.length_cons]; omega)
    · split
      · have := digitsOf_length r
        exact (scanAfterInt_le _ _ _ _ _).step (by simp only [List.length_cons]; omega) (by simp only [List.length_cons]; omega)
      · exact err_shr

theorem scanNumber_shr (env : Env) (rest : Bytes) (pos : Nat) : Shr rest pos (scanNumber env rest pos) := by
  unfold scanNumber
  split
  · exact atEof_shr
  · split
    · exact (scanInteger_shr _ _ _ _).mono (by simp) (by simp only [List.length_cons]; omega)
    · exact scanInteger_shr _ _ _ _

theorem deNumber_shr (env : Env) (ty : NumTy) : Good (deNumber env ty) := by
  intro rest pos
  unfold deNumber
  refine withPeek_shr fun b r p h => ?_
  split
  · refine shr_skip h ((scanNumber_shr env (b :: r) p).bind_le fun parts r1 p1 _ => ?_)
    repeat' split
    all_goals first
      | exact ok_shrLe _ _ _
      | exact err_shr.le
      | exact fixPos_shrLe _ _ (ofVisit_shrLe _ _ _)
  · exact peekInvalidType_shr

theorem scanDigits_le (env : Env) (acc : Bytes) (rest : Bytes) (pos : Nat) : ShrLe rest pos (scanDigits env acc rest pos) := by
  induction rest generalizing acc pos with
  | nil => unfold scanDigits; split
           · exact io_shr.le
           · exact ok_shrLe _ _ _
  | cons c r ih =>
    unfold scanDigits
    split
    · exact (ih _ _).mono (by simp) (by simp only [List.length_cons]; omega)
    · exact ok_shrLe _ _ _

theorem scanInteger128_shr (env : Env) (rest : Bytes) (pos : Nat) : Shr rest pos (scanInteger128 env rest pos) := by
  unfold scanInteger128
  split
  · exact atEof_shr
  · rename_i c r
    split
    · split
      · split
        · exact io_shr
        · exact ok_shr_of (by simp) (by simp)
      · split
        · exact err_shr
        · exact ok_shr_of (by simp) (by simp only [List.length_cons]; omega)
    · split
      · exact (scanDigits_le env [c] r (pos + 1)).step (by simp) (by simp only [List.length_cons]; omega)
      · exact err_shr

theorem deInt128_shr (env : Env) (w : IntTy) : Good (deInt128 env w) := by
  intro rest pos
  unfold deInt128
  refine withPeek_shr fun b r p h => ?_
  simp only
  have fin : ∀ (neg : Bool) (rr : Bytes) (pp : Nat),
      Shr rr pp ((scanInteger128 env rr pp).bind fun ds rest' pos' =>
        match FromValue.rustParseInt w (if neg then 0x2d :: ds else ds) with
        | some x => (.ok (.int x) rest' pos' : TOut)
        | none => .err .NumberOutOfRange (errorIdx env rest' pos' true)) := by
    intro neg rr pp
    refine (scanInteger128_shr env rr pp).bind_le fun ds r1 p1 _ => ?_
    split
    · exact ok_shrLe _ _ _
    · exact err_shr.le
  split
  · split
    · exact shr_after_skip h (fin true r (p + 1)).le
    · exact err_shr
  · exact shr_skip h (fin false (b :: r) p)

theorem deInt_shr (env : Env) (w : IntTy) : Good (deInt env w) := by
  intro rest pos
  unfold deInt
  split
  · exact deInt128_shr env w rest pos
  · exact deNumber_shr env _ rest pos

theorem parseStr_le (env : Env) (rest : Bytes) (pos : Nat) : ShrLe rest pos (parseStr env rest pos) := by
  unfold parseStr
  refine (machine_shr (valEnv env) env.flt 0 _ startable_str rest pos).le.bind_le fun v r1 p1 _ => ?_
  split <;> exact ok_shrLe _ _ _

theorem deStr_shr (env : Env) (visit : Bytes → FromValue.R) : Good (deStr env visit) := by
  intro rest pos
  unfold deStr
  refine withPeek_shr fun b r p h => ?_
  split
  · exact shr_after_skip h ((parseStr_le env r (p + 1)).bind_le fun s r1 p1 _ => fixPos_shrLe _ _ (ofVisit_shrLe _ _ _))
  · exact peekInvalidType_shr

theorem runRaw_le (env : Env) (st : RawSt) (rest : Bytes) (pos : Nat) : ShrLe rest pos (runRaw env st rest pos) := by
  induction rest generalizing st pos with
  | nil => unfold runRaw; exact atEof_shr.le
  | cons b r ih =>
    unfold runRaw
    repeat' split
    all_goals first
      | exact err_shr.le
      | exact (ih _ _).mono (by simp) (by simp only [List.length_cons]; omega)
      | exact ok_shrLe_of (by simp) (by simp only [List.length_cons]; omega)

theorem parseStrRaw_le (env : Env) (rest : Bytes) (pos : Nat) : ShrLe rest pos (parseStrRaw env rest pos) :=
  runRaw_le env {} rest pos

/-! ## sequences -/

theorem hasNextElement_le (env : Env) (first : Bool) (rest : Bytes) (pos : Nat) : ShrLe rest pos (hasNextElement env first rest pos) := by
  unfold hasNextElement
  refine withPeek_le fun b r p h => ?_
  have h1 := skipWs_eq h
  simp only [List.length_cons] at h1
  split
  · exact shrLe_skip h (ok_shrLe _ _ _)
  · split
    · exact shrLe_skip h (ok_shrLe _ _ _)
    · split
      · refine ShrLe.mono (withPeek_le fun c r' q h2 => ?_) (by omega) (by omega : p + 1 + r.length = pos + rest.length)
        split
        · exact err_shr.le
        · exact shrLe_skip h2 (ok_shrLe _ _ _)
      · exact err_shr.le

/-- `next_element_seed`: `none` leaves the input as it is, `some` consumed at least a byte -/
theorem nextElement_spec (env : Env) (de : Bytes → Nat → TOut) (hde : Good de) (first : Bool) (rest : Bytes) (pos : Nat) :
    nextElement env de first rest pos ≠ .fuel ∧
    ∀ o r' p', nextElement env de first rest pos = .ok o r' p' →
      r'.length ≤ rest.length ∧ (o.isSome → r'.length < rest.length) ∧ p' + r'.length = pos + rest.length := by
  unfold nextElement
  have hh := hasNextElement_le env first rest pos
  constructor
  · refine bind_ne_fuel hh.1 fun more r1 p1 _ => ?_
    split
    · exact map_ne_fuel (hde r1 p1).1
    · simp
  · intro o r' p' e
    obtain ⟨more, r1, p1, h1, h2⟩ := bind_ok e
    have hl := hh.2 _ _ _ h1
    split at h2
    · obtain ⟨v, hv, rfl⟩ := map_ok h2
      have := (hde r1 p1).2 _ _ _ hv
      exact ⟨by omega, fun _ => by omega, by omega⟩
    · cases h2
      exact ⟨hl.1, fun h => by simp at h, hl.2⟩

theorem seqLoop_le (env : Env) (de : Bytes → Nat → TOut) (hde : Good de) (n : Nat) (first : Bool) (acc : List TVal)
    (rest : Bytes) (pos : Nat) (hn : rest.length < n) : ShrLe rest pos (seqLoop env de n first acc rest pos) := by
  induction n generalizing first acc rest pos with
  | zero => omega
  | succ n ih =>
    unfold seqLoop
    have hne := nextElement_spec env de hde first rest pos
    constructor
    · refine bind_ne_fuel hne.1 fun o r1 p1 h1 => ?_
      have := hne.2 _ _ _ h1
      split
      · simp
      · exact (ih _ _ _ _ (by have := this.2.1 (by simp); omega)).1
    · intro a r' p' e
      obtain ⟨o, r1, p1, h1, h2⟩ := bind_ok e
      have hl := hne.2 _ _ _ h1
      split at h2
      · cases h2; exact ⟨hl.1, hl.2.2⟩
      · have hlt := hl.2.1 (by simp)
        have := (ih _ _ _ _ (by omega)).2 _ _ _ h2
        omega

theorem tupleLoop_le (env : Env) (de : Schema → Bytes → Nat → TOut) (ss : List Schema) (hde : ∀ s ∈ ss, Good (de s))
    (first : Bool) (acc : List TVal) (rest : Bytes) (pos : Nat) : ShrLe rest pos (tupleLoop env de ss first acc rest pos) := by
  induction ss generalizing first acc rest pos with
  | nil => unfold tupleLoop; exact ok_shrLe _ _ _
  | cons s ss ih =>
    unfold tupleLoop
    have hne := nextElement_spec env (de s) (hde s (by simp)) first rest pos
    have ih' := fun first acc rest pos => ih (fun s' hs' => hde s' (by simp [hs'])) first acc rest pos
    constructor
    · refine bind_ne_fuel hne.1 fun o r1 p1 _ => ?_
      split
      · simp
      · exact (ih' _ _ _ _).1
    · intro a r' p' e
      obtain ⟨o, r1, p1, h1, h2⟩ := bind_ok e
      have hl := hne.2 _ _ _ h1
      split at h2
      · simp at h2
      · have := (ih' _ _ _ _).2 _ _ _ h2
        omega

theorem endSeq_le (env : Env) (rest : Bytes) (pos : Nat) : ShrLe rest pos (endSeq env rest pos).res := by
  unfold endSeq
  split
  · exact atEof_shr.le
  · rename_i b r p h
    have h1 := skipWs_eq h
    simp only [List.length_cons] at h1
    repeat' split
    all_goals first
      | exact err_shr.le
      | exact ok_shrLe_of (by omega) (by omega)

theorem endMap_le (env : Env) (rest : Bytes) (pos : Nat) : ShrLe rest pos (endMap env rest pos).res := by
  unfold endMap
  split
  · exact atEof_shr.le
  · rename_i b r p h
    have h1 := skipWs_eq h
    simp only [List.length_cons] at h1
    repeat' split
    all_goals first
      | exact err_shr.le
      | exact ok_shrLe_of (by omega) (by omega)

theorem closeWith_le {α : Type} (env : Env) (endFn : Bytes → Nat → EndState) (hend : ∀ r p, ShrLe r p (endFn r p).res)
    {rest : Bytes} {pos : Nat} {ret : Res α} (h : ShrLe rest pos ret) : ShrLe rest pos (closeWith env endFn ret) := by
  unfold closeWith
  split
  · rename_i a r p
    have hl := h.2 a r p rfl
    exact ((hend r p).bind_le fun _ r1 p1 _ => ok_shrLe _ _ _).mono hl.1 hl.2
  · exact data_shr.le
  · exact h

theorem deSeq_shr (env : Env) (t : Nat) (visit : Bytes → Nat → TOut) (hv : ∀ r p, ShrLe r p (visit r p)) : Good (deSeq env t visit) := by
  intro rest pos
  unfold deSeq
  refine withPeek_shr fun b r p h => ?_
  split
  · split
    · exact err_shr
    · exact shr_after_skip h (closeWith_le env _ (endSeq_le env) (hv r (p + 1)))
  · exact peekInvalidType_shr

theorem deBytes_shr (env : Env) (t : Nat) : Good (deBytes env t) := by
  intro rest pos
  unfold deBytes
  refine withPeek_shr fun b r p h => ?_
  split
  · exact shr_after_skip h ((parseStrRaw_le env r (p + 1)).map _)
  · split
    · refine shr_skip h (deSeq_shr env t _ (fun r' p' => ?_) (b :: r) p)
      exact (seqLoop_le env _ (deNumber_shr env _) _ _ _ _ _ (by omega)).map _
    · exact peekInvalidType_shr

/-! ## maps -/

theorem hasNextKey_le (env : Env) (first : Bool) (rest : Bytes) (pos : Nat) : ShrLe rest pos (hasNextKey env first rest pos) := by
  unfold hasNextKey
  refine withPeek_le fun b r p h => ?_
  have h1 := skipWs_eq h
  simp only [List.length_cons] at h1
  split
  · exact shrLe_skip h (ok_shrLe _ _ _)
  · split
    · split
      · exact shrLe_skip h (ok_shrLe _ _ _)
      · exact err_shr.le
    · split
      · refine ShrLe.mono (withPeek_le fun c r' q h2 => ?_) (by omega) (by omega : p + 1 + r.length = pos + rest.length)
        split
        · exact shrLe_skip h2 (ok_shrLe _ _ _)
        · split
          · exact err_shr.le
          · exact err_shr.le
      · exact err_shr.le

theorem parseObjectColon_le (env : Env) (rest : Bytes) (pos : Nat) : ShrLe rest pos (parseObjectColon env rest pos) := by
  unfold parseObjectColon
  refine withPeek_le fun b r p h => ?_
  split
  · have h1 := skipWs_eq h
    simp only [List.length_cons] at h1
    exact ok_shrLe_of (by omega) (by omega)
  · exact err_shr.le

/-- the key deserializers are entered with the opening quote peeked: `rest = q :: _` -/
theorem drop1 {rest : Bytes} (h : rest ≠ []) : (rest.drop 1).length + 1 = rest.length := by
  cases rest with
  | nil => exact absurd rfl h
  | cons b r => simp

theorem keyStr_le (env : Env) (visit : Bytes → FromValue.R) (rest : Bytes) (pos : Nat) (h : rest ≠ []) :
    ShrLe rest pos (keyStr env visit rest pos) := by
  unfold keyStr
  have := drop1 h
  exact ((parseStr_le env (rest.drop 1) (pos + 1)).bind_le fun s r p _ => ofVisit_shrLe _ _ _).mono (by omega) (by omega)

theorem keyInt_le (env : Env) (w : IntTy) (rest : Bytes) (pos : Nat) (h : rest ≠ []) : ShrLe rest pos (keyInt env w rest pos) := by
  unfold keyInt
  have hd := drop1 h
  split
  · exact atEof_shr.le
  · rename_i b r hr
    rw [hr] at hd
    split
    · exact err_shr.le
    · refine ((deInt_shr env w (b :: r) (pos + 1)).le.bind_le fun v r' p' _ => ?_).mono (by omega) (by omega)
      split
      · exact atEof_shr.le
      · split
        · exact ok_shrLe_of (by simp) (by simp only [List.length_cons]; omega)
        · exact err_shr.le

theorem keyBool_le (env : Env) (rest : Bytes) (pos : Nat) (h : rest ≠ []) : ShrLe rest pos (keyBool env rest pos) := by
  unfold keyBool
  have hd := drop1 h
  split
  · exact atEof_shr.le
  · rename_i b r hr
    rw [hr] at hd
    simp only [List.length_cons] at hd
    repeat' split
    all_goals first
      | exact (ident_then_ok _ _ _ _ _).mono (by omega) (by omega)
      | exact ((parseStr_le env (b :: r) (pos + 1)).bind_le fun _ r' p' _ => data_shr.le).mono (by simp only [List.length_cons]; omega) (by simp only [List.length_cons]; omega)

theorem deVariantId_shr (env : Env) (names : List Bytes) : Good (deVariantId env names) :=
  deStr_shr env _

theorem keyUnitEnum_shr (env : Env) (names : List Bytes) : Good (keyUnitEnum env names) := by
  intro rest pos
  unfold keyUnitEnum
  refine (deVariantId_shr env names rest pos).bind_le fun v r p _ => ?_
  split
  · exact ok_shrLe _ _ _
  · exact raw_shr.le

theorem deKey_le (env : Env) (k : KeyKind) (rest : Bytes) (pos : Nat) (h : rest ≠ []) : ShrLe rest pos (deKey env k rest pos) := by
  unfold deKey
  split
  · exact keyStr_le _ _ _ _ h
  · exact keyInt_le _ _ _ _ h
  · exact keyBool_le _ _ _ h
  · exact keyStr_le _ _ _ _ h
  · exact (keyUnitEnum_shr env _ rest pos).le

/-- `has_next_key` answers `true` only with the key's opening quote peeked -/
theorem hasNextKey_true (env : Env) (first : Bool) (rest : Bytes) (pos : Nat) (r : Bytes) (p : Nat)
    (h : hasNextKey env first rest pos = .ok true r p) : r ≠ [] := by
  unfold hasNextKey withPeek at h
  simp only at h
  repeat' split at h
  all_goals first
    | (simp at h; done)
    | (cases h; simp)
    | exact absurd h (atEof_ne_ok _ _ _ _ _ _)

theorem mapLoop_le (env : Env) (k : KeyKind) (de : Bytes → Nat → TOut) (hde : Good de) (n : Nat) (first : Bool)
    (acc : List (TVal × TVal)) (rest : Bytes) (pos : Nat) (hn : rest.length < n) :
    ShrLe rest pos (mapLoop env k de n first acc rest pos) := by
  induction n generalizing first acc rest pos with
  | zero => omega
  | succ n ih =>
    unfold mapLoop
    refine (hasNextKey_le env first rest pos).bind_le fun more r p hmore => ?_
    have hl := (hasNextKey_le env first rest pos).2 _ _ _ hmore
    split
    · exact ok_shrLe _ _ _
    · rename_i hm
      have hm' : more = true := by simpa using hm
      subst hm'
      have hne := hasNextKey_true env first rest pos r p hmore
      refine (deKey_le env k r p hne).bind_le fun kv r1 p1 h1 => ?_
      have hl1 := (deKey_le env k r p hne).2 _ _ _ h1
      refine (parseObjectColon_le env r1 p1).bind_le fun _ r2 p2 h2 => ?_
      have hl2 := (parseObjectColon_le env r1 p1).2 _ _ _ h2
      refine ((hde r2 p2).le.bind_le fun v r3 p3 h3 => ?_)
      have hl3 := (hde r2 p2).2 _ _ _ h3
      exact ih _ _ _ _ (by omega)

theorem deMap_shr (env : Env) (t : Nat) (visit : Bytes → Nat → TOut) (hv : ∀ r p, ShrLe r p (visit r p)) : Good (deMap env t visit) := by
  intro rest pos
  unfold deMap
  refine withPeek_shr fun b r p h => ?_
  split
  · split
    · exact err_shr
    · exact shr_after_skip h (closeWith_le env _ (endMap_le env) (hv r (p + 1)))
  · exact peekInvalidType_shr

/-! ## structs and enums -/

theorem ignoreValue_shr (env : Env) (rest : Bytes) (pos : Nat) : Shr rest pos (ignoreValue env rest pos) :=
  (machine_shr (ignEnv env) env.flt 0 init startable_init rest pos).map _

theorem mem_of_getElem? {α : Type} {l : List α} {i : Nat} {a : α} (h : l[i]? = some a) : a ∈ l :=
  List.mem_of_getElem? h

theorem structLoop_le (env : Env) (de : Schema → Bytes → Nat → TOut) (fs : List (Bytes × Schema))
    (hde : ∀ f ∈ fs, Good (de f.2)) (deny : Bool) (n : Nat) (first : Bool) (slots : List (Option TVal))
    (rest : Bytes) (pos : Nat) (hn : rest.length < n) : ShrLe rest pos (structLoop env de fs deny n first slots rest pos) := by
  induction n generalizing first slots rest pos with
  | zero => omega
  | succ n ih =>
    unfold structLoop
    refine (hasNextKey_le env first rest pos).bind_le fun more r p hmore => ?_
    have hl := (hasNextKey_le env first rest pos).2 _ _ _ hmore
    split
    · exact ok_shrLe _ _ _
    · rename_i hm
      have hm' : more = true := by simpa using hm
      subst hm'
      have hd := drop1 (hasNextKey_true env first rest pos r p hmore)
      have hps := parseStr_le env (r.drop 1) (p + 1)
      refine (hps.mono (by omega) (by omega) : ShrLe r p _).bind_le fun name r1 p1 h1 => ?_
      have hl1 := hps.2 _ _ _ h1
      split
      · split
        · exact raw_shr.le
        · refine (parseObjectColon_le env r1 p1).bind_le fun _ r2 p2 h2 => ?_
          have hl2 := (parseObjectColon_le env r1 p1).2 _ _ _ h2
          split
          · rename_i nm s hs
            have hg := hde _ (mem_of_getElem? hs)
            refine (hg r2 p2).le.bind_le fun v r3 p3 h3 => ?_
            have hl3 := (hg r2 p2).2 _ _ _ h3
            exact ih _ _ _ _ (by omega)
          · exact raw_shr.le
      · split
        · exact raw_shr.le
        · refine (parseObjectColon_le env r1 p1).bind_le fun _ r2 p2 h2 => ?_
          have hl2 := (parseObjectColon_le env r1 p1).2 _ _ _ h2
          refine (ignoreValue_shr env r2 p2).le.bind_le fun _ r3 p3 h3 => ?_
          have hl3 := (ignoreValue_shr env r2 p2).2 _ _ _ h3
          exact ih _ _ _ _ (by omega)

theorem structVisitMap_le (env : Env) (de : Schema → Bytes → Nat → TOut) (fs : List (Bytes × Schema))
    (hde : ∀ f ∈ fs, Good (de f.2)) (deny : Bool) (rest : Bytes) (pos : Nat) :
    ShrLe rest pos (structVisitMap env de fs deny rest pos) := by
  unfold structVisitMap
  refine (structLoop_le env de fs hde deny _ _ _ rest pos (by omega)).bind_le fun slots r p _ => ?_
  split
  · exact ok_shrLe _ _ _
  · exact raw_shr.le

theorem deStruct_shr (env : Env) (t : Nat) (de : Nat → Schema → Bytes → Nat → TOut) (fs : List (Bytes × Schema))
    (hde : ∀ f ∈ fs, ∀ d, Good (de d f.2)) (deny : Bool) : Good (deStruct env t de fs deny) := by
  intro rest pos
  unfold deStruct
  refine withPeek_shr fun b r p h => ?_
  split
  · split
    · exact err_shr
    · refine shr_after_skip h (closeWith_le env _ (endSeq_le env) ((tupleLoop_le env _ _ ?_ _ _ _ _).map _))
      intro s hs
      obtain ⟨f, hf, rfl⟩ := List.mem_map.mp hs
      exact hde f hf _
  · split
    · split
      · exact err_shr
      · exact shr_after_skip h (closeWith_le env _ (endMap_le env) (structVisitMap_le env _ fs (fun f hf => hde f hf _) deny _ _))
    · exact peekInvalidType_shr

/-- the schemas a variant shape mentions -/
def shapeSchemas : VariantShape → List Schema
  | .unit => []
  | .newtype s => [s]
  | .tuple ss => ss
  | .struct_ fs => fs.map (·.2)

theorem dePayload_shr (env : Env) (t : Nat) (de : Nat → Schema → Bytes → Nat → TOut) (sh : VariantShape)
    (hde : ∀ s ∈ shapeSchemas sh, ∀ d, Good (de d s)) : Good (dePayload env t de sh) := by
  intro rest pos
  unfold dePayload
  split
  · exact deUnit_shr env rest pos
  · exact hde _ (by simp [shapeSchemas]) _ rest pos
  · exact deSeq_shr env t _ (fun r p => (tupleLoop_le env _ _ (fun s hs => hde s (by simpa [shapeSchemas] using hs) _) _ _ _ _).map _) rest pos
  · refine deStruct_shr env t de _ (fun f hf d => hde f.2 ?_ d) false rest pos
    simp only [shapeSchemas, List.mem_map]
    exact ⟨f, hf, rfl⟩

theorem deEnum_shr (env : Env) (t : Nat) (de : Nat → Schema → Bytes → Nat → TOut) (vs : List (Bytes × VariantShape))
    (hde : ∀ v ∈ vs, ∀ s ∈ shapeSchemas v.2, ∀ d, Good (de d s)) : Good (deEnum env t de vs) := by
  intro rest pos
  unfold deEnum
  refine withPeek_shr fun b r p h => ?_
  split
  · split
    · exact err_shr
    · refine shr_after_skip h ?_
      refine (deVariantId_shr env _ r (p + 1)).le.bind_le fun iv r1 p1 _ => ?_
      refine (parseObjectColon_le env r1 p1).bind_le fun _ r2 p2 _ => ?_
      split
      · exact raw_shr.le
      · rename_i nm sh hs
        refine (dePayload_shr env (t + 1) de sh (hde _ (mem_of_getElem? hs)) r2 p2).le.bind_le fun payload r3 p3 _ => ?_
        refine withPeek_le fun c r4 q h4 => ?_
        split
        · have := skipWs_eq h4
          simp only [List.length_cons] at this
          exact ok_shrLe_of (by omega) (by omega)
        · exact err_shr.le
  · split
    · refine shr_skip h ((deVariantId_shr env _ (b :: r) p).bind_le fun iv r1 p1 _ => ?_)
      dsimp only
      split
      · exact ok_shrLe _ _ _
      · exact raw_shr.le
    · exact err_shr

/-! ## `deTyped` -/

mutual
theorem size_pos : ∀ s : Schema, 0 < Schema.size s
  | .bool | .int _ | .f64 | .f32 | .char | .string | .bytes | .unit | .unitStruct | .ignored | .any => by simp [Schema.size]
  | .option s | .newtype s | .seq s | .map _ s => by simp [Schema.size]
  | .tuple _ | .struct_ _ _ | .enum_ _ => by simp [Schema.size]
end

theorem size_mem_list : ∀ (ss : List Schema) (s : Schema), s ∈ ss → Schema.size s ≤ Schema.sizeList ss
  | [], _, h => by simp at h
  | x :: r, s, h => by
    simp only [Schema.sizeList]
    rcases List.mem_cons.mp h with rfl | h
    · omega
    · have := size_mem_list r s h; omega

theorem size_mem_fields : ∀ (fs : List (Bytes × Schema)) (f : Bytes × Schema), f ∈ fs → Schema.size f.2 ≤ Schema.sizeFields fs
  | [], _, h => by simp at h
  | (n, x) :: r, f, h => by
    simp only [Schema.sizeFields]
    rcases List.mem_cons.mp h with rfl | h
    · simp
    · have := size_mem_fields r f h; omega

theorem size_mem_variants : ∀ (vs : List (Bytes × VariantShape)) (v : Bytes × VariantShape), v ∈ vs →
    VariantShape.size v.2 ≤ Schema.sizeVariants vs
  | [], _, h => by simp at h
  | (n, x) :: r, v, h => by
    simp only [Schema.sizeVariants]
    rcases List.mem_cons.mp h with rfl | h
    · simp
    · have := size_mem_variants r v h; omega

theorem size_shape (sh : VariantShape) (s : Schema) (h : s ∈ shapeSchemas sh) : Schema.size s < VariantShape.size sh := by
  cases sh with
  | unit => simp [shapeSchemas] at h
  | newtype s' => simp [shapeSchemas] at h; subst h; simp [VariantShape.size]
  | tuple ss => simp only [shapeSchemas] at h; have := size_mem_list ss s h; simp only [VariantShape.size]; omega
  | struct_ fs =>
    simp only [shapeSchemas, List.mem_map] at h
    obtain ⟨f, hf, rfl⟩ := h
    have := size_mem_fields fs f hf
    simp only [VariantShape.size]; omega

/-! ### the rows of `deTyped` as equations between functions -/

section
variable (env : Env) (f t : Nat)
theorem deTyped_bool : deTyped env (f + 1) t .bool = deBool env := by funext r p; rfl
theorem deTyped_int (w : IntTy) : deTyped env (f + 1) t (.int w) = deInt env w := by funext r p; rfl
theorem deTyped_f64 : deTyped env (f + 1) t .f64 = deNumber env .f64 := by funext r p; rfl
theorem deTyped_f32 : deTyped env (f + 1) t .f32 = deNumber env .f32 := by funext r p; rfl
theorem deTyped_char : deTyped env (f + 1) t .char = deStr env FromValue.visitCharStr := by funext r p; rfl
theorem deTyped_string : deTyped env (f + 1) t .string = deStr env (fun x => .ok (.str x)) := by funext r p; rfl
theorem deTyped_bytes : deTyped env (f + 1) t .bytes = deBytes env t := by funext r p; rfl
theorem deTyped_unit : deTyped env (f + 1) t .unit = deUnit env := by funext r p; rfl
theorem deTyped_unitStruct : deTyped env (f + 1) t .unitStruct = deUnit env := by funext r p; rfl
theorem deTyped_newtype (s : Schema) : deTyped env (f + 1) t (.newtype s) = deTyped env f t s := by funext r p; rfl
theorem deTyped_option (s : Schema) : deTyped env (f + 1) t (.option s) = fun rest pos =>
    (match skipWs rest pos with
     | ([], p) => if env.flt then .io else (deTyped env f t s [] p).map .some
     | (b :: r, p) =>
       if b == 0x6e then (parseIdent env Gen.identNull r (p + 1)).bind fun _ r' p' => .ok .none r' p'
       else (deTyped env f t s (b :: r) p).map .some) := by funext r p; rfl
theorem deTyped_seq (s : Schema) : deTyped env (f + 1) t (.seq s) =
    deSeq env t (fun r p => (seqLoop env (deTyped env f (t + 1) s) (r.length + 1) true [] r p).map .seq) := by funext r p; rfl
theorem deTyped_tuple (ss : List Schema) : deTyped env (f + 1) t (.tuple ss) =
    deSeq env t (fun r p => (tupleLoop env (deTyped env f (t + 1)) ss true [] r p).map .seq) := by funext r p; rfl
theorem deTyped_map (k : KeyKind) (s : Schema) : deTyped env (f + 1) t (.map k s) =
    deMap env t (fun r p => (mapLoop env k (deTyped env f (t + 1) s) (r.length + 1) true [] r p).map .map) := by funext r p; rfl
theorem deTyped_struct (fs : List (Bytes × Schema)) (deny : Bool) : deTyped env (f + 1) t (.struct_ fs deny) =
    deStruct env t (deTyped env f) fs deny := by funext r p; rfl
theorem deTyped_enum (vs : List (Bytes × VariantShape)) : deTyped env (f + 1) t (.enum_ vs) =
    deEnum env t (deTyped env f) vs := by funext r p; rfl
theorem deTyped_ignored : deTyped env (f + 1) t .ignored = fun rest pos => (ignoreValue env rest pos).map fun _ => .ignored := by
  funext r p; rfl
theorem deTyped_any : deTyped env (f + 1) t .any = fun rest pos =>
    (machine (valEnv env) env.flt t { mode := .val .top, stack := padStack t } rest pos).map .any := by funext r p; rfl
end

/-- **fuel**: with fuel at least the size of the schema, `deTyped` never runs out of fuel, and every
    successful parse consumes at least one byte -/
theorem deTyped_good (env : Env) : ∀ (f : Nat) (s : Schema), Schema.size s ≤ f → ∀ t, Good (deTyped env f t s) := by
  intro f
  induction f with
  | zero => intro s hs; have := size_pos s; omega
  | succ f ih =>
    intro s hs t rest pos
    unfold deTyped
    split
    · exact deBool_shr env rest pos
    · exact deInt_shr env _ rest pos
    · exact deNumber_shr env _ rest pos
    · exact deNumber_shr env _ rest pos
    · exact deStr_shr env _ rest pos
    · exact deStr_shr env _ rest pos
    · exact deBytes_shr env t rest pos
    · rename_i s'
      have hs' : Schema.size s' ≤ f := by simp only [Schema.size] at hs; omega
      split
      · rename_i p h
        split
        · exact io_shr
        · exact shr_skip h ((ih s' hs' t [] p).map _)
      · rename_i b r p h
        split
        · exact shr_after_skip h (ident_then_ok _ _ _ _ _)
        · exact shr_skip h ((ih s' hs' t (b :: r) p).map _)
    · exact deUnit_shr env rest pos
    · exact deUnit_shr env rest pos
    · rename_i s'
      exact ih s' (by simp only [Schema.size] at hs; omega) t rest pos
    · rename_i s'
      have hs' : Schema.size s' ≤ f := by simp only [Schema.size] at hs; omega
      exact deSeq_shr env t _ (fun r p => (seqLoop_le env _ (ih s' hs' (t + 1)) _ _ _ _ _ (by omega)).map _) rest pos
    · rename_i ss
      refine deSeq_shr env t _ (fun r p => (tupleLoop_le env _ ss (fun s' hs' => ih s' ?_ (t + 1)) _ _ _ _).map _) rest pos
      have := size_mem_list ss s' hs'
      simp only [Schema.size] at hs; omega
    · rename_i k s'
      have hs' : Schema.size s' ≤ f := by simp only [Schema.size] at hs; omega
      exact deMap_shr env t _ (fun r p => (mapLoop_le env k _ (ih s' hs' (t + 1)) _ _ _ _ _ (by omega)).map _) rest pos
    · rename_i fs deny
      refine deStruct_shr env t _ fs (fun fl hf d => ih fl.2 ?_ d) deny rest pos
      have := size_mem_fields fs fl hf
      simp only [Schema.size] at hs; omega
    · rename_i vs
      refine deEnum_shr env t _ vs (fun v hv s' hs' d => ih s' ?_ d) rest pos
      have h1 := size_mem_variants vs v hv
      have h2 := size_shape v.2 s' hs'
      simp only [Schema.size] at hs; omega
    · exact (ignoreValue_shr env rest pos).map _
    · exact (machine_shr (valEnv env) env.flt t _ (startable_pad t) rest pos).map _

/-! ## extra fuel changes nothing -/

theorem tupleLoop_congr (env : Env) (de de' : Schema → Bytes → Nat → TOut) (ss : List Schema) (h : ∀ s ∈ ss, de s = de' s)
    (first : Bool) (acc : List TVal) (rest : Bytes) (pos : Nat) :
    tupleLoop env de ss first acc rest pos = tupleLoop env de' ss first acc rest pos := by
  induction ss generalizing first acc rest pos with
  | nil => simp [tupleLoop]
  | cons s ss ih =>
    simp only [tupleLoop, nextElement]
    rw [h s (by simp)]
    congr 1
    funext o r p
    cases o with
    | none => rfl
    | some v => exact ih (fun s' hs' => h s' (by simp [hs'])) _ _ _ _

theorem structLoop_congr (env : Env) (de de' : Schema → Bytes → Nat → TOut) (fs : List (Bytes × Schema))
    (h : ∀ f ∈ fs, de f.2 = de' f.2) (deny : Bool) (n : Nat) (first : Bool) (slots : List (Option TVal)) (rest : Bytes) (pos : Nat) :
    structLoop env de fs deny n first slots rest pos = structLoop env de' fs deny n first slots rest pos := by
  induction n generalizing first slots rest pos with
  | zero => simp [structLoop]
  | succ n ih =>
    simp only [structLoop]
    congr 1
    funext more r p
    split
    · rfl
    · congr 1
      funext name r1 p1
      split
      · split
        · rfl
        · congr 1
          funext _ r2 p2
          split
          · rename_i nm s hs
            rw [h _ (mem_of_getElem? hs)]
            congr 1
            funext v r3 p3
            exact ih _ _ _ _
          · rfl
      · split
        · rfl
        · congr 1
          funext _ r2 p2
          congr 1
          funext _ r3 p3
          exact ih _ _ _ _

theorem deStruct_congr (env : Env) (t : Nat) (de de' : Nat → Schema → Bytes → Nat → TOut) (fs : List (Bytes × Schema))
    (h : ∀ f ∈ fs, ∀ d, de d f.2 = de' d f.2) (deny : Bool) (rest : Bytes) (pos : Nat) :
    deStruct env t de fs deny rest pos = deStruct env t de' fs deny rest pos := by
  unfold deStruct structVisitMap
  have h1 : ∀ first acc r p, tupleLoop env (de (t + 1)) (fs.map (·.2)) first acc r p =
      tupleLoop env (de' (t + 1)) (fs.map (·.2)) first acc r p := fun first acc r p =>
    tupleLoop_congr env _ _ _ (fun s hs => by obtain ⟨f, hf, rfl⟩ := List.mem_map.mp hs; exact h f hf _) _ _ _ _
  have h2 : ∀ n first slots r p, structLoop env (de (t + 1)) fs deny n first slots r p =
      structLoop env (de' (t + 1)) fs deny n first slots r p := fun n first slots r p =>
    structLoop_congr env _ _ fs (fun f hf => h f hf _) deny n first slots r p
  simp only [h1, h2]

theorem dePayload_congr (env : Env) (t : Nat) (de de' : Nat → Schema → Bytes → Nat → TOut) (sh : VariantShape)
    (h : ∀ s ∈ shapeSchemas sh, ∀ d, de d s = de' d s) (rest : Bytes) (pos : Nat) :
    dePayload env t de sh rest pos = dePayload env t de' sh rest pos := by
  unfold dePayload
  split
  · rfl
  · rw [h _ (by simp [shapeSchemas])]
  · rename_i ss
    have h1 : ∀ first acc r p, tupleLoop env (de (t + 1)) ss first acc r p = tupleLoop env (de' (t + 1)) ss first acc r p :=
      fun first acc r p => tupleLoop_congr env _ _ _ (fun s hs => h s (by simpa [shapeSchemas] using hs) _) _ _ _ _
    simp only [h1]
  · rename_i fs
    exact deStruct_congr env t de de' fs (fun f hf d => h f.2 (by simp only [shapeSchemas, List.mem_map]; exact ⟨f, hf, rfl⟩) d) false rest pos

theorem deEnum_congr (env : Env) (t : Nat) (de de' : Nat → Schema → Bytes → Nat → TOut) (vs : List (Bytes × VariantShape))
    (h : ∀ v ∈ vs, ∀ s ∈ shapeSchemas v.2, ∀ d, de d s = de' d s) (rest : Bytes) (pos : Nat) :
    deEnum env t de vs rest pos = deEnum env t de' vs rest pos := by
  unfold deEnum
  congr 1
  funext b r p
  split
  · split
    · rfl
    · congr 1
      funext iv r1 p1
      dsimp only
      congr 1
      funext _ r2 p2
      split
      · rfl
      · rename_i nm sh hs
        rw [dePayload_congr env (t + 1) de de' sh (h _ (mem_of_getElem? hs))]
  · rfl

/-- with fuel at least the size of the schema, one more unit of fuel gives the same function -/
theorem deTyped_fuel_succ (env : Env) : ∀ (f : Nat) (s : Schema), Schema.size s ≤ f → ∀ t,
    deTyped env (f + 1) t s = deTyped env f t s := by
  intro f
  induction f with
  | zero => intro s hs; have := size_pos s; omega
  | succ f ih =>
    intro s hs t
    funext rest pos
    cases s with
    | option s' =>
      have := ih s' (by simp only [Schema.size] at hs; omega) t
      unfold deTyped
      simp only [this]
    | newtype s' =>
      have := ih s' (by simp only [Schema.size] at hs; omega) t
      unfold deTyped
      simp only [this]
    | seq s' =>
      have := ih s' (by simp only [Schema.size] at hs; omega) (t + 1)
      unfold deTyped
      simp only [this]
    | map k s' =>
      have := ih s' (by simp only [Schema.size] at hs; omega) (t + 1)
      unfold deTyped
      simp only [this]
    | tuple ss =>
      have h1 : ∀ first acc r p, tupleLoop env (deTyped env (f + 1) (t + 1)) ss first acc r p =
          tupleLoop env (deTyped env f (t + 1)) ss first acc r p := fun first acc r p =>
        tupleLoop_congr env _ _ _ (fun s' hs' => ih s' (by
          have := size_mem_list ss s' hs'; simp only [Schema.size] at hs; omega) (t + 1)) _ _ _ _
      unfold deTyped
      simp only [h1]
    | struct_ fs deny =>
      unfold deTyped
      dsimp only
      exact deStruct_congr env t _ _ fs (fun fl hf d => ih fl.2 (by
        have := size_mem_fields fs fl hf; simp only [Schema.size] at hs; omega) d) deny rest pos
    | enum_ vs =>
      unfold deTyped
      dsimp only
      exact deEnum_congr env t _ _ vs (fun v hv s' hs' d => ih s' (by
        have h1 := size_mem_variants vs v hv
        have h2 := size_shape v.2 s' hs'
        simp only [Schema.size] at hs; omega) d) rest pos
    | _ => unfold deTyped; rfl

theorem deTyped_fuel_ge (env : Env) (s : Schema) (t : Nat) : ∀ f, Schema.size s ≤ f →
    deTyped env f t s = deTyped env (Schema.size s) t s := by
  intro f hf
  induction f with
  | zero => have := size_pos s; omega
  | succ f ih =>
    rcases Nat.lt_or_ge f (Schema.size s) with h | h
    · have : f + 1 = Schema.size s := by omega
      rw [this]
    · rw [deTyped_fuel_succ env f s h t, ih h]

end SJ.Proofs.Typed
