import SJ.Proofs.FloatRound
/-!
# `f64_from_parts`, every exponent: `|result − s·10^e| ≤ 4.001·2^-53·(s·10^e) + 0.56·2^-1074`

Paths of the loop (`s ≥ 1`):
* `0 ≤ e ≤ 308`   : `s as f64 * POW10[e]`               — 3 roundings;
* `-308 ≤ e < 0`  : `s as f64 / POW10[-e]`              — 3 roundings, the quotient may be subnormal;
* `-616 ≤ e < -308`: `(s as f64 / 1e308) / POW10[-e-308]` — up to 5 roundings, both quotients may be
  subnormal; when the second table entry is inexact (`-e-308 ≥ 23`) the value is below `2^-1026`, so the
  fifth relative error is absorbed by the absolute term;
* `e < -616` : `±0`, and `s·10^e < 2^-1080`;
* `e ≥ 309`  : rejected.
-/
namespace SJ.Proofs.FloatQ
open SJ SJ.Spec.Ieee SJ.Spec.Decimal SJ.Model.FloatDefault SJ.Proofs.Ieee SJ.Proofs.FloatDefault

/-! ## The operands -/

theorem ofU64_near (s : Nat) (hs : s < 2 ^ 64) : Near u 0 (F64.mag (F64.ofU64 s) : ℚ) ((s : ℚ) * c) := by
  unfold Near
  rcases Nat.eq_zero_or_pos s with h0 | hs1
  · subst h0
    rw [ofU64_zero]
    have : F64.mag 0 = 0 := zero_facts.2.2.1
    rw [this]; simp
  · have h := ofU64_rel s hs1 hs
    have hq : ((2 ^ 53 * adiff (F64.mag (F64.ofU64 s)) (s * 2 ^ 1074) : Nat) : ℚ)
        ≤ ((s * 2 ^ 1074 : Nat) : ℚ) := by exact_mod_cast h
    rw [Nat.cast_mul, adiff_cast] at hq
    push_cast at hq
    rw [two_pow_eq_c] at hq
    unfold u
    rw [add_zero, div_mul_eq_mul_div, one_mul, le_div_iff₀ (by positivity)]
    linarith

theorem pow_mag_pos (k : Nat) (hk : k < 309) : (0 : ℚ) < (F64.mag (litPow10 k) : ℚ) := by
  obtain ⟨_, _, _, hm⟩ := litPow10_facts k hk
  have : 0 < F64.mag (litPow10 k) := by have := two_pow_pos' 1074; omega
  exact_mod_cast this

theorem pow_near (k : Nat) (hk : k < 309) :
    Near u 0 ((F64.mag (litPow10 k) : ℚ) / c) ((10 : ℚ) ^ k) := by
  obtain ⟨h1, h2⟩ := litPow10_rel k hk
  have q1 : ((2 ^ 53 * F64.mag (litPow10 k) : Nat) : ℚ) ≤ (((2 ^ 53 + 1) * (10 ^ k * 2 ^ 1074) : Nat) : ℚ) := by
    exact_mod_cast h1
  have q2 : (((2 ^ 53 - 1) * (10 ^ k * 2 ^ 1074) : Nat) : ℚ) ≤ ((2 ^ 53 * F64.mag (litPow10 k) : Nat) : ℚ) := by
    exact_mod_cast h2
  have e1 : (((2 ^ 53 - 1 : Nat)) : ℚ) = 2 ^ 53 - 1 := by norm_num
  rw [Nat.cast_mul, Nat.cast_mul, e1] at q2
  push_cast at q1 q2
  rw [two_pow_eq_c] at q1 q2
  have hcp := c_pos
  unfold Near u
  rw [add_zero]
  have e : (F64.mag (litPow10 k) : ℚ) / c - 10 ^ k = ((F64.mag (litPow10 k) : ℚ) - 10 ^ k * c) / c := by
    field_simp
  rw [e, abs_div, abs_of_pos hcp, div_le_iff₀ hcp, abs_le]
  have e3 : (1 : ℚ) / 2 ^ 53 * 10 ^ k * c = (10 ^ k * c) / 2 ^ 53 := by ring
  rw [e3]
  constructor
  · rw [neg_le, neg_sub, sub_le_iff_le_add, div_add' _ _ _ (by positivity), le_div_iff₀ (by positivity)]
    linarith
  · rw [sub_le_iff_le_add, div_add' _ _ _ (by positivity), le_div_iff₀ (by positivity)]
    linarith

theorem pow_exact (k : Nat) (hk : k ≤ 22) : (F64.mag (litPow10 k) : ℚ) / c = (10 : ℚ) ^ k := by
  rw [litPow10_exact k hk]
  push_cast
  rw [two_pow_eq_c]
  have := c_pos
  field_simp

/-! ## The two-step path -/

/-- `-616 ≤ e ≤ -309`, `s ≥ 1`: one `/= 1e308` round (the accumulator `s as f64` is not zero), then the
    table division -/
theorem f64FromParts_two_step (positive : Bool) (s : Nat) (e : Int) (hs1 : 1 ≤ s) (hs : s < 2 ^ 64)
    (he1 : -616 ≤ e) (he2 : e ≤ -309) :
    ∃ r1, roundNE64 false (F64.mag (F64.ofU64 s)) (F64.mag (litPow10 308)) = some r1 ∧
       f64FromParts positive s e =
         roundNE64 (!positive) (F64.mag r1) (F64.mag (litPow10 (e + 308).natAbs)) := by
  obtain ⟨n, hn⟩ : ∃ n, fuelFor e = n + 1 + 1 := ⟨e.natAbs, rfl⟩
  have hbig : Gen.fromPartsBigExp = 308 := rfl
  have hstep : (Gen.fromPartsStep : Int) = 308 := rfl
  have hidx : ¬ wrappingAbsUsize e < 309 := by
    unfold wrappingAbsUsize i32Min; split <;> omega
  obtain ⟨j, hj⟩ : ∃ j : Nat, e + 308 = -(j : Int) ∧ 1 ≤ j ∧ j ≤ 308 := ⟨(e + 308).natAbs, by omega⟩
  have hidx' : wrappingAbsUsize (e + 308) = j := by
    rw [wrappingAbsUsize_small _ (by omega) (by omega)]; omega
  have hjn : (e + 308).natAbs = j := by omega
  obtain ⟨_, hf0, hs0⟩ := F64.ofU64_finite s hs
  obtain ⟨hp8, hps8, hpz8, hpm8⟩ := litPow10_facts 308 (by decide)
  obtain ⟨hpj, hpsj, hpzj, hpmj⟩ := litPow10_facts j (by omega)
  obtain ⟨hf1, hs1'⟩ := div_pow_finite _ _ hf0 hs0 hp8 hps8 hpz8 hpm8
  have hB8 : 0 < F64.mag (litPow10 308) := by have := two_pow_pos' 1074; omega
  have hBj : 0 < F64.mag (litPow10 j) := by have := two_pow_pos' 1074; omega
  have hdf := F64.div_finite _ _ hf0 hp8 hpz8
  rw [hs0, hps8] at hdf
  have hr1 : roundNE64 false (F64.mag (F64.ofU64 s)) (F64.mag (litPow10 308))
      = some (F64.div (F64.ofU64 s) (litPow10 308)) := by
    rcases roundOrInf_cases (false != false) (F64.mag (F64.ofU64 s)) (F64.mag (litPow10 308)) hB8 with
      ⟨_, hr, _, _⟩ | ⟨_, hinf⟩
    · rw [hdf]; exact hr
    · rw [hdf, hinf, F64.inf_not_finite] at hf1; cases hf1
  refine ⟨_, hr1, ?_⟩
  obtain ⟨hf2, _⟩ := div_pow_finite _ _ hf1 hs1' hpj hpsj hpzj hpmj
  have hdf2 := F64.div_finite _ _ hf1 hpj hpzj
  rw [hs1', hpsj] at hdf2
  unfold f64FromParts
  rw [hn, loop_none_arm _ _ e hidx, ofU64_not_zero s hs1 hs]
  simp only [Bool.false_eq_true, if_false]
  rw [if_neg (by omega), hbig, hstep, loop_some_arm _ _ _ (by rw [hidx']; omega), if_neg (by omega),
    hidx', hjn]
  simp only
  generalize F64.div (F64.ofU64 s) (litPow10 308) = f1 at hf2 hdf2 ⊢
  rcases roundOrInf_cases (false != false) (F64.mag f1) (F64.mag (litPow10 j)) hBj with
    ⟨_, h1, _, _⟩ | ⟨_, hinf⟩
  · rw [hdf2]
    rw [show (false != false) = false from rfl] at h1 ⊢
    cases positive
    · simp only [Bool.false_eq_true, if_false, Bool.not_false]
      have := roundNE64_neg false (F64.mag f1) (F64.mag (litPow10 j))
      rw [h1] at this; exact this
    · simp only [if_true, Bool.not_true]; exact h1.symm
  · rw [hdf2, hinf, F64.inf_not_finite] at hf2; cases hf2

/-! ## The error bound of every path -/

/-- relative part of the bound met by every path: `4.001·2^-53` -/
def αE : ℚ := 4001 / 1000 * u
/-- absolute part, in units of `2^-1074` -/
def hE : ℚ := 56 / 100

theorem zpow_neg_nat (k : Nat) : (10 : ℚ) ^ (-(k : Int)) = 1 / (10 : ℚ) ^ k := by
  rw [zpow_neg, zpow_natCast, one_div]

theorem sc_nonneg (s : Nat) : 0 ≤ (s : ℚ) * c := mul_nonneg (Nat.cast_nonneg s) (le_of_lt c_pos)
theorem p10_pos (k : Nat) : (0 : ℚ) < (10 : ℚ) ^ k := by positivity

/-- `0 ≤ e ≤ 308` -/
theorem mul_near (positive : Bool) (s k : Nat) (r : UInt64) (hs : s < 2 ^ 64) (hk : k ≤ 308)
    (h : f64FromParts positive s (k : Int) = some r) :
    Near αE hE (F64.mag r : ℚ) ((s : ℚ) * (10 : ℚ) ^ k * c) := by
  rw [f64FromParts_mul positive s k hs (by omega) (by omega)] at h
  have hkk : ((k : Int)).natAbs = k := by omega
  rw [hkk] at h
  have hcc : 0 < 2 ^ 1074 * 2 ^ 1074 := Nat.mul_pos (two_pow_pos' _) (two_pow_pos' _)
  have hr := round_near _ _ _ hcc r h
  have hcp := c_pos
  have hA := ofU64_near s hs
  have hB := pow_near k (by omega)
  have hq := near_prod (X := (s : ℚ) * c) (T := (10 : ℚ) ^ k) (sc_nonneg s) (le_of_lt (p10_pos k))
    (le_of_lt u_pos) hA hB
  have e : ((F64.mag (F64.ofU64 s) * F64.mag (litPow10 k) : Nat) : ℚ) * c / ((2 ^ 1074 * 2 ^ 1074 : Nat) : ℚ)
      = (F64.mag (F64.ofU64 s) : ℚ) * ((F64.mag (litPow10 k) : ℚ) / c) := by
    push_cast
    rw [two_pow_eq_c]
    field_simp
  rw [e] at hr
  have hn := near_round hr hq
  have hx : 0 ≤ (s : ℚ) * c * (10 : ℚ) ^ k := mul_nonneg (sc_nonneg s) (le_of_lt (p10_pos k))
  have e2 : (s : ℚ) * c * (10 : ℚ) ^ k = (s : ℚ) * (10 : ℚ) ^ k * c := by ring
  rw [e2] at hn hx
  refine near_mono hx ?_ ?_ hn
  · unfold αE u; norm_num
  · unfold hE u; norm_num

/-- `-308 ≤ e < 0` -/
theorem div_near (positive : Bool) (s k : Nat) (r : UInt64) (hs : s < 2 ^ 64) (hk1 : 1 ≤ k)
    (hk : k ≤ 308) (h : f64FromParts positive s (-(k : Int)) = some r) :
    Near αE hE (F64.mag r : ℚ) ((s : ℚ) / (10 : ℚ) ^ k * c) := by
  rw [f64FromParts_div positive s _ hs (by omega) (by omega)] at h
  have hkk : (-(k : Int)).natAbs = k := by omega
  rw [hkk] at h
  have hBp := pow_mag_pos k (by omega)
  have hBn : 0 < F64.mag (litPow10 k) := by exact_mod_cast hBp
  have hr := round_near _ _ _ hBn r h
  have hcp := c_pos
  have hA := ofU64_near s hs
  have hB := pow_near k (by omega)
  have hu1 : u < 1 := by unfold u; norm_num
  have hq := near_quot (X := (s : ℚ) * c) (T := (10 : ℚ) ^ k) (sc_nonneg s) (p10_pos k)
    (le_of_lt u_pos) (le_refl 0) hu1 hA hB
  have e : (F64.mag (F64.ofU64 s) : ℚ) * c / (F64.mag (litPow10 k) : ℚ)
      = (F64.mag (F64.ofU64 s) : ℚ) / ((F64.mag (litPow10 k) : ℚ) / c) := by
    field_simp
  rw [e] at hr
  have hn := near_round hr hq
  have hx : 0 ≤ (s : ℚ) * c / (10 : ℚ) ^ k := div_nonneg (sc_nonneg s) (le_of_lt (p10_pos k))
  have e2 : (s : ℚ) * c / (10 : ℚ) ^ k = (s : ℚ) / (10 : ℚ) ^ k * c := by ring
  rw [e2] at hn hx
  refine near_mono hx ?_ ?_ hn
  · unfold αE u; norm_num
  · unfold hE u; norm_num

/-- after `s as f64 / 1e308`: `3.0001·2^-53` relative, half a unit absolute -/
theorem first_quot_near (s : Nat) (r1 : UInt64) (hs : s < 2 ^ 64)
    (hr1 : roundNE64 false (F64.mag (F64.ofU64 s)) (F64.mag (litPow10 308)) = some r1) :
    Near (30001 / 10000 * u) (1 / 2) (F64.mag r1 : ℚ) ((s : ℚ) * c / (10 : ℚ) ^ 308) := by
  have hBp := pow_mag_pos 308 (by decide)
  have hBn : 0 < F64.mag (litPow10 308) := by exact_mod_cast hBp
  have hr := round_near _ _ _ hBn r1 hr1
  have hcp := c_pos
  have hu1 : u < 1 := by unfold u; norm_num
  have hq := near_quot (X := (s : ℚ) * c) (T := (10 : ℚ) ^ 308) (sc_nonneg s) (p10_pos 308)
    (le_of_lt u_pos) (le_refl 0) hu1 (ofU64_near s hs) (pow_near 308 (by decide))
  have e : (F64.mag (F64.ofU64 s) : ℚ) * c / (F64.mag (litPow10 308) : ℚ)
      = (F64.mag (F64.ofU64 s) : ℚ) / ((F64.mag (litPow10 308) : ℚ) / c) := by
    field_simp
  rw [e] at hr
  have hn := near_round hr hq
  have hx : 0 ≤ (s : ℚ) * c / (10 : ℚ) ^ 308 := div_nonneg (sc_nonneg s) (le_of_lt (p10_pos 308))
  refine near_mono hx ?_ ?_ hn
  · unfold u; norm_num
  · rw [zero_div, mul_zero, zero_add]

theorem ten_le_pow (j : Nat) (hj : 1 ≤ j) : (10 : ℚ) ≤ (10 : ℚ) ^ j := by
  calc (10 : ℚ) = 10 ^ 1 := by norm_num
    _ ≤ 10 ^ j := pow_le_pow_right₀ (by norm_num) hj

theorem two_num : (2 ^ 64 * 2 ^ 1074 : Nat) ≤ 2 ^ 48 * (10 ^ 308 * 10 ^ 23) := by decide +kernel

/-- `-616 ≤ e ≤ -309`, `e = -(308 + j)` -/
theorem two_near (positive : Bool) (s j : Nat) (r : UInt64) (hs1 : 1 ≤ s) (hs : s < 2 ^ 64)
    (hj1 : 1 ≤ j) (hj : j ≤ 308) (h : f64FromParts positive s (-((308 + j : Nat) : Int)) = some r) :
    Near αE hE (F64.mag r : ℚ) ((s : ℚ) * c / (10 : ℚ) ^ 308 / (10 : ℚ) ^ j) := by
  obtain ⟨r1, hr1, heq⟩ := f64FromParts_two_step positive s (-((308 + j : Nat) : Int)) hs1 hs (by omega) (by omega)
  have hjn : (-((308 + j : Nat) : Int) + 308).natAbs = j := by omega
  rw [hjn] at heq
  rw [heq] at h
  have h1 := first_quot_near s r1 hs hr1
  have hBp := pow_mag_pos j (by omega)
  have hBn : 0 < F64.mag (litPow10 j) := by exact_mod_cast hBp
  have hr := round_near _ _ _ hBn r h
  have hcp := c_pos
  have e : (F64.mag r1 : ℚ) * c / (F64.mag (litPow10 j) : ℚ)
      = (F64.mag r1 : ℚ) / ((F64.mag (litPow10 j) : ℚ) / c) := by
    field_simp
  rw [e] at hr
  have hx1 : 0 ≤ (s : ℚ) * c / (10 : ℚ) ^ 308 := div_nonneg (sc_nonneg s) (le_of_lt (p10_pos 308))
  have hx : 0 ≤ (s : ℚ) * c / (10 : ℚ) ^ 308 / (10 : ℚ) ^ j := div_nonneg hx1 (le_of_lt (p10_pos j))
  have h10 := ten_le_pow j hj1
  have hpj := p10_pos j
  have hg : 0 ≤ 30001 / 10000 * u := by unfold u; norm_num
  rcases Nat.lt_or_ge j 23 with hsmall | hlarge
  · -- the table entry is exact
    have hB : Near 0 0 ((F64.mag (litPow10 j) : ℚ) / c) ((10 : ℚ) ^ j) := by
      unfold Near; rw [pow_exact j (by omega)]; simp
    have hq := near_quot hx1 hpj hg (by norm_num : (0 : ℚ) ≤ 1 / 2) (by norm_num : (0 : ℚ) < 1) h1 hB
    have hn := near_round hr hq
    refine near_mono hx ?_ ?_ hn
    · unfold αE u; norm_num
    · have h3 : (1 : ℚ) / 2 / ((1 - 0) * 10 ^ j) ≤ 1 / 20 := by
        rw [sub_zero, one_mul, div_le_iff₀ hpj]; linarith
      have hu : (1 + u) ≤ 11 / 10 := by unfold u; norm_num
      have h4 : (1 + u) * ((1 : ℚ) / 2 / ((1 - 0) * 10 ^ j)) ≤ 11 / 10 * (1 / 20) :=
        mul_le_mul hu h3 (by positivity) (by norm_num)
      unfold hE; linarith
  · -- inexact table entry: the value is tiny
    have hu1 : u < 1 := by unfold u; norm_num
    have hq := near_quot hx1 hpj hg (by norm_num : (0 : ℚ) ≤ 1 / 2) hu1 h1 (pow_near j (by omega))
    have hn := near_round hr hq
    have hn' : Near (5003 / 1000 * u) (51 / 100) (F64.mag r : ℚ) ((s : ℚ) * c / (10 : ℚ) ^ 308 / (10 : ℚ) ^ j) := by
      refine near_mono hx ?_ ?_ hn
      · unfold u; norm_num
      · have hden : (0 : ℚ) < (1 - u) * 10 ^ j := mul_pos (by linarith) hpj
        have h3 : (1 : ℚ) / 2 / ((1 - u) * 10 ^ j) ≤ 1 / 200 := by
          rw [div_le_iff₀ hden]
          have : (10 : ℚ) ^ 23 ≤ 10 ^ j := pow_le_pow_right₀ (by norm_num) hlarge
          have hu9 : (9 : ℚ) / 10 ≤ 1 - u := by unfold u; norm_num
          have : (9 : ℚ) / 10 * 10 ^ 23 ≤ (1 - u) * 10 ^ j := mul_le_mul hu9 this (by positivity) (by linarith)
          norm_num at this ⊢
          linarith
        have hu : (1 + u) ≤ 11 / 10 := by unfold u; norm_num
        have h4 : (1 + u) * ((1 : ℚ) / 2 / ((1 - u) * 10 ^ j)) ≤ 11 / 10 * (1 / 200) :=
          mul_le_mul hu h3 (div_nonneg (by norm_num) (le_of_lt hden)) (by norm_num)
        linarith
    -- x ≤ 2^48 units
    have hxs : (s : ℚ) * c / (10 : ℚ) ^ 308 / (10 : ℚ) ^ j ≤ 2 ^ 48 := by
      rw [div_div, div_le_iff₀ (mul_pos (p10_pos 308) hpj)]
      have hsq : (s : ℚ) ≤ 2 ^ 64 := by exact_mod_cast (le_of_lt hs)
      have h1 : (s : ℚ) * c ≤ 2 ^ 64 * c := mul_le_mul_of_nonneg_right hsq (le_of_lt hcp)
      have h2 : (2 : ℚ) ^ 64 * (2 : ℚ) ^ 1074 ≤ 2 ^ 48 * (10 ^ 308 * 10 ^ 23) := by
        exact_mod_cast two_num
      rw [two_pow_eq_c] at h2
      have h3 : (10 : ℚ) ^ 23 ≤ 10 ^ j := pow_le_pow_right₀ (by norm_num) hlarge
      have h4 : (2 : ℚ) ^ 48 * (10 ^ 308 * 10 ^ 23) ≤ 2 ^ 48 * (10 ^ 308 * 10 ^ j) :=
        mul_le_mul_of_nonneg_left (mul_le_mul_of_nonneg_left h3 (le_of_lt (p10_pos 308))) (by positivity)
      exact le_trans h1 (le_trans h2 h4)
    unfold Near at hn' ⊢
    have hux : 1002 / 1000 * u * ((s : ℚ) * c / (10 : ℚ) ^ 308 / (10 : ℚ) ^ j) ≤ 1002 / 1000 * u * 2 ^ 48 :=
      mul_le_mul_of_nonneg_left hxs (by unfold u; norm_num)
    have hnum : 1002 / 1000 * u * 2 ^ 48 ≤ 5 / 100 := by unfold u; norm_num
    unfold αE hE
    linarith

theorem far_num : (2 ^ 64 * 2 ^ 1074 * 100 : Nat) ≤ 56 * 10 ^ 617 := by decide +kernel

/-- **Every path.** Whatever `f64_from_parts(positive, s, e)` returns is within
    `4.001·2^-53·x + 0.56·2^-1074` of `x = s·10^e` (magnitudes in units of `2^-1074`). -/
theorem parts_near (positive : Bool) (s : Nat) (e : Int) (r : UInt64) (hs : s < 2 ^ 64)
    (h : f64FromParts positive s e = some r) :
    Near αE hE (F64.mag r : ℚ) ((s : ℚ) * (10 : ℚ) ^ e * c) := by
  have hcp := c_pos
  rcases Nat.eq_zero_or_pos s with h0 | hs1
  · subst h0
    rw [f64FromParts_zero] at h
    cases h
    rw [F64.zero_mag]
    unfold Near hE; simp; norm_num
  rcases Int.lt_or_le e 0 with hneg | hpos
  · obtain ⟨k, hk⟩ : ∃ k : Nat, e = -(k : Int) := ⟨e.natAbs, by omega⟩
    subst hk
    rw [zpow_neg_nat]
    rcases Nat.lt_or_ge k 309 with h1 | h1
    · have := div_near positive s k r hs (by omega) (by omega) h
      have e2 : (s : ℚ) * (1 / (10 : ℚ) ^ k) * c = (s : ℚ) / (10 : ℚ) ^ k * c := by ring
      rw [e2]; exact this
    rcases Nat.lt_or_ge k 617 with h2 | h2
    · obtain ⟨j, hj⟩ : ∃ j, k = 308 + j := ⟨k - 308, by omega⟩
      subst hj
      have := two_near positive s j r hs1 hs (by omega) (by omega) h
      have e2 : (s : ℚ) * (1 / (10 : ℚ) ^ (308 + j)) * c = (s : ℚ) * c / (10 : ℚ) ^ 308 / (10 : ℚ) ^ j := by
        rw [pow_add]; field_simp
      rw [e2]; exact this
    · rw [f64FromParts_far_underflow positive s _ hs (by omega)] at h
      cases h
      rw [F64.zero_mag]
      have hx : 0 ≤ (s : ℚ) * (1 / (10 : ℚ) ^ k) * c :=
        mul_nonneg (mul_nonneg (Nat.cast_nonneg s) (by positivity)) (le_of_lt hcp)
      have hxs : (s : ℚ) * (1 / (10 : ℚ) ^ k) * c ≤ hE := by
        have e2 : (s : ℚ) * (1 / (10 : ℚ) ^ k) * c = (s : ℚ) * c / (10 : ℚ) ^ k := by ring
        rw [e2, div_le_iff₀ (p10_pos k)]
        have hsq : (s : ℚ) ≤ 2 ^ 64 := by exact_mod_cast (le_of_lt hs)
        have h1 : (s : ℚ) * c ≤ 2 ^ 64 * c := mul_le_mul_of_nonneg_right hsq (le_of_lt hcp)
        have h2' : (2 : ℚ) ^ 64 * (2 : ℚ) ^ 1074 * 100 ≤ 56 * 10 ^ 617 := by
          exact_mod_cast far_num
        rw [two_pow_eq_c] at h2'
        have h3 : (10 : ℚ) ^ 617 ≤ 10 ^ k := pow_le_pow_right₀ (by norm_num) h2
        unfold hE
        linarith
      unfold Near
      rw [Nat.cast_zero, zero_sub, abs_neg, abs_of_nonneg hx]
      have : 0 ≤ αE * ((s : ℚ) * (1 / (10 : ℚ) ^ k) * c) := mul_nonneg (by unfold αE u; norm_num) hx
      linarith
  · obtain ⟨k, hk⟩ : ∃ k : Nat, e = (k : Int) := ⟨e.natAbs, by omega⟩
    subst hk
    rw [zpow_natCast]
    rcases Nat.lt_or_ge k 309 with h1 | h1
    · exact mul_near positive s k r hs (by omega) h
    · rw [f64FromParts_big positive s _ hs (by omega), if_neg (by omega)] at h
      cases h

end SJ.Proofs.FloatQ
