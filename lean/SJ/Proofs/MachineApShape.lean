import SJ.Proofs.MachineApSim
import SJ.Proofs.MachineApCst
import SJ.Proofs.Sound.Sound
/-!
# The shape clause of the accepted language, stated lexically

`TailsOK` (Proofs/MachineApSim.lean) speaks of the positions where the byte-step machine has read a first key equal to
the token. For a text the machine accepts these are exactly the positions the lexical scan finds
(`Spec.PrivateToken.TokenObjectsShaped`: a string literal directly after a `{`, outside string literals, that decodes
to the token): `tails_iff_shaped`.

* machine ⇒ scan: at a trigger the soundness invariant of C02 (`Sound.Inv`, `feed_inv`) decomposes the consumed bytes as
  `pre { ws "key" ws` with `pre` a value position (`ValPos`); over a value position the scan is outside strings
  (`valpos_lex`, from the mode part of the scan lemmas on derivations, `mode_derives`).
* scan ⇒ machine: the scan in mode `out true` means the machine is in `objFirst` (`Sync`), from where `drive_key` reads
  the key; an accepting run must then see `ws :`.
-/
namespace SJ.Proofs.MachineAp
open SJ SJ.Gen SJ.Model SJ.Model.Machine SJ.Proofs.Sound
open SJ.Spec.Grammar (CST StrItem StrWF strBytes Ws IsNumber Derives Elems Members JsonText)
open SJ.Spec.Denote (decodeItems)
open SJ.Spec.PrivateToken (TokenTail TokenObjectsShaped LexSt LMode lexStep lexRun)
open SJ.Model.MachineAp (triggered)
open SJ.Proofs.Complete (Feeds feedS)

/-! ## the scan's mode over derivations (no hypothesis on tokens) -/

/-- over `bs` the scan ends outside strings, not after a `{` -/
def QM (l : LexSt) (bs : Bytes) : Prop := (lexRun l bs).mode = .out false

theorem QM.append {l : LexSt} {xs ys : Bytes} (_h1 : QM l xs) (h2 : QM (lexRun l xs) ys) : QM l (xs ++ ys) := by
  unfold QM at *; rw [lexRun_append]; exact h2

theorem Quiet.qm {l : LexSt} {bs : Bytes} (h : Quiet l bs) : QM l bs := h.1

theorem qm_ws (l : LexSt) (w : Bytes) (hl : l.mode = .out false) (hw : Ws w) : QM l w := (quiet_ws l w hl hw).qm

theorem qm_one (l : LexSt) (br : Bool) (b : UInt8) (hl : l.mode = .out br) (h1 : (b == 0x22) = false)
    (h2 : (b == 0x7b) = false) (h3 : Spec.Grammar.isWs b = false) : QM l [b] := (quiet_one l br b hl h1 h2 h3).qm

theorem qm_string (l : LexSt) (br : Bool) (items : List StrItem) (hl : l.mode = .out br) (hwf : StrWF items = true) :
    QM l (strBytes items) := (lex_string l br items hl hwf).1

def MV (vb : Bytes) (_t : CST) : Prop := ∀ l : LexSt, l.mode = .out false → QM l vb
def ME (b : Bytes) (_xs : List CST) : Prop := ∀ l : LexSt, l.mode = .out false → QM l b
def MM (b : Bytes) (_ms : List (List StrItem × CST)) : Prop := ∀ (first : Bool) (l : LexSt), l.mode = .out first → QM l b

theorem member_qm (k : List StrItem) (hk : StrWF k = true) (w₁ w₂ vb : Bytes) (t : CST) (h₁ : Ws w₁) (h₂ : Ws w₂)
    (ihv : MV vb t) (first : Bool) (l : LexSt) (hl : l.mode = .out first) :
    QM l (strBytes k ++ w₁ ++ [0x3a] ++ w₂ ++ vb) := by
  have q0 : QM l (strBytes k) := qm_string l first k hl hk
  have q1 := q0.append (qm_ws _ w₁ q0 h₁)
  have q2 := q1.append (qm_one _ false 0x3a q1 (by decide) (by decide) (by decide))
  have q3 := q2.append (qm_ws _ w₂ q2 h₂)
  exact q3.append (ihv _ q3)

theorem brace_open (l : LexSt) (br : Bool) (w : Bytes) (hl : l.mode = .out br) (hw : Ws w) :
    (lexRun l ([0x7b] ++ w)).mode = .out true := by
  obtain ⟨b1, _⟩ := lex_brace l br hl
  rw [List.singleton_append, lexRun_cons, lexRun_ws w _ true b1 hw]; exact b1

theorem mode_all :
    (∀ vb t, Derives vb t → MV vb t) ∧ (∀ b xs, Elems b xs → ME b xs) ∧ (∀ b ms, Members b ms → MM b ms) := by
  have c1 : MV [0x6e, 0x75, 0x6c, 0x6c] .null := fun l hl => (quiet_plain _ l hl (by decide)).qm
  have c2 : MV [0x74, 0x72, 0x75, 0x65] .true_ := fun l hl => (quiet_plain _ l hl (by decide)).qm
  have c3 : MV [0x66, 0x61, 0x6c, 0x73, 0x65] .false_ := fun l hl => (quiet_plain _ l hl (by decide)).qm
  have c4 : ∀ (p : Spec.Grammar.NumParts) (_ : p.WF = true), MV p.bytes (.num p) :=
    fun p hp l hl => (quiet_plain _ l hl (number_plain p hp)).qm
  have c5 : ∀ (items : List StrItem) (_ : StrWF items = true), MV (strBytes items) (.str items) :=
    fun items hwf l hl => qm_string l false items hl hwf
  have c6 : ∀ (w : Bytes) (_ : Ws w), MV ([0x5b] ++ w ++ [0x5d]) (.arr []) := by
    intro w hw l hl
    have q1 : QM l [0x5b] := qm_one l false 0x5b hl (by decide) (by decide) (by decide)
    have q2 := q1.append (qm_ws _ w q1 hw)
    exact q2.append (qm_one _ false 0x5d q2 (by decide) (by decide) (by decide))
  have c7 : ∀ (w₁ body w₂ : Bytes) (xs : List CST) (_ : Ws w₁) (_ : Ws w₂) (_ : xs ≠ []) (_ : Elems body xs),
      ME body xs → MV ([0x5b] ++ w₁ ++ body ++ w₂ ++ [0x5d]) (.arr xs) := by
    intro w₁ body w₂ xs h₁ h₂ _ _ ih l hl
    have q1 : QM l [0x5b] := qm_one l false 0x5b hl (by decide) (by decide) (by decide)
    have q2 := q1.append (qm_ws _ w₁ q1 h₁)
    have q3 := q2.append (ih _ q2)
    have q4 := q3.append (qm_ws _ w₂ q3 h₂)
    exact q4.append (qm_one _ false 0x5d q4 (by decide) (by decide) (by decide))
  have c8 : ∀ (w : Bytes) (_ : Ws w), MV ([0x7b] ++ w ++ [0x7d]) (.obj []) := by
    intro w hw l hl
    have hopen := brace_open l false w hl hw
    have : QM (lexRun l ([0x7b] ++ w)) [0x7d] := qm_one _ true 0x7d hopen (by decide) (by decide) (by decide)
    unfold QM at this ⊢
    rw [lexRun_append]; exact this
  have c9 : ∀ (w₁ body w₂ : Bytes) (ms : List (List StrItem × CST)) (_ : Ws w₁) (_ : Ws w₂) (_ : ms ≠ [])
      (_ : Members body ms), MM body ms → MV ([0x7b] ++ w₁ ++ body ++ w₂ ++ [0x7d]) (.obj ms) := by
    intro w₁ body w₂ ms h₁ h₂ _ _ ih l hl
    have hopen := brace_open l false w₁ hl h₁
    have qb : QM (lexRun l ([0x7b] ++ w₁)) body := ih true _ hopen
    have q4 := qb.append (qm_ws _ w₂ qb h₂)
    have q5 := q4.append (qm_one _ false 0x7d q4 (by decide) (by decide) (by decide))
    unfold QM at q5 ⊢
    rw [show [0x7b] ++ w₁ ++ body ++ w₂ ++ [0x7d] = ([0x7b] ++ w₁) ++ (body ++ w₂ ++ [0x7d]) by simp, lexRun_append]
    exact q5
  have c10 : ∀ (bs : Bytes) (t : CST) (_ : Derives bs t), MV bs t → ME bs [t] := fun bs t _ ih l hl => ih l hl
  have c11 : ∀ (bs w₁ w₂ rest : Bytes) (t : CST) (ts : List CST) (_ : Derives bs t) (_ : Ws w₁) (_ : Ws w₂)
      (_ : Elems rest ts), MV bs t → ME rest ts → ME (bs ++ w₁ ++ [0x2c] ++ w₂ ++ rest) (t :: ts) := by
    intro bs w₁ w₂ rest t ts _ h₁ h₂ _ ihv ihr l hl
    have q1 := ihv l hl
    have q2 := q1.append (qm_ws _ w₁ q1 h₁)
    have q3 := q2.append (qm_one _ false 0x2c q2 (by decide) (by decide) (by decide))
    have q4 := q3.append (qm_ws _ w₂ q3 h₂)
    exact q4.append (ihr _ q4)
  have c12 : ∀ (k : List StrItem) (_ : StrWF k = true) (w₁ w₂ vb : Bytes) (t : CST) (_ : Ws w₁) (_ : Ws w₂)
      (_ : Derives vb t), MV vb t → MM (strBytes k ++ w₁ ++ [0x3a] ++ w₂ ++ vb) [(k, t)] :=
    fun k hk w₁ w₂ vb t h₁ h₂ _ ihv first l hl => member_qm k hk w₁ w₂ vb t h₁ h₂ ihv first l hl
  have c13 : ∀ (k : List StrItem) (_ : StrWF k = true) (w₁ w₂ vb w₃ w₄ rest : Bytes) (t : CST)
      (ms : List (List StrItem × CST)) (_ : Ws w₁) (_ : Ws w₂) (_ : Derives vb t) (_ : Ws w₃) (_ : Ws w₄)
      (_ : Members rest ms), MV vb t → MM rest ms →
      MM (strBytes k ++ w₁ ++ [0x3a] ++ w₂ ++ vb ++ w₃ ++ [0x2c] ++ w₄ ++ rest) ((k, t) :: ms) := by
    intro k hk w₁ w₂ vb w₃ w₄ rest t ms h₁ h₂ _ h₃ h₄ _ ihv ihr first l hl
    have q1 := member_qm k hk w₁ w₂ vb t h₁ h₂ ihv first l hl
    have q2 := q1.append (qm_ws _ w₃ q1 h₃)
    have q3 := q2.append (qm_one _ false 0x2c q2 (by decide) (by decide) (by decide))
    have q4 := q3.append (qm_ws _ w₄ q3 h₄)
    have q5 := q4.append (ihr false _ q4)
    simpa [List.append_assoc] using q5
  exact ⟨fun vb t h => Derives.rec (motive_1 := fun vb t _ => MV vb t) (motive_2 := fun b xs _ => ME b xs)
      (motive_3 := fun b ms _ => MM b ms) c1 c2 c3 c4 c5 c6 c7 c8 c9 c10 c11 c12 c13 h,
    fun b xs h => Elems.rec (motive_1 := fun vb t _ => MV vb t) (motive_2 := fun b xs _ => ME b xs)
      (motive_3 := fun b ms _ => MM b ms) c1 c2 c3 c4 c5 c6 c7 c8 c9 c10 c11 c12 c13 h,
    fun b ms h => Members.rec (motive_1 := fun vb t _ => MV vb t) (motive_2 := fun b xs _ => ME b xs)
      (motive_3 := fun b ms _ => MM b ms) c1 c2 c3 c4 c5 c6 c7 c8 c9 c10 c11 c12 c13 h⟩

theorem mode_derives {vb : Bytes} {t : CST} (h : Derives vb t) : MV vb t := mode_all.1 vb t h
theorem mode_elems {b : Bytes} {xs : List CST} (h : Elems b xs) : ME b xs := mode_all.2.1 b xs h
theorem mode_members {b : Bytes} {ms : List (List StrItem × CST)} (h : Members b ms) : MM b ms := mode_all.2.2 b ms h

/-! ## value positions -/

theorem qm_key_colon (l : LexSt) (br : Bool) (k : List StrItem) (w₁ w₂ : Bytes) (hl : l.mode = .out br)
    (hk : StrWF k = true) (h₁ : Ws w₁) (h₂ : Ws w₂) : QM l (strBytes k ++ w₁ ++ [0x3a] ++ w₂) := by
  have q0 : QM l (strBytes k) := qm_string l br k hl hk
  have q1 := q0.append (qm_ws _ w₁ q0 h₁)
  have q2 := q1.append (qm_one _ false 0x3a q1 (by decide) (by decide) (by decide))
  exact q2.append (qm_ws _ w₂ q2 h₂)

/-- up to a position where a value is expected, the scan is outside strings and not right after a `{` -/
theorem valpos_lex {env : Env} {fs : List Frame} {pre : Bytes} (h : ValPos env fs pre) : QM {} pre := by
  induction h with
  | top w hw => exact qm_ws {} w rfl hw
  | arr fs pre es inner cs _ _ hp hc ih =>
    subst hc
    have q1 := ih.append (qm_one _ false 0x5b ih (by decide) (by decide) (by decide))
    rcases hp with ⟨_, hw⟩ | ⟨inner', w₂, w₃, rfl, ⟨w₁, body, ts, rfl, hw₁, he, _⟩, hw₂, hw₃⟩
    · exact q1.append (qm_ws _ inner q1 hw)
    · have q2 := q1.append (qm_ws _ w₁ q1 hw₁)
      have q3 := q2.append (mode_elems he _ q2)
      have q4 := q3.append (qm_ws _ w₂ q3 hw₂)
      have q5 := q4.append (qm_one _ false 0x2c q4 (by decide) (by decide) (by decide))
      have q6 := q5.append (qm_ws _ w₃ q5 hw₃)
      simpa [List.append_assoc] using q6
  | obj fs pre mems inner k key w₁ w₂ cs _ _ hp hk _ h₁ h₂ hc ih =>
    subst hc
    rcases hp with ⟨_, hw⟩ | ⟨inner', w₃, w₄, rfl, ⟨w₀, body, ms, rfl, hw₀, hm, _⟩, hw₃, hw₄⟩
    · have hopen := brace_open (lexRun {} pre) false inner ih hw
      have q := qm_key_colon _ true k w₁ w₂ hopen hk h₁ h₂
      unfold QM at q ⊢
      rw [show pre ++ [0x7b] ++ inner ++ strBytes k ++ w₁ ++ [0x3a] ++ w₂ =
        pre ++ (([0x7b] ++ inner) ++ (strBytes k ++ w₁ ++ [0x3a] ++ w₂)) by simp, lexRun_append, lexRun_append]
      exact q
    · have hopen := brace_open (lexRun {} pre) false w₀ ih hw₀
      have qb : QM (lexRun (lexRun {} pre) ([0x7b] ++ w₀)) body := mode_members hm true _ hopen
      have q2 := qb.append (qm_ws _ w₃ qb hw₃)
      have q3 := q2.append (qm_one _ false 0x2c q2 (by decide) (by decide) (by decide))
      have q4 := q3.append (qm_ws _ w₄ q3 hw₄)
      have q5 := q4.append (qm_key_colon _ false k w₁ w₂ q4 hk h₁ h₂)
      unfold QM at q5 ⊢
      rw [show pre ++ [0x7b] ++ (w₀ ++ body ++ w₃ ++ [0x2c] ++ w₄) ++ strBytes k ++ w₁ ++ [0x3a] ++ w₂ =
        pre ++ (([0x7b] ++ w₀) ++ (body ++ w₃ ++ [0x2c] ++ w₄ ++ (strBytes k ++ w₁ ++ [0x3a] ++ w₂))) by simp,
        lexRun_append, lexRun_append]
      exact q5

/-! ## the scan along the machine's run -/

theorem sync_feeds (env : Env) (henv : env.tgt = .value) : ∀ (xs : Bytes) (l : LexSt) (s s' : St),
    (Sync env l s ∨ Doomed s) → Feeds env s xs s' → Sync env (lexRun l xs) s' ∨ Doomed s'
  | [], l, s, s', hs, h => by
    have : s = s' := by simpa [Feeds, feedS] using h
    subst this; exact hs
  | b :: xs, l, s, s', hs, h => by
    unfold Feeds at h
    simp only [feedS] at h
    cases h1 : step env s b with
    | error e => rw [h1] at h; cases h
    | ok s1 =>
      rw [h1] at h
      rw [lexRun_cons]
      exact sync_feeds env henv xs (lexStep l b) s1 s' (sync_step env henv l s b s1 hs h1) h

theorem doomed_step (env : Env) (s : St) (b : UInt8) (s' : St) (hd : Doomed s) (h : step env s b = .ok s') : Doomed s' := by
  unfold step at h
  cases h1 : step1 env s b with
  | next s1 => rw [h1] at h; simp only [Except.ok.injEq] at h; subst h; exact doomed_step1 env s b s1 hd h1
  | err c a => rw [h1] at h; cases h
  | again s1 =>
    exfalso
    obtain ⟨st, hm, _⟩ := hd
    obtain ⟨mode, fs⟩ := s
    simp only at hm
    subst hm
    simp only [step1] at h1
    exact stepStr_not_again env _ st b s1 h1

theorem doomed_no_ok (env : Env) : ∀ (bs : Bytes) (s : St) (j : Nat) (v : JV), Doomed s → run env s j bs ≠ .ok v
  | [], s, j, v, hd, h => by
    obtain ⟨st, hm, _⟩ := hd
    obtain ⟨mode, fs⟩ := s
    simp only at hm
    subst hm
    simp [run, finish, finishMode] at h
  | b :: bs, s, j, v, hd, h => by
    obtain ⟨s', hs, hr⟩ := run_cons_ok' env s j b bs v h
    exact doomed_no_ok env bs s' (j + 1) v (doomed_step env s b s' hd hs) hr

/-- the scan right after a `{` (whitespace apart): the machine is where the first key of an object is expected -/
theorem sync_out_true (env : Env) (l : LexSt) (s : St) (hs : Sync env l s) (hl : l.mode = .out true) :
    ∃ k0 fs, s = ⟨.objFirst, .obj [] k0 :: fs⟩ := by
  obtain ⟨mode, stk⟩ := s
  have hne : (LMode.out true) ≠ (LMode.out false) := by intro h; cases h
  cases mode with
  | objFirst =>
    obtain ⟨_, htop⟩ := hs
    simp only at htop
    cases stk with
    | nil => simp [topEmpty] at htop
    | cons f r =>
      cases f with
      | arr es => simp [topEmpty] at htop
      | obj ms k =>
        cases ms with
        | nil => exact ⟨k, r, rfl⟩
        | cons m ms => simp [topEmpty] at htop
  | str st =>
    obtain ⟨raw, items, tail, hm, _⟩ := hs
    rw [hl] at hm; cases hm
  | val ctx => exact absurd (hl.symm.trans hs) hne
  | lit rest v => exact absurd (hl.symm.trans hs.1) hne
  | num n => exact absurd (hl.symm.trans hs) hne
  | afterElem => exact absurd (hl.symm.trans hs) hne
  | objNextKey => exact absurd (hl.symm.trans hs.1) hne
  | afterKey => exact absurd (hl.symm.trans hs.1) hne
  | afterMember => exact absurd (hl.symm.trans hs.1) hne
  | done v => exact absurd (hl.symm.trans hs) hne

/-- an accepting run that stands after a key continues with `ws :` -/
theorem machine_afterKey_inv (env : Env) (stk : List Frame) : ∀ (rest : Bytes) (j : Nat) (v : JV),
    run env ⟨.afterKey, stk⟩ j rest = .ok v → ∃ w ys, rest = w ++ 0x3a :: ys ∧ Ws w
  | [], j, v, h => by simp [run, finish, finishMode] at h
  | b :: r, j, v, h => by
    obtain ⟨s', hs, hr⟩ := run_cons_ok' env _ j b r v h
    by_cases hw : isWs b = true
    · have : step env ⟨.afterKey, stk⟩ b = .ok ⟨.afterKey, stk⟩ := SJ.Proofs.Complete.step_ws env ⟨.afterKey, stk⟩ trivial b hw
      rw [this] at hs
      simp only [Except.ok.injEq] at hs; subst hs
      obtain ⟨w, ys, rfl, hw'⟩ := machine_afterKey_inv env stk r (j + 1) v hr
      refine ⟨b :: w, ys, rfl, ?_⟩
      simp only [Ws, List.all_cons, Bool.and_eq_true]
      exact ⟨by rw [← isWs_eq]; exact hw, hw'⟩
    · by_cases hc : (b == 0x3a) = true
      · have : b = 0x3a := by simpa using hc
        subst this
        exact ⟨[], r, rfl, by simp [Ws]⟩
      · simp [step, step1, hw, hc] at hs

/-! ## tails and leading whitespace -/

theorem tokenTail_ws (w rest txt rest' : Bytes) (hw : Ws w) (h : TokenTail rest txt rest') : TokenTail (w ++ rest) txt rest' := by
  obtain ⟨w₁, w₂, items, w₃, rfl, hw₁, hw₂, hw₃, hwf, hdec, hnum⟩ := h
  exact ⟨w ++ w₁, w₂, items, w₃, by simp, Ws.append hw hw₁, hw₂, hw₃, hwf, hdec, hnum⟩

theorem ws_colon_unique : ∀ (a b r r' : Bytes), Ws a → Ws b → a ++ 0x3a :: r = b ++ 0x3a :: r' → a = b ∧ r = r'
  | [], [], r, r', _, _, h => by simpa using h
  | [], y :: b, r, r', _, hb, h => by
    simp only [List.nil_append, List.cons_append, List.cons.injEq] at h
    simp only [Ws, List.all_cons, Bool.and_eq_true] at hb
    rw [← h.1] at hb
    exact absurd hb.1 (by decide)
  | x :: a, [], r, r', ha, _, h => by
    simp only [List.nil_append, List.cons_append, List.cons.injEq] at h
    simp only [Ws, List.all_cons, Bool.and_eq_true] at ha
    rw [h.1] at ha
    exact absurd ha.1 (by decide)
  | x :: a, y :: b, r, r', ha, hb, h => by
    simp only [List.cons_append, List.cons.injEq] at h
    simp only [Ws, List.all_cons, Bool.and_eq_true] at ha hb
    obtain ⟨h1, h2⟩ := ws_colon_unique a b r r' (by simpa [Ws] using ha.2) (by simpa [Ws] using hb.2) h.2
    exact ⟨by rw [h.1, h1], h2⟩

theorem tokenTail_strip (w ys txt rest' : Bytes) (hw : Ws w) (h : TokenTail (w ++ 0x3a :: ys) txt rest') :
    TokenTail (0x3a :: ys) txt rest' := by
  obtain ⟨w₁, w₂, items, w₃, heq, hw₁, hw₂, hw₃, hwf, hdec, hnum⟩ := h
  have : w ++ 0x3a :: ys = w₁ ++ 0x3a :: (w₂ ++ strBytes items ++ w₃ ++ [0x7d] ++ rest') := by
    rw [heq]; simp
  obtain ⟨_, hys⟩ := ws_colon_unique w w₁ _ _ hw hw₁ this
  exact ⟨[], w₂, items, w₃, by rw [hys]; simp, by simp [Ws], hw₂, hw₃, hwf, hdec, hnum⟩

/-! ## feeding a prefix of an accepted input -/

theorem feeds_of_feed (env : Env) : ∀ (xs : Bytes) (s s' : St) (i j : Nat),
    SJ.Proofs.Machine.feed env s i xs = .ok (s', j) → Feeds env s xs s'
  | [], s, s', i, j, h => by
    simp only [SJ.Proofs.Machine.feed, Except.ok.injEq, Prod.mk.injEq] at h
    rw [h.1]; exact Feeds.nil _ _
  | b :: xs, s, s', i, j, h => by
    simp only [SJ.Proofs.Machine.feed] at h
    cases hs : step env s b with
    | ok s1 => rw [hs] at h; exact Feeds.cons hs (feeds_of_feed env xs s1 s' (i + 1) j h)
    | error e => obtain ⟨c, a⟩ := e; rw [hs] at h; cases h

theorem run_split (env : Env) (s : St) (j : Nat) (xs r : Bytes) (v : JV) (h : run env s j (xs ++ r) = .ok v) :
    ∃ s', Feeds env s xs s' ∧ run env s' (j + xs.length) r = .ok v := by
  rw [SJ.Proofs.Machine.run_append] at h
  cases hf : SJ.Proofs.Machine.feed env s j xs with
  | error e => obtain ⟨c, k⟩ := e; rw [hf] at h; cases h
  | ok p =>
    obtain ⟨s', k⟩ := p
    rw [hf] at h
    have hk := SJ.Proofs.Machine.feed_idx env s j xs s' k hf
    subst hk
    exact ⟨s', feeds_of_feed env xs s s' j _ hf, h⟩

/-! ## the two formulations of the shape clause agree on accepted texts -/

theorem canonMMembers_nil (cfg : Cfg) (ms : List (List StrItem × CST))
    (h : SJ.Proofs.CanonM.canonMMembers cfg ms = some []) : ms = [] := by
  cases ms with
  | nil => rfl
  | cons m r =>
    obtain ⟨k, x⟩ := m
    simp only [SJ.Proofs.CanonM.canonMMembers] at h
    split at h <;> simp at h

theorem triggered_afterKey (env : Env) (hap : env.cfg.ap = true) (hv : env.tgt = .value) (fs : List Frame) :
    triggered env ⟨.afterKey, .obj [] Model.MachineAp.token :: fs⟩ 0x3a = some fs := by
  unfold triggered; simp [hap, hv]

/-- machine ⇒ scan -/
theorem tails_of_shaped (env : Env) (bs : Bytes) (h : TokenObjectsShaped bs) : TailsOK env init bs := by
  intro xs b ys s1 fs hbs hf ht
  obtain ⟨_, hv, hb, hm, hst⟩ := triggered_some ht
  subst hb
  obtain ⟨mode, stk⟩ := s1
  simp only at hm hst
  subst hm hst
  have hinv := feed_inv env init [] 0 xs _ _ (Inv.init env) (hf.to_feed 0)
  simp only [List.nil_append] at hinv
  cases hinv with
  | afterKey mems key fs' pre inner k w₁ cs hp _ ho hk hks hw₁ hc =>
    have hinner : Ws inner := by
      rcases ho with ⟨_, hw⟩ | ⟨inner', w₃, w₄, _, ⟨w₀, body, ms, _, _, hmem, hsem⟩, _, _⟩
      · exact hw
      · exfalso
        have := (hsem hv).val
        simp only [List.reverse_nil] at this
        exact Members.ne_nil hmem (canonMMembers_nil _ _ this)
    have hdec : decodeItems k = some SJ.Spec.PrivateToken.token := (hks hv).val
    have hmode : (lexRun {} (pre ++ [0x7b] ++ inner)).mode = .out true := by
      rw [List.append_assoc, lexRun_append]
      exact brace_open _ false inner (valpos_lex hp) hinner
    obtain ⟨txt, rest', htail⟩ := h (pre ++ [0x7b] ++ inner) k (w₁ ++ 0x3a :: ys) (by rw [hbs, hc]; simp) hmode hk hdec
    exact ⟨txt, rest', tokenTail_strip w₁ ys txt rest' hw₁ htail⟩

/-- scan ⇒ machine, on a text the machine accepts -/
theorem shaped_of_tails (env : Env) (hap : env.cfg.ap = true) (hv : env.tgt = .value) (bs : Bytes) (v0 : JV)
    (hacc : parseTop env bs = .ok v0) (h : TailsOK env init bs) : TokenObjectsShaped bs := by
  intro pre k rest hbs hmode hk hdec
  unfold parseTop at hacc
  rw [hbs, List.append_assoc] at hacc
  obtain ⟨sp, hpre, hrun⟩ := run_split env init 0 pre (strBytes k ++ rest) v0 hacc
  rcases sync_feeds env hv pre {} init sp (.inl (sync_init env)) hpre with hs | hd
  · obtain ⟨k0, fs, rfl⟩ := sync_out_true env _ sp hs hmode
    have hside : SJ.Proofs.Complete.SideStr env k := fun _ =>
      ⟨paired_of_decode k _ hdec, fun _ => by
        rw [hdec]; simpa using (show Spec.Utf8.validUtf8 SJ.Spec.PrivateToken.token = true from token_utf8)⟩
    obtain ⟨kb, hkb, hkey⟩ := SJ.Proofs.Complete.drive_key env k hk hside .objFirst (.inl rfl) [] k0 fs
    have hkb' : kb = Model.MachineAp.token := by
      have := hkb hv; rw [hdec] at this; exact (Option.some.inj this).symm
    subst hkb'
    rw [run_feeds env hkey] at hrun
    obtain ⟨w, ys, rfl, hw⟩ := machine_afterKey_inv env _ rest _ v0 hrun
    have hfeeds : Feeds env init (pre ++ strBytes k ++ w) ⟨.afterKey, .obj [] Model.MachineAp.token :: fs⟩ :=
      Feeds.append (Feeds.append hpre hkey)
        (SJ.Proofs.Complete.feeds_ws env _ (SJ.Proofs.Complete.wsStable_afterKey _) w hw)
    obtain ⟨txt, rest', htail⟩ := h (pre ++ strBytes k ++ w) 0x3a ys _ fs (by rw [hbs]; simp) hfeeds
      (triggered_afterKey env hap hv fs)
    exact ⟨txt, rest', tokenTail_ws w _ txt rest' hw htail⟩
  · exact absurd hrun (doomed_no_ok env _ sp _ v0 hd)

/-- **on a text the machine accepts, the machine-phrased and the lexical shape clauses agree** -/
theorem tails_iff_shaped (env : Env) (hap : env.cfg.ap = true) (hv : env.tgt = .value) (bs : Bytes) (v0 : JV)
    (hacc : parseTop env bs = .ok v0) : TailsOK env init bs ↔ TokenObjectsShaped bs :=
  ⟨shaped_of_tails env hap hv bs v0 hacc, tails_of_shaped env bs⟩

/-- **the language of the faithful model, syntactically**: `MachineAp` accepts exactly the texts the machine accepts in
    which every string literal directly after a `{` that decodes to the token is followed by `ws : ws "number literal" ws }` -/
theorem ap_iff_shaped (env : Env) (hap : env.cfg.ap = true) (hv : env.tgt = .value) (bs : Bytes) :
    (∃ v, Model.MachineAp.parseTop env bs = .ok v) ↔ (∃ v', parseTop env bs = .ok v') ∧ TokenObjectsShaped bs := by
  rw [ap_iff env hap hv bs]
  constructor
  · rintro ⟨⟨v', hv'⟩, ht⟩; exact ⟨⟨v', hv'⟩, (tails_iff_shaped env hap hv bs v' hv').mp ht⟩
  · rintro ⟨⟨v', hv'⟩, ht⟩; exact ⟨⟨v', hv'⟩, (tails_iff_shaped env hap hv bs v' hv').mpr ht⟩

end SJ.Proofs.MachineAp
