import SJ.Proofs.RoundTrip
/-!
# C04 helper lemmas: what the parser returns satisfies the representation invariant

`shape_of_canonM`: if `canonM cfg t = some v` for a syntax tree `t` whose number literals are
well-formed and whose decoded strings are valid UTF-8, then `v` has well-formed numbers (integers in
range; floats finite *by hypothesis* — the finiteness clause of C07/C08), valid UTF-8 strings,
sorted/distinct keys, and `depthJV v ≤ depth t`.
-/
namespace SJ.Proofs.RoundTripWF
open SJ SJ.Spec.Grammar SJ.Spec.Denote SJ.Spec.Program SJ.Spec.WF SJ.Model.Num
open SJ.Model.Machine SJ.Proofs.CanonM SJ.Proofs.NumInt SJ.Proofs.MkObj SJ.Proofs.RoundTripNum

/-! ## integers returned by the conversions are in range -/

theorem ofF_notInt (r : FRes) : NotInt (ofF r) := by
  cases r <;> constructor <;> intro _ h <;> cases h

theorem outOfFuel_notInt : NotInt .outOfFuel := by constructor <;> intro _ h <;> cases h

theorem parseExponent_notInt (positive : Bool) (sig : Nat) (startExp : Int) (expNeg : Bool) (ds : Bytes) :
    NotInt (parseExponent positive sig startExp expNeg ds) := by
  unfold parseExponent
  split
  · exact outOfFuel_notInt
  · split
    · exact (exponentOverflow_float ..).notInt
    · exact ofF_notInt _

theorem parseDecimal_notInt (positive : Bool) (sig : Nat) (expBefore : Int) (fds : Bytes)
    (exp : Option (Bool × Bytes)) : NotInt (parseDecimal positive sig expBefore fds exp) := by
  unfold parseDecimal
  generalize parseDecimal.go sig 0 fds = g
  obtain ⟨sig', ea⟩ := g
  cases exp with
  | some e => obtain ⟨en, eds⟩ := e; exact parseExponent_notInt ..
  | none => exact ofF_notInt _

theorem convertDefault_notInt (P : Parts) (h : P.frac ≠ none ∨ P.exp ≠ none) : NotInt (convertDefault P) := by
  unfold convertDefault
  generalize convertDefault.goInt 0 P.int = g
  obtain ⟨sig, over⟩ := g
  cases hf : P.frac with
  | some fds => cases over <;> exact parseDecimal_notInt ..
  | none =>
    cases he : P.exp with
    | some e => obtain ⟨en, eds⟩ := e; cases over <;> exact parseExponent_notInt ..
    | none => simp [hf, he] at h

theorem convertDefault_u64_lt (P : Parts) (hd : IsDigits P.int) (n : Nat) (h : convertDefault P = .u64 n) :
    n < 2 ^ 64 := by
  by_cases hfe : P.frac = none ∧ P.exp = none
  · exact ((convertDefault_eq_u64_iff P hfe.1 hfe.2 hd n).1 h).2.2
  · have := convertDefault_notInt P (by
      by_cases hf : P.frac = none
      · exact .inr (fun he => hfe ⟨hf, he⟩)
      · exact .inl hf)
    exact absurd h (this.1 n)

theorem convertDefault_i64_range (P : Parts) (hd : IsDigits P.int) (k : Int) (h : convertDefault P = .i64 k) :
    -(2 ^ 63 : Int) ≤ k ∧ k < 0 := by
  by_cases hfe : P.frac = none ∧ P.exp = none
  · obtain ⟨_, hk, h0, h1⟩ := (convertDefault_eq_i64_iff P hfe.1 hfe.2 hd k).1 h
    omega
  · have := convertDefault_notInt P (by
      by_cases hf : P.frac = none
      · exact .inr (fun he => hfe ⟨hf, he⟩)
      · exact .inl hf)
    exact absurd h (this.2 k)

theorem intClass_u64_lt (P : Parts) (n : Nat) (h : intClass P = some (.u64 n)) : n < 2 ^ 64 := by
  unfold intClass at h
  split at h
  · dsimp only at h
    split at h
    · split at h
      · cases h; assumption
      · cases h
    · split at h
      · cases h
      · split at h <;> cases h
  · cases h

theorem intClass_i64_range (P : Parts) (k : Int) (h : intClass P = some (.i64 k)) : -(2 ^ 63 : Int) ≤ k ∧ k < 0 := by
  unfold intClass at h
  split at h
  · dsimp only at h
    split at h
    · split at h <;> cases h
    · split at h
      · cases h
      · split at h
        · cases h
          rename_i h0 h1
          simp only [beq_iff_eq] at h0
          omega
        · cases h
  · cases h

theorem convertRoundtrip_u64_lt (P : Parts) (n : Nat) (h : convertRoundtrip P = .u64 n) : n < 2 ^ 64 := by
  cases hi : intClass P with
  | some r => rw [convertRoundtrip_of_intClass_some P r hi] at h; subst h; exact intClass_u64_lt P n hi
  | none => exact absurd h ((convertRoundtrip_of_intClass_none P hi).notInt.1 n)

theorem convertRoundtrip_i64_range (P : Parts) (k : Int) (h : convertRoundtrip P = .i64 k) :
    -(2 ^ 63 : Int) ≤ k ∧ k < 0 := by
  cases hi : intClass P with
  | some r => rw [convertRoundtrip_of_intClass_some P r hi] at h; subst h; exact intClass_i64_range P k hi
  | none => exact absurd h ((convertRoundtrip_of_intClass_none P hi).notInt.2 k)

/-- the configured conversion returns finite floats only (the finiteness clause of C07 / C08) -/
def ParsedFloatsFinite (c : Spec.Canon.Cfg) : Prop :=
  ∀ (p : NumParts) (b : UInt64), p.WF = true → Spec.Canon.numOf c p = some (.float b) → finite64 b = true

theorem isDigits_int (p : NumParts) (h : p.WF = true) : IsDigits (Spec.Canon.partsOf p).int := by
  simp only [NumParts.WF, Bool.and_eq_true] at h
  exact isDigits_of_all _ (Proofs.Number.isInt_all _ h.1.1).1

/-- **the number made of a well-formed literal is a well-formed `Number`**, provided that — if it is a
    float — it is finite -/
theorem wfNum_numOf (c : Spec.Canon.Cfg) (p : NumParts) (hp : p.WF = true) (n : Num)
    (h : Spec.Canon.numOf c p = some n) (hfin : ∀ b, n = .float b → finite64 b = true) : wfNum c n = true := by
  unfold Spec.Canon.numOf at h
  cases hap : c.ap with
  | true =>
    simp only [hap, if_true, Option.some.injEq] at h
    subst h
    simp only [wfNum, hap, Bool.true_and]
    exact (Proofs.Number.isNumber_iff _).2 ⟨p, hp, rfl⟩
  | false =>
    simp only [hap, Bool.false_eq_true, if_false] at h
    have hd := isDigits_int p hp
    unfold Spec.Canon.convert at h
    cases hfr : c.fr with
    | true =>
      simp only [hfr, if_true] at h
      split at h
      · rename_i k hk; cases h
        simp [wfNum, hap, convertRoundtrip_u64_lt _ k hk]
      · rename_i k hk; cases h
        have := convertRoundtrip_i64_range _ k hk
        simp only [wfNum, hap, Bool.not_false, Bool.true_and, Bool.and_eq_true, decide_eq_true_eq]
        exact this
      · rename_i b hb; cases h
        simp [wfNum, hap, hfin b rfl]
      · cases h
    | false =>
      simp only [hfr, Bool.false_eq_true, if_false] at h
      split at h
      · rename_i k hk; cases h
        simp [wfNum, hap, convertDefault_u64_lt _ hd k hk]
      · rename_i k hk; cases h
        have := convertDefault_i64_range _ hd k hk
        simp only [wfNum, hap, Bool.not_false, Bool.true_and, Bool.and_eq_true, decide_eq_true_eq]
        exact this
      · rename_i b hb; cases h
        simp [wfNum, hap, hfin b rfl]
      · cases h

/-! ## objects: the built map holds entries of the member list only, with sorted / distinct keys -/

theorem mem_btInsert (k : Bytes) (v : JV) (m : List (Bytes × JV)) : ∀ e ∈ btInsert k v m, e = (k, v) ∨ e ∈ m := by
  induction m with
  | nil => intro e he; simp only [btInsert, List.mem_singleton] at he; exact .inl he
  | cons e0 r ih =>
    obtain ⟨k', v'⟩ := e0
    intro e he
    simp only [btInsert] at he
    split at he
    · rcases List.mem_cons.1 he with h | h
      · exact .inl h
      · exact .inr (List.mem_cons_of_mem _ h)
    · split at he
      · rcases List.mem_cons.1 he with h | h
        · exact .inl h
        · exact .inr h
      · rcases List.mem_cons.1 he with h | h
        · exact .inr (h ▸ List.mem_cons_self)
        · rcases ih e h with h | h
          · exact .inl h
          · exact .inr (List.mem_cons_of_mem _ h)

theorem mem_ixInsert (k : Bytes) (v : JV) (m : List (Bytes × JV)) : ∀ e ∈ ixInsert k v m, e = (k, v) ∨ e ∈ m := by
  induction m with
  | nil => intro e he; simp only [ixInsert, List.mem_singleton] at he; exact .inl he
  | cons e0 r ih =>
    obtain ⟨k', v'⟩ := e0
    intro e he
    simp only [ixInsert] at he
    split at he
    · rename_i hk
      rcases List.mem_cons.1 he with h | h
      · exact .inl (by rw [h, hk])
      · exact .inr (List.mem_cons_of_mem _ h)
    · rcases List.mem_cons.1 he with h | h
      · exact .inr (h ▸ List.mem_cons_self)
      · rcases ih e h with h | h
        · exact .inl h
        · exact .inr (List.mem_cons_of_mem _ h)

theorem mem_build (cfg : Cfg) (ms : List (Bytes × JV)) : ∀ e ∈ build cfg ms, e ∈ ms := by
  induction ms using snoc_ind with
  | nil => intro e he; exact he
  | snoc pre kv ih =>
    intro e he
    rw [build_snoc] at he
    have : e = (kv.1, kv.2) ∨ e ∈ build cfg pre := by
      unfold ins at he
      split at he
      · exact mem_ixInsert _ _ _ e he
      · exact mem_btInsert _ _ _ e he
    rcases this with h | h
    · rw [h]; simp
    · exact List.mem_append_left _ (ih e h)

theorem ascending_of_sorted : ∀ ks : List Bytes, Sorted ks → ascending ks = true
  | [], _ => rfl
  | [_], _ => rfl
  | a :: b :: r, h => by
    have h1 := List.pairwise_cons.1 h
    simp only [ascending, Bool.and_eq_true]
    exact ⟨bytesLt_eq ▸ h1.1 b (by simp), ascending_of_sorted (b :: r) h1.2⟩

theorem distinct_of_nodup : ∀ ks : List Bytes, ks.Nodup → distinct ks = true
  | [], _ => rfl
  | a :: r, h => by
    have h1 := List.nodup_cons.1 h
    simp only [distinct, Bool.and_eq_true, Bool.not_eq_true', List.contains_eq_mem, decide_eq_false_iff_not]
    exact ⟨h1.1, distinct_of_nodup r h1.2⟩

theorem keysOK_build (cfg : Cfg) (ms : List (Bytes × JV)) :
    keysOK (specCfg cfg) ((build cfg ms).map Prod.fst) = true := by
  unfold keysOK
  cases hpo : cfg.po with
  | false =>
    have : (specCfg cfg).po = false := hpo
    simp only [this, Bool.false_eq_true, if_false]
    exact ascending_of_sorted _ (keys_build_bt cfg hpo ms).2
  | true =>
    have : (specCfg cfg).po = true := hpo
    simp only [this, if_true]
    exact distinct_of_nodup _ (nodup_keys_build cfg ms)

theorem shapeOKm_iff (c : Spec.Canon.Cfg) : ∀ l : List (Bytes × JV),
    shapeOKm c l = true ↔ ∀ e ∈ l, Spec.Utf8.validUtf8 e.1 = true ∧ shapeOK c e.2 = true
  | [] => by simp [shapeOKm]
  | (k, x) :: l => by
    simp only [shapeOKm, Bool.and_eq_true, shapeOKm_iff c l, List.mem_cons, forall_eq_or_imp]

theorem depthJVm_le_iff (n : Nat) : ∀ l : List (Bytes × JV), depthJVm l ≤ n ↔ ∀ e ∈ l, depthJV e.2 ≤ n
  | [] => by simp [depthJVm]
  | (k, x) :: l => by
    simp only [depthJVm, Nat.max_le, depthJVm_le_iff n l, List.mem_cons, forall_eq_or_imp]

/-! ## well-formed number literals throughout a syntax tree, from a derivation -/

mutual
def numsWF : CST → Bool
  | .num p => p.WF
  | .arr xs => numsWFList xs
  | .obj ms => numsWFMembers ms
  | _ => true
def numsWFList : List CST → Bool
  | [] => true
  | x :: xs => numsWF x && numsWFList xs
def numsWFMembers : List (List StrItem × CST) → Bool
  | [] => true
  | (_, x) :: ms => numsWF x && numsWFMembers ms
end

theorem numsWF_of_derives {bs : Bytes} {t : CST} (h : Derives bs t) : numsWF t = true := by
  refine Derives.rec (motive_1 := fun _ t _ => numsWF t = true)
    (motive_2 := fun _ xs _ => numsWFList xs = true) (motive_3 := fun _ ms _ => numsWFMembers ms = true)
    ?_ ?_ ?_ ?_ ?_ ?_ ?_ ?_ ?_ ?_ ?_ ?_ ?_ h
  · rfl
  · rfl
  · rfl
  · intro p hp; simpa [numsWF] using hp
  · intro _ _; rfl
  · intro _ _; rfl
  · intro _ _ _ xs _ _ _ _ ih; simpa [numsWF] using ih
  · intro _ _; rfl
  · intro _ _ _ ms _ _ _ _ ih; simpa [numsWF] using ih
  · intro _ t _ ih; simp [numsWFList, ih]
  · intro _ _ _ _ t ts _ _ _ _ ih1 ih2; simp [numsWFList, ih1, ih2]
  · intro _ _ _ _ _ t _ _ _ ih; simp [numsWFMembers, ih]
  · intro _ _ _ _ _ _ _ _ t ms _ _ _ _ _ _ ih1 ih2; simp [numsWFMembers, ih1, ih2]

/-! ## the value a syntax tree denotes is well-formed -/

theorem finiteFloatsm_iff : ∀ l : List (Bytes × JV), finiteFloatsm l = true ↔ ∀ e ∈ l, finiteFloats e.2 = true
  | [] => by simp [finiteFloatsm]
  | (k, x) :: l => by
    simp only [finiteFloatsm, Bool.and_eq_true, finiteFloatsm_iff l, List.mem_cons, forall_eq_or_imp]

section
variable (cfg : Cfg)

mutual
/-- objects drop overwritten duplicates, so the statement about members is per entry: an entry whose
    floats are finite is well-formed -/
theorem shape_of_canonM : ∀ (t : CST) (v : JV), numsWF t = true → Spec.Canon.stringsUtf8 t = true →
    canonM cfg t = some v → (finiteFloats v = true → shapeOK (specCfg cfg) v = true) ∧ depthJV v ≤ depth t
  | .null, v, _, _, h => by simp only [canonM, Option.some.injEq] at h; subst h; exact ⟨fun _ => rfl, Nat.le_refl _⟩
  | .true_, v, _, _, h => by simp only [canonM, Option.some.injEq] at h; subst h; exact ⟨fun _ => rfl, Nat.le_refl _⟩
  | .false_, v, _, _, h => by simp only [canonM, Option.some.injEq] at h; subst h; exact ⟨fun _ => rfl, Nat.le_refl _⟩
  | .num p, v, hw, _, h => by
    simp only [canonM, Option.map_eq_some_iff] at h
    obtain ⟨n, hn, rfl⟩ := h
    simp only [numsWF] at hw
    refine ⟨fun hf => ?_, Nat.le_refl _⟩
    simp only [shapeOK]
    exact wfNum_numOf _ p hw n hn (fun b hb => by subst hb; simpa [finiteFloats] using hf)
  | .str s, v, _, hu, h => by
    simp only [canonM, Option.map_eq_some_iff] at h
    obtain ⟨b, hb, rfl⟩ := h
    simp only [Spec.Canon.stringsUtf8, hb, Option.all_some] at hu
    exact ⟨fun _ => by simpa [shapeOK] using hu, Nat.le_refl _⟩
  | .arr xs, v, hw, hu, h => by
    simp only [canonM, Option.map_eq_some_iff] at h
    obtain ⟨vs, hvs, rfl⟩ := h
    simp only [numsWF] at hw
    simp only [Spec.Canon.stringsUtf8] at hu
    have := shape_of_canonMList xs vs hw hu hvs
    simp only [shapeOK, depthJV, depth, finiteFloats]
    exact ⟨this.1, by omega⟩
  | .obj ms, v, hw, hu, h => by
    simp only [canonM, Option.map_eq_some_iff] at h
    obtain ⟨kvs, hkvs, rfl⟩ := h
    simp only [numsWF] at hw
    simp only [Spec.Canon.stringsUtf8] at hu
    have hm := shape_of_canonMMembers ms kvs hw hu hkvs
    rw [mkObj_eq_build]
    simp only [shapeOK, depthJV, depth, finiteFloats, Bool.and_eq_true]
    refine ⟨fun hf => ⟨keysOK_build cfg kvs, ?_⟩, ?_⟩
    · rw [shapeOKm_iff]
      intro e he
      exact hm.1 e (mem_build cfg kvs e he) ((finiteFloatsm_iff _).1 hf e he)
    · have : depthJVm (build cfg kvs) ≤ depthJVm kvs := by
        rw [depthJVm_le_iff]
        intro e he
        exact (depthJVm_le_iff _ kvs).1 (Nat.le_refl _) e (mem_build cfg kvs e he)
      omega
theorem shape_of_canonMList : ∀ (ts : List CST) (vs : List JV), numsWFList ts = true →
    Spec.Canon.stringsUtf8List ts = true → canonMList cfg ts = some vs →
    (finiteFloatss vs = true → shapeOKs (specCfg cfg) vs = true) ∧ depthJVs vs ≤ depthList ts
  | [], vs, _, _, h => by simp only [canonMList, Option.some.injEq] at h; subst h; exact ⟨fun _ => rfl, Nat.le_refl _⟩
  | t :: ts, vs, hw, hu, h => by
    simp only [canonMList] at h
    simp only [numsWFList, Bool.and_eq_true] at hw
    simp only [Spec.Canon.stringsUtf8List, Bool.and_eq_true] at hu
    split at h
    · rename_i v vs' hv hvs
      cases h
      have h1 := shape_of_canonM t v hw.1 hu.1 hv
      have h2 := shape_of_canonMList ts vs' hw.2 hu.2 hvs
      simp only [shapeOKs, depthJVs, depthList, finiteFloatss, Bool.and_eq_true]
      exact ⟨fun hf => ⟨h1.1 hf.1, h2.1 hf.2⟩, by omega⟩
    · cases h
theorem shape_of_canonMMembers : ∀ (ms : List (List StrItem × CST)) (kvs : List (Bytes × JV)),
    numsWFMembers ms = true → Spec.Canon.stringsUtf8Members ms = true → canonMMembers cfg ms = some kvs →
    (∀ e ∈ kvs, finiteFloats e.2 = true → Spec.Utf8.validUtf8 e.1 = true ∧ shapeOK (specCfg cfg) e.2 = true) ∧
      depthJVm kvs ≤ depthMembers ms
  | [], kvs, _, _, h => by
    simp only [canonMMembers, Option.some.injEq] at h; subst h
    exact ⟨fun e he => (by cases he), Nat.le_refl _⟩
  | (k, t) :: ms, kvs, hw, hu, h => by
    simp only [canonMMembers] at h
    simp only [numsWFMembers, Bool.and_eq_true] at hw
    simp only [Spec.Canon.stringsUtf8Members, Bool.and_eq_true] at hu
    split at h
    · rename_i kb v r hk hv hr
      cases h
      have h1 := shape_of_canonM t v hw.1 hu.1.2 hv
      have h2 := shape_of_canonMMembers ms r hw.2 hu.2 hr
      have hkb : Spec.Utf8.validUtf8 kb = true := by simpa [hk] using hu.1.1
      simp only [depthJVm, depthMembers]
      refine ⟨fun e he hf => ?_, by omega⟩
      rcases List.mem_cons.1 he with rfl | he
      · exact ⟨hkb, h1.1 hf⟩
      · exact h2.1 e he hf
    · cases h
end

/-! ## …and its floats are finite if the conversion returns finite floats only -/

mutual
theorem finite_of_canonM (hfin : ParsedFloatsFinite (specCfg cfg)) : ∀ (t : CST) (v : JV), numsWF t = true →
    canonM cfg t = some v → finiteFloats v = true
  | .null, v, _, h => by simp only [canonM, Option.some.injEq] at h; subst h; rfl
  | .true_, v, _, h => by simp only [canonM, Option.some.injEq] at h; subst h; rfl
  | .false_, v, _, h => by simp only [canonM, Option.some.injEq] at h; subst h; rfl
  | .num p, v, hw, h => by
    simp only [canonM, Option.map_eq_some_iff] at h
    obtain ⟨n, hn, rfl⟩ := h
    simp only [numsWF] at hw
    cases n with
    | float b => simpa [finiteFloats] using hfin p b hw hn
    | pos _ => rfl
    | neg _ => rfl
    | lit _ => rfl
  | .str s, v, _, h => by
    simp only [canonM, Option.map_eq_some_iff] at h
    obtain ⟨b, _, rfl⟩ := h; rfl
  | .arr xs, v, hw, h => by
    simp only [canonM, Option.map_eq_some_iff] at h
    obtain ⟨vs, hvs, rfl⟩ := h
    simp only [numsWF] at hw
    simp only [finiteFloats]
    exact finite_of_canonMList hfin xs vs hw hvs
  | .obj ms, v, hw, h => by
    simp only [canonM, Option.map_eq_some_iff] at h
    obtain ⟨kvs, hkvs, rfl⟩ := h
    simp only [numsWF] at hw
    rw [mkObj_eq_build]
    simp only [finiteFloats]
    rw [finiteFloatsm_iff]
    intro e he
    exact (finiteFloatsm_iff kvs).1 (finite_of_canonMMembers hfin ms kvs hw hkvs) e (mem_build cfg kvs e he)
theorem finite_of_canonMList (hfin : ParsedFloatsFinite (specCfg cfg)) : ∀ (ts : List CST) (vs : List JV),
    numsWFList ts = true → canonMList cfg ts = some vs → finiteFloatss vs = true
  | [], vs, _, h => by simp only [canonMList, Option.some.injEq] at h; subst h; rfl
  | t :: ts, vs, hw, h => by
    simp only [canonMList] at h
    simp only [numsWFList, Bool.and_eq_true] at hw
    split at h
    · rename_i v vs' hv hvs
      cases h
      simp [finiteFloatss, finite_of_canonM hfin t v hw.1 hv, finite_of_canonMList hfin ts vs' hw.2 hvs]
    · cases h
theorem finite_of_canonMMembers (hfin : ParsedFloatsFinite (specCfg cfg)) :
    ∀ (ms : List (List StrItem × CST)) (kvs : List (Bytes × JV)),
    numsWFMembers ms = true → canonMMembers cfg ms = some kvs → finiteFloatsm kvs = true
  | [], kvs, _, h => by simp only [canonMMembers, Option.some.injEq] at h; subst h; rfl
  | (k, t) :: ms, kvs, hw, h => by
    simp only [canonMMembers] at h
    simp only [numsWFMembers, Bool.and_eq_true] at hw
    split at h
    · rename_i kb v r hk hv hr
      cases h
      simp [finiteFloatsm, finite_of_canonM hfin t v hw.1 hv, finite_of_canonMMembers hfin ms r hw.2 hr]
    · cases h
end
end

end SJ.Proofs.RoundTripWF
