import SJ.Proofs.LexMathSmall
/-!
# Limb arithmetic: `mod large` — `compare`, `iadd_impl`/`iadd`/`add`, `isub`, `long_mul`

* `compare` on normalised vectors is the comparison of the numbers denoted;
* `iadd_impl(x, y, xstart)` denotes `value x + value y · 2^(64·xstart)`, panics exactly when `xstart > x.len()`, and keeps
  normalised operands normalised;
* `isub(x, y)` for `value y ≤ value x` denotes the difference and normalises;
* `long_mul(x, y)` (schoolbook) denotes the product and normalises; it panics exactly on an empty `y`.
-/
namespace SJ.Proofs.LexMath
open SJ.Model.LexMath

def b2n (b : Bool) : Nat := if b then 1 else 0
@[simp] theorem b2n_true : b2n true = 1 := rfl
@[simp] theorem b2n_false : b2n false = 0 := rfl

theorem pow64_succ (n : Nat) : (2 : Nat) ^ (64 * (n + 1)) = 2 ^ 64 * 2 ^ (64 * n) := by
  rw [← Nat.pow_add]; congr 1; omega

theorem pow64_add (a b : Nat) : (2 : Nat) ^ (64 * (a + b)) = 2 ^ (64 * a) * 2 ^ (64 * b) := by
  rw [← Nat.pow_add]; congr 1; omega

/-! ## `compare` -/

/-- the outcome of comparing two naturals, spelled as `large::compare` returns it -/
def natCompare (a b : Nat) : Ordering := if a > b then .gt else if a < b then .lt else .eq

theorem compareLoop_spec (xr yr : Limbs) (hl : xr.length = yr.length) (hvx : Valid xr) (hvy : Valid yr) :
    large.compareLoop (xr.zip yr) = natCompare (value xr.reverse) (value yr.reverse) := by
  induction xr generalizing yr with
  | nil =>
    cases yr with
    | nil => simp [large.compareLoop, natCompare]
    | cons b yr => simp at hl
  | cons a xr ih =>
    cases yr with
    | nil => simp at hl
    | cons b yr =>
      have hl' : xr.length = yr.length := by simpa using hl
      have ⟨_, hvx'⟩ := valid_cons.mp hvx
      have ⟨_, hvy'⟩ := valid_cons.mp hvy
      have hx := value_lt (l := xr.reverse) (fun z hz => hvx' z (List.mem_reverse.mp hz))
      have hy := value_lt (l := yr.reverse) (fun z hz => hvy' z (List.mem_reverse.mp hz))
      simp only [List.zip_cons_cons, large.compareLoop, List.reverse_cons, value_append, value_singleton,
        List.length_reverse] at hx hy ⊢
      rw [← hl'] at hy ⊢
      have hP := Nat.two_pow_pos (64 * xr.length)
      by_cases h1 : a > b
      · simp only [h1, if_true, natCompare]
        have : 2 ^ (64 * xr.length) * (b + 1) ≤ 2 ^ (64 * xr.length) * a := Nat.mul_le_mul_left _ h1
        rw [if_pos (by nlinarith)]
      · by_cases h2 : a < b
        · simp only [h1, h2, if_true, if_false, natCompare]
          have : 2 ^ (64 * xr.length) * (a + 1) ≤ 2 ^ (64 * xr.length) * b := Nat.mul_le_mul_left _ h2
          rw [if_neg (by nlinarith), if_pos (by nlinarith)]
        · have e : a = b := by omega
          subst e
          simp only [h1, if_false, ih yr hl' hvx' hvy', natCompare, gt_iff_lt, Nat.add_lt_add_iff_right]

/-- a longer normalised vector denotes a larger number -/
theorem value_lt_of_length_lt {x y : Limbs} (hvx : Valid x) (hvy : Valid y) (hny : Normal y) (h : x.length < y.length) :
    value x < value y := by
  have hy : y ≠ [] := by intro e; subst e; simp at h
  have h1 := value_ge_of_normal hny hy
  have h2 := value_lt hvx
  have : (2 : Nat) ^ (64 * x.length) ≤ 2 ^ (64 * (y.length - 1)) := Nat.pow_le_pow_right (by norm_num) (by omega)
  omega

theorem length_le_of_value_le {x y : Limbs} (hvx : Valid x) (hvy : Valid y) (hnx : Normal x) (h : value x ≤ value y) :
    x.length ≤ y.length := by
  by_contra hc
  have := value_lt_of_length_lt hvy hvx hnx (by omega)
  omega

/-- **`compare` refines.** On normalised vectors of limbs `large::compare` is the comparison of the numbers. -/
theorem compare_spec (x y : Limbs) (hvx : Valid x) (hvy : Valid y) (hnx : Normal x) (hny : Normal y) :
    large.compare x y = natCompare (value x) (value y) := by
  unfold large.compare
  by_cases h1 : x.length > y.length
  · have := value_lt_of_length_lt hvy hvx hnx h1
    simp only [h1, if_true, natCompare, gt_iff_lt, this]
  · by_cases h2 : x.length < y.length
    · have := value_lt_of_length_lt hvx hvy hny h2
      simp only [h1, h2, if_true, if_false, natCompare, gt_iff_lt]
      rw [if_neg (by omega), if_pos this]
    · simp only [h1, h2, if_false]
      have := compareLoop_spec x.reverse y.reverse (by simp; omega)
        (fun z hz => hvx z (List.mem_reverse.mp hz)) (fun z hz => hvy z (List.mem_reverse.mp hz))
      simpa using this

theorem less_spec (x y : Limbs) (hvx : Valid x) (hvy : Valid y) (hnx : Normal x) (hny : Normal y) :
    large.less x y = decide (value x < value y) := by
  unfold large.less
  rw [compare_spec x y hvx hvy hnx hny]
  unfold natCompare
  by_cases h1 : value x > value y
  · simp only [h1, if_true]; rw [decide_eq_false (by omega)]; rfl
  · by_cases h2 : value x < value y
    · simp only [h1, h2, if_true, if_false, decide_true]; rfl
    · simp only [h1, h2, if_false, decide_false]; rfl

theorem greaterEqual_spec (x y : Limbs) (hvx : Valid x) (hvy : Valid y) (hnx : Normal x) (hny : Normal y) :
    large.greaterEqual x y = decide (value y ≤ value x) := by
  unfold large.greaterEqual
  rw [less_spec x y hvx hvy hnx hny]
  by_cases h : value x < value y
  · rw [decide_eq_true h, decide_eq_false (by omega)]; rfl
  · rw [decide_eq_false h, decide_eq_true (by omega)]; rfl

/-! ## `resize` -/

theorem resize_spec (x : Limbs) (n : Nat) (h : x.length ≤ n) (hv : Valid x) :
    value (large.resize x n) = value x ∧ (large.resize x n).length = n ∧ Valid (large.resize x n) := by
  unfold large.resize
  by_cases e : n ≤ x.length
  · have : n = x.length := by omega
    subst this
    simp [hv]
  · simp only [e, if_false]
    refine ⟨by rw [value_append, value_replicate_zero]; simp, by simp; omega,
      valid_append.mpr ⟨hv, valid_replicate_zero _⟩⟩

/-! ## `iadd_impl` -/

theorem iaddLoop_spec (xs ys : Limbs) (cin : Bool) (hl : ys.length ≤ xs.length) (hvx : Valid xs) (hvy : Valid ys) :
    value (large.iaddLoop xs ys cin).1 + 2 ^ (64 * ys.length) * b2n (large.iaddLoop xs ys cin).2 =
      value xs + value ys + b2n cin ∧
    (large.iaddLoop xs ys cin).1.length = xs.length ∧ Valid (large.iaddLoop xs ys cin).1 := by
  induction xs generalizing ys cin with
  | nil =>
    have : ys = [] := List.length_eq_zero_iff.mp (by simpa using hl)
    subst this
    simp [large.iaddLoop]
  | cons xi xs ih =>
    cases ys with
    | nil => simp [large.iaddLoop, hvx]
    | cons yi ys =>
      have ⟨hxi, hvxs⟩ := valid_cons.mp hvx
      have ⟨hyi, hvys⟩ := valid_cons.mp hvy
      have hl' : ys.length ≤ xs.length := by simpa using hl
      simp only [large.iaddLoop, scalar.iadd]
      have ⟨a1, a2⟩ := scalar_add_spec hxi hyi
      have ⟨u1, u2⟩ := scalar_add_spec a2 (show (1 : Nat) < 2 ^ 64 by norm_num)
      -- the limb written and the carry passed on
      generalize ht : (if cin = true then ((scalar.add (scalar.add xi yi).1 1).1,
          (scalar.add xi yi).2 || (scalar.add (scalar.add xi yi).1 1).2) else scalar.add xi yi) = t
      have hstep : t.1 + 2 ^ 64 * b2n t.2 = xi + yi + b2n cin ∧ t.1 < 2 ^ 64 := by
        cases cin with
        | false => simp only [Bool.false_eq_true, if_false] at ht; subst ht; exact ⟨by simpa [b2n] using a1, a2⟩
        | true =>
          simp only [if_true] at ht; subst ht
          refine ⟨?_, u2⟩
          cases hc1 : (scalar.add xi yi).2 <;> cases hc2 : (scalar.add (scalar.add xi yi).1 1).2 <;>
            simp only [hc1, hc2] at a1 u1 <;> simp [b2n] at a1 u1 ⊢ <;> omega
      have ⟨i1, i2, i3⟩ := ih ys t.2 hl' hvxs hvys
      refine ⟨?_, by simp [i2], valid_cons.mpr ⟨hstep.2, i3⟩⟩
      simp only [value_cons, List.length_cons, pow64_succ]
      nlinarith [hstep.1]

/-- when the addend covers the whole of `xs`, is normalised and non-empty, and no carry leaves, the top limb written
    is non-zero -/
theorem iaddLoop_normal_full (xs ys : Limbs) (cin : Bool) (hl : ys.length = xs.length) (hne : ys ≠ [])
    (hvx : Valid xs) (hvy : Valid ys) (hny : Normal ys) (hc : (large.iaddLoop xs ys cin).2 = false) :
    Normal (large.iaddLoop xs ys cin).1 := by
  induction xs generalizing ys cin with
  | nil => simp at hl; exact absurd hl hne
  | cons xi xs ih =>
    cases ys with
    | nil => exact absurd rfl hne
    | cons yi ys =>
      have ⟨hxi, hvxs⟩ := valid_cons.mp hvx
      have ⟨hyi, hvys⟩ := valid_cons.mp hvy
      have hl' : ys.length = xs.length := by simpa using hl
      have hspec := iaddLoop_spec (xi :: xs) (yi :: ys) cin (by simp [hl']) hvx hvy
      simp only [large.iaddLoop, scalar.iadd] at hc hspec ⊢
      generalize ht : (if cin = true then ((scalar.add (scalar.add xi yi).1 1).1,
          (scalar.add xi yi).2 || (scalar.add (scalar.add xi yi).1 1).2) else scalar.add xi yi) = t at hc hspec ⊢
      by_cases hys : ys = []
      · subst hys
        have hxs : xs = [] := List.length_eq_zero_iff.mp (by simpa using hl'.symm)
        subst hxs
        have hy0 : yi ≠ 0 := (normal_iff [yi]).mp hny yi [] rfl
        simp only [large.iaddLoop] at hc hspec ⊢
        rw [hc] at hspec
        simp only [value_cons, value_nil, b2n_false] at hspec
        simp only [Normal, List.getLast?_singleton, ne_eq, Option.some.injEq]
        have := hspec.1
        intro h0; rw [h0] at this
        have : yi = 0 := by omega
        exact hy0 this
      · have hny' : Normal ys := by
          unfold Normal at *; rwa [List.getLast?_cons_of_ne_nil hys] at hny
        have := ih ys t.2 hl' hys hvxs hvys hny' hc
        have hne' : (large.iaddLoop xs ys t.2).1 ≠ [] := by
          intro e
          have h2 := (iaddLoop_spec xs ys t.2 (by omega) hvxs hvys).2.1
          rw [e] at h2
          have : ys.length = 0 := by simp at h2; omega
          exact hys (List.length_eq_zero_iff.mp this)
        exact normal_cons_of_normal this hne'

/-- the part of `xs` above the addend is left alone -/
theorem iaddLoop_drop (xs ys : Limbs) (cin : Bool) (hl : ys.length ≤ xs.length) :
    (large.iaddLoop xs ys cin).1.drop ys.length = xs.drop ys.length := by
  induction xs generalizing ys cin with
  | nil =>
    have : ys = [] := List.length_eq_zero_iff.mp (by simpa using hl)
    subst this; simp [large.iaddLoop]
  | cons xi xs ih =>
    cases ys with
    | nil => simp [large.iaddLoop]
    | cons yi ys =>
      simp only [large.iaddLoop, List.length_cons, List.drop_succ_cons]
      exact ih ys _ (by simpa using hl)

theorem small_iaddImpl_normal (x : Limbs) (y xstart : Nat) (hv : Valid x) (hy : y < 2 ^ 64) (hy0 : y ≠ 0)
    (_hs : xstart ≤ x.length) (hn : Normal x) : Normal (small.iaddImpl x y xstart) := by
  unfold small.iaddImpl
  by_cases h : x.length ≤ xstart
  · simp only [h, if_true]; exact normal_append_singleton.mpr hy0
  · simp only [h, if_false]
    cases hd : x.drop xstart with
    | nil => exact absurd (List.drop_eq_nil_iff.mp hd) (by omega)
    | cons xi rest =>
      simp only [scalar.iadd]
      have hvd : Valid (xi :: rest) := hd ▸ valid_drop hv xstart
      have ⟨hxi, hrest⟩ := valid_cons.mp hvd
      have hnd : Normal (xi :: rest) := by
        unfold Normal at *
        rw [← hd, List.getLast?_drop]
        rw [if_neg (by omega)]; exact hn
      have ⟨a1, _⟩ := scalar_add_spec hxi hy
      -- `Normal (pre ++ b)` for non-empty `b` is `Normal b`
      suffices hb : Normal ((scalar.add xi y).1 :: small.carryLoop (scalar.add xi y).2 rest) by
        unfold Normal at *; rw [List.getLast?_append]; simpa using hb
      by_cases hne : rest = []
      · subst hne
        have hx0 : xi ≠ 0 := (normal_iff [xi]).mp hnd xi [] rfl
        cases hc : (scalar.add xi y).2
        · simp only [hc] at a1
          simp only [small.carryLoop, Normal, List.getLast?_singleton, ne_eq, Option.some.injEq]
          simp at a1; omega
        · simp [small.carryLoop, Normal]
      · have hn' : Normal rest := by
          unfold Normal at *; rwa [List.getLast?_cons_of_ne_nil hne] at hnd
        have := carryLoop_normal (scalar.add xi y).2 rest hrest hn'
        have hne' : small.carryLoop (scalar.add xi y).2 rest ≠ [] := by
          intro e
          have := carryLoop_length_le (scalar.add xi y).2 rest
          rw [e] at this
          exact hne (List.length_eq_zero_iff.mp (by simpa using this))
        exact normal_cons_of_normal this hne'

theorem small_iaddImpl_length_le (x : Limbs) (y xstart : Nat) : x.length ≤ (small.iaddImpl x y xstart).length := by
  unfold small.iaddImpl
  split
  · simp
  · split
    · simp
    · rename_i xi rest hd
      simp only [List.length_append, List.length_cons, List.length_take]
      have := carryLoop_length_le (scalar.iadd xi y).2 rest
      have h2 : (x.drop xstart).length = rest.length + 1 := by rw [hd]; simp
      simp at h2
      omega

theorem large_iaddImpl_none (x y : Limbs) (xstart : Nat) : large.iaddImpl x y xstart = none ↔ x.length < xstart := by
  unfold large.iaddImpl
  by_cases h : x.length < xstart <;> simp [h]

/-- **`large::iadd_impl` refines.** -/
theorem large_iaddImpl_spec (x y : Limbs) (xstart : Nat) (hs : xstart ≤ x.length) (hvx : Valid x) (hvy : Valid y) :
    ∃ z, large.iaddImpl x y xstart = some z ∧ value z = value x + value y * 2 ^ (64 * xstart) ∧ Valid z ∧
      x.length ≤ z.length ∧ y.length + xstart ≤ z.length ∧ (Normal x → Normal y → Normal z) := by
  unfold large.iaddImpl
  simp only [show ¬ x.length < xstart by omega, if_false]
  -- the (possibly resized) x
  obtain ⟨x', hx', hval', hlen', hlx', hvx', hnx'⟩ : ∃ x', x' = (if y.length > x.length - xstart then
      large.resize x (y.length + xstart) else x) ∧ value x' = value x ∧ y.length + xstart ≤ x'.length ∧
      x.length ≤ x'.length ∧ Valid x' ∧
      (y.length + xstart < x'.length → x' = x) := by
    by_cases h : y.length > x.length - xstart
    · have ⟨r1, r2, r3⟩ := resize_spec x (y.length + xstart) (by omega) hvx
      exact ⟨_, rfl, by simp [h, r1], by simp [h, r2], by simp [h, r2]; omega, by simp [h, r3],
        by simp only [h, if_true, r2]; omega⟩
    · exact ⟨_, rfl, by simp [h], by simp [h]; omega, by simp [h], by simp [h, hvx], by simp [h]⟩
  rw [← hx']
  have hdl : y.length ≤ (x'.drop xstart).length := by simp; omega
  have ⟨l1, l2, l3⟩ := iaddLoop_spec (x'.drop xstart) y false hdl (valid_drop hvx' _) hvy
  have hdrop := iaddLoop_drop (x'.drop xstart) y false hdl
  have hfullN := iaddLoop_normal_full (x'.drop xstart) y false
  generalize large.iaddLoop (x'.drop xstart) y false = r at l1 l2 l3 hdrop hfullN
  have htl : (x'.take xstart).length = xstart := by simp; omega
  have hz0v : Valid (x'.take xstart ++ r.1) := valid_append.mpr ⟨valid_take hvx' _, l3⟩
  have hz0len : (x'.take xstart ++ r.1).length = x'.length := by simp [l2]; omega
  have hsplit := value_take_add_drop x' xstart
  rw [htl] at hsplit
  have hz0val : value (x'.take xstart ++ r.1) + 2 ^ (64 * (y.length + xstart)) * b2n r.2 =
      value x + value y * 2 ^ (64 * xstart) := by
    rw [value_append, htl, pow64_add, ← hval', hsplit]
    simp only [b2n_false, Nat.add_zero] at l1
    have key : 2 ^ (64 * xstart) * (value r.1 + 2 ^ (64 * y.length) * b2n r.2) =
        2 ^ (64 * xstart) * (value (x'.drop xstart) + value y) := by rw [l1]
    linarith [key]
  -- normalisation of the vector before the final carry is added
  have hz0na : Normal x → (y.length + xstart < x'.length ∨ y = []) → Normal (x'.take xstart ++ r.1) := by
    intro hnx hcase
    by_cases hy : y = []
    · subst hy
      have : x' = x := by
        have h1 : ¬ ([] : Limbs).length > x.length - xstart := by simp
        rw [hx', if_neg h1]
      subst this
      have : r.1 = x'.drop xstart := by simpa using hdrop
      rw [this, List.take_append_drop]; exact hnx
    · have hfull : y.length + xstart < x'.length := by
        rcases hcase with h | h
        · exact h
        · exact absurd h hy
      -- the top of x is untouched
      have hxx := hnx' hfull
      subst hxx
      have hd : r.1.drop y.length ≠ [] := by
        rw [hdrop]; intro e
        have := List.drop_eq_nil_iff.mp e
        simp at this; omega
      unfold Normal at *
      rw [List.getLast?_append]
      have e1 : r.1.getLast? = (r.1.drop y.length).getLast? := by
        rw [List.getLast?_drop, if_neg]
        intro hle; exact hd (List.drop_eq_nil_iff.mpr hle)
      have e2 : (x'.drop xstart).getLast? = x'.getLast? := by
        rw [List.getLast?_drop, if_neg (by omega)]
      have e3 : ((x'.drop xstart).drop y.length).getLast? = (x'.drop xstart).getLast? := by
        rw [List.getLast?_drop, if_neg (by simp; omega)]
      rw [e1, hdrop, e3, e2]
      cases hx : x'.getLast? with
      | none => have := List.getLast?_eq_none_iff.mp hx; subst this; simp at hfull
      | some a => rw [hx] at hnx; simpa using hnx
  have hz0nb : Normal y → y ≠ [] → ¬ (y.length + xstart < x'.length) → r.2 = false →
      Normal (x'.take xstart ++ r.1) := by
    intro hny hy hfull hc
    have hfull' : y.length = (x'.drop xstart).length := by simp; omega
    have hr : Normal r.1 := hfullN hfull' hy (valid_drop hvx' _) hvy hny hc
    have hrne : r.1 ≠ [] := by
      intro e; rw [e] at l2
      have : y.length = 0 := by rw [hfull']; simpa using l2.symm
      exact hy (List.length_eq_zero_iff.mp this)
    unfold Normal at *
    rw [List.getLast?_append]
    cases hx : r.1.getLast? with
    | none => exact absurd (List.getLast?_eq_none_iff.mp hx) hrne
    | some a => rw [hx] at hr; simpa using hr
  cases hc : r.2 with
  | false =>
    simp only [Bool.false_eq_true, if_false]
    rw [hc] at hz0val
    refine ⟨_, rfl, by simpa using hz0val, hz0v, by omega, by omega, fun hnx hny => ?_⟩
    by_cases hcase : y.length + xstart < x'.length ∨ y = []
    · exact hz0na hnx hcase
    · exact hz0nb hny (fun h => hcase (Or.inr h)) (fun h => hcase (Or.inl h)) hc
  | true =>
    simp only [if_true]
    rw [hc] at hz0val
    have ⟨s1, s2⟩ := small_iaddImpl_spec (x'.take xstart ++ r.1) 1 (y.length + xstart) hz0v (by norm_num) (by omega)
    have s3 := small_iaddImpl_length_le (x'.take xstart ++ r.1) 1 (y.length + xstart)
    refine ⟨_, rfl, ?_, s2, by omega, by omega, ?_⟩
    · rw [s1]; simp only [b2n_true, Nat.mul_one] at hz0val; omega
    · intro hnx _
      by_cases hfull : y.length + xstart < x'.length
      · exact small_iaddImpl_normal _ 1 _ hz0v (by norm_num) (by norm_num) (by omega) (hz0na hnx (Or.inl hfull))
      · unfold small.iaddImpl
        rw [if_pos (by omega)]
        exact normal_append_singleton.mpr (by norm_num)

theorem large_iaddImpl_some {x y z : Limbs} {xstart : Nat} (h : large.iaddImpl x y xstart = some z) (hvx : Valid x)
    (hvy : Valid y) :
    xstart ≤ x.length ∧ value z = value x + value y * 2 ^ (64 * xstart) ∧ Valid z ∧ x.length ≤ z.length ∧
      y.length + xstart ≤ z.length ∧ (Normal x → Normal y → Normal z) := by
  have hs : xstart ≤ x.length := by
    by_contra hc
    have := (large_iaddImpl_none x y xstart).mpr (by omega)
    rw [this] at h; cases h
  obtain ⟨z', e, r⟩ := large_iaddImpl_spec x y xstart hs hvx hvy
  rw [e] at h; cases h
  exact ⟨hs, r⟩

/-! ## `iadd`, `add` -/

theorem large_add_spec (x y : Limbs) (hvx : Valid x) (hvy : Valid y) :
    value (large.add x y) = value x + value y ∧ Valid (large.add x y) ∧ x.length ≤ (large.add x y).length ∧
    y.length ≤ (large.add x y).length ∧ (Normal x → Normal y → Normal (large.add x y)) := by
  obtain ⟨z, e, r1, r2, r3, r4, r5⟩ := large_iaddImpl_spec x y 0 (Nat.zero_le _) hvx hvy
  unfold large.add large.iadd
  rw [e]
  exact ⟨by simpa using r1, r2, r3, by simpa using r4, r5⟩

/-! ## `isub` -/

theorem isubLoop_spec (xs ys : Limbs) (cin : Bool) (hl : ys.length ≤ xs.length) (hvx : Valid xs) (hvy : Valid ys) :
    value (large.isubLoop xs ys cin).1 + value ys + b2n cin =
      value xs + 2 ^ (64 * ys.length) * b2n (large.isubLoop xs ys cin).2 ∧
    (large.isubLoop xs ys cin).1.length = xs.length ∧ Valid (large.isubLoop xs ys cin).1 := by
  induction xs generalizing ys cin with
  | nil =>
    have : ys = [] := List.length_eq_zero_iff.mp (by simpa using hl)
    subst this
    simp [large.isubLoop]
  | cons xi xs ih =>
    cases ys with
    | nil => simp [large.isubLoop, hvx]
    | cons yi ys =>
      have ⟨hxi, hvxs⟩ := valid_cons.mp hvx
      have ⟨hyi, hvys⟩ := valid_cons.mp hvy
      have hl' : ys.length ≤ xs.length := by simpa using hl
      simp only [large.isubLoop, scalar.isub]
      have ⟨a1, a2⟩ := scalar_sub_spec hxi hyi
      have ⟨u1, u2⟩ := scalar_sub_spec a2 (show (1 : Nat) < 2 ^ 64 by norm_num)
      generalize ht : (if cin = true then ((scalar.sub (scalar.sub xi yi).1 1).1,
          (scalar.sub xi yi).2 || (scalar.sub (scalar.sub xi yi).1 1).2) else scalar.sub xi yi) = t
      have hstep : t.1 + yi + b2n cin = xi + 2 ^ 64 * b2n t.2 ∧ t.1 < 2 ^ 64 := by
        cases cin with
        | false => simp only [Bool.false_eq_true, if_false] at ht; subst ht; exact ⟨by simpa [b2n] using a1, a2⟩
        | true =>
          simp only [if_true] at ht; subst ht
          refine ⟨?_, u2⟩
          cases hc1 : (scalar.sub xi yi).2 <;> cases hc2 : (scalar.sub (scalar.sub xi yi).1 1).2 <;>
            simp only [hc1, hc2] at a1 u1 <;> simp [b2n] at a1 u1 ⊢ <;> omega
      have ⟨i1, i2, i3⟩ := ih ys t.2 hl' hvxs hvys
      refine ⟨?_, by simp [i2], valid_cons.mpr ⟨hstep.2, i3⟩⟩
      simp only [value_cons, List.length_cons, pow64_succ]
      nlinarith [hstep.1]

/-- **`large::isub` refines** (for `value y ≤ value x`, the `debug_assert!(greater_equal(x, y))` of the Rust). -/
theorem large_isub_spec (x y : Limbs) (hvx : Valid x) (hvy : Valid y) (hl : y.length ≤ x.length)
    (hge : value y ≤ value x) :
    ∃ z, large.isub x y = some z ∧ value z + value y = value x ∧ Valid z ∧ Normal z ∧ z.length ≤ x.length := by
  unfold large.isub
  have ⟨l1, l2, l3⟩ := isubLoop_spec x y false hl hvx hvy
  generalize large.isubLoop x y false = r at l1 l2 l3
  simp only [b2n_false, Nat.add_zero] at l1
  cases hc : r.2 with
  | false =>
    simp only [hc, Bool.false_eq_true, if_false]
    rw [hc] at l1
    refine ⟨_, rfl, ?_, valid_normalize l3, normal_normalize _, ?_⟩
    · rw [value_normalize]; simpa using l1
    · exact Nat.le_trans (normalize_length_le _) (by omega)
  | true =>
    simp only [hc, if_true]
    rw [hc] at l1
    simp only [b2n_true, Nat.mul_one] at l1
    have hge' : 1 * 2 ^ (64 * y.length) ≤ value r.1 := by omega
    have hlt : y.length < r.1.length := by
      by_contra hcon
      have h1 := value_lt l3
      have : (2 : Nat) ^ (64 * r.1.length) ≤ 2 ^ (64 * y.length) := Nat.pow_le_pow_right (by norm_num) (by omega)
      omega
    obtain ⟨z, e, z1, z2, z3, z4⟩ := small_isubImpl_spec r.1 1 y.length l3 (by norm_num) hlt hge'
    exact ⟨z, e, by omega, z2, z3, by omega⟩

theorem large_isub_some {x y z : Limbs} (h : large.isub x y = some z) (hvx : Valid x) (hvy : Valid y)
    (hl : y.length ≤ x.length) (hge : value y ≤ value x) :
    value z + value y = value x ∧ Valid z ∧ Normal z ∧ z.length ≤ x.length := by
  obtain ⟨z', e, r⟩ := large_isub_spec x y hvx hvy hl hge
  rw [e] at h; cases h; exact r

end SJ.Proofs.LexMath
