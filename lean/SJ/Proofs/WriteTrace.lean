import SJ.Model.WriteTrace
/-!
# `serT` is `ser` that remembers what it wrote

`ser_agree` (with `serElems_agree`, `serEntries_agree`, `serFields_agree`): when `Model.Ser.ser` succeeds, `serT` gives the same
buffers and state; when it fails, `serT` ends in the same error (having kept the buffers written before it).
-/
namespace SJ.Proofs.WriteTrace
open SJ SJ.Model.Ser SJ.Model.Write SJ.Model.WriteTrace SJ.Model.EscapeLocal

def Agree (r : Except SerErr W) (t : T FState) : Prop :=
  match r with
  | .ok w => t = { bufs := w.bufs, res := .ok w.st }
  | .error e => t.res = .error e

def AgreeS (r : Except SerErr WS) (t : T (State × FState)) : Prop :=
  match r with
  | .ok w => t = { bufs := w.bufs, res := .ok (w.state, w.st) }
  | .error e => t.res = .error e

theorem bind_ok {α β : Type} {t : T α} {b : List Bytes} {x : α} (h : t = { bufs := b, res := .ok x }) (k : α → T β) :
    t.bind k = { bufs := b ++ (k x).bufs, res := (k x).res } := by subst h; rfl

theorem bind_err {α β : Type} {t : T α} {e : SerErr} (h : t.res = .error e) (k : α → T β) :
    (t.bind k).res = .error e := by simp [T.bind, h]

theorem ofW_bind {β : Type} (w : W) (k : FState → T β) :
    (ofW w).bind k = { bufs := w.bufs ++ (k w.st).bufs, res := (k w.st).res } := rfl

theorem ofWS_bind {β : Type} (w : WS) (k : State × FState → T β) :
    (ofWS w).bind k = { bufs := w.bufs ++ (k (w.state, w.st)).bufs, res := (k (w.state, w.st)).res } := rfl

theorem agree_leaf (w : W) : Agree (.ok w) (ofW w) := rfl

/-- the common shape of `finishSeq`, `finishMap`, `finishTupleVariant`, `finishStructVariant` -/
def finishWith (o : List Bytes) (fin : State → FState → W) : Except SerErr WS → Except SerErr W
  | .error e => .error e
  | .ok r => .ok ((W.mk (o ++ r.bufs) r.st).andThen (fin r.state))

theorem finishSeq_eq (f : Fmt) (o : WS) (res : Except SerErr WS) :
    finishSeq f o res = finishWith o.bufs (seqEnd f) res := by cases res <;> rfl
theorem finishMap_eq (f : Fmt) (o : WS) (res : Except SerErr WS) :
    finishMap f o res = finishWith o.bufs (mapEnd f) res := by cases res <;> rfl
theorem finishTupleVariant_eq (f : Fmt) (a : W) (o : WS) (res : Except SerErr WS) :
    finishTupleVariant f a o res = finishWith (a.bufs ++ o.bufs) (tupleVariantEnd f) res := by cases res <;> rfl
theorem finishStructVariant_eq (f : Fmt) (a : W) (o : WS) (res : Except SerErr WS) :
    finishStructVariant f a o res = finishWith (a.bufs ++ o.bufs) (structVariantEnd f) res := by cases res <;> rfl

/-- the end of a seq / map / variant: `fin` only writes -/
theorem agree_finish {o : List Bytes} {res : Except SerErr WS} {t : T (State × FState)} (h : AgreeS res t)
    (fin : State → FState → W) :
    Agree (finishWith o fin res)
      { bufs := o ++ (t.bind fun r => ofW (fin r.1 r.2)).bufs, res := (t.bind fun r => ofW (fin r.1 r.2)).res } := by
  cases res with
  | error e => exact bind_err h _
  | ok r =>
    simp only [AgreeS] at h
    simp only [finishWith, Agree, bind_ok h, ofW, W.andThen, List.append_assoc]

variable (ext : Ext) (f : Fmt)

mutual
theorem ser_agree : ∀ (p : SVal) (st : FState), Agree (ser ext f p st) (serT ext f p st)
  | .bool _, _ | .int _ _, _ | .f32 _, _ | .f64 _, _ | .char _, _ | .str _, _ | .bytes _, _ | .none, _ | .unit, _
  | .unitStruct, _ | .unitVariant _, _ | .collectStr _, _ | .numberLit _, _ => by
    simp only [ser, serT]; exact agree_leaf _
  | .some p, st => by simp only [ser, serT]; exact ser_agree p st
  | .newtypeStruct p, st => by simp only [ser, serT]; exact ser_agree p st
  | .newtypeVariant v p, st => by
    simp only [ser, serT, finishNewtypeVariant, ofW_bind]
    have ih := ser_agree p (variantOpen f v st).st
    cases h : ser ext f p (variantOpen f v st).st with
    | error e => rw [h] at ih; exact bind_err ih _
    | ok r =>
      rw [h] at ih
      simp only [Agree] at ih
      simp only [Agree, bind_ok ih, ofW, W.andThen, List.append_assoc]
  | .seq hint xs, st => by
    simp only [ser, serT, finishSeq_eq, ofWS_bind]
    exact agree_finish (serElems_agree xs _ _) (seqEnd f)
  | .tuple xs, st => by
    simp only [ser, serT, finishSeq_eq, ofWS_bind]
    exact agree_finish (serElems_agree xs _ _) (seqEnd f)
  | .tupleStruct xs, st => by
    simp only [ser, serT, finishSeq_eq, ofWS_bind]
    exact agree_finish (serElems_agree xs _ _) (seqEnd f)
  | .tupleVariant v xs, st => by
    simp only [ser, serT, finishTupleVariant_eq, ofWS_bind, ofW_bind]
    have := agree_finish (o := (variantOpen f v st).bufs ++ (serializeSeq f (some xs.length) (variantOpen f v st).st).bufs)
      (serElems_agree xs (serializeSeq f (some xs.length) (variantOpen f v st).st).state
        (serializeSeq f (some xs.length) (variantOpen f v st).st).st) (tupleVariantEnd f)
    simpa only [List.append_assoc] using this
  | .map hint es, st => by
    simp only [ser, serT, finishMap_eq, ofWS_bind]
    exact agree_finish (serEntries_agree es _ _) (mapEnd f)
  | .struct_ fs, st => by
    simp only [ser, serT, finishMap_eq, ofWS_bind]
    exact agree_finish (serFields_agree fs _ _) (mapEnd f)
  | .structVariant v fs, st => by
    simp only [ser, serT, finishStructVariant_eq, ofWS_bind, ofW_bind]
    have := agree_finish (o := (variantOpen f v st).bufs ++ (serializeMap f (some fs.length) (variantOpen f v st).st).bufs)
      (serFields_agree fs (serializeMap f (some fs.length) (variantOpen f v st).st).state
        (serializeMap f (some fs.length) (variantOpen f v st).st).st) (structVariantEnd f)
    simpa only [List.append_assoc] using this
theorem serElems_agree : ∀ (xs : List SVal) (state : State) (st : FState),
    AgreeS (serElems ext f xs state st) (serElemsT ext f xs state st)
  | [], _, _ => by simp only [serElems, serElemsT]; rfl
  | x :: xs, state, st => by
    simp only [serElems, serElemsT, ofW_bind]
    have ihx := ser_agree x (beginArrayValue f (state == .first) st).st
    cases hx : ser ext f x (beginArrayValue f (state == .first) st).st with
    | error e => rw [hx] at ihx; exact bind_err ihx _
    | ok r =>
      rw [hx] at ihx
      simp only [Agree] at ihx
      simp only [bind_ok ihx]
      have iht := serElems_agree xs .rest (endArrayValue f r.st).st
      cases ht : serElems ext f xs .rest (endArrayValue f r.st).st with
      | error e => rw [ht] at iht; exact iht
      | ok t =>
        rw [ht] at iht
        simp only [AgreeS] at iht
        simp only [AgreeS, iht, List.append_assoc]
theorem serEntries_agree : ∀ (es : List (SVal × SVal)) (state : State) (st : FState),
    AgreeS (serEntries ext f es state st) (serEntriesT ext f es state st)
  | [], _, _ => by simp only [serEntries, serEntriesT]; rfl
  | (k, v) :: es, state, st => by
    simp only [serEntries, serEntriesT, ofW_bind]
    cases hk : keySer ext k with
    | error e => simp only [AgreeS, ofKey, T.bind]
    | ok kb =>
      simp only [ofKey, T.bind]
      have ihv := ser_agree v ((W.mk ((beginObjectKey f (state == .first) st).bufs ++ kb)
          (beginObjectKey f (state == .first) st).st |>.andThen (endObjectKey f)).andThen (beginObjectValue f)).st
      cases hv : ser ext f v ((W.mk ((beginObjectKey f (state == .first) st).bufs ++ kb)
          (beginObjectKey f (state == .first) st).st |>.andThen (endObjectKey f)).andThen (beginObjectValue f)).st with
      | error e =>
        rw [hv] at ihv
        simp only [W.andThen, Agree] at ihv
        simp only [AgreeS, ihv]
      | ok r =>
        rw [hv] at ihv
        simp only [Agree, W.andThen] at ihv
        simp only [ihv]
        have iht := serEntries_agree es .rest (endObjectValue f r.st).st
        cases ht : serEntries ext f es .rest (endObjectValue f r.st).st with
        | error e => rw [ht] at iht; simp only [AgreeS]; exact iht
        | ok t =>
          rw [ht] at iht
          simp only [AgreeS] at iht
          simp only [AgreeS, iht, W.andThen, List.append_assoc]
theorem serFields_agree : ∀ (fs : List (Bytes × SVal)) (state : State) (st : FState),
    AgreeS (serFields ext f fs state st) (serFieldsT ext f fs state st)
  | [], _, _ => by simp only [serFields, serFieldsT]; rfl
  | (k, v) :: fs, state, st => by
    simp only [serFields, serFieldsT, ofW_bind]
    simp only [T.bind, write]
    have ihv := ser_agree v ((W.mk ((beginObjectKey f (state == .first) st).bufs ++ escapeStr k)
        (beginObjectKey f (state == .first) st).st |>.andThen (endObjectKey f)).andThen (beginObjectValue f)).st
    cases hv : ser ext f v ((W.mk ((beginObjectKey f (state == .first) st).bufs ++ escapeStr k)
        (beginObjectKey f (state == .first) st).st |>.andThen (endObjectKey f)).andThen (beginObjectValue f)).st with
    | error e =>
      rw [hv] at ihv
      simp only [W.andThen, Agree] at ihv
      simp only [AgreeS, ihv]
    | ok r =>
      rw [hv] at ihv
      simp only [Agree, W.andThen] at ihv
      simp only [ihv]
      have iht := serFields_agree fs .rest (endObjectValue f r.st).st
      cases ht : serFields ext f fs .rest (endObjectValue f r.st).st with
      | error e => rw [ht] at iht; simp only [AgreeS]; exact iht
      | ok t =>
        rw [ht] at iht
        simp only [AgreeS] at iht
        simp only [AgreeS, iht, W.andThen, List.append_assoc]
end

/-- a program that serialises: `serT` is `ser` -/
theorem serT_ok {p : SVal} {st : FState} {r : W} (h : ser ext f p st = .ok r) :
    serT ext f p st = { bufs := r.bufs, res := .ok r.st } := by
  have := ser_agree ext f p st; rwa [h] at this

/-- a program that does not: the same error -/
theorem serT_err {p : SVal} {st : FState} {e : SerErr} (h : ser ext f p st = .error e) :
    (serT ext f p st).res = .error e := by
  have := ser_agree ext f p st; rwa [h] at this

end SJ.Proofs.WriteTrace
