import SJ.Proofs.FloatWithin
import SJ.Proofs.FloatDigits
/-!
# The float clauses of C08 for every grammatical literal

`collect_spec` reduces a literal to `f64_from_parts(positive, s, netExp + g)` with
`x = s·10^(netExp+g) ≤ y ≤ x·(1 + 10^-18)`, `y = D·10^netExp` the literal's exact value; the bounds about
`f64_from_parts` (`parts_near`, `f64FromParts_overflow_direction`, `f64FromParts_underflow`) are moved
from `x` to `y`. The only side condition is `l.digits.length < 2^30` (used where the exponent digits
overflow `i32`: then `|netExp| ≥ 2^30`, far outside binary64 either way).
-/
namespace SJ.Proofs.FloatQ
open SJ SJ.Spec.Ieee SJ.Spec.Decimal SJ.Model.FloatDefault SJ.Proofs.Ieee SJ.Proofs.FloatDefault

/-! ## Rational readings -/

theorem exact_den_pos (l : NumLit) : 0 < l.exact.2 := scale10_den_pos _ _

theorem exact_q (l : NumLit) :
    (l.exact.1 : ℚ) / (l.exact.2 : ℚ) = (l.sigVal : ℚ) * (10 : ℚ) ^ l.netExp := scale10_q _ _

theorem z10_pos (e : Int) : (0 : ℚ) < (10 : ℚ) ^ e := zpow_pos (by norm_num) e

/-- `T·den ≤ num ↔ T ≤ num/den` -/
theorem le_ratio_iff (T num den : Nat) (hden : 0 < den) :
    T * den ≤ num ↔ (T : ℚ) ≤ (num : ℚ) / (den : ℚ) := by
  have hdq : (0 : ℚ) < den := by exact_mod_cast hden
  rw [le_div_iff₀ hdq]
  exact_mod_cast Iff.rfl

/-- `num·T ≤ den ↔ num/den·T ≤ 1` -/
theorem ratio_le_iff (T num den : Nat) (hden : 0 < den) :
    num * T ≤ den ↔ (num : ℚ) / (den : ℚ) * (T : ℚ) ≤ 1 := by
  have hdq : (0 : ℚ) < den := by exact_mod_cast hden
  rw [div_mul_eq_mul_div, div_le_one hdq]
  exact_mod_cast Iff.rfl

/-- the parsed value `x = s·10^(netExp+g)` against the exact `y = D·10^netExp` -/
theorem parsed_le_exact (s g D : Nat) (n : Int) (hlo : s * 10 ^ g ≤ D)
    (hhi : 10 ^ 18 * (D - s * 10 ^ g) ≤ s * 10 ^ g) :
    (s : ℚ) * (10 : ℚ) ^ (n + g) ≤ (D : ℚ) * (10 : ℚ) ^ n ∧
    ((D : ℚ) * (10 : ℚ) ^ n - (s : ℚ) * (10 : ℚ) ^ (n + g)) * 10 ^ 18 ≤ (s : ℚ) * (10 : ℚ) ^ (n + g) := by
  have hz := z10_pos n
  have e : (s : ℚ) * (10 : ℚ) ^ (n + g) = ((s * 10 ^ g : Nat) : ℚ) * (10 : ℚ) ^ n := by
    rw [zpow_add₀ (by norm_num), zpow_natCast]; push_cast; ring
  rw [e]
  have h1 : ((s * 10 ^ g : Nat) : ℚ) ≤ (D : ℚ) := by exact_mod_cast hlo
  have h2 : ((10 ^ 18 * (D - s * 10 ^ g) : Nat) : ℚ) ≤ ((s * 10 ^ g : Nat) : ℚ) := by exact_mod_cast hhi
  rw [Nat.cast_mul, Nat.cast_sub hlo] at h2
  generalize ((s * 10 ^ g : Nat) : ℚ) = P at *
  push_cast at h2
  constructor
  · exact mul_le_mul_of_nonneg_right h1 (le_of_lt hz)
  · have : ((D : ℚ) - P) * 10 ^ 18 ≤ P := by linarith
    calc ((D : ℚ) * 10 ^ n - P * 10 ^ n) * 10 ^ 18 = (((D : ℚ) - P) * 10 ^ 18) * 10 ^ n := by ring
      _ ≤ P * 10 ^ n := mul_le_mul_of_nonneg_right this (le_of_lt hz)

/-- `s = 0 ↔ D = 0` -/
theorem sig_zero_iff (s g D : Nat) (hlo : s * 10 ^ g ≤ D) (hhi : 10 ^ 18 * (D - s * 10 ^ g) ≤ s * 10 ^ g) :
    s = 0 ↔ D = 0 := by
  constructor
  · intro h; subst h; simp at hhi ⊢; omega
  · intro h; subst h
    have : s * 10 ^ g = 0 := by omega
    rcases Nat.mul_eq_zero.1 this with h | h
    · exact h
    · exact absurd h (by simp)

theorem sigVal_lt (l : NumLit) (hwf : l.WF = true) : l.sigVal < 10 ^ l.digits.length := by
  obtain ⟨hid, hfd, _⟩ := wf_parts l hwf
  have hall : l.digits.all isDigit = true := by
    unfold NumLit.digits; simp [List.all_append, hid, hfd]
  have := (digitsFrom_bounds l.digits 0 hall).2
  unfold NumLit.sigVal
  rw [digitsVal_eq]
  omega

/-! ## Exponent digits beyond `i32`: the value is astronomically large or small -/

theorem tiny_num : (2 ^ 1074 * 100 : Nat) ≤ 56 * 10 ^ 1100 := by decide +kernel

/-- a negative exponent beyond `i32`: the exact value is far below half a unit -/
theorem tiny_val (D L E nF : Nat) (hD : D < 10 ^ L) (hEL : L + 1100 ≤ E) :
    (D : ℚ) * (10 : ℚ) ^ (-(E : Int) - (nF : Int)) * c ≤ hE := by
  have hcp := c_pos
  have h1 : (10 : ℚ) ^ (-(E : Int) - (nF : Int)) ≤ (10 : ℚ) ^ (-((L + 1100 : Nat) : Int)) :=
    zpow_le_zpow_right₀ (by norm_num) (by push_cast; omega)
  have h2 : (D : ℚ) ≤ (10 : ℚ) ^ L := by exact_mod_cast (le_of_lt hD)
  have h3 : (D : ℚ) * (10 : ℚ) ^ (-(E : Int) - (nF : Int)) ≤ (10 : ℚ) ^ L * (10 : ℚ) ^ (-((L + 1100 : Nat) : Int)) :=
    mul_le_mul h2 h1 (le_of_lt (z10_pos _)) (by positivity)
  have h4 : (10 : ℚ) ^ L * (10 : ℚ) ^ (-((L + 1100 : Nat) : Int)) = 1 / (10 : ℚ) ^ 1100 := by
    rw [zpow_neg_nat, pow_add]; field_simp
  rw [h4] at h3
  have h5 : (2 : ℚ) ^ 1074 * 100 ≤ 56 * 10 ^ 1100 := by exact_mod_cast tiny_num
  rw [two_pow_eq_c] at h5
  have h6 : 1 / (10 : ℚ) ^ 1100 * c ≤ hE := by
    unfold hE
    rw [div_mul_eq_mul_div, one_mul, div_le_iff₀ (by positivity)]
    linarith
  calc (D : ℚ) * (10 : ℚ) ^ (-(E : Int) - (nF : Int)) * c ≤ 1 / (10 : ℚ) ^ 1100 * c :=
        mul_le_mul_of_nonneg_right h3 (le_of_lt hcp)
    _ ≤ hE := h6

/-- a positive exponent beyond `i32` on a non-zero significand: at least `10^1100` -/
theorem huge_val (D E nF : Nat) (hD : 1 ≤ D) (hEL : nF + 1100 ≤ E) :
    (10 : ℚ) ^ 1100 ≤ (D : ℚ) * (10 : ℚ) ^ ((E : Int) - (nF : Int)) := by
  have h1 : (10 : ℚ) ^ ((1100 : Nat) : Int) ≤ (10 : ℚ) ^ ((E : Int) - (nF : Int)) :=
    zpow_le_zpow_right₀ (by norm_num) (by push_cast; omega)
  rw [zpow_natCast] at h1
  have h2 : (1 : ℚ) ≤ (D : ℚ) := by exact_mod_cast hD
  calc (10 : ℚ) ^ 1100 = 1 * (10 : ℚ) ^ 1100 := by ring
    _ ≤ (D : ℚ) * (10 : ℚ) ^ ((E : Int) - (nF : Int)) := mul_le_mul h2 h1 (by positivity) (by positivity)

theorem netExp_neg (l : NumLit) (h : l.expNeg = true) :
    l.netExp = -(l.expVal : Int) - (l.fracDigits.length : Int) := by
  unfold NumLit.netExp; rw [h]; simp

theorem netExp_pos (l : NumLit) (h : l.expNeg = false) :
    l.netExp = (l.expVal : Int) - (l.fracDigits.length : Int) := by
  unfold NumLit.netExp; rw [h]; simp

theorem frac_le_digits (l : NumLit) : l.fracDigits.length ≤ l.digits.length := by
  unfold NumLit.digits; rw [List.length_append]; omega

/-! ## 5 ulp -/

/-- moving the error bound from the parsed value `x` to the exact value `y ∈ [x, x·(1 + 10^-18)]` -/
theorem near_lift (M x y : ℚ) (hx : 0 ≤ x) (hxy : x ≤ y) (hyx : (y - x) * 10 ^ 18 ≤ x)
    (hn : Near αE hE M (x * c)) : Near αL hE M (y * c) := by
  unfold Near at *
  have hcp := c_pos
  have h1 : |M - y * c| ≤ |M - x * c| + (y - x) * c := by
    have e : M - y * c = (M - x * c) + (-((y - x) * c)) := by ring
    rw [e]
    have h := abs_add_le (M - x * c) (-((y - x) * c))
    rw [abs_neg, abs_of_nonneg (mul_nonneg (by linarith) (le_of_lt hcp))] at h
    exact h
  have h2 : (y - x) * c * 10 ^ 18 ≤ x * c := by nlinarith
  have h3 : αE * (x * c) ≤ αE * (y * c) :=
    mul_le_mul_of_nonneg_left (mul_le_mul_of_nonneg_right hxy (le_of_lt hcp)) (by unfold αE u; norm_num)
  have h4 : x * c ≤ y * c := mul_le_mul_of_nonneg_right hxy (le_of_lt hcp)
  have hxc : 0 ≤ x * c := mul_nonneg hx (le_of_lt hcp)
  -- 10^-18 ≤ 0.019·2^-53
  have h5 : (y - x) * c ≤ 19 / 1000 * u * (y * c) := by
    have : (1 : ℚ) / 10 ^ 18 ≤ 19 / 1000 * u := by unfold u; norm_num
    have h6 : (y - x) * c ≤ 1 / 10 ^ 18 * (x * c) := by
      rw [div_mul_eq_mul_div, one_mul, le_div_iff₀ (by positivity)]; exact h2
    have h7 : 1 / 10 ^ 18 * (x * c) ≤ 19 / 1000 * u * (x * c) := mul_le_mul_of_nonneg_right this hxc
    have h8 : 19 / 1000 * u * (x * c) ≤ 19 / 1000 * u * (y * c) :=
      mul_le_mul_of_nonneg_left h4 (by unfold u; norm_num)
    linarith
  unfold αL
  unfold αE at hn h3
  linarith

theorem neg_zero_eq : F64.neg 0 = F64.zero true := by decide

/-- **5 ulp, literal level.** -/
theorem floatOfLiteral_within5 (l : NumLit) (hwf : l.WF = true) (hlen : l.digits.length < 2 ^ 30)
    (r : UInt64) (h : floatOfLiteral l = some r) :
    withinUlps 5 l.neg l.exact.1 l.exact.2 r = true := by
  obtain ⟨hfin, hsign⟩ := toF64_finite_signed l.neg _ r (partsOfLiteral_good l hwf) h
  apply withinUlps_of_near _ _ _ r (exact_den_pos l) hfin hsign
  have hden : (0 : ℚ) < (l.exact.2 : ℚ) := by exact_mod_cast exact_den_pos l
  have e1 : (l.exact.1 : ℚ) * c / (l.exact.2 : ℚ) = (l.sigVal : ℚ) * (10 : ℚ) ^ l.netExp * c := by
    rw [← exact_q]; field_simp
  rw [e1]
  have hcp := c_pos
  have hu64 : u64Max < 2 ^ 64 := by decide
  obtain ⟨s, g, hsle, hlo, hhi, hcase⟩ := collect_spec l hwf
  obtain ⟨hxy, hyx⟩ := parsed_le_exact s g l.sigVal l.netExp hlo hhi
  rcases hcase with ⟨_, _, hnet, _, hsD, hres⟩ | hres | ⟨hov, hres⟩
  · -- integer path: one correctly rounded conversion
    rw [hres] at h
    have hm : F64.mag r = F64.mag (F64.ofU64 s) := by
      cases hneg : l.neg <;> rw [hneg] at h <;> simp only [Bool.false_eq_true, if_false, if_true, Option.some.injEq] at h <;>
        rw [← h]
      exact F64.neg_mag _
    rw [hm, hnet, ← hsD]
    have hn := ofU64_near s (by omega)
    simp only [zpow_zero, mul_one]
    exact near_mono (sc_nonneg s) (by unfold αL; have := u_pos; linarith) (by unfold hE; norm_num) hn
  · rw [hres] at h
    have hn := parts_near (!l.neg) s (l.netExp + g) r (by omega) h
    exact near_lift _ _ _ (mul_nonneg (Nat.cast_nonneg s) (le_of_lt (z10_pos _))) hxy hyx hn
  · -- exponent digits beyond i32: the result is ±0
    rw [hres] at h
    unfold parseExponentOverflow at h
    split at h
    · cases h
    · rename_i hc
      cases h
      rw [F64.zero_mag]
      have hy0 : 0 ≤ (l.sigVal : ℚ) * (10 : ℚ) ^ l.netExp * c :=
        mul_nonneg (mul_nonneg (Nat.cast_nonneg _) (le_of_lt (z10_pos _))) (le_of_lt hcp)
      have hsmall : (l.sigVal : ℚ) * (10 : ℚ) ^ l.netExp * c ≤ hE := by
        by_cases hz : s = 0
        · have := (sig_zero_iff s g l.sigVal hlo hhi).1 hz
          rw [this]; simp; unfold hE; norm_num
        · have hen : l.expNeg = true := by
            cases hx : l.expNeg
            · exfalso; apply hc; simp [hz, hx]
            · rfl
          rw [netExp_neg l hen]
          have := frac_le_digits l
          exact tiny_val l.sigVal l.digits.length l.expVal l.fracDigits.length (sigVal_lt l hwf)
            (by unfold i32Max at hov; omega)
      unfold Near
      rw [Nat.cast_zero, zero_sub, abs_neg, abs_of_nonneg hy0]
      have : 0 ≤ αL * ((l.sigVal : ℚ) * (10 : ℚ) ^ l.netExp * c) :=
        mul_nonneg (by unfold αL u; norm_num) hy0
      linarith

/-! ## Underflow -/

theorem c_ge_one : 1 ≤ c := by
  rw [← two_pow_eq_c]; exact one_le_pow₀ (by norm_num)

theorem huge_gt : (2 : ℚ) ≤ (10 : ℚ) ^ 1100 := by
  calc (2 : ℚ) ≤ 10 ^ 1 := by norm_num
    _ ≤ 10 ^ 1100 := pow_le_pow_right₀ (by norm_num) (by norm_num)

/-- the three ways `parse_exponent_overflow` can be entered, by value of the literal -/
theorem ovf_cases (l : NumLit) (hwf : l.WF = true) (hlen : l.digits.length < 2 ^ 30) (s g : Nat)
    (hlo : s * 10 ^ g ≤ l.sigVal) (hhi : 10 ^ 18 * (l.sigVal - s * 10 ^ g) ≤ s * 10 ^ g)
    (hov : i32Max < l.expVal) :
    ((!(s == 0) && !l.expNeg) = true ∧ (10 : ℚ) ^ 1100 ≤ (l.sigVal : ℚ) * (10 : ℚ) ^ l.netExp) ∨
    ((!(s == 0) && !l.expNeg) = false ∧ (l.sigVal : ℚ) * (10 : ℚ) ^ l.netExp * c ≤ hE) := by
  have hfl := frac_le_digits l
  have hz := sig_zero_iff s g l.sigVal hlo hhi
  by_cases hs : s = 0
  · right
    refine ⟨by simp [hs], ?_⟩
    rw [hz.1 hs]; simp; unfold hE; norm_num
  · cases hen : l.expNeg
    · left
      refine ⟨by simp [hs], ?_⟩
      rw [netExp_pos l hen]
      have hD : 1 ≤ l.sigVal := by
        rcases Nat.eq_zero_or_pos l.sigVal with h | h
        · exact absurd (hz.2 h) hs
        · exact h
      exact huge_val l.sigVal l.expVal l.fracDigits.length hD (by unfold i32Max at hov; omega)
    · right
      refine ⟨by simp, ?_⟩
      rw [netExp_neg l hen]
      exact tiny_val l.sigVal l.digits.length l.expVal l.fracDigits.length (sigVal_lt l hwf)
        (by unfold i32Max at hov; omega)

/-- **Underflow, literal level:** exact value `≤ 2^-1076` ⇒ `±0` with the literal's sign -/
theorem floatOfLiteral_underflow (l : NumLit) (hwf : l.WF = true) (hlen : l.digits.length < 2 ^ 30)
    (hx : l.exact.1 * 2 ^ 1076 ≤ l.exact.2) : floatOfLiteral l = some (F64.zero l.neg) := by
  have hq := (ratio_le_iff _ _ _ (exact_den_pos l)).1 hx
  rw [exact_q] at hq
  have hW2 : (2 : ℚ) ≤ ((2 ^ 1076 : Nat) : ℚ) := by
    have : 2 ^ 1 ≤ 2 ^ 1076 := Nat.pow_le_pow_right (by decide) (by decide)
    exact_mod_cast this
  have hu64 : u64Max < 2 ^ 64 := by decide
  have hcp := c_pos
  obtain ⟨s, g, hsle, hlo, hhi, hcase⟩ := collect_spec l hwf
  obtain ⟨hxy, _⟩ := parsed_le_exact s g l.sigVal l.netExp hlo hhi
  rcases hcase with ⟨_, _, hnet, _, hsD, hres⟩ | hres | ⟨hov, hres⟩
  · -- integer path: the literal is `0` or `-0`
    rw [hnet] at hq
    simp only [zpow_zero, mul_one] at hq
    have hD0 : l.sigVal = 0 := by
      have h1 : (l.sigVal : ℚ) < 1 := by
        have h0 : (0 : ℚ) ≤ l.sigVal := Nat.cast_nonneg _
        nlinarith
      have h2 : l.sigVal < 1 := by exact_mod_cast h1
      omega
    rw [hres, hsD, hD0, ofU64_zero, neg_zero_eq]
    cases l.neg <;> rfl
  · rw [hres]
    rcases Nat.eq_zero_or_pos s with h0 | hs1
    · subst h0; rw [f64FromParts_zero, Bool.not_not]
    · -- x·2^1076 ≤ 1
      have hxq : (s : ℚ) * (10 : ℚ) ^ (l.netExp + g) * ((2 ^ 1076 : Nat) : ℚ) ≤ 1 :=
        le_trans (mul_le_mul_of_nonneg_right hxy (by linarith)) hq
      have hs1q : (1 : ℚ) ≤ (s : ℚ) := by exact_mod_cast hs1
      rcases Int.lt_or_le (l.netExp + g) 0 with hneg | hpos
      · obtain ⟨k, hk⟩ : ∃ k : Nat, l.netExp + g = -(k : Int) := ⟨(l.netExp + g).natAbs, by omega⟩
        rw [hk] at hxq ⊢
        have hnat : s * 2 ^ 1076 ≤ 10 ^ (-(k : Int)).natAbs := by
          have hkk : (-(k : Int)).natAbs = k := by omega
          rw [hkk]
          rw [zpow_neg_nat, mul_one_div, div_mul_eq_mul_div, div_le_one (p10_pos k)] at hxq
          exact_mod_cast hxq
        rw [f64FromParts_underflow _ s _ (by omega) (by omega) hnat, Bool.not_not]
      · exfalso
        have h1 : (1 : ℚ) ≤ (10 : ℚ) ^ (l.netExp + g) := one_le_zpow₀ (by norm_num) hpos
        have h2 : (1 : ℚ) ≤ (s : ℚ) * (10 : ℚ) ^ (l.netExp + g) := by nlinarith
        have h3 : (2 : ℚ) ≤ (s : ℚ) * (10 : ℚ) ^ (l.netExp + g) * ((2 ^ 1076 : Nat) : ℚ) := by nlinarith
        linarith
  · rw [hres]
    rcases ovf_cases l hwf hlen s g hlo hhi hov with ⟨_, hbig⟩ | ⟨hc, _⟩
    · exfalso
      have := huge_gt
      have h3 : (2 : ℚ) * 2 ≤ (l.sigVal : ℚ) * (10 : ℚ) ^ l.netExp * ((2 ^ 1076 : Nat) : ℚ) :=
        mul_le_mul (le_trans this hbig) hW2 (by norm_num) (le_trans (by positivity) hbig)
      linarith
    · unfold parseExponentOverflow
      rw [hc]
      simp

/-! ## Overflow direction -/

theorem ovf_nums : 2 ^ 1024 - 2 ^ 970 - 2 ^ 972 ≤ 10 ^ 1100 ∧ 2 ^ 64 ≤ 2 ^ 1024 + 2 ^ 972 ∧
    (10 ^ 18 + 1) * (2 ^ 1024 + 2 ^ 972) ≤ 10 ^ 18 * (2 ^ 1024 + 2 ^ 972 + 2 ^ 965) := by decide +kernel

/-- **Overflow direction, literal level.** Rejected ⇒ exact value `≥ 2^1024 − 2^970 − 2^972`;
    exact value `≥ 2^1024 + 2^972 + 2^965` ⇒ rejected. -/
theorem floatOfLiteral_overflow (l : NumLit) (hwf : l.WF = true) (hlen : l.digits.length < 2 ^ 30) :
    (floatOfLiteral l = none → (2 ^ 1024 - 2 ^ 970 - 2 ^ 972) * l.exact.2 ≤ l.exact.1) ∧
    ((2 ^ 1024 + 2 ^ 972 + 2 ^ 965) * l.exact.2 ≤ l.exact.1 → floatOfLiteral l = none) := by
  obtain ⟨hn1, hn2, hn3⟩ := ovf_nums
  have hu64 : u64Max < 2 ^ 64 := by decide
  have hcp := c_pos
  have hc1 := c_ge_one
  obtain ⟨s, g, hsle, hlo, hhi, hcase⟩ := collect_spec l hwf
  obtain ⟨hxy, hyx⟩ := parsed_le_exact s g l.sigVal l.netExp hlo hhi
  have hod := f64FromParts_overflow_direction (!l.neg) s (l.netExp + g) (by omega)
  generalize 2 ^ 1024 - 2 ^ 970 - 2 ^ 972 = Tlo at hn1 hod ⊢
  generalize 2 ^ 1024 + 2 ^ 972 + 2 ^ 965 = Thi' at hn3 ⊢
  generalize 2 ^ 1024 + 2 ^ 972 = Thi at hn2 hn3 hod ⊢
  have hx0 : 0 ≤ (s : ℚ) * (10 : ℚ) ^ (l.netExp + g) :=
    mul_nonneg (Nat.cast_nonneg s) (le_of_lt (z10_pos _))
  constructor
  · intro hnone
    rw [le_ratio_iff _ _ _ (exact_den_pos l), exact_q]
    rcases hcase with ⟨_, _, _, _, _, hres⟩ | hres | ⟨hov, hres⟩
    · rw [hres] at hnone; cases hnone
    · rw [hres] at hnone
      obtain ⟨hpos, hT⟩ := hod.1 hnone
      obtain ⟨k, hk⟩ : ∃ k : Nat, l.netExp + g = (k : Int) := ⟨(l.netExp + g).natAbs, by omega⟩
      rw [hk] at hT hxy
      have hkk : ((k : Int)).natAbs = k := by omega
      rw [hkk] at hT
      have hTq : (Tlo : ℚ) ≤ (s : ℚ) * (10 : ℚ) ^ (k : Int) := by
        rw [zpow_natCast]; exact_mod_cast hT
      exact le_trans hTq hxy
    · rw [hres] at hnone
      rcases ovf_cases l hwf hlen s g hlo hhi hov with ⟨_, hbig⟩ | ⟨hc, _⟩
      · have : (Tlo : ℚ) ≤ (10 : ℚ) ^ 1100 := by exact_mod_cast hn1
        exact le_trans this hbig
      · unfold parseExponentOverflow at hnone
        rw [hc] at hnone
        simp at hnone
  · intro hT
    rw [le_ratio_iff _ _ _ (exact_den_pos l), exact_q] at hT
    have hT1 : (2 : ℚ) ^ 64 ≤ (Thi : ℚ) := by exact_mod_cast hn2
    have hT2 : ((10 : ℚ) ^ 18 + 1) * (Thi : ℚ) ≤ 10 ^ 18 * (Thi' : ℚ) := by exact_mod_cast hn3
    have hT3 : (Thi : ℚ) ≤ (Thi' : ℚ) := by
      have : (0 : ℚ) ≤ (Thi : ℚ) := Nat.cast_nonneg _
      linarith
    rcases hcase with ⟨_, _, hnet, _, hsD, _⟩ | hres | ⟨hov, hres⟩
    · -- an integer below 2^64 is not that large
      exfalso
      rw [hnet] at hT
      simp only [zpow_zero, mul_one] at hT
      have : (l.sigVal : ℚ) < 2 ^ 64 := by
        have : l.sigVal < 2 ^ 64 := by omega
        exact_mod_cast this
      linarith
    · rw [hres]
      -- x ≥ Thi
      have hxT : (Thi : ℚ) ≤ (s : ℚ) * (10 : ℚ) ^ (l.netExp + g) := by linarith
      have hsq : (s : ℚ) < 2 ^ 64 := by
        have : s < 2 ^ 64 := by omega
        exact_mod_cast this
      rcases Int.lt_or_le (l.netExp + g) 0 with hneg | hpos
      · exfalso
        have h1 : (10 : ℚ) ^ (l.netExp + g) ≤ 1 := zpow_le_one_of_nonpos₀ (by norm_num) (le_of_lt hneg)
        have h2 : (s : ℚ) * (10 : ℚ) ^ (l.netExp + g) ≤ (s : ℚ) * 1 :=
          mul_le_mul_of_nonneg_left h1 (Nat.cast_nonneg s)
        linarith
      · obtain ⟨k, hk⟩ : ∃ k : Nat, l.netExp + g = (k : Int) := ⟨(l.netExp + g).natAbs, by omega⟩
        rw [hk] at hxT hod ⊢
        have hkk : ((k : Int)).natAbs = k := by omega
        rw [hkk] at hod
        rw [zpow_natCast] at hxT
        exact hod.2 (by omega) (by exact_mod_cast hxT)
    · rw [hres]
      rcases ovf_cases l hwf hlen s g hlo hhi hov with ⟨hc, _⟩ | ⟨_, hsmall⟩
      · unfold parseExponentOverflow
        rw [hc]; rfl
      · exfalso
        have hy0 : 0 ≤ (l.sigVal : ℚ) * (10 : ℚ) ^ l.netExp :=
          mul_nonneg (Nat.cast_nonneg _) (le_of_lt (z10_pos _))
        have h1 : (l.sigVal : ℚ) * (10 : ℚ) ^ l.netExp ≤ (l.sigVal : ℚ) * (10 : ℚ) ^ l.netExp * c :=
          le_mul_of_one_le_right hy0 hc1
        unfold hE at hsmall
        have h2 : (1 : ℚ) ≤ 2 ^ 64 := one_le_pow₀ (by norm_num)
        linarith

end SJ.Proofs.FloatQ
