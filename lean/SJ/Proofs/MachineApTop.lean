import SJ.Proofs.MachineApTail
import SJ.Proofs.Complete.Obj
/-!
# From the start of the input to the first key of a top-level object; the specific errors of a token object

`top_prefix`: on `ws { ws "key"` with the key decoding to the token, `MachineAp` arrives in the state
`afterKey` / `obj [] token` (the machine's own steps: no trigger before the key is closed — shown with the lexical
scan, which has no hit before the closing quote).
-/
namespace SJ.Proofs.MachineAp
open SJ SJ.Gen SJ.Model.Machine SJ.Proofs.Sound
open SJ.Spec.Grammar (StrItem StrWF strBytes Ws IsNumber isHex isSimpleEscape isUnescaped surrogatesPairedStr)
open SJ.Spec.Denote (decodeItems)
open SJ.Spec.PrivateToken (TokenTail LexSt LMode lexStep lexRun)
open SJ.Model.MachineAp (triggered liftStep ofMachine TPhase stepTok fromStr Fail)
open SJ.Proofs.Complete (Feeds feedS)

/-! ## prefixes of a run in the base machine -/

theorem arun_base_prefix (env : Env) : ∀ (xs : Bytes) (s s' : St) (i : Nat) (r : Bytes),
    Feeds env s xs s' → TrigFree env s xs → arun env (.base s) i (xs ++ r) = arun env (.base s') (i + xs.length) r
  | [], s, s', i, r, h, _ => by
    have : s = s' := by simpa [Feeds, feedS] using h
    subst this; simp
  | b :: xs, s, s', i, r, h, ht => by
    obtain ⟨ht1, ht2⟩ := ht
    unfold Feeds at h
    simp only [feedS] at h
    cases hs : step env s b with
    | error e => rw [hs] at h; cases h
    | ok s1 =>
      rw [hs] at h
      have hstep : astep env (.base s) b = .ok (.base s1) := by
        show Model.MachineAp.step env _ b = _
        rw [step_base_eq env s b ht1, hs]; rfl
      rw [List.cons_append, arun_cons_ok env _ _ i b _ hstep, arun_base_prefix env xs s1 s' (i + 1) r h (ht2 s1 hs)]
      congr 1; simp; omega

theorem lexRun_append (l : LexSt) (xs ys : Bytes) : lexRun l (xs ++ ys) = lexRun (lexRun l xs) ys := by
  simp [lexRun, List.foldl_append]

/-- no trigger along `xs` when the scan has no hit before any of its bytes -/
theorem trigFree_of_scan_prefix (env : Env) (henv : env.tgt = .value) : ∀ (xs : Bytes) (l : LexSt) (s : St),
    (Sync env l s ∨ Doomed s) → (∀ ys zs, xs = ys ++ zs → zs ≠ [] → (lexRun l ys).hit = false) → TrigFree env s xs
  | [], _, _, _, _ => trivial
  | b :: xs, l, s, hs, hhit => by
    have hl : l.hit = false := hhit [] (b :: xs) rfl (by simp)
    refine ⟨not_triggered env l s b hs hl, fun s' hstep => ?_⟩
    refine trigFree_of_scan_prefix env henv xs (lexStep l b) s' (sync_step env henv l s b s' hs hstep) fun ys zs hx hz => ?_
    have := hhit (b :: ys) zs (by rw [hx]; rfl) hz
    rwa [lexRun_cons] at this

/-! ## the scan on whitespace and on well-formed string bodies -/

theorem lexRun_ws : ∀ (w : Bytes) (l : LexSt) (br : Bool), l.mode = .out br → Ws w → lexRun l w = l
  | [], _, _, _, _ => rfl
  | b :: w, l, br, hl, hw => by
    simp only [Ws, List.all_cons, Bool.and_eq_true] at hw
    rw [lexRun_cons, lex_ws l b br hl (by rw [isWs_eq]; exact hw.1)]
    exact lexRun_ws w l br hl (by simpa [Ws] using hw.2)

theorem lex_str_plain (l : LexSt) (first : Bool) (raw : Bytes) (b : UInt8) (hl : l.mode = .str first raw false)
    (h1 : (b == 0x5c) = false) (h2 : (b == 0x22) = false) :
    lexStep l b = { l with mode := .str first (b :: raw) false } := by
  unfold lexStep; rw [hl]; simp [h1, h2]

theorem lex_str_bs (l : LexSt) (first : Bool) (raw : Bytes) (hl : l.mode = .str first raw false) :
    lexStep l 0x5c = { l with mode := .str first (0x5c :: raw) true } := by
  unfold lexStep; rw [hl]; rfl

theorem lex_str_escaped (l : LexSt) (first : Bool) (raw : Bytes) (b : UInt8) (hl : l.mode = .str first raw true) :
    lexStep l b = { l with mode := .str first (b :: raw) false } := by
  unfold lexStep; rw [hl]; rfl

theorem hex_plain (b : UInt8) (h : isHex b = true) : (b == 0x5c) = false ∧ (b == 0x22) = false := by
  constructor
  · cases hx : (b == 0x5c) with
    | false => rfl
    | true => have : b = 0x5c := by simpa using hx
              subst this; revert h; decide
  · cases hx : (b == 0x22) with
    | false => rfl
    | true => have : b = 0x22 := by simpa using hx
              subst this; revert h; decide

/-- inside a string, the scan walks over well-formed items without leaving the string and without a hit -/
theorem lex_items : ∀ (items : List StrItem) (l : LexSt) (first : Bool) (raw : Bytes), StrWF items = true →
    l.mode = .str first raw false →
    (lexRun l (items.flatMap StrItem.bytes)).mode = .str first ((items.flatMap StrItem.bytes).reverse ++ raw) false ∧
    (lexRun l (items.flatMap StrItem.bytes)).hit = l.hit
  | [], l, first, raw, _, hl => by simpa [lexRun] using hl
  | it :: rest, l, first, raw, hwf, hl => by
    simp only [StrWF, List.all_cons, Bool.and_eq_true] at hwf
    have hrest : StrWF rest = true := by simpa [StrWF] using hwf.2
    cases it with
    | raw b =>
      have hb := hwf.1
      simp only [StrItem.WF, isUnescaped, Bool.and_eq_true, bne_iff_ne, ne_eq] at hb
      have h1 : (b == 0x5c) = false := by simpa using hb.2
      have h2 : (b == 0x22) = false := by simpa using hb.1.2
      have := lex_items rest { l with mode := .str first (b :: raw) false } first (b :: raw) hrest rfl
      simp only [List.flatMap_cons, StrItem.bytes, List.singleton_append, lexRun_cons, lex_str_plain l first raw b hl h1 h2]
      simpa using this
    | esc c =>
      have := lex_items rest { l with mode := .str first (c :: 0x5c :: raw) false } first (c :: 0x5c :: raw) hrest rfl
      simp only [List.flatMap_cons, StrItem.bytes, List.cons_append, List.nil_append, lexRun_cons, lex_str_bs l first raw hl]
      rw [lex_str_escaped _ first (0x5c :: raw) c rfl]
      simpa using this
    | uni a b c d =>
      have hw := hwf.1
      simp only [StrItem.WF, Bool.and_eq_true] at hw
      obtain ⟨⟨⟨ha, hb⟩, hc⟩, hd⟩ := hw
      have := lex_items rest { l with mode := .str first (d :: c :: b :: a :: 0x75 :: 0x5c :: raw) false } first
        (d :: c :: b :: a :: 0x75 :: 0x5c :: raw) hrest rfl
      simp only [List.flatMap_cons, StrItem.bytes, List.cons_append, List.nil_append, lexRun_cons, lex_str_bs l first raw hl]
      rw [lex_str_escaped _ first (0x5c :: raw) 0x75 rfl]
      rw [lex_str_plain _ first _ a rfl (hex_plain a ha).1 (hex_plain a ha).2]
      rw [lex_str_plain _ first _ b rfl (hex_plain b hb).1 (hex_plain b hb).2]
      rw [lex_str_plain _ first _ c rfl (hex_plain c hc).1 (hex_plain c hc).2]
      rw [lex_str_plain _ first _ d rfl (hex_plain d hd).1 (hex_plain d hd).2]
      simpa using this

/-! ## the top of a document whose first value is an object with the token as first key -/

theorem split_last {ys zs q : Bytes} {c : UInt8} (h : ys ++ zs = q ++ [c]) (hz : zs ≠ []) :
    ∃ zs', q = ys ++ zs' := by
  rcases List.eq_nil_or_concat zs with rfl | ⟨zs', b, rfl⟩
  · exact absurd rfl hz
  · have : ys ++ zs' ++ [b] = q ++ [c] := by simpa using h
    exact ⟨zs', (List.append_inj' this rfl).1.symm⟩

theorem token_utf8 : Spec.Utf8.validUtf8 Model.MachineAp.token = true := by decide +kernel

/-- the run over `ws { ws "key"`, the key decoding to the token -/
theorem top_prefix (env : Env) (hv : env.tgt = .value) (w₀ w₁ : Bytes) (k : List StrItem) (hw₀ : Ws w₀) (hw₁ : Ws w₁)
    (hk : StrWF k = true) (hkt : decodeItems k = some Model.MachineAp.token) (r : Bytes) :
    arun env (.base init) 0 (w₀ ++ [0x7b] ++ w₁ ++ strBytes k ++ r) =
      arun env (.base ⟨.afterKey, [.obj [] Model.MachineAp.token]⟩) (w₀ ++ [0x7b] ++ w₁ ++ strBytes k).length r := by
  -- the machine's own run over the prefix
  have hside : SJ.Proofs.Complete.SideStr env k := fun _ =>
    ⟨paired_of_decode k _ hkt, fun _ => by rw [hkt]; simpa using token_utf8⟩
  obtain ⟨kb, hkb, hkey⟩ := SJ.Proofs.Complete.drive_key env k hk hside .objFirst (.inl rfl) [] [] []
  have hkb' : kb = Model.MachineAp.token := by
    have := hkb hv; rw [hkt] at this; exact (Option.some.inj this).symm
  subst hkb'
  have hopen : step env ⟨.val .top, []⟩ 0x7b = .ok ⟨.objFirst, [.obj [] []]⟩ := by
    simp [step, step1, startValue, isWs, Gen.wsBytes, isDigit, depthExceeded, Gen.remainingDepthInit]
  have hfeeds : Feeds env init (w₀ ++ [0x7b] ++ w₁ ++ strBytes k) ⟨.afterKey, [.obj [] Model.MachineAp.token]⟩ :=
    Feeds.append (Feeds.append (Feeds.append (SJ.Proofs.Complete.feeds_ws env init trivial w₀ hw₀) (Feeds.one hopen))
      (SJ.Proofs.Complete.feeds_ws env _ (SJ.Proofs.Complete.wsStable_objFirst _) w₁ hw₁)) hkey
  -- the scan has no hit before the closing quote of the key
  have hq : w₀ ++ [0x7b] ++ w₁ ++ strBytes k = (w₀ ++ [0x7b] ++ w₁ ++ 0x22 :: k.flatMap StrItem.bytes) ++ [0x22] := by
    simp [strBytes]
  have hscan : (lexRun {} (w₀ ++ [0x7b] ++ w₁ ++ 0x22 :: k.flatMap StrItem.bytes)).hit = false := by
    rw [lexRun_append, lexRun_append, lexRun_append, lexRun_ws w₀ {} false rfl hw₀]
    have h1 : lexRun ({} : LexSt) [0x7b] = { mode := .out true, hit := false } := rfl
    rw [h1, lexRun_ws w₁ _ true rfl hw₁, lexRun_cons]
    have h2 : lexStep { mode := .out true, hit := false } 0x22 = { mode := .str true [] false, hit := false } := rfl
    rw [h2]
    exact (lex_items k _ true [] hk rfl).2
  have htrig : TrigFree env init (w₀ ++ [0x7b] ++ w₁ ++ strBytes k) := by
    apply trigFree_of_scan_prefix env hv _ {} init (.inl (sync_init env))
    intro ys zs hx hz
    rw [hq] at hx
    obtain ⟨zs', hzs⟩ := split_last hx.symm hz
    cases hh : (lexRun {} ys).hit with
    | false => rfl
    | true =>
      rw [hzs, lexRun_append, lexRun_hit_mono zs' _ hh] at hscan
      cases hscan
  have := arun_base_prefix env _ init _ 0 r hfeeds htrig
  simpa using this

/-! ## the specific errors of a token object -/

theorem arun_cons_err (env : Env) (s : ASt) (i : Nat) (b : UInt8) (bs : Bytes) (c : Code) (a : Adj)
    (h : astep env s b = .error (.err c a)) : arun env s i (b :: bs) = .err c (errIdx env a i) := by
  show Model.MachineAp.run env s i (b :: bs) = _
  conv => lhs; unfold Model.MachineAp.run
  rw [show Model.MachineAp.step env s b = _ from h]

theorem arun_cons_data (env : Env) (s : ASt) (i : Nat) (b : UInt8) (bs : Bytes) (a : Adj)
    (h : astep env s b = .error (.data a)) : arun env s i (b :: bs) = .data (errIdx env a i) := by
  show Model.MachineAp.run env s i (b :: bs) = _
  conv => lhs; unfold Model.MachineAp.run
  rw [show Model.MachineAp.step env s b = _ from h]

/-- up to the value: `ws : ws` -/
theorem tail_to_value (env : Env) (hap : env.cfg.ap = true) (hv : env.tgt = .value) (fs : List Frame) (w₁ w₂ r : Bytes)
    (hw₁ : Ws w₁) (hw₂ : Ws w₂) (i : Nat) :
    arun env (.base ⟨.afterKey, .obj [] Model.MachineAp.token :: fs⟩) i (w₁ ++ [0x3a] ++ w₂ ++ r) =
      arun env (.tok .val fs) (i + w₁.length + 1 + w₂.length) r := by
  simp only [List.append_assoc]
  rw [arun_ws env _ (fun b hb => step_afterKey_ws env _ b hb) w₁ i _ hw₁]
  rw [List.singleton_append, arun_cons_ok env _ _ _ 0x3a _ (step_afterKey_colon env hap hv fs)]
  rw [arun_ws env _ (val_ws_stable env fs) w₂ _ _ hw₂]

/-- the value is an array or an object: serde's `invalid type: sequence / map, expected string containing a number`,
    positioned at the bracket (slice, str) resp. after it (reader) -/
theorem tail_container (env : Env) (hap : env.cfg.ap = true) (hv : env.tgt = .value) (fs : List Frame) (w₁ w₂ r : Bytes)
    (b : UInt8) (hb : b = 0x5b ∨ b = 0x7b) (hw₁ : Ws w₁) (hw₂ : Ws w₂) (i : Nat) :
    arun env (.base ⟨.afterKey, .obj [] Model.MachineAp.token :: fs⟩) i (w₁ ++ [0x3a] ++ w₂ ++ b :: r) =
      .data (errIdx env .excl (i + w₁.length + 1 + w₂.length)) := by
  rw [tail_to_value env hap hv fs w₁ w₂ _ hw₁ hw₂]
  exact arun_cons_data env _ _ b r .excl (step_val_container env fs b (by rcases hb with rfl | rfl <;> decide))

/-- the value is a string that is not a number literal: `Number::from_str`'s own error, at its own line and column -/
theorem tail_not_number (env : Env) (hap : env.cfg.ap = true) (hv : env.tgt = .value) (fs : List Frame) (w₁ w₂ r : Bytes)
    (items : List StrItem) (txt : Bytes) (c : Code) (k : Nat) (hw₁ : Ws w₁) (hw₂ : Ws w₂)
    (hwf : StrWF items = true) (hdec : decodeItems items = some txt)
    (hutf : env.src ≠ .str → Spec.Utf8.validUtf8 txt = true) (hfs : fromStr txt = .error (c, k)) (i : Nat) :
    arun env (.base ⟨.afterKey, .obj [] Model.MachineAp.token :: fs⟩) i (w₁ ++ [0x3a] ++ w₂ ++ strBytes items ++ r) =
      .custom c (lineCol txt k).1 (lineCol txt k).2 := by
  rw [List.append_assoc (w₁ ++ [0x3a] ++ w₂), tail_to_value env hap hv fs w₁ w₂ _ hw₁ hw₂,
    tail_string env hv fs items txt hwf hdec hutf, hfs]

/-- a number string followed by anything but `}`: `end_map`'s error at that byte -/
theorem tail_extra (env : Env) (hap : env.cfg.ap = true) (hv : env.tgt = .value) (fs : List Frame) (w₁ w₂ w₃ r : Bytes)
    (items : List StrItem) (txt : Bytes) (b : UInt8) (hw₁ : Ws w₁) (hw₂ : Ws w₂) (hw₃ : Ws w₃)
    (hwf : StrWF items = true) (hdec : decodeItems items = some txt) (hnum : IsNumber txt)
    (hbw : isWs b = false) (hb : (b == 0x7d) = false) (i : Nat) :
    arun env (.base ⟨.afterKey, .obj [] Model.MachineAp.token :: fs⟩) i
        (w₁ ++ [0x3a] ++ w₂ ++ strBytes items ++ w₃ ++ b :: r) =
      .err (if b == 0x2c then .TrailingComma else .TrailingCharacters)
        (i + w₁.length + 1 + w₂.length + (strBytes items).length + w₃.length + 1) := by
  have hfs : fromStr txt = .ok () := (fromStr_ok_iff txt).mpr hnum
  rw [List.append_assoc (w₁ ++ [0x3a] ++ w₂ ++ strBytes items), List.append_assoc (w₁ ++ [0x3a] ++ w₂),
    tail_to_value env hap hv fs w₁ w₂ _ hw₁ hw₂,
    tail_string env hv fs items txt hwf hdec (fun _ => isNumber_utf8 txt hnum), hfs]
  simp only
  rw [arun_ws env _ (fun b hb => step_endMap_ws env fs txt b hb) w₃ _ _ hw₃]
  by_cases hc : (b == 0x2c) = true
  · have : b = 0x2c := by simpa using hc
    subst this
    rw [arun_cons_err env _ _ _ r _ _ (step_endMap_comma env fs txt)]
    simp [errIdx]
    cases env.src <;> rfl
  · have hc' : (b == 0x2c) = false := by simpa using hc
    rw [arun_cons_err env _ _ _ r _ _ (step_endMap_other env fs txt b hbw hb hc')]
    simp [errIdx, hc']
    cases env.src <;> rfl

/-- a number string, then the input ends: `EofWhileParsingObject` at the end -/
theorem tail_eof (env : Env) (hap : env.cfg.ap = true) (hv : env.tgt = .value) (fs : List Frame) (w₁ w₂ w₃ : Bytes)
    (items : List StrItem) (txt : Bytes) (hw₁ : Ws w₁) (hw₂ : Ws w₂) (hw₃ : Ws w₃)
    (hwf : StrWF items = true) (hdec : decodeItems items = some txt) (hnum : IsNumber txt) (i : Nat) :
    arun env (.base ⟨.afterKey, .obj [] Model.MachineAp.token :: fs⟩) i (w₁ ++ [0x3a] ++ w₂ ++ strBytes items ++ w₃) =
      .err .EofWhileParsingObject (i + w₁.length + 1 + w₂.length + (strBytes items).length + w₃.length) := by
  have hfs : fromStr txt = .ok () := (fromStr_ok_iff txt).mpr hnum
  rw [List.append_assoc (w₁ ++ [0x3a] ++ w₂), tail_to_value env hap hv fs w₁ w₂ _ hw₁ hw₂,
    tail_string env hv fs items txt hwf hdec (fun _ => isNumber_utf8 txt hnum), hfs]
  simp only
  have := arun_ws env _ (fun b hb => step_endMap_ws env fs txt b hb) w₃ (i + w₁.length + 1 + w₂.length + (strBytes items).length) [] hw₃
  rw [List.append_nil] at this
  rw [this, arun_nil]
  rfl

end SJ.Proofs.MachineAp
