import SJ.Proofs.RawSpan
import SJ.Proofs.TypedPrefix
/-!
# C10 helper lemmas: a stream over a prefix of the input

`runPrefix_pre`: the machine on `a ++ b` against the machine on `a` (from `Typed.runPfx_pre` through
`runPfx … 0 = runPrefix`): the value is decided inside `a`, or the run on `a` ends at the end of `a` with a
value (a number ended by the end of input) or an `Eof…` / `NumberOutOfRange` error.
`next_prefix`: one call of `next()` on a stream whose unread input is cut short, against the same call on the
uncut stream when that one yields a value: the same value with the same offset, or an outcome AT THE END of
the cut input (`AtEndItem`). `history_prefix`: whole histories.
-/
namespace SJ.Proofs.StreamPrefix
open SJ SJ.Gen SJ.Model.Machine SJ.Model.Stream SJ.Proofs.Machine SJ.Proofs.RawSpan
open SJ.Model.Typed (runPfx MOut)

/-- the codes the end of input may produce for this target -/
def EndCode (env : Env) (c : Code) : Prop :=
  classify c = .eof ∨ (env.tgt = .value ∧ c = .NumberOutOfRange)

theorem finish_endCode (env : Env) (s : St) (c : Code) (h : finish env s = .error c) : EndCode env c := by
  cases ht : env.tgt with
  | value => exact (finish_eof_clean_value env ht s c h).imp id (fun h => ⟨ht, h⟩)
  | ignored => exact .inl (finish_eof_clean_ignored env ht s c h)

theorem runPrefix_pre (env : Env) (a b : Bytes) (s : St) (i : Nat) (v : JV) (e : Nat)
    (h : runPrefix env s i (a ++ b) = .ok v e) :
    (e ≤ i + a.length ∧ runPrefix env s i a = .ok v e) ∨
    (∃ v', runPrefix env s i a = .ok v' (i + a.length)) ∨
    (∃ c, runPrefix env s i a = .err c (i + a.length) ∧ EndCode env c) := by
  have h0 : runPfx env false 0 s i (a ++ b) = .ok v e := by rw [runPfx_false_eq, h]
  have conv : ∀ (x : MOut) (y : POut), (match y with | .ok v e => MOut.ok v e | .err c idx => MOut.err c idx) = x →
      (∀ v e, x = .ok v e → y = .ok v e) ∧ (∀ c i, x = .err c i → y = .err c i) := by
    intro x y hxy
    cases y with
    | ok v e => subst hxy; exact ⟨fun _ _ h => (by cases h; rfl), fun _ _ h => (by cases h)⟩
    | err c i => subst hxy; exact ⟨fun _ _ h => (by cases h), fun _ _ h => (by cases h; rfl)⟩
  obtain ⟨c1, c2⟩ := conv _ _ (runPfx_false_eq env s i a).symm
  rcases SJ.Proofs.Typed.runPfx_pre env 0 (EndCode env)
      (fun s c hf => by rw [finishT_zero] at hf; exact finish_endCode env s c hf) a b s i v e h0 with
    ⟨h1, h2⟩ | ⟨v', h2⟩ | ⟨c, h2, h3⟩
  · exact .inl ⟨h1, c1 _ _ h2⟩
  · exact .inr (.inl ⟨v', c1 _ _ h2⟩)
  · exact .inr (.inr ⟨c, c2 _ _ h2, h3⟩)

/-- what a call of `next()` may yield when the input ends at absolute index `L` before the item is
    complete: nothing, a value ending exactly there, or an end-of-input error located there -/
def AtEndItem (env : Env) (L : Nat) (x : Item × SS) : Prop :=
  (x.1 = .none ∧ x.2.offset = L) ∨ (∃ v, x.1 = .ok v ∧ x.2.offset = L ∧ x.2.rest = []) ∨
  (∃ c, x.1 = .err c L ∧ EndCode env c)

/-- the uncut state `st` and the cut state `stp` differ only in that `ys` is missing at the end -/
def CutOf (ys : Bytes) (st stp : SS) : Prop :=
  st.rest = stp.rest ++ ys ∧ st.pos = stp.pos ∧ st.offset = stp.offset ∧ st.failed = false ∧ stp.failed = false

theorem drop_append_le {α : Type} (a b : List α) (k : Nat) (h : k ≤ a.length) : (a ++ b).drop k = a.drop k ++ b := by
  induction a generalizing k with
  | nil => simp at h; subst h; simp
  | cons x a ih =>
    cases k with
    | zero => simp
    | succ k => simp only [List.cons_append, List.drop_succ_cons]; exact ih k (by simpa using h)

theorem runPrefix_bounds (env : Env) (s : St) (i : Nat) (r : Bytes) (v : JV) (e : Nat)
    (h : runPrefix env s i r = .ok v e) : i ≤ e ∧ e ≤ i + r.length := by
  obtain ⟨s', hf, _⟩ := SJ.Props.C19.runPrefix_feed env s i r v e h
  have hidx := feed_idx _ _ _ _ _ _ hf
  rw [List.length_take] at hidx
  omega

/-- a call that yields a value keeps the absolute end of the input where it is -/
theorem next_ok_end (env : Env) (st : SS) (v : JV) (st' : SS) (hf : st.failed = false)
    (h : next env st = (.ok v, st')) : st'.pos + st'.rest.length = st.pos + st.rest.length := by
  unfold next at h
  simp only [hf, Bool.false_eq_true, if_false] at h
  have hsk := SJ.Proofs.Typed.skipWs_pos st.rest st.pos
  generalize skipWs st.rest st.pos = sk at h hsk
  obtain ⟨r, p⟩ := sk
  simp only at h hsk
  cases r with
  | nil => simp at h
  | cons b r' =>
    simp only at h
    cases hrun : runPrefix env init p (b :: r') with
    | err c idx => rw [hrun] at h; simp at h
    | ok v0 e =>
      rw [hrun] at h
      obtain ⟨h1, h2⟩ := runPrefix_bounds env init p (b :: r') v0 e hrun
      have hst : st' = { rest := (b :: r').drop (e - p), pos := e, offset := e, failed := false } := by
        simp only at h
        split at h
        · simp at h; exact h.2.symm
        · split at h
          · simp at h; exact h.2.symm
          · split at h
            · simp at h; exact h.2.symm
            · simp at h
      rw [hst]
      simp only [List.length_drop]
      omega

/-- **one call on a cut stream** -/
theorem next_prefix (env : Env) (ys : Bytes) (st stp : SS) (hcut : CutOf ys st stp) (v : JV) (st' : SS)
    (h : next env st = (.ok v, st')) :
    (∃ stp', next env stp = (.ok v, stp') ∧ CutOf ys st' stp') ∨
    AtEndItem env (stp.pos + stp.rest.length) (next env stp) := by
  obtain ⟨hrest, hpos, hoff, hf, hfp⟩ := hcut
  unfold next at h ⊢
  simp only [hf, hfp, Bool.false_eq_true, if_false] at h ⊢
  rw [hrest, hpos] at h
  rcases SJ.Proofs.Typed.skipWs_append stp.rest ys stp.pos with ⟨c, a', p, h1, h2⟩ | ⟨h1, _⟩
  · -- the item starts inside the cut input
    rw [h2] at h
    rw [h1]
    simp only at h ⊢
    have hlen : p + (c :: a').length = stp.pos + stp.rest.length := by
      have := SJ.Proofs.Typed.skipWs_pos stp.rest stp.pos
      rw [h1] at this; exact this
    cases hrun : runPrefix env init p (c :: (a' ++ ys)) with
    | err c' idx => rw [hrun] at h; simp at h
    | ok v0 e =>
      rw [hrun] at h
      simp only at h
      have hrun' : runPrefix env init p ((c :: a') ++ ys) = .ok v0 e := by simpa using hrun
      rcases runPrefix_pre env (c :: a') ys init p v0 e hrun' with ⟨hle, hp⟩ | ⟨v', hp⟩ | ⟨c', hp, hq⟩
      · -- decided inside: the same value; the delimiter test sees the same byte, or the end
        left
        rw [hp]
        simp only
        have hge : p ≤ e := SJ.Props.C12.runPrefix_ge env init p _ v0 e hp
        have hdrop : (c :: (a' ++ ys)).drop (e - p) = (c :: a').drop (e - p) ++ ys := by
          have := drop_append_le (c :: a') ys (e - p) (by omega)
          simpa using this
        rw [hdrop] at h
        by_cases hsd : isSelfDelineated c = true
        · simp only [hsd, if_true] at h ⊢
          simp only [Prod.mk.injEq, Item.ok.injEq] at h
          obtain ⟨rfl, rfl⟩ := h
          exact ⟨_, rfl, rfl, rfl, rfl, rfl, rfl⟩
        · simp only [hsd, Bool.false_eq_true, if_false] at h ⊢
          cases hdr : (c :: a').drop (e - p) with
          | nil =>
            rw [hdr] at h
            simp only [List.nil_append] at h
            -- whatever the uncut stream saw after the value, the cut one sees the end: a value
            have hv : v = v0 ∧ st' = { rest := ys, pos := e, offset := e, failed := false } := by
              cases ys with
              | nil => simp at h; exact ⟨h.1.symm, h.2.symm⟩
              | cons d ys' =>
                simp only at h
                split at h
                · simp at h; exact ⟨h.1.symm, h.2.symm⟩
                · simp at h
            obtain ⟨rfl, rfl⟩ := hv
            exact ⟨_, rfl, by simp, rfl, rfl, rfl, rfl⟩
          | cons d tl =>
            rw [hdr] at h
            simp only [List.cons_append] at h ⊢
            split at h
            · rename_i hdel
              simp only [hdel, if_true]
              simp only [Prod.mk.injEq, Item.ok.injEq] at h
              obtain ⟨rfl, rfl⟩ := h
              exact ⟨_, rfl, by simp, rfl, rfl, rfl, rfl⟩
            · simp at h
      · -- a value ending exactly at the cut
        right
        rw [hp]
        simp only
        have hd : (c :: a').drop (p + (c :: a').length - p) = [] := by
          rw [show p + (c :: a').length - p = (c :: a').length by omega]; simp
        rw [hd]
        refine .inr (.inl ⟨v', ?_, ?_, ?_⟩)
        · split <;> rfl
        · split <;> (simp only; omega)
        · split <;> rfl
      · right
        rw [hp]
        exact .inr (.inr ⟨c', by simp only; rw [hlen], hq⟩)
  · -- only whitespace is left in the cut input
    right
    rw [h1]
    exact .inl ⟨rfl, rfl⟩

/-- the stream state after `k` calls -/
def stateAfter (env : Env) : Nat → SS → SS
  | 0, st => st
  | k + 1, st => stateAfter env k (next env st).2

theorem history_succ_last (env : Env) : ∀ (k : Nat) (st : SS),
    history env (k + 1) st = history env k st ++ [((next env (stateAfter env k st)).1, (next env (stateAfter env k st)).2.offset)]
  | 0, st => by simp [history, stateAfter]
  | k + 1, st => by
    have := history_succ_last env k (next env st).2
    simp only [history, stateAfter] at this ⊢
    rw [this]; simp

theorem history_length (env : Env) : ∀ (n : Nat) (st : SS), (history env n st).length = n
  | 0, _ => rfl
  | n + 1, st => by simp [history, history_length env n]

/-- **whole histories**: while the uncut stream yields values, the cut stream yields the same values with
    the same offsets, up to the first call whose outcome lies at the end of the cut input -/
theorem history_prefix (env : Env) (ys : Bytes) : ∀ (n : Nat) (st stp : SS), CutOf ys st stp →
    (∀ x ∈ history env n st, ∃ v, x.1 = .ok v) →
    (history env n stp = history env n st) ∨
    ∃ j, j < n ∧ history env j stp = (history env n st).take j ∧
      AtEndItem env (stp.pos + stp.rest.length) (next env (stateAfter env j stp))
  | 0, _, _, _, _ => .inl rfl
  | n + 1, st, stp, hcut, hok => by
    simp only [history] at hok
    obtain ⟨v, hv⟩ := hok _ (List.mem_cons_self ..)
    have hnext : next env st = (.ok v, (next env st).2) := by rw [← hv]
    rcases next_prefix env ys st stp hcut v _ hnext with ⟨stp', hp, hcut'⟩ | hend
    · have hlen : stp'.pos + stp'.rest.length = stp.pos + stp.rest.length :=
        next_ok_end env stp v stp' hcut.2.2.2.2 hp
      rcases history_prefix env ys n _ stp' hcut' (fun x hx => hok x (List.mem_cons_of_mem _ hx)) with hall | ⟨j, hj, h1, h2⟩
      · left
        simp only [history, hp, hall]
        rw [hv]
        obtain ⟨_, _, h3, _, _⟩ := hcut'
        rw [h3]
      · right
        refine ⟨j + 1, by omega, ?_, ?_⟩
        · simp only [history, hp, List.take_succ_cons, h1]
          rw [hv]
          obtain ⟨_, _, h3, _, _⟩ := hcut'
          rw [h3]
        · simp only [stateAfter, hp]
          rw [← hlen]; exact h2
    · right
      exact ⟨0, by omega, by simp [history], by simpa [stateAfter] using hend⟩

end SJ.Proofs.StreamPrefix
