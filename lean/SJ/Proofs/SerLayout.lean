import SJ.Proofs.SerEscape
/-!
# C03 helper lemmas, part 4: the structural printer writes valid JSON that denotes the value

For any separator function `sep` and gap `gap` consisting of JSON whitespace, and any value `d` whose
numbers are well-formed literals, `layoutWith sep gap n d` is derivable in the RFC 8259 grammar with
syntax tree `cstOf d`, and `den (cstOf d) = some d`. (Compact: `sep = fun _ => []`, `gap = []`;
pretty: `sep = newline indent`, `gap = " "`, for an indent string made of whitespace.)
-/
namespace SJ.Proofs.SerLayout
open SJ SJ.Spec.Grammar SJ.Spec.Denote SJ.Spec.Image SJ.Proofs.SerEscape

theorem ws_nil : Ws [] := rfl

mutual
theorem den_cstOf : ∀ d : DV, den (cstOf d) = some d
  | .null => rfl
  | .bool true => rfl
  | .bool false => rfl
  | .num p => rfl
  | .str s => by simp [cstOf, den, decode_strItems]
  | .arr xs => by simp [cstOf, den, denList_cstOf xs]
  | .obj ms => by simp [cstOf, den, denMembers_cstOf ms]
theorem denList_cstOf : ∀ xs : List DV, denList (cstOfList xs) = some xs
  | [] => rfl
  | x :: xs => by simp [cstOfList, denList, den_cstOf x, denList_cstOf xs]
theorem denMembers_cstOf : ∀ ms : List (Bytes × DV), denMembers (cstOfMembers ms) = some ms
  | [] => rfl
  | (k, x) :: ms => by simp [cstOfMembers, denMembers, decode_strItems, den_cstOf x, denMembers_cstOf ms]
end

set_option linter.unusedSectionVars false
section
variable (sep : Nat → Bytes) (gap : Bytes) (hsep : ∀ n, Ws (sep n)) (hgap : Ws gap)
include hsep hgap

mutual
theorem derives_layout : ∀ (d : DV) (n : Nat), numbersWF d = true → Derives (layoutWith sep gap n d) (cstOf d)
  | .null, n, _ => Derives.null
  | .bool true, n, _ => Derives.true_
  | .bool false, n, _ => Derives.false_
  | .num p, n, h => Derives.num p (by simpa [numbersWF] using h)
  | .str s, n, _ => Derives.str (strItems s) (strItems_wf s)
  | .arr [], n, _ => by
    have : layoutWith sep gap n (.arr []) = [0x5b] ++ [] ++ [0x5d] := by simp [layoutWith]
    rw [this]; exact Derives.arrEmpty [] ws_nil
  | .arr (x :: xs), n, h => by
    obtain ⟨body, hb, he⟩ := elems_layout (x :: xs) (n + 1) (by simp) (by simpa [numbersWF] using h)
    have : layoutWith sep gap n (.arr (x :: xs)) = [0x5b] ++ sep (n + 1) ++ body ++ sep n ++ [0x5d] := by
      simp only [layoutWith, List.isEmpty_cons, Bool.false_eq_true, if_false, hb]
      simp [List.append_assoc]
    rw [this]
    exact Derives.arr _ _ _ _ (hsep _) (hsep _) (by simp [cstOfList]) he
  | .obj [], n, _ => by
    have : layoutWith sep gap n (.obj []) = [0x7b] ++ [] ++ [0x7d] := by simp [layoutWith]
    rw [this]; exact Derives.objEmpty [] ws_nil
  | .obj (m :: ms), n, h => by
    obtain ⟨body, hb, he⟩ := members_layout (m :: ms) (n + 1) (by simp) (by simpa [numbersWF] using h)
    have : layoutWith sep gap n (.obj (m :: ms)) = [0x7b] ++ sep (n + 1) ++ body ++ sep n ++ [0x7d] := by
      simp only [layoutWith, List.isEmpty_cons, Bool.false_eq_true, if_false, hb]
      simp [List.append_assoc]
    rw [this]
    exact Derives.obj _ _ _ _ (hsep _) (hsep _) (by obtain ⟨k, x⟩ := m; simp [cstOfMembers]) he
theorem elems_layout : ∀ (xs : List DV) (n : Nat), xs ≠ [] → numbersWFList xs = true →
    ∃ body, layoutElems sep gap n xs = sep n ++ body ∧ Elems body (cstOfList xs)
  | [], _, h, _ => absurd rfl h
  | [x], n, _, h => by
    simp only [numbersWFList, Bool.and_true] at h
    exact ⟨layoutWith sep gap n x, by simp [layoutElems], Elems.one _ _ (derives_layout x n h)⟩
  | x :: y :: ys, n, _, h => by
    simp only [numbersWFList, Bool.and_eq_true] at h
    obtain ⟨body, hb, he⟩ := elems_layout (y :: ys) n (by simp) (by simp [numbersWFList, h.2])
    refine ⟨layoutWith sep gap n x ++ [] ++ [0x2c] ++ sep n ++ body, ?_, ?_⟩
    · rw [layoutElems, hb]; simp [List.append_assoc]
    · exact Elems.cons _ _ _ _ _ _ (derives_layout x n h.1) ws_nil (hsep n) he
theorem members_layout : ∀ (ms : List (Bytes × DV)) (n : Nat), ms ≠ [] → numbersWFMembers ms = true →
    ∃ body, layoutMembers sep gap n ms = sep n ++ body ∧ Members body (cstOfMembers ms)
  | [], _, h, _ => absurd rfl h
  | [(k, x)], n, _, h => by
    simp only [numbersWFMembers, Bool.and_true] at h
    refine ⟨strBytes (strItems k) ++ [] ++ [0x3a] ++ gap ++ layoutWith sep gap n x, ?_, ?_⟩
    · simp [layoutMembers, quote, List.append_assoc]
    · exact Members.one _ (strItems_wf k) _ _ _ _ ws_nil hgap (derives_layout x n h)
  | (k, x) :: m :: ms, n, _, h => by
    simp only [numbersWFMembers, Bool.and_eq_true] at h
    obtain ⟨body, hb, he⟩ := members_layout (m :: ms) n (by simp) (by obtain ⟨k', x'⟩ := m; simp [numbersWFMembers, h.2])
    refine ⟨strBytes (strItems k) ++ [] ++ [0x3a] ++ gap ++ layoutWith sep gap n x ++ [] ++ [0x2c] ++ sep n ++ body, ?_, ?_⟩
    · rw [layoutMembers, hb]; simp [quote, List.append_assoc]
    · exact Members.cons _ (strItems_wf k) _ _ _ _ _ _ _ _ ws_nil hgap (derives_layout x n h.1) ws_nil (hsep n) he
end
end

theorem ws_newline (indent : Bytes) (h : Ws indent) (n : Nat) : Ws (newline indent n) := by
  unfold Ws at h ⊢
  simp only [newline, List.all_cons, List.all_flatten, List.all_replicate]
  cases n <;> simp [isWs, h]

end SJ.Proofs.SerLayout
