import SJ.Proofs.MapBTree
import SJ.Model.MapIndex
/-! Helper lemmas for C17, `preserve_order` build (`IndexMap`): every operation keeps the keys
    distinct, refines the dictionary contract, and moves keys exactly as `Spec.AMap.ordStep` says. -/
namespace SJ.Proofs.MapIndex
open SJ SJ.Model.MapIndex SJ.Proofs.MapOrder
open SJ.Spec.AMap (ltB Asc ascB lookup AMap Entries HasLen Op Ret Step Flavour Shape Via removeRet
  ordInsert ordSwapRemove ordShiftRemove ordShiftInsert ordInsertMany ordStep insertAt shiftIndexOk insKey)
open SJ.Proofs.MapBTree (absm entries_self entries_reverse hasLen_self)

variable {V : Type}

/-- the representation invariant of the `preserve_order` build -/
def NodupKeys (m : IMap V) : Prop := (keys m).Nodup

/-! ### insert -/

theorem insert_lookup (k : Bytes) (v : V) (m : IMap V) (k₂ : Bytes) :
    lookup k₂ (Model.MapIndex.insert k v m).1 = if k₂ = k then some v else lookup k₂ m := by
  induction m with
  | nil =>
    simp only [Model.MapIndex.insert, lookup]
    by_cases e : k₂ = k
    · simp [e]
    · simp [e, Ne.symm e]
  | cons kv r ih =>
    obtain ⟨k', v'⟩ := kv
    simp only [Model.MapIndex.insert]
    split
    · rename_i e; subst e
      simp only [lookup]
      by_cases e : k' = k₂
      · simp [e]
      · simp [e, Ne.symm e]
    · rename_i hne
      simp only [lookup, ih]
      by_cases e : k' = k₂
      · subst e; simp [hne]
      · simp [e]

theorem insert_old (k : Bytes) (v : V) (m : IMap V) : (Model.MapIndex.insert k v m).2 = lookup k m := by
  induction m with
  | nil => rfl
  | cons kv r ih =>
    obtain ⟨k', v'⟩ := kv
    simp only [Model.MapIndex.insert, lookup]
    split
    · rfl
    · exact ih

theorem insert_keys (k : Bytes) (v : V) (m : IMap V) :
    keys (Model.MapIndex.insert k v m).1 = ordInsert (keys m) k := by
  induction m with
  | nil => simp [Model.MapIndex.insert, ordInsert, keys]
  | cons kv r ih =>
    obtain ⟨k', v'⟩ := kv
    simp only [Model.MapIndex.insert]
    split
    · rename_i e; subst e; simp [ordInsert, keys]
    · rename_i hne
      simp only [keys, List.map_cons] at ih ⊢
      rw [ih]
      simp only [ordInsert, List.contains_cons]
      have : (k == k') = false := by simp [Ne.symm hne]
      rw [this, Bool.false_or]
      split <;> simp

theorem ordInsert_nodup {ks : List Bytes} (k : Bytes) (nd : ks.Nodup) : (ordInsert ks k).Nodup := by
  unfold ordInsert
  split
  · exact nd
  · rename_i h
    have hk : k ∉ ks := by simpa using h
    exact (List.perm_append_comm (l₁ := ks) (l₂ := [k])).nodup_iff.mpr (List.nodup_cons.mpr ⟨hk, nd⟩)

theorem insert_nodup (k : Bytes) (v : V) {m : IMap V} (nd : NodupKeys m) :
    NodupKeys (Model.MapIndex.insert k v m).1 := by
  unfold NodupKeys; rw [insert_keys]; exact ordInsert_nodup k nd

theorem insert_abs (k : Bytes) (v : V) (m : IMap V) :
    absm (Model.MapIndex.insert k v m).1 = Spec.AMap.insert (absm m) k v := by
  funext k₂; simp [absm, insert_lookup, Spec.AMap.insert]

/-! ### shift_remove (the same list function as `BTreeMap::remove`) -/

theorem shiftRemove_eq (k : Bytes) (m : IMap V) : shiftRemove k m = Model.MapBTree.remove k m := by
  induction m with
  | nil => rfl
  | cons kv r ih => obtain ⟨k', v'⟩ := kv; simp only [shiftRemove, Model.MapBTree.remove, ih]

theorem shiftRemove_old (k : Bytes) (m : IMap V) : (shiftRemove k m).2 = lookup k m := by
  rw [shiftRemove_eq]; exact MapBTree.remove_old k m

theorem shiftRemove_abs (k : Bytes) {m : IMap V} (nd : NodupKeys m) :
    absm (shiftRemove k m).1 = Spec.AMap.remove (absm m) k := by
  rw [shiftRemove_eq]; exact MapBTree.remove_abs k nd

theorem shiftRemove_keys (k : Bytes) {m : IMap V} (nd : NodupKeys m) :
    keys (shiftRemove k m).1 = ordShiftRemove (keys m) k := by
  induction m with
  | nil => rfl
  | cons kv r ih =>
    obtain ⟨k', v'⟩ := kv
    have nd' := List.nodup_cons.mp nd
    simp only [shiftRemove]
    split
    · rename_i e; subst e
      simp only [ordShiftRemove, keys, List.map_cons, List.filter_cons, bne_self_eq_false, Bool.false_eq_true, if_false]
      symm
      apply List.filter_eq_self.mpr
      intro x hx
      simp only [bne_iff_ne, ne_eq]
      intro e; subst e; exact nd'.1 hx
    · rename_i hne
      simp only [ordShiftRemove, keys, List.map_cons, List.filter_cons] at ih ⊢
      have : (k' != k) = true := by simp [hne]
      rw [this, if_pos rfl, ih nd'.2]

theorem shiftRemove_nodup (k : Bytes) {m : IMap V} (nd : NodupKeys m) : NodupKeys (shiftRemove k m).1 := by
  rw [shiftRemove_eq]
  exact List.Nodup.sublist ((MapBTree.remove_sublist k m).map (·.1)) nd

theorem shiftRemove_not_mem (k : Bytes) {m : IMap V} (nd : NodupKeys m) : k ∉ keys (shiftRemove k m).1 := by
  rw [shiftRemove_keys k nd]; simp [ordShiftRemove]

/-! ### swap_remove -/

theorem swapTail_perm {α : Type} (r : List α) : (Spec.AMap.swapTail r).Perm r := by
  unfold Spec.AMap.swapTail
  cases h : r.getLast? with
  | none => rw [List.getLast?_eq_none_iff] at h; subst h; exact List.Perm.refl _
  | some l =>
    have : r.dropLast ++ [l] = r := by
      have hne : r ≠ [] := by intro e; subst e; simp at h
      have := List.dropLast_concat_getLast hne
      rw [List.getLast?_eq_some_getLast hne] at h
      cases h; exact this
    calc (l :: r.dropLast).Perm (r.dropLast ++ [l]) := (List.perm_append_singleton l r.dropLast).symm
      _ = r := this

theorem swapRemove_perm (k : Bytes) (m : IMap V) : (swapRemove k m).1.Perm (shiftRemove k m).1 := by
  induction m with
  | nil => exact List.Perm.refl _
  | cons kv r ih =>
    obtain ⟨k', v'⟩ := kv
    simp only [swapRemove, shiftRemove]
    split
    · exact swapTail_perm r
    · exact List.Perm.cons _ ih

theorem swapRemove_old (k : Bytes) (m : IMap V) : (swapRemove k m).2 = lookup k m := by
  induction m with
  | nil => rfl
  | cons kv r ih =>
    obtain ⟨k', v'⟩ := kv
    simp only [swapRemove, lookup]
    split
    · rfl
    · exact ih

theorem swapRemove_keys (k : Bytes) (m : IMap V) : keys (swapRemove k m).1 = ordSwapRemove (keys m) k := by
  induction m with
  | nil => rfl
  | cons kv r ih =>
    obtain ⟨k', v'⟩ := kv
    simp only [swapRemove, ordSwapRemove, keys, List.map_cons]
    split
    · simp only [Spec.AMap.swapTail, List.getLast?_map]
      cases r.getLast? with
      | none => rfl
      | some l => simp [List.map_dropLast]
    · simp only [keys] at ih; simp only [List.map_cons, ih]

theorem swapRemove_nodup (k : Bytes) {m : IMap V} (nd : NodupKeys m) : NodupKeys (swapRemove k m).1 :=
  (List.Perm.map (fun x : Bytes × V => x.1) (swapRemove_perm k m)).nodup_iff.mpr (shiftRemove_nodup k nd)

theorem swapRemove_abs (k : Bytes) {m : IMap V} (nd : NodupKeys m) :
    absm (swapRemove k m).1 = Spec.AMap.remove (absm m) k := by
  rw [← shiftRemove_abs k nd]
  funext k₂
  exact lookup_perm (swapRemove_perm k m) (swapRemove_nodup k nd) k₂

/-! ### shift_insert -/

theorem insertAt_perm {α : Type} (i : Nat) (x : α) (l : List α) : (insertAt i x l).Perm (x :: l) := by
  induction l generalizing i with
  | nil => simp [insertAt]
  | cons a r ih =>
    cases i with
    | zero => simp [insertAt]
    | succ i => simp only [insertAt]; exact ((ih i).cons a).trans (List.Perm.swap x a r)

theorem insertAt_keys (i : Nat) (k : Bytes) (v : V) (l : IMap V) :
    keys (insertAt i (k, v) l) = insertAt i k (keys l) := by
  induction l generalizing i with
  | nil => simp [insertAt, keys]
  | cons a r ih =>
    cases i with
    | zero => simp [insertAt, keys]
    | succ i => simp only [insertAt, keys, List.map_cons] at ih ⊢; rw [ih]

theorem insertAt_nodup (i : Nat) (k : Bytes) (v : V) {l : IMap V} (nd : NodupKeys l) (hk : k ∉ keys l) :
    NodupKeys (insertAt i (k, v) l) :=
  (List.Perm.map (fun x : Bytes × V => x.1) (insertAt_perm i (k, v) l)).nodup_iff.mpr
    (List.nodup_cons.mpr ⟨hk, nd⟩)

theorem insertAt_abs (i : Nat) (k : Bytes) (v : V) {l : IMap V} (nd : NodupKeys l) (hk : k ∉ keys l) :
    absm (insertAt i (k, v) l) = Spec.AMap.insert (absm l) k v := by
  funext k₂
  have := lookup_perm (insertAt_perm i (k, v) l) (insertAt_nodup i k v nd hk) k₂
  simp only [absm, this, lookup, Spec.AMap.insert]
  by_cases e : k = k₂
  · simp [e]
  · simp [e, Ne.symm e]

theorem insert_remove_abs (d : AMap V) (k : Bytes) (v : V) :
    Spec.AMap.insert (Spec.AMap.remove d k) k v = Spec.AMap.insert d k v := by
  funext k₂; simp only [Spec.AMap.insert, Spec.AMap.remove]; split <;> rfl

theorem filter_ne_self {ks : List Bytes} {k : Bytes} (hk : k ∉ ks) : ordShiftRemove ks k = ks := by
  apply List.filter_eq_self.mpr
  intro x hx; simp only [bne_iff_ne, ne_eq]; intro e; subst e; exact hk hx

/-! ### insertMany (`extend`, `append`) -/

theorem insertMany_abs (o : List (Bytes × V)) (m : IMap V) :
    absm (insertMany m o) = Spec.AMap.insertMany (absm m) o := by
  induction o generalizing m with
  | nil => rfl
  | cons kv r ih =>
    obtain ⟨k, v⟩ := kv
    simp only [insertMany, Spec.AMap.insertMany]
    rw [ih, insert_abs]

theorem insertMany_keys (o : List (Bytes × V)) (m : IMap V) :
    keys (insertMany m o) = ordInsertMany (keys m) (keys o) := by
  induction o generalizing m with
  | nil => rfl
  | cons kv r ih =>
    obtain ⟨k, v⟩ := kv
    simp only [insertMany, keys, List.map_cons, ordInsertMany] at ih ⊢
    rw [ih, ← insert_keys k v m]

theorem insertMany_nodup (o : List (Bytes × V)) {m : IMap V} (nd : NodupKeys m) : NodupKeys (insertMany m o) := by
  induction o generalizing m with
  | nil => exact nd
  | cons kv r ih => obtain ⟨k, v⟩ := kv; exact ih (insert_nodup k v nd)

/-! ### retain -/

theorem retain_eq (p : Bytes → V → Bool) (m : IMap V) : retain p m = Model.MapBTree.retain p m := rfl

theorem retain_keys (p : Bytes → V → Bool) {m : IMap V} (nd : NodupKeys m) :
    keys (retain p m) = (keys m).filter (fun k => match lookup k m with
      | some v => p k v
      | none => false) := by
  induction m with
  | nil => rfl
  | cons kv r ih =>
    obtain ⟨k', v'⟩ := kv
    have nd' := List.nodup_cons.mp nd
    have hcongr : (keys r).filter (fun k => match lookup k ((k', v') :: r) with
          | some v => p k v
          | none => false)
        = (keys r).filter (fun k => match lookup k r with
          | some v => p k v
          | none => false) := by
      apply List.filter_congr
      intro x hx
      have : k' ≠ x := by intro e; subst e; exact nd'.1 hx
      simp only [lookup, if_neg this]
    simp only [retain, keys, List.map_cons, List.filter_cons, lookup, if_true] at ih ⊢
    simp only [keys, lookup] at hcongr
    rw [hcongr, ← ih nd'.2]
    by_cases hp : p k' v' = true
    · simp [hp]
    · simp [hp]

/-! ### sort_keys -/

theorem insEntry_perm (kv : Bytes × V) (l : IMap V) : (insEntry kv l).Perm (kv :: l) := by
  induction l with
  | nil => exact List.Perm.refl _
  | cons a r ih =>
    simp only [insEntry]
    split
    · exact List.Perm.refl _
    · exact (ih.cons a).trans (List.Perm.swap kv a r)

theorem sortEntries_perm (m : IMap V) : (sortEntries m).Perm m := by
  induction m with
  | nil => exact List.Perm.refl _
  | cons kv r ih => exact (insEntry_perm kv _).trans (ih.cons kv)

theorem insEntry_keys (kv : Bytes × V) (l : IMap V) : keys (insEntry kv l) = insKey kv.1 (keys l) := by
  induction l with
  | nil => rfl
  | cons a r ih =>
    simp only [insEntry, insKey, keys, List.map_cons] at ih ⊢
    split
    · rfl
    · simp only [List.map_cons, ih]

theorem sortEntries_keys (m : IMap V) : keys (sortEntries m) = Spec.AMap.sortKeys (keys m) := by
  induction m with
  | nil => rfl
  | cons kv r ih =>
    simp only [sortEntries, Spec.AMap.sortKeys, keys, List.map_cons] at ih ⊢
    rw [← ih]; exact insEntry_keys kv _

theorem sortEntries_nodup {m : IMap V} (nd : NodupKeys m) : NodupKeys (sortEntries m) :=
  (List.Perm.map (fun x : Bytes × V => x.1) (sortEntries_perm m)).nodup_iff.mpr nd

theorem sortEntries_abs {m : IMap V} (nd : NodupKeys m) : absm (sortEntries m) = absm m := by
  funext k; exact lookup_perm (sortEntries_perm m) (sortEntries_nodup nd) k

/-- `insKey` keeps an ascending list ascending when the key is new -/
theorem insKey_asc {k : Bytes} {ks : List Bytes} (h : Asc ks) (hk : k ∉ ks) : Asc (insKey k ks) := by
  induction ks with
  | nil => simp [insKey, Asc]
  | cons a r ih =>
    have h' := List.pairwise_cons.mp h
    simp only [insKey]
    split
    · rename_i hlt
      refine List.pairwise_cons.mpr ⟨?_, h⟩
      intro x hx
      rcases List.mem_cons.mp hx with rfl | hx
      · exact hlt
      · exact ltB_trans hlt (h'.1 x hx)
    · rename_i hnlt
      have hne : k ≠ a := fun e => hk (e ▸ List.mem_cons_self ..)
      have hak : ltB a k = true := by
        cases hh : ltB a k with
        | true => rfl
        | false => exact absurd (ltB_total (by simpa using hnlt) hh) hne
      have hk' : k ∉ r := fun hm => hk (List.mem_cons_of_mem _ hm)
      refine List.pairwise_cons.mpr ⟨?_, ih h'.2 hk'⟩
      intro x hx
      have : x ∈ k :: r := by
        have hp : (insKey k r).Perm (k :: r) := by
          clear ih h h' hk hk' hne hak hnlt hx
          induction r with
          | nil => exact List.Perm.refl _
          | cons b r ihr =>
            simp only [insKey]; split
            · exact List.Perm.refl _
            · exact (ihr.cons b).trans (List.Perm.swap k b r)
        exact hp.mem_iff.mp hx
      rcases List.mem_cons.mp this with rfl | hx
      · exact hak
      · exact h'.1 x hx

theorem insKey_perm (k : Bytes) (ks : List Bytes) : (insKey k ks).Perm (k :: ks) := by
  induction ks with
  | nil => exact List.Perm.refl _
  | cons b r ihr =>
    simp only [insKey]; split
    · exact List.Perm.refl _
    · exact (ihr.cons b).trans (List.Perm.swap k b r)

theorem sortKeys_perm (ks : List Bytes) : (Spec.AMap.sortKeys ks).Perm ks := by
  induction ks with
  | nil => exact List.Perm.refl _
  | cons k r ih => exact (insKey_perm k _).trans (ih.cons k)

/-- sorting distinct keys gives a strictly ascending sequence -/
theorem sortKeys_asc {ks : List Bytes} (nd : ks.Nodup) : Asc (Spec.AMap.sortKeys ks) := by
  induction ks with
  | nil => exact List.Pairwise.nil
  | cons k r ih =>
    have nd' := List.nodup_cons.mp nd
    exact insKey_asc (ih nd'.2) (fun hm => nd'.1 ((sortKeys_perm r).mem_iff.mp hm))

/-! ### removal, whichever flavour -/

/-- plain `remove`/`remove_entry` (on the map or on an occupied entry) end up in `swap_remove*`:
    this is where the constants extracted from `map.rs` enter -/
theorem resolve_plain (sh : Shape) (via : Via) : resolve .plain sh via = .swap := by
  cases sh <;> cases via <;> rfl

theorem removeWith_old (fl : Flavour) (k : Bytes) (m : IMap V) : (removeWith fl k m).2 = lookup k m := by
  cases fl <;> simp [removeWith, swapRemove_old, shiftRemove_old]

theorem removeWith_abs (fl : Flavour) (k : Bytes) {m : IMap V} (nd : NodupKeys m) :
    absm (removeWith fl k m).1 = Spec.AMap.remove (absm m) k := by
  cases fl <;> simp [removeWith, swapRemove_abs k nd, shiftRemove_abs k nd]

theorem removeWith_nodup (fl : Flavour) (k : Bytes) {m : IMap V} (nd : NodupKeys m) :
    NodupKeys (removeWith fl k m).1 := by
  cases fl <;> simp [removeWith, swapRemove_nodup k nd, shiftRemove_nodup k nd]

theorem mem_keys_of_lookup {k : Bytes} {x : V} {m : IMap V} (h : lookup k m = some x) : k ∈ keys m :=
  lookup_isSome_iff.mp (by simp [h])

theorem not_mem_keys_of_lookup {k : Bytes} {m : IMap V} (h : lookup k m = none) : k ∉ keys m :=
  lookup_eq_none_iff.mp h

theorem step_si_some_ok {i : Nat} {k : Bytes} {v old : V} {m : IMap V} (h : lookup k m = some old)
    (hi : i < m.length) :
    step (.shiftInsert i k v) m = (insertAt i (k, v) (shiftRemove k m).1, .optV (some old)) := by
  simp [step, shiftInsert, Model.MapIndex.get, h, hi]

theorem step_si_some_bad {i : Nat} {k : Bytes} {v old : V} {m : IMap V} (h : lookup k m = some old)
    (hi : ¬ i < m.length) : step (.shiftInsert i k v) m = (m, .panic) := by
  simp [step, shiftInsert, Model.MapIndex.get, h, hi]

theorem step_si_none_ok {i : Nat} {k : Bytes} {v : V} {m : IMap V} (h : lookup k m = none)
    (hi : i ≤ m.length) : step (.shiftInsert i k v) m = (insertAt i (k, v) m, .optV none) := by
  simp [step, shiftInsert, Model.MapIndex.get, h, hi]

theorem step_si_none_bad {i : Nat} {k : Bytes} {v : V} {m : IMap V} (h : lookup k m = none)
    (hi : ¬ i ≤ m.length) : step (.shiftInsert i k v) m = (m, .panic) := by
  simp [step, shiftInsert, Model.MapIndex.get, h, hi]

/-! ### every operation keeps the keys distinct -/

theorem step_nodup (o : Op V) {m : IMap V} (nd : NodupKeys m) : NodupKeys (step o m).1 := by
  cases o with
  | insert k v => exact insert_nodup k v nd
  | shiftInsert i k v =>
    cases h : lookup k m with
    | some old =>
      by_cases hi : i < m.length
      · rw [step_si_some_ok h hi]
        exact insertAt_nodup i k v (shiftRemove_nodup k nd) (shiftRemove_not_mem k nd)
      · rw [step_si_some_bad h hi]; exact nd
    | none =>
      by_cases hi : i ≤ m.length
      · rw [step_si_none_ok h hi]; exact insertAt_nodup i k v nd (not_mem_keys_of_lookup h)
      · rw [step_si_none_bad h hi]; exact nd
  | remove fl sh via k => exact removeWith_nodup _ k nd
  | get k => exact nd
  | contains k => exact nd
  | len => exact nd
  | isEmpty => exact nd
  | clear => exact List.nodup_nil
  | append o =>
    simp only [step]; split
    · exact insertMany_nodup o nd
    · exact nd
  | extend o => exact insertMany_nodup o nd
  | retain p => exact List.Nodup.sublist (List.Sublist.map (fun x : Bytes × V => x.1) List.filter_sublist) nd
  | sortKeys =>
    simp only [step, sortKeys]; split
    · exact sortEntries_nodup nd
    · exact nd
  | entryOrInsert k v =>
    simp only [step]; split
    · exact nd
    · exact insert_nodup k v nd
  | entryInsert k v => exact insert_nodup k v nd
  | entryModify k v w =>
    simp only [step]; split
    · exact insert_nodup k v nd
    · exact insert_nodup k w nd
  | setMut k v =>
    simp only [step]; split
    · exact insert_nodup k v nd
    · exact nd
  | index k => simp only [step]; split <;> exact nd
  | indexSet k v =>
    simp only [step]; split
    · exact insert_nodup k v nd
    · exact nd
  | iter => exact nd
  | iterRev => exact nd
  | keys => exact nd
  | values => exact nd

/-! ### every operation satisfies the dictionary contract -/

theorem step_refines (o : Op V) {m : IMap V} (nd : NodupKeys m) :
    Step o (absm m) (absm (step o m).1) (step o m).2 := by
  cases o with
  | insert k v => exact ⟨insert_abs k v m, by simp [step, insert_old, absm]⟩
  | shiftInsert i k v =>
    refine ⟨m.length, hasLen_self nd, ?_⟩
    cases h : lookup k m with
    | some old =>
      have hd : absm m k = some old := h
      by_cases hi : i < m.length
      · rw [step_si_some_ok h hi]
        simp only [hd, Option.isSome_some, shiftIndexOk, if_true, hi, decide_true]
        refine ⟨?_, trivial⟩
        rw [insertAt_abs i k v (shiftRemove_nodup k nd) (shiftRemove_not_mem k nd), shiftRemove_abs k nd,
          insert_remove_abs]
      · rw [step_si_some_bad h hi]
        simp only [hd, Option.isSome_some, shiftIndexOk, if_true, hi, decide_false, Bool.false_eq_true, if_false]
        constructor <;> first | rfl | trivial
    | none =>
      have hd : absm m k = none := h
      by_cases hi : i ≤ m.length
      · rw [step_si_none_ok h hi]
        simp only [hd, Option.isSome_none, shiftIndexOk, Bool.false_eq_true, if_false, hi, decide_true, if_true]
        exact ⟨insertAt_abs i k v nd (not_mem_keys_of_lookup h), trivial⟩
      · rw [step_si_none_bad h hi]
        simp only [hd, Option.isSome_none, shiftIndexOk, Bool.false_eq_true, if_false, hi, decide_false]
        constructor <;> first | rfl | trivial
  | remove fl sh via k => exact ⟨removeWith_abs _ k nd, by simp [step, removeWith_old, absm]⟩
  | get k => exact ⟨rfl, rfl⟩
  | contains k => exact ⟨rfl, rfl⟩
  | len => exact ⟨rfl, m.length, hasLen_self nd, rfl⟩
  | isEmpty => exact ⟨rfl, m.length, hasLen_self nd, rfl⟩
  | clear => exact ⟨rfl, rfl⟩
  | append o => exact ⟨insertMany_abs o m, rfl⟩
  | extend o => exact ⟨insertMany_abs o m, rfl⟩
  | retain p => exact ⟨MapBTree.retain_abs p nd, rfl⟩
  | sortKeys => exact ⟨sortEntries_abs nd, rfl⟩
  | entryOrInsert k v =>
    simp only [Step, step, Model.MapIndex.get, absm]
    cases h : lookup k m with
    | some x => exact ⟨rfl, rfl⟩
    | none => exact ⟨insert_abs k v m, rfl⟩
  | entryInsert k v => exact ⟨insert_abs k v m, by simp [step, insert_old, absm]⟩
  | entryModify k v w =>
    simp only [Step, step, Model.MapIndex.get, absm]
    cases h : lookup k m with
    | some x => exact ⟨insert_abs k v m, rfl⟩
    | none => exact ⟨insert_abs k w m, rfl⟩
  | setMut k v =>
    simp only [Step, step, Model.MapIndex.get, absm]
    cases h : lookup k m with
    | some x => exact ⟨insert_abs k v m, rfl⟩
    | none => exact ⟨rfl, rfl⟩
  | index k =>
    simp only [Step, step, Model.MapIndex.get, absm]
    cases h : lookup k m with
    | some x => exact ⟨rfl, rfl⟩
    | none => exact ⟨rfl, rfl⟩
  | indexSet k v =>
    simp only [Step, step, Model.MapIndex.get, absm]
    cases h : lookup k m with
    | some x => exact ⟨insert_abs k v m, rfl⟩
    | none => exact ⟨rfl, rfl⟩
  | iter => exact ⟨rfl, m, entries_self nd, rfl⟩
  | iterRev => exact ⟨rfl, m.reverse, entries_reverse nd, rfl⟩
  | keys => exact ⟨rfl, m, entries_self nd, rfl⟩
  | values => exact ⟨rfl, m, entries_self nd, rfl⟩

/-! ### every operation moves the keys exactly as the order rules say -/

theorem step_order (o : Op V) {m : IMap V} (nd : NodupKeys m) :
    keys (step o m).1 = ordStep o (absm m) (keys m) := by
  cases o with
  | insert k v => exact insert_keys k v m
  | shiftInsert i k v =>
    have hlen : (keys m).length = m.length := by simp [keys]
    simp only [ordStep, ordShiftInsert, shiftIndexOk, hlen]
    cases h : lookup k m with
    | some old =>
      have hc : (keys m).contains k = true := by simpa using mem_keys_of_lookup h
      by_cases hi : i < m.length
      · rw [step_si_some_ok h hi]
        simp only [hc, if_true, hi, decide_true]
        rw [insertAt_keys, shiftRemove_keys k nd]
      · rw [step_si_some_bad h hi]; simp only [hc, hi, if_true, decide_false, Bool.false_eq_true, if_false]
    | none =>
      have hk := not_mem_keys_of_lookup h
      have hc : (keys m).contains k = false := by simpa using hk
      by_cases hi : i ≤ m.length
      · rw [step_si_none_ok h hi]
        simp only [hc, Bool.false_eq_true, if_false, hi, decide_true, if_true]
        rw [insertAt_keys, filter_ne_self hk]
      · rw [step_si_none_bad h hi]; simp only [hc, hi, decide_false, Bool.false_eq_true, if_false]
  | remove fl sh via k =>
    cases fl with
    | plain => simp only [step, resolve_plain, removeWith, ordStep]; exact swapRemove_keys k m
    | swap => simp only [step, resolve, removeWith, ordStep]; exact swapRemove_keys k m
    | shift => simp only [step, resolve, removeWith, ordStep]; exact shiftRemove_keys k nd
  | get k => rfl
  | contains k => rfl
  | len => rfl
  | isEmpty => rfl
  | clear => rfl
  | append o =>
    have : Gen.mapAppendAsDocumented = true := rfl
    simp only [step, this, if_true, ordStep]; exact insertMany_keys o m
  | extend o => exact insertMany_keys o m
  | retain p => exact retain_keys p nd
  | sortKeys =>
    have : Gen.mapSortKeysSorts = true := rfl
    simp only [step, sortKeys, this, if_true, ordStep]; exact sortEntries_keys m
  | entryOrInsert k v =>
    simp only [step, Model.MapIndex.get, ordStep]
    cases h : lookup k m with
    | some x =>
      have hc : (keys m).contains k = true := by simpa using mem_keys_of_lookup h
      simp only [ordInsert, hc, if_true]
    | none => exact insert_keys k v m
  | entryInsert k v => exact insert_keys k v m
  | entryModify k v w =>
    simp only [step, Model.MapIndex.get, ordStep]
    cases h : lookup k m with
    | some x => exact insert_keys k v m
    | none => exact insert_keys k w m
  | setMut k v =>
    simp only [step, Model.MapIndex.get, ordStep]
    cases h : lookup k m with
    | some x =>
      have hc : (keys m).contains k = true := by simpa using mem_keys_of_lookup h
      simp only [insert_keys, ordInsert, hc, if_true]
    | none => rfl
  | index k => simp only [step, ordStep]; split <;> rfl
  | indexSet k v =>
    simp only [step, Model.MapIndex.get, ordStep]
    cases h : lookup k m with
    | some x =>
      have hc : (keys m).contains k = true := by simpa using mem_keys_of_lookup h
      simp only [insert_keys, ordInsert, hc, if_true]
    | none => rfl
  | iter => rfl
  | iterRev => rfl
  | keys => rfl
  | values => rfl

end SJ.Proofs.MapIndex
