import SJ.Proofs.MachineApTop
/-!
# The machine's control flow does not look at the values it has collected

`Eqv s s'`: same mode (numbers and strings in progress identical, literals with the same bytes left), stacks of the same
shape frame by frame (arrays; objects with the same pending key and both with or both without completed members).
`step1_eqv`: related states make related steps (same error, or related successors). This is what lets a run of `MachineAp` —
which puts a NUMBER where the machine puts a one-member object — be compared with the machine's run on the same bytes.

(`stepNum_cases`, `stepStr_cases`: stack-independence of the scanners, transcribed from `Proofs/TypedAgreePad.lean` so that
this file does not depend on the typed development.)
-/
namespace SJ.Proofs.MachineAp
open SJ SJ.Gen SJ.Model SJ.Model.Machine SJ.Proofs.Sound

/-- the three kinds of outcome of a number step: stay in a number state, end the number, fail -/
def numFinish (env : Env) (s : St) (n : NumSt) : Step :=
  match endNumber env s n with
  | .ok s' => .again s'
  | .error (c, a) => .err c a

theorem stepNum_cases (env : Env) (n : NumSt) (b : UInt8) :
    (∃ n' : NumSt, ∀ (env' : Env) (s' : St), env'.tgt = env.tgt → env'.cfg.ap = env.cfg.ap →
      stepNum env' s' n b = .next { s' with mode := .num n' }) ∨
    (∀ (env' : Env) (s' : St), env'.tgt = env.tgt → env'.cfg.ap = env.cfg.ap →
      stepNum env' s' n b = numFinish env' s' n) ∨
    (∃ c a, ∀ (env' : Env) (s' : St), env'.tgt = env.tgt → env'.cfg.ap = env.cfg.ap →
      stepNum env' s' n b = .err c a) := by
  cases hph : n.phase
  case afterMinus =>
    by_cases h1 : (b == 0x30) = true
    · exact .inl ⟨_, fun env' s' _ _ => by simp [stepNum, hph, h1] <;> first | rfl | exact ⟨rfl, rfl⟩⟩
    by_cases h2 : isDigit b = true
    · exact .inl ⟨_, fun env' s' _ _ => by simp [stepNum, hph, h1, h2] <;> first | rfl | exact ⟨rfl, rfl⟩⟩
    · exact .inr (.inr ⟨_, _, fun env' s' _ _ => by simp [stepNum, hph, h1, h2] <;> first | rfl | exact ⟨rfl, rfl⟩⟩)
  case zero =>
    by_cases h1 : isDigit b = true
    · exact .inr (.inr ⟨_, _, fun env' s' _ _ => by simp [stepNum, hph, h1] <;> first | rfl | exact ⟨rfl, rfl⟩⟩)
    by_cases h2 : (b == 0x2e) = true
    · exact .inl ⟨_, fun env' s' _ _ => by simp [stepNum, hph, h1, h2] <;> first | rfl | exact ⟨rfl, rfl⟩⟩
    by_cases h3 : (b == 0x65 || b == 0x45) = true
    · exact .inl ⟨_, fun env' s' _ _ => by simp [stepNum, hph, h1, h2, h3] <;> first | rfl | exact ⟨rfl, rfl⟩⟩
    · exact .inr (.inl fun env' s' _ _ => by simp [stepNum, hph, h1, h2, h3, numFinish] <;> first | rfl | exact ⟨rfl, rfl⟩)
  case int =>
    by_cases h1 : isDigit b = true
    · exact .inl ⟨_, fun env' s' _ _ => by simp [stepNum, hph, h1] <;> first | rfl | exact ⟨rfl, rfl⟩⟩
    by_cases h2 : (b == 0x2e) = true
    · exact .inl ⟨_, fun env' s' _ _ => by simp [stepNum, hph, h1, h2] <;> first | rfl | exact ⟨rfl, rfl⟩⟩
    by_cases h3 : (b == 0x65 || b == 0x45) = true
    · exact .inl ⟨_, fun env' s' _ _ => by simp [stepNum, hph, h1, h2, h3] <;> first | rfl | exact ⟨rfl, rfl⟩⟩
    · exact .inr (.inl fun env' s' _ _ => by simp [stepNum, hph, h1, h2, h3, numFinish] <;> first | rfl | exact ⟨rfl, rfl⟩)
  case fracStart =>
    by_cases h1 : isDigit b = true
    · exact .inl ⟨_, fun env' s' _ _ => by simp [stepNum, hph, h1] <;> first | rfl | exact ⟨rfl, rfl⟩⟩
    · exact .inr (.inr ⟨_, _, fun env' s' _ _ => by simp [stepNum, hph, h1] <;> first | rfl | exact ⟨rfl, rfl⟩⟩)
  case frac =>
    by_cases h1 : isDigit b = true
    · exact .inl ⟨_, fun env' s' _ _ => by simp [stepNum, hph, h1] <;> first | rfl | exact ⟨rfl, rfl⟩⟩
    by_cases h3 : (b == 0x65 || b == 0x45) = true
    · exact .inl ⟨_, fun env' s' _ _ => by simp [stepNum, hph, h1, h3] <;> first | rfl | exact ⟨rfl, rfl⟩⟩
    · exact .inr (.inl fun env' s' _ _ => by simp [stepNum, hph, h1, h3, numFinish] <;> first | rfl | exact ⟨rfl, rfl⟩)
  case expStart =>
    by_cases h1 : (b == 0x2b) = true
    · exact .inl ⟨_, fun env' s' _ _ => by simp [stepNum, hph, h1] <;> first | rfl | exact ⟨rfl, rfl⟩⟩
    by_cases h2 : (b == 0x2d) = true
    · exact .inl ⟨_, fun env' s' _ _ => by simp [stepNum, hph, h1, h2] <;> first | rfl | exact ⟨rfl, rfl⟩⟩
    by_cases h3 : isDigit b = true
    · exact .inl ⟨_, fun env' s' _ _ => by simp [stepNum, hph, h1, h2, h3] <;> first | rfl | exact ⟨rfl, rfl⟩⟩
    · exact .inr (.inr ⟨_, _, fun env' s' _ _ => by simp [stepNum, hph, h1, h2, h3] <;> first | rfl | exact ⟨rfl, rfl⟩⟩)
  case expSign =>
    by_cases h1 : isDigit b = true
    · exact .inl ⟨_, fun env' s' _ _ => by simp [stepNum, hph, h1] <;> first | rfl | exact ⟨rfl, rfl⟩⟩
    · exact .inr (.inr ⟨_, _, fun env' s' _ _ => by simp [stepNum, hph, h1] <;> first | rfl | exact ⟨rfl, rfl⟩⟩)
  case exp =>
    by_cases h1 : isDigit b = true
    · by_cases h2 : (decide (env.tgt = .value) && !env.cfg.ap && Model.Num.expOverflows (b :: n.expDigits).reverse
          && !((n.int.reverse ++ n.frac.reverse).all (· == 0x30)) && !n.expNeg) = true
      · exact .inr (.inr ⟨_, _, fun env' s' ht ha => by
          rw [← ht, ← ha] at h2
          simp only [stepNum, hph, h1, if_true]
          rw [if_pos h2]⟩)
      · exact .inl ⟨_, fun env' s' ht ha => by
          rw [← ht, ← ha] at h2
          simp only [stepNum, hph, h1, if_true]
          rw [if_neg h2]⟩
    · exact .inr (.inl fun env' s' _ _ => by simp [stepNum, hph, h1, numFinish] <;> first | rfl | exact ⟨rfl, rfl⟩)


/-- the outcomes of a string step: stay in a string state (same `isKey`), end the string, fail -/
theorem stepStr_cases (env : Env) (st : StrSt) (b : UInt8) :
    (∃ st' : StrSt, st'.isKey = st.isKey ∧ ∀ (env' : Env) (s' : St), env'.tgt = env.tgt →
      stepStr env' s' st b = .next { s' with mode := .str st' }) ∨
    (∀ (env' : Env) (s' : St), env'.tgt = env.tgt → stepStr env' s' st b = endStr env' s' st) ∨
    (∃ c a, ∀ (env' : Env) (s' : St), env'.tgt = env.tgt → stepStr env' s' st b = .err c a) := by
  cases hesc : st.esc
  case none =>
    by_cases h1 : (b == 0x22) = true
    · exact .inr (.inl fun env' s' _ => by simp [stepStr, hesc, h1])
    by_cases h2 : (b == 0x5c) = true
    · exact .inl ⟨{ st with esc := .bs, escaped := true }, rfl, fun env' s' _ => by simp [stepStr, hesc, h1, h2]⟩
    by_cases h3 : b < 0x20
    · exact .inr (.inr ⟨.ControlCharacterWhileParsingString, .incl, fun env' s' _ => by simp [stepStr, hesc, h1, h2, h3]⟩)
    · exact .inl ⟨{ st with out := b :: st.out }, rfl, fun env' s' _ => by simp [stepStr, hesc, h1, h2, h3]⟩
  case bs =>
    by_cases h1 : (b == 0x75) = true
    · exact .inl ⟨{ st with esc := .hex [] none }, rfl, fun env' s' _ => by simp [stepStr, hesc, h1]⟩
    by_cases h2 : Spec.Grammar.isSimpleEscape b = true
    · exact .inl ⟨{ st with out := Spec.Denote.simpleEscape b :: st.out, esc := .none }, rfl,
        fun env' s' _ => by simp [stepStr, hesc, h1, h2]⟩
    · exact .inr (.inr ⟨.InvalidEscape, .incl, fun env' s' _ => by simp [stepStr, hesc, h1, h2]⟩)
  case hex acc lead =>
    by_cases h1 : (acc ++ [b]).length < 4
    · exact .inl ⟨{ st with esc := .hex (acc ++ [b]) lead }, rfl, fun env' s' _ => by simp only [stepStr, hesc]; rw [if_pos h1]⟩
    cases hx : hex4 (acc ++ [b]) with
    | none => exact .inr (.inr ⟨.InvalidEscape, .incl, fun env' s' _ => by simp only [stepStr, hesc]; rw [if_neg h1, hx]⟩)
    | some nn =>
      by_cases hig : env.tgt = .ignored
      · exact .inl ⟨{ st with esc := .none }, rfl, fun env' s' ht => by
          simp only [stepStr, hesc]; rw [if_neg h1, hx]; simp only []; rw [if_pos (ht ▸ hig)]⟩
      cases lead with
      | none =>
        by_cases h2 : (decide (0xDC00 ≤ nn) && decide (nn ≤ 0xDFFF)) = true
        · exact .inr (.inr ⟨.LoneLeadingSurrogateInHexEscape, .incl, fun env' s' ht => by
            simp only [stepStr, hesc]; rw [if_neg h1, hx]; simp only []; rw [if_neg (ht ▸ hig), if_pos h2]⟩)
        by_cases h3 : (decide (0xD800 ≤ nn) && decide (nn ≤ 0xDBFF)) = true
        · exact .inl ⟨{ st with esc := .lead1 nn }, rfl, fun env' s' ht => by
            simp only [stepStr, hesc]; rw [if_neg h1, hx]; simp only []; rw [if_neg (ht ▸ hig), if_neg h2, if_pos h3]⟩
        · exact .inl ⟨{ st with out := (Spec.Denote.utf8 nn).reverse ++ st.out, esc := .none }, rfl, fun env' s' ht => by
            simp only [stepStr, hesc]; rw [if_neg h1, hx]; simp only []; rw [if_neg (ht ▸ hig), if_neg h2, if_neg h3]⟩
      | some n1 =>
        by_cases h2 : (decide (nn < 0xDC00) || decide (nn > 0xDFFF)) = true
        · exact .inr (.inr ⟨.LoneLeadingSurrogateInHexEscape, .incl, fun env' s' ht => by
            simp only [stepStr, hesc]; rw [if_neg h1, hx]; simp only []; rw [if_neg (ht ▸ hig), if_pos h2]⟩)
        · exact .inl ⟨{ st with out := (Spec.Denote.utf8 (0x10000 + (n1 - 0xD800) * 0x400 + (nn - 0xDC00))).reverse ++ st.out, esc := .none },
            rfl, fun env' s' ht => by
            simp only [stepStr, hesc]; rw [if_neg h1, hx]; simp only []; rw [if_neg (ht ▸ hig), if_neg h2]⟩
  case lead1 n1 =>
    by_cases h1 : (b == 0x5c) = true
    · exact .inl ⟨{ st with esc := .lead2 n1 }, rfl, fun env' s' _ => by simp [stepStr, hesc, h1]⟩
    · exact .inr (.inr ⟨.UnexpectedEndOfHexEscape, .incl, fun env' s' _ => by simp [stepStr, hesc, h1]⟩)
  case lead2 n1 =>
    by_cases h1 : (b == 0x75) = true
    · exact .inl ⟨{ st with esc := .hex [] (some n1) }, rfl, fun env' s' _ => by simp [stepStr, hesc, h1]⟩
    · exact .inr (.inr ⟨.UnexpectedEndOfHexEscape, .incl, fun env' s' _ => by simp [stepStr, hesc, h1]⟩)


/-! ## the relation -/

inductive FrameEqv : Frame → Frame → Prop
  | arr (es es' : List JV) : FrameEqv (.arr es) (.arr es')
  | obj (ms ms' : List (Bytes × JV)) (k : Bytes) : (ms = [] ↔ ms' = []) → FrameEqv (.obj ms k) (.obj ms' k)

inductive StackEqv : List Frame → List Frame → Prop
  | nil : StackEqv [] []
  | cons {f f' : Frame} {fs fs' : List Frame} : FrameEqv f f' → StackEqv fs fs' → StackEqv (f :: fs) (f' :: fs')

def ModeEqv : Mode → Mode → Prop
  | .val c, .val c' => c = c'
  | .lit r _, .lit r' _ => r = r'
  | .num n, .num n' => n = n'
  | .str st, .str st' => st = st'
  | .afterElem, .afterElem => True
  | .objFirst, .objFirst => True
  | .objNextKey, .objNextKey => True
  | .afterKey, .afterKey => True
  | .afterMember, .afterMember => True
  | .done _, .done _ => True
  | _, _ => False

def Eqv (s s' : St) : Prop := ModeEqv s.mode s'.mode ∧ StackEqv s.stack s'.stack

def StepEqv : Step → Step → Prop
  | .next s, .next s' => Eqv s s'
  | .again s, .again s' => Eqv s s'
  | .err c a, .err c' a' => c = c' ∧ a = a'
  | _, _ => False

theorem FrameEqv.refl (f : Frame) : FrameEqv f f := by
  cases f with
  | arr es => exact .arr es es
  | obj ms k => exact .obj ms ms k Iff.rfl

theorem StackEqv.refl : ∀ fs : List Frame, StackEqv fs fs
  | [] => .nil
  | f :: fs => .cons (FrameEqv.refl f) (StackEqv.refl fs)

theorem eqv_complete {fs fs' : List Frame} (h : StackEqv fs fs') (v v' : JV) : Eqv (complete fs v) (complete fs' v') := by
  cases h with
  | nil => exact ⟨trivial, .nil⟩
  | cons hf hr =>
    cases hf with
    | arr es es' => exact ⟨trivial, .cons (.arr _ _) hr⟩
    | obj ms ms' k hi => exact ⟨trivial, .cons (.obj _ _ k (by simp)) hr⟩

theorem eqv_closeArr (env : Env) {s s' : St} (h : StackEqv s.stack s'.stack) : StepEqv (closeArr env s) (closeArr env s') := by
  obtain ⟨m, fs⟩ := s
  obtain ⟨m', fs'⟩ := s'
  simp only at h
  unfold closeArr
  cases h with
  | nil => exact ⟨rfl, rfl⟩
  | cons hf hr =>
    cases hf with
    | arr es es' => exact eqv_complete hr _ _
    | obj ms ms' k hi => exact ⟨rfl, rfl⟩

theorem eqv_closeObj (env : Env) {s s' : St} (h : StackEqv s.stack s'.stack) : StepEqv (closeObj env s) (closeObj env s') := by
  obtain ⟨m, fs⟩ := s
  obtain ⟨m', fs'⟩ := s'
  simp only at h
  unfold closeObj
  cases h with
  | nil => exact ⟨rfl, rfl⟩
  | cons hf hr =>
    cases hf with
    | arr es es' => exact ⟨rfl, rfl⟩
    | obj ms ms' k hi => exact eqv_complete hr _ _

theorem stackEqv_length {fs fs' : List Frame} (h : StackEqv fs fs') : fs.length = fs'.length := by
  induction h with
  | nil => rfl
  | cons _ _ ih => simp [ih]

/-! ## steps -/

theorem eqv_startValue (env : Env) {s s' : St} (h : StackEqv s.stack s'.stack) (b : UInt8) :
    StepEqv (startValue env s b) (startValue env s' b) := by
  have hd : depthExceeded env s = depthExceeded env s' := by
    unfold depthExceeded; rw [stackEqv_length h]
  unfold startValue
  by_cases h1 : (b == 0x6e) = true
  · simp only [h1, if_true]; exact ⟨rfl, h⟩
  simp only [h1, Bool.false_eq_true, if_false]
  by_cases h2 : (b == 0x74) = true
  · simp only [h2, if_true]; exact ⟨rfl, h⟩
  simp only [h2, Bool.false_eq_true, if_false]
  by_cases h3 : (b == 0x66) = true
  · simp only [h3, if_true]; exact ⟨rfl, h⟩
  simp only [h3, Bool.false_eq_true, if_false]
  by_cases h4 : (b == 0x2d) = true
  · simp only [h4, if_true]; exact ⟨rfl, h⟩
  simp only [h4, Bool.false_eq_true, if_false]
  by_cases h5 : (b == 0x30) = true
  · simp only [h5, if_true]; exact ⟨rfl, h⟩
  simp only [h5, Bool.false_eq_true, if_false]
  by_cases h6 : isDigit b = true
  · simp only [h6, if_true]; exact ⟨rfl, h⟩
  simp only [h6, Bool.false_eq_true, if_false]
  by_cases h7 : (b == 0x22) = true
  · simp only [h7, if_true]; exact ⟨rfl, h⟩
  simp only [h7, Bool.false_eq_true, if_false]
  by_cases h8 : (b == 0x5b) = true
  · simp only [h8, if_true, ← hd]
    split
    · exact ⟨rfl, rfl⟩
    · exact ⟨rfl, .cons (.arr _ _) h⟩
  simp only [h8, Bool.false_eq_true, if_false]
  by_cases h9 : (b == 0x7b) = true
  · simp only [h9, if_true, ← hd]
    split
    · exact ⟨rfl, rfl⟩
    · exact ⟨trivial, .cons (.obj _ _ _ Iff.rfl) h⟩
  simp only [h9, Bool.false_eq_true, if_false]
  exact ⟨rfl, rfl⟩

theorem eqv_endNumber (env : Env) {s s' : St} (h : StackEqv s.stack s'.stack) (n : NumSt) :
    StepEqv (numFinish env s n) (numFinish env s' n) := by
  unfold numFinish endNumber
  by_cases hv : env.tgt = .value
  · simp only [hv, if_true]
    cases numValue env n with
    | ok v => exact eqv_complete h _ _
    | error c => exact ⟨rfl, rfl⟩
  · simp only [hv, if_false]
    exact eqv_complete h _ _

theorem eqv_stepNum (env : Env) {s s' : St} (h : StackEqv s.stack s'.stack) (n : NumSt) (b : UInt8) :
    StepEqv (stepNum env s n b) (stepNum env s' n b) := by
  rcases stepNum_cases env n b with ⟨n', he⟩ | he | ⟨c, a, he⟩
  · rw [he env s rfl rfl, he env s' rfl rfl]; exact ⟨rfl, h⟩
  · rw [he env s rfl rfl, he env s' rfl rfl]; exact eqv_endNumber env h n
  · rw [he env s rfl rfl, he env s' rfl rfl]; exact ⟨rfl, rfl⟩

theorem eqv_endStr (env : Env) {s s' : St} (h : StackEqv s.stack s'.stack) (st : StrSt) :
    StepEqv (endStr env s st) (endStr env s' st) := by
  obtain ⟨m, fs⟩ := s
  obtain ⟨m', fs'⟩ := s'
  simp only at h
  unfold endStr
  by_cases hbad : (decide (env.tgt = .value) && env.src != .str && !Spec.Utf8.validUtf8 st.out.reverse) = true
  · simp only [hbad, if_true]; exact ⟨rfl, rfl⟩
  · simp only [hbad, Bool.false_eq_true, if_false]
    by_cases hk : st.isKey = true
    · simp only [hk, if_true]
      cases h with
      | nil => exact ⟨rfl, rfl⟩
      | cons hf hr =>
        cases hf with
        | arr es es' => exact ⟨rfl, rfl⟩
        | obj ms ms' k hi => exact ⟨trivial, .cons (.obj _ _ _ hi) hr⟩
    · simp only [hk, Bool.false_eq_true, if_false]
      exact eqv_complete h _ _

theorem eqv_stepStr (env : Env) {s s' : St} (h : StackEqv s.stack s'.stack) (st : StrSt) (b : UInt8) :
    StepEqv (stepStr env s st b) (stepStr env s' st b) := by
  rcases stepStr_cases env st b with ⟨st', _, he⟩ | he | ⟨c, a, he⟩
  · rw [he env s rfl, he env s' rfl]; exact ⟨rfl, h⟩
  · rw [he env s rfl, he env s' rfl]; exact eqv_endStr env h st
  · rw [he env s rfl, he env s' rfl]; exact ⟨rfl, rfl⟩

/-- **related states make related steps** -/
theorem step1_eqv (env : Env) {s s' : St} (h : Eqv s s') (b : UInt8) : StepEqv (step1 env s b) (step1 env s' b) := by
  obtain ⟨m, fs⟩ := s
  obtain ⟨m', fs'⟩ := s'
  obtain ⟨hm, hs⟩ := h
  simp only at hm hs
  have hself : ∀ m0 m0' : Mode, ModeEqv m0 m0' → StepEqv (.next ⟨m0, fs⟩) (.next ⟨m0', fs'⟩) := fun _ _ h0 => ⟨h0, hs⟩
  cases m <;> cases m' <;> simp only [ModeEqv] at hm
  case val.val ctx ctx' =>
    subst hm
    simp only [step1]
    by_cases hw : isWs b = true
    · simp only [hw, if_true]; exact hself _ _ rfl
    simp only [hw, Bool.false_eq_true, if_false]
    by_cases hc1 : (b == 0x5d && decide (ctx = .arrFirst)) = true
    · simp only [hc1, if_true]; exact eqv_closeArr env hs
    simp only [hc1, Bool.false_eq_true, if_false]
    by_cases hc2 : (b == 0x5d && decide (ctx = .arrNext)) = true
    · simp only [hc2, if_true]; exact ⟨rfl, rfl⟩
    simp only [hc2, Bool.false_eq_true, if_false]
    exact eqv_startValue env hs b
  case lit.lit rest v rest' v' =>
    subst hm
    simp only [step1]
    cases rest with
    | nil => exact ⟨rfl, rfl⟩
    | cons e es =>
      simp only
      by_cases hbe : (b == e) = true
      · simp only [hbe, if_true]
        by_cases hes : es.isEmpty = true
        · simp only [hes, if_true]; exact eqv_complete hs _ _
        · simp only [hes, Bool.false_eq_true, if_false]; exact hself _ _ rfl
      · simp only [hbe, Bool.false_eq_true, if_false]; exact ⟨rfl, rfl⟩
  case num.num n n' => subst hm; simp only [step1]; exact eqv_stepNum env hs n b
  case str.str st st' => subst hm; simp only [step1]; exact eqv_stepStr env hs st b
  case afterElem.afterElem =>
    simp only [step1]
    by_cases hw : isWs b = true
    · simp only [hw, if_true]; exact hself _ _ trivial
    simp only [hw, Bool.false_eq_true, if_false]
    by_cases h1 : (b == 0x2c) = true
    · simp only [h1, if_true]; exact hself _ _ rfl
    simp only [h1, Bool.false_eq_true, if_false]
    by_cases h2 : (b == 0x5d) = true
    · simp only [h2, if_true]; exact eqv_closeArr env hs
    simp only [h2, Bool.false_eq_true, if_false]; exact ⟨rfl, rfl⟩
  case objFirst.objFirst =>
    simp only [step1]
    by_cases hw : isWs b = true
    · simp only [hw, if_true]; exact hself _ _ trivial
    simp only [hw, Bool.false_eq_true, if_false]
    by_cases h1 : (b == 0x7d) = true
    · simp only [h1, if_true]; exact eqv_closeObj env hs
    simp only [h1, Bool.false_eq_true, if_false]
    by_cases h2 : (b == 0x22) = true
    · simp only [h2, if_true]; exact hself _ _ rfl
    simp only [h2, Bool.false_eq_true, if_false]; exact ⟨rfl, rfl⟩
  case objNextKey.objNextKey =>
    simp only [step1]
    by_cases hw : isWs b = true
    · simp only [hw, if_true]; exact hself _ _ trivial
    simp only [hw, Bool.false_eq_true, if_false]
    by_cases h2 : (b == 0x22) = true
    · simp only [h2, if_true]; exact hself _ _ rfl
    simp only [h2, Bool.false_eq_true, if_false]
    split <;> exact ⟨rfl, rfl⟩
  case afterKey.afterKey =>
    simp only [step1]
    by_cases hw : isWs b = true
    · simp only [hw, if_true]; exact hself _ _ trivial
    simp only [hw, Bool.false_eq_true, if_false]
    by_cases h1 : (b == 0x3a) = true
    · simp only [h1, if_true]; exact hself _ _ rfl
    simp only [h1, Bool.false_eq_true, if_false]; exact ⟨rfl, rfl⟩
  case afterMember.afterMember =>
    simp only [step1]
    by_cases hw : isWs b = true
    · simp only [hw, if_true]; exact hself _ _ trivial
    simp only [hw, Bool.false_eq_true, if_false]
    by_cases h1 : (b == 0x2c) = true
    · simp only [h1, if_true]; exact hself _ _ trivial
    simp only [h1, Bool.false_eq_true, if_false]
    by_cases h2 : (b == 0x7d) = true
    · simp only [h2, if_true]; exact eqv_closeObj env hs
    simp only [h2, Bool.false_eq_true, if_false]; exact ⟨rfl, rfl⟩
  case done.done v v' =>
    simp only [step1]
    by_cases hw : isWs b = true
    · simp only [hw, if_true]; exact hself _ _ trivial
    simp only [hw, Bool.false_eq_true, if_false]; exact ⟨rfl, rfl⟩

end SJ.Proofs.MachineAp
