import SJ.Model.RawNested
import SJ.Proofs.TypedSim
import SJ.Proofs.TypedFault
import SJ.Proofs.TypedWithin
/-!
# `deserialize_raw_value` inside the two-run simulation of the typed model, and its error classes / positions

`deRaw` (`SJ/Model/RawNested.lean`) is one more entry point of `impl Deserializer for &mut Deserializer<R>`; here it
gets what every entry point of `Model.Typed` has:

* `sim_deRaw`: in any simulation `Sim e1 e2 V Q` between two environments that treat the captured text alike
  (both byte sources, or the same source) the two runs of `deRaw` are related by `Q` — hence `sim_rawSeq` /
  `sim_rawMap` through the typed model's own `sim_deSeq` / `sim_seqLoop` / `sim_deMap` / `sim_mapLoop`
  (slice / reader: `SR`; failing reader / clean end: `FC`);
* `syn_deRaw` (under a failing reader every parser error is Syntax-classified), `win_deRaw` (every index lies within
  the input), `deRaw_good` (progress; never out of fuel), with their `rawSeq` / `rawMap` liftings.
-/
namespace SJ.Proofs.RawSim
open SJ SJ.Gen SJ.Model SJ.Model.Typed SJ.Model.RawNested SJ.Proofs.Typed
open SJ.Model.Machine (St init Src)
open SJ.Model.Stream (skipWs)

/-- `deRaw` as `skipWs`, the machine, then the UTF-8 check (`Res.bind` form) -/
theorem deRaw_eq (env : Env) (rest : Bytes) (pos : Nat) :
    deRaw env rest pos =
      (machine (ignEnv env) env.flt 0 init (skipWs rest pos).1 (skipWs rest pos).2).bind fun _ rest' e =>
        if env.src != .str && !Spec.Utf8.validUtf8 ((skipWs rest pos).1.take (e - (skipWs rest pos).2)) then
          .err .InvalidUnicodeCodePoint e
        else .ok (.str ((skipWs rest pos).1.take (e - (skipWs rest pos).2))) rest' e := by
  unfold deRaw
  generalize skipWs rest pos = x
  obtain ⟨r, p⟩ := x
  dsimp only
  cases machine (ignEnv env) env.flt 0 init r p <;> rfl

section sim
variable {e1 e2 : Env} {V : Bytes → Prop} {Q : {α : Type} → Res α → Res α → Prop} (S : Sim e1 e2 V Q)
include S

/-- the two runs of `deserialize_raw_value` -/
theorem sim_deRaw (hsrc : (e1.src != .str) = (e2.src != .str)) (rest : Bytes) (pos : Nat) (hv : V rest) :
    Q (deRaw e1 rest pos) (deRaw e2 rest pos) := by
  rw [deRaw_eq, deRaw_eq]
  have hm := S.mach .ignored 0 init (skipWs rest pos).1 (skipWs rest pos).2 (sim_skipWs S rest pos hv) (Or.inl rfl)
  refine sim_bind' S hm fun _ r p hr => ?_
  rw [hsrc]
  split
  · exact S.err _ _
  · exact S.ok _ _ _ hr

theorem sim_rawSeq (hsrc : (e1.src != .str) = (e2.src != .str)) (rest : Bytes) (pos : Nat) (hv : V rest) :
    Q (rawSeq e1 rest pos) (rawSeq e2 rest pos) := by
  unfold rawSeq
  refine sim_deSeq S 0 _ _ (fun r p hr => ?_) rest pos hv
  exact sim_map S _ (sim_seqLoop S _ _ (fun r' p' hr' => sim_deRaw S hsrc r' p' hr') _ _ _ _ _ hr)

theorem sim_rawMap (hsrc : (e1.src != .str) = (e2.src != .str)) (rest : Bytes) (pos : Nat) (hv : V rest) :
    Q (rawMap e1 rest pos) (rawMap e2 rest pos) := by
  unfold rawMap
  refine sim_deMap S 0 _ _ (fun r p hr => ?_) rest pos hv
  exact sim_map S _ (sim_mapLoop S .string _ _ (fun r' p' hr' => sim_deRaw S hsrc r' p' hr') _ _ _ _ _ hr)

end sim

/-! ## error classes under a failing reader -/

theorem syn_deRaw {env : Env} (hf : env.flt = true) (rest : Bytes) (pos : Nat) : Syn (deRaw env rest pos) := by
  rw [deRaw_eq]
  refine Syn.bind (by rw [hf]; exact syn_machine _ _ _ _ _) fun _ r p _ => ?_
  split
  · exact syn_err rfl
  · exact syn_ok

theorem syn_rawSeq {env : Env} (hf : env.flt = true) (rest : Bytes) (pos : Nat) : Syn (rawSeq env rest pos) := by
  unfold rawSeq
  exact syn_deSeq hf 0 _ (fun r p => (syn_seqLoop hf _ (syn_deRaw hf) _ _ _ _ _).map _) rest pos

theorem syn_rawMap {env : Env} (hf : env.flt = true) (rest : Bytes) (pos : Nat) : Syn (rawMap env rest pos) := by
  unfold rawMap
  exact syn_deMap hf 0 _ (fun r p => (syn_mapLoop hf .string _ (syn_deRaw hf) _ _ _ _ _).map _) rest pos

/-! ## positions lie within the input -/

theorem win_deRaw {env : Env} {N : Nat} (rest : Bytes) (pos : Nat) (h : pos + rest.length = N) : Win N (deRaw env rest pos) := by
  rw [deRaw_eq]
  have hs := skipWs_pos rest pos
  have hm : Win N (machine (ignEnv env) env.flt 0 init (skipWs rest pos).1 (skipWs rest pos).2) :=
    win_machine _ _ _ _ _ _ (by omega)
  refine hm.bind fun _ r p hr => ?_
  split
  · exact win_err (by omega)
  · exact win_ok hr

theorem win_rawSeq {env : Env} {N : Nat} (rest : Bytes) (pos : Nat) (h : pos + rest.length = N) : Win N (rawSeq env rest pos) := by
  unfold rawSeq
  exact win_deSeq 0 _ (fun r p hr => (win_seqLoop _ (fun r' p' hr' => win_deRaw r' p' hr') _ _ _ _ _ hr).map _) rest pos h

theorem win_rawMap {env : Env} {N : Nat} (rest : Bytes) (pos : Nat) (h : pos + rest.length = N) : Win N (rawMap env rest pos) := by
  unfold rawMap
  exact win_deMap 0 _ (fun r p hr => (win_mapLoop .string _ (fun r' p' hr' => win_deRaw r' p' hr') _ _ _ _ _ hr).map _) rest pos h

/-! ## progress -/

theorem deRaw_good (env : Env) : Good (deRaw env) := by
  intro rest pos
  rw [deRaw_eq]
  have hm := machine_shr (ignEnv env) env.flt 0 init startable_init (skipWs rest pos).1 (skipWs rest pos).2
  have : Shr (skipWs rest pos).1 (skipWs rest pos).2
      ((machine (ignEnv env) env.flt 0 init (skipWs rest pos).1 (skipWs rest pos).2).bind fun _ rest' e =>
        if env.src != .str && !Spec.Utf8.validUtf8 ((skipWs rest pos).1.take (e - (skipWs rest pos).2)) then
          (.err .InvalidUnicodeCodePoint e : TOut)
        else .ok (.str ((skipWs rest pos).1.take (e - (skipWs rest pos).2))) rest' e) := by
    refine hm.bind_le fun _ r p _ => ?_
    split
    · exact err_shr.le
    · exact ok_shrLe _ _ _
  exact shr_skip rfl this

theorem rawSeq_ne_fuel (env : Env) (rest : Bytes) (pos : Nat) : rawSeq env rest pos ≠ .fuel := by
  unfold rawSeq
  exact (deSeq_shr env 0 _ (fun r p => (seqLoop_le env _ (deRaw_good env) _ _ _ r p (by omega)).map _) rest pos).1

theorem rawMap_ne_fuel (env : Env) (rest : Bytes) (pos : Nat) : rawMap env rest pos ≠ .fuel := by
  unfold rawMap
  exact (deMap_shr env 0 _ (fun r p => (mapLoop_le env .string _ (deRaw_good env) _ _ _ r p (by omega)).map _) rest pos).1

end SJ.Proofs.RawSim
