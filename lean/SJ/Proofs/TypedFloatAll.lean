import SJ.Proofs.TypedFloatLink
import SJ.Proofs.LexTopExp
/-!
# `float_roundtrip`: every number literal read as `f64` / `f32` is the nearest-even value — no excluded class

`deNumber_nearest` (`c07_typed_nearest`) assumes a literal on the float path whose exponent passes the `i32` guard. The two
excluded classes are closed here:

* integer literals within `u64` / `i64`: de.rs hands `ParserNumber::U64/I64` to serde's float visitor, which casts
  (`v as f64`, `v as f32`: one IEEE rounding of the integer, `FromValue.intToF64/32` = `roundNE64/32 · n 1`) — the
  nearest-even value of the literal, rounded once also for `f32`;
* exponents beyond `i32`: `LexTopExp.exponentOverflow_eq_conv`.
-/
set_option linter.unusedSectionVars false
set_option linter.unusedVariables false

namespace SJ.Proofs.TypedFloatAll
open SJ SJ.Gen SJ.Model SJ.Model.Typed SJ.Model.Num SJ.Model.Lexical SJ.Spec.Ieee SJ.Proofs.NumInt
open SJ.Proofs.Ieee SJ.Proofs.LexSplit SJ.Proofs.LexTopFloat SJ.Proofs.LexTopSpec SJ.Proofs.LexTopParser SJ.Proofs.LexTopExp
open SJ.Model.FromValue (intToF32 intToF64 f64ToF32 numberF32 numberF64)
open SJ.Proofs.NumLink (PartsWF numOfNRes toNumLit)
open SJ.Proofs.TypedFloat

/-- an integer-class literal: its sign, magnitude, and exact value -/
theorem intClass_shape (p : Parts) (r0 : NRes) (hic : intClass p = some r0) :
    ∃ n : Nat, n < 2 ^ 64 ∧ (toNumLit p).exact = (n, 1) ∧
      ((p.neg = false ∧ r0 = .u64 n) ∨ (p.neg = true ∧ 0 < n ∧ r0 = .i64 (-(n : Int)))) := by
  unfold intClass at hic
  cases hf : p.frac with
  | some f => rw [hf] at hic; cases hic
  | none =>
    cases he : p.exp with
    | some e => rw [hf, he] at hic; cases hic
    | none =>
      rw [hf, he] at hic
      simp only [] at hic
      have hN : litN p = natOfDigits p.int := by simp [litN, hf]
      have hE : litE p = 0 := by simp [litE, litExp, he, hf]
      have hex : (toNumLit p).exact = (natOfDigits p.int, 1) := by
        rw [exact_eq_scale, hN, hE]
        simp [Spec.Decimal.scale10]
      refine ⟨natOfDigits p.int, ?_, hex, ?_⟩
      · cases hn : p.neg
        · rw [hn] at hic
          simp only [Bool.not_false, if_true] at hic
          split at hic
          · assumption
          · cases hic
        · rw [hn] at hic
          simp only [Bool.not_true, Bool.false_eq_true, if_false] at hic
          split at hic
          · cases hic
          · split at hic
            · have : natOfDigits p.int ≤ 2 ^ 63 := by assumption
              omega
            · cases hic
      · cases hn : p.neg
        · rw [hn] at hic
          simp only [Bool.not_false, if_true] at hic
          split at hic
          · left; exact ⟨rfl, by cases hic; rfl⟩
          · cases hic
        · rw [hn] at hic
          simp only [Bool.not_true, Bool.false_eq_true, if_false] at hic
          split at hic
          · cases hic
          · rename_i h0
            split at hic
            · right
              refine ⟨rfl, ?_, by cases hic; rfl⟩
              have : natOfDigits p.int ≠ 0 := by simpa using h0
              omega
            · cases hic

theorem not_overflows64_u64 (n : Nat) (hn : n < 2 ^ 64) : ¬ Overflows64 n 1 := by
  apply not_overflows64_of_lt
  have : (2 : Nat) ^ 64 ≤ 2 ^ 1023 := by decide +kernel
  omega

theorem not_overflows32_u64 (n : Nat) (hn : n < 2 ^ 64) : ¬ Overflows32 n 1 := by
  unfold Overflows32
  have : (2 : Nat) ^ 64 ≤ 2 ^ 128 - 2 ^ 103 := by decide
  omega

/-- `i as f64` / `i as f32` of an integer within `u64` / `i64` is the rounding of its value -/
theorem intTo_round (neg : Bool) (n : Nat) (hn : n < 2 ^ 64) (i : Int) (hi : i = if neg then -(n : Int) else n)
    (hpos : neg = true → 0 < n) :
    roundNE64 neg n 1 = some (intToF64 i) ∧ roundNE32 neg n 1 = some (intToF32 i) := by
  have hlt : decide (i < 0) = neg := by
    cases neg
    · simp only [Bool.false_eq_true, if_false] at hi; subst hi; simp
    · simp only [if_true] at hi; subst hi
      have := hpos rfl
      simp; omega
  have hab : i.natAbs = n := by
    cases neg
    · simp only [Bool.false_eq_true, if_false] at hi; subst hi; simp
    · simp only [if_true] at hi; subst hi; simp
  unfold intToF64 intToF32
  rw [hlt, hab]
  obtain ⟨x, hx, _⟩ := (roundNE64_correct neg n 1 Nat.one_pos).1 (not_overflows64_u64 n hn)
  obtain ⟨y, hy, _⟩ := (roundNE32_correct neg n 1 Nat.one_pos).1 (not_overflows32_u64 n hn)
  rw [hx, hy]
  exact ⟨rfl, rfl⟩

theorem visit_f64_int (env : Env) (N : Num) (i : Int) (hN : N = .pos i.toNat ∧ 0 ≤ i ∨ N = .neg i) (rest' : Bytes) (pos' : Nat) :
    fixPos env true (ofVisit (visitNumber .f64 N) rest' pos') = .ok (.f64 (intToF64 i)) rest' pos' := by
  rcases hN with ⟨rfl, h0⟩ | rfl
  · simp only [visitNumber, numberF64, Bool.false_eq_true, if_false, ofVisit, fixPos, Int.toNat_of_nonneg h0]
  · simp only [visitNumber, numberF64, Bool.false_eq_true, if_false, ofVisit, fixPos]

theorem visit_f32_int (env : Env) (N : Num) (i : Int) (hN : N = .pos i.toNat ∧ 0 ≤ i ∨ N = .neg i) (rest' : Bytes) (pos' : Nat) :
    fixPos env true (ofVisit (visitNumber .f32 N) rest' pos') = .ok (.f32 (intToF32 i)) rest' pos' := by
  rcases hN with ⟨rfl, h0⟩ | rfl
  · simp only [visitNumber, numberF32, Bool.false_eq_true, if_false, ofVisit, fixPos, Int.toNat_of_nonneg h0]
  · simp only [visitNumber, numberF32, Bool.false_eq_true, if_false, ofVisit, fixPos]

/-- **`float_roundtrip`, typed `f64` / `f32` targets, every literal.** -/
theorem deNumber_nearest_all (env : Env) (hfr : env.cfg.fr = true) (b : UInt8) (r : Bytes) (p0 : Nat) (parts : Parts)
    (rest' : Bytes) (pos' : Nat) (hb : isNumStart b = true) (hlen : (b :: r).length + 20 < 2 ^ 29)
    (hsc : scanNumber env (b :: r) p0 = .ok parts rest' pos') :
    deNumber env .f64 (b :: r) p0 =
      (match roundNE64 parts.neg (toNumLit parts).exact.1 (toNumLit parts).exact.2 with
       | some x => .ok (.f64 x) rest' pos'
       | none => .err .NumberOutOfRange (peekErrorIdx rest' pos')) ∧
    deNumber env .f32 (b :: r) p0 =
      (match roundNE32 parts.neg (toNumLit parts).exact.1 (toNumLit parts).exact.2 with
       | some x => .ok (.f32 x) rest' pos'
       | none => .err .NumberOutOfRange (peekErrorIdx rest' pos')) := by
  have hpw := scanNumber_partsWF env _ _ _ _ _ hsc
  have hl := scanNumber_len env _ _ _ _ _ hsc
  have hlen' : (parts.int ++ parts.frac.getD []).length + 20 < 2 ^ 29 := by omega
  have wf := wf_of_scan parts hpw hlen'
  cases hic : intClass parts with
  | none =>
    constructor
    · rw [deNumber_of_scan env .f64 b r p0 parts rest' pos' hb hlen hsc]
      unfold typedNumber
      simp only [hfr, if_true, show (NumTy.f64 == NumTy.f32) = false from rfl]
      rw [deFloat64_nearest_all parts wf hlen' hic]
      cases roundNE64 parts.neg _ _ <;> rfl
    · rw [deNumber_of_scan env .f32 b r p0 parts rest' pos' hb hlen hsc]
      unfold typedNumber
      simp only [hfr, if_true, show (NumTy.f32 == NumTy.f32) = true from rfl]
      rw [deFloat32_nearest_all parts wf hlen' hic]
      cases hr : roundNE32 parts.neg _ _ with
      | none => rfl
      | some x =>
        simp only [numOfNRes, visitNumber, numberF32, Bool.false_eq_true, if_false, ofVisit, fixPos]
        rw [toF32_widen _ _ _ x hr]
  | some r0 =>
    obtain ⟨n, hn, hex, hcase⟩ := intClass_shape parts r0 hic
    have hde : ∀ single, deFloatRoundtrip single parts = r0 := by
      intro single; rw [deFloat_eq single _ wf hlen', specG_eq, hic]
    -- the integer the visitor receives
    obtain ⟨i, hi, hNum⟩ : ∃ i : Int, (i = if parts.neg then -(n : Int) else n) ∧
        ∃ N, numOfNRes r0 = some N ∧ (N = .pos i.toNat ∧ 0 ≤ i ∨ N = .neg i) := by
      rcases hcase with ⟨hneg, rfl⟩ | ⟨hneg, hpos, rfl⟩
      · exact ⟨n, by rw [hneg]; rfl, .pos n, rfl, Or.inl ⟨by simp, by omega⟩⟩
      · exact ⟨-(n : Int), by rw [hneg]; rfl, .neg (-(n : Int)), rfl, Or.inr rfl⟩
    obtain ⟨N, hN, hshape⟩ := hNum
    have hposn : parts.neg = true → 0 < n := by
      rcases hcase with ⟨hneg, _⟩ | ⟨_, hpos, _⟩
      · intro h; rw [hneg] at h; cases h
      · exact fun _ => hpos
    obtain ⟨h64, h32⟩ := intTo_round parts.neg n hn i hi hposn
    have v64 := visit_f64_int env N i hshape rest' pos'
    have v32 := visit_f32_int env N i hshape rest' pos'
    generalize intToF64 i = x at h64 v64
    generalize intToF32 i = y at h32 v32
    have e1 : (toNumLit parts).exact.1 = n := by rw [hex]
    have e2 : (toNumLit parts).exact.2 = 1 := by rw [hex]
    rw [e1, e2, h64, h32]
    constructor
    · rw [deNumber_of_scan env .f64 b r p0 parts rest' pos' hb hlen hsc]
      unfold typedNumber
      rw [if_pos hfr, hde, hN]
      exact v64
    · rw [deNumber_of_scan env .f32 b r p0 parts rest' pos' hb hlen hsc]
      unfold typedNumber
      rw [if_pos hfr, hde, hN]
      exact v32

end SJ.Proofs.TypedFloatAll
