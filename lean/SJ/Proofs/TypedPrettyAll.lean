import SJ.Proofs.TypedPrettyEnum
/-!
# The text leg on a layout of a value, assembled (`agree_gen_L`): the typed deserializer on the text EITHER formatter writes
# for a value — compact, or pretty with a whitespace indent — returns what `from_value` returns

As `agree_gen` (`Proofs/TypedAgreeAll.lean`), for `TL ext L d v` in place of `T ext v`. Two side conditions reflect what is
not treated for a general layout: a struct is not given as an array (`hSA`), and without `deny_unknown_fields` every member
of an object read as a struct names a field (`hKn`: an unknown member would go through `ignore_value`) — both hold for what
`Serialize` writes.
-/
set_option linter.unusedSectionVars false
set_option linter.unusedVariables false

namespace SJ.Proofs.TypedPretty
open SJ SJ.Gen SJ.Model SJ.Model.Typed
open SJ.Model.Stream (skipWs)
open SJ.Spec.Image (render imageOfValue cstOf quote)
open SJ.Proofs.Typed
open SJ.Proofs.Complete (numCont Side)

variable (ext : Spec.Program.Ext) (L : Lay)

/-! ## scalars targets on a container: refused, whatever the layout -/

/-- the parser refuses a text that starts with `[` or `{` -/
def NoBracket (de : Bytes → Nat → TOut) : Prop :=
  ∀ (c : UInt8), (c = 0x5b ∨ c = 0x7b) → ∀ tl pos x r p, de (c :: tl) pos ≠ .ok x r p

section
variable {env : Env}

theorem noBracket_deBool : NoBracket (deBool env) := by
  intro c hc tl pos x r p
  unfold deBool
  rcases hc with rfl | rfl <;>
    (rw [withPeek_cons env _ (by decide)]; simp only [show ∀ a b : UInt8, (a == b) = decide (a = b) from fun _ _ => rfl]; simp;
     exact peekInvalidType_not_ok _ _ _ _ _ _)

theorem noBracket_deUnit : NoBracket (deUnit env) := by
  intro c hc tl pos x r p
  unfold deUnit
  rcases hc with rfl | rfl <;>
    (rw [withPeek_cons env _ (by decide)]; simp only [show ∀ a b : UInt8, (a == b) = decide (a = b) from fun _ _ => rfl]; simp;
     exact peekInvalidType_not_ok _ _ _ _ _ _)

theorem noBracket_deNumber (ty : NumTy) : NoBracket (deNumber env ty) := by
  intro c hc tl pos x r p
  unfold deNumber
  rcases hc with rfl | rfl <;>
    (rw [withPeek_cons env _ (by decide)]; simp only [show isNumStart 0x5b = false by decide, show isNumStart 0x7b = false by decide,
      Bool.false_eq_true, if_false]; exact peekInvalidType_not_ok _ _ _ _ _ _)

theorem noBracket_deInt (w : IntTy) : NoBracket (deInt env w) := by
  intro c hc tl pos x r p
  unfold deInt
  split
  · unfold deInt128
    rcases hc with rfl | rfl <;>
      (rw [withPeek_cons env _ (by decide)]
       simp only [show ∀ a b : UInt8, (a == b) = decide (a = b) from fun _ _ => rfl]
       simp [scanInteger128, Machine.isDigit, Res.bind])
  · exact noBracket_deNumber _ c hc tl pos x r p

theorem noBracket_deStr (visit : Bytes → FromValue.R) : NoBracket (deStr env visit) := by
  intro c hc tl pos x r p
  unfold deStr
  rcases hc with rfl | rfl <;>
    (rw [withPeek_cons env _ (by decide)]; simp only [show ∀ a b : UInt8, (a == b) = decide (a = b) from fun _ _ => rfl]; simp;
     exact peekInvalidType_not_ok _ _ _ _ _ _)

end

variable (hext : Spec.Program.ExtOK ext)
include hext

/-- a scalar target: the compact lemma on scalars, refusal on containers -/
theorem agree_scalar_L {de : Bytes → Nat → TOut} (hnb : NoBracket de) (fv : JV → FromValue.R)
    (hfa : ∀ xs, fv (.arr xs) = FromValue.fail) (hfo : ∀ kvs, fv (.obj kvs) = FromValue.fail)
    (d : Nat) (v : JV) (hv : VOK v) (h : (∀ xs, v ≠ .arr xs) → (∀ kvs, v ≠ .obj kvs) → Agree1 de (fv v) (T ext v)) :
    Agree1 de (fv v) (TL ext L d v) := by
  cases v with
  | arr xs =>
    intro rest pos hs
    obtain ⟨c, tl, hT, hc⟩ := TL_head ext L hext d (.arr xs) hv
    rw [hfa]
    simp only [FromValue.fail]
    intro x r p
    rw [hT]
    cases hc
    exact hnb _ (.inl rfl) _ _ x r p
  | obj kvs =>
    intro rest pos hs
    obtain ⟨c, tl, hT, hc⟩ := TL_head ext L hext d (.obj kvs) hv
    rw [hfo]
    simp only [FromValue.fail]
    intro x r p
    rw [hT]
    cases hc
    exact hnb _ (.inr rfl) _ _ x r p
  | null =>
    rw [TL_scalar ext L d _ (fun _ h => by cases h) (fun _ h => by cases h)]
    exact h (fun _ h => by cases h) (fun _ h => by cases h)
  | bool b =>
    rw [TL_scalar ext L d _ (fun _ h => by cases h) (fun _ h => by cases h)]
    exact h (fun _ h => by cases h) (fun _ h => by cases h)
  | num n =>
    rw [TL_scalar ext L d _ (fun _ h => by cases h) (fun _ h => by cases h)]
    exact h (fun _ h => by cases h) (fun _ h => by cases h)
  | str s =>
    rw [TL_scalar ext L d _ (fun _ h => by cases h) (fun _ h => by cases h)]
    exact h (fun _ h => by cases h) (fun _ h => by cases h)

/-! ## `IgnoredAny` and `Value` targets: the machine on the layout's text -/

omit hext in
theorem isWs_eq (b : UInt8) : Machine.isWs b = Spec.Grammar.isWs b := by
  simp only [Machine.isWs, Gen.wsBytes, Spec.Grammar.isWs, List.contains_cons, List.contains_nil, Bool.or_false]
  cases h1 : (b == 0x20) <;> cases h2 : (b == 0x0a) <;> cases h3 : (b == 0x09) <;> cases h4 : (b == 0x0d) <;> rfl

omit hext in
theorem ws_of_wsB {W : Bytes} (h : WsB W) : Spec.Grammar.Ws W := by
  unfold Spec.Grammar.Ws
  rw [List.all_eq_true]
  intro c hc
  rw [← isWs_eq]; exact h c hc

omit hext in
theorem wsB_of_ws {W : Bytes} (h : Spec.Grammar.Ws W) : WsB W := by
  intro c hc
  unfold Spec.Grammar.Ws at h
  rw [List.all_eq_true] at h
  rw [isWs_eq]; exact h c hc

theorem TL_derives (d : Nat) (v : JV) (hv : shapeW v = true) :
    Spec.Grammar.Derives (TL ext L d v) (cstOf (imageOfValue ext v)) := by
  have hl := valueLitsOK_of_shapeW v hv
  have hw := SJ.Proofs.SerImage.image_wf ext hext _ _ (SJ.Proofs.SerValue.ofValue_wf v hl) (SJ.Proofs.SerValue.image_ofValue ext v)
  exact SJ.Proofs.SerLayout.derives_layout L.sep L.gap (fun n => ws_of_wsB (L.hsep n)) (ws_of_wsB L.hgap) _ d hw

omit hext in
theorem follow_of_sep {rest : Bytes} (hs : SepOK rest) (t : Spec.Grammar.CST) :
    (∃ q, t = .num q) → ∀ d r', rest = d :: r' → numCont d = false := by
  intro _ d r' hr
  rcases hs with rfl | ⟨c, tl, rfl, hc⟩
  · cases hr
  · cases hr
    rcases hc with rfl | rfl | rfl | rfl | hw
    · decide
    · decide
    · decide
    · decide
    · rcases isWs_cases hw with rfl | rfl | rfl | rfl <;> decide

/-- `ignore_value` on the text of a value in the layout -/
theorem ignoreValue_TL (env : Env) (hflt : env.flt = false) (d : Nat) (v : JV) (hv : shapeW v = true) (rest : Bytes) (pos : Nat)
    (hs : SepOK rest) : ignoreValue env (TL ext L d v ++ rest) pos = .ok () rest (pos + (TL ext L d v).length) :=
  ignoreValue_text env hflt _ _ (TL_derives ext L hext d v hv) rest pos (follow_of_sep hs _)

/-- `Value` targets -/
theorem agree_any_L {env : Env} (hflt : env.flt = false) (cfg' : FromValue.Cfg) (hap : cfg'.ap = false) (ext' : FromValue.Ext)
    (d f t : Nat) (v : JV) (hv : VOK v) (hd : DepthOK env t v)
    (hs : Spec.WF.shapeOK (SJ.Proofs.CanonM.specCfg env.cfg) v = true)
    (hF : Spec.WF.floatsRT (SJ.Proofs.CanonM.specCfg env.cfg) ext v = true) :
    Agree1 (deTyped env (f + 1) t .any) (FromValue.fromValue cfg' ext' .any v) (TL ext L d v) := by
  intro rest pos hsep
  have hfv : FromValue.fromValue cfg' ext' .any v = .ok (.any v) := by
    simp [FromValue.fromValue, SJ.Proofs.FromValue.rebuild_id cfg' ext' hap v (finiteFloats_of_shapeW v hv)]
  rw [hfv]
  simp only
  rw [deTyped_any]
  simp only [hflt]
  have hsU : Spec.WF.shapeOK (SJ.Proofs.CanonM.specCfg (unlim (valEnv env)).cfg) v = true := by
    rw [shapeOK_congr (SJ.Proofs.CanonM.specCfg (unlim (valEnv env)).cfg) (SJ.Proofs.CanonM.specCfg env.cfg) rfl rfl v]; exact hs
  have hFU : Spec.WF.floatsRT (SJ.Proofs.CanonM.specCfg (unlim (valEnv env)).cfg) ext v = true := by
    rw [floatsRT_congr (SJ.Proofs.CanonM.specCfg (unlim (valEnv env)).cfg) (SJ.Proofs.CanonM.specCfg env.cfg) rfl rfl ext v]; exact hF
  have hside : Side (valEnv env) t (cstOf (imageOfValue ext v)) := side_image ext hext (valEnv env) t v hs hF hd
  have hsideU : Side (unlim (valEnv env)) 0 (cstOf (imageOfValue ext v)) :=
    side_image ext hext (unlim (valEnv env)) 0 v hsU hFU (.inl rfl)
  obtain ⟨val, hres, hm⟩ := machine_complete_pad (valEnv env) t (TL ext L d v) _ (TL_derives ext L hext d v hv) hside hsideU rest pos
    (follow_of_sep hsep _)
  have hc := SJ.Proofs.RoundTrip.canonM_image (unlim (valEnv env)).cfg ext hext v hsU hFU
  have := hres.1 rfl
  rw [hc] at this
  cases this
  rw [hm]
  rfl

/-! ## the main induction -/

omit hext in
theorem tupAgreeL_of_tupR (R : Schema → JV → Prop) (d : Nat) (de : Schema → Bytes → Nat → TOut) (fv : Schema → JV → FromValue.R) :
    ∀ (ss : List Schema) (xs : List JV), (∀ s ∈ ss, ∀ x ∈ xs, R s x → Agree1 (de s) (fv s x) (TL ext L d x)) → TupR R ss xs →
      TupAgreeL ext L d de fv ss xs
  | [], _, _, _ => trivial
  | _ :: _, [], _, _ => trivial
  | s :: ss, x :: xs, h, hr => ⟨h s (by simp) x (by simp) hr.1,
      tupAgreeL_of_tupR R d de fv ss xs (fun s' hs' x' hx' => h s' (by simp [hs']) x' (by simp [hx'])) hr.2⟩

variable {a : Bool}

/-- **the text leg on a layout**: see the module doc -/
theorem agree_gen_L {env : Env} (hflt : env.flt = false) (hapE : env.cfg.ap = false) (cfg' : FromValue.Cfg) (hap : cfg'.ap = false)
    (ext' : FromValue.Ext) (R : Schema → JV → Prop) (hR : Closed R)
    (hAny : a = true → ∀ v, R .any v → Spec.WF.shapeOK (SJ.Proofs.CanonM.specCfg env.cfg) v = true)
    (hInt : ∀ w v, R (.int w) v → is128 w = true → ∀ b, v ≠ .num (.float b))
    (hF64 : ∀ v, R .f64 v → SJ.Proofs.TypedFloat.IntRangeOK v)
    (hSA : ∀ fs dn xs, ¬ R (.struct_ fs dn) (.arr xs))
    (hKn : ∀ fs kvs, R (.struct_ fs false) (.obj kvs) → ∀ kv ∈ kvs, FromValue.nameIndex (fieldNames fs) kv.1 ≠ none) :
    ∀ (f : Nat) (s : Schema), Schema.size s ≤ f → fragP a s = true →
      ∀ (t d : Nat) (v : JV), VOK v → Spec.WF.floatsRT (SJ.Proofs.CanonM.specCfg env.cfg) ext v = true → DepthOK env t v → R s v →
      Agree1 (deTyped env f t s) (FromValue.fromValue cfg' ext' s v) (TL ext L d v) := by
  intro f
  induction f with
  | zero => intro s hs; have := size_pos s; omega
  | succ f ih =>
    intro s hs hfr t d v hv hF hd hr
    -- scalars: the compact leaf lemma for this (schema, value)
    cases s with
    | bool =>
      rw [deTyped_bool]
      exact agree_scalar_L ext L hext noBracket_deBool (FromValue.fromValue cfg' ext' .bool) (fun _ => rfl) (fun _ => rfl) d v hv
        (fun _ _ => agree_bool ext hext hflt cfg' hap ext' v hv)
    | int w =>
      rw [deTyped_int]
      refine agree_scalar_L ext L hext (noBracket_deInt w) (FromValue.fromValue cfg' ext' (.int w)) (fun _ => rfl) (fun _ => rfl) d v hv
        (fun _ _ => agree_int ext hext hflt cfg' hap ext' w v hv fun b hb rest pos hs => ?_)
      subst hb
      by_cases h128 : is128 w = true
      · exact absurd rfl (hInt w _ hr h128 b)
      · exact SJ.Proofs.TypedFloat.int_float_refused hflt hapE ext hext w h128 b (by simpa [VOK, shapeW, wfNumW] using hv)
          (by simpa [Spec.WF.floatsRT] using hF) rest pos hs
    | f64 =>
      rw [deTyped_f64]
      exact agree_scalar_L ext L hext (noBracket_deNumber _) (FromValue.fromValue cfg' ext' .f64) (fun _ => rfl) (fun _ => rfl) d v hv
        (fun _ _ => SJ.Proofs.TypedFloat.agree_f64 hflt hapE cfg' hap ext' ext hext v hv hF (hF64 v hr))
    | unit =>
      rw [deTyped_unit]
      exact agree_scalar_L ext L hext noBracket_deUnit (FromValue.fromValue cfg' ext' .unit) (fun _ => rfl) (fun _ => rfl) d v hv
        (fun _ _ => agree_unit ext hext hflt cfg' hap ext' v hv)
    | unitStruct =>
      rw [deTyped_unitStruct]
      exact agree_scalar_L ext L hext noBracket_deUnit (FromValue.fromValue cfg' ext' .unitStruct) (fun _ => rfl) (fun _ => rfl) d v hv
        (fun _ _ => by simpa [FromValue.fromValue] using agree_unit ext hext hflt cfg' hap ext' v hv)
    | char =>
      rw [deTyped_char]
      exact agree_scalar_L ext L hext (noBracket_deStr _) (FromValue.fromValue cfg' ext' .char) (fun _ => rfl) (fun _ => rfl) d v hv
        (fun _ _ => agree_char ext hext hflt cfg' hap ext' v hv)
    | string =>
      rw [deTyped_string]
      exact agree_scalar_L ext L hext (noBracket_deStr _) (FromValue.fromValue cfg' ext' .string) (fun _ => rfl) (fun _ => rfl) d v hv
        (fun _ _ => agree_string ext hext hflt cfg' hap ext' v hv)
    | bytes =>
      rw [deTyped_bytes]
      refine agree_bytes_L ext L hext hflt cfg' hap ext' d t v hv hd fun xs hxs x hx b hb rest pos hs => ?_
      subst hxs; subst hb
      exact SJ.Proofs.TypedFloat.int_float_refused hflt hapE ext hext .u8 (by decide) b
        (by simpa [VOK, shapeW, wfNumW] using vok_elem xs _ hx hv)
        (by simpa [Spec.WF.floatsRT] using frt_elem _ _ xs _ hx (by simpa [Spec.WF.floatsRT] using hF)) rest pos hs
    | ignored =>
      rw [deTyped_ignored]
      intro rest pos hsep
      simp only [FromValue.fromValue]
      rw [ignoreValue_TL ext L hext env hflt d v hv rest pos hsep]
      rfl
    | newtype s' =>
      rw [deTyped_newtype]
      have := ih s' (by simp only [Schema.size] at hs; omega) (by simpa [fragP] using hfr) t d v hv hF hd (hR.newtype s' v hr)
      simpa [FromValue.fromValue] using this
    | option s' =>
      exact agree_option_L ext L hflt cfg' hap ext' d s' f t v hv
        (fun hnn => ih s' (by simp only [Schema.size] at hs; omega) (by simpa [fragP] using hfr) t d v hv hF hd (hR.option s' v hr hnn))
        (TL_head ext L hext d v hv)
    | seq s' =>
      refine agree_seq_L ext L hext hflt cfg' hap ext' d s' f t v hv hd fun xs hxs x hx => ?_
      subst hxs
      exact ih s' (by simp only [Schema.size] at hs; omega) (by simpa [fragP] using hfr) (t + 1) (d + 1) x (vok_elem xs x hx hv)
        (frt_elem _ _ xs x hx (by simpa [Spec.WF.floatsRT] using hF)) (depthOK_elem t xs x hx hd) (hR.seq s' xs hr x hx)
    | tuple ss =>
      refine agree_tuple_L ext L hext hflt cfg' hap ext' d ss f t v hv hd fun xs hxs => ?_
      subst hxs
      refine tupAgreeL_of_tupR ext L R (d + 1) _ _ ss xs (fun s' hs' x hx hrx => ?_) (hR.tuple ss xs hr)
      have hsz := size_mem_list ss s' hs'
      exact ih s' (by simp only [Schema.size] at hs; omega) (agreeFrag2_mem ss s' hs' (by simpa [fragP] using hfr)) (t + 1) (d + 1) x
        (vok_elem xs x hx hv) (frt_elem _ _ xs x hx (by simpa [Spec.WF.floatsRT] using hF)) (depthOK_elem t xs x hx hd) hrx
    | map k s' =>
      have hfr' : keyFrag k = true ∧ fragP a s' = true := by simpa [fragP] using hfr
      refine agree_map_L ext L hext hflt cfg' hap ext' d k (keyAgree_frag ext hext hflt k hfr'.1) s' f t v hv hd fun kvs hkvs kv hx => ?_
      subst hkvs
      exact ih s' (by simp only [Schema.size] at hs; omega) hfr'.2 (t + 1) (d + 1) kv.2
        (vok_member kvs kv hx hv).2 (frt_member _ _ kvs kv hx (by simpa [Spec.WF.floatsRT] using hF))
        (depthOK_member t kvs kv hx hd) (hR.map k s' kvs hr kv hx)
    | struct_ fs deny =>
      have hfr' : fragPFields a fs = true := by simpa [fragP] using hfr
      have hsize : ∀ s' ∈ fs.map (·.2), Schema.size s' ≤ f := by
        intro s' hs'
        obtain ⟨fld, hfld, rfl⟩ := List.mem_map.mp hs'
        have := size_mem_fields fs fld hfld
        simp only [Schema.size] at hs; omega
      refine agree_struct_L ext L hext hflt cfg' hap ext' d fs deny f t v hv hd
        (fun xs hxs => hSA fs deny xs (hxs ▸ hr)) (fun hdn kvs hkvs kv hkv => hKn fs kvs (by rw [← hkvs, ← hdn]; exact hr) kv hkv) ?_
      intro kvs hkvs kv hx i nm s' hni hfi
      subst hkvs
      have hs' : s' ∈ fs.map (·.2) := List.mem_map.mpr ⟨(nm, s'), List.mem_of_getElem? hfi, rfl⟩
      exact ih s' (hsize s' hs') (agreeFrag2_mem_fields fs s' hs' hfr') (t + 1) (d + 1) kv.2 (vok_member kvs kv hx hv).2
        (frt_member _ _ kvs kv hx (by simpa [Spec.WF.floatsRT] using hF))
        (depthOK_member t kvs kv hx hd) (hR.structObj fs deny kvs hr kv hx i nm s' hni hfi)
    | enum_ vs =>
      have hfr' : fragPVariants a vs = true := by simpa [fragP] using hfr
      refine agree_enum_L ext L hext hflt cfg' hap ext' d vs f t v hv hd ?_ ?_
      · intro k x kvs hkvs sh hmem
        subst hkvs
        have hshf := agreeFrag2_mem_variants vs k sh hmem hfr'
        have hshsz := size_mem_variants vs (k, sh) hmem
        have hrsh := hR.enumPayload vs k x kvs hr sh hmem
        have hvk := (vok_member ((k, x) :: kvs) (k, x) (by simp) hv).2
        have hdk := depthOK_member t ((k, x) :: kvs) (k, x) (by simp) hd
        have hfk := frt_member _ _ ((k, x) :: kvs) (k, x) (by simp) (by simpa [Spec.WF.floatsRT] using hF)
        simp only at hvk hdk hfk
        have hszs : ∀ s' ∈ shapeSchemas sh, Schema.size s' ≤ f := by
          intro s' hs'
          have := size_shape sh s' hs'
          simp only [Schema.size] at hs
          simp only at hshsz
          omega
        cases sh with
        | unit =>
          simp only [dePayload, payloadFV]
          have hcu := agree_unit ext hext hflt cfg' hap ext' x hvk
          exact agree_scalar_L ext L hext noBracket_deUnit (FromValue.fromValue cfg' ext' .unit) (fun _ => rfl) (fun _ => rfl) (d + 1) x hvk
            (fun _ _ => hcu)
        | newtype s' =>
          simp only [dePayload, payloadFV]
          exact ih s' (hszs s' (by simp [shapeSchemas])) (by simpa [fragPShape] using hshf) (t + 1) (d + 1) x hvk hfk hdk hrsh
        | tuple ss =>
          have hfl : fragPList a ss = true := by
            have : (!ss.isEmpty && fragPList a ss) = true := by simpa [fragPShape] using hshf
            simp only [Bool.and_eq_true] at this; exact this.2
          have : dePayload env (t + 1) (deTyped env f) (.tuple ss) = deTyped env (f + 1) (t + 1) (.tuple ss) := by
            rw [deTyped_tuple]; rfl
          rw [this]
          simp only [payloadFV]
          refine agree_tuple_L ext L hext hflt cfg' hap ext' (d + 1) ss f (t + 1) x hvk hdk fun xs hxs => ?_
          subst hxs
          refine tupAgreeL_of_tupR ext L R (d + 1 + 1) _ _ ss xs (fun s' hs' x' hx' hrx => ?_) (hR.tuple ss xs hrsh)
          exact ih s' (hszs s' (by simpa [shapeSchemas] using hs')) (agreeFrag2_mem ss s' hs' hfl) (t + 1 + 1) (d + 1 + 1) x'
            (vok_elem xs x' hx' hvk) (frt_elem _ _ xs x' hx' (by simpa [Spec.WF.floatsRT] using hfk))
            (depthOK_elem (t + 1) xs x' hx' hdk) hrx
        | struct_ fs =>
          have hff : fragPFields a fs = true := by simpa [fragPShape] using hshf
          have : dePayload env (t + 1) (deTyped env f) (.struct_ fs) = deTyped env (f + 1) (t + 1) (.struct_ fs false) := by
            rw [deTyped_struct]; rfl
          rw [this]
          simp only [payloadFV]
          refine agree_struct_L ext L hext hflt cfg' hap ext' (d + 1) fs false f (t + 1) x hvk hdk
            (fun xs hxs => hSA fs false xs (hxs ▸ hrsh)) (fun _ kvs' hkvs' kv hkv => hKn fs kvs' (hkvs' ▸ hrsh) kv hkv) ?_
          intro kvs' hkvs' kv' hx' i nm s' hni hfi
          subst hkvs'
          have hs' : s' ∈ fs.map (·.2) := List.mem_map.mpr ⟨(nm, s'), List.mem_of_getElem? hfi, rfl⟩
          exact ih s' (hszs s' (by simpa [shapeSchemas] using hs')) (agreeFrag2_mem_fields fs s' hs' hff) (t + 1 + 1) (d + 1 + 1) kv'.2
            (vok_member kvs' kv' hx' hvk).2 (frt_member _ _ kvs' kv' hx' (by simpa [Spec.WF.floatsRT] using hfk))
            (depthOK_member (t + 1) kvs' kv' hx' hdk)
            (hR.structObj fs false kvs' hrsh kv' hx' i nm s' hni hfi)
      · intro k x hkx sh hmem
        subst hkx
        exact shapeDe_eq_payloadFV cfg' ext' sh x (agreeFrag2_mem_variants vs k sh hmem hfr')
          (fun fs hfs xs => hR.enumExcl vs k x hr fs (hfs ▸ hmem) xs)
    | any =>
      have ha : a = true := by simpa [fragP] using hfr
      exact agree_any_L ext L hext hflt cfg' hap ext' d f t v hv hd (hAny ha v hr) hF
    | f32 => simp [fragP] at hfr

end SJ.Proofs.TypedPretty
