import SJ.Proofs.LexTopFloat
import SJ.Proofs.NumLinkParser
/-!
# C07 top level, part 4: the result in the vocabulary of the independent specification

* `toNumLit p` (`Spec.Decimal.NumLit`) has `sigVal = litN p`, `netExp = litE p`, so `exact = scale10 (litN p) (litE p)`;
* on the float path (not an integer, exponent digits within `i32`) the result of `deFloatRoundtrip` is
  `roundNE64` / `roundNE32` (`Spec.Ieee`) of that exact value — hence `IsNearestEven64/32` or an overflow;
* `PartsWF` (what the byte machine's scanner guarantees) gives `LexSplit.WF`.
-/
namespace SJ.Proofs.LexTopSpec
open SJ SJ.Gen SJ.Model.Lexical SJ.Model.Num SJ.Spec.Ieee SJ.Spec.Decimal
open SJ.Proofs.Ieee SJ.Proofs.LexRound SJ.Proofs.LexBh SJ.Proofs.LexFast SJ.Proofs.LexSplit SJ.Proofs.NumInt
open SJ.Proofs.LexCorrect SJ.Proofs.LexTopFloat
open SJ.Proofs.NumLink (PartsWF toNumLit)

theorem digitsVal_eq (ds : Bytes) : digitsVal ds = natOfDigits ds := rfl

theorem sigVal_eq (p : Parts) : (toNumLit p).sigVal = litN p := rfl

theorem netExp_eq (p : Parts) : (toNumLit p).netExp = litE p := by
  unfold NumLit.netExp NumLit.expVal toNumLit litE litExp
  cases hexp : p.exp with
  | none => simp [digitsVal]
  | some e =>
    obtain ⟨en, eds⟩ := e
    simp only [Option.map_some, Option.getD_some, digitsVal_eq]

theorem exact_eq_scale (p : Parts) : (toNumLit p).exact = scale10 (litN p) (litE p) := by
  unfold NumLit.exact
  rw [sigVal_eq, netExp_eq]

theorem scale10_den_pos (N : Nat) (E : Int) : 0 < (scale10 N E).2 := by
  unfold scale10
  split
  · exact Nat.one_pos
  · exact Nat.pos_of_ne_zero (by simp)

/-- the scaled fraction of `LexBh` and the pair of `Spec.Decimal.scale10` denote the same rounding -/
theorem roundMag_scale (F : Fmt) (N : Nat) (E : Int) :
    roundMag F ((scale10 N E).1 * 2 ^ F.qexp) (scale10 N E).2 = roundMag F (dNum F N E) (dDen E) := by
  unfold scale10 dNum dDen
  by_cases hE : E ≥ 0
  · rw [if_pos hE]
    have : (-E).toNat = 0 := by omega
    rw [this]; rfl
  · rw [if_neg hE]
    have : E.toNat = 0 := by omega
    rw [this, Nat.pow_zero, Nat.mul_one]

theorem finish64_roundNE (neg : Bool) (N : Nat) (E : Int) :
    finish64 neg (roundMag b64 (dNum b64 N E) (dDen E)) =
      match roundNE64 neg (scale10 N E).1 (scale10 N E).2 with
      | some b => .f64 b
      | none => .outOfRange := by
  rw [SJ.Proofs.LexBridge.roundNE64_bridge, roundBits_of b64 neg _ _ _ (roundMag_scale b64 N E)]
  unfold finish64
  by_cases hlt : roundMag b64 (dNum b64 N E) (dDen E) < b64.infBits
  · rw [if_pos hlt, if_pos hlt]; rfl
  · rw [if_neg hlt, if_neg hlt]; rfl

theorem finish32_roundNE (neg : Bool) (N : Nat) (E : Int) :
    finish32 neg (roundMag b32 (dNum b32 N E) (dDen E)) =
      match roundNE32 neg (scale10 N E).1 (scale10 N E).2 with
      | some b => .f64 (F32.toF64 b)
      | none => .outOfRange := by
  rw [SJ.Proofs.LexCorrect.roundNE32_eq, roundBits_of b32 neg _ _ _ (roundMag_scale b32 N E)]
  unfold finish32
  by_cases hlt : roundMag b32 (dNum b32 N E) (dDen E) < b32.infBits
  · rw [if_pos hlt, if_pos hlt]; rfl
  · rw [if_neg hlt, if_neg hlt]; rfl

/-- `convG` for every literal, zero included -/
theorem convG_all (single : Bool) (p : Parts) :
    convG single p = finishG single p.neg
      (roundMag (fmtOf single) (dNum (fmtOf single) (litN p) (litE p)) (dDen (litE p))) := by
  by_cases h0 : litN p = 0
  · rw [convG_zero single p h0, h0]
    unfold dNum
    simp only [Nat.zero_mul, roundMag_zero]
    rw [finishG_zero]
  · exact convG_eq single p h0

/-- on the float path the specification is `convG` -/
theorem specG_float (single : Bool) (p : Parts) (hic : intClass p = none) (hfit : ExpFits p) :
    specG single p = convG single p := by
  rw [specG_eq, hic]
  simp only []
  cases hexp : p.exp with
  | none => rfl
  | some e' =>
    obtain ⟨en, eds⟩ := e'
    simp only []
    rw [hfit en eds hexp]
    simp

/-- on an exponent beyond `i32` the specification is `parse_exponent_overflow` -/
theorem specG_overflow (single : Bool) (p : Parts) (en : Bool) (eds : Bytes) (hexp : p.exp = some (en, eds))
    (hov : expOverflows eds = true) :
    specG single p = exponentOverflow (!p.neg) ((p.int ++ p.frac.getD []).all (· == 0x30)) (!en) := by
  have hic : intClass p = none := by unfold intClass; rw [hexp]; cases p.frac <;> rfl
  rw [specG_eq, hic]
  simp only [hexp, hov, if_true]

/-- what the byte machine's scanner guarantees is what `c07_split` needs (given a fraction below `2^31` digits) -/
theorem wf_of_partsWF (p : Parts) (h : PartsWF p) (hfrac : (p.frac.getD []).length < 2 ^ 31) : WF p := by
  obtain ⟨h1, h2, h3, h4⟩ := h
  refine ⟨NumLinkParser.isDigits_of_all _ h1, ?_, ?_, ?_, hfrac, ?_⟩
  · intro d r hdr hr
    rw [hdr] at h2
    cases r with
    | nil => exact absurd rfl hr
    | cons a l => simpa using h2
  · intro hnil; rw [hnil] at h2; simp at h2
  · cases hf : p.frac with
    | none => intro c hc; simp at hc
    | some fds => exact NumLinkParser.isDigits_of_all _ (h3 fds hf).2
  · intro en eds hexp
    exact ⟨NumLinkParser.isDigits_of_all _ (h4 en eds hexp).2, (h4 en eds hexp).1⟩

end SJ.Proofs.LexTopSpec
