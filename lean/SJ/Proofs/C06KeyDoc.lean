import SJ.Proofs.ViaValueText128
/-!
# C06 — the quoted integer key inside its object: the whole document `{"lit":value}`

`Proofs/ViaValueText128.lean` proves the quoted-key clause at `MapKey::deserialize_iN` (`Model.Typed.keyInt` on
`"lit"` followed by any rest). Here the object around it is unfolded on the concrete surrounding
`{` `"lit"` `:` value `}` end-of-input: `deserialize_map` (`deMap`: peek `{`, recursion check, `eat_char`),
`MapAccess::next_key_seed` (`hasNextKey` with `first = true` sees the quote), `MapKey::deserialize_iN` (`keyInt`, the
key-level theorem), `next_value_seed` (`parse_object_colon`, then the value's own `deTyped`), the second
`next_key_seed` (`hasNextKey` with `first = false` sees `}`), `end_map`, `fix_position`, `Deserializer::end`.
The value schema and the value text are arbitrary: what is needed of them is a hypothesis on the value's own `deTyped`.
-/
namespace SJ.Proofs.C06KeyDoc
open SJ SJ.Gen SJ.Model SJ.Model.Typed SJ.Spec.NumberAcc SJ.Proofs.ViaValue
open SJ.Model.Stream (skipWs)
open SJ.Proofs.Typed (skipWs_cons withPeek_cons)
open SJ.Spec.Grammar (NumParts)
open SJ.Proofs.NumLinkParser (litOf)

/-- the document `{"lit":value}` -/
def keyDoc (lit vb : Bytes) : Bytes := 0x7b :: 0x22 :: (lit ++ 0x22 :: 0x3a :: (vb ++ [0x7d]))

theorem keyDoc_eq (lit vb : Bytes) : keyDoc lit vb = [0x7b, 0x22] ++ lit ++ [0x22, 0x3a] ++ vb ++ [0x7d] := by
  simp [keyDoc]

/-- **the key-level theorem at `keyInt` itself** (`textKeyInt_lit` is its projection onto "the integer, or nothing"):
    `MapKey::deserialize_iN` on `"lit"` followed by anything returns the verdict's integer and leaves exactly what
    follows the closing quote, or does not return at all. -/
theorem keyInt_lit {env : Env} (hflt : env.flt = false) (w : IntTy) (p : NumParts) (hwf : p.WF = true)
    (rest : Bytes) (pos : Nat) :
    (∀ x, targetInt w (litOf p) = some x →
      keyInt env w (0x22 :: (p.bytes ++ 0x22 :: rest)) pos = .ok (.int x) rest (pos + p.bytes.length + 2)) ∧
    (targetInt w (litOf p) = none → NotOk (keyInt env w (0x22 :: (p.bytes ++ 0x22 :: rest)) pos)) := by
  have h := deInt_lit hflt w p hwf (0x22 :: rest) (pos + 1) (term_quote rest)
  obtain ⟨b, tl, hbt, hns⟩ := bytes_head p hwf (0x22 :: rest)
  unfold keyInt
  simp only [List.drop_succ_cons, List.drop_zero]
  rw [hbt] at h ⊢
  simp only [hns, Bool.not_true, Bool.false_eq_true, if_false]
  constructor
  · intro x htg
    rw [h.1 x htg]
    simp only [Res.bind, beq_self_eq_true, if_true]
    have e : pos + 1 + p.bytes.length + 1 = pos + p.bytes.length + 2 := by omega
    rw [e]
  · intro htg v r' p'
    rcases h.2 htg with hno | ⟨_, _, x, c, tl', q, hok, hc⟩
    · cases hr : deInt env w (b :: tl) (pos + 1) with
      | ok a r q => exact absurd hr (hno a r q)
      | err c i => intro h; cases h
      | data i => intro h; cases h
      | raw a b => intro h; cases h
      | io => intro h; cases h
      | fuel => intro h; cases h
    · rw [hok]
      have hcq : (c == 0x22) = false := by
        rcases hc with hc | hc
        · have : c = 0x2e := by simpa using hc
          subst this; decide
        · simp only [Bool.or_eq_true, beq_iff_eq] at hc
          rcases hc with rfl | rfl <;> decide
      simp only [Res.bind, List.cons_append, hcq, Bool.false_eq_true, if_false]
      intro h; cases h

theorem hasNextKey_first_quote (env : Env) (tl : Bytes) (pos : Nat) :
    hasNextKey env true (0x22 :: tl) pos = .ok true (0x22 :: tl) pos := by
  unfold hasNextKey
  rw [withPeek_cons env _ (by decide : Machine.isWs 0x22 = false)]
  have h1 : ((0x22 : UInt8) == 0x7d) = false := by decide
  simp only [h1, Bool.false_eq_true, if_false, if_true, beq_self_eq_true]

theorem hasNextKey_close (env : Env) (first : Bool) (tl : Bytes) (pos : Nat) :
    hasNextKey env first (0x7d :: tl) pos = .ok false (0x7d :: tl) pos := by
  unfold hasNextKey
  rw [withPeek_cons env _ (by decide : Machine.isWs 0x7d = false)]
  simp only [beq_self_eq_true, if_true]

theorem parseObjectColon_colon (env : Env) (tl : Bytes) (pos : Nat) :
    parseObjectColon env (0x3a :: tl) pos = .ok () tl (pos + 1) := by
  unfold parseObjectColon
  rw [withPeek_cons env _ (by decide : Machine.isWs 0x3a = false)]
  simp only [beq_self_eq_true, if_true]

/-- the map visitor on `"lit":value}` (the reader stands on the key's opening quote) -/
theorem mapLoop_keyDoc {env : Env} (hflt : env.flt = false) (w : IntTy) (p : NumParts) (hwf : p.WF = true)
    (de : Bytes → Nat → TOut) (vb : Bytes) (v : TVal)
    (hval : ∀ pos, de (vb ++ [0x7d]) pos = .ok v [0x7d] (pos + vb.length)) (n pos : Nat) :
    (∀ x, targetInt w (litOf p) = some x →
      mapLoop env (.int w) de (n + 2) true [] (0x22 :: (p.bytes ++ 0x22 :: 0x3a :: (vb ++ [0x7d]))) pos =
        .ok [(.int x, v)] [0x7d] (pos + p.bytes.length + 2 + 1 + vb.length)) ∧
    (targetInt w (litOf p) = none →
      NotOk (mapLoop env (.int w) de (n + 2) true [] (0x22 :: (p.bytes ++ 0x22 :: 0x3a :: (vb ++ [0x7d]))) pos)) := by
  have hk := keyInt_lit hflt w p hwf (0x3a :: (vb ++ [0x7d])) pos
  have e : mapLoop env (.int w) de (n + 2) true [] (0x22 :: (p.bytes ++ 0x22 :: 0x3a :: (vb ++ [0x7d]))) pos =
      (keyInt env w (0x22 :: (p.bytes ++ 0x22 :: 0x3a :: (vb ++ [0x7d]))) pos).bind fun kv r1 p1 =>
          (parseObjectColon env r1 p1).bind fun _ r2 p2 =>
            (de r2 p2).bind fun v r3 p3 => mapLoop env (.int w) de (n + 1) false ((kv, v) :: []) r3 p3 := by
    rw [mapLoop, hasNextKey_first_quote]
    simp only [Res.bind, Bool.not_true, Bool.false_eq_true, if_false, deKey]
  rw [e]
  constructor
  · intro x htg
    rw [hk.1 x htg]
    simp only [Res.bind]
    rw [parseObjectColon_colon]
    simp only []
    rw [hval]
    simp only []
    rw [mapLoop, hasNextKey_close]
    simp only [Res.bind, Bool.not_false, if_true, List.reverse_cons, List.reverse_nil, List.nil_append]
  · intro htg v' r' p'
    cases hr : keyInt env w (0x22 :: (p.bytes ++ 0x22 :: 0x3a :: (vb ++ [0x7d]))) pos with
    | ok a r q => exact absurd hr (hk.2 htg a r q)
    | err c i => intro h; cases h
    | data i => intro h; cases h
    | raw a b => intro h; cases h
    | io => intro h; cases h
    | fuel => intro h; cases h

theorem tooDeep_zero (env : Env) : tooDeep env 0 = false := by
  simp [tooDeep, Gen.remainingDepthInit]

theorem endMap_close (env : Env) (pos : Nat) :
    (endMap env [0x7d] pos).res = .ok () [] (pos + 1) := by
  unfold endMap
  rw [skipWs_cons (by decide : Machine.isWs 0x7d = false)]
  simp only [beq_self_eq_true, if_true]

/-- **the whole document.** `from_str::<BTreeMap<iN, S>>("{\"lit\":value}")` for every width, configuration and
    source, every number literal `p` of the grammar, and every value schema `s` and value text `vb` whose own
    `deTyped` (one container open) reads `vb` up to the closing brace and yields `v`: the one-entry map
    `lit ↦ v` with the literal's mathematical value when the verdict `targetInt w l` is that value, and no
    result at all when the verdict is "rejected". -/
theorem deTypedTop_keyDoc {env : Env} (hflt : env.flt = false) (w : IntTy) (p : NumParts) (hwf : p.WF = true)
    (s : Schema) (vb : Bytes) (v : TVal)
    (hval : ∀ pos, deTyped env (Schema.size s + 1) 1 s (vb ++ [0x7d]) pos = .ok v [0x7d] (pos + vb.length)) :
    (∀ x, targetInt w (litOf p) = some x →
      deTypedTop env (.map (.int w) s) (keyDoc p.bytes vb) = .ok (.map [(.int x, v)])) ∧
    (targetInt w (litOf p) = none →
      ∀ v', deTypedTop env (.map (.int w) s) (keyDoc p.bytes vb) ≠ .ok v') := by
  have hm := mapLoop_keyDoc hflt w p hwf (deTyped env (Schema.size s + 1) (0 + 1) s) vb v hval
    (p.bytes ++ 0x22 :: 0x3a :: (vb ++ [0x7d])).length (0 + 1)
  have e : deTyped env (Schema.size (.map (.int w) s) + 1) 0 (.map (.int w) s) (keyDoc p.bytes vb) 0 =
      closeWith env (endMap env)
        ((mapLoop env (.int w) (deTyped env (Schema.size s + 1) (0 + 1) s)
          ((p.bytes ++ 0x22 :: 0x3a :: (vb ++ [0x7d])).length + 2) true []
          (0x22 :: (p.bytes ++ 0x22 :: 0x3a :: (vb ++ [0x7d]))) (0 + 1)).map .map) := by
    rw [show Schema.size (.map (.int w) s) + 1 = (Schema.size s + 1) + 1 from rfl, SJ.Proofs.Typed.deTyped_map]
    unfold deMap keyDoc
    rw [withPeek_cons env _ (by decide : Machine.isWs 0x7b = false)]
    simp only [beq_self_eq_true, if_true, tooDeep_zero, Bool.false_eq_true, if_false, List.length_cons]
  unfold deTypedTop
  rw [e]
  constructor
  · intro x htg
    rw [hm.1 x htg]
    simp only [Res.map, Res.bind, closeWith, endMap_close, skipWs, hflt, Bool.false_eq_true, if_false]
  · intro htg v'
    cases hr : mapLoop env (.int w) (deTyped env (Schema.size s + 1) (0 + 1) s)
          ((p.bytes ++ 0x22 :: 0x3a :: (vb ++ [0x7d])).length + 2) true []
          (0x22 :: (p.bytes ++ 0x22 :: 0x3a :: (vb ++ [0x7d]))) (0 + 1) with
    | ok a r q => exact absurd hr (hm.2 htg a r q)
    | err c i => intro h; cases h
    | data i => intro h; cases h
    | raw a b => intro h; cases h
    | io => intro h; cases h
    | fuel => intro h; cases h

/-- the value `true` under schema `bool` -/
theorem deTyped_true_close (env : Env) (f t : Nat) (pos : Nat) :
    deTyped env (f + 1) t .bool ([0x74, 0x72, 0x75, 0x65] ++ [0x7d]) pos = .ok (.bool true) [0x7d] (pos + 4) := by
  rw [SJ.Proofs.Typed.deTyped_bool]
  unfold deBool
  show withPeek env _ (0x74 :: [0x72, 0x75, 0x65, 0x7d]) pos _ = _
  rw [withPeek_cons env _ (by decide : Machine.isWs 0x74 = false)]
  simp only [beq_self_eq_true, if_true]
  have := SJ.Proofs.Typed.parseIdent_exact env Gen.identTrue [0x7d] (pos + 1)
  rw [show Gen.identTrue ++ [0x7d] = [0x72, 0x75, 0x65, 0x7d] from rfl] at this
  rw [this]
  simp only [Res.bind]
  rw [show Gen.identTrue.length = 3 from rfl]

end SJ.Proofs.C06KeyDoc
