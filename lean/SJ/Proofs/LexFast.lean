import SJ.Proofs.LexBh
import SJ.Proofs.LexBridge
/-!
# C07 layer (iii): the fast path is exact

`fast_path` converts a mantissa `< 2^(mbits+1)` exactly, and multiplies or divides it by an exactly representable
power of ten with one IEEE operation: the result is the correctly rounded value of `mantissa · 10^exponent`.
The float operations are those of `Spec.Ieee` (binary64, through the bridge) and `Spec.Ieee32` (binary32).
-/
namespace SJ.Proofs.LexFast
open SJ SJ.Gen SJ.Model.Lexical SJ.Spec.Ieee32 SJ.Proofs.LexIeee SJ.Proofs.LexRound SJ.Proofs.LexBh

/-- the IEEE format of the target -/
def fmtOf (single : Bool) : Fmt := if single then b32 else b64

theorem fcokOf (single : Bool) : FCok (fc single) (fmtOf single) := by
  cases single
  · exact fcok64
  · exact fcok32

/-! ## binary32 operations (`Spec.Ieee32.F32`) on positive finite patterns -/

theorem roundOrInf32_toNat (n d : Nat) :
    (F32.roundOrInf false n d).toNat = clampInf b32 (roundMag b32 (n * 2 ^ b32.qexp) d) := by
  unfold F32.roundOrInf roundNE32 roundBits clampInf
  have hinf : b32.infBits = 0x7f800000 := by decide
  by_cases h : roundMag b32 (n * 2 ^ b32.qexp) d < b32.infBits
  · simp only [if_pos h, Bool.false_eq_true, if_false, Option.map_some, Option.getD_some]
    rw [UInt32.toNat_ofNat']
    exact Nat.mod_eq_of_lt (by rw [hinf] at h; omega)
  · simp only [if_neg h, Option.map_none, Option.getD_none, F32.inf, Bool.false_eq_true, if_false]
    rw [hinf]; rfl

theorem abs32 (a : Nat) (ha : a < b32.infBits) :
    F32.isNeg (UInt32.ofNat a) = false ∧ F32.mag (UInt32.ofNat a) = magOfBits b32 a := by
  have hinf : b32.infBits = 0x7f800000 := by decide
  have h1 : (UInt32.ofNat a).toNat = a := by rw [UInt32.toNat_ofNat']; exact Nat.mod_eq_of_lt (by omega)
  unfold F32.isNeg F32.mag F32.absBits
  rw [h1]
  have : a / 2 ^ 31 = 0 := Nat.div_eq_of_lt (by omega)
  rw [this, Nat.mod_eq_of_lt (by omega)]
  simp

/-! ## binary64 operations (`Spec.Ieee.F64`, placeholder) on positive finite patterns -/

theorem roundOrInf64_toNat (n d : Nat) (hd : 0 < d) :
    ((SJ.Spec.Ieee.roundNE64 false n d).getD (SJ.Spec.Ieee.F64.inf false)).toNat =
      clampInf b64 (roundMag b64 (n * 2 ^ b64.qexp) d) := by
  rw [SJ.Proofs.LexBridge.roundNE64_bridge false n d hd]
  unfold roundBits clampInf
  have hinf : b64.infBits = 0x7ff0000000000000 := by decide
  by_cases h : roundMag b64 (n * 2 ^ b64.qexp) d < b64.infBits
  · simp only [if_pos h, Bool.false_eq_true, if_false, Option.map_some, Option.getD_some]
    rw [UInt64.toNat_ofNat']
    exact Nat.mod_eq_of_lt (by rw [hinf] at h; omega)
  · simp only [if_neg h, Option.map_none, Option.getD_none]
    rw [hinf]; rfl

/-- the placeholder's `toRat` of a positive finite pattern is `magOfBits / 2^1074` -/
theorem toRat64 (a : Nat) (ha : a < b64.infBits) :
    SJ.Spec.Ieee.F64.isNeg (UInt64.ofNat a) = false ∧
    0 < (SJ.Spec.Ieee.F64.toRat (UInt64.ofNat a)).2 ∧
    (SJ.Spec.Ieee.F64.toRat (UInt64.ofNat a)).1 * 2 ^ 1074 = magOfBits b64 a * (SJ.Spec.Ieee.F64.toRat (UInt64.ofNat a)).2 := by
  have hinf : b64.infBits = 0x7ff0000000000000 := by decide
  have h1 : (UInt64.ofNat a).toNat = a := by rw [UInt64.toNat_ofNat']; exact Nat.mod_eq_of_lt (by omega)
  have hE : SJ.Spec.Ieee.F64.expField (UInt64.ofNat a) = a / 2 ^ 52 := by
    unfold SJ.Spec.Ieee.F64.expField
    rw [UInt64.toNat_and, UInt64.toNat_shiftRight, h1]
    have : (0x7ff : UInt64).toNat = 2 ^ 11 - 1 := by decide
    have h52 : (52 : UInt64).toNat % 64 = 52 := by decide
    rw [this, h52, Nat.and_two_pow_sub_one_eq_mod, Nat.shiftRight_eq_div_pow]
    apply Nat.mod_eq_of_lt
    rw [Nat.div_lt_iff_lt_mul (by norm_num)]; omega
  have hM : SJ.Spec.Ieee.F64.mantField (UInt64.ofNat a) = a % 2 ^ 52 := by
    unfold SJ.Spec.Ieee.F64.mantField
    rw [UInt64.toNat_and, h1]
    have : (0xfffffffffffff : UInt64).toNat = 2 ^ 52 - 1 := by decide
    rw [this, Nat.and_two_pow_sub_one_eq_mod]
  refine ⟨?_, ?_⟩
  · unfold SJ.Spec.Ieee.F64.isNeg
    have : (UInt64.ofNat a >>> 63).toNat = 0 := by
      rw [UInt64.toNat_shiftRight, h1]
      have h63 : (63 : UInt64).toNat % 64 = 63 := by decide
      rw [h63, Nat.shiftRight_eq_div_pow]
      exact Nat.div_eq_of_lt (by omega)
    have h0 : UInt64.ofNat a >>> 63 = 0 := UInt64.toNat_inj.1 (by rw [this]; rfl)
    rw [h0]; decide
  · unfold SJ.Spec.Ieee.F64.toRat magOfBits
    simp only [hE, hM]
    have hmb : b64.mbits = 52 := rfl
    rw [hmb]
    have hElt : a / 2 ^ 52 < 2047 := by
      rw [Nat.div_lt_iff_lt_mul (by norm_num)]; omega
    generalize a / 2 ^ 52 = E at *
    generalize a % 2 ^ 52 = M at *
    by_cases h0 : E = 0
    · subst h0
      simp only [beq_self_eq_true, if_true]
      simp
    · have hb : (E == 0) = false := by simpa using h0
      simp only [hb, Bool.false_eq_true, if_false, h0]
      by_cases hge : E ≥ 1075
      · simp only [if_pos hge, Nat.mul_one]
        refine ⟨Nat.one_pos, ?_⟩
        have : E - 1075 + 1074 = E - 1 := by omega
        rw [Nat.mul_assoc, ← Nat.pow_add, this]
      · simp only [if_neg hge]
        refine ⟨Nat.pos_of_ne_zero (by simp), ?_⟩
        have : E - 1 + (1075 - E) = 1074 := by omega
        rw [Nat.mul_assoc, ← Nat.pow_add, this]

/-! ## the three operations of the fast path, for both formats -/

theorem cast_eq (single : Bool) (n : Nat) :
    castU64 single n = clampInf (fmtOf single) (roundMag (fmtOf single) (n * 2 ^ (fmtOf single).qexp) 1) := by
  cases single
  · simp only [castU64, fmtOf, Bool.false_eq_true, if_false]
    exact roundOrInf64_toNat n 1 Nat.one_pos
  · simp only [castU64, fmtOf, if_true]
    exact roundOrInf32_toNat n 1

theorem fmul_eq (single : Bool) (a b : Nat) (ha : a < (fmtOf single).infBits) (hb : b < (fmtOf single).infBits) :
    fmul single a b = clampInf (fmtOf single) (roundMag (fmtOf single)
      (magOfBits (fmtOf single) a * magOfBits (fmtOf single) b * 2 ^ (fmtOf single).qexp)
      (2 ^ (fmtOf single).qexp * 2 ^ (fmtOf single).qexp)) := by
  cases single
  · simp only [fmul, fmtOf, Bool.false_eq_true, if_false] at ha hb ⊢
    obtain ⟨n1, p1, r1⟩ := toRat64 a ha
    obtain ⟨n2, p2, r2⟩ := toRat64 b hb
    unfold SJ.Spec.Ieee.F64.mul
    simp only [n1, n2, bne_self_eq_false]
    rw [roundOrInf64_toNat _ _ (Nat.mul_pos p1 p2)]
    refine congrArg (clampInf b64) ?_
    have hq : b64.qexp = 1074 := by decide
    rw [hq]
    apply roundMag_congr _ _ _ _ _ (Nat.mul_pos p1 p2) (Nat.mul_pos (pow_pos' _) (pow_pos' _))
    generalize (SJ.Spec.Ieee.F64.toRat (UInt64.ofNat a)).1 = x1 at *
    generalize (SJ.Spec.Ieee.F64.toRat (UInt64.ofNat a)).2 = y1 at *
    generalize (SJ.Spec.Ieee.F64.toRat (UInt64.ofNat b)).1 = x2 at *
    generalize (SJ.Spec.Ieee.F64.toRat (UInt64.ofNat b)).2 = y2 at *
    calc x1 * x2 * 2 ^ 1074 * (2 ^ 1074 * 2 ^ 1074) = (x1 * 2 ^ 1074) * (x2 * 2 ^ 1074) * 2 ^ 1074 := by ring
      _ = (magOfBits b64 a * y1) * (magOfBits b64 b * y2) * 2 ^ 1074 := by rw [r1, r2]
      _ = magOfBits b64 a * magOfBits b64 b * 2 ^ 1074 * (y1 * y2) := by ring
  · simp only [fmul, fmtOf, if_true] at ha hb ⊢
    obtain ⟨n1, m1⟩ := abs32 a ha
    obtain ⟨n2, m2⟩ := abs32 b hb
    unfold F32.mul
    simp only [n1, n2, m1, m2, bne_self_eq_false]
    rw [roundOrInf32_toNat]
    have hq : b32.qexp = 149 := by decide
    rw [hq]

theorem fdiv_eq (single : Bool) (a b : Nat) (ha : a < (fmtOf single).infBits) (hb : b < (fmtOf single).infBits)
    (hb0 : 0 < magOfBits (fmtOf single) b) :
    fdiv single a b = clampInf (fmtOf single) (roundMag (fmtOf single)
      (magOfBits (fmtOf single) a * 2 ^ (fmtOf single).qexp) (magOfBits (fmtOf single) b)) := by
  cases single
  · simp only [fdiv, fmtOf, Bool.false_eq_true, if_false] at ha hb hb0 ⊢
    obtain ⟨n1, p1, r1⟩ := toRat64 a ha
    obtain ⟨n2, p2, r2⟩ := toRat64 b hb
    unfold SJ.Spec.Ieee.F64.div
    simp only [n1, n2, bne_self_eq_false]
    have hx2 : 0 < (SJ.Spec.Ieee.F64.toRat (UInt64.ofNat b)).1 := by
      by_contra hc
      have : (SJ.Spec.Ieee.F64.toRat (UInt64.ofNat b)).1 = 0 := by omega
      rw [this] at r2
      have := Nat.mul_pos hb0 p2
      omega
    rw [roundOrInf64_toNat _ _ (Nat.mul_pos p1 hx2)]
    refine congrArg (clampInf b64) ?_
    have hq : b64.qexp = 1074 := by decide
    rw [hq]
    apply roundMag_congr _ _ _ _ _ (Nat.mul_pos p1 hx2) hb0
    generalize (SJ.Spec.Ieee.F64.toRat (UInt64.ofNat a)).1 = x1 at *
    generalize (SJ.Spec.Ieee.F64.toRat (UInt64.ofNat a)).2 = y1 at *
    generalize (SJ.Spec.Ieee.F64.toRat (UInt64.ofNat b)).1 = x2 at *
    generalize (SJ.Spec.Ieee.F64.toRat (UInt64.ofNat b)).2 = y2 at *
    calc x1 * y2 * 2 ^ 1074 * magOfBits b64 b = (x1 * 2 ^ 1074) * (magOfBits b64 b * y2) := by ring
      _ = (magOfBits b64 a * y1) * (x2 * 2 ^ 1074) := by rw [r1, r2]
      _ = magOfBits b64 a * 2 ^ 1074 * (y1 * x2) := by ring
  · simp only [fdiv, fmtOf, if_true] at ha hb ⊢
    obtain ⟨n1, m1⟩ := abs32 a ha
    obtain ⟨n2, m2⟩ := abs32 b hb
    unfold F32.div
    simp only [n1, n2, m1, m2, bne_self_eq_false]
    rw [roundOrInf32_toNat]

end SJ.Proofs.LexFast
