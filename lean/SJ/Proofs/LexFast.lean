import SJ.Proofs.LexBh
import SJ.Proofs.LexBridge
/-!
# C07 layer (iii): the fast path is exact

`fast_path` converts a mantissa `< 2^(mbits+1)` exactly, and multiplies or divides it by an exactly representable
power of ten with one IEEE operation: the result is the correctly rounded value of `mantissa · 10^exponent`.
The float operations are those of `Spec.Ieee` (`F64.mul/div/ofU64`; `F32.mul/div` from `Spec/Ieee32.lean`).
-/
namespace SJ.Proofs.LexFast
open SJ SJ.Gen SJ.Model.Lexical SJ.Spec.Ieee SJ.Proofs.Ieee SJ.Proofs.LexRound SJ.Proofs.LexBh

/-- the IEEE format of the target -/
def fmtOf (single : Bool) : Fmt := if single then b32 else b64

theorem fcokOf (single : Bool) : FCok (fc single) (fmtOf single) := by
  cases single
  · exact fcok64
  · exact fcok32

/-! ## the rounding wrappers on positive values -/

theorem roundOrInf32_toNat (n d : Nat) :
    (F32.roundOrInf false n d).toNat = clampInf b32 (roundMag b32 (n * 2 ^ b32.qexp) d) := by
  unfold F32.roundOrInf roundNE32 roundBits clampInf
  have hinf := SJ.Proofs.LexBridge.infBits32
  by_cases h : roundMag b32 (n * 2 ^ b32.qexp) d < b32.infBits
  · simp only [if_pos h, Bool.false_eq_true, if_false, Option.map_some, Option.getD_some]
    rw [UInt32.toNat_ofNat']
    exact Nat.mod_eq_of_lt (by rw [hinf] at h; omega)
  · simp only [if_neg h, Option.map_none, Option.getD_none, F32.inf, Bool.false_eq_true, if_false]
    rw [hinf]; rfl

theorem roundOrInf64_toNat (n d : Nat) :
    (F64.roundOrInf false n d).toNat = clampInf b64 (roundMag b64 (n * 2 ^ b64.qexp) d) := by
  unfold F64.roundOrInf roundNE64 roundBits clampInf
  have hinf := SJ.Proofs.LexBridge.infBits64
  by_cases h : roundMag b64 (n * 2 ^ b64.qexp) d < b64.infBits
  · simp only [if_pos h, Bool.false_eq_true, if_false, Option.map_some, Option.getD_some]
    rw [UInt64.toNat_ofNat']
    exact Nat.mod_eq_of_lt (by rw [hinf] at h; omega)
  · simp only [if_neg h, Option.map_none, Option.getD_none, F64.inf, Bool.false_eq_true, if_false]
    rw [hinf]; rfl

/-! ## the three operations of the fast path, for both formats -/

theorem cast_eq (single : Bool) (n : Nat) :
    castU64 single n = clampInf (fmtOf single) (roundMag (fmtOf single) (n * 2 ^ (fmtOf single).qexp) 1) := by
  cases single
  · simp only [castU64, fmtOf, Bool.false_eq_true, if_false]
    exact roundOrInf64_toNat n 1
  · simp only [castU64, fmtOf, if_true]
    exact roundOrInf32_toNat n 1

theorem fmul_eq (single : Bool) (a b : Nat) (ha : a < (fmtOf single).infBits) (hb : b < (fmtOf single).infBits) :
    fmul single a b = clampInf (fmtOf single) (roundMag (fmtOf single)
      (magOfBits (fmtOf single) a * magOfBits (fmtOf single) b * 2 ^ (fmtOf single).qexp)
      (2 ^ (fmtOf single).qexp * 2 ^ (fmtOf single).qexp)) := by
  cases single
  · simp only [fmul, fmtOf, Bool.false_eq_true, if_false] at ha hb ⊢
    obtain ⟨_, s1, _, m1, n1, i1⟩ := SJ.Proofs.LexBridge.pos64 a ha
    obtain ⟨_, s2, _, m2, n2, i2⟩ := SJ.Proofs.LexBridge.pos64 b hb
    unfold F64.mul
    simp only [s1, s2, m1, m2, n1, n2, i1, i2, bne_self_eq_false, Bool.or_self, Bool.false_eq_true, if_false]
    rw [roundOrInf64_toNat]
    have hq : b64.qexp = 1074 := SJ.Proofs.Ieee.b64_qexp
    rw [hq]
  · simp only [fmul, fmtOf, if_true] at ha hb ⊢
    obtain ⟨_, s1, _, m1, _⟩ := SJ.Proofs.LexBridge.pos32 a ha
    obtain ⟨_, s2, _, m2, _⟩ := SJ.Proofs.LexBridge.pos32 b hb
    unfold F32.mul
    simp only [s1, s2, m1, m2, bne_self_eq_false]
    rw [roundOrInf32_toNat]
    rfl

theorem fdiv_eq (single : Bool) (a b : Nat) (ha : a < (fmtOf single).infBits) (hb : b < (fmtOf single).infBits)
    (hb0 : 0 < magOfBits (fmtOf single) b) :
    fdiv single a b = clampInf (fmtOf single) (roundMag (fmtOf single)
      (magOfBits (fmtOf single) a * 2 ^ (fmtOf single).qexp) (magOfBits (fmtOf single) b)) := by
  cases single
  · simp only [fdiv, fmtOf, Bool.false_eq_true, if_false] at ha hb hb0 ⊢
    obtain ⟨_, s1, _, m1, n1, i1⟩ := SJ.Proofs.LexBridge.pos64 a ha
    obtain ⟨_, s2, ab2, m2, n2, i2⟩ := SJ.Proofs.LexBridge.pos64 b hb
    have hz : F64.isZero (UInt64.ofNat b) = false := by
      unfold F64.isZero
      rw [ab2, beq_eq_false_iff_ne]
      intro h0; subst h0
      simp [magOfBits] at hb0
    unfold F64.div
    simp only [s1, s2, m1, m2, n1, n2, i1, i2, hz, bne_self_eq_false, Bool.or_self, Bool.false_eq_true, if_false]
    rw [roundOrInf64_toNat]
  · simp only [fdiv, fmtOf, if_true] at ha hb ⊢
    obtain ⟨_, s1, _, m1, _⟩ := SJ.Proofs.LexBridge.pos32 a ha
    obtain ⟨_, s2, _, m2, _⟩ := SJ.Proofs.LexBridge.pos32 b hb
    unfold F32.div
    simp only [s1, s2, m1, m2, bne_self_eq_false]
    rw [roundOrInf32_toNat]

/-! ## exactly representable integers -/

theorem roundMag_zero (F : Fmt) (d : Nat) : roundMag F 0 d = 0 := by
  rw [roundMag_eq]; unfold kOf rne; simp

/-- an integer below `2^80` rounds to a finite pattern -/
theorem finite_of_small {c : FC} {F : Fmt} (h : FCok c F) (x : Nat) (hx : x < 2 ^ 80) :
    roundMag F (x * 2 ^ F.qexp) 1 < F.infBits := by
  have hE4 : 4 ≤ 2 ^ F.ebits := by
    have : 2 ^ 2 ≤ 2 ^ F.ebits := Nat.pow_le_pow_right (by decide) h.eb
    omega
  by_contra hc
  have := (roundMag_overflow_iff F (2 ^ F.ebits - 3) (x * 2 ^ F.qexp) 1 Nat.one_pos (by omega) (by omega)).1 (by omega)
  have hfin := h.finbig
  have : x * 2 ^ F.qexp * 2 ≤ 2 ^ 80 * 2 ^ F.qexp * 2 :=
    Nat.mul_le_mul_right _ (Nat.mul_le_mul_right _ (Nat.le_of_lt hx))
  omega

/-- `x = o · 2^t` with `o < 2^(mbits+1)` is converted exactly -/
theorem cast_exact (single : Bool) (x o t : Nat) (hx : x = o * 2 ^ t) (ho : o < 2 ^ ((fmtOf single).mbits + 1))
    (hsmall : x < 2 ^ 80) :
    castU64 single x < (fmtOf single).infBits ∧
    magOfBits (fmtOf single) (castU64 single x) = x * 2 ^ (fmtOf single).qexp := by
  have h := fcokOf single
  rw [cast_eq]
  generalize fmtOf single = F at *
  have hfin := finite_of_small h x hsmall
  unfold clampInf
  rw [if_pos hfin]
  refine ⟨hfin, ?_⟩
  by_cases ho0 : o = 0
  · subst ho0; simp at hx; subst hx
    simp [roundMag_zero, magOfBits]
  · have hxpos : 0 < x := by rw [hx]; exact Nat.mul_pos (by omega) (pow_pos' _)
    have := roundMag_exact F (x * 2 ^ F.qexp) 1 (o * 2 ^ (t + F.qexp - kOf F (x * 2 ^ F.qexp) 1)) Nat.one_pos ?_
    · rw [Nat.mul_one] at this; exact this
    · -- 2^kOf divides 2^(t+q)
      have hk : kOf F (x * 2 ^ F.qexp) 1 ≤ t + F.qexp := by
        unfold kOf
        rw [Nat.div_one]
        have hlt : x * 2 ^ F.qexp < 2 ^ (F.mbits + 1 + t + F.qexp) := by
          rw [hx]
          calc o * 2 ^ t * 2 ^ F.qexp < 2 ^ (F.mbits + 1) * 2 ^ t * 2 ^ F.qexp := by
                apply Nat.mul_lt_mul_of_pos_right _ (pow_pos' _)
                exact Nat.mul_lt_mul_of_pos_right ho (pow_pos' _)
            _ = 2 ^ (F.mbits + 1 + t + F.qexp) := by rw [Nat.pow_add (2) (F.mbits + 1 + t), Nat.pow_add (2) (F.mbits + 1)]
        have hne : x * 2 ^ F.qexp ≠ 0 := Nat.ne_of_gt (Nat.mul_pos hxpos (pow_pos' _))
        have := (Nat.log2_lt hne).2 hlt
        omega
      rw [Nat.one_mul, hx]
      calc o * 2 ^ t * 2 ^ F.qexp = o * 2 ^ (t + F.qexp) := by rw [Nat.pow_add]; ring
        _ = o * 2 ^ (t + F.qexp - kOf F (o * 2 ^ t * 2 ^ F.qexp) 1 + kOf F (o * 2 ^ t * 2 ^ F.qexp) 1) := by
            congr 2; rw [← hx]; omega
        _ = o * 2 ^ (t + F.qexp - kOf F (o * 2 ^ t * 2 ^ F.qexp) 1) * 2 ^ kOf F (o * 2 ^ t * 2 ^ F.qexp) 1 := by
            rw [Nat.pow_add]; ring

/-! ## the fast path -/

theorem tbl64 : ∀ k ∈ List.range 23, f64Pow10.getD k 0 = 10 ^ k ∧ 5 ^ k < 2 ^ 53 := by decide +kernel
theorem tbl32 : ∀ k ∈ List.range 11, f32Pow10.getD k 0 = 10 ^ k ∧ 5 ^ k < 2 ^ 24 := by decide +kernel

theorem consts (single : Bool) :
    (fc single).maxExp = (if single then 10 else 22) ∧ (fc single).minExp = (if single then -10 else -22) ∧
    (fc single).mantissaLimit = (if single then 7 else 15) ∧
    (fc single).mantissaSize = (fmtOf single).mbits ∧ (fmtOf single).mbits = (if single then 23 else 52) := by
  cases single <;> simp [fc, fmtOf, SJ.Proofs.LexTables.f64_consts, SJ.Proofs.LexTables.f32_consts, b64, b32]

theorem tbl (single : Bool) (k : Nat) (hk : (k : Int) ≤ (fc single).maxExp) :
    (fc single).pow10.getD k 0 = 10 ^ k ∧ 5 ^ k < 2 ^ ((fmtOf single).mbits + 1) := by
  cases single
  · have hk' : k < 23 := by
      have := (consts false).1; simp at this; rw [this] at hk; omega
    have := tbl64 k (List.mem_range.2 hk')
    simpa [fc, fmtOf, SJ.Proofs.LexTables.f64_consts, b64] using this
  · have hk' : k < 11 := by
      have := (consts true).1; simp at this; rw [this] at hk; omega
    have := tbl32 k (List.mem_range.2 hk')
    simpa [fc, fmtOf, SJ.Proofs.LexTables.f32_consts, b32] using this

theorem ten_eq (k : Nat) : (10 : Nat) ^ k = 5 ^ k * 2 ^ k := by
  have : (10 : Nat) = 5 * 2 := rfl
  rw [this, Nat.mul_pow]

theorem ten_lt_two_pow_80 (k : Nat) (hk : k ≤ 22) : (10 : Nat) ^ k < 2 ^ 80 := by
  have h1 : (10 : Nat) ^ k ≤ 10 ^ 22 := Nat.pow_le_pow_right (by decide) hk
  have h2 : (10 : Nat) ^ 22 < 2 ^ 80 := by norm_num
  omega

/-- one multiplication by an exactly representable power of ten -/
theorem mul_pow10 (single : Bool) (v k : Nat) (hv : v < 2 ^ ((fmtOf single).mbits + 1)) (hk1 : 1 ≤ k)
    (hk : (k : Int) ≤ (fc single).maxExp) :
    pow10 single (castU64 single v) (k : Int) = roundDec (fmtOf single) v k := by
  obtain ⟨ht, h5⟩ := tbl single k hk
  have hk22 : k ≤ 22 := by have := (consts single).1; rw [this] at hk; split at hk <;> omega
  have hmb : (fmtOf single).mbits + 1 ≤ 53 := by have := (consts single).2.2.2.2; rw [this]; split <;> omega
  have hv80 : v < 2 ^ 80 := Nat.lt_of_lt_of_le hv (Nat.pow_le_pow_right (by decide) (by omega))
  obtain ⟨a1, a2⟩ := cast_exact single v v 0 (by simp) hv hv80
  obtain ⟨b1, b2⟩ := cast_exact single (10 ^ k) (5 ^ k) k (ten_eq k) h5 (ten_lt_two_pow_80 k hk22)
  unfold pow10
  rw [if_pos (by omega), Int.toNat_natCast, ht, fmul_eq single _ _ a1 b1, a2, b2]
  unfold roundDec dNum dDen
  congr 1
  have : (-(k : Int)).toNat = 0 := by omega
  rw [this, Int.toNat_natCast]
  apply roundMag_congr _ _ _ _ _ (Nat.mul_pos (pow_pos' _) (pow_pos' _)) (by norm_num)
  ring

/-- one division by an exactly representable power of ten -/
theorem div_pow10 (single : Bool) (v k : Nat) (hv : v < 2 ^ ((fmtOf single).mbits + 1)) (hk1 : 1 ≤ k)
    (hk : (k : Int) ≤ (fc single).maxExp) :
    pow10 single (castU64 single v) (-(k : Int)) = roundDec (fmtOf single) v (-(k : Int)) := by
  obtain ⟨ht, h5⟩ := tbl single k hk
  have hk22 : k ≤ 22 := by have := (consts single).1; rw [this] at hk; split at hk <;> omega
  have hmb : (fmtOf single).mbits + 1 ≤ 53 := by have := (consts single).2.2.2.2; rw [this]; split <;> omega
  have hv80 : v < 2 ^ 80 := Nat.lt_of_lt_of_le hv (Nat.pow_le_pow_right (by decide) (by omega))
  obtain ⟨a1, a2⟩ := cast_exact single v v 0 (by simp) hv hv80
  obtain ⟨b1, b2⟩ := cast_exact single (10 ^ k) (5 ^ k) k (ten_eq k) h5 (ten_lt_two_pow_80 k hk22)
  unfold pow10
  have hneg : (- -(k : Int)).toNat = k := by omega
  rw [if_neg (by omega), hneg, ht, fdiv_eq single _ _ a1 b1 (by rw [b2]; exact Nat.mul_pos (Nat.pos_of_ne_zero (by simp)) (pow_pos' _)), a2, b2]
  unfold roundDec dNum dDen
  congr 1
  have : (-(k : Int)).toNat = 0 := by omega
  rw [this, hneg]
  apply roundMag_congr _ _ _ _ _ (Nat.mul_pos (Nat.pos_of_ne_zero (by simp)) (pow_pos' _)) (Nat.pos_of_ne_zero (by simp))
  ring

theorem roundDec_zero {c : FC} {F : Fmt} (h : FCok c F) (e : Int) : roundDec F 0 e = 0 := by
  unfold roundDec dNum clampInf
  simp only [Nat.zero_mul, roundMag_zero]
  rw [if_pos]
  unfold Fmt.infBits
  have hE4 : 4 ≤ 2 ^ F.ebits := by
    have : 2 ^ 2 ≤ 2 ^ F.ebits := Nat.pow_le_pow_right (by decide) h.eb
    omega
  exact Nat.mul_pos (by omega) (pow_pos' _)

theorem shiftRight_eq_zero_iff (m s : Nat) : m >>> s = 0 ↔ m < 2 ^ s := by
  rw [Nat.shiftRight_eq_div_pow, Nat.div_eq_zero_iff]
  have := pow_pos' s
  constructor
  · rintro (h | h) <;> omega
  · intro h; right; exact h

/-- **fast_path_exact.** Whenever the fast path answers, its answer is the correctly rounded value of
    `mantissa · 10^exponent` (exact conversion of the mantissa, one correctly rounded operation). -/
theorem fastPath_exact (single : Bool) (m : Nat) (e : Int) (r : Nat) (h : fastPath single m e = some r) :
    r = roundDec (fmtOf single) m e := by
  obtain ⟨cmax, cmin, clim, csize, cmb⟩ := consts single
  have hmsize : ((fc single).mantissaSize + 1).toNat = (fmtOf single).mbits + 1 := by rw [csize]; omega
  unfold fastPath at h
  simp only [hmsize] at h
  by_cases hm0 : m = 0
  · subst hm0
    simp at h; subst h
    exact (roundDec_zero (fcokOf single) e).symm
  · have hb0 : (m == 0) = false := by simpa using hm0
    simp only [hb0, Bool.false_eq_true, if_false] at h
    by_cases hbig : m >>> ((fmtOf single).mbits + 1) = 0
    · have hbne : (m >>> ((fmtOf single).mbits + 1) != 0) = false := by simp [hbig]
      simp only [hbne, Bool.false_eq_true, if_false] at h
      have hm : m < 2 ^ ((fmtOf single).mbits + 1) := (shiftRight_eq_zero_iff _ _).1 hbig
      by_cases he0 : e = 0
      · subst he0
        simp only [beq_self_eq_true, if_true, Option.some.injEq] at h
        subst h
        rw [cast_eq]
        unfold roundDec dNum dDen
        simp
      · have hbe : (e == 0) = false := by simpa using he0
        simp only [hbe, Bool.false_eq_true, if_false] at h
        by_cases hin : e ≥ (fc single).minExp ∧ e ≤ (fc single).maxExp
        · have : (decide (e ≥ (fc single).minExp) && decide (e ≤ (fc single).maxExp)) = true := by simp [hin]
          simp only [this, if_true, Option.some.injEq] at h
          subst h
          by_cases hpos : e > 0
          · obtain ⟨k, hk⟩ : ∃ k : Nat, e = k := ⟨e.toNat, by omega⟩
            subst hk
            exact mul_pow10 single m k hm (by omega) hin.2
          · obtain ⟨k, hk⟩ : ∃ k : Nat, e = -(k : Int) := ⟨(-e).toNat, by omega⟩
            subst hk
            have hkmax : (k : Int) ≤ (fc single).maxExp := by
              have := hin.1; rw [cmin] at this; rw [cmax]; split at this <;> simp_all <;> omega
            exact div_pow10 single m k hm (by omega) hkmax
        · have : (decide (e ≥ (fc single).minExp) && decide (e ≤ (fc single).maxExp)) = false := by
            simp only [Bool.and_eq_false_iff, decide_eq_false_iff_not]
            by_cases h1 : e ≥ (fc single).minExp
            · right; exact fun h2 => hin ⟨h1, h2⟩
            · left; exact h1
          simp only [this, Bool.false_eq_true, if_false] at h
          by_cases hdis : e ≥ 0 ∧ e ≤ (fc single).maxExp + (fc single).mantissaLimit
          · have : (decide (e ≥ 0) && decide (e ≤ (fc single).maxExp + (fc single).mantissaLimit)) = true := by simp [hdis]
            simp only [this, if_true] at h
            -- e > maxExp
            have hgt : e > (fc single).maxExp := by
              by_contra hc
              apply hin
              refine ⟨?_, by omega⟩
              rw [cmin]; split <;> omega
            obtain ⟨sh, hsh⟩ : ∃ sh : Nat, e - (fc single).maxExp = sh ∧ 1 ≤ sh ∧ sh ≤ 15 :=
              ⟨(e - (fc single).maxExp).toNat, by omega, by omega, by
                have := hdis.2; rw [clim] at this; split at this <;> omega⟩
            have hsht : (e - (fc single).maxExp).toNat = sh := by omega
            rw [hsht, pow10_64_get sh (by omega)] at h
            by_cases hov : m * 10 ^ sh ≥ 2 ^ 64
            · rw [if_pos hov] at h; cases h
            · rw [if_neg hov] at h
              by_cases hv : (m * 10 ^ sh) >>> ((fmtOf single).mbits + 1) = 0
              · have hvne : ((m * 10 ^ sh) >>> ((fmtOf single).mbits + 1) != 0) = false := by simp [hv]
                simp only [hvne, Bool.false_eq_true, if_false, Option.some.injEq] at h
                subst h
                have hvlt := (shiftRight_eq_zero_iff _ _).1 hv
                obtain ⟨K, hK⟩ : ∃ K : Nat, (fc single).maxExp = K ∧ 1 ≤ K := by
                  rw [cmax]; split
                  · exact ⟨10, rfl, by omega⟩
                  · exact ⟨22, rfl, by omega⟩
                rw [hK.1, mul_pow10 single _ K hvlt hK.2 (by rw [hK.1])]
                unfold roundDec dNum dDen
                congr 1
                have e1 : e = ((K + sh : Nat) : Int) := by rw [hK.1] at hsh; omega
                have : ((K : Nat) : Int).toNat = K := by omega
                rw [this]
                have e2 : (-((K : Nat) : Int)).toNat = 0 := by omega
                have e3 : (-e).toNat = 0 := by omega
                have e4 : e.toNat = K + sh := by omega
                rw [e2, e3, e4, Nat.pow_add]
                congr 1; ring
              · have hvne : ((m * 10 ^ sh) >>> ((fmtOf single).mbits + 1) != 0) = true := by simp [hv]
                simp only [hvne, if_true] at h
                cases h
          · have : (decide (e ≥ 0) && decide (e ≤ (fc single).maxExp + (fc single).mantissaLimit)) = false := by
              simp only [Bool.and_eq_false_iff, decide_eq_false_iff_not]
              by_cases h1 : e ≥ 0
              · right; exact fun h2 => hdis ⟨h1, h2⟩
              · left; exact h1
            simp only [this, Bool.false_eq_true, if_false] at h
            cases h
    · have hbne : (m >>> ((fmtOf single).mbits + 1) != 0) = true := by simp [hbig]
      simp only [hbne, if_true] at h
      cases h

end SJ.Proofs.LexFast
