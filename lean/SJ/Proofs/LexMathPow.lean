import SJ.Proofs.LexMathMul
import SJ.Proofs.LexMathShift
import SJ.Proofs.LexMathTables
/-!
# Limb arithmetic: `imul_pow5`, `imul_pow2`, `imul_pow10`, `from_u64`

`imul_pow5(x, n)` multiplies by `5^n` along either of its two routes — iterated small powers (`POW5_64`) or the
binary expansion of `n` over the large powers `POW5[i] = 5^(2^i)` (through `large::imul`, hence Karatsuba). On the
first route it never panics; it panics for `n ≥ 2^14` (`large_powers[bit_length - 1]`).
-/
namespace SJ.Proofs.LexMath
open SJ.Model.LexMath SJ.Gen SJ.Proofs.LexMathTables

/-! ## table facts, per index -/

theorem pow5Entry {i : Nat} {l : Limbs} (h : largePow5Limbs[i]? = some l) :
    value l = 5 ^ (2 ^ i) ∧ Valid l ∧ Normal l ∧ l ≠ [] := by
  have hi : i < 14 := by
    have := consts.1
    by_contra hc
    have : largePow5Limbs[i]? = none := List.getElem?_eq_none (by omega)
    rw [this] at h; cases h
  have := List.all_eq_true.mp large_pow5_limbs i (List.mem_range.mpr hi)
  unfold pow5EntryOk at this
  rw [h] at this
  simp only [Bool.and_eq_true, beq_iff_eq, Bool.not_eq_true', List.isEmpty_eq_false_iff] at this
  obtain ⟨⟨⟨a, b⟩, c⟩, d⟩ := this
  exact ⟨a, (validB_iff l).mp b, (normalB_iff l).mp c, d⟩

theorem pow5_64_entry {i : Nat} (hi : i < 28) : pow5_64.getD i 0 = 5 ^ i ∧ pow5_64.getD i 0 < 2 ^ 64 := by
  have := List.all_eq_true.mp pow5_64_ok i (List.mem_range.mpr hi)
  simpa using this

theorem pow10_64_entry {i : Nat} (hi : i < 20) : pow10_64.getD i 0 = 10 ^ i ∧ pow10_64.getD i 0 < 2 ^ 64 := by
  have := List.all_eq_true.mp pow10_64_ok i (List.mem_range.mpr hi)
  simpa using this

/-! ## bit tests on `n` as arithmetic -/

theorem xor_one_of_odd {q : Nat} (h : q % 2 = 1) : q ^^^ 1 = q - 1 := by
  have h1 : (q ^^^ 1) / 2 ^ 1 = q / 2 ^ 1 ^^^ 1 / 2 ^ 1 := Nat.xor_div_two_pow
  have h2 : (q ^^^ 1) % 2 ^ 1 = q % 2 ^ 1 ^^^ 1 % 2 ^ 1 := Nat.xor_mod_two_pow
  simp only [Nat.pow_one, Nat.reduceDiv, Nat.xor_zero, Nat.reduceMod, h] at h1 h2
  have : (1 : Nat) ^^^ 1 = 0 := by decide
  rw [this] at h2
  omega

theorem and_two_pow_eq (n i : Nat) : n &&& 2 ^ i = 2 ^ i * (n / 2 ^ i % 2) := by
  have h1 : (n &&& 2 ^ i) / 2 ^ i = n / 2 ^ i &&& 2 ^ i / 2 ^ i := Nat.and_div_two_pow
  have h2 : (n &&& 2 ^ i) % 2 ^ i = n % 2 ^ i &&& 2 ^ i % 2 ^ i := Nat.and_mod_two_pow
  rw [Nat.div_self (Nat.two_pow_pos i), Nat.and_one_is_mod] at h1
  rw [Nat.mod_self, Nat.and_zero] at h2
  have := Nat.div_add_mod (n &&& 2 ^ i) (2 ^ i)
  rw [h1, h2] at this
  omega

theorem xor_two_pow_of_bit {n i : Nat} (h : n &&& 2 ^ i ≠ 0) : n ^^^ 2 ^ i = n - 2 ^ i ∧ 2 ^ i ≤ n := by
  have hP := Nat.two_pow_pos i
  have hq : n / 2 ^ i % 2 = 1 := by
    rw [and_two_pow_eq] at h
    have : n / 2 ^ i % 2 ≠ 0 := fun e => h (by rw [e]; simp)
    omega
  have h1 : (n ^^^ 2 ^ i) / 2 ^ i = n / 2 ^ i ^^^ 2 ^ i / 2 ^ i := Nat.xor_div_two_pow
  have h2 : (n ^^^ 2 ^ i) % 2 ^ i = n % 2 ^ i ^^^ 2 ^ i % 2 ^ i := Nat.xor_mod_two_pow
  rw [Nat.div_self hP, xor_one_of_odd hq] at h1
  rw [Nat.mod_self, Nat.xor_zero] at h2
  have e1 := Nat.div_add_mod (n ^^^ 2 ^ i) (2 ^ i)
  have e2 := Nat.div_add_mod n (2 ^ i)
  rw [h1, h2] at e1
  have hq1 : 1 ≤ n / 2 ^ i := by generalize n / 2 ^ i = q at hq; omega
  have : 2 ^ i * (n / 2 ^ i - 1) = 2 ^ i * (n / 2 ^ i) - 2 ^ i := by
    rw [Nat.mul_sub, Nat.mul_one]
  have hle : 2 ^ i * 1 ≤ 2 ^ i * (n / 2 ^ i) := Nat.mul_le_mul_left _ hq1
  constructor <;> omega

/-! ## `imul_pow5` -/

theorem pow5SmallLoop_spec (step power fuel : Nat) (x : Limbs) (n : Nat) (hv : Valid x) (hp : power < 2 ^ 64)
    (hp0 : power ≠ 0) (hpow : power = 5 ^ step) (hstep : 1 ≤ step) (hf : n ≤ fuel) :
    value (small.pow5SmallLoop step power fuel x n).1 * 5 ^ (small.pow5SmallLoop step power fuel x n).2 =
      value x * 5 ^ n ∧
    Valid (small.pow5SmallLoop step power fuel x n).1 ∧ (small.pow5SmallLoop step power fuel x n).2 < step ∧
    (Normal x → Normal (small.pow5SmallLoop step power fuel x n).1) ∧
    x.length ≤ (small.pow5SmallLoop step power fuel x n).1.length := by
  induction fuel generalizing x n with
  | zero =>
    have : n = 0 := by omega
    subst this
    simp only [small.pow5SmallLoop]
    exact ⟨trivial, hv, by omega, id, Nat.le_refl _⟩
  | succ fuel ih =>
    simp only [small.pow5SmallLoop]
    by_cases h : n ≥ step
    · simp only [h, if_true]
      have ⟨m1, m2⟩ := small_imul_spec x power hv hp
      have ⟨i1, i2, i3, i4, i5⟩ := ih (small.imul x power) (n - step) m2 (by omega)
      refine ⟨?_, i2, i3, fun hn => i4 (small_imul_normal x power hv hp hp0 hn), ?_⟩
      · rw [i1, m1, hpow, Nat.mul_assoc, ← Nat.pow_add]; congr 2; omega
      · exact Nat.le_trans (small_imul_length x power).1 i5
    · simp only [h, if_false]
      exact ⟨trivial, hv, by omega, id, Nat.le_refl _⟩

theorem pow5LargeLoop_some (fuel : Nat) : ∀ (x : Limbs) (idx n : Nat) (z : Limbs), Valid x →
    small.pow5LargeLoop fuel x idx (2 ^ idx) n = some z →
    value z = value x * 5 ^ n ∧ Valid z ∧ (Normal x → Normal z) := by
  induction fuel with
  | zero =>
    intro x idx n z hv h
    unfold small.pow5LargeLoop at h
    by_cases hn : n = 0
    · subst hn; simp at h; subst h; exact ⟨by simp, hv, id⟩
    · simp [hn] at h
  | succ fuel ih =>
    intro x idx n z hv h
    unfold small.pow5LargeLoop at h
    have hbit : (2 : Nat) ^ idx <<< 1 = 2 ^ (idx + 1) := by rw [Nat.shiftLeft_eq, Nat.pow_one, ← Nat.pow_succ]
    by_cases hn : n = 0
    · subst hn; simp at h; subst h; exact ⟨by simp, hv, id⟩
    · have hn' : (n == 0) = false := by simpa using hn
      rw [hn'] at h
      simp only [Bool.false_eq_true, if_false] at h
      by_cases hb : n &&& 2 ^ idx ≠ 0
      · have hb' : (n &&& 2 ^ idx != 0) = true := bne_iff_ne.mpr hb
        rw [hb'] at h
        simp only [if_true, Option.bind_eq_bind, Option.bind_eq_some_iff] at h
        obtain ⟨p, hp, x', hx', hrec⟩ := h
        have ⟨p1, p2, p3, p4⟩ := pow5Entry hp
        have ⟨m1, m2, m3⟩ := large_imul_some hv p2 hx'
        have ⟨x1, x2⟩ := xor_two_pow_of_bit hb
        rw [hbit, x1] at hrec
        have ⟨r1, r2, r3⟩ := ih x' (idx + 1) (n - 2 ^ idx) z m2 hrec
        refine ⟨?_, r2, fun hnx => r3 (m3 hnx (by rw [p1]; exact Nat.pos_iff_ne_zero.mp (Nat.pow_pos (by norm_num))))⟩
        rw [r1, m1, p1, Nat.mul_assoc, ← Nat.pow_add]; congr 2; omega
      · have hb' : (n &&& 2 ^ idx != 0) = false := by simpa using hb
        rw [hb'] at h
        simp only [Bool.false_eq_true, if_false] at h
        rw [hbit] at h
        exact ih x (idx + 1) n z hv h

/-- **`imul_pow5` refines** (partial correctness on both routes). -/
theorem small_imulPow5_some {x z : Limbs} {n : Nat} (hv : Valid x) (h : small.imulPow5 x n = some z) :
    value z = value x * 5 ^ n ∧ Valid z ∧ (Normal x → Normal z) := by
  unfold small.imulPow5 at h
  by_cases hn : n = 0
  · subst hn; simp at h; subst h; exact ⟨by simp, hv, id⟩
  · have hn' : (n == 0) = false := by simpa using hn
    rw [hn'] at h
    simp only [Bool.false_eq_true, if_false] at h
    split at h
    · cases h
    · rename_i lp _
      split at h
      · -- iterated small powers
        simp only [Option.some.injEq] at h; subst h
        have hlen := consts.2.2.2.1
        have ⟨e27, l27⟩ := pow5_64_entry (i := pow5_64.length - 1) (by rw [hlen]; norm_num)
        have hne : pow5_64.getD (pow5_64.length - 1) 0 ≠ 0 := by
          rw [e27]; exact Nat.pos_iff_ne_zero.mp (Nat.pow_pos (by norm_num))
        have ⟨s1, s2, s3, s4, _⟩ := pow5SmallLoop_spec (pow5_64.length - 1) _ n x n hv l27 hne e27
          (by rw [hlen]; norm_num) (Nat.le_refl _)
        generalize small.pow5SmallLoop (pow5_64.length - 1) (pow5_64.getD (pow5_64.length - 1) 0) n x n = r
          at s1 s2 s3 s4
        have ⟨e, l⟩ := pow5_64_entry (i := r.2) (by rw [hlen] at s3; omega)
        have ⟨m1, m2⟩ := small_imul_spec r.1 _ s2 l
        refine ⟨by rw [m1, e]; exact s1, m2, fun hnx => small_imul_normal r.1 _ s2 l ?_ (s4 hnx)⟩
        rw [e]; exact Nat.pos_iff_ne_zero.mp (Nat.pow_pos (by norm_num))
      · exact pow5LargeLoop_some 33 x 0 n z hv (by simpa using h)

/-- on the small-powers route `imul_pow5` never panics -/
theorem small_imulPow5_total {x : Limbs} {n : Nat} (hn : n < 2 ^ 14)
    (hpath : ∀ lp, largePow5Limbs[Nat.log2 n]? = some lp → x.length + lp.length < 2 * karatsubaCutoff) :
    ∃ z, small.imulPow5 x n = some z := by
  unfold small.imulPow5
  by_cases h0 : n = 0
  · subst h0; exact ⟨x, by simp⟩
  · have hn' : (n == 0) = false := by simpa using h0
    rw [hn']
    simp only [Bool.false_eq_true, if_false, Nat.add_sub_cancel]
    have hlog : Nat.log2 n < 14 := (Nat.log2_lt h0).mpr hn
    have hlt : Nat.log2 n < largePow5Limbs.length := by rw [consts.1]; exact hlog
    rw [List.getElem?_eq_getElem hlt]
    simp only
    rw [if_pos (hpath _ (List.getElem?_eq_getElem hlt))]
    exact ⟨_, rfl⟩

/-! ## the trait: `imul_pow2`, `imul_pow10`, `from_u64`, `imul_small`, `iadd_small` -/

theorem math_imulPow2_spec (x : Limbs) (n : Nat) (hv : Valid x) :
    value (Math.imulPow2 x n) = value x * 2 ^ n ∧ Valid (Math.imulPow2 x n) ∧
    (Normal x → Normal (Math.imulPow2 x n)) := small_ishl_spec x n hv

theorem math_imulPow10_some {x z : Limbs} {n : Nat} (hv : Valid x) (h : Math.imulPow10 x n = some z) :
    value z = value x * 10 ^ n ∧ Valid z ∧ (Normal x → Normal z) := by
  unfold Math.imulPow10 Math.imulPow5 at h
  simp only [Option.map_eq_some_iff] at h
  obtain ⟨w, hw, rfl⟩ := h
  have ⟨a1, a2, a3⟩ := small_imulPow5_some hv hw
  have ⟨b1, b2, b3⟩ := math_imulPow2_spec w n a2
  refine ⟨?_, b2, fun hn => b3 (a3 hn)⟩
  rw [b1, a1, Nat.mul_assoc, ← Nat.mul_pow]

theorem math_fromU64_spec (x : Nat) (hx : x < 2 ^ 64) :
    value (Math.fromU64 x) = x ∧ Valid (Math.fromU64 x) ∧ Normal (Math.fromU64 x) ∧ (Math.fromU64 x).length ≤ 1 := by
  unfold Math.fromU64 Math.normalize
  rw [limb_of_lt hx]
  have hv : Valid [x] := valid_singleton hx
  exact ⟨by rw [value_normalize]; simp, valid_normalize hv, normal_normalize _, by simpa using normalize_length_le [x]⟩

end SJ.Proofs.LexMath
