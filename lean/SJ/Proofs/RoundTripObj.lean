import SJ.Proofs.MkObj
import SJ.Spec.WF
/-!
# C04 helper lemmas, objects: re-inserting the entries of a well-formed object rebuilds it

`mkObj cfg kvs = .obj kvs` when the keys of `kvs` are strictly ascending (default build: every
`BTreeMap::insert` appends at the end) or pairwise distinct (`preserve_order`: every
`IndexMap::insert` appends at the end).
-/
namespace SJ.Proofs.RoundTripObj
open SJ SJ.Model.Machine SJ.Proofs.CanonM SJ.Proofs.MkObj SJ.Spec.WF

theorem btInsert_last (k : Bytes) (v : JV) (m : List (Bytes × JV))
    (h : ∀ k' ∈ keys m, bytesLt k' k = true) : btInsert k v m = m ++ [(k, v)] := by
  induction m with
  | nil => rfl
  | cons e r ih =>
    obtain ⟨k', v'⟩ := e
    have hk : bytesLt k' k = true := h k' (by simp [keys])
    have h1 : ¬ k = k' := fun e => bytesLt_ne hk e.symm
    have h2 : bytesLt k k' = false := bytesLt_asymm hk
    simp only [btInsert, h1, if_false, h2, Bool.false_eq_true, List.cons_append, List.cons.injEq, true_and]
    exact ih (fun k'' hk'' => h k'' (by simp only [keys, List.map_cons, List.mem_cons] at hk'' ⊢; exact .inr hk''))

theorem ixInsert_new (k : Bytes) (v : JV) (m : List (Bytes × JV)) (h : k ∉ keys m) :
    ixInsert k v m = m ++ [(k, v)] := by
  induction m with
  | nil => rfl
  | cons e r ih =>
    obtain ⟨k', v'⟩ := e
    simp only [keys, List.map_cons, List.mem_cons, not_or] at h
    simp only [ixInsert, h.1, if_false, List.cons_append, List.cons.injEq, true_and]
    exact ih h.2

theorem sorted_of_ascending : ∀ ks : List Bytes, ascending ks = true → Sorted ks
  | [], _ => List.Pairwise.nil
  | [a], _ => List.pairwise_singleton _ a
  | a :: b :: r, h => by
    simp only [ascending, Bool.and_eq_true] at h
    have ih : Sorted (b :: r) := sorted_of_ascending (b :: r) h.2
    have hb := List.pairwise_cons.1 ih
    refine List.pairwise_cons.2 ⟨?_, ih⟩
    intro c hc
    rcases List.mem_cons.1 hc with rfl | hc
    · exact bytesLt_eq ▸ h.1
    · exact bytesLt_trans (bytesLt_eq ▸ h.1) (hb.1 c hc)

theorem nodup_of_distinct : ∀ ks : List Bytes, distinct ks = true → ks.Nodup
  | [], _ => List.nodup_nil
  | a :: r, h => by
    simp only [distinct, Bool.and_eq_true, Bool.not_eq_true', List.contains_eq_mem, decide_eq_false_iff_not] at h
    exact List.nodup_cons.2 ⟨h.1, nodup_of_distinct r h.2⟩

theorem build_id_bt (cfg : Cfg) (hpo : cfg.po = false) (kvs : List (Bytes × JV)) (h : Sorted (keys kvs)) :
    build cfg kvs = kvs := by
  induction kvs using snoc_ind with
  | nil => rfl
  | snoc pre kv ih =>
    obtain ⟨k, v⟩ := kv
    simp only [keys, List.map_append, List.map_cons, List.map_nil] at h
    have hp := List.pairwise_append.1 h
    rw [build_snoc, ih hp.1]
    simp only [ins, hpo, Bool.false_eq_true, if_false]
    exact btInsert_last k v pre (fun k' hk' => hp.2.2 k' hk' k (by simp))

theorem build_id_ix (cfg : Cfg) (hpo : cfg.po = true) (kvs : List (Bytes × JV)) (h : (keys kvs).Nodup) :
    build cfg kvs = kvs := by
  induction kvs using snoc_ind with
  | nil => rfl
  | snoc pre kv ih =>
    obtain ⟨k, v⟩ := kv
    simp only [keys, List.map_append, List.map_cons, List.map_nil] at h
    have hp := List.nodup_append.1 h
    rw [build_snoc, ih hp.1]
    simp only [ins, hpo, if_true]
    exact ixInsert_new k v pre (fun hk => hp.2.2 k hk k (by simp) rfl)

/-- **inserting the entries of a well-formed object, in order, rebuilds exactly that object** -/
theorem mkObj_id (cfg : Cfg) (kvs : List (Bytes × JV))
    (h : keysOK (specCfg cfg) (kvs.map Prod.fst) = true) : mkObj cfg kvs = .obj kvs := by
  rw [mkObj_eq_build]
  congr 1
  unfold keysOK at h
  cases hpo : cfg.po with
  | false =>
    have : (specCfg cfg).po = false := hpo
    simp only [this, Bool.false_eq_true, if_false] at h
    exact build_id_bt cfg hpo kvs (sorted_of_ascending _ h)
  | true =>
    have : (specCfg cfg).po = true := hpo
    simp only [this, if_true] at h
    exact build_id_ix cfg hpo kvs (nodup_of_distinct _ h)

end SJ.Proofs.RoundTripObj
