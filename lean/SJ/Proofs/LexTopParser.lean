import SJ.Proofs.LexTopRoundtrip
import SJ.Spec.WF
/-!
# C07 top level, part 6: the byte machine under `float_roundtrip`, and the C04 hypothesis

The parser machine (`Model.Machine`, every source kind, also inside nested `Value`s) converts a scanned literal with
`Model.Num.convertRoundtrip`; by `deFloat_eq` that *is* what `de.rs` + lexical compute. `numOf_fr` states it for
`Spec.Canon.numOf` (the denotation used by C01/C02/C04), `parseTop_fr` for a bare literal from every source, and
`floatRT_fr` discharges C04's float hypothesis from `RyuShortest`.
-/
namespace SJ.Proofs.LexTopParser
open SJ SJ.Gen SJ.Model.Lexical SJ.Model.Num SJ.Spec.Ieee
open SJ.Proofs.LexSplit SJ.Proofs.LexTopFloat SJ.Proofs.LexTopSpec SJ.Proofs.LexTopRoundtrip
open SJ.Proofs.NumLink (PartsWF toNumLit numOfNRes)
open SJ.Spec.Grammar (NumParts IsNumber)
open SJ.Spec.Canon (partsOf numOf)
open SJ.Spec.Number (splitNumber)
open SJ.Spec.Program (Ext ExtOK finite64 finite32)
open SJ.Model.Machine SJ.Proofs.CanonM

theorem specG_false (p : Parts) : specG false p = convertRoundtrip p := by
  unfold specG; simp only [Bool.false_eq_true, if_false]

theorem specG_true (p : Parts) : specG true p = convertRoundtripSingle p := by
  unfold specG; simp only [if_true]

/-- under `float_roundtrip` (without `arbitrary_precision`) the denotation's number is what `de.rs` + lexical compute -/
theorem numOf_fr (cfg : Spec.Canon.Cfg) (hfr : cfg.fr = true) (hap : cfg.ap = false) (p : NumParts)
    (hwf : p.WF = true) (hlen : p.int.length + p.frac.length + 20 < 2 ^ 29) :
    numOf cfg p = numOfNRes (deFloatRoundtrip false (partsOf p)) := by
  have hpw := SJ.Proofs.NumLinkParser.partsOf_wf p hwf
  have hfr' : ((partsOf p).frac.getD []) = p.frac.drop 1 := SJ.Proofs.Complete.fracOf_getD p.frac
  have hint : (partsOf p).int = p.int := rfl
  have wf : WF (partsOf p) := wf_of_partsWF _ hpw (by rw [hfr', List.length_drop]; omega)
  rw [deFloat_eq false _ wf (by rw [hfr', hint, List.length_append, List.length_drop]; omega), specG_false]
  unfold numOf Spec.Canon.convert
  simp only [hap, hfr, Bool.false_eq_true, if_false, if_true]
  cases convertRoundtrip (partsOf p) <;> rfl

/-- **every source, inside `Value`s.** A bare number literal, from a `&str`, a slice or a reader, under
    `float_roundtrip`: the machine returns the number lexical computes, or `NumberOutOfRange` when that is infinite. -/
theorem parseTop_fr (env : Env) (henv : env.tgt = .value) (hfr : env.cfg.fr = true) (hap : env.cfg.ap = false)
    (p : NumParts) (hwf : p.WF = true) (hlen : p.int.length + p.frac.length + 20 < 2 ^ 29) :
    (∀ x, numOfNRes (deFloatRoundtrip false (partsOf p)) = some x → parseTop env p.bytes = .ok (.num x)) ∧
    (numOfNRes (deFloatRoundtrip false (partsOf p)) = none →
      ∃ idx, idx ≤ p.bytes.length ∧ parseTop env p.bytes = .err .NumberOutOfRange idx) := by
  have hn := numOf_fr (specCfg env.cfg) hfr hap p hwf hlen
  constructor
  · intro x hx
    exact SJ.Proofs.NumLinkParser.parseTop_num_ok env henv p hwf x (by rw [hn]; exact hx)
  · intro hx
    exact SJ.Proofs.NumLinkParser.parseTop_num_err env henv hap p hwf (by rw [hn]; exact hx)

/-- C04's float hypothesis for one double under `float_roundtrip`: the printed text has `ryu`'s shape and its exact
    value rounds to `b` -/
theorem floatRT_fr_at (cfg : Spec.Canon.Cfg) (hfr : cfg.fr = true) (hap : cfg.ap = false) (ext : Ext) (b : UInt64)
    (hn : IsNumber (ext.ryu64 b)) (ht : RyuText (ext.ryu64 b))
    (hnear : roundNE64 (SJ.Proofs.NumLinkParser.litOf (splitNumber (ext.ryu64 b))).neg
      (SJ.Proofs.NumLinkParser.litOf (splitNumber (ext.ryu64 b))).exact.1
      (SJ.Proofs.NumLinkParser.litOf (splitNumber (ext.ryu64 b))).exact.2 = some b) :
    Spec.WF.floatRT cfg ext b = true := by
  obtain ⟨hwf, hbytes⟩ := SJ.Proofs.Number.splitNumber_of_isNumber _ hn
  have hlen : (splitNumber (ext.ryu64 b)).int.length + (splitNumber (ext.ryu64 b)).frac.length + 20 < 2 ^ 29 := by
    have h24 := ht.1
    have := congrArg List.length hbytes
    unfold NumParts.bytes at this
    simp only [List.length_append] at this
    omega
  unfold Spec.WF.floatRT
  rw [numOf_fr cfg hfr hap _ hwf hlen, roundtrip64_at _ b hn ht hnear]
  simp [numOfNRes]

/-- C04's float hypothesis under `float_roundtrip`, from `RyuShortest` -/
theorem floatRT_fr (cfg : Spec.Canon.Cfg) (hfr : cfg.fr = true) (hap : cfg.ap = false) (ext : Ext) (hext : ExtOK ext)
    (hr : RyuShortest ext) (b : UInt64) (hb : finite64 b = true) : Spec.WF.floatRT cfg ext b = true :=
  floatRT_fr_at cfg hfr hap ext b (hext.ryu64_number b hb) (hr.f64_text b hb) (hr.f64_nearest b hb)

end SJ.Proofs.LexTopParser
