import SJ.Model.FromValue
/-!
# Lemmas about the two `Value` deserializers (`SJ.Model.FromValue`)

* `fromValue_eq_ref` (with its companions over field / element / variant lists): the owned and the
  borrowed transcription agree on every schema and every value — mutual structural induction over the
  nested `Schema` universe;
* `rebuild_id`: re-reading a `Value` as a `Value` is the identity (not `arbitrary_precision`, finite floats);
* `tupleSeq_length`, `fieldsSeq_length`: what a fixed-length visitor consumes;
* range lemmas for integer targets.
No Mathlib needed.
-/
namespace SJ.Proofs.FromValue
open SJ SJ.Model.FromValue

theorem visitArray_eq (r) (w) : visitArray r w = visitArrayRef r w := rfl
theorem deInt_eq (cfg w v) : deInt cfg w v = deIntRef cfg w v := by
  cases v <;> rfl

mutual
theorem rebuild_eq (cfg ext) : ∀ v, rebuild cfg ext v = rebuildRef cfg ext v
  | .null => by simp [rebuild, rebuildRef]
  | .bool _ => by simp [rebuild, rebuildRef]
  | .num _ => by simp [rebuild, rebuildRef]
  | .str _ => by simp [rebuild, rebuildRef]
  | .arr xs => by simp [rebuild, rebuildRef, rebuildList_eq cfg ext xs]
  | .obj kvs => by simp [rebuild, rebuildRef, rebuildMembers_eq cfg ext kvs]
theorem rebuildList_eq (cfg ext) : ∀ xs, rebuildList cfg ext xs = rebuildRefList cfg ext xs
  | [] => by simp [rebuildList, rebuildRefList]
  | x :: xs => by simp [rebuildList, rebuildRefList, rebuild_eq cfg ext x, rebuildList_eq cfg ext xs]
theorem rebuildMembers_eq (cfg ext) : ∀ kvs, rebuildMembers cfg ext kvs = rebuildRefMembers cfg ext kvs
  | [] => by simp [rebuildMembers, rebuildRefMembers]
  | (k, v) :: r => by simp [rebuildMembers, rebuildRefMembers, rebuild_eq cfg ext v, rebuildMembers_eq cfg ext r]
end

mutual
theorem fromValue_eq_ref (cfg ext) : ∀ (s : Schema) (v : JV), fromValue cfg ext s v = fromValueRef cfg ext s v
  | .bool, v => by cases v <;> simp [fromValue, fromValueRef]
  | .int w, v => by simp [fromValue, fromValueRef, deInt_eq]
  | .f64, v => by cases v <;> simp [fromValue, fromValueRef]
  | .f32, v => by cases v <;> simp [fromValue, fromValueRef]
  | .char, v => by cases v <;> simp [fromValue, fromValueRef]
  | .string, v => by cases v <;> simp [fromValue, fromValueRef]
  | .bytes, v => by
      have h : deInt cfg IntTy.u8 = deIntRef cfg IntTy.u8 := funext (deInt_eq cfg _)
      cases v <;> simp [fromValue, fromValueRef, h, visitArray_eq]
  | .option s, v => by cases v <;> simp [fromValue, fromValueRef, fromValue_eq_ref cfg ext s]
  | .unit, v => by cases v <;> simp [fromValue, fromValueRef]
  | .unitStruct, v => by cases v <;> simp [fromValue, fromValueRef]
  | .newtype s, v => by simp [fromValue, fromValueRef, fromValue_eq_ref cfg ext s]
  | .seq s, v => by
      have h : fromValue cfg ext s = fromValueRef cfg ext s := funext (fromValue_eq_ref cfg ext s)
      cases v <;> simp [fromValue, fromValueRef, h, visitArray_eq]
  | .tuple ss, v => by cases v <;> simp [fromValue, fromValueRef, tuple_eq_ref cfg ext ss, visitArray_eq]
  | .map k s, v => by
      have h : fromValue cfg ext s = fromValueRef cfg ext s := funext (fromValue_eq_ref cfg ext s)
      cases v <;> simp [fromValue, fromValueRef, h]
  | .struct_ fs deny, v => by
      have h : fieldDe cfg ext fs = fieldDeRef cfg ext fs := by
        funext k v; exact fieldDe_eq_ref cfg ext fs k v
      cases v <;> simp [fromValue, fromValueRef, h, fields_eq_ref cfg ext fs, visitArray_eq]
  | .enum_ vs, v => by
      cases v with
      | obj kvs =>
        cases kvs with
        | nil => simp [fromValue, fromValueRef]
        | cons kv r =>
          cases r with
          | nil => cases kv; simp [fromValue, fromValueRef, variant_eq_ref cfg ext vs]
          | cons _ _ => simp [fromValue, fromValueRef]
      | str s => simp [fromValue, fromValueRef, variant_eq_ref cfg ext vs]
      | _ => simp [fromValue, fromValueRef]
  | .ignored, v => by simp [fromValue, fromValueRef]
  | .any, v => by simp [fromValue, fromValueRef, rebuild_eq]
theorem tuple_eq_ref (cfg ext) : ∀ (ss : List Schema) (xs : List JV), tupleSeq cfg ext ss xs = tupleSeqRef cfg ext ss xs
  | [], xs => by simp [tupleSeq, tupleSeqRef]
  | _ :: _, [] => by simp [tupleSeq, tupleSeqRef]
  | s :: ss, x :: xs => by simp [tupleSeq, tupleSeqRef, fromValue_eq_ref cfg ext s x, tuple_eq_ref cfg ext ss xs]
theorem fields_eq_ref (cfg ext) : ∀ (fs : List (Bytes × Schema)) (xs : List JV), fieldsSeq cfg ext fs xs = fieldsSeqRef cfg ext fs xs
  | [], xs => by simp [fieldsSeq, fieldsSeqRef]
  | _ :: _, [] => by simp [fieldsSeq, fieldsSeqRef]
  | (_, s) :: fs, x :: xs => by simp [fieldsSeq, fieldsSeqRef, fromValue_eq_ref cfg ext s x, fields_eq_ref cfg ext fs xs]
theorem fieldDe_eq_ref (cfg ext) : ∀ (fs : List (Bytes × Schema)) (k : Bytes) (v : JV), fieldDe cfg ext fs k v = fieldDeRef cfg ext fs k v
  | [], _, _ => by simp [fieldDe, fieldDeRef]
  | (n, s) :: fs, k, v => by simp [fieldDe, fieldDeRef, fromValue_eq_ref cfg ext s v, fieldDe_eq_ref cfg ext fs k v]
theorem variant_eq_ref (cfg ext) : ∀ (vs : List (Bytes × VariantShape)) (i : Nat) (k : Bytes) (p : Option JV), variantDe cfg ext vs i k p = variantDeRef cfg ext vs i k p
  | [], _, _, _ => by simp [variantDe, variantDeRef]
  | (n, sh) :: vs, i, k, p => by simp [variantDe, variantDeRef, shape_eq_ref cfg ext sh p, variant_eq_ref cfg ext vs (i + 1) k p]
theorem shape_eq_ref (cfg ext) : ∀ (sh : VariantShape) (p : Option JV), shapeDe cfg ext sh p = shapeDeRef cfg ext sh p
  | .unit, p => by simp [shapeDe, shapeDeRef]
  | .newtype s, p => by cases p <;> simp [shapeDe, shapeDeRef, fromValue_eq_ref cfg ext s]
  | .tuple ss, p => by
      cases p with
      | none => simp [shapeDe, shapeDeRef]
      | some v => cases v <;> simp [shapeDe, shapeDeRef, tuple_eq_ref cfg ext ss, visitArray_eq]
  | .struct_ fs, p => by
      have h : fieldDe cfg ext fs = fieldDeRef cfg ext fs := by
        funext k v; exact fieldDe_eq_ref cfg ext fs k v
      cases p with
      | none => simp [shapeDe, shapeDeRef]
      | some v => cases v <;> simp [shapeDe, shapeDeRef, h]
end

mutual
theorem rebuild_id (cfg : Cfg) (ext) (hap : cfg.ap = false) : ∀ v, finiteFloats v = true → rebuild cfg ext v = v
  | .null, _ => by simp [rebuild]
  | .bool _, _ => by simp [rebuild]
  | .num n, h => by
      cases n with
      | float b => simp [finiteFloats] at h; simp [rebuild, numberAny, hap, h]
      | pos _ => simp [rebuild, numberAny, hap]
      | neg _ => simp [rebuild, numberAny, hap]
      | lit _ => simp [rebuild, numberAny, hap]
  | .str _, _ => by simp [rebuild]
  | .arr xs, h => by simp [finiteFloats] at h; simp [rebuild, rebuildList_id cfg ext hap xs h]
  | .obj kvs, h => by simp [finiteFloats] at h; simp [rebuild, rebuildMembers_id cfg ext hap kvs h]
theorem rebuildList_id (cfg : Cfg) (ext) (hap : cfg.ap = false) : ∀ xs, finiteFloatsList xs = true → rebuildList cfg ext xs = xs
  | [], _ => by simp [rebuildList]
  | x :: xs, h => by
      simp [finiteFloatsList] at h
      simp [rebuildList, rebuild_id cfg ext hap x h.1, rebuildList_id cfg ext hap xs h.2]
theorem rebuildMembers_id (cfg : Cfg) (ext) (hap : cfg.ap = false) : ∀ kvs, finiteFloatsMembers kvs = true → rebuildMembers cfg ext kvs = kvs
  | [], _ => by simp [rebuildMembers]
  | (k, v) :: r, h => by
      simp [finiteFloatsMembers] at h
      simp [rebuildMembers, rebuild_id cfg ext hap v h.1, rebuildMembers_id cfg ext hap r h.2]
end

theorem tupleSeq_length (cfg ext) : ∀ (ss : List Schema) (xs : List JV) (ys rest),
    tupleSeq cfg ext ss xs = .ok (ys, rest) → xs.length = ss.length + rest.length ∧ ys.length = ss.length
  | [], xs, ys, rest, h => by simp [tupleSeq] at h; obtain ⟨rfl, rfl⟩ := h; simp
  | _ :: _, [], _, _, h => by simp [tupleSeq, fail] at h
  | s :: ss, x :: xs, ys, rest, h => by
      simp only [tupleSeq] at h
      split at h
      · simp at h
      · split at h
        · simp at h
        · rename_i ys' rest' h2
          simp at h
          obtain ⟨rfl, rfl⟩ := h
          have := tupleSeq_length cfg ext ss xs _ _ h2
          simp; omega



theorem fieldsSeq_length (cfg ext) : ∀ (fs : List (Bytes × Schema)) (xs : List JV) (ys rest),
    fieldsSeq cfg ext fs xs = .ok (ys, rest) → xs.length = fs.length + rest.length ∧ ys.length = fs.length
  | [], xs, ys, rest, h => by simp [fieldsSeq] at h; obtain ⟨rfl, rfl⟩ := h; simp
  | _ :: _, [], _, _, h => by simp [fieldsSeq, fail] at h
  | (_, s) :: fs, x :: xs, ys, rest, h => by
      simp only [fieldsSeq] at h
      split at h
      · simp at h
      · split at h
        · simp at h
        · rename_i ys' rest' h2
          simp at h
          obtain ⟨rfl, rfl⟩ := h
          have := fieldsSeq_length cfg ext fs xs _ _ h2
          simp; omega

theorem visitArray_ok {r wrap t} (h : visitArray r wrap = .ok t) : ∃ ys, r = .ok (ys, []) ∧ t = wrap ys := by
  unfold visitArray at h
  split at h
  · simp at h
  · rename_i ys remaining
    split at h
    · rename_i he
      simp at h
      cases remaining with
      | nil => exact ⟨ys, rfl, h.symm⟩
      | cons _ _ => simp at he
    · simp [fail] at h

theorem visitInt_ok {w n t} (h : visitInt w n = .ok t) : t = .int n ∧ w.inRange n = true := by
  unfold visitInt at h
  split at h
  · simp at h; exact ⟨h.symm, by assumption⟩
  · simp [fail] at h

theorem rangeChecked_some {w v x} (h : rangeChecked w v = some x) : w.inRange x = true := by
  unfold rangeChecked at h
  split at h
  · simp at h; subst h; assumption
  · simp at h

theorem rustParseInt_range {w s x} (h : rustParseInt w s = some x) : w.inRange x = true := by
  unfold rustParseInt parseDigits at h
  split at h
  · simp at h
  · exact rangeChecked_some h

theorem numberInt_ok {cfg w n t} (h : numberInt cfg w n = .ok t) : ∃ x, t = .int x ∧ w.inRange x = true := by
  unfold numberInt at h
  split at h
  · split at h
    · split at h
      · rename_i x hx
        simp at h; exact ⟨x, h.symm, rustParseInt_range hx⟩
      · simp [fail] at h
    · simp [fail] at h
  · split at h
    · exact ⟨_, visitInt_ok h⟩
    · exact ⟨_, visitInt_ok h⟩
    · simp [fail] at h
    · simp [fail] at h

theorem int_in_range {cfg ext w v t} (h : fromValue cfg ext (.int w) v = .ok t) : ∃ x, t = .int x ∧ w.inRange x = true := by
  simp only [fromValue] at h
  cases v <;> simp [deInt, fail] at h
  exact numberInt_ok h

end SJ.Proofs.FromValue
