import SJ.Model.RawNested
import SJ.Props.C19
import SJ.Props.C12
import SJ.Props.C02
import SJ.Proofs.StreamValues
import SJ.Proofs.TypedBasic
/-!
# C19 helper lemmas: one raw capture is exactly one value's text

* `runPfx_ok_runPrefix` / `runPfx_false_eq`: the typed model's sub-parser `runPfx` started on no padding
  frames is `Stream.runPrefix`.
* `runPrefix_span`: whatever `runPrefix` consumes from a non-whitespace start is derivable as ONE value —
  nothing after its last byte is included (soundness of the machine for the consumed bytes, then
  completeness to see that a shorter reading would have stopped earlier).
* `deRaw_sound` / `deRaw_complete`: `deserialize_raw_value` at any position of any input.
-/
namespace SJ.Proofs.RawSpan
open SJ SJ.Gen SJ.Model.Machine SJ.Model.Stream SJ.Proofs.Machine SJ.Proofs.Complete SJ.Proofs.StreamValues
open SJ.Spec.Grammar (CST Ws Derives JsonText)
open SJ.Model.Typed (runPfx completed finishT machine ignEnv MOut Res)
open SJ.Model.RawNested

/-! ## `runPfx … 0` is `runPrefix` -/

theorem completed_zero (s : St) :
    completed 0 s = (match s.mode with | .done v => some v | _ => none) := by
  unfold completed
  cases hm : s.mode <;> simp only []
  · -- afterElem
    cases hs : s.stack with
    | nil => simp
    | cons f fs => simp

theorem finishT_zero (menv : Env) (s : St) : finishT menv 0 s = finish menv s := by
  unfold finishT finish
  cases hm : s.mode <;> simp only []
  rename_i n
  cases n.phase <;> simp only []
  all_goals
    cases he : endNumber menv s n with
    | error e => rfl
    | ok s' =>
      simp only [completed_zero]
      cases hm' : s'.mode <;> simp [finishMode, hm']

theorem runPfx_ok_runPrefix (menv : Env) (flt : Bool) (s : St) (i : Nat) (bs : Bytes) (v : JV) (e : Nat)
    (h : runPfx menv flt 0 s i bs = .ok v e) : runPrefix menv s i bs = .ok v e := by
  induction bs generalizing s i with
  | nil =>
    unfold runPfx at h
    unfold runPrefix
    split at h
    · cases h
    · rw [finishT_zero] at h
      cases hf : finish menv s with
      | ok v' => rw [hf] at h; simpa using h
      | error c => rw [hf] at h; simp at h
  | cons b bs ih =>
    unfold runPfx at h
    unfold runPrefix
    cases h1 : step1 menv s b with
    | err c a => rw [h1] at h; simp at h
    | next s' =>
      rw [h1] at h
      simp only [completed_zero] at h ⊢
      cases hm : s'.mode <;> simp only [hm] at h ⊢ <;> first | exact ih _ _ h | (simpa using h)
    | again s' =>
      rw [h1] at h
      simp only [completed_zero] at h ⊢
      cases hm : s'.mode <;> simp only [hm] at h ⊢
      all_goals first
        | (simpa using h)
        | (cases h2 : step1 menv s' b with
           | err c a => rw [h2] at h; simp at h
           | again s'' => rw [h2] at h; simp at h
           | next s'' =>
             rw [h2] at h
             simp only at h ⊢
             cases hm2 : s''.mode <;> simp only [hm2] at h ⊢ <;> first | exact ih _ _ h | (simpa using h))

theorem runPfx_false_eq (menv : Env) (s : St) (i : Nat) (bs : Bytes) :
    runPfx menv false 0 s i bs =
      (match runPrefix menv s i bs with | .ok v e => MOut.ok v e | .err c idx => MOut.err c idx) := by
  induction bs generalizing s i with
  | nil =>
    unfold runPfx runPrefix
    rw [finishT_zero]
    cases finish menv s <;> rfl
  | cons b bs ih =>
    unfold runPfx runPrefix
    cases h1 : step1 menv s b with
    | err c a => rfl
    | next s' =>
      simp only [completed_zero]
      cases hm : s'.mode <;> simp only [] <;> first | exact ih _ _ | rfl
    | again s' =>
      simp only [completed_zero]
      cases hm : s'.mode <;> simp only []
      all_goals first
        | rfl
        | (cases h2 : step1 menv s' b with
           | err c a => rfl
           | again s'' => rfl
           | next s'' =>
             simp only []
             cases hm2 : s''.mode <;> simp only [] <;> first | exact ih _ _ | rfl)

/-! ## what `runPrefix` consumes is one value -/

theorem ws_of_all {w : Bytes} (h : w.all isWs = true) : Ws w := by
  unfold Ws
  rw [← h]
  congr 1
  funext b
  exact (isWs_eq b).symm

theorem all_of_ws {w : Bytes} (h : Ws w) : w.all isWs = true := by
  unfold Ws at h
  rw [← h]
  congr 1
  funext b
  exact isWs_eq b

theorem ignored_side (env : Env) (henv : env.tgt = .ignored) (k : Nat) (t : CST) : Side env k t :=
  fun hv => (tgt_absurd hv henv).elim

/-- the consumed bytes `r[..e-p]` of a successful `runPrefix` from the initial state on an input that does
    not start with whitespace: they are one `value` of the grammar — first to last byte -/
theorem runPrefix_span (env : Env) (henv : env.tgt = .ignored) (p : Nat) (r : Bytes) (v : JV) (e : Nat)
    (hhead : ∀ b r', r = b :: r' → isWs b = false)
    (h : runPrefix env init p r = .ok v e) :
    p < e ∧ e ≤ p + r.length ∧ ∃ t, Derives (r.take (e - p)) t := by
  obtain ⟨s', hf, hfin⟩ := SJ.Props.C19.runPrefix_feed env init p r v e h
  have hidx := feed_idx _ _ _ _ _ _ hf
  have hlt : p < e := by
    cases r with
    | nil => unfold runPrefix at h; simp [finish, finishMode, init] at h
    | cons b bs => exact SJ.Props.C12.c12_progress env p b bs v e h
  have hlen : (r.take (e - p)).length = e - p := by omega
  have hle : e ≤ p + r.length := by
    rw [List.length_take] at hlen
    omega
  refine ⟨hlt, hle, ?_⟩
  -- the consumed bytes alone are accepted
  have hparse : parseTop env (r.take (e - p)) = .ok v := by
    unfold parseTop
    rw [run_eq_feed_finish, SJ.Props.C19.feed_shift _ _ _ 0 _ _ _ hf]
    simp only [hfin]
  obtain ⟨t, w₁, v0, w₂, hc, hw₁, hw₂, hd⟩ := SJ.Props.C02.c19_skip_sound env henv _ v hparse
  -- no whitespace in front
  have hw1nil : w₁ = [] := by
    cases w₁ with
    | nil => rfl
    | cons x xs =>
      exfalso
      cases r with
      | nil => simp at hlen; omega
      | cons b bs =>
        have hb := hhead b bs rfl
        have : (List.take (e - p) (b :: bs)).head? = some x := by rw [hc]; rfl
        have hpos : e - p = (e - p - 1) + 1 := by omega
        rw [hpos, List.take_succ_cons] at this
        simp only [List.head?_cons, Option.some.injEq] at this
        subst this
        have hx : Spec.Grammar.isWs b = true := by
          have := hw₁; simp only [Ws, List.all_cons, Bool.and_eq_true] at this; exact this.1
        rw [← isWs_eq] at hx
        rw [hx] at hb; cases hb
  subst hw1nil
  simp only [List.nil_append] at hc
  -- nothing behind: otherwise the machine would have stopped right after `v0`
  have hw2nil : w₂ = [] := by
    cases w₂ with
    | nil => rfl
    | cons x xs =>
      exfalso
      have hsplit : r = v0 ++ ((x :: xs) ++ r.drop (e - p)) := by
        rw [← List.append_assoc, ← hc, List.take_append_drop]
      have hx : isWs x = true := by
        have := hw₂; simp only [Ws, List.all_cons, Bool.and_eq_true] at this
        rw [isWs_eq]; exact this.1
      obtain ⟨val, _, hrun⟩ := runPrefix_complete env v0 t hd (ignored_side env henv 0 t)
        ((x :: xs) ++ r.drop (e - p)) p
        (fun _ d r' hdr => by
          simp only [List.cons_append, List.cons.injEq] at hdr
          rw [← hdr.1]; exact isWs_not_numCont x hx)
      rw [← hsplit, h] at hrun
      simp only [POut.ok.injEq] at hrun
      have hl : (r.take (e - p)).length = v0.length + (x :: xs).length := by rw [hc]; simp
      simp only [List.length_cons] at hl
      omega
  subst hw2nil
  simp only [List.append_nil] at hc
  exact ⟨t, hc ▸ hd⟩

/-! ## `deRaw` -/

theorem skipWs_head (rest : Bytes) (pos : Nat) (b : UInt8) (r : Bytes) (p : Nat)
    (h : skipWs rest pos = (b :: r, p)) : isWs b = false := by
  induction rest generalizing pos with
  | nil => simp [skipWs] at h
  | cons x xs ih =>
    unfold skipWs at h
    split at h
    · exact ih _ h
    · rename_i hx
      simp only [Prod.mk.injEq, List.cons.injEq] at h
      rw [← h.1.1]; simpa using hx

/-- **one capture (soundness)**: from any input position, a successful `deserialize_raw_value` has
    skipped whitespace `w`, captured `c` = exactly one grammar value, and leaves what follows it unread -/
theorem deRaw_sound (env : SJ.Model.Typed.Env) (rest : Bytes) (pos : Nat) (x : TVal) (rest' : Bytes) (e : Nat)
    (h : deRaw env rest pos = .ok x rest' e) :
    ∃ w c, x = TVal.str c ∧ rest = w ++ c ++ rest' ∧ Ws w ∧ e = pos + w.length + c.length ∧ c ≠ [] ∧
      (∃ t, Derives c t) ∧ (env.src ≠ .str → Spec.Utf8.validUtf8 c = true) := by
  unfold deRaw at h
  obtain ⟨w, hw1, hw2, hw3⟩ := SJ.Props.C19.skipWs_prefix rest pos
  generalize hsk : skipWs rest pos = sk at h hw1 hw3
  obtain ⟨r, p⟩ := sk
  simp only at h hw1 hw3
  have hhead : ∀ b r', r = b :: r' → isWs b = false := by
    intro b r' hr
    subst hr
    exact skipWs_head rest pos b r' p hsk
  unfold machine at h
  cases hrun : runPfx (ignEnv env) env.flt 0 init p r with
  | err c i => rw [hrun] at h; simp at h
  | io => rw [hrun] at h; simp at h
  | ok v e' =>
    rw [hrun] at h
    simp only at h
    have hrp := runPfx_ok_runPrefix _ _ _ _ _ _ _ hrun
    obtain ⟨hlt, hle, t, hd⟩ := runPrefix_span (ignEnv env) rfl p r v e' hhead hrp
    split at h
    · simp at h
    · rename_i hutf
      simp only [Res.ok.injEq] at h
      obtain ⟨rfl, rfl, rfl⟩ := h
      refine ⟨w, r.take (e' - p), rfl, ?_, ws_of_all hw2, ?_, ?_, ⟨t, hd⟩, ?_⟩
      · rw [List.append_assoc, List.take_append_drop]; exact hw1
      · have : (r.take (e' - p)).length = e' - p := by rw [List.length_take]; omega
        omega
      · intro hnil
        have : (r.take (e' - p)).length = e' - p := by rw [List.length_take]; omega
        rw [hnil] at this; simp at this; omega
      · intro hsrc
        simp only [Bool.and_eq_true, bne_iff_ne, ne_eq, Bool.not_eq_eq_eq_not, Bool.not_true, not_and,
          Bool.not_eq_false] at hutf
        exact hutf hsrc

/-- **one capture (completeness)**: whitespace, then a grammar value `c` (valid UTF-8 on byte sources),
    followed by something that — if `c` is a number — cannot continue it: `c` is captured -/
theorem deRaw_complete (env : SJ.Model.Typed.Env) (hflt : env.flt = false) (w c follow : Bytes) (t : CST) (pos : Nat)
    (hw : Ws w) (hd : Derives c t) (hutf : env.src ≠ .str → Spec.Utf8.validUtf8 c = true)
    (hfollow : (∃ q, t = .num q) → ∀ d r', follow = d :: r' → numCont d = false) :
    deRaw env (w ++ c ++ follow) pos = .ok (TVal.str c) follow (pos + w.length + c.length) := by
  obtain ⟨b, cr, hcb, hbw⟩ := derives_head hd
  have hsk : skipWs (w ++ c ++ follow) pos = (c ++ follow, pos + w.length) := by
    rw [List.append_assoc]
    exact skipWs_ws w (c ++ follow) pos hw (fun b' r' hr => by
      rw [hcb] at hr; simp only [List.cons_append, List.cons.injEq] at hr; rw [← hr.1]; exact hbw)
  obtain ⟨val, _, hrun⟩ := runPrefix_complete (ignEnv env) c t hd (ignored_side _ rfl 0 t) follow
    (pos + w.length) hfollow
  unfold deRaw
  rw [hsk]
  simp only
  unfold machine
  rw [hflt, runPfx_false_eq, hrun]
  simp only
  have h1 : pos + w.length + c.length - (pos + w.length) = c.length := by omega
  rw [h1, List.take_left' rfl, List.drop_left' rfl]
  split
  · rename_i hbad
    exfalso
    simp only [Bool.and_eq_true, bne_iff_ne, ne_eq, Bool.not_eq_eq_eq_not, Bool.not_true] at hbad
    rw [hutf hbad.1] at hbad
    cases hbad.2
  · rfl

end SJ.Proofs.RawSpan
