import SJ.Proofs.MapEq
import SJ.Model.ValueEq
/-! Helper lemmas for C17 on `Value`: `==` is equality of the order-free abstraction `Spec.ValueEq.abs`,
    the hasher input is a function of the abstraction, `sort_all_objects` keeps the abstraction. -/
namespace SJ.Proofs.ValueEq
open SJ SJ.Proofs.MapOrder SJ.Model.ValueEq
open SJ.Spec.AMap (ltB Asc lookup AMap DictRel)
open SJ.Spec.ValueEq (AVal abs absList absMembers memberFn normNum isZeroBits isNaNBits WF WFList WFMembers
  ascAll ascAllList ascAllMembers)
open SJ.Proofs.MapBTree (absm Sorted)
open SJ.Proofs.MapIndex (NodupKeys)

/-! ## numbers -/

theorem isZero_zero : isZeroBits 0 = true := by decide

theorem feq_iff {a b : UInt64} (ha : isNaNBits a = false) (hb : isNaNBits b = false) :
    feq a b = true ↔ normNum (.float a) = normNum (.float b) := by
  simp only [feq, isNaN, isZero, ha, hb, Bool.not_false, Bool.true_and, Bool.or_eq_true, beq_iff_eq,
    Bool.and_eq_true, normNum]
  by_cases za : isZeroBits a = true <;> by_cases zb : isZeroBits b = true
  · simp [za, zb]
  · simp only [za, zb, if_true, Bool.false_eq_true, if_false, and_false, or_false, Num.float.injEq]
    constructor
    · rintro rfl; exact absurd za zb
    · rintro rfl; exact absurd isZero_zero zb
  · simp only [za, zb, if_true, Bool.false_eq_true, if_false, false_and, or_false, Num.float.injEq]
    constructor
    · rintro rfl; exact absurd zb za
    · rintro rfl; exact absurd isZero_zero za
  · simp [za, zb]

def numWF : Num → Prop
  | .float b => isNaNBits b = false
  | _ => True

theorem numEq_iff {a b : Num} (ha : numWF a) (hb : numWF b) : numEq a b = true ↔ normNum a = normNum b := by
  cases a with
  | pos x => cases b <;> simp only [numEq, normNum] <;> first | (split <;> simp) | simp
  | neg x => cases b <;> simp only [numEq, normNum] <;> first | (split <;> simp) | simp
  | lit x => cases b <;> simp only [numEq, normNum] <;> first | (split <;> simp) | simp
  | float x =>
    cases b with
    | float y => exact feq_iff ha hb
    | pos y => simp only [numEq, normNum]; split <;> simp
    | neg y => simp only [numEq, normNum]; split <;> simp
    | lit y => simp only [numEq, normNum]; split <;> simp

/-- the float arm of `impl Hash for N` depends only on the normalised number -/
theorem hashNum_norm (n : Num) (h : numWF n) : hashNum n = hashNum (normNum n) := by
  cases n with
  | float b =>
    have hn : Gen.numHashZeroNormalised = true := rfl
    simp only [numWF] at h
    have hz : eqZero b = isZeroBits b := by
      have h0 : isNaNBits 0 = false := by decide
      simp only [eqZero, feq, isNaN, isZero, h, h0, isZero_zero, Bool.not_false, Bool.true_and, Bool.and_true]
      cases hb : isZeroBits b with
      | true => simp
      | false =>
        simp only [Bool.or_false, beq_eq_false_iff_ne, ne_eq]
        rintro rfl; rw [isZero_zero] at hb; cases hb
    simp only [hashNum, normNum, hn, Bool.true_and, hz]
    cases hb : isZeroBits b with
    | true => simp [isZero_zero, eqZero, feq, isNaN, isZero, show isNaNBits 0 = false by decide]
    | false => simp [hb, hz]
  | _ => rfl

/-! ## the abstraction of member lists -/

theorem abs_ne_absent (v : JV) : abs v ≠ .absent := by
  cases v <;> simp [abs]

theorem lookup_absMembers (k : Bytes) (m : List (Bytes × JV)) :
    lookup k (absMembers m) = (lookup k m).map abs := by
  induction m with
  | nil => rfl
  | cons kv r ih =>
    obtain ⟨k', v⟩ := kv
    simp only [absMembers, lookup]
    split
    · rfl
    · exact ih

theorem memberFn_apply (k : Bytes) (m : List (Bytes × JV)) :
    memberFn (absMembers m) k = match lookup k m with
      | some v => abs v
      | none => .absent := by
  simp only [memberFn, lookup_absMembers]
  cases lookup k m <;> rfl

theorem keys_nodup_of_wf {po : Bool} {m : List (Bytes × JV)} (h : WF po (.obj m)) : (keys m).Nodup := by
  simp only [WF] at h
  cases po with
  | true => simpa using h.1
  | false => exact asc_nodup (by simpa using h.1)

theorem wf_of_mem {po : Bool} {m : List (Bytes × JV)} (h : WFMembers po m) {k : Bytes} {v : JV}
    (hm : (k, v) ∈ m) : WF po v := by
  induction m with
  | nil => cases hm
  | cons kv r ih =>
    obtain ⟨k', v'⟩ := kv
    simp only [WFMembers] at h
    rcases List.mem_cons.mp hm with e | hm
    · cases e; exact h.1
    · exact ih h.2 hm

/-- equality of the member functions of two objects, given a comparison `eqv` that decides
    equality of abstractions on the members of the first -/
theorem memberFn_eq_iff (eqv : JV → JV → Bool) {m₁ m₂ : List (Bytes × JV)} (n₁ : (keys m₁).Nodup)
    (hv : ∀ k v w, (k, v) ∈ m₁ → lookup k m₂ = some w → (eqv v w = true ↔ abs v = abs w)) :
    memberFn (absMembers m₁) = memberFn (absMembers m₂) ↔
      DictRel (fun a b => eqv a b = true) (absm m₁) (absm m₂) := by
  constructor
  · intro h k
    have := congrFun h k
    simp only [memberFn_apply] at this
    simp only [absm]
    cases h₁ : lookup k m₁ with
    | none =>
      cases h₂ : lookup k m₂ with
      | none => trivial
      | some w => simp only [h₁, h₂] at this; exact absurd this.symm (abs_ne_absent w)
    | some v =>
      cases h₂ : lookup k m₂ with
      | none => simp only [h₁, h₂] at this; exact absurd this (abs_ne_absent v)
      | some w =>
        simp only [h₁, h₂] at this
        exact (hv k v w ((lookup_eq_some_iff n₁).mp h₁) h₂).mpr this
  · intro h
    funext k
    have := h k
    simp only [absm] at this
    simp only [memberFn_apply]
    cases h₁ : lookup k m₁ with
    | none =>
      cases h₂ : lookup k m₂ with
      | none => rfl
      | some w => simp [h₁, h₂] at this
    | some v =>
      cases h₂ : lookup k m₂ with
      | none => simp [h₁, h₂] at this
      | some w =>
        simp only [h₁, h₂] at this
        exact (hv k v w ((lookup_eq_some_iff n₁).mp h₁) h₂).mp this

theorem length_absList (xs : List JV) : (absList xs).length = xs.length := by
  induction xs with
  | nil => rfl
  | cons x xs ih => simp [absList, ih]

/-! ## the two object comparisons are the generic map comparisons -/

theorem beqZip_eq (po : Bool) (m₁ m₂ : List (Bytes × JV)) :
    beqZip po m₁ m₂ = Model.MapBTree.beq (beqJV po) m₁ m₂ := by
  induction m₁ generalizing m₂ with
  | nil => cases m₂ <;> simp [beqZip, Model.MapBTree.beq]
  | cons kv r ih =>
    obtain ⟨k, v⟩ := kv
    cases m₂ with
    | nil => simp [beqZip, Model.MapBTree.beq]
    | cons kv' r' => obtain ⟨k', v'⟩ := kv'; simp [beqZip, Model.MapBTree.beq, ih]

theorem beqAll_eq (po : Bool) (m₁ m₂ : List (Bytes × JV)) :
    (m₁.length == m₂.length && beqAll po m₁ m₂) = Model.MapIndex.beq (beqJV po) m₁ m₂ := by
  unfold Model.MapIndex.beq
  congr 1
  induction m₁ with
  | nil => simp [beqAll]
  | cons kv r ih =>
    obtain ⟨k, v⟩ := kv
    simp only [beqAll, List.all_cons, Model.MapIndex.get]
    rw [ih]
    simp only [Model.MapIndex.get]
    cases lookup k m₂ <;> rfl

/-! ## `==` is equality of abstractions -/

theorem numWF_of {po : Bool} {n : Num} (h : WF po (.num n)) : numWF n := by
  cases n <;> simp_all [WF, numWF]

theorem beqJV_obj (po : Bool) (m₁ m₂ : List (Bytes × JV)) :
    beqJV po (.obj m₁) (.obj m₂) =
      if po then Model.MapIndex.beq (beqJV po) m₁ m₂ else Model.MapBTree.beq (beqJV po) m₁ m₂ := by
  simp only [beqJV, beqAll_eq, beqZip_eq]

mutual
theorem beqJV_iff (po : Bool) : ∀ (a b : JV), WF po a → WF po b → (beqJV po a b = true ↔ abs a = abs b)
  | .null, b, _, _ => by cases b <;> simp [beqJV, abs]
  | .bool x, b, _, _ => by cases b <;> simp [beqJV, abs]
  | .str x, b, _, _ => by cases b <;> simp [beqJV, abs]
  | .num x, b, ha, hb => by
    cases b with
    | num y => simp only [beqJV, abs, AVal.num.injEq]; exact numEq_iff (numWF_of ha) (numWF_of hb)
    | _ => simp [beqJV, abs]
  | .arr xs, b, ha, hb => by
    cases b with
    | arr ys =>
      simp only [beqJV, abs, AVal.arr.injEq]
      exact beqList_iff po xs ys (by simpa [WF] using ha) (by simpa [WF] using hb)
    | _ => simp [beqJV, abs]
  | .obj m₁, b, ha, hb => by
    cases b with
    | obj m₂ =>
      have nd₁ := keys_nodup_of_wf ha
      have nd₂ := keys_nodup_of_wf hb
      have hm₁ : WFMembers po m₁ := by simp only [WF] at ha; exact ha.2
      have hm₂ : WFMembers po m₂ := by simp only [WF] at hb; exact hb.2
      have hv : ∀ k v w, (k, v) ∈ m₁ → lookup k m₂ = some w → (beqJV po v w = true ↔ abs v = abs w) :=
        fun k v w hm hl => members_iff po m₁ hm₁ k v hm w (wf_of_mem hm₂ ((lookup_eq_some_iff nd₂).mp hl))
      rw [beqJV_obj]
      simp only [abs, AVal.obj.injEq]
      rw [memberFn_eq_iff (beqJV po) nd₁ hv]
      cases po with
      | true => exact MapEq.index_beq_iff _ nd₁ nd₂
      | false =>
        have s₁ : Sorted m₁ := by simp only [WF] at ha; have := ha.1; simp at this; exact this
        have s₂ : Sorted m₂ := by simp only [WF] at hb; have := hb.1; simp at this; exact this
        exact MapEq.btree_beq_iff _ s₁ s₂
    | _ => simp [beqJV, abs]
theorem beqList_iff (po : Bool) : ∀ (xs ys : List JV), WFList po xs → WFList po ys →
    (beqList po xs ys = true ↔ absList xs = absList ys)
  | [], ys, _, _ => by cases ys <;> simp [beqList, absList]
  | x :: xs, ys, hx, hy => by
    cases ys with
    | nil => simp [beqList, absList]
    | cons y ys =>
      simp only [WFList] at hx hy
      simp only [beqList, absList, List.cons.injEq, Bool.and_eq_true]
      rw [beqJV_iff po x y hx.1 hy.1, beqList_iff po xs ys hx.2 hy.2]
theorem members_iff (po : Bool) : ∀ (m : List (Bytes × JV)), WFMembers po m → ∀ k v, (k, v) ∈ m →
    ∀ w, WF po w → (beqJV po v w = true ↔ abs v = abs w)
  | [], _, _, _, hm, _, _ => by cases hm
  | (k', v') :: r, h, k, v, hm, w, hw => by
    simp only [WFMembers] at h
    rcases List.mem_cons.mp hm with e | hm
    · cases e; exact beqJV_iff po v' w h.1 hw
    · exact members_iff po r h.2 k v hm w hw
end

/-! ## the hasher input is a function of the abstraction -/

/-- two ascending association lists with the same lookups are the same list -/
theorem sorted_ext {V : Type} [DecidableEq V] {l₁ l₂ : List (Bytes × V)} (s₁ : Sorted l₁) (s₂ : Sorted l₂)
    (h : ∀ k, lookup k l₁ = lookup k l₂) : l₁ = l₂ := by
  have hb : Model.MapBTree.beq (fun a b => decide (a = b)) l₁ l₂ = true := by
    rw [MapEq.btree_beq_iff _ s₁ s₂]
    intro k
    have := h k
    simp only [absm]
    rw [this]
    cases lookup k l₂ <;> simp
  clear h s₁ s₂
  induction l₁ generalizing l₂ with
  | nil => cases l₂ with
    | nil => rfl
    | cons kv r => obtain ⟨k, v⟩ := kv; simp [Model.MapBTree.beq] at hb
  | cons kv r ih =>
    obtain ⟨k, v⟩ := kv
    cases l₂ with
    | nil => simp [Model.MapBTree.beq] at hb
    | cons kv' r' =>
      obtain ⟨k', v'⟩ := kv'
      simp only [Model.MapBTree.beq, Bool.and_eq_true, beq_iff_eq, decide_eq_true_eq] at hb
      obtain ⟨⟨rfl, rfl⟩, hr⟩ := hb
      rw [ih hr]

theorem keys_hashMembers (po : Bool) (m : List (Bytes × JV)) : keys (hashMembers po m) = keys m := by
  induction m with
  | nil => rfl
  | cons kv r ih => obtain ⟨k, v⟩ := kv; simp only [hashMembers, keys, List.map_cons] at ih ⊢; rw [ih]

theorem lookup_hashMembers (po : Bool) (k : Bytes) (m : List (Bytes × JV)) :
    lookup k (hashMembers po m) = (lookup k m).map (hashJV po) := by
  induction m with
  | nil => rfl
  | cons kv r ih =>
    obtain ⟨k', v⟩ := kv
    simp only [hashMembers, lookup]
    split
    · rfl
    · exact ih

theorem length_hashMembers (po : Bool) (m : List (Bytes × JV)) : (hashMembers po m).length = m.length := by
  have := congrArg List.length (keys_hashMembers po m); simpa [keys] using this

theorem sortEntries_sorted {V : Type} {m : List (Bytes × V)} (nd : (keys m).Nodup) :
    Sorted (Model.MapIndex.sortEntries m) := by
  unfold Sorted; rw [MapIndex.sortEntries_keys]; exact MapIndex.sortKeys_asc nd

/-- what is hashed for an object, given the hashed members -/
def objHashSeq (po : Bool) (hs : List (Bytes × List HW)) : List (Bytes × List HW) :=
  if po && Gen.mapHashSortsEntries then Model.MapIndex.sortEntries hs else hs

theorem hashJV_obj (po : Bool) (m : List (Bytes × JV)) :
    hashJV po (.obj m) = .isize 5 :: .usize m.length :: hashPairs (objHashSeq po (hashMembers po m)) := by
  simp only [hashJV, objHashSeq]

/-- the sequence hashed for an object is determined by the member lookups -/
theorem objHashSeq_ext (po : Bool) {h₁ h₂ : List (Bytes × List HW)}
    (w₁ : if po then (keys h₁).Nodup else Asc (keys h₁)) (w₂ : if po then (keys h₂).Nodup else Asc (keys h₂))
    (h : ∀ k, lookup k h₁ = lookup k h₂) : objHashSeq po h₁ = objHashSeq po h₂ := by
  have hg : Gen.mapHashSortsEntries = true := rfl      -- extracted from `impl Hash for Map`
  cases po with
  | false => simp only [objHashSeq, Bool.false_and, Bool.false_eq_true, if_false]
             have a₁ : Asc (keys h₁) := by simpa using w₁
             have a₂ : Asc (keys h₂) := by simpa using w₂
             exact sorted_ext a₁ a₂ h
  | true =>
    simp only [objHashSeq, hg, Bool.and_self, if_true]
    have n₁ : (keys h₁).Nodup := by simpa using w₁
    have n₂ : (keys h₂).Nodup := by simpa using w₂
    apply sorted_ext (sortEntries_sorted n₁) (sortEntries_sorted n₂)
    intro k
    have e₁ := congrFun (MapIndex.sortEntries_abs n₁) k
    have e₂ := congrFun (MapIndex.sortEntries_abs n₂) k
    simp only [absm] at e₁ e₂
    rw [e₁, e₂, h k]

theorem length_objHashSeq (po : Bool) (hs : List (Bytes × List HW)) : (objHashSeq po hs).length = hs.length := by
  unfold objHashSeq; split
  · exact (MapIndex.sortEntries_perm hs).length_eq
  · rfl

theorem wf_obj_keys {po : Bool} {m : List (Bytes × JV)} (h : WF po (.obj m)) :
    if po then (keys m).Nodup else Asc (keys m) := by
  simp only [WF] at h; exact h.1

mutual
theorem hash_abs (po : Bool) : ∀ (a b : JV), WF po a → WF po b → abs a = abs b → hashJV po a = hashJV po b
  | .null, b, _, _, h => by cases b <;> simp [abs] at h; rfl
  | .bool x, b, _, _, h => by cases b <;> simp [abs] at h; subst h; rfl
  | .str x, b, _, _, h => by cases b <;> simp [abs] at h; subst h; rfl
  | .num x, b, ha, hb, h => by
    cases b with
    | num y =>
      simp only [abs, AVal.num.injEq] at h
      simp only [hashJV]
      rw [hashNum_norm x (numWF_of ha), hashNum_norm y (numWF_of hb), h]
    | _ => simp [abs] at h
  | .arr xs, b, ha, hb, h => by
    cases b with
    | arr ys =>
      simp only [abs, AVal.arr.injEq] at h
      have hl : xs.length = ys.length := by
        have := congrArg List.length h
        simpa [length_absList] using this
      simp only [hashJV, hl]
      rw [hashList_abs po xs ys (by simpa [WF] using ha) (by simpa [WF] using hb) h]
    | _ => simp [abs] at h
  | .obj m₁, b, ha, hb, h => by
    cases b with
    | obj m₂ =>
      simp only [abs, AVal.obj.injEq] at h
      have nd₁ := keys_nodup_of_wf ha
      have nd₂ := keys_nodup_of_wf hb
      have hm₁ : WFMembers po m₁ := by simp only [WF] at ha; exact ha.2
      have hm₂ : WFMembers po m₂ := by simp only [WF] at hb; exact hb.2
      have hlk : ∀ k, lookup k (hashMembers po m₁) = lookup k (hashMembers po m₂) := by
        intro k
        have := congrFun h k
        simp only [memberFn_apply] at this
        simp only [lookup_hashMembers]
        cases h₁ : lookup k m₁ with
        | none =>
          cases h₂ : lookup k m₂ with
          | none => rfl
          | some w => simp only [h₁, h₂] at this; exact absurd this.symm (abs_ne_absent w)
        | some v =>
          cases h₂ : lookup k m₂ with
          | none => simp only [h₁, h₂] at this; exact absurd this (abs_ne_absent v)
          | some w =>
            simp only [h₁, h₂] at this
            simp only [Option.map_some]
            rw [hashMembers_abs po m₁ hm₁ k v ((lookup_eq_some_iff nd₁).mp h₁) w
              (wf_of_mem hm₂ ((lookup_eq_some_iff nd₂).mp h₂)) this]
      have hseq := objHashSeq_ext po
        (by rw [keys_hashMembers]; exact wf_obj_keys ha) (by rw [keys_hashMembers]; exact wf_obj_keys hb) hlk
      have hlen : m₁.length = m₂.length := by
        have := congrArg List.length hseq
        simpa [length_objHashSeq, length_hashMembers] using this
      rw [hashJV_obj, hashJV_obj, hseq, hlen]
    | _ => simp [abs] at h
theorem hashList_abs (po : Bool) : ∀ (xs ys : List JV), WFList po xs → WFList po ys →
    absList xs = absList ys → hashList po xs = hashList po ys
  | [], ys, _, _, h => by cases ys <;> simp [absList] at h; rfl
  | x :: xs, ys, hx, hy, h => by
    cases ys with
    | nil => simp [absList] at h
    | cons y ys =>
      simp only [WFList] at hx hy
      simp only [absList, List.cons.injEq] at h
      simp only [hashList]
      rw [hash_abs po x y hx.1 hy.1 h.1, hashList_abs po xs ys hx.2 hy.2 h.2]
theorem hashMembers_abs (po : Bool) : ∀ (m : List (Bytes × JV)), WFMembers po m → ∀ k v, (k, v) ∈ m →
    ∀ w, WF po w → abs v = abs w → hashJV po v = hashJV po w
  | [], _, _, _, hm, _, _, _ => by cases hm
  | (k', v') :: r, h, k, v, hm, w, hw, he => by
    simp only [WFMembers] at h
    rcases List.mem_cons.mp hm with e | hm
    · cases e; exact hash_abs po v' w h.1 hw he
    · exact hashMembers_abs po r h.2 k v hm w hw he
end

/-! ## `sort_all_objects` -/

theorem keys_sortAllMembers (m : List (Bytes × JV)) : keys (sortAllMembers m) = keys m := by
  induction m with
  | nil => rfl
  | cons kv r ih => obtain ⟨k, v⟩ := kv; simp only [sortAllMembers, keys, List.map_cons] at ih ⊢; rw [ih]

theorem lookup_sortAllMembers (k : Bytes) (m : List (Bytes × JV)) :
    lookup k (sortAllMembers m) = (lookup k m).map sortAllPO := by
  induction m with
  | nil => rfl
  | cons kv r ih =>
    obtain ⟨k', v⟩ := kv
    simp only [sortAllMembers, lookup]
    split
    · rfl
    · exact ih

theorem mem_sortAllMembers {k : Bytes} {x : JV} {m : List (Bytes × JV)} (h : (k, x) ∈ sortAllMembers m) :
    ∃ v, (k, v) ∈ m ∧ x = sortAllPO v := by
  induction m with
  | nil => cases h
  | cons kv r ih =>
    obtain ⟨k', v⟩ := kv
    simp only [sortAllMembers, List.mem_cons] at h
    rcases h with e | h
    · cases e; exact ⟨v, List.mem_cons_self .., rfl⟩
    · obtain ⟨v', hm, e⟩ := ih h; exact ⟨v', List.mem_cons_of_mem _ hm, e⟩

theorem ascAllMembers_iff (m : List (Bytes × JV)) :
    ascAllMembers m = true ↔ ∀ k v, (k, v) ∈ m → ascAll v = true := by
  induction m with
  | nil => simp [ascAllMembers]
  | cons kv r ih =>
    obtain ⟨k', v'⟩ := kv
    simp only [ascAllMembers, Bool.and_eq_true, ih, List.mem_cons]
    constructor
    · rintro ⟨h₁, h₂⟩ k v (e | hm)
      · cases e; exact h₁
      · exact h₂ k v hm
    · intro h; exact ⟨h k' v' (Or.inl rfl), fun k v hm => h k v (Or.inr hm)⟩

theorem wfMembers_iff (po : Bool) (m : List (Bytes × JV)) :
    WFMembers po m ↔ ∀ k v, (k, v) ∈ m → WF po v := by
  induction m with
  | nil => simp [WFMembers]
  | cons kv r ih =>
    obtain ⟨k', v'⟩ := kv
    simp only [WFMembers, ih, List.mem_cons]
    constructor
    · rintro ⟨h₁, h₂⟩ k v (e | hm)
      · cases e; exact h₁
      · exact h₂ k v hm
    · intro h; exact ⟨h k' v' (Or.inl rfl), fun k v hm => h k v (Or.inr hm)⟩

/-- what `sort_all_objects` achieves on one value -/
def SortOk (v : JV) : Prop := abs (sortAllPO v) = abs v ∧ ascAll (sortAllPO v) = true ∧ WF true (sortAllPO v)

theorem sortOk_obj {m : List (Bytes × JV)} (nd : (keys m).Nodup)
    (ih : ∀ k v, (k, v) ∈ m → SortOk v) : SortOk (.obj m) := by
  have hg : Gen.mapSortKeysSorts = true := rfl      -- extracted from `Map::sort_keys`
  have hs : sortAllPO (.obj m) = .obj (Model.MapIndex.sortEntries (sortAllMembers m)) := by
    simp only [sortAllPO, Model.MapIndex.sortKeys, hg, if_true]
  have ndX : NodupKeys (sortAllMembers m) := by unfold NodupKeys; rw [keys_sortAllMembers]; exact nd
  have hperm := MapIndex.sortEntries_perm (sortAllMembers m)
  have hmem : ∀ k x, (k, x) ∈ Model.MapIndex.sortEntries (sortAllMembers m) → ∃ v, (k, v) ∈ m ∧ x = sortAllPO v :=
    fun k x h => mem_sortAllMembers (hperm.mem_iff.mp h)
  rw [SortOk, hs]
  refine ⟨?_, ?_, ?_⟩
  · simp only [abs, AVal.obj.injEq]
    funext k
    simp only [memberFn_apply]
    have e := congrFun (MapIndex.sortEntries_abs ndX) k
    simp only [absm] at e
    rw [e, lookup_sortAllMembers]
    cases h : lookup k m with
    | none => rfl
    | some v => exact (ih k v ((lookup_eq_some_iff nd).mp h)).1
  · simp only [ascAll, Bool.and_eq_true]
    refine ⟨?_, ?_⟩
    · rw [ascB_iff]
      have := MapIndex.sortEntries_keys (sortAllMembers m)
      simp only [keys] at this
      rw [this]
      exact MapIndex.sortKeys_asc ndX
    · rw [ascAllMembers_iff]
      intro k x h
      obtain ⟨v, hm, rfl⟩ := hmem k x h
      exact (ih k v hm).2.1
  · simp only [WF, if_true]
    refine ⟨MapIndex.sortEntries_nodup ndX, ?_⟩
    rw [wfMembers_iff]
    intro k x h
    obtain ⟨v, hm, rfl⟩ := hmem k x h
    exact (ih k v hm).2.2

mutual
theorem sortOk (v : JV) (h : WF true v) : SortOk v :=
  match v, h with
  | .null, _ => ⟨rfl, rfl, trivial⟩
  | .bool _, _ => ⟨rfl, rfl, trivial⟩
  | .str _, _ => ⟨rfl, rfl, trivial⟩
  | .num n, h => ⟨rfl, rfl, h⟩
  | .arr xs, h => by
    have := sortOkList xs (by simpa [WF] using h)
    simp only [SortOk, sortAllPO, abs, ascAll, WF]
    exact ⟨by rw [this.1], this.2.1, this.2.2⟩
  | .obj m, h => by
    have hm : WFMembers true m := by simp only [WF] at h; exact h.2
    exact sortOk_obj (keys_nodup_of_wf h) (sortOkMembers m hm)
theorem sortOkList (xs : List JV) (h : WFList true xs) :
    absList (sortAllList xs) = absList xs ∧ ascAllList (sortAllList xs) = true ∧ WFList true (sortAllList xs) :=
  match xs, h with
  | [], _ => ⟨rfl, rfl, trivial⟩
  | x :: xs, h => by
    simp only [WFList] at h
    have hx := sortOk x h.1
    have hxs := sortOkList xs h.2
    simp only [sortAllList, absList, ascAllList, WFList, Bool.and_eq_true]
    exact ⟨by rw [hx.1, hxs.1], ⟨hx.2.1, hxs.2.1⟩, hx.2.2, hxs.2.2⟩
theorem sortOkMembers (m : List (Bytes × JV)) (h : WFMembers true m) : ∀ k v, (k, v) ∈ m → SortOk v :=
  match m, h with
  | [], _ => fun _ _ hm => by cases hm
  | (k', v') :: r, h => fun k v hm => by
    simp only [WFMembers] at h
    rcases List.mem_cons.mp hm with e | hm
    · cases e; exact sortOk v' h.1
    · exact sortOkMembers r h.2 k v hm
end

end SJ.Proofs.ValueEq
