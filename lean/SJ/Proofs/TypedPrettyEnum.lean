import SJ.Proofs.TypedPrettyStruct
/-!
# The text leg on a layout of a value: externally tagged enums
-/
set_option linter.unusedSectionVars false
set_option linter.unusedVariables false

namespace SJ.Proofs.TypedPretty
open SJ SJ.Gen SJ.Model SJ.Model.Typed
open SJ.Model.Stream (skipWs)
open SJ.Spec.Image (quote)
open SJ.Proofs.Typed

variable (ext : Spec.Program.Ext) (L : Lay)

section
variable (hext : Spec.Program.ExtOK ext)
variable {env : Env} (hflt : env.flt = false) (cfg' : FromValue.Cfg) (hap : cfg'.ap = false) (ext' : FromValue.Ext)

omit hext in
theorem pad_dePayload (t f : Nat) (sh : VariantShape) : PadOK (dePayload env t (deTyped env f) sh) := by
  cases sh with
  | unit => exact pad_deUnit
  | newtype s => exact deTyped_pad f t s
  | tuple ss => intro W h X pos; simp only [dePayload]; exact pad_deSeq _ _ W h X pos
  | struct_ fs => intro W h X pos; simp only [dePayload]; exact pad_deStruct _ _ _ _ W h X pos

include hext hflt hap in
/-- enums -/
theorem agree_enum_L (d : Nat) (vs : List (Bytes × VariantShape)) (f t : Nat) (v : JV) (hv : VOK v) (hd : DepthOK env t v)
    (hp : ∀ k x kvs, v = .obj ((k, x) :: kvs) → ∀ sh, (k, sh) ∈ vs →
      Agree1 (dePayload env (t + 1) (deTyped env f) sh) (payloadFV cfg' ext' sh x) (TL ext L (d + 1) x))
    (hex : ∀ k x, v = .obj [(k, x)] → ∀ sh, (k, sh) ∈ vs →
      FromValue.shapeDe cfg' ext' sh (some x) = payloadFV cfg' ext' sh x) :
    Agree1 (deTyped env (f + 1) t (.enum_ vs)) (FromValue.fromValue cfg' ext' (.enum_ vs) v) (TL ext L d v) := by
  cases v with
  | obj kvs =>
    intro rest pos hs
    rw [deTyped_enum]
    have htd := tooDeep_false_obj t kvs hd
    have hde : ∀ tl', deEnum env t (deTyped env f) vs (0x7b :: tl') pos =
        (deVariantId env (variantNames vs) tl' (pos + 1)).bind fun iv r1 p1 =>
          (parseObjectColon env r1 p1).bind fun _ r2 p2 =>
            match vs[(match iv with | .int i => i.toNat | _ => 0)]? with
            | none => .raw r2 p2
            | some (_, sh) =>
              (dePayload env (t + 1) (deTyped env f) sh r2 p2).bind fun payload r3 p3 =>
                withPeek env .EofWhileParsingObject r3 p3 fun c r4 q =>
                  if c == 0x7d then .ok (.variant (match iv with | .int i => i.toNat | _ => 0) payload) r4 (q + 1)
                  else .err .ExpectedSomeValue (errorIdx env (c :: r4) q true) := by
      intro tl'
      unfold deEnum
      rw [withPeek_cons env _ (by decide)]
      simp only [beq_self_eq_true, if_true, htd, Bool.false_eq_true, if_false]
      rfl
    cases kvs with
    | nil =>
      rw [TL_obj_nil]
      simp only [FromValue.fromValue, FromValue.fail]
      intro x r p
      simp only [List.cons_append, List.nil_append]
      rw [hde]
      apply bind_not_ok
      unfold deVariantId deStr
      rw [withPeek_cons env _ (by decide)]
      simp only [show ((0x7d : UInt8) == 0x22) = false by decide, Bool.false_eq_true, if_false]
      exact fun x r' p => peekInvalidType_not_ok _ _ _ _ _ _
    | cons kv kvs' =>
      obtain ⟨k, x⟩ := kv
      obtain ⟨hu, hvx⟩ := vok_member _ (k, x) (by simp) hv
      have hC := L.hsep d
      have hTo : TL ext L d (.obj ((k, x) :: kvs')) ++ rest =
          0x7b :: (L.sep (d + 1) ++ (quote k ++ 0x3a :: (L.gap ++ (TL ext L (d + 1) x ++
            (LMtail ext L (d + 1) kvs' ++ (L.sep d ++ 0x7d :: rest)))))) := by
        rw [TL_obj_cons, LMembers_cons]; simp [List.append_assoc]
      have hlenT : (TL ext L d (.obj ((k, x) :: kvs'))).length =
          1 + (L.sep (d + 1)).length + (quote k).length + 1 + L.gap.length + (TL ext L (d + 1) x).length +
            (LMtail ext L (d + 1) kvs').length + (L.sep d).length + 1 := by
        rw [TL_obj_cons, LMembers_cons]; simp; omega
      rw [hTo]
      have hid := deVariantId_quote hflt (variantNames vs) k hu
        (0x3a :: (L.gap ++ (TL ext L (d + 1) x ++ (LMtail ext L (d + 1) kvs' ++ (L.sep d ++ 0x7d :: rest)))))
        (pos + 1 + (L.sep (d + 1)).length)
      have hidp : deVariantId env (variantNames vs) (L.sep (d + 1) ++ (quote k ++ 0x3a :: (L.gap ++ (TL ext L (d + 1) x ++
            (LMtail ext L (d + 1) kvs' ++ (L.sep d ++ 0x7d :: rest)))))) (pos + 1) =
          deVariantId env (variantNames vs) (quote k ++ 0x3a :: (L.gap ++ (TL ext L (d + 1) x ++
            (LMtail ext L (d + 1) kvs' ++ (L.sep d ++ 0x7d :: rest))))) (pos + 1 + (L.sep (d + 1)).length) := by
        unfold deVariantId
        rw [pad_deStr _ _ (L.hsep (d + 1))]
      -- what the text side does, whatever the number of entries
      have hrun : deEnum env t (deTyped env f) vs (0x7b :: (L.sep (d + 1) ++ (quote k ++ 0x3a :: (L.gap ++ (TL ext L (d + 1) x ++
            (LMtail ext L (d + 1) kvs' ++ (L.sep d ++ 0x7d :: rest))))))) pos =
          match FromValue.nameIndex (variantNames vs) k with
          | none => .data (errorIdx env (0x3a :: (L.gap ++ (TL ext L (d + 1) x ++ (LMtail ext L (d + 1) kvs' ++ (L.sep d ++ 0x7d :: rest)))))
              (pos + 1 + (L.sep (d + 1)).length + (quote k).length) false)
          | some i =>
            match vs[i]? with
            | none => .raw (L.gap ++ (TL ext L (d + 1) x ++ (LMtail ext L (d + 1) kvs' ++ (L.sep d ++ 0x7d :: rest))))
                (pos + 1 + (L.sep (d + 1)).length + (quote k).length + 1)
            | some (_, sh) =>
              (dePayload env (t + 1) (deTyped env f) sh (TL ext L (d + 1) x ++ (LMtail ext L (d + 1) kvs' ++ (L.sep d ++ 0x7d :: rest)))
                  (pos + 1 + (L.sep (d + 1)).length + (quote k).length + 1 + L.gap.length)).bind
                fun payload r3 p3 =>
                  withPeek env .EofWhileParsingObject r3 p3 fun c r4 q =>
                    if c == 0x7d then .ok (.variant i payload) r4 (q + 1)
                    else .err .ExpectedSomeValue (errorIdx env (c :: r4) q true) := by
        rw [hde, hidp, hid]
        cases FromValue.nameIndex (variantNames vs) k with
        | none => simp [Res.bind]
        | some i =>
          simp only [Res.bind, parseObjectColon_colon, Int.toNat_natCast]
          cases hvi : vs[i]? with
          | none => rfl
          | some pr =>
            obtain ⟨nm, sh⟩ := pr
            simp only
            rw [pad_dePayload (t + 1) f sh L.gap L.hgap]
      cases hni : FromValue.nameIndex (variantNames vs) k with
      | none =>
        rw [hni] at hrun
        have : FromValue.fromValue cfg' ext' (.enum_ vs) (.obj ((k, x) :: kvs')) = FromValue.fail := by
          simp only [FromValue.fromValue]
          cases kvs' <;> simp [variantDe_spec, hni]
        rw [this]
        simp only [FromValue.fail]
        intro a r p
        rw [hrun]; simp
      | some i =>
        rw [hni] at hrun
        simp only at hrun
        cases hvi : vs[i]? with
        | none =>
          rw [hvi] at hrun
          have : FromValue.fromValue cfg' ext' (.enum_ vs) (.obj ((k, x) :: kvs')) = FromValue.fail := by
            simp only [FromValue.fromValue]
            cases kvs' <;> simp [variantDe_spec, hni, hvi]
          rw [this]
          simp only [FromValue.fail]
          intro a r p
          rw [hrun]; simp
        | some pr =>
          obtain ⟨nm, sh⟩ := pr
          rw [hvi] at hrun
          simp only at hrun
          have hmem : (nm, sh) ∈ vs := List.mem_of_getElem? hvi
          have hnm : k = nm := by
            have h1 := nameIndex_get (variantNames vs) k i hni
            simp only [variantNames, List.getElem?_map, hvi, Option.map_some, Option.some.injEq] at h1
            exact h1.symm
          subst hnm
          have hpay := hp k x kvs' rfl sh hmem (LMtail ext L (d + 1) kvs' ++ (L.sep d ++ 0x7d :: rest))
            (pos + 1 + (L.sep (d + 1)).length + (quote k).length + 1 + L.gap.length)
            (sepOK_mtail_L ext L (d + 1) kvs' hC rest)
          cases kvs' with
          | nil =>
            have hfv : FromValue.fromValue cfg' ext' (.enum_ vs) (.obj [(k, x)]) =
                (payloadFV cfg' ext' sh x).map (.variant i) := by
              simp only [FromValue.fromValue, variantDe_spec, hni, hvi, Nat.zero_add]
              rw [hex k x rfl sh hmem]
            rw [hfv]
            cases hpv : payloadFV cfg' ext' sh x with
            | error e =>
              rw [hpv] at hpay
              simp only [Except.map]
              intro a r p
              rw [hrun]
              exact bind_not_ok hpay a r p
            | ok y =>
              rw [hpv] at hpay
              simp only [Except.map]
              rw [hrun, hpay]
              simp only [Res.bind, LMtail, List.nil_append]
              rw [withPeek_pad _ hC, withPeek_cons env _ (by decide)]
              simp only [beq_self_eq_true, if_true, hlenT, LMtail, List.length_nil]
              congr 1
              omega
          | cons kv2 kvs'' =>
            simp only [FromValue.fromValue, FromValue.fail]
            intro a r p
            rw [hrun]
            cases hpv : payloadFV cfg' ext' sh x with
            | error e =>
              rw [hpv] at hpay
              exact bind_not_ok hpay a r p
            | ok y =>
              rw [hpv] at hpay
              simp only at hpay
              rw [hpay]
              simp only [Res.bind, LMtail, List.cons_append]
              rw [withPeek_cons env _ (by decide)]
              simp
  | arr xs =>
    intro rest pos hs
    obtain ⟨c, tl, hT, hc⟩ := TL_head ext L hext d (.arr xs) hv
    have ht := headOf_tests hc
    rw [deTyped_enum]
    simp only [FromValue.fromValue, FromValue.fail]
    intro x r p
    rw [hT]
    simp only [List.cons_append]
    unfold deEnum
    rw [withPeek_cons env _ (headOf_facts hc).1]
    simp only [ht.2.2.2.2.2.2.2.1, ht.2.2.2.2.2.2.2.2, Bool.false_eq_true, if_false]
    simp
  | null =>
    rw [TL_scalar ext L d _ (fun _ h => by cases h) (fun _ h => by cases h)]
    exact agree_enum ext hext hflt cfg' ext' vs f t _ hv.g hd (fun _ _ _ h => by cases h) (fun _ _ h => by cases h)
  | bool b =>
    rw [TL_scalar ext L d _ (fun _ h => by cases h) (fun _ h => by cases h)]
    exact agree_enum ext hext hflt cfg' ext' vs f t _ hv.g hd (fun _ _ _ h => by cases h) (fun _ _ h => by cases h)
  | num n =>
    rw [TL_scalar ext L d _ (fun _ h => by cases h) (fun _ h => by cases h)]
    exact agree_enum ext hext hflt cfg' ext' vs f t _ hv.g hd (fun _ _ _ h => by cases h) (fun _ _ h => by cases h)
  | str s' =>
    rw [TL_scalar ext L d _ (fun _ h => by cases h) (fun _ h => by cases h)]
    exact agree_enum ext hext hflt cfg' ext' vs f t _ hv.g hd (fun _ _ _ h => by cases h) (fun _ _ h => by cases h)

end

end SJ.Proofs.TypedPretty
