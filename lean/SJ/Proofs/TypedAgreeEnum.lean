import SJ.Proofs.TypedAgreeStruct
/-!
# The text leg of C16 on enum targets: `deserialize_enum` (`"Variant"` through `UnitVariantAccess`, `{"Variant": payload}`
# through `VariantAccess`) against `EnumDeserializer` / `VariantDeserializer` of `from_value`

The two sides differ on a zero-length tuple variant (`{"V":[]}`) and on a struct variant whose payload is an array — the
exclusions of C16's statement; `agree_enum` takes the equality of the two payload interpretations on the (single) entry
of the object as a hypothesis, which the main theorem discharges from the statement's exclusions.
-/
set_option linter.unusedSectionVars false
set_option linter.unusedVariables false

namespace SJ.Proofs.Typed
open SJ SJ.Gen SJ.Model SJ.Model.Typed
open SJ.Model.Stream (skipWs)
open SJ.Spec.Image (quote)

variable (ext : Spec.Program.Ext)

/-- the payload as the TEXT side reads it: the entry point `VariantAccess` calls for the shape -/
def payloadFV (cfg : FromValue.Cfg) (e : FromValue.Ext) : VariantShape → JV → FromValue.R
  | .unit, v => FromValue.fromValue cfg e .unit v
  | .newtype s, v => FromValue.fromValue cfg e s v
  | .tuple ss, v => FromValue.fromValue cfg e (.tuple ss) v
  | .struct_ fs, v => FromValue.fromValue cfg e (.struct_ fs false) v

theorem variantDe_spec (cfg : FromValue.Cfg) (e : FromValue.Ext) (k : Bytes) (p : Option JV) :
    ∀ (vs : List (Bytes × VariantShape)) (j : Nat),
    FromValue.variantDe cfg e vs j k p =
      match FromValue.nameIndex (variantNames vs) k with
      | some i => (match vs[i]? with
          | some (_, sh) => (FromValue.shapeDe cfg e sh p).map (.variant (j + i))
          | none => FromValue.fail)
      | none => FromValue.fail
  | [], j => by simp [variantNames, FromValue.nameIndex, FromValue.variantDe]
  | (n, sh) :: vs, j => by
    have ih := variantDe_spec cfg e k p vs (j + 1)
    simp only [variantNames, List.map_cons, FromValue.nameIndex, FromValue.variantDe] at ih ⊢
    by_cases hn : (n == k) = true
    · simp [hn]
    · simp only [hn, Bool.false_eq_true, if_false]
      rw [ih]
      cases hi : FromValue.nameIndex (List.map (fun x => x.1) vs) k with
      | none => simp
      | some i =>
        simp only [Option.map_some, List.getElem?_cons_succ]
        cases vs[i]? with
        | none => rfl
        | some pr => simp only []; congr 2; omega

theorem nameIndex_lt : ∀ (names : List Bytes) (k : Bytes) (i : Nat), FromValue.nameIndex names k = some i → i < names.length
  | [], k, i, h => by simp [FromValue.nameIndex] at h
  | n :: r, k, i, h => by
    simp only [FromValue.nameIndex] at h
    split at h
    · simp at h; subst h; simp
    · cases hr : FromValue.nameIndex r k with
      | none => simp [hr] at h
      | some j =>
        simp [hr] at h
        subst h
        have := nameIndex_lt r k j hr
        simp; omega

theorem nameIndex_get : ∀ (names : List Bytes) (k : Bytes) (i : Nat), FromValue.nameIndex names k = some i → names[i]? = some k
  | [], k, i, h => by simp [FromValue.nameIndex] at h
  | n :: r, k, i, h => by
    simp only [FromValue.nameIndex] at h
    split at h
    · rename_i hn
      simp at h; subst h
      simp at hn; simp [hn]
    · cases hr : FromValue.nameIndex r k with
      | none => simp [hr] at h
      | some j =>
        simp [hr] at h
        subst h
        simpa using nameIndex_get r k j hr

/-- the unit access of a string-form enum: only unit variants -/
theorem shapeDe_none (cfg : FromValue.Cfg) (e : FromValue.Ext) (sh : VariantShape) :
    FromValue.shapeDe cfg e sh none = (match sh with | .unit => .ok .unit | _ => FromValue.fail) := by
  cases sh <;> simp [FromValue.shapeDe]

section
variable (hext : Spec.Program.ExtOK ext)
variable {env : Env} (hflt : env.flt = false) (cfg' : FromValue.Cfg) (hap : cfg'.ap = false) (ext' : FromValue.Ext)

include hflt in
/-- the variant identifier (`deserialize_identifier` = `deserialize_str`) on a quoted name -/
theorem deVariantId_quote (names : List Bytes) (k : Bytes) (hu : Spec.Utf8.validUtf8 k = true) (rest : Bytes) (pos : Nat) :
    deVariantId env names (quote k ++ rest) pos =
      match FromValue.nameIndex names k with
      | some i => .ok (.int i) rest (pos + (quote k).length)
      | none => .data (errorIdx env rest (pos + (quote k).length) false) := by
  unfold deVariantId
  rw [deStr_quote' hflt _ k hu]
  unfold visitVariantId
  cases FromValue.nameIndex names k <;> simp [ofVisit, fixPos, Except.map, Functor.map]

/-- after a variant's payload, `.` / `e` / `E` is not the closing `}` -/
theorem withPeek_bad {r : Bytes} (h : BadHead r) (pos : Nat) (i : Nat) (payload : TVal) : ∀ a r' p',
    (withPeek env .EofWhileParsingObject r pos fun c r4 q =>
      if c == 0x7d then (.ok (.variant i payload) r4 (q + 1) : TOut) else .err .ExpectedSomeValue (errorIdx env (c :: r4) q true)) ≠ .ok a r' p' := by
  obtain ⟨c, tl, rfl, hw, _, _, h7⟩ := badHead_facts h
  intro a r' p'
  rw [withPeek_cons env _ hw]
  simp [h7]

include hext hflt in
/-- enums -/
theorem agree_enum (vs : List (Bytes × VariantShape)) (f t : Nat) (v : JV) (hv : VOKg v) (hd : DepthOK env t v)
    (hp : ∀ k x kvs, v = .obj ((k, x) :: kvs) → ∀ sh, (k, sh) ∈ vs →
      Agree1w (dePayload env (t + 1) (deTyped env f) sh) (payloadFV cfg' ext' sh x) (T ext x))
    (hex : ∀ k x, v = .obj [(k, x)] → ∀ sh, (k, sh) ∈ vs →
      FromValue.shapeDe cfg' ext' sh (some x) = payloadFV cfg' ext' sh x) :
    Agree1 (deTyped env (f + 1) t (.enum_ vs)) (FromValue.fromValue cfg' ext' (.enum_ vs) v) (T ext v) := by
  intro rest pos hs
  obtain ⟨c, tl, hT, hc⟩ := T_head_g ext hext v hv
  have hw := (headOf_facts hc).1
  have ht := headOf_tests hc
  rw [deTyped_enum]
  cases v with
  | str variant =>
    have hu : Spec.Utf8.validUtf8 variant = true := vokg_str hv
    have hTq : T ext (.str variant) = quote variant := by rw [T_str_eq, quote_eq]
    have hde : deEnum env t (deTyped env f) vs (quote variant ++ rest) pos =
        (deVariantId env (variantNames vs) (quote variant ++ rest) pos).bind fun iv r1 p1 =>
          match vs[(match iv with | .int i => i.toNat | _ => 0)]? with
          | some (_, VariantShape.unit) => .ok (.variant (match iv with | .int i => i.toNat | _ => 0) .unit) r1 p1
          | _ => .raw r1 p1 := by
      rw [quote_eq]
      simp only [List.cons_append]
      unfold deEnum
      rw [withPeek_cons env _ (by decide)]
      simp only [show ((0x22 : UInt8) == 0x7b) = false by decide, Bool.false_eq_true, if_false, beq_self_eq_true, if_true]
      rfl
    simp only [FromValue.fromValue, variantDe_spec, shapeDe_none, Nat.zero_add]
    rw [hTq]
    have hid := deVariantId_quote hflt (variantNames vs) variant hu rest pos
    cases hni : FromValue.nameIndex (variantNames vs) variant with
    | none =>
      rw [hni] at hid
      simp only [FromValue.fail]
      intro x r p
      rw [hde, hid]
      simp [Res.bind]
    | some i =>
      rw [hni] at hid
      simp only []
      cases hvi : vs[i]? with
      | none =>
        simp only [FromValue.fail]
        intro x r p
        rw [hde, hid]
        simp [Res.bind, hvi]
      | some pr =>
        obtain ⟨nm, sh⟩ := pr
        cases sh with
        | unit =>
          simp only [Except.map]
          rw [hde, hid]
          simp [Res.bind, hvi]
        | newtype s => simp only [FromValue.fail, Except.map]; intro x r p; rw [hde, hid]; simp [Res.bind, hvi]
        | tuple ss => simp only [FromValue.fail, Except.map]; intro x r p; rw [hde, hid]; simp [Res.bind, hvi]
        | struct_ fs => simp only [FromValue.fail, Except.map]; intro x r p; rw [hde, hid]; simp [Res.bind, hvi]
  | obj kvs =>
    have htd := tooDeep_false_obj t kvs hd
    have hTo : T ext (.obj kvs) ++ rest = 0x7b :: (Tmembers ext kvs ++ 0x7d :: rest) := by rw [T_obj_eq]; simp
    have hlenT : (T ext (.obj kvs)).length = (Tmembers ext kvs).length + 2 := by rw [T_obj_eq]; simp
    have hde : ∀ tl', deEnum env t (deTyped env f) vs (0x7b :: tl') pos =
        (deVariantId env (variantNames vs) tl' (pos + 1)).bind fun iv r1 p1 =>
          (parseObjectColon env r1 p1).bind fun _ r2 p2 =>
            match vs[(match iv with | .int i => i.toNat | _ => 0)]? with
            | none => .raw r2 p2
            | some (_, sh) =>
              (dePayload env (t + 1) (deTyped env f) sh r2 p2).bind fun payload r3 p3 =>
                withPeek env .EofWhileParsingObject r3 p3 fun c r4 q =>
                  if c == 0x7d then .ok (.variant (match iv with | .int i => i.toNat | _ => 0) payload) r4 (q + 1)
                  else .err .ExpectedSomeValue (errorIdx env (c :: r4) q true) := by
      intro tl'
      unfold deEnum
      rw [withPeek_cons env _ (by decide)]
      simp only [beq_self_eq_true, if_true, htd, Bool.false_eq_true, if_false]
      rfl
    rw [hTo]
    cases kvs with
    | nil =>
      simp only [FromValue.fromValue, FromValue.fail]
      intro x r p
      rw [hde]
      simp only [Tmembers, List.nil_append]
      apply bind_not_ok
      unfold deVariantId deStr
      rw [withPeek_cons env _ (by decide)]
      simp only [show ((0x7d : UInt8) == 0x22) = false by decide, Bool.false_eq_true, if_false]
      exact fun x r' p => peekInvalidType_not_ok _ _ _ _ _ _
    | cons kv kvs' =>
      obtain ⟨k, x⟩ := kv
      obtain ⟨hu, hvx⟩ := vokg_member _ (k, x) (by simp) hv
      have htxt : Tmembers ext ((k, x) :: kvs') ++ 0x7d :: rest = quote k ++ 0x3a :: (T ext x ++ (Tmtail ext kvs' ++ 0x7d :: rest)) := by
        rw [Tmembers_cons]; simp [List.append_assoc]
      have hid := deVariantId_quote hflt (variantNames vs) k hu (0x3a :: (T ext x ++ (Tmtail ext kvs' ++ 0x7d :: rest))) (pos + 1)
      -- what the text side does, whatever the number of entries
      have hrun : deEnum env t (deTyped env f) vs (0x7b :: (Tmembers ext ((k, x) :: kvs') ++ 0x7d :: rest)) pos =
          match FromValue.nameIndex (variantNames vs) k with
          | none => .data (errorIdx env (0x3a :: (T ext x ++ (Tmtail ext kvs' ++ 0x7d :: rest))) (pos + 1 + (quote k).length) false)
          | some i =>
            match vs[i]? with
            | none => .raw (T ext x ++ (Tmtail ext kvs' ++ 0x7d :: rest)) (pos + 1 + (quote k).length + 1)
            | some (_, sh) =>
              (dePayload env (t + 1) (deTyped env f) sh (T ext x ++ (Tmtail ext kvs' ++ 0x7d :: rest)) (pos + 1 + (quote k).length + 1)).bind
                fun payload r3 p3 =>
                  withPeek env .EofWhileParsingObject r3 p3 fun c r4 q =>
                    if c == 0x7d then .ok (.variant i payload) r4 (q + 1)
                    else .err .ExpectedSomeValue (errorIdx env (c :: r4) q true) := by
        rw [hde, htxt, hid]
        cases FromValue.nameIndex (variantNames vs) k with
        | none => simp [Res.bind]
        | some i =>
          simp only [Res.bind, parseObjectColon_colon, Int.toNat_natCast]
      cases hni : FromValue.nameIndex (variantNames vs) k with
      | none =>
        rw [hni] at hrun
        have : FromValue.fromValue cfg' ext' (.enum_ vs) (.obj ((k, x) :: kvs')) = FromValue.fail := by
          simp only [FromValue.fromValue]
          cases kvs' <;> simp [variantDe_spec, hni]
        rw [this]
        simp only [FromValue.fail]
        intro a r p
        rw [hrun]; simp
      | some i =>
        rw [hni] at hrun
        simp only at hrun
        cases hvi : vs[i]? with
        | none =>
          rw [hvi] at hrun
          have : FromValue.fromValue cfg' ext' (.enum_ vs) (.obj ((k, x) :: kvs')) = FromValue.fail := by
            simp only [FromValue.fromValue]
            cases kvs' <;> simp [variantDe_spec, hni, hvi]
          rw [this]
          simp only [FromValue.fail]
          intro a r p
          rw [hrun]; simp
        | some pr =>
          obtain ⟨nm, sh⟩ := pr
          rw [hvi] at hrun
          simp only at hrun
          have hmem : (nm, sh) ∈ vs := List.mem_of_getElem? hvi
          have hnm : k = nm := by
            have h1 := nameIndex_get (variantNames vs) k i hni
            simp only [variantNames, List.getElem?_map, hvi, Option.map_some, Option.some.injEq] at h1
            exact h1.symm
          subst hnm
          have hpay := hp k x kvs' rfl sh hmem (Tmtail ext kvs' ++ 0x7d :: rest) (pos + 1 + (quote k).length + 1)
            (sepOK_mtail ext kvs' rest)
          cases kvs' with
          | nil =>
            have hfv : FromValue.fromValue cfg' ext' (.enum_ vs) (.obj [(k, x)]) =
                (payloadFV cfg' ext' sh x).map (.variant i) := by
              simp only [FromValue.fromValue, variantDe_spec, hni, hvi, Nat.zero_add]
              rw [hex k x rfl sh hmem]
            rw [hfv]
            cases hpv : payloadFV cfg' ext' sh x with
            | error e =>
              rw [hpv] at hpay
              simp only [Except.map]
              intro a r p
              rw [hrun]
              exact bind_bad hpay (fun y r3 p3 hb => withPeek_bad hb p3 _ _) a r p
            | ok y =>
              rw [hpv] at hpay
              simp only [Except.map]
              rw [hrun, hpay]
              simp only [Res.bind, Tmtail, List.nil_append]
              rw [withPeek_cons env _ (by decide)]
              simp only [beq_self_eq_true, if_true, hlenT, Tmembers, List.isEmpty_nil, if_true, List.append_nil, List.length_append,
                List.length_cons, List.length_nil]
              congr 1
              omega
          | cons kv2 kvs'' =>
            simp only [FromValue.fromValue, FromValue.fail]
            intro a r p
            rw [hrun]
            cases hpv : payloadFV cfg' ext' sh x with
            | error e =>
              rw [hpv] at hpay
              exact bind_bad hpay (fun y r3 p3 hb => withPeek_bad hb p3 _ _) a r p
            | ok y =>
              rw [hpv] at hpay
              simp only at hpay
              rw [hpay]
              simp only [Res.bind, Tmtail, List.cons_append]
              rw [withPeek_cons env _ (by decide)]
              simp
  | null | bool _ | num _ | arr _ =>
    simp only [FromValue.fromValue, FromValue.fail]
    intro x r p
    rw [hT]
    simp only [List.cons_append]
    unfold deEnum
    rw [withPeek_cons env _ hw]
    simp only [ht.2.2.2.2.2.2.2.1, ht.2.2.2.2.2.2.2.2, Bool.false_eq_true, if_false]
    simp

end

end SJ.Proofs.Typed
