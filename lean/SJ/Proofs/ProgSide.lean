import SJ.Spec.ProgramSide
import SJ.Spec.ValueOf
import SJ.Proofs.Utf8
import SJ.Proofs.Number
import SJ.Proofs.RoundTrip
/-!
# Program-level side conditions (C15, C03/C13)

For a program `p` with image `d` (`image ext p = .ok d`) and printed tree `cstOf d`:

* `depth_image`: `depth (cstOf d) = p.nest`;
* `surrogatesPaired_cstOf`: the printed tree pairs its surrogate escapes (it has none: the only `\u`
  escapes printed are `\u00XX`);
* `image_utf8` / `stringsUtf8_cstOf`: if `p.utf8OK` then every string and key of `d` is valid UTF-8
  (keys printed by `itoa`/`ryu` are ASCII) and so `stringsUtf8 (cstOf d)`;
* `number_ascii`: an RFC 8259 number consists of bytes below 0x80;
* `nest_widen`, `utf8OK_widen`: f32 widening changes neither predicate.
-/
namespace SJ.Proofs.ProgSide
set_option linter.unusedSectionVars false
open SJ SJ.Spec.Grammar SJ.Spec.Denote SJ.Spec.Program SJ.Spec.Image SJ.Spec.ValueOf SJ.Spec.Utf8
open SJ.Proofs.Utf8 SJ.Proofs.Number

/-! ## numbers are ASCII -/

theorem numByte_ascii (b : UInt8) (h : Spec.Recognise.isNumByte b = true) : b < 0x80 := by
  simp only [Spec.Recognise.isNumByte, isDigit, Bool.or_eq_true, Bool.and_eq_true, decide_eq_true_eq,
    beq_iff_eq] at h
  rcases h with ((((h | h) | h) | h) | h) | h
  · have := h.2; simp only [UInt8.le_iff_toNat_le, UInt8.lt_iff_toNat_lt] at *; simp at *; omega
  all_goals subst h; decide

theorem number_ascii (bs : Bytes) (h : IsNumber bs) : ∀ x ∈ bs, x < 0x80 := fun x hx =>
  numByte_ascii x (List.all_eq_true.1 (isNumber_numBytes bs h) x hx)

theorem number_utf8 (bs : Bytes) (h : IsNumber bs) : validUtf8 bs = true :=
  validUtf8_of_ascii bs (number_ascii bs h)

theorem isScalar_iff (cp : Nat) : isScalar cp = true ↔ cp ≤ 0x10FFFF ∧ ¬ (0xD800 ≤ cp ∧ cp ≤ 0xDFFF) := by
  simp [isScalar]; omega

theorem lit_ascii : (∀ x ∈ litTrue, x < 0x80) ∧ (∀ x ∈ litFalse, x < 0x80) ∧ (∀ x ∈ litNull, x < 0x80) := by decide

/-! ## strings of a data-model value -/

mutual
/-- every string and every key of the value is valid UTF-8 -/
def dvUtf8 : DV → Bool
  | .str s => validUtf8 s
  | .arr xs => dvUtf8List xs
  | .obj ms => dvUtf8Members ms
  | _ => true
def dvUtf8List : List DV → Bool
  | [] => true
  | x :: xs => dvUtf8 x && dvUtf8List xs
def dvUtf8Members : List (Bytes × DV) → Bool
  | [] => true
  | (k, x) :: ms => validUtf8 k && dvUtf8 x && dvUtf8Members ms
end

mutual
theorem stringsUtf8_cstOf : ∀ d : DV, dvUtf8 d = true → Spec.Canon.stringsUtf8 (cstOf d) = true
  | .null, _ => rfl
  | .bool true, _ => rfl
  | .bool false, _ => rfl
  | .num _, _ => rfl
  | .str s, h => by
    simp only [dvUtf8] at h
    simp [cstOf, Spec.Canon.stringsUtf8, SerEscape.decode_strItems, h]
  | .arr xs, h => by
    simp only [dvUtf8] at h
    simp only [cstOf, Spec.Canon.stringsUtf8]; exact stringsUtf8List_cstOf xs h
  | .obj ms, h => by
    simp only [dvUtf8] at h
    simp only [cstOf, Spec.Canon.stringsUtf8]; exact stringsUtf8Members_cstOf ms h
theorem stringsUtf8List_cstOf : ∀ xs : List DV, dvUtf8List xs = true →
    Spec.Canon.stringsUtf8List (cstOfList xs) = true
  | [], _ => rfl
  | x :: xs, h => by
    simp only [dvUtf8List, Bool.and_eq_true] at h
    simp [cstOfList, Spec.Canon.stringsUtf8List, stringsUtf8_cstOf x h.1, stringsUtf8List_cstOf xs h.2]
theorem stringsUtf8Members_cstOf : ∀ ms : List (Bytes × DV), dvUtf8Members ms = true →
    Spec.Canon.stringsUtf8Members (cstOfMembers ms) = true
  | [], _ => rfl
  | (k, x) :: ms, h => by
    simp only [dvUtf8Members, Bool.and_eq_true] at h
    simp [cstOfMembers, Spec.Canon.stringsUtf8Members, SerEscape.decode_strItems, h.1.1,
      stringsUtf8_cstOf x h.1.2, stringsUtf8Members_cstOf ms h.2]
end

mutual
theorem surrogatesPaired_cstOf : ∀ d : DV, surrogatesPaired (cstOf d) = true
  | .null => rfl
  | .bool true => rfl
  | .bool false => rfl
  | .num _ => rfl
  | .str s => by simp [cstOf, surrogatesPaired, RoundTrip.surrogatesPairedStr_strItems]
  | .arr xs => by simp only [cstOf, surrogatesPaired]; exact surrogatesPairedList_cstOf xs
  | .obj ms => by simp only [cstOf, surrogatesPaired]; exact surrogatesPairedMembers_cstOf ms
theorem surrogatesPairedList_cstOf : ∀ xs : List DV, surrogatesPairedList (cstOfList xs) = true
  | [] => rfl
  | x :: xs => by
    simp [cstOfList, surrogatesPairedList, surrogatesPaired_cstOf x, surrogatesPairedList_cstOf xs]
theorem surrogatesPairedMembers_cstOf : ∀ ms : List (Bytes × DV), surrogatesPairedMembers (cstOfMembers ms) = true
  | [] => rfl
  | (k, x) :: ms => by
    simp [cstOfMembers, surrogatesPairedMembers, RoundTrip.surrogatesPairedStr_strItems,
      surrogatesPaired_cstOf x, surrogatesPairedMembers_cstOf ms]
end

/-! ## the image of a program -/

theorem numOf_utf8 (t : Bytes) : dvUtf8 (numOf t) = true := rfl
theorem numOf_depth (t : Bytes) : depth (cstOf (numOf t)) = 0 := rfl

theorem bytes_utf8 (f : UInt8 → Bytes) : ∀ bs : Bytes, dvUtf8List (bs.map fun b => numOf (f b)) = true
  | [] => rfl
  | _ :: bs => by simp [dvUtf8List, numOf_utf8, bytes_utf8 f bs]

theorem bytes_depth (f : UInt8 → Bytes) : ∀ bs : Bytes, depthList (cstOfList (bs.map fun b => numOf (f b))) = 0
  | [] => rfl
  | _ :: bs => by simp [cstOfList, depthList, numOf_depth, bytes_depth f bs]

section
variable (ext : Ext) (hext : ExtOK ext)
include hext

theorem itoa_utf8 (n : Int) : validUtf8 (ext.itoa n) = true := by
  rw [hext.itoa_decimal]; exact number_utf8 _ (decimal_isNumber n)

/-- the text of a key of a `utf8OK` program is valid UTF-8 -/
theorem keyText_utf8 : ∀ (k : SVal) (kt : Bytes), k.utf8OK = true → keyText ext k = .ok kt → validUtf8 kt = true
  | .str s, kt, h, hk => by simp only [keyText] at hk; cases hk; simpa [SVal.utf8OK] using h
  | .collectStr s, kt, h, hk => by simp only [keyText] at hk; cases hk; simpa [SVal.utf8OK] using h
  | .unitVariant s, kt, h, hk => by simp only [keyText] at hk; cases hk; simpa [SVal.utf8OK] using h
  | .char cp, kt, h, hk => by
    simp only [keyText] at hk; cases hk
    simp only [SVal.utf8OK] at h
    exact validUtf8_utf8 cp ((isScalar_iff cp).1 h)
  | .bool b, kt, _, hk => by
    simp only [keyText] at hk; cases hk
    cases b
    · exact validUtf8_of_ascii _ lit_ascii.2.1
    · exact validUtf8_of_ascii _ lit_ascii.1
  | .int _ n, kt, _, hk => by simp only [keyText] at hk; cases hk; exact itoa_utf8 ext hext n
  | .f32 b, kt, _, hk => by
    simp only [keyText] at hk
    split at hk
    · rename_i hf; cases hk; exact number_utf8 _ (hext.ryu32_number b hf)
    · cases hk
  | .f64 b, kt, _, hk => by
    simp only [keyText] at hk
    split at hk
    · rename_i hf; cases hk; exact number_utf8 _ (hext.ryu64_number b hf)
    · cases hk
  | .some k, kt, h, hk => by
    simp only [keyText] at hk; simp only [SVal.utf8OK] at h; exact keyText_utf8 k kt h hk
  | .newtypeStruct k, kt, h, hk => by
    simp only [keyText] at hk; simp only [SVal.utf8OK] at h; exact keyText_utf8 k kt h hk
  | .bytes _, _, _, hk | .none, _, _, hk | .unit, _, _, hk | .unitStruct, _, _, hk
  | .newtypeVariant _ _, _, _, hk | .seq _ _, _, _, hk | .tuple _, _, _, hk | .tupleStruct _, _, _, hk
  | .tupleVariant _ _, _, _, hk | .map _ _, _, _, hk | .struct_ _, _, _, hk | .structVariant _ _, _, _, hk
  | .numberLit _, _, _, hk => by simp [keyText] at hk

end

section
variable (ext : Ext)

mutual
theorem depth_image : ∀ (p : SVal) (d : DV), image ext p = .ok d → depth (cstOf d) = p.nest
  | .bool true, d, h | .bool false, d, h | .char _, d, h | .str _, d, h | .none, d, h | .unit, d, h
  | .unitStruct, d, h | .unitVariant _, d, h | .collectStr _, d, h => by
    simp only [image] at h; cases h; rfl
  | .int _ _, d, h | .numberLit _, d, h => by simp only [image] at h; cases h; rfl
  | .f32 b, d, h => by simp only [image] at h; cases h; split <;> rfl
  | .f64 b, d, h => by simp only [image] at h; cases h; split <;> rfl
  | .bytes bs, d, h => by
    simp only [image] at h; cases h
    simp only [cstOf, depth, SVal.nest, bytes_depth]
  | .some p, d, h => by simp only [image] at h; simpa only [SVal.nest] using depth_image p d h
  | .newtypeStruct p, d, h => by simp only [image] at h; simpa only [SVal.nest] using depth_image p d h
  | .newtypeVariant v p, d, h => by
    simp only [image] at h
    cases hp : image ext p with
    | error e => simp [hp, Except.map] at h
    | ok d' =>
      simp only [hp, Except.map] at h; cases h
      simp [tagged, cstOf, cstOfMembers, depth, depthMembers, SVal.nest, depth_image p d' hp]
  | .seq _ xs, d, h | .tuple xs, d, h | .tupleStruct xs, d, h => by
    simp only [image] at h
    cases hp : imageList ext xs with
    | error e => simp [hp, Except.map] at h
    | ok ds =>
      simp only [hp, Except.map] at h; cases h
      simp [cstOf, depth, SVal.nest, depthList_image xs ds hp]
  | .tupleVariant v xs, d, h => by
    simp only [image] at h
    cases hp : imageList ext xs with
    | error e => simp [hp, Except.map] at h
    | ok ds =>
      simp only [hp, Except.map] at h; cases h
      simp [tagged, cstOf, cstOfMembers, depth, depthMembers, SVal.nest, depthList_image xs ds hp]
      omega
  | .map _ es, d, h => by
    simp only [image] at h
    cases hp : imageEntries ext es with
    | error e => simp [hp, Except.map] at h
    | ok ms =>
      simp only [hp, Except.map] at h; cases h
      simp [cstOf, depth, SVal.nest, depthEntries_image es ms hp]
  | .struct_ fs, d, h => by
    simp only [image] at h
    cases hp : imageFields ext fs with
    | error e => simp [hp, Except.map] at h
    | ok ms =>
      simp only [hp, Except.map] at h; cases h
      simp [cstOf, depth, SVal.nest, depthFields_image fs ms hp]
  | .structVariant v fs, d, h => by
    simp only [image] at h
    cases hp : imageFields ext fs with
    | error e => simp [hp, Except.map] at h
    | ok ms =>
      simp only [hp, Except.map] at h; cases h
      simp [tagged, cstOf, cstOfMembers, depth, depthMembers, SVal.nest, depthFields_image fs ms hp]
      omega
theorem depthList_image : ∀ (xs : List SVal) (ds : List DV), imageList ext xs = .ok ds →
    depthList (cstOfList ds) = nestList xs
  | [], ds, h => by simp only [imageList] at h; cases h; rfl
  | x :: xs, ds, h => by
    simp only [imageList] at h
    cases hx : image ext x with
    | error e => simp [hx] at h
    | ok d =>
      cases hr : imageList ext xs with
      | error e => simp [hx, hr] at h
      | ok ds' =>
        simp only [hx, hr] at h; cases h
        simp [cstOfList, depthList, nestList, depth_image x d hx, depthList_image xs ds' hr]
theorem depthEntries_image : ∀ (es : List (SVal × SVal)) (ms : List (Bytes × DV)), imageEntries ext es = .ok ms →
    depthMembers (cstOfMembers ms) = nestEntries es
  | [], ms, h => by simp only [imageEntries] at h; cases h; rfl
  | (k, x) :: es, ms, h => by
    simp only [imageEntries] at h
    cases hk : keyText ext k with
    | error e => simp [hk] at h
    | ok kt =>
      cases hx : image ext x with
      | error e => simp [hk, hx] at h
      | ok d =>
        cases hr : imageEntries ext es with
        | error e => simp [hk, hx, hr] at h
        | ok ms' =>
          simp only [hk, hx, hr] at h; cases h
          simp [cstOfMembers, depthMembers, nestEntries, depth_image x d hx, depthEntries_image es ms' hr]
theorem depthFields_image : ∀ (fs : List (Bytes × SVal)) (ms : List (Bytes × DV)), imageFields ext fs = .ok ms →
    depthMembers (cstOfMembers ms) = nestFields fs
  | [], ms, h => by simp only [imageFields] at h; cases h; rfl
  | (n, x) :: fs, ms, h => by
    simp only [imageFields] at h
    cases hx : image ext x with
    | error e => simp [hx] at h
    | ok d =>
      cases hr : imageFields ext fs with
      | error e => simp [hx, hr] at h
      | ok ms' =>
        simp only [hx, hr] at h; cases h
        simp [cstOfMembers, depthMembers, nestFields, depth_image x d hx, depthFields_image fs ms' hr]
end

end

section
variable (ext : Ext) (hext : ExtOK ext)
include hext

mutual
theorem image_utf8 : ∀ (p : SVal) (d : DV), p.utf8OK = true → image ext p = .ok d → dvUtf8 d = true
  | .bool _, d, _, h | .none, d, _, h | .unit, d, _, h | .unitStruct, d, _, h => by
    simp only [image] at h; cases h; rfl
  | .int _ _, d, _, h => by simp only [image] at h; cases h; rfl
  | .f32 b, d, _, h => by simp only [image] at h; cases h; split <;> rfl
  | .f64 b, d, _, h => by simp only [image] at h; cases h; split <;> rfl
  | .char cp, d, hu, h => by
    simp only [image] at h; cases h
    simp only [SVal.utf8OK] at hu
    simpa only [dvUtf8] using validUtf8_utf8 cp ((isScalar_iff cp).1 hu)
  | .str s, d, hu, h | .unitVariant s, d, hu, h | .collectStr s, d, hu, h => by
    simp only [image] at h; cases h; simpa only [dvUtf8, SVal.utf8OK] using hu
  | .numberLit s, d, _, h => by simp only [image] at h; cases h; rfl
  | .bytes bs, d, _, h => by
    simp only [image] at h; cases h
    simp only [dvUtf8, bytes_utf8]
  | .some p, d, hu, h => by
    simp only [image] at h; simp only [SVal.utf8OK] at hu; exact image_utf8 p d hu h
  | .newtypeStruct p, d, hu, h => by
    simp only [image] at h; simp only [SVal.utf8OK] at hu; exact image_utf8 p d hu h
  | .newtypeVariant v p, d, hu, h => by
    simp only [image] at h
    simp only [SVal.utf8OK, Bool.and_eq_true] at hu
    cases hp : image ext p with
    | error e => simp [hp, Except.map] at h
    | ok d' =>
      simp only [hp, Except.map] at h; cases h
      simp [tagged, dvUtf8, dvUtf8Members, hu.1, image_utf8 p d' hu.2 hp]
  | .seq _ xs, d, hu, h | .tuple xs, d, hu, h | .tupleStruct xs, d, hu, h => by
    simp only [image] at h
    simp only [SVal.utf8OK] at hu
    cases hp : imageList ext xs with
    | error e => simp [hp, Except.map] at h
    | ok ds =>
      simp only [hp, Except.map] at h; cases h
      simpa only [dvUtf8] using imageList_utf8 xs ds hu hp
  | .tupleVariant v xs, d, hu, h => by
    simp only [image] at h
    simp only [SVal.utf8OK, Bool.and_eq_true] at hu
    cases hp : imageList ext xs with
    | error e => simp [hp, Except.map] at h
    | ok ds =>
      simp only [hp, Except.map] at h; cases h
      simp [tagged, dvUtf8, dvUtf8Members, hu.1, imageList_utf8 xs ds hu.2 hp]
  | .map _ es, d, hu, h => by
    simp only [image] at h
    simp only [SVal.utf8OK] at hu
    cases hp : imageEntries ext es with
    | error e => simp [hp, Except.map] at h
    | ok ms =>
      simp only [hp, Except.map] at h; cases h
      simpa only [dvUtf8] using imageEntries_utf8 es ms hu hp
  | .struct_ fs, d, hu, h => by
    simp only [image] at h
    simp only [SVal.utf8OK] at hu
    cases hp : imageFields ext fs with
    | error e => simp [hp, Except.map] at h
    | ok ms =>
      simp only [hp, Except.map] at h; cases h
      simpa only [dvUtf8] using imageFields_utf8 fs ms hu hp
  | .structVariant v fs, d, hu, h => by
    simp only [image] at h
    simp only [SVal.utf8OK, Bool.and_eq_true] at hu
    cases hp : imageFields ext fs with
    | error e => simp [hp, Except.map] at h
    | ok ms =>
      simp only [hp, Except.map] at h; cases h
      simp [tagged, dvUtf8, dvUtf8Members, hu.1, imageFields_utf8 fs ms hu.2 hp]
theorem imageList_utf8 : ∀ (xs : List SVal) (ds : List DV), utf8OKList xs = true → imageList ext xs = .ok ds →
    dvUtf8List ds = true
  | [], ds, _, h => by simp only [imageList] at h; cases h; rfl
  | x :: xs, ds, hu, h => by
    simp only [imageList] at h
    simp only [utf8OKList, Bool.and_eq_true] at hu
    cases hx : image ext x with
    | error e => simp [hx] at h
    | ok d =>
      cases hr : imageList ext xs with
      | error e => simp [hx, hr] at h
      | ok ds' =>
        simp only [hx, hr] at h; cases h
        simp [dvUtf8List, image_utf8 x d hu.1 hx, imageList_utf8 xs ds' hu.2 hr]
theorem imageEntries_utf8 : ∀ (es : List (SVal × SVal)) (ms : List (Bytes × DV)), utf8OKEntries es = true →
    imageEntries ext es = .ok ms → dvUtf8Members ms = true
  | [], ms, _, h => by simp only [imageEntries] at h; cases h; rfl
  | (k, x) :: es, ms, hu, h => by
    simp only [imageEntries] at h
    simp only [utf8OKEntries, Bool.and_eq_true] at hu
    cases hk : keyText ext k with
    | error e => simp [hk] at h
    | ok kt =>
      cases hx : image ext x with
      | error e => simp [hk, hx] at h
      | ok d =>
        cases hr : imageEntries ext es with
        | error e => simp [hk, hx, hr] at h
        | ok ms' =>
          simp only [hk, hx, hr] at h; cases h
          simp [dvUtf8Members, keyText_utf8 ext hext k kt hu.1.1 hk, image_utf8 x d hu.1.2 hx,
            imageEntries_utf8 es ms' hu.2 hr]
theorem imageFields_utf8 : ∀ (fs : List (Bytes × SVal)) (ms : List (Bytes × DV)), utf8OKFields fs = true →
    imageFields ext fs = .ok ms → dvUtf8Members ms = true
  | [], ms, _, h => by simp only [imageFields] at h; cases h; rfl
  | (n, x) :: fs, ms, hu, h => by
    simp only [imageFields] at h
    simp only [utf8OKFields, Bool.and_eq_true] at hu
    cases hx : image ext x with
    | error e => simp [hx] at h
    | ok d =>
      cases hr : imageFields ext fs with
      | error e => simp [hx, hr] at h
      | ok ms' =>
        simp only [hx, hr] at h; cases h
        simp [dvUtf8Members, hu.1.1, image_utf8 x d hu.1.2 hx, imageFields_utf8 fs ms' hu.2 hr]
end

end

/-! ## f32 widening changes neither predicate -/

mutual
theorem nest_widen (ap : Bool) : ∀ p : SVal, (widenF32 ap p).nest = p.nest
  | .bool _ | .int _ _ | .f64 _ | .char _ | .str _ | .bytes _ | .none | .unit | .unitStruct | .unitVariant _
  | .collectStr _ | .numberLit _ => by simp [widenF32]
  | .f32 b => by by_cases hw : (!ap && finite32 b) = true <;> simp [widenF32, hw, SVal.nest]
  | .some p => by simpa only [widenF32, SVal.nest] using nest_widen ap p
  | .newtypeStruct p => by simpa only [widenF32, SVal.nest] using nest_widen ap p
  | .newtypeVariant _ p => by simp only [widenF32, SVal.nest, nest_widen ap p]
  | .seq h xs => by simp only [widenF32, SVal.nest, nestList_widen ap xs]
  | .tuple xs => by simp only [widenF32, SVal.nest, nestList_widen ap xs]
  | .tupleStruct xs => by simp only [widenF32, SVal.nest, nestList_widen ap xs]
  | .tupleVariant _ xs => by simp only [widenF32, SVal.nest, nestList_widen ap xs]
  | .map h es => by simp only [widenF32, SVal.nest, nestEntries_widen ap es]
  | .struct_ fs => by simp only [widenF32, SVal.nest, nestFields_widen ap fs]
  | .structVariant _ fs => by simp only [widenF32, SVal.nest, nestFields_widen ap fs]
theorem nestList_widen (ap : Bool) : ∀ xs : List SVal, nestList (widenList ap xs) = nestList xs
  | [] => rfl
  | x :: xs => by simp only [widenList, nestList, nest_widen ap x, nestList_widen ap xs]
theorem nestEntries_widen (ap : Bool) : ∀ es : List (SVal × SVal), nestEntries (widenEntries ap es) = nestEntries es
  | [] => rfl
  | (k, v) :: es => by simp only [widenEntries, nestEntries, nest_widen ap v, nestEntries_widen ap es]
theorem nestFields_widen (ap : Bool) : ∀ fs : List (Bytes × SVal), nestFields (widenFields ap fs) = nestFields fs
  | [] => rfl
  | (n, v) :: fs => by simp only [widenFields, nestFields, nest_widen ap v, nestFields_widen ap fs]
end

mutual
theorem utf8OK_widen (ap : Bool) : ∀ p : SVal, (widenF32 ap p).utf8OK = p.utf8OK
  | .bool _ | .int _ _ | .f64 _ | .char _ | .str _ | .bytes _ | .none | .unit | .unitStruct | .unitVariant _
  | .collectStr _ | .numberLit _ => by simp [widenF32]
  | .f32 b => by by_cases hw : (!ap && finite32 b) = true <;> simp [widenF32, hw, SVal.utf8OK]
  | .some p => by simpa only [widenF32, SVal.utf8OK] using utf8OK_widen ap p
  | .newtypeStruct p => by simpa only [widenF32, SVal.utf8OK] using utf8OK_widen ap p
  | .newtypeVariant _ p => by simp only [widenF32, SVal.utf8OK, utf8OK_widen ap p]
  | .seq h xs => by simp only [widenF32, SVal.utf8OK, utf8OKList_widen ap xs]
  | .tuple xs => by simp only [widenF32, SVal.utf8OK, utf8OKList_widen ap xs]
  | .tupleStruct xs => by simp only [widenF32, SVal.utf8OK, utf8OKList_widen ap xs]
  | .tupleVariant _ xs => by simp only [widenF32, SVal.utf8OK, utf8OKList_widen ap xs]
  | .map h es => by simp only [widenF32, SVal.utf8OK, utf8OKEntries_widen ap es]
  | .struct_ fs => by simp only [widenF32, SVal.utf8OK, utf8OKFields_widen ap fs]
  | .structVariant _ fs => by simp only [widenF32, SVal.utf8OK, utf8OKFields_widen ap fs]
theorem utf8OKList_widen (ap : Bool) : ∀ xs : List SVal, utf8OKList (widenList ap xs) = utf8OKList xs
  | [] => rfl
  | x :: xs => by simp only [widenList, utf8OKList, utf8OK_widen ap x, utf8OKList_widen ap xs]
theorem utf8OKEntries_widen (ap : Bool) : ∀ es : List (SVal × SVal), utf8OKEntries (widenEntries ap es) = utf8OKEntries es
  | [] => rfl
  | (k, v) :: es => by simp only [widenEntries, utf8OKEntries, utf8OK_widen ap v, utf8OKEntries_widen ap es]
theorem utf8OKFields_widen (ap : Bool) : ∀ fs : List (Bytes × SVal), utf8OKFields (widenFields ap fs) = utf8OKFields fs
  | [] => rfl
  | (n, v) :: fs => by simp only [widenFields, utf8OKFields, utf8OK_widen ap v, utf8OKFields_widen ap fs]
end

end SJ.Proofs.ProgSide
