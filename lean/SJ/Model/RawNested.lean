import SJ.Model.Typed
import SJ.Model.Raw
/-!
# `RawValue` captured at nested positions: `Vec<Box<RawValue>>`, `BTreeMap<String, Box<RawValue>>`

```rust
// src/de.rs, impl de::Deserializer for &mut Deserializer<R>
fn deserialize_newtype_struct<V>(self, name: &str, visitor: V) -> Result<V::Value> {
    #[cfg(feature = "raw_value")]
    { if name == crate::raw::TOKEN { return self.deserialize_raw_value(visitor); } }
    let _ = name;
    visitor.visit_newtype_struct(self) }
fn deserialize_raw_value<V>(&mut self, visitor: V) -> Result<V::Value> {
    tri!(self.parse_whitespace());
    self.read.begin_raw_buffering();      // SliceRead: raw_buffering_start_index = index; IoRead: raw_buffer = Some(Vec::new())
    tri!(self.ignore_value());
    self.read.end_raw_buffering(visitor) }
// src/read.rs
// SliceRead::end_raw_buffering: let raw = &self.slice[self.raw_buffering_start_index..self.index];
//     match str::from_utf8(raw) { Ok(raw) => visitor.visit_map(BorrowedRawDeserializer { raw_value: Some(raw) }),
//                                 Err(_) => error(self, ErrorCode::InvalidUnicodeCodePoint) }
// StrRead::end_raw_buffering:   let raw = &self.data[start..index]; visitor.visit_map(BorrowedRawDeserializer { .. })   (no check)
// IoRead: `next()` / `discard()` push every consumed byte to `raw_buffer` while it is `Some`; the byte that
//     `parse_whitespace` has peeked is pushed when `ignore_value` consumes it; a byte that is only peeked when the
//     value ends (the terminator of a number) is not. end_raw_buffering: String::from_utf8(raw_buffer.take().unwrap()),
//     error → error(self, InvalidUnicodeCodePoint), else visitor.visit_map(OwnedRawDeserializer { .. })
```
(`src/raw.rs`: `Box<RawValue>`'s `BoxedVisitor::visit_map` reads the magic key and takes the text as
the value; `&RawValue` likewise by `visit_borrowed_str`.) All three sources capture the bytes from the
first non-whitespace byte up to the last byte `ignore_value` consumes.

`deRaw` is this entry point as an element deserialiser of the typed model (`SJ.Model.Typed`): the
sequence / map machinery around it (`deSeq`, `seqLoop`, `hasNextElement`, `endSeq`, `deMap`, `mapLoop`,
`hasNextKey`, `deKey`, `parseObjectColon`, `endMap`) is the typed model's own, unchanged; the captured
text is returned as `TVal.str`. `rawSeqTop` = `from_*::<Vec<Box<RawValue>>>` (or `Vec<&RawValue>`),
`rawMapTop` = `from_*::<BTreeMap<String, Box<RawValue>>>` (entries in source order).

Import-free (only `SJ.Model.*`).
-/
namespace SJ.Model.RawNested
open SJ SJ.Gen SJ.Model.Typed
open SJ.Model.Machine (init)
open SJ.Model.Stream (skipWs)

/-- `deserialize_raw_value` with `Box<RawValue>`'s / `&RawValue`'s visitor. The error of a failed UTF-8
    check is `error(self, …)` = `read.position()`; the captured text then contains a string literal, so
    the value ended with a consumed `"`, `]` or `}` and no byte is peeked: index = end of the value. -/
def deRaw (env : Env) (rest : Bytes) (pos : Nat) : TOut :=
  match skipWs rest pos with
  | (r, p) =>
    match machine (ignEnv env) env.flt 0 init r p with
    | .ok _ rest' e =>
      let captured := r.take (e - p)
      if env.src != .str && !Spec.Utf8.validUtf8 captured then .err .InvalidUnicodeCodePoint e
      else .ok (.str captured) rest' e
    | .err c i => .err c i
    | .data i => .data i
    | .raw r' p' => .raw r' p'
    | .io => .io
    | .fuel => .fuel

/-- `Vec<T>::deserialize` → `deserialize_seq(VecVisitor)`, elements `Box<RawValue>` -/
def rawSeq (env : Env) (rest : Bytes) (pos : Nat) : TOut :=
  deSeq env 0 (fun r p => (seqLoop env (deRaw env) (r.length + 1) true [] r p).map .seq) rest pos

/-- `BTreeMap<String, T>::deserialize` → `deserialize_map(MapVisitor)`, keys `String`, values `Box<RawValue>` -/
def rawMap (env : Env) (rest : Bytes) (pos : Nat) : TOut :=
  deMap env 0 (fun r p => (mapLoop env .string (deRaw env) (r.length + 1) true [] r p).map .map) rest pos

/-- `from_str` / `from_slice` / `from_reader`: the value, then `Deserializer::end()` (as `deTypedTop`) -/
def finishTop (env : Env) (r : TOut) : Top :=
  match r with
  | .ok v rest pos =>
    (match skipWs rest pos with
     | ([], _) => if env.flt then .io else .ok v
     | (_ :: _, p) => .err .TrailingCharacters (p + 1))
  | .err c i => .err c i
  | .data i => .data (some i)
  | .raw _ _ => .data none
  | .io => .io
  | .fuel => .fuel

def rawSeqTop (env : Env) (bs : Bytes) : Top := finishTop env (rawSeq env bs 0)
def rawMapTop (env : Env) (bs : Bytes) : Top := finishTop env (rawMap env bs 0)
/-- a single `Box<RawValue>` through the same entry point (= `Model.Raw.rawTop`, see `Proofs.RawNested`) -/
def rawOneTop (env : Env) (bs : Bytes) : Top := finishTop env (deRaw env bs 0)

end SJ.Model.RawNested
