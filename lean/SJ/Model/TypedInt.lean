import SJ.Model.Num
import SJ.Spec.Canon
/-!
# Integer targets and Number accessors (src/de.rs `deserialize_number` / `do_deserialize_i128`,
# src/value/de.rs, src/number.rs)

```rust
// 8..64-bit targets, text:   parse_integer(..).visit(visitor)   (same with arbitrary_precision)
//   U64(x) => visitor.visit_u64(x)   I64(x) => visitor.visit_i64(x)   F64(x) => visitor.visit_f64(x)
// serde's integer visitors accept visit_u64/visit_i64 iff the value fits the target, reject visit_f64.
// 128-bit targets, text:     optional '-', scan_integer128 (0 | [1-9][0-9]*), buf.parse::<i128/u128>()
//   (u128: a leading '-' is NumberOutOfRange); the caller's end()/separator check rejects a following '.'/'e'.
```
-/
namespace SJ.Model.TypedInt
open SJ SJ.Model.Num

inductive IntTy where
  | i8 | i16 | i32 | i64 | i128 | u8 | u16 | u32 | u64 | u128
deriving DecidableEq, Repr

def IntTy.lo : IntTy → Int
  | .i8 => -128 | .i16 => -32768 | .i32 => -2147483648 | .i64 => -9223372036854775808
  | .i128 => -170141183460469231731687303715884105728
  | _ => 0

def IntTy.hi : IntTy → Int
  | .i8 => 127 | .i16 => 32767 | .i32 => 2147483647 | .i64 => 9223372036854775807
  | .i128 => 170141183460469231731687303715884105727
  | .u8 => 255 | .u16 => 65535 | .u32 => 4294967295 | .u64 => 18446744073709551615
  | .u128 => 340282366920938463463374607431768211455

def IntTy.is128 : IntTy → Bool
  | .i128 | .u128 => true
  | _ => false

def inRange (ty : IntTy) (x : Int) : Bool := ty.lo ≤ x && x ≤ ty.hi

/-- serde's integer visitor for `ty`: `visit_u64`/`visit_i64` succeed iff the value fits, `visit_f64` fails -/
def visitInt (ty : IntTy) (r : NRes) : Option Int :=
  match r with
  | .u64 n => if inRange ty n then some n else none
  | .i64 k => if inRange ty k then some k else none
  | _ => none

/-- a number literal (already known to be RFC 8259 number syntax) deserialised into `ty` from text -/
def deIntText (fr : Bool) (ty : IntTy) (p : Parts) : Option Int :=
  if ty.is128 then
    -- scan_integer128 consumes sign and integer digits only; fraction/exponent are left over and
    -- rejected by the caller
    if p.frac.isSome || p.exp.isSome then none
    else
      let n : Int := natOfDigits p.int
      let x : Int := if p.neg then -n else n
      if ty = .u128 && p.neg then none
      else if inRange ty x then some x else none
  else
    visitInt ty (if fr then convertRoundtrip p else convertDefault p)

/-- the specification: the literal's mathematical value, if it is an integer literal (no fraction,
    no exponent; and not `-0` for the 8..64-bit targets) within the target's range -/
def specInt (ty : IntTy) (p : Parts) : Option Int :=
  if p.frac.isSome || p.exp.isSome then none
  else
    let n : Int := natOfDigits p.int
    let x : Int := if p.neg then -n else n
    if !ty.is128 && p.neg && n == 0 then none          -- `-0` is the float negative zero
    else if ty = .u128 && p.neg then none             -- (u128 rejects any minus sign, `-0` included)
    else if inRange ty x then some x else none

/-! ### `Number` accessors (default build): `N::PosInt(u64) | N::NegInt(i64) | N::Float(f64)` -/

def asI64 : Num → Option Int
  | .pos n => if n ≤ 9223372036854775807 then some n else none
  | .neg k => some k
  | _ => none
def asU64 : Num → Option Int
  | .pos n => some n
  | _ => none
def asI128 : Num → Option Int
  | .pos n => some n
  | .neg k => some k
  | _ => none
def asU128 : Num → Option Int
  | .pos n => some n
  | _ => none
def isI64 : Num → Bool
  | .pos n => n ≤ 9223372036854775807
  | .neg _ => true
  | _ => false
def isU64 : Num → Bool
  | .pos _ => true
  | _ => false

/-- the exact integer a well-formed `Num` holds -/
def exactInt : Num → Option Int
  | .pos n => some n
  | .neg k => some k
  | _ => none

end SJ.Model.TypedInt
