import SJ.Model.Typed
/-!
# `StreamDeserializer<R, T>` over TYPED item types (src/de.rs `impl Iterator for StreamDeserializer`)

`Model.Stream.next` is the iterator over `Value` / `IgnoredAny` items on the byte-step machine; here the
item is read by the typed text deserializer `Model.Typed.deTyped` (the universal seed of a `Schema`), in
exactly the same frame:

```rust
fn next(&mut self) -> Option<Result<T>> {
    if R::should_early_return_if_failed && self.failed { return None; }
    match self.de.parse_whitespace() {
        Ok(None) => { self.offset = self.de.read.byte_offset(); None }
        Ok(Some(b)) => {
            let self_delineated_value = match b { b'[' | b'"' | b'{' => true, _ => false };
            self.offset = self.de.read.byte_offset();
            let result = de::Deserialize::deserialize(&mut self.de);
            Some(match result {
                Ok(value) => { self.offset = self.de.read.byte_offset();
                               if self_delineated_value { Ok(value) } else { self.peek_end_of_value().map(|()| value) } }
                Err(e) => { self.de.read.set_failed(&mut self.failed); Err(e) } }) }
        Err(e) => { self.de.read.set_failed(&mut self.failed); Some(Err(e)) } } }

fn peek_end_of_value(&mut self) -> Result<()> {
    let peek = match self.de.peek() {
        Ok(peek) => peek,
        Err(err) => { self.de.read.set_failed(&mut self.failed); return Err(err); }   // fix 2eba6fa
    };
    match peek {
        Some(b' ' | b'\n' | b'\t' | b'\r' | b'"' | b'[' | b']' | b'{' | b'}' | b',' | b':') | None => Ok(()),
        Some(_) => { let position = self.de.read.peek_position();
                     Err(Error::syntax(ErrorCode::TrailingCharacters, position.line, position.column)) } } }
```

* `T::deserialize(&mut self.de)` is `deTyped env (size s + 1) 0 s` on the unread input AFTER `parse_whitespace`
  (the byte `b` is only peeked; every `deserialize_*` starts with its own `parse_whitespace`, which finds `b` at once).
  No `end()` is called: what follows the value is left unread. The depth budget is the full one for every item
  (`t = 0`: every container restores `remaining_depth`; after `RecursionLimitExceeded` the stream has failed).
* `self.offset`: `read.byte_offset()` — a slice's index; a reader's count of pulled bytes minus the peeked one: in both
  cases the absolute index of the first unread byte (`pos` of the model). It is set to the start of the item before
  `deserialize`, to the end of the value after a success, and NOT touched on an error.
* a typed item that does not start with `[`, `"`, `{` — numbers, `true`, `false`, `null` (units, `None`, …) — is followed by
  `peek_end_of_value`; its `TrailingCharacters` error replaces the value but does NOT fail the stream (`1x`, `truetrue`,
  `nullnull`), its I/O error (reader in fault mode) does.
* `set_failed`: a reader sets the flag (`should_early_return_if_failed`); a slice / `&str` truncates itself at its current
  index, so that the next `parse_whitespace` sees the end of input. Either way every later `next()` is `None`.
  **`byte_offset()` after a failure**: the reader's stays where it was (the early return touches nothing); a slice's
  next call runs `Ok(None) => self.offset = byte_offset()` = the index at which its parse stopped. The typed model does
  not expose that index (`Res.err c idx` carries the reported position, which is the index or the index + 1); the model
  keeps the reader's behaviour (`offset` frozen) for all sources, and the driver checks the slice's post-failure offset
  against the reported error position instead (`SJ/Drv/StreamTyped.lean`, message `C09 … after the failed item`).
* fault mode (`env.flt`, C13): the reader fails with an I/O error where the delivered bytes end — in `parse_whitespace`
  (`Some(Err(io))`, failed, offset untouched), inside `deserialize` (`Res.io`), or in `peek_end_of_value`.
-/
namespace SJ.Model.StreamTyped
open SJ SJ.Gen SJ.Model.Typed
open SJ.Model.Stream (SS skipWs isSelfDelineated isStreamDelim start)

/-- what one call of `next()` returns -/
inductive TItem where
  /-- `None` -/
  | none
  /-- `Some(Ok(value))` -/
  | ok (v : TVal)
  /-- `Some(Err(e))`, parser error `code` whose position counts `idx` bytes -/
  | err (c : Code) (idx : Nat)
  /-- `Some(Err(e))`, visitor (`Data`) error, positioned at `idx` or never positioned (line 0) -/
  | data (idx : Option Nat)
  /-- `Some(Err(e))`, `Error::io` (only with `env.flt`) -/
  | io
  /-- the model ran out of fuel (unreachable: `SJ.Props.StreamTyped.nextT_no_fuel`) -/
  | fuel

/-- the state after `set_failed`, the item having started at `(r, p)` -/
def failAt (r : Bytes) (p : Nat) : SS := { rest := r, pos := p, offset := p, failed := true }

/-- one call of `next()` on a stream of items of schema `s` -/
def nextT (env : Env) (s : Schema) (st : SS) : TItem × SS :=
  if st.failed then (.none, st)
  else
    match skipWs st.rest st.pos with
    | ([], p) =>
      -- `parse_whitespace`: `Ok(None)`, or (failing reader) `Err(io)` — `self.offset` is not touched then
      if env.flt then (.io, { rest := [], pos := p, offset := st.offset, failed := true })
      else (.none, { rest := [], pos := p, offset := p, failed := false })
    | (b :: r, p) =>
      match deTyped env (Schema.size s + 1) 0 s (b :: r) p with
      | .ok v rest' e =>
        let st' : SS := { rest := rest', pos := e, offset := e, failed := false }
        if isSelfDelineated b then (.ok v, st')
        else
          match rest' with
          | [] => if env.flt then (.io, { st' with failed := true }) else (.ok v, st')
          | d :: _ =>
            if isStreamDelim d then (.ok v, st')
            else (.err .TrailingCharacters (e + 1), st')     -- `peek_end_of_value`: the stream goes on
      | .err c i => (.err c i, failAt (b :: r) p)
      | .data i => (.data (some i), failAt (b :: r) p)
      | .raw _ _ => (.data none, failAt (b :: r) p)
      | .io => (.io, failAt (b :: r) p)
      | .fuel => (.fuel, failAt (b :: r) p)

/-- `k` calls of `next()`, each followed by `byte_offset()` -/
def historyT (env : Env) (s : Schema) : Nat → SS → List (TItem × Nat)
  | 0, _ => []
  | k + 1, st => let (it, st') := nextT env s st; (it, st'.offset) :: historyT env s k st'

/-- the stream state after `k` calls -/
def stateAfterT (env : Env) (s : Schema) : Nat → SS → SS
  | 0, st => st
  | k + 1, st => stateAfterT env s k (nextT env s st).2

end SJ.Model.StreamTyped
