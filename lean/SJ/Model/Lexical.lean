import SJ.Spec.Ieee
import SJ.Spec.Ieee32
import SJ.Gen.Lexical
import SJ.Model.Num
/-!
# `src/lexical/*` and its integration in `src/de.rs` under `float_roundtrip`

A transcription, function by function, of the decimal → float conversion that `serde_json` uses
when the feature `float_roundtrip` is on:

* `lexical/parse.rs`     `parse_concise_float`, `parse_truncated_float`
* `lexical/digit.rs`     `add_digit`;  `lexical/exponent.rs`  `scientific_exponent`, `mantissa_exponent`
* `lexical/algorithm.rs` `fast_path`, `multiply_exponent_extended`/`moderate_path`, `fallback_path`
* `lexical/float.rs`     `ExtendedFloat::{mul, normalize, into_float, into_downward_float}`, `from_float`, `into_float`
* `lexical/shift.rs`, `lexical/rounding.rs`, `lexical/errors.rs`
* `lexical/bhcomp.rs`    `parse_mantissa`, `bh_extended`, `large_atof`, `small_atof`, `bhcomp`
* `de.rs`                `parse_integer` … `f64_long_from_parts` (the `#[cfg(feature = "float_roundtrip")]` variants)

Conventions. `u64` values are naturals `< 2^64`; wherever Rust's `u64`/`u32` arithmetic could wrap the
wrap is written out (`u64`, `u32`). `i32` values are `Int` with saturation written out (`satI32`).
A native float `F` (= `f32` or `f64`) is its bit pattern as a natural; the per-type constants come
from `Gen.f32Consts`/`Gen.f64Consts` (extracted from `num.rs`), the tables from `Gen.*` (extracted).
`Bigint` is a natural: the limb arithmetic of `math.rs` (`imul_small`, `iadd_small`, `imul_pow5`,
`imul_pow2`, `compare`, `hi64`, `bit_length`) is abstracted by the arithmetic of `Nat`; the control
structure around it is kept. Table look-ups that would panic in Rust when out of range use `getD`
(`Proofs/Lexical.lean` shows the indices in range). Import-free.
-/
namespace SJ.Model.Lexical
open SJ SJ.Gen SJ.Model.Num

abbrev FC := FloatConsts

/-- the per-type constants: `single = true` is `f32` -/
def fc (single : Bool) : FC := if single then f32Consts else f64Consts

def u64 (x : Nat) : Nat := x % 2 ^ 64
def u32 (x : Nat) : Nat := x % 2 ^ 32
/-- saturation of `i32::saturating_add/sub` -/
def satI32 (x : Int) : Int := if x > 2147483647 then 2147483647 else if x < -2147483648 then -2147483648 else x

/-- `struct ExtendedFloat { mant: u64, exp: i32 }` -/
structure ExtFloat where
  mant : Nat
  exp : Int
deriving Repr, DecidableEq, Inhabited

/-! ## shift.rs -/

/-- `fn shr(fp, shift) { fp.mant >>= shift; fp.exp += shift; }` -/
def shr (fp : ExtFloat) (shift : Nat) : ExtFloat := { mant := fp.mant >>> shift, exp := fp.exp + shift }

/-- `fn overflowing_shr(fp, shift) { fp.mant = if shift as u64 == bits { 0 } else { fp.mant >> shift }; fp.exp += shift; }` -/
def overflowingShr (fp : ExtFloat) (shift : Nat) : ExtFloat :=
  { mant := if shift == 64 then 0 else fp.mant >>> shift, exp := fp.exp + shift }

/-- `fn shl(fp, shift) { fp.mant <<= shift; fp.exp -= shift; }` (bits shifted out of the `u64` are lost) -/
def shl (fp : ExtFloat) (shift : Nat) : ExtFloat := { mant := u64 (fp.mant <<< shift), exp := fp.exp - shift }

/-! ## float.rs: ExtendedFloat -/

/-- `u64::leading_zeros` of a non-zero value -/
def leadingZeros (m : Nat) : Nat := 63 - Nat.log2 m

/-- `fn normalize(&mut self) -> u32 { let shift = if self.mant == 0 { 0 } else { self.mant.leading_zeros() }; shl(self, shift as i32); shift }` -/
def normalize (fp : ExtFloat) : ExtFloat × Nat :=
  let shift := if fp.mant == 0 then 0 else leadingZeros fp.mant
  (shl fp shift, shift)

/-- ```
    fn mul(&self, b: &ExtendedFloat) -> ExtendedFloat {
        let ah = self.mant >> u64::HALF;  let al = self.mant & u64::LOMASK;
        let bh = b.mant >> u64::HALF;     let bl = b.mant & u64::LOMASK;
        let ah_bl = ah * bl; let al_bh = al * bh; let al_bl = al * bl; let ah_bh = ah * bh;
        let mut tmp = (ah_bl & u64::LOMASK) + (al_bh & u64::LOMASK) + (al_bl >> u64::HALF);
        tmp += 1 << (u64::HALF - 1);      // round up
        ExtendedFloat { mant: ah_bh + (ah_bl >> u64::HALF) + (al_bh >> u64::HALF) + (tmp >> u64::HALF),
                        exp: self.exp + b.exp + u64::FULL }
    }``` -/
def mul (a b : ExtFloat) : ExtFloat :=
  let ah := a.mant >>> u64Half
  let al := a.mant &&& u64Lomask
  let bh := b.mant >>> u64Half
  let bl := b.mant &&& u64Lomask
  let ah_bl := ah * bl
  let al_bh := al * bh
  let al_bl := al * bl
  let ah_bh := ah * bh
  let tmp := (ah_bl &&& u64Lomask) + (al_bh &&& u64Lomask) + (al_bl >>> u64Half)
  let tmp := tmp + (1 <<< (u64Half - 1))
  { mant := u64 (ah_bh + (ah_bl >>> u64Half) + (al_bh >>> u64Half) + (tmp >>> u64Half)),
    exp := a.exp + b.exp + u64Full }

/-! ## rounding.rs -/

/-- `fn lower_n_mask(n) -> u64 { if n == bits { u64::MAX } else { (1 << n) - 1 } }` -/
def lowerNMask (n : Nat) : Nat := if n == 64 then 2 ^ 64 - 1 else u64 (1 <<< n) - 1

/-- `fn lower_n_halfway(n) -> u64 { if n == 0 { 0 } else { nth_bit(n - 1) } }`, `nth_bit(n) = 1 << n` -/
def lowerNHalfway (n : Nat) : Nat := if n == 0 then 0 else u64 (1 <<< (n - 1))

/-- `fn internal_n_mask(bit, n) -> u64 { lower_n_mask(bit) ^ lower_n_mask(bit - n) }` -/
def internalNMask (bit n : Nat) : Nat := lowerNMask bit ^^^ lowerNMask (bit - n)

/-- ```
    fn round_nearest(fp, shift) -> (bool, bool) {
        let mask = lower_n_mask(shift as u64);  let halfway = lower_n_halfway(shift as u64);
        let truncated_bits = fp.mant & mask;
        let is_above = truncated_bits > halfway;  let is_halfway = truncated_bits == halfway;
        overflowing_shr(fp, shift);
        (is_above, is_halfway)
    }``` -/
def roundNearest (fp : ExtFloat) (shift : Nat) : ExtFloat × Bool × Bool :=
  let mask := lowerNMask shift
  let halfway := lowerNHalfway shift
  let truncatedBits := fp.mant &&& mask
  (overflowingShr fp shift, decide (truncatedBits > halfway), truncatedBits == halfway)

/-- `fn tie_even(fp, is_above, is_halfway) { let is_odd = fp.mant & 1 == 1; if is_above || (is_odd && is_halfway) { fp.mant += 1; } }` -/
def tieEven (fp : ExtFloat) (isAbove isHalfway : Bool) : ExtFloat :=
  let isOdd := fp.mant &&& 1 == 1
  if isAbove || (isOdd && isHalfway) then { fp with mant := u64 (fp.mant + 1) } else fp

/-- `fn round_nearest_tie_even(fp, shift) { let (is_above, is_halfway) = round_nearest(fp, shift); tie_even(fp, is_above, is_halfway); }` -/
def roundNearestTieEven (fp : ExtFloat) (shift : Nat) : ExtFloat :=
  let (fp, isAbove, isHalfway) := roundNearest fp shift
  tieEven fp isAbove isHalfway

/-- `fn round_downward(fp, shift)`: `round_toward` shifts (`overflowing_shr`), `downard` does nothing -/
def roundDownward (fp : ExtFloat) (shift : Nat) : ExtFloat := overflowingShr fp shift

/-- ```
    fn round_to_float<F, Algorithm>(fp, algorithm) {
        let final_exp = fp.exp + F::DEFAULT_SHIFT;
        if final_exp < F::DENORMAL_EXPONENT {
            let diff = F::DENORMAL_EXPONENT - fp.exp;
            if diff <= u64::FULL { algorithm(fp, diff); } else { fp.mant = 0; fp.exp = 0; }
        } else { algorithm(fp, F::DEFAULT_SHIFT); }
        if fp.mant & F::CARRY_MASK == F::CARRY_MASK { shr(fp, 1); }
    }``` -/
def roundToFloat (c : FC) (algorithm : ExtFloat → Nat → ExtFloat) (fp : ExtFloat) : ExtFloat :=
  let finalExp := fp.exp + c.defaultShift
  let fp :=
    if finalExp < c.denormalExponent then
      let diff := c.denormalExponent - fp.exp
      if diff ≤ (u64Full : Int) then algorithm fp diff.toNat else { mant := 0, exp := 0 }
    else algorithm fp c.defaultShift.toNat
  if fp.mant &&& c.carryMask == c.carryMask then shr fp 1 else fp

/-- ```
    fn avoid_overflow<F>(fp) {
        if fp.exp >= F::MAX_EXPONENT {
            let diff = fp.exp - F::MAX_EXPONENT;
            if diff <= F::MANTISSA_SIZE {
                let bit = (F::MANTISSA_SIZE + 1) as u64;  let n = (diff + 1) as u64;
                let mask = internal_n_mask(bit, n);
                if (fp.mant & mask) == 0 { let shift = diff + 1; shl(fp, shift); }
            }
        }
    }``` -/
def avoidOverflow (c : FC) (fp : ExtFloat) : ExtFloat :=
  if fp.exp ≥ c.maxExponent then
    let diff := fp.exp - c.maxExponent
    if diff ≤ c.mantissaSize then
      let bit := (c.mantissaSize + 1).toNat
      let n := (diff + 1).toNat
      let mask := internalNMask bit n
      if fp.mant &&& mask == 0 then shl fp (diff + 1).toNat else fp
    else fp
  else fp

/-- `fn round_to_native<F, Algorithm>(fp, algorithm) { fp.normalize(); round_to_float::<F, _>(fp, algorithm); avoid_overflow::<F>(fp); }` -/
def roundToNative (c : FC) (algorithm : ExtFloat → Nat → ExtFloat) (fp : ExtFloat) : ExtFloat :=
  avoidOverflow c (roundToFloat c algorithm (normalize fp).1)

/-! ## float.rs: packing; num.rs: unpacking -/

/-- ```
    fn into_float<F>(fp: ExtendedFloat) -> F {
        if fp.mant == 0 || fp.exp < F::DENORMAL_EXPONENT { F::ZERO }
        else if fp.exp >= F::MAX_EXPONENT { F::from_bits(F::INFINITY_BITS) }
        else {
            let exp: u64;
            if (fp.exp == F::DENORMAL_EXPONENT) && (fp.mant & F::HIDDEN_BIT_MASK.as_u64()) == 0 { exp = 0; }
            else { exp = (fp.exp + F::EXPONENT_BIAS) as u64; }
            let exp = exp << F::MANTISSA_SIZE;
            let mant = fp.mant & F::MANTISSA_MASK.as_u64();
            F::from_bits(F::Unsigned::as_cast(mant | exp))
        }
    }``` -/
def intoFloatBits (c : FC) (fp : ExtFloat) : Nat :=
  if fp.mant == 0 || fp.exp < c.denormalExponent then 0
  else if fp.exp ≥ c.maxExponent then c.infinityBits
  else
    let exp : Nat :=
      if fp.exp == c.denormalExponent && (fp.mant &&& c.hiddenBitMask) == 0 then 0
      else (fp.exp + c.exponentBias).toNat
    let exp := u64 (exp <<< c.mantissaSize.toNat)
    let mant := fp.mant &&& c.mantissaMask
    (mant ||| exp) % 2 ^ c.bits

/-- `fn into_float<F>(mut self) -> F { self.round_to_native::<F, _>(round_nearest_tie_even); into_float(self) }` -/
def intoFloat (c : FC) (fp : ExtFloat) : Nat := intoFloatBits c (roundToNative c roundNearestTieEven fp)

/-- `fn into_downward_float<F>(mut self) -> F { self.round_to_native::<F, _>(round_downward); into_float(self) }` -/
def intoDownwardFloat (c : FC) (fp : ExtFloat) : Nat := intoFloatBits c (roundToNative c roundDownward fp)

/-- `fn is_denormal(self) -> bool { self.to_bits() & Self::EXPONENT_MASK == 0 }` -/
def isDenormal (c : FC) (b : Nat) : Bool := b &&& c.exponentMask == 0
/-- `fn is_special(self) -> bool { self.to_bits() & Self::EXPONENT_MASK == Self::EXPONENT_MASK }` -/
def isSpecial (c : FC) (b : Nat) : Bool := b &&& c.exponentMask == c.exponentMask
/-- `fn is_inf(self)`: special and fraction bits zero; on the values lexical returns (never NaN) this is `f.is_infinite()` -/
def isInf (c : FC) (b : Nat) : Bool := isSpecial c b && (b &&& c.mantissaMask) == 0

/-- ```
    fn exponent(self) -> i32 {
        if self.is_denormal() { return Self::DENORMAL_EXPONENT; }
        let biased_e = ((bits & Self::EXPONENT_MASK) >> Self::MANTISSA_SIZE).as_u32();
        biased_e as i32 - Self::EXPONENT_BIAS
    }``` -/
def exponent (c : FC) (b : Nat) : Int :=
  if isDenormal c b then c.denormalExponent
  else (((b &&& c.exponentMask) >>> c.mantissaSize.toNat : Nat) : Int) - c.exponentBias

/-- `fn mantissa(self) -> Unsigned { let s = bits & Self::MANTISSA_MASK; if !self.is_denormal() { s + Self::HIDDEN_BIT_MASK } else { s } }` -/
def mantissa (c : FC) (b : Nat) : Nat :=
  let s := b &&& c.mantissaMask
  if !isDenormal c b then s + c.hiddenBitMask else s

/-- `fn next_positive(self) -> Self { Self::from_bits(self.to_bits() + 1) }` -/
def nextPositive (c : FC) (b : Nat) : Nat := (b + 1) % 2 ^ c.bits

/-- `fn round_positive_even(self) -> Self { if self.mantissa() & 1 == 1 { self.next_positive() } else { self } }` -/
def roundPositiveEven (c : FC) (b : Nat) : Nat := if mantissa c b &&& 1 == 1 then nextPositive c b else b

/-- `fn from_float<F>(f: F) -> ExtendedFloat { ExtendedFloat { mant: u64::as_cast(f.mantissa()), exp: f.exponent() } }` -/
def fromFloat (c : FC) (b : Nat) : ExtFloat := { mant := mantissa c b, exp := exponent c b }

/-! ## errors.rs -/

/-- ```
    fn nearest_error_is_accurate(errors: u64, fp: &ExtendedFloat, extrabits: u64) -> bool {
        if extrabits == 65 { !fp.mant.overflowing_add(errors).1 }
        else {
            let mask: u64 = lower_n_mask(extrabits);   let extra: u64 = fp.mant & mask;
            let halfway: u64 = lower_n_halfway(extrabits);
            let cmp1 = halfway.wrapping_sub(errors) < extra;
            let cmp2 = extra < halfway.wrapping_add(errors);
            !(cmp1 && cmp2)
        }
    }``` -/
def nearestErrorIsAccurate (errors : Nat) (fp : ExtFloat) (extrabits : Nat) : Bool :=
  if extrabits == 65 then !(decide (fp.mant + errors ≥ 2 ^ 64))
  else
    let mask := lowerNMask extrabits
    let extra := fp.mant &&& mask
    let halfway := lowerNHalfway extrabits
    let cmp1 := decide (u64 (halfway + 2 ^ 64 - errors) < extra)
    let cmp2 := decide (extra < u64 (halfway + errors))
    !(cmp1 && cmp2)

/-- ```
    fn error_is_accurate<F: Float>(count: u32, fp: &ExtendedFloat) -> bool {
        let bias = -(F::EXPONENT_BIAS - F::MANTISSA_SIZE);
        let denormal_exp = bias - 63;
        let extrabits = if fp.exp <= denormal_exp { 64 - F::MANTISSA_SIZE + denormal_exp - fp.exp } else { 63 - F::MANTISSA_SIZE };
        let extrabits = extrabits as u64;  let errors = count as u64;
        if extrabits > 65 { return true; }
        nearest_error_is_accurate(errors, fp, extrabits)
    }``` -/
def errorIsAccurate (c : FC) (count : Nat) (fp : ExtFloat) : Bool :=
  let bias : Int := -(c.exponentBias - c.mantissaSize)
  let denormalExp := bias - 63
  let extrabits : Int :=
    if fp.exp ≤ denormalExp then 64 - c.mantissaSize + denormalExp - fp.exp else 63 - c.mantissaSize
  if extrabits > 65 then true else nearestErrorIsAccurate count fp extrabits.toNat

/-! ## algorithm.rs -/

/-- the three float operations the fast path uses (`as_cast`, `*`, `/`): IEEE-754 correctly rounded
    operations of `Spec.Ieee` (f64; f32 multiplication/division from `Spec/Ieee32.lean`), on bit patterns -/
def castU64 (single : Bool) (n : Nat) : Nat :=
  if single then (Spec.Ieee.F32.ofU64 n).toNat else (Spec.Ieee.F64.ofU64 n).toNat
def fmul (single : Bool) (a b : Nat) : Nat :=
  if single then (Spec.Ieee.F32.mul (UInt32.ofNat a) (UInt32.ofNat b)).toNat
  else (Spec.Ieee.F64.mul (UInt64.ofNat a) (UInt64.ofNat b)).toNat
def fdiv (single : Bool) (a b : Nat) : Nat :=
  if single then (Spec.Ieee.F32.div (UInt32.ofNat a) (UInt32.ofNat b)).toNat
  else (Spec.Ieee.F64.div (UInt64.ofNat a) (UInt64.ofNat b)).toNat

/-- `fn pow10(self, n: i32) -> F { if n > 0 { self * F_POW10[n as usize] } else { self / F_POW10[-n as usize] } }`
    (the table entries are decimal literals `1.0 … 1e22`, which rustc converts correctly rounded) -/
def pow10 (single : Bool) (f : Nat) (n : Int) : Nat :=
  let c := fc single
  if n > 0 then fmul single f (castU64 single (c.pow10.getD n.toNat 0))
  else fdiv single f (castU64 single (c.pow10.getD (-n).toNat 0))

/-- ```
    fn fast_path<F>(mantissa: u64, exponent: i32) -> Option<F> {
        let (min_exp, max_exp) = F::exponent_limit();  let shift_exp = F::mantissa_limit();
        let mantissa_size = F::MANTISSA_SIZE + 1;
        if mantissa == 0 { Some(F::ZERO) }
        else if mantissa >> mantissa_size != 0 { None }
        else if exponent == 0 { Some(F::as_cast(mantissa)) }
        else if exponent >= min_exp && exponent <= max_exp { Some(F::as_cast(mantissa).pow10(exponent)) }
        else if exponent >= 0 && exponent <= max_exp + shift_exp {
            let small_powers = POW10_64;  let shift = exponent - max_exp;  let power = small_powers[shift as usize];
            let value = match mantissa.checked_mul(power) { None => return None, Some(value) => value };
            if value >> mantissa_size != 0 { None } else { Some(F::as_cast(value).pow10(max_exp)) }
        } else { None }
    }``` -/
def fastPath (single : Bool) (mantissa : Nat) (exponent : Int) : Option Nat :=
  let c := fc single
  let mantissaSize := (c.mantissaSize + 1).toNat
  if mantissa == 0 then some 0
  else if mantissa >>> mantissaSize != 0 then none
  else if exponent == 0 then some (castU64 single mantissa)
  else if exponent ≥ c.minExp && exponent ≤ c.maxExp then some (pow10 single (castU64 single mantissa) exponent)
  else if exponent ≥ 0 && exponent ≤ c.maxExp + c.mantissaLimit then
    let shift := exponent - c.maxExp
    let power := pow10_64.getD shift.toNat 0
    let value := mantissa * power
    if value ≥ 2 ^ 64 then none
    else if value >>> mantissaSize != 0 then none
    else some (pow10 single (castU64 single value) c.maxExp)
  else none

/-- `powers.get_small(i)` / `powers.get_large(i)` -/
def getSmall (i : Nat) : ExtFloat := { mant := base10SmallMantissa.getD i 0, exp := base10SmallExponent.getD i 0 }
def getLarge (i : Nat) : ExtFloat := { mant := base10LargeMantissa.getD i 0, exp := base10LargeExponent.getD i 0 }

/-- ```
    fn multiply_exponent_extended<F>(fp: &mut ExtendedFloat, exponent: i32, truncated: bool) -> bool {
        let powers = ExtendedFloat::get_powers();
        let exponent = exponent.saturating_add(powers.bias);
        let small_index = exponent % powers.step;  let large_index = exponent / powers.step;
        if exponent < 0 { fp.mant = 0; true }
        else if large_index as usize >= powers.large.len() { fp.mant = 1 << 63; fp.exp = 0x7FF; true }
        else {
            let mut errors: u32 = 0;
            if truncated { errors += u64::error_scale(); }
            match fp.mant.overflowing_mul(powers.get_small_int(small_index as usize)) {
                (_, true) => { fp.normalize(); fp.imul(&powers.get_small(small_index as usize)); errors += u64::error_halfscale(); }
                (mant, false) => { fp.mant = mant; fp.normalize(); }
            }
            fp.imul(&powers.get_large(large_index as usize));
            if errors > 0 { errors += 1; }
            errors += u64::error_halfscale();
            let shift = fp.normalize();
            errors <<= shift;
            u64::error_is_accurate::<F>(errors, fp)
        }
    }``` -/
def multiplyExponentExtended (c : FC) (fp : ExtFloat) (exponent : Int) (truncated : Bool) : ExtFloat × Bool :=
  let exponent := satI32 (exponent + base10Bias)
  let smallIndex := (Int.tmod exponent base10Step).toNat
  let largeIndex := (Int.tdiv exponent base10Step).toNat
  if exponent < 0 then ({ fp with mant := 0 }, true)
  else if largeIndex ≥ base10LargeMantissa.length then ({ mant := 1 <<< overflowMantShift, exp := overflowExp }, true)
  else
    let errors : Nat := if truncated then errorScale else 0
    let prod := fp.mant * base10SmallIntPowers.getD smallIndex 0
    let (fp, errors) :=
      if prod ≥ 2 ^ 64 then (mul (normalize fp).1 (getSmall smallIndex), errors + errorHalfscale)
      else ((normalize { fp with mant := prod }).1, errors)
    let fp := mul fp (getLarge largeIndex)
    let errors := if errors > 0 then errors + 1 else errors
    let errors := errors + errorHalfscale
    let (fp, shift) := normalize fp
    let errors := u32 (errors <<< shift)
    (fp, errorIsAccurate c errors fp)

/-- `fn moderate_path<F>(mantissa, exponent, truncated) -> (ExtendedFloat, bool) { let mut fp = ExtendedFloat { mant: mantissa, exp: 0 }; let valid = multiply_exponent_extended::<F>(&mut fp, exponent, truncated); (fp, valid) }` -/
def moderatePath (c : FC) (mantissa : Nat) (exponent : Int) (truncated : Bool) : ExtFloat × Bool :=
  multiplyExponentExtended c { mant := mantissa, exp := 0 } exponent truncated

/-! ## exponent.rs, digit.rs -/

/-- `fn into_i32(value: usize) -> i32 { if value > i32::MAX as usize { i32::MAX } else { value as i32 } }` -/
def intoI32 (value : Nat) : Int := if value > 2147483647 then 2147483647 else value

/-- ```
    fn scientific_exponent(exponent: i32, integer_digits: usize, fraction_start: usize) -> i32 {
        if integer_digits == 0 { let fraction_start = into_i32(fraction_start); exponent.saturating_sub(fraction_start).saturating_sub(1) }
        else { let integer_shift = into_i32(integer_digits - 1); exponent.saturating_add(integer_shift) }
    }``` -/
def scientificExponent (exponent : Int) (integerDigits fractionStart : Nat) : Int :=
  if integerDigits == 0 then satI32 (satI32 (exponent - intoI32 fractionStart) - 1)
  else satI32 (exponent + intoI32 (integerDigits - 1))

/-- ```
    fn mantissa_exponent(exponent: i32, fraction_digits: usize, truncated: usize) -> i32 {
        if fraction_digits > truncated { exponent.saturating_sub(into_i32(fraction_digits - truncated)) }
        else { exponent.saturating_add(into_i32(truncated - fraction_digits)) }
    }``` -/
def mantissaExponent (exponent : Int) (fractionDigits truncated : Nat) : Int :=
  if fractionDigits > truncated then satI32 (exponent - intoI32 (fractionDigits - truncated))
  else satI32 (exponent + intoI32 (truncated - fractionDigits))

/-- `fn add_digit(value: u64, digit: u32) -> Option<u64> { match value.checked_mul(10) { None => None, Some(n) => n.checked_add(digit as u64) } }` -/
def addDigit (value digit : Nat) : Option Nat :=
  if value * 10 ≥ 2 ^ 64 then none
  else if value * 10 + digit ≥ 2 ^ 64 then none else some (value * 10 + digit)

/-! ## bhcomp.rs (Bigint = Nat) -/

/-- `Bigint::hi64`: the 64 most significant bits (left-aligned) and whether any lower bit is set
    (`math.rs` `hi64_1/2`, `u64_to_hi64_1/2`, `nonzero`; an empty big integer gives `(0, false)`) -/
def hi64 (n : Nat) : Nat × Bool :=
  if n == 0 then (0, false)
  else
    let bl := Nat.log2 n + 1
    if bl ≤ 64 then (n <<< (64 - bl), false)
    else (n >>> (bl - 64), n % 2 ^ (bl - 64) != 0)

/-- `Bigint::bit_length` -/
def bitLength (n : Nat) : Nat := if n == 0 then 0 else Nat.log2 n + 1

/-- the loop of `parse_mantissa`:
    ```
    for &digit in integer.iter().chain(fraction) {
        if counter == step { result.imul_small(small_powers[counter]); result.iadd_small(value); counter = 0; value = 0; }
        value *= 10;  value += as_limb(to_digit(digit).unwrap());
        i += 1;  counter += 1;
        if i == max_digits { break; }
    }``` -/
def parseMantissaLoop (maxDigits step : Nat) : Bytes → Nat → Nat → Nat → Nat → Nat × Nat × Nat × Nat
  | [], counter, value, i, result => (counter, value, i, result)
  | d :: ds, counter, value, i, result =>
    let (result, counter, value) :=
      if counter == step then (result * pow10_64.getD counter 0 + value, 0, 0) else (result, counter, value)
    let value := value * 10 + dig d
    let i := i + 1
    let counter := counter + 1
    if i == maxDigits then (counter, value, i, result)
    else parseMantissaLoop maxDigits step ds counter value i result

/-- ```
    fn parse_mantissa<F>(integer: &[u8], fraction: &[u8]) -> Bigint {
        let small_powers = POW10_LIMB;  let step = small_powers.len() - 2;  let max_digits = F::MAX_DIGITS - 1;
        let mut counter = 0; let mut value: Limb = 0; let mut i: usize = 0; let mut result = Bigint::default();
        for … { … }                                                    // `parseMantissaLoop`
        if counter != 0 { result.imul_small(small_powers[counter]); result.iadd_small(value); }
        if i < integer.len() + fraction.len() {
            result.imul_small(10);
            if integer.iter().chain(fraction).skip(i).any(|&digit| digit != b'0') { result.iadd_small(1); }
        }
        result
    }``` -/
def parseMantissa (c : FC) (integer fraction : Bytes) : Nat :=
  let step := pow10_64.length - 2
  let maxDigits := c.maxDigits - 1
  let (counter, value, i, result) := parseMantissaLoop maxDigits step (integer ++ fraction) 0 0 0 0
  let result := if counter != 0 then result * pow10_64.getD counter 0 + value else result
  if i < integer.length + fraction.length then
    let result := result * 10
    if ((integer ++ fraction).drop i).any (· != 0x30) then result + 1 else result
  else result

/-- `fn bh_extended<F>(f: F) -> ExtendedFloat { let b = b_extended(f); ExtendedFloat { mant: (b.mant << 1) + 1, exp: b.exp - 1 } }` -/
def bhExtended (c : FC) (f : Nat) : ExtFloat :=
  let b := fromFloat c f
  { mant := u64 (u64 (b.mant <<< 1) + 1), exp := b.exp - 1 }

/-- bhcomp's own rounding:
    `fn round_nearest_tie_even(fp, shift, is_truncated) { let (mut is_above, mut is_halfway) = round_nearest(fp, shift); if is_halfway && is_truncated { is_above = true; is_halfway = false; } tie_even(fp, is_above, is_halfway); }` -/
def bhRoundNearestTieEven (isTruncated : Bool) (fp : ExtFloat) (shift : Nat) : ExtFloat :=
  let (fp, isAbove, isHalfway) := roundNearest fp shift
  let (isAbove, isHalfway) := if isHalfway && isTruncated then (true, false) else (isAbove, isHalfway)
  tieEven fp isAbove isHalfway

/-- ```
    fn large_atof<F>(mantissa: Bigint, exponent: i32) -> F {
        let bits = mem::size_of::<u64>() * 8;
        let mut bigmant = mantissa;  bigmant.imul_pow10(exponent as u32);
        let (mant, is_truncated) = bigmant.hi64();
        let exp = bigmant.bit_length() as i32 - bits as i32;
        let mut fp = ExtendedFloat { mant, exp };
        fp.round_to_native::<F, _>(|fp, shift| round_nearest_tie_even(fp, shift, is_truncated));
        into_float(fp)
    }``` -/
def largeAtof (c : FC) (mantissa : Nat) (exponent : Int) : Nat :=
  let bigmant := mantissa * 5 ^ exponent.toNat * 2 ^ exponent.toNat
  let (mant, isTruncated) := hi64 bigmant
  let exp : Int := (bitLength bigmant : Int) - 64
  intoFloatBits c (roundToNative c (bhRoundNearestTieEven isTruncated) { mant := mant, exp := exp })

/-- ```
    fn small_atof<F>(mantissa: Bigint, exponent: i32, f: F) -> F {
        let mut real_digits = mantissa;  let real_exp = exponent;
        let theor = bh_extended(f);  let mut theor_digits = Bigint::from_u64(theor.mant);  let theor_exp = theor.exp;
        let binary_exp = theor_exp - real_exp;  let halfradix_exp = -real_exp;  let radix_exp = 0;
        if halfradix_exp != 0 { theor_digits.imul_pow5(halfradix_exp as u32); }
        if radix_exp != 0 { theor_digits.imul_pow10(radix_exp as u32); }
        if binary_exp > 0 { theor_digits.imul_pow2(binary_exp as u32); }
        else if binary_exp < 0 { real_digits.imul_pow2(-binary_exp as u32); }
        match real_digits.compare(&theor_digits) {
            Greater => f.next_positive(),  Less => f,  Equal => f.round_positive_even(),
        }
    }``` -/
def smallAtof (c : FC) (mantissa : Nat) (exponent : Int) (f : Nat) : Nat :=
  let theor := bhExtended c f
  let binaryExp := theor.exp - exponent
  let halfradixExp := -exponent
  let theorDigits := theor.mant * 5 ^ halfradixExp.toNat
  let theorDigits := if binaryExp > 0 then theorDigits * 2 ^ binaryExp.toNat else theorDigits
  let realDigits := if binaryExp < 0 then mantissa * 2 ^ (-binaryExp).toNat else mantissa
  if realDigits > theorDigits then nextPositive c f
  else if realDigits < theorDigits then f
  else roundPositiveEven c f

/-- ```
    fn bhcomp<F>(b: F, integer: &[u8], mut fraction: &[u8], exponent: i32) -> F {
        let integer_digits = integer.len();  let fraction_digits = fraction.len();
        let digits_start = if integer_digits == 0 {
            let start = fraction.iter().take_while(|&x| *x == b'0').count();  fraction = &fraction[start..];  start
        } else { 0 };
        let sci_exp = scientific_exponent(exponent, integer_digits, digits_start);
        let count = F::MAX_DIGITS.min(integer_digits + fraction_digits - digits_start);
        let scaled_exponent = sci_exp + 1 - count as i32;
        let mantissa = parse_mantissa::<F>(integer, fraction);
        if scaled_exponent >= 0 { large_atof(mantissa, scaled_exponent) } else { small_atof(mantissa, scaled_exponent, b) }
    }``` -/
def bhcomp (c : FC) (b : Nat) (integer fraction : Bytes) (exponent : Int) : Nat :=
  let integerDigits := integer.length
  let fractionDigits := fraction.length
  let (digitsStart, fraction) :=
    if integerDigits == 0 then
      let start := (fraction.takeWhile (· == 0x30)).length
      (start, fraction.drop start)
    else (0, fraction)
  let sciExp := scientificExponent exponent integerDigits digitsStart
  let count := min c.maxDigits (integerDigits + fractionDigits - digitsStart)
  let scaledExponent : Int := sciExp + 1 - count
  let mantissa := parseMantissa c integer fraction
  if scaledExponent ≥ 0 then largeAtof c mantissa scaledExponent else smallAtof c mantissa scaledExponent b

/-! ## algorithm.rs `fallback_path`, parse.rs -/

/-- ```
    fn fallback_path<F>(integer, fraction, mantissa: u64, exponent: i32, mantissa_exponent: i32, truncated: bool) -> F {
        let (fp, valid) = moderate_path::<F>(mantissa, mantissa_exponent, truncated);
        if valid { return fp.into_float::<F>(); }
        let b = fp.into_downward_float::<F>();
        if b.is_special() { b } else { bhcomp(b, integer, fraction, exponent) }
    }``` -/
def fallbackPath (c : FC) (integer fraction : Bytes) (mantissa : Nat) (exponent mantissaExp : Int)
    (truncated : Bool) : Nat :=
  let (fp, valid) := moderatePath c mantissa mantissaExp truncated
  if valid then intoFloat c fp
  else
    let b := intoDownwardFloat c fp
    if isSpecial c b then b else bhcomp c b integer fraction exponent

/-- `itoa::Buffer::new().format(n)` for a `u64`: decimal digits without leading zeros (`0` ↦ `"0"`) -/
def itoaAux : Nat → Nat → Bytes → Bytes
  | 0, _, acc => acc
  | fuel + 1, n, acc =>
    let acc := (0x30 + n % 10).toUInt8 :: acc
    if n / 10 == 0 then acc else itoaAux fuel (n / 10) acc
def itoa (n : Nat) : Bytes := itoaAux 20 n []

/-- ```
    pub fn parse_concise_float<F>(mantissa: u64, mant_exp: i32) -> F {
        if let Some(float) = fast_path(mantissa, mant_exp) { return float; }
        let truncated = false;
        let (fp, valid) = moderate_path::<F>(mantissa, mant_exp, truncated);
        if valid { return fp.into_float::<F>(); }
        let b = fp.into_downward_float::<F>();
        if b.is_special() { return b; }
        let mut buffer = itoa::Buffer::new();  let integer = buffer.format(mantissa).as_bytes();  let fraction = &[];
        bhcomp(b, integer, fraction, mant_exp)
    }``` -/
def parseConciseFloat (single : Bool) (mantissa : Nat) (mantExp : Int) : Nat :=
  let c := fc single
  match fastPath single mantissa mantExp with
  | some f => f
  | none =>
    let (fp, valid) := moderatePath c mantissa mantExp false
    if valid then intoFloat c fp
    else
      let b := intoDownwardFloat c fp
      if isSpecial c b then b else bhcomp c b (itoa mantissa) [] mantExp

/-- `while fraction.last() == Some(&b'0') { fraction = &fraction[..fraction.len() - 1]; }` -/
def trimTrailingZeros (fraction : Bytes) : Bytes := (fraction.reverse.dropWhile (· == 0x30)).reverse

/-- the digit loop of `parse_truncated_float`:
    ```
    let mut truncated = 0;  let mut mantissa: u64 = 0;
    let mut iter = integer.iter().chain(fraction);
    for &c in &mut iter {
        mantissa = match add_digit(mantissa, to_digit(c).unwrap()) { Some(v) => v, None => { truncated = 1 + iter.count(); break; } };
    }``` -/
def truncatedMantissa : Bytes → Nat → Nat × Nat
  | [], mantissa => (mantissa, 0)
  | d :: ds, mantissa =>
    match addDigit mantissa (dig d) with
    | some v => truncatedMantissa ds v
    | none => (mantissa, 1 + ds.length)

/-- ```
    pub fn parse_truncated_float<F>(integer: &[u8], mut fraction: &[u8], exponent: i32) -> F {
        while fraction.last() == Some(&b'0') { … }                       // `trimTrailingZeros`
        …                                                                // `truncatedMantissa`
        let mant_exp = mantissa_exponent(exponent, fraction.len(), truncated);
        let is_truncated = true;
        fallback_path(integer, fraction, mantissa, exponent, mant_exp, is_truncated)
    }``` -/
def parseTruncatedFloat (single : Bool) (integer fraction : Bytes) (exponent : Int) : Nat :=
  let c := fc single
  let fraction := trimTrailingZeros fraction
  let (mantissa, truncated) := truncatedMantissa (integer ++ fraction) 0
  let mantExp := mantissaExponent exponent fraction.length truncated
  fallbackPath c integer fraction mantissa exponent mantExp true

/-! ## de.rs under `float_roundtrip`

The digit collection of `de.rs` ends in one of four leaves; `Call` names the leaf and its arguments
(what `de.rs` *presents to lexical*), `runCall` executes it. `single` (`self.single_precision`) and
`positive` are only consulted at the leaves. -/

/-- the leaf reached by `parse_integer`/`parse_number`/…/`f64_long_from_parts` and its arguments -/
inductive Call where
  /-- no float conversion by lexical: `ParserNumber::U64/I64`, or `F64(-(significand as f64))` -/
  | number (r : NRes)
  /-- `parse_exponent_overflow(positive, zero_significand, positive_exp)` -/
  | expOverflow (zeroSignificand positiveExp : Bool)
  /-- `f64_from_parts(positive, significand, exponent)` → `lexical::parse_concise_float(significand, exponent)` -/
  | concise (significand : Nat) (exponent : Int)
  /-- `f64_long_from_parts(positive, integer_end, exponent)` → `lexical::parse_truncated_float(&scratch[..integer_end], &scratch[integer_end..], exponent)` -/
  | truncated (integer fraction : Bytes) (exponent : Int)
deriving Repr, DecidableEq

/-- the float a lexical call returned, as `de.rs` passes it on:
    ```
    let f = if self.single_precision { lexical::parse_…::<f32>(…) as f64 } else { lexical::parse_…::<f64>(…) };
    if f.is_infinite() { Err(self.peek_error(ErrorCode::NumberOutOfRange)) } else { Ok(if positive { f } else { -f }) }
    ``` -/
def finishFloat (single positive : Bool) (bits : Nat) : NRes :=
  if isInf (fc single) bits then .outOfRange
  else
    let f : UInt64 := if single then Spec.Ieee.F32.toF64 (UInt32.ofNat bits) else UInt64.ofNat bits
    .f64 (if positive then f else Spec.Ieee.F64.neg f)

/-- the leaves: `f64_from_parts`, `f64_long_from_parts` (both under `float_roundtrip`), `parse_exponent_overflow` -/
def runCall (single positive : Bool) : Call → NRes
  | .number r => r
  | .expOverflow zeroSig positiveExp => exponentOverflow positive zeroSig positiveExp
  | .concise sig e => finishFloat single positive (parseConciseFloat single sig e)
  | .truncated integer fraction e => finishFloat single positive (parseTruncatedFloat single integer fraction e)

/-- `f64_long_from_parts`: `integer = &scratch[..integer_end]`, `fraction = &scratch[integer_end..]` -/
def f64LongFromParts (scratch : Bytes) (integerEnd : Nat) (exponent : Int) : Call :=
  .truncated (scratch.take integerEnd) (scratch.drop integerEnd) exponent

/-- the exponent digits folded with the `i32` `overflow!` guard (`parse_exponent`, `parse_long_exponent`):
    `none` when the guard fires -/
def expDigits : Bytes → Option Nat
  | [] => some 0   -- unreachable: the machine guarantees a digit
  | d :: rest =>
    let rec go (exp : Nat) : Bytes → Option Nat
      | [] => some exp
      | c :: cs => if Num.overflowMacro exp (dig c) i32Max then none else go (exp * 10 + dig c) cs
    go (dig d) rest

/-- `parse_exponent` (short significand): on overflow `zero_significand = significand == 0`; otherwise
    `final_exp = starting_exp.saturating_add/sub(exp)`, then `f64_from_parts` -/
def parseExponent (sig : Nat) (startExp : Int) (expNeg : Bool) (eds : Bytes) : Call :=
  match expDigits eds with
  | none => .expOverflow (sig == 0) (!expNeg)
  | some exp => .concise sig (if !expNeg then satI32 (startExp + exp) else satI32 (startExp - exp))

/-- `parse_long_exponent`: on overflow `zero_significand = self.scratch.iter().all(|&digit| digit == b'0')`;
    otherwise `final_exp = if positive_exp { exp } else { -exp }`, then `f64_long_from_parts` -/
def parseLongExponent (scratch : Bytes) (integerEnd : Nat) (expNeg : Bool) (eds : Bytes) : Call :=
  match expDigits eds with
  | none => .expOverflow (scratch.all (· == 0x30)) (!expNeg)
  | some exp => f64LongFromParts scratch integerEnd (if !expNeg then (exp : Int) else -(exp : Int))

/-- `parse_long_decimal(positive, integer_end)`: the remaining fraction digits are pushed on the scratch buffer;
    then `e`/`E` → `parse_long_exponent`, otherwise `f64_long_from_parts(positive, integer_end, 0)` -/
def parseLongDecimal (scratch : Bytes) (integerEnd : Nat) (rest : Bytes) (exp : Option (Bool × Bytes)) : Call :=
  let scratch := scratch ++ rest
  match exp with
  | some (en, eds) => parseLongExponent scratch integerEnd en eds
  | none => f64LongFromParts scratch integerEnd 0

/-- ```
    fn parse_decimal_overflow(&mut self, positive: bool, significand: u64, exponent: i32) -> Result<f64> {
        let mut buffer = itoa::Buffer::new();  let significand = buffer.format(significand);
        let fraction_digits = -exponent as usize;
        self.scratch.clear();
        if let Some(zeros) = fraction_digits.checked_sub(significand.len() + 1) { self.scratch.extend(iter::repeat(b'0').take(zeros + 1)); }
        self.scratch.extend_from_slice(significand.as_bytes());
        let integer_end = self.scratch.len() - fraction_digits;
        self.parse_long_decimal(positive, integer_end)
    }``` -/
def parseDecimalOverflow (significand : Nat) (exponent : Int) (rest : Bytes) (exp : Option (Bool × Bytes)) : Call :=
  let s := itoa significand
  let fractionDigits := (-exponent).toNat
  let scratch : Bytes :=
    (if fractionDigits ≥ s.length + 1 then List.replicate (fractionDigits - (s.length + 1) + 1) 0x30 else []) ++ s
  let integerEnd := scratch.length - fractionDigits
  parseLongDecimal scratch integerEnd rest exp

/-- `parse_decimal` after the `.` (with `exponent_before_decimal_point = 0`, the only call in this build):
    digits folded with the `u64` `overflow!` guard; when it fires → `parse_decimal_overflow` with the
    digits still to be read; otherwise `e`/`E` → `parse_exponent`, else `f64_from_parts` -/
def parseDecimalGo (exp : Option (Bool × Bytes)) (sig : Nat) (expAfter : Int) : Bytes → Call
  | [] =>
    match exp with
    | some (en, eds) => parseExponent sig expAfter en eds
    | none => .concise sig expAfter
  | c :: cs =>
    if Num.overflowMacro sig (dig c) u64Max then parseDecimalOverflow sig expAfter (c :: cs) exp
    else parseDecimalGo exp (sig * 10 + dig c) (expAfter - 1) cs

def parseDecimal (sig : Nat) (fds : Bytes) (exp : Option (Bool × Bytes)) : Call := parseDecimalGo exp sig 0 fds

/-- `parse_long_integer(positive, partial_significand)`: scratch = `itoa(partial_significand)` followed by the
    remaining integer digits; `.` → `parse_long_decimal(positive, scratch.len())`, `e` → `parse_long_exponent`,
    else `f64_long_from_parts(positive, scratch.len(), 0)` -/
def parseLongInteger (partialSig : Nat) (rest : Bytes) (frac : Option Bytes) (exp : Option (Bool × Bytes)) : Call :=
  let scratch := itoa partialSig ++ rest
  match frac, exp with
  | some fds, e => parseLongDecimal scratch scratch.length fds e
  | none, some (en, eds) => parseLongExponent scratch scratch.length en eds
  | none, none => f64LongFromParts scratch scratch.length 0

/-- `parse_integer`'s digit loop: `(significand, none)` at the end of the digits, or
    `(significand, some remaining)` when `overflow!(significand * 10 + digit, u64::MAX)` fires -/
def goInt (sig : Nat) : Bytes → Nat × Option Bytes
  | [] => (sig, none)
  | c :: cs => if Num.overflowMacro sig (dig c) u64Max then (sig, some (c :: cs)) else goInt (sig * 10 + dig c) cs

/-- `parse_integer` + `parse_number` of the `float_roundtrip` build on a scanned literal: which leaf, which arguments
    (`single` = `self.single_precision` matters only for a negative integer beyond `i64`) -/
def deCall (single : Bool) (p : Parts) : Call :=
  match goInt 0 p.int with
  | (sig, some rest) => parseLongInteger sig rest p.frac p.exp
  | (sig, none) =>
    match p.frac, p.exp with
    | some fds, e => parseDecimal sig fds e
    | none, some (en, eds) => parseExponent sig 0 en eds
    | none, none =>
      if !p.neg then .number (.u64 sig)
      else
        -- `(significand as i64).wrapping_neg()`, float if that is ≥ 0 (underflow or `-0`): `-(significand as f64)`
        let asI64 : Int := if sig ≥ 2 ^ 63 then (sig : Int) - 2 ^ 64 else sig
        let negv : Int := if asI64 == -(2 ^ 63) then asI64 else -asI64
        -- (repaired) `if self.single_precision { -(significand as f32) as f64 } else { -(significand as f64) }`
        .number (if negv ≥ 0 then
            .f64 (if single then Spec.Ieee.F32.toF64 (Spec.Ieee.F32.neg (Spec.Ieee.F32.ofU64 sig))
                  else Spec.Ieee.F64.neg (Spec.Ieee.F64.ofU64 sig))
          else .i64 negv)

/-- the number `de.rs` + lexical produce for a scanned literal under `float_roundtrip`;
    `single` is `self.single_precision` (set by `do_deserialize_f32`) -/
def deFloatRoundtrip (single : Bool) (p : Parts) : NRes := runCall single (!p.neg) (deCall single p)

/-- which algorithm of lexical decides a call (for the evidence histogram and the known-finding tags) -/
inductive Path where
  | none | fast | moderate | special | bhSmall | bhLarge
deriving Repr, DecidableEq

def pathOfFallback (c : FC) (integer fraction : Bytes) (mantissa : Nat) (exponent mantExp : Int) (truncated : Bool) : Path :=
  let (fp, valid) := moderatePath c mantissa mantExp truncated
  if valid then .moderate
  else if isSpecial c (intoDownwardFloat c fp) then .special
  else
    let integerDigits := integer.length
    let start := if integerDigits == 0 then (fraction.takeWhile (· == 0x30)).length else 0
    let sciExp := scientificExponent exponent integerDigits start
    let count := min c.maxDigits (integerDigits + fraction.length - start)
    if sciExp + 1 - (count : Int) ≥ 0 then .bhLarge else .bhSmall

def pathOf (single : Bool) : Call → Path
  | .number _ | .expOverflow _ _ => .none
  | .concise sig e =>
    if (fastPath single sig e).isSome then .fast else pathOfFallback (fc single) (itoa sig) [] sig e e false
  | .truncated integer fraction e =>
    let fraction := trimTrailingZeros fraction
    let (m, t) := truncatedMantissa (integer ++ fraction) 0
    pathOfFallback (fc single) integer fraction m e (mantissaExponent e fraction.length t) true

/-- what C07 claims for an `f32` target: as `Model.Num.convertRoundtrip`, with binary32 rounding, the
    result handed to the visitor as the (exactly) widened `f64` -/
def convertRoundtripSingle (p : Parts) : NRes :=
  match intClass p with
  | some r => r
  | none =>
    match p.exp with
    | some (en, eds) =>
      if expOverflows eds then exponentOverflow (!p.neg) ((p.int ++ p.frac.getD []).all (· == 0x30)) (!en)
      else conv p
    | none => conv p
where
  conv (p : Parts) : NRes :=
    match exact p with
    | .zero => .f64 (Spec.Ieee.F64.zero p.neg)
    | .tiny => .f64 (Spec.Ieee.F64.zero p.neg)
    | .huge => .outOfRange
    | .rat n d => match (if d == 0 then none else Spec.Ieee.roundNE32 p.neg n d) with
      | some b => .f64 (Spec.Ieee.F32.toF64 b)
      | none => .outOfRange

end SJ.Model.Lexical
