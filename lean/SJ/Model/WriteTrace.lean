import SJ.Model.Write
/-!
# What the serializer has written when it fails by itself (C13, writer clause, all programs)

`Model.Ser.ser` returns `Except SerErr W`: for a program whose serialisation fails by itself — a map key
that is not a string (`key_must_be_a_string()`), a non-finite float key (`float_key_must_be_finite()`) —
it gives the error and forgets the buffers written before it. Those buffers have reached the writer
all the same. `serT` is `ser` keeping them: the same traversal (`impl ser::Serializer for &mut
Serializer`, `Compound`, `MapKeySerializer`; see `Model.Ser` for the Rust), with `tri!` modelled by
`T.bind`, which keeps the buffers of the part that ran. For a program that serialises, `serT` is `ser`
(`SJ.Proofs.WriteTrace.serT_ok`); for one that does not, it ends in the same error
(`serT_err`).

Where the error arises, nothing of the offending key has been written: `MapKeySerializer` returns
`Err(key_must_be_a_string())` / `Err(float_key_must_be_finite())` before its first `Formatter` call
(`src/ser.rs` 1023–1143: `if !value.is_finite() { return Err(float_key_must_be_finite()); }` precedes
`begin_string`; the `key_must_be_a_string` methods do nothing else), while the `begin_object_key` of that
entry (`,` / newline and indentation) has been written by `SerializeMap::serialize_key`.

`toWriterT`: `to_writer*` for every program: the writer's faults pre-empt the serializer's own error
exactly when they occur in one of the buffers written before it.
Import-free (only `SJ.Model.Write`).
-/
namespace SJ.Model.WriteTrace
open SJ SJ.Model.Ser SJ.Model.Write SJ.Model.EscapeLocal

/-- buffers handed to `write_all` so far, and how the computation went on -/
structure T (α : Type) where
  bufs : List Bytes
  res : Except SerErr α

/-- `tri!`: run `k` after `a` unless `a` failed -/
def T.bind {α β : Type} (a : T α) (k : α → T β) : T β :=
  match a.res with
  | .error e => { bufs := a.bufs, res := .error e }
  | .ok x => { bufs := a.bufs ++ (k x).bufs, res := (k x).res }

/-- formatter calls (they only fail with the writer) -/
def ofW (w : W) : T FState := { bufs := w.bufs, res := .ok w.st }

/-- `serialize_seq` / `serialize_map` -/
def ofWS (w : WS) : T (State × FState) := { bufs := w.bufs, res := .ok (w.state, w.st) }

/-- `key.serialize(MapKeySerializer { ser })`: the key's buffers, or the error before anything is written -/
def ofKey (r : Except SerErr (List Bytes)) (st : FState) : T FState :=
  match r with
  | .ok kb => { bufs := kb, res := .ok st }
  | .error e => { bufs := [], res := .error e }

mutual
/-- `value.serialize(&mut *ser)`, keeping what was written -/
def serT (ext : Ext) (f : Fmt) : SVal → FState → T FState
  | .bool b, st => ofW (write [writeBool b] st)
  | .int _ n, st => ofW (write [ext.itoa n] st)
  | .f32 b, st => ofW (write [if finite32 b then ext.ryu32 b else writeNull] st)
  | .f64 b, st => ofW (write [if finite64 b then ext.ryu64 b else writeNull] st)
  | .char cp, st => ofW (write (escapeStr (encodeUtf8 cp)) st)
  | .str s, st => ofW (write (escapeStr s) st)
  | .bytes bs, st => ofW (writeByteArray ext f bs st)
  | .none, st => ofW (write [writeNull] st)
  | .some p, st => serT ext f p st
  | .unit, st => ofW (write [writeNull] st)
  | .unitStruct, st => ofW (write [writeNull] st)
  | .unitVariant v, st => ofW (write (escapeStr v) st)
  | .newtypeStruct p, st => serT ext f p st
  | .newtypeVariant v p, st =>
    (ofW (variantOpen f v st)).bind fun st1 =>
    (serT ext f p st1).bind fun st2 =>
    ofW ((endObjectValue f st2).andThen (endObject f))
  | .seq hint xs, st =>
    (ofWS (serializeSeq f hint st)).bind fun o =>
    (serElemsT ext f xs o.1 o.2).bind fun r => ofW (seqEnd f r.1 r.2)
  | .tuple xs, st =>
    (ofWS (serializeSeq f (some xs.length) st)).bind fun o =>
    (serElemsT ext f xs o.1 o.2).bind fun r => ofW (seqEnd f r.1 r.2)
  | .tupleStruct xs, st =>
    (ofWS (serializeSeq f (some xs.length) st)).bind fun o =>
    (serElemsT ext f xs o.1 o.2).bind fun r => ofW (seqEnd f r.1 r.2)
  | .tupleVariant v xs, st =>
    (ofW (variantOpen f v st)).bind fun st1 =>
    (ofWS (serializeSeq f (some xs.length) st1)).bind fun o =>
    (serElemsT ext f xs o.1 o.2).bind fun r => ofW (tupleVariantEnd f r.1 r.2)
  | .map hint es, st =>
    (ofWS (serializeMap f hint st)).bind fun o =>
    (serEntriesT ext f es o.1 o.2).bind fun r => ofW (mapEnd f r.1 r.2)
  | .struct_ fs, st =>
    (ofWS (serializeMap f (some fs.length) st)).bind fun o =>
    (serFieldsT ext f fs o.1 o.2).bind fun r => ofW (mapEnd f r.1 r.2)
  | .structVariant v fs, st =>
    (ofW (variantOpen f v st)).bind fun st1 =>
    (ofWS (serializeMap f (some fs.length) st1)).bind fun o =>
    (serFieldsT ext f fs o.1 o.2).bind fun r => ofW (structVariantEnd f r.1 r.2)
  | .collectStr s, st => ofW (write (collectStr s) st)
  | .numberLit s, st => ofW (write [s] st)
termination_by structural p => p

/-- `serialize_element` for each element -/
def serElemsT (ext : Ext) (f : Fmt) : List SVal → State → FState → T (State × FState)
  | [], state, st => { bufs := [], res := .ok (state, st) }
  | x :: xs, state, st =>
    (ofW (beginArrayValue f (state == .first) st)).bind fun st1 =>
    (serT ext f x st1).bind fun st2 =>
    (ofW (endArrayValue f st2)).bind fun st3 =>
    serElemsT ext f xs .rest st3

/-- `serialize_key` then `serialize_value` for each entry -/
def serEntriesT (ext : Ext) (f : Fmt) : List (SVal × SVal) → State → FState → T (State × FState)
  | [], state, st => { bufs := [], res := .ok (state, st) }
  | (k, v) :: es, state, st =>
    (ofW (beginObjectKey f (state == .first) st)).bind fun st1 =>
    (ofKey (keySer ext k) st1).bind fun st2 =>
    (ofW (endObjectKey f st2)).bind fun st3 =>
    (ofW (beginObjectValue f st3)).bind fun st4 =>
    (serT ext f v st4).bind fun st5 =>
    (ofW (endObjectValue f st5)).bind fun st6 =>
    serEntriesT ext f es .rest st6

/-- `serialize_field` for each field -/
def serFieldsT (ext : Ext) (f : Fmt) : List (Bytes × SVal) → State → FState → T (State × FState)
  | [], state, st => { bufs := [], res := .ok (state, st) }
  | (k, v) :: fs, state, st =>
    (ofW (beginObjectKey f (state == .first) st)).bind fun st1 =>
    (ofW (write (escapeStr k) st1)).bind fun st2 =>
    (ofW (endObjectKey f st2)).bind fun st3 =>
    (ofW (beginObjectValue f st3)).bind fun st4 =>
    (serT ext f v st4).bind fun st5 =>
    (ofW (endObjectValue f st5)).bind fun st6 =>
    serFieldsT ext f fs .rest st6
end

/-- the `Result<()>` of `to_writer` for any program -/
inductive ResT where
  | ok
  /-- `Err(Error::io(e))` -/
  | io (e : IoError)
  /-- the serializer's own error (`Error::syntax(ErrorCode::KeyMustBeAString | FloatKeyMustBeFinite, 0, 0)`) -/
  | ser (e : SerErr)
  | hang
  | panic
deriving DecidableEq, Repr, Inhabited

/-- `to_writer` / `to_writer_pretty` / `with_formatter` for every program: the writer afterwards and the result -/
def toWriterT (fuel : Nat) (ext : Ext) (fmt : Fmt) (p : SVal) (w : Writer) : Writer × ResT :=
  let t := serT ext fmt p FState.init
  match w.runBufs fuel t.bufs with
  | (w', .ok) => (w', match t.res with | .ok _ => .ok | .error e => .ser e)
  | (w', .err e) => (w', .io e)
  | (w', .hang) => (w', .hang)
  | (w', .panic) => (w', .panic)

end SJ.Model.WriteTrace
