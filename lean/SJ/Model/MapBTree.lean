import SJ.Spec.AMap
import SJ.Gen.Map
/-!
# Model of `serde_json::Map` in the default build: `MapImpl = BTreeMap<String, Value>`

`src/map.rs` is a thin wrapper; in the default build every method forwards to `BTreeMap`:

```rust
pub fn insert(&mut self, k: String, v: Value) -> Option<Value> { self.map.insert(k, v) }
pub fn remove<Q>(&mut self, key: &Q) -> Option<Value> {
    #[cfg(feature = "preserve_order")]      return self.swap_remove(key);
    #[cfg(not(feature = "preserve_order"))] return self.map.remove(key);
}
pub fn remove_entry<Q>(&mut self, key: &Q) -> Option<(String, Value)> { … self.map.remove_entry(key) }
pub fn append(&mut self, other: &mut Self) {
    #[cfg(not(feature = "preserve_order"))] self.map.append(&mut other.map);
}
pub fn retain<F>(&mut self, f: F) { self.map.retain(f); }
pub fn sort_keys(&mut self) { #[cfg(feature = "preserve_order")] self.map.sort_unstable_keys(); }   // no-op here
impl PartialEq for Map<String, Value> { fn eq(&self, other: &Self) -> bool { self.map.eq(&other.map) } }
```

`BTreeMap` itself is modelled by its documented semantics: the state is the list of entries in
iteration order, which is strictly ascending by key (`String`'s `Ord` = byte-wise lexicographic,
`Spec.AMap.ltB`). `insert` on an existing key replaces the value and returns the old one;
`append`: "if a key from `other` is already present in `self`, the respective value from `self`
will be overwritten with the respective value from `other`"; `extend` inserts each pair in turn;
`==` is `len() == len() && iter().zip().all(==)`.

`swap_*`, `shift_*` do not exist in this build; the model maps them to the plain removal / insert
so that `step` is total (the harness never issues them under the default configuration).
-/
namespace SJ.Model.MapBTree
open SJ SJ.Spec.AMap

abbrev BMap (V : Type) := List (Bytes × V)

variable {V : Type}

/-- `BTreeMap::insert`: new state and the displaced value. -/
def insert (k : Bytes) (v : V) : BMap V → BMap V × Option V
  | [] => ([(k, v)], none)
  | (k', v') :: r =>
    if k' = k then ((k', v) :: r, some v')
    else if ltB k k' then ((k, v) :: (k', v') :: r, none)
    else let (r', old) := insert k v r; ((k', v') :: r', old)

/-- `BTreeMap::remove_entry` -/
def remove (k : Bytes) : BMap V → BMap V × Option V
  | [] => ([], none)
  | (k', v') :: r =>
    if k' = k then (r, some v')
    else let (r', old) := remove k r; ((k', v') :: r', old)

/-- `BTreeMap::get` -/
def get (k : Bytes) (m : BMap V) : Option V := lookup k m

/-- `BTreeMap::extend` / `BTreeMap::append` (documented semantics: each pair of `other` is
    inserted; a value already present is overwritten) -/
def insertMany (m : BMap V) : List (Bytes × V) → BMap V
  | [] => m
  | (k, v) :: r => insertMany (insert k v m).1 r

/-- `BTreeMap::retain` -/
def retain (p : Bytes → V → Bool) (m : BMap V) : BMap V := m.filter fun kv => p kv.1 kv.2

/-- `BTreeMap::eq`: `self.len() == other.len() && self.iter().zip(other).all(|(a, b)| a == b)` -/
def beq (eqv : V → V → Bool) : BMap V → BMap V → Bool
  | [], [] => true
  | (k, v) :: r, (k', v') :: r' => k == k' && eqv v v' && beq eqv r r'
  | _, _ => false

/-- one call of the `Map` API -/
def step (o : Op V) (m : BMap V) : BMap V × Ret V :=
  match o with
  | .insert k v => let (m', old) := insert k v m; (m', .optV old)
  | .shiftInsert _ k v => let (m', old) := insert k v m; (m', .optV old)      -- not in this build
  | .remove _ sh _ k => let (m', old) := remove k m; (m', removeRet sh k old)
  | .get k => (m, .optV (get k m))
  | .contains k => (m, .bool (get k m).isSome)
  | .len => (m, .nat m.length)
  | .isEmpty => (m, .bool (m.length == 0))
  | .clear => ([], .unit)
  | .append o => (insertMany m o, .unit)
  | .extend o => (insertMany m o, .unit)
  | .retain p => (retain p m, .unit)
  | .sortKeys => (m, .unit)
  | .entryOrInsert k v => match get k m with
      | some x => (m, .val x)                        -- Entry::Occupied(e) => e.into_mut()
      | none => ((insert k v m).1, .val v)           -- Entry::Vacant(e) => e.insert(default)
  | .entryInsert k v => let (m', old) := insert k v m; (m', .optV old)
  | .entryModify k v w => match get k m with
      | some _ => ((insert k v m).1, .val v)
      | none => ((insert k w m).1, .val w)
  | .setMut k v => match get k m with
      | some x => ((insert k v m).1, .optV (some x))
      | none => (m, .optV none)
  | .index k => match get k m with
      | some x => (m, .val x)
      | none => (m, .panic)                          -- BTreeMap::index: expect("no entry found for key")
  | .indexSet k v => match get k m with
      | some _ => ((insert k v m).1, .unit)
      | none => (m, .panic)                          -- get_mut(index).expect("no entry found for key")
  | .iter => (m, .kvs m)
  | .iterRev => (m, .kvs m.reverse)
  | .keys => (m, .keys (m.map (·.1)))
  | .values => (m, .vals (m.map (·.2)))

/-- run a history from the state `m`, collecting the return values -/
def runFrom (m : BMap V) : List (Op V) → BMap V × List (Ret V)
  | [] => (m, [])
  | o :: os =>
    let (m', r) := step o m
    let (m'', rs) := runFrom m' os
    (m'', r :: rs)

/-- a history applied to `Map::new()` -/
def run (ops : List (Op V)) : BMap V × List (Ret V) := runFrom [] ops

/-- states reachable from `Map::new()` by any history of API calls -/
inductive Reachable : BMap V → Prop where
  | new : Reachable []
  | step (o : Op V) {m : BMap V} : Reachable m → Reachable (step o m).1

end SJ.Model.MapBTree
