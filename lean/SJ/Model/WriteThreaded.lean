import SJ.Model.WriteTrace
/-!
# The serializer with the writer threaded through (C13, writer clause)

`Model.Write.Writer.runBufs` *defines* "the serializer performs the `write_all` calls of the buffer list in
order and stops at the first failing one"; `Model.WriteTrace.toWriterT` applies it to the buffer list of
`serT`. This file does not go through a buffer list: it is `src/ser.rs` once more, this time with
`&mut self.writer` handed to every `Formatter` call, as the source does:

```rust
// impl<'a, W: io::Write, F: Formatter> ser::Serializer for &'a mut Serializer<W, F>
fn serialize_bool(self, value: bool) -> Result<()> {
    self.formatter.write_bool(&mut self.writer, value).map_err(Error::io)
}
fn serialize_seq(self, len: Option<usize>) -> Result<Self::SerializeSeq> {
    tri!(self.formatter.begin_array(&mut self.writer).map_err(Error::io));
    if len == Some(0) {
        tri!(self.formatter.end_array(&mut self.writer).map_err(Error::io));
        Ok(Compound::Map { ser: self, state: State::Empty })
    } else {
        Ok(Compound::Map { ser: self, state: State::First })
    }
}
// src/lib.rs 406
macro_rules! tri { ($e:expr $(,)?) => { match $e { core::result::Result::Ok(val) => val,
                                                    core::result::Result::Err(err) => return core::result::Result::Err(err) } }; }
```

The computation is a state monad over the `Writer` (`M`): its only primitive touching the writer is
`writeAllM` = `writer.write_all(buf)` followed by `.map_err(Error::io)`; its bind is `tri!` (`M.bind`:
the continuation runs — and the writer is touched again — only after `Ok`; an `Err` of either origin, the
writer's `Error::io(e)` or the serializer's own `key_must_be_a_string()` /
`float_key_must_be_finite()`, is returned at once with the writer as it then is).

**Granularity.** The traversal (`impl Serializer for &mut Serializer`, `Compound`'s `SerializeSeq` …
`SerializeStructVariant`, the hand-over to `MapKeySerializer`) is transcribed call site by call site:
`serW` / `serElemsW` / `serEntriesW` / `serFieldsW` have the shape of `Model.Ser.ser` / `serElems` /
`serEntries` / `serFields` (and of `serT` …), one `M.bind` per `tri!`. A single `Formatter` method
(`begin_array`, `end_array`, `begin_object_key`, `write_byte_array`, `format_escaped_str` …) and the
`MapKeySerializer` method of a key that is accepted are taken from `Model.Ser` as what they are there: the
list of the method's `write_all` arguments and the formatter state afterwards (`W`). Such a method body is
a straight chain `tri!(writer.write_all(a)); tri!(indent(writer, ..)); writer.write_all(c)`, run here by
`writesM`: one `writeAllM` per buffer, each under `tri!`. What is therefore *not* re-transcribed with the
writer threaded is the inside of those methods (the `for` loops of `indent`, `write_byte_array` and
`format_escaped_str_contents`): that their `write_all` calls are exactly the elements of the `W.bufs` list,
each under `tri!`, is read off the source as before (`Model.Ser`'s doc comments; the static scan
`c13_every_write_checked`).

`SJ.Proofs.WriteThreaded.serW_eq`: threading the writer through the traversal is `runBufs` over the buffer
list of `serT` with its result (`c13_writer_threaded`).
Import-free (only `SJ.Model.WriteTrace`).
-/
namespace SJ.Model.WriteThreaded
open SJ SJ.Model.Ser SJ.Model.Write SJ.Model.WriteTrace SJ.Model.EscapeLocal

/-- why a serialisation stopped: the `Err` that `tri!` returns, or the two ways `write_all` does not return -/
inductive Stop where
  /-- `Err(Error::io(e))` -/
  | io (e : IoError)
  /-- `Err(key_must_be_a_string())` / `Err(float_key_must_be_finite())` -/
  | ser (e : SerErr)
  /-- `write_all` is still looping after `fuel` calls of `write` -/
  | hang
  /-- `&buf[n..]` with `n > buf.len()` inside `write_all` -/
  | panic
deriving DecidableEq, Repr, Inhabited

/-- a piece of the serializer: it is given the writer (`&mut self.writer`) and leaves it changed -/
abbrev M (α : Type) := Writer → Writer × Except Stop α

/-- `Ok(x)` without touching the writer -/
def M.pure {α : Type} (x : α) : M α := fun w => (w, .ok x)

/-- `tri!(a); k`: `match a { Ok(val) => k(val), Err(err) => return Err(err) }` — after an `Err` (or a hang / panic
    inside `a`) nothing more is done with the writer -/
def M.bind {α β : Type} (a : M α) (k : α → M β) : M β := fun w =>
  match a w with
  | (w', .ok x) => k x w'
  | (w', .error s) => (w', .error s)

/-- `return Err(key_must_be_a_string())` / `return Err(float_key_must_be_finite())` -/
def M.fail {α : Type} (e : SerErr) : M α := fun w => (w, .error (.ser e))

/-- `writer.write_all(buf)` in a `Formatter` method and the `.map_err(Error::io)` of its call site -/
def writeAllM (fuel : Nat) (buf : Bytes) : M Unit := fun w =>
  match w.writeAll fuel buf with
  | (w', .ok) => (w', .ok ())
  | (w', .err e) => (w', .error (.io e))
  | (w', .hang) => (w', .error .hang)
  | (w', .panic) => (w', .error .panic)

/-- the body of one `Formatter` method: `tri!(writer.write_all(b))` for each of its buffers in turn -/
def writesM (fuel : Nat) : List Bytes → M Unit
  | [] => M.pure ()
  | b :: bs => (writeAllM fuel b).bind fun _ => writesM fuel bs

/-- `self.formatter.method(&mut self.writer, ..).map_err(Error::io)`: the method's `write_all`s, then its
    state change (a method that fails has returned before the caller looks at the formatter again) -/
def fmtW (fuel : Nat) (a : W) : M FState := (writesM fuel a.bufs).bind fun _ => M.pure a.st

/-- `serialize_seq` / `serialize_map` (see the module comment; `Model.Ser.serializeSeq`): `begin_array`,
    for `len == Some(0)` also `end_array`, then `Ok(Compound::Map { ser: self, state })` -/
def fmtWS (fuel : Nat) (a : WS) : M (State × FState) := (writesM fuel a.bufs).bind fun _ => M.pure (a.state, a.st)

/-- `tri!(key.serialize(MapKeySerializer { ser: *ser }))`: a key that is not accepted returns its error before
    any `Formatter` call (`src/ser.rs` 1023–1143), an accepted one writes its buffers -/
def keyW (fuel : Nat) (r : Except SerErr (List Bytes)) (st : FState) : M FState :=
  match r with
  | .ok kb => (writesM fuel kb).bind fun _ => M.pure st
  | .error e => M.fail e

mutual
/-- `value.serialize(&mut *ser)` with the writer threaded through:
```rust
fn serialize_newtype_variant<T>(self, _name, _variant_index, variant: &'static str, value: &T) -> Result<()> {
    tri!(self.formatter.begin_object(&mut self.writer).map_err(Error::io));
    tri!(self.formatter.begin_object_key(&mut self.writer, true).map_err(Error::io));
    tri!(self.serialize_str(variant));
    tri!(self.formatter.end_object_key(&mut self.writer).map_err(Error::io));
    tri!(self.formatter.begin_object_value(&mut self.writer).map_err(Error::io));
    tri!(value.serialize(&mut *self));
    tri!(self.formatter.end_object_value(&mut self.writer).map_err(Error::io));
    self.formatter.end_object(&mut self.writer).map_err(Error::io)
}
fn serialize_tuple_variant(self, .., variant, len) -> Result<Self::SerializeTupleVariant> {
    tri!(self.formatter.begin_object(&mut self.writer).map_err(Error::io));
    tri!(self.formatter.begin_object_key(&mut self.writer, true).map_err(Error::io));
    tri!(self.serialize_str(variant));
    tri!(self.formatter.end_object_key(&mut self.writer).map_err(Error::io));
    tri!(self.formatter.begin_object_value(&mut self.writer).map_err(Error::io));
    self.serialize_seq(Some(len))
}
// Vec<T> / collect_seq:
let mut seq = tri!(self.serialize_seq(iter.len_hint()));
tri!(iter.try_for_each(|item| seq.serialize_element(&item)));
seq.end()
``` -/
def serW (fuel : Nat) (ext : Ext) (f : Fmt) : SVal → FState → M FState
  | .bool b, st => fmtW fuel (write [writeBool b] st)                                  -- write_bool(&mut self.writer, value)
  | .int _ n, st => fmtW fuel (write [ext.itoa n] st)                                  -- write_i8 … write_u128
  | .f32 b, st => fmtW fuel (write [if finite32 b then ext.ryu32 b else writeNull] st) -- write_null / write_f32
  | .f64 b, st => fmtW fuel (write [if finite64 b then ext.ryu64 b else writeNull] st)
  | .char cp, st => fmtW fuel (write (escapeStr (encodeUtf8 cp)) st)                   -- self.serialize_str(value.encode_utf8(&mut buf))
  | .str s, st => fmtW fuel (write (escapeStr s) st)                                   -- format_escaped_str(&mut self.writer, &mut self.formatter, value)
  | .bytes bs, st => fmtW fuel (writeByteArray ext f bs st)                            -- write_byte_array(&mut self.writer, value)
  | .none, st => fmtW fuel (write [writeNull] st)                                      -- self.serialize_unit()
  | .some p, st => serW fuel ext f p st                                                -- value.serialize(self)
  | .unit, st => fmtW fuel (write [writeNull] st)                                      -- write_null(&mut self.writer)
  | .unitStruct, st => fmtW fuel (write [writeNull] st)
  | .unitVariant v, st => fmtW fuel (write (escapeStr v) st)                           -- self.serialize_str(variant)
  | .newtypeStruct p, st => serW fuel ext f p st
  | .newtypeVariant v p, st =>
    (fmtW fuel (variantOpen f v st)).bind fun st1 =>
    (serW fuel ext f p st1).bind fun st2 =>
    fmtW fuel ((endObjectValue f st2).andThen (endObject f))
  | .seq hint xs, st =>
    (fmtWS fuel (serializeSeq f hint st)).bind fun o =>
    (serElemsW fuel ext f xs o.1 o.2).bind fun r => fmtW fuel (seqEnd f r.1 r.2)
  | .tuple xs, st =>
    (fmtWS fuel (serializeSeq f (some xs.length) st)).bind fun o =>
    (serElemsW fuel ext f xs o.1 o.2).bind fun r => fmtW fuel (seqEnd f r.1 r.2)
  | .tupleStruct xs, st =>
    (fmtWS fuel (serializeSeq f (some xs.length) st)).bind fun o =>
    (serElemsW fuel ext f xs o.1 o.2).bind fun r => fmtW fuel (seqEnd f r.1 r.2)
  | .tupleVariant v xs, st =>
    (fmtW fuel (variantOpen f v st)).bind fun st1 =>
    (fmtWS fuel (serializeSeq f (some xs.length) st1)).bind fun o =>
    (serElemsW fuel ext f xs o.1 o.2).bind fun r => fmtW fuel (tupleVariantEnd f r.1 r.2)
  | .map hint es, st =>
    (fmtWS fuel (serializeMap f hint st)).bind fun o =>
    (serEntriesW fuel ext f es o.1 o.2).bind fun r => fmtW fuel (mapEnd f r.1 r.2)
  | .struct_ fs, st =>
    (fmtWS fuel (serializeMap f (some fs.length) st)).bind fun o =>
    (serFieldsW fuel ext f fs o.1 o.2).bind fun r => fmtW fuel (mapEnd f r.1 r.2)
  | .structVariant v fs, st =>
    (fmtW fuel (variantOpen f v st)).bind fun st1 =>
    (fmtWS fuel (serializeMap f (some fs.length) st1)).bind fun o =>
    (serFieldsW fuel ext f fs o.1 o.2).bind fun r => fmtW fuel (structVariantEnd f r.1 r.2)
  | .collectStr s, st => fmtW fuel (write (collectStr s) st)
  | .numberLit s, st => fmtW fuel (write [s] st)                                       -- write_number_str(&mut self.writer, value)
termination_by structural p => p

/-- `SerializeSeq::serialize_element` for each element:
```rust
tri!(ser.formatter.begin_array_value(&mut ser.writer, *state == State::First).map_err(Error::io));
*state = State::Rest;
tri!(value.serialize(&mut **ser));
ser.formatter.end_array_value(&mut ser.writer).map_err(Error::io)
``` -/
def serElemsW (fuel : Nat) (ext : Ext) (f : Fmt) : List SVal → State → FState → M (State × FState)
  | [], state, st => M.pure (state, st)
  | x :: xs, state, st =>
    (fmtW fuel (beginArrayValue f (state == .first) st)).bind fun st1 =>
    (serW fuel ext f x st1).bind fun st2 =>
    (fmtW fuel (endArrayValue f st2)).bind fun st3 =>
    serElemsW fuel ext f xs .rest st3

/-- `SerializeMap::serialize_key` then `serialize_value` for each entry:
```rust
tri!(ser.formatter.begin_object_key(&mut ser.writer, *state == State::First).map_err(Error::io));
*state = State::Rest;
tri!(key.serialize(MapKeySerializer { ser: *ser }));
ser.formatter.end_object_key(&mut ser.writer).map_err(Error::io)
// serialize_value:
tri!(ser.formatter.begin_object_value(&mut ser.writer).map_err(Error::io));
tri!(value.serialize(&mut **ser));
ser.formatter.end_object_value(&mut ser.writer).map_err(Error::io)
``` -/
def serEntriesW (fuel : Nat) (ext : Ext) (f : Fmt) : List (SVal × SVal) → State → FState → M (State × FState)
  | [], state, st => M.pure (state, st)
  | (k, v) :: es, state, st =>
    (fmtW fuel (beginObjectKey f (state == .first) st)).bind fun st1 =>
    (keyW fuel (keySer ext k) st1).bind fun st2 =>
    (fmtW fuel (endObjectKey f st2)).bind fun st3 =>
    (fmtW fuel (beginObjectValue f st3)).bind fun st4 =>
    (serW fuel ext f v st4).bind fun st5 =>
    (fmtW fuel (endObjectValue f st5)).bind fun st6 =>
    serEntriesW fuel ext f es .rest st6

/-- `SerializeStruct::serialize_field(key, value)` = `SerializeMap::serialize_entry(self, key, value)` with a
    `&'static str` key -/
def serFieldsW (fuel : Nat) (ext : Ext) (f : Fmt) : List (Bytes × SVal) → State → FState → M (State × FState)
  | [], state, st => M.pure (state, st)
  | (k, v) :: fs, state, st =>
    (fmtW fuel (beginObjectKey f (state == .first) st)).bind fun st1 =>
    (fmtW fuel (write (escapeStr k) st1)).bind fun st2 =>
    (fmtW fuel (endObjectKey f st2)).bind fun st3 =>
    (fmtW fuel (beginObjectValue f st3)).bind fun st4 =>
    (serW fuel ext f v st4).bind fun st5 =>
    (fmtW fuel (endObjectValue f st5)).bind fun st6 =>
    serFieldsW fuel ext f fs .rest st6
end

/-- the `Result<()>` of `to_writer` from how the threaded run ended -/
def resOf : Except Stop FState → ResT
  | .ok _ => .ok
  | .error (.io e) => .io e
  | .error (.ser e) => .ser e
  | .error .hang => .hang
  | .error .panic => .panic

/-- `to_writer` / `to_writer_pretty` / `with_formatter`:
```rust
pub fn to_writer<W: io::Write, T: ?Sized + Serialize>(writer: W, value: &T) -> Result<()> {
    let mut ser = Serializer::new(writer);
    value.serialize(&mut ser)
}
```
the writer afterwards and the result -/
def toWriterW (fuel : Nat) (ext : Ext) (fmt : Fmt) (p : SVal) (w : Writer) : Writer × ResT :=
  match serW fuel ext fmt p FState.init w with
  | (w', r) => (w', resOf r)

end SJ.Model.WriteThreaded
