import SJ.Model.IoFault
import SJ.Model.Write
import SJ.Model.Typed
import SJ.Model.StreamTyped
import SJ.Gen.IoKind
/-!
# The KIND of an `Io` error on the reader side (C13: "an error of category Io carrying that error's kind")

`Model.IoFault.ROut.io`, `Model.Typed.Res.io` / `Top.io` and `Model.StreamTyped.TItem.io` say "the reader's failure
surfaced as `Error::io`" and carry no payload. Here the payload is made explicit, without touching those definitions.
The reader is the delivered bytes followed by `Err(e)` for an `io::Error` `e` (`Model.Write.IoError`: a kind and an
opaque rest; `io::Bytes` retries `Interrupted` itself, so `e` is what its iterator finally yields):

```rust
// read.rs, IoRead::next / IoRead::peek — the only thing done with a failed read (Gen.ioReadErrArms = 2)
None => match self.iter.next() { Some(Err(err)) => Err(Error::io(err)), … }
// error.rs
pub fn io(error: io::Error) -> Self { Error { err: Box::new(ErrorImpl { code: ErrorCode::Io(error), line: 0, column: 0 }) } }
pub fn io_error_kind(&self) -> Option<ErrorKind> {
    if let ErrorCode::Io(io_error) = &self.err.code { Some(io_error.kind()) } else { None } }
pub fn classify(&self) -> Category { match self.err.code { ErrorCode::Message(_) => Category::Data, ErrorCode::Io(_) => Category::Io, … } }
impl From<Error> for io::Error { … if let ErrorCode::Io(err) = j.err.code { err } else { … } }
```
Each of the four shapes is re-extracted on every run (`Gen.IoKind`, `Gen.intoIoKeepsInner`).
Import-free (models and `Gen` only).
-/
namespace SJ.Model.IoKind
open SJ SJ.Gen SJ.Model.Machine SJ.Model.IoFault
open SJ.Model.Write (IoError Kind)

/-- what `Error::io(e)` keeps of `e`: `code: ErrorCode::Io(error)` — the error itself -/
def errorIo (e : IoError) : Option IoError := if Gen.errorIoStoresError then some e else none

/-- a `serde_json::Error` as far as C13 looks at it -/
inductive JErr where
  /-- `ErrorCode::Io(inner)`; `none` would be "the payload was dropped" (excluded by `Gen.errorIoStoresError`) -/
  | io (inner : Option IoError)
  /-- any other code -/
  | other (c : Code) (idx : Nat)
deriving Repr

/-- `Error::io_error_kind()` -/
def JErr.ioErrorKind : JErr → Option Kind
  | .io inner => if Gen.ioErrorKindReturnsInner then inner.map (·.kind) else none
  | .other _ _ => none

/-- `Error::classify()` -/
def JErr.classify : JErr → Cat
  | .io _ => if Gen.classifyIoIsIo then .io else .syntax
  | .other c _ => Gen.classify c

/-- `io::Error::from(err)` gives the wrapped error back (for an `Io` error) -/
def JErr.intoIo : JErr → Option IoError
  | .io inner => if Gen.intoIoKeepsInner then inner else none
  | .other _ _ => none

/-- `Model.IoFault.runFault` with the failing read's error threaded through `IoRead::next` / `peek`:
    `Some(Err(err)) => Err(Error::io(err))` -/
def runFaultK (e : IoError) (env : Env) (s : St) (i : Nat) : Bytes → JErr
  | [] => .io (errorIo e)
  | b :: bs => match step env s b with
    | .ok s' => runFaultK e env s' (i + 1) bs
    | .error (c, a) => .other c (errIdx env a i)

def parseFaultK (e : IoError) (env : Env) (bs : Bytes) : JErr := runFaultK e env init 0 bs

/-- the payload-free outcome with the error attached -/
def attach (e : IoError) : ROut → JErr
  | .io => .io (errorIo e)
  | .err c idx => .other c idx

/-- typed targets (`Model.Typed.deTypedTop` in fault mode): the outcome with the error attached; a value / a visitor
    error is not a `JErr` -/
def attachTop (e : IoError) : Model.Typed.Top → Option JErr
  | .io => some (.io (errorIo e))
  | .err c idx => some (.other c idx)
  | _ => none

/-- one item of a typed stream -/
def attachItem (e : IoError) : Model.StreamTyped.TItem → Option JErr
  | .io => some (.io (errorIo e))
  | .err c idx => some (.other c idx)
  | _ => none

end SJ.Model.IoKind
