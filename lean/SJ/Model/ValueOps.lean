import SJ.Spec.Value
import SJ.Gen.Pointer
/-!
# Model of `Value::pointer`, `parse_index` (src/value/mod.rs) — transcribed from the Rust

```rust
if pointer.is_empty() { return Some(self); }
if !pointer.starts_with('/') { return None; }
pointer.split('/').skip(1).map(|x| x.replace("~1", "/").replace("~0", "~"))
    .try_fold(self, |target, token| match target {
        Value::Object(map) => map.get(&token),
        Value::Array(list) => parse_index(&token).and_then(|x| list.get(x)),
        _ => None })
```
-/
namespace SJ.Model.ValueOps
open SJ

/-- `str::split(c)`: always at least one piece. -/
def splitOn (sep : UInt8) : Bytes → List Bytes
  | [] => [[]]
  | c :: r =>
    if c = sep then [] :: splitOn sep r
    else match splitOn sep r with
      | [] => [[c]]              -- unreachable
      | p :: ps => (c :: p) :: ps

/-- `str::replace` for a two-byte pattern `a b` (a ≠ b) by one byte `c`:
    non-overlapping matches, left to right. -/
def replace2 (a b c : UInt8) : Bytes → Bytes
  | [] => []
  | [x] => [x]
  | x :: y :: r => if x = a ∧ y = b then c :: replace2 a b c r else x :: replace2 a b c (y :: r)

/-- general `str::replace(pat, rep)`: non-overlapping matches, left to right (fuel = length). -/
def replaceAux (pat rep : Bytes) : Nat → Bytes → Bytes
  | 0, s => s
  | _ + 1, [] => []
  | fuel + 1, c :: r =>
    if pat ≠ [] ∧ pat.isPrefixOf (c :: r) then rep ++ replaceAux pat rep fuel ((c :: r).drop pat.length)
    else c :: replaceAux pat rep fuel r

def replace (pat rep s : Bytes) : Bytes := replaceAux pat rep s.length s

/-- the chain of `.replace` calls extracted from the source, applied in source order -/
def applyChain (chain : List (Bytes × Bytes)) (t : Bytes) : Bytes :=
  chain.foldl (fun s pr => replace pr.1 pr.2 s) t

def unescapeTok (t : Bytes) : Bytes := applyChain Gen.ptrReplace t
def unescapeTokMut (t : Bytes) : Bytes := applyChain Gen.ptrMutReplace t

def isDigit (b : UInt8) : Bool := 0x30 ≤ b && b ≤ 0x39

/-- `str::parse::<usize>()` on a 64-bit target: optional `+`, then one or more ASCII digits,
    value below 2^64 (checked arithmetic); anything else is an error. -/
def parseUsize (s : Bytes) : Option Nat :=
  let ds := if s.head? = some 0x2b then s.drop 1 else s
  if ds.isEmpty then none
  else if ds.all isDigit then
    let n := ds.foldl (fun a d => a * 10 + (d.toNat - 0x30)) 0
    if n < 2 ^ 64 then some n else none
  else none

/-- `parse_index` -/
def parseIndex (s : Bytes) : Option Nat :=
  if s.head? = some Gen.parseIndexGuard.1 ||
      (s.head? = some Gen.parseIndexGuard.2.1 && s.length != Gen.parseIndexGuard.2.2) then none
  else parseUsize s

def mapGet (k : Bytes) : List (Bytes × JV) → Option JV
  | [] => none
  | (k', v) :: r => if k' = k then some v else mapGet k r

def tryFold : JV → List Bytes → Option JV
  | v, [] => some v
  | v, t :: ts =>
    match (match v with
      | .obj m => mapGet t m
      | .arr l => (parseIndex t).bind (l[·]?)
      | _ => none) with
    | some v' => tryFold v' ts
    | none => none

def pointer (v : JV) (p : Bytes) : Option JV :=
  if p.isEmpty then some v
  else if p.head? != some Gen.ptrReplaceLead then none
  else tryFold v (((splitOn Gen.ptrReplaceSplit.1 p).drop Gen.ptrReplaceSplit.2).map unescapeTok)

/-! `pointer_mut`: same traversal with `get_mut`; the observable is the document after writing
    `x` through the returned reference. -/

def mapUpd (k : Bytes) (f : JV → Option JV) : List (Bytes × JV) → Option (List (Bytes × JV))
  | [] => none
  | (k', v) :: r =>
    if k' = k then (f v).map (fun v' => (k', v') :: r) else (mapUpd k f r).map ((k', v) :: ·)

def vecUpd (f : JV → Option JV) : Nat → List JV → Option (List JV)
  | _, [] => none
  | 0, v :: r => (f v).map (· :: r)
  | i + 1, v :: r => (vecUpd f i r).map (v :: ·)

def foldSet : List Bytes → JV → JV → Option JV
  | [], _, x => some x
  | t :: ts, .obj m, x => (mapUpd t (fun v => foldSet ts v x) m).map .obj
  | t :: ts, .arr l, x => (parseIndex t).bind fun i => (vecUpd (fun v => foldSet ts v x) i l).map .arr
  | _ :: _, _, _ => none

def pointerSet (v : JV) (p : Bytes) (x : JV) : Option JV :=
  if p.isEmpty then some x
  else if p.head? != some Gen.ptrMutReplaceLead then none
  else foldSet (((splitOn Gen.ptrMutReplaceSplit.1 p).drop Gen.ptrMutReplaceSplit.2).map unescapeTokMut) v x

end SJ.Model.ValueOps
