import SJ.Spec.Schema
import SJ.Spec.Canon
import SJ.Model.Machine
import SJ.Model.Stream
import SJ.Model.FromValue
/-!
# The TYPED text deserializer: `impl<'de, R: Read<'de>> de::Deserializer<'de> for &mut Deserializer<R>` (src/de.rs)

`deTyped` is a recursive-descent transcription of every `deserialize_*` entry point of `src/de.rs`
over the typed universe (`SJ.Spec.Schema`): the request issued by the universal seed
(`harness/src/schema.rs`) for a schema node, the entry point's own parsing (`parse_whitespace`,
`parse_ident`, `parse_integer`, `scan_integer128`, `parse_str`, `parse_str_raw`, `SeqAccess`,
`MapAccess`, `MapKey`, `VariantAccess`, `UnitVariantAccess`, `end_seq`, `end_map`,
`peek_invalid_type`, `check_recursion!`, `fix_position`) and the visitor of the standard shape —
the SAME visitor helpers as on the `Value` side (`SJ.Model.FromValue`: `visitInt`, `numberInt`,
`numberF64`, `numberF32`, `visitCharStr`, `nameIndex`, `missingField`, `finishFields`,
`bytesOfInts`, `rustParseInt`), as it is the same serde code in Rust.

Scalars that `de.rs` parses with the code the byte-step machine transcribes are run on the machine
(`runPfx` = `Stream.runPrefix` with two additions, see below): validated strings (`parse_str`),
the scalar consumed by `peek_invalid_type`, `ignore_value` (target `.ignored`) and `deserialize_any`
with `Value`'s visitor (target `.value`). Number literals for numeric targets have a scanner of their
own here (`scanNumber`: `parse_integer` → `ParserNumber`, shared conversion `Model.Num.convert…`) so that
the accumulated value is available to the prefix proofs; `scan_integer128` likewise (`scanInteger128`).

**Errors.** A parser error carries its `ErrorCode` and the index its position counts
(`Error::syntax(code, line, column)`); a visitor error (`invalid type`, `invalid value`,
`invalid length`, `unknown variant/field`, `missing field`, `duplicate field`: all `Data`-classified
`Message`s) is created WITHOUT a position (line 0) and receives one from the first `fix_position` it
passes (`self.error(code)` = `read.position()` of the state at that moment): `Res.raw rest pos` is such
an error together with the reader state where it arose, `Res.data idx` is a positioned one.
`read.position()`: a slice reports `index`; a reader reports the number of bytes pulled from the
iterator, which includes a peeked byte — `errorIdx … (peeked := true)` is one more for a reader when
a byte is peeked (DESIGN App. A "excl" sites).

**End of input.** Every site that asks the reader for a byte when none is left is explicit
(`atEof`): with `env.flt = false` the input ends there (the `Eof…` code of the site at index =
length); with `env.flt = true` the reader fails instead and the site returns `Res.io` (`tri!`) —
the typed analogue of `Model.IoFault` (C13). The one site that swallows the reader's answer
(`end_seq` after a comma) is transcribed as written.

**Depth.** `t` is the number of typed containers entered (`remaining_depth = 128 − t`);
`check_recursion!` fails when `t + 1 ≥ 128`; a nested `Value` shares the budget: the machine is
started on a stack of `t` padding frames (`runPfx … t`).

**Fuel.** `deTyped` recurses on sub-schemas only: its fuel is the schema size (`Schema.size s + 1`
suffices: `SJ.Props.Typed.typed_fuel_suffices`); the loops over elements / entries take the length
of the unread input as fuel (every iteration consumes a byte).
-/
namespace SJ.Model.Typed
open SJ SJ.Gen
open SJ.Model.Machine (Src St Frame Mode Step step1 errIdx endNumber finishMode init hex4)
open SJ.Model.FromValue (R fail visitCharStr numberInt numberF64 numberF32 nameIndex finishFields bytesOfInts
  rustParseInt intToF32 f64ToF32)
open SJ.Model.Stream (skipWs)

structure Env where
  cfg : Machine.Cfg := {}
  src : Src := .slice
  /-- the reader fails (I/O error) instead of reporting end of input -/
  flt : Bool := false
deriving Repr, Inhabited

/-- outcome of a parsing function: result and unread input (with its absolute index), or an error -/
inductive Res (α : Type) where
  | ok (a : α) (rest : Bytes) (pos : Nat)
  /-- parser error: `Error::syntax(code, line, column)`; `idx` = number of bytes the position counts -/
  | err (c : Code) (idx : Nat)
  /-- visitor (`Data`) error positioned by `fix_position` -/
  | data (idx : Nat)
  /-- visitor (`Data`) error not positioned yet (line 0), with the reader state where it was raised -/
  | raw (rest : Bytes) (pos : Nat)
  /-- `Error::io` (only with `env.flt`) -/
  | io
  /-- the model ran out of fuel (proved unreachable) -/
  | fuel

instance {α : Type} : Inhabited (Res α) := ⟨.fuel⟩

abbrev TOut := Res TVal

def Res.bind {α β : Type} (r : Res α) (k : α → Bytes → Nat → Res β) : Res β :=
  match r with
  | .ok a rest pos => k a rest pos
  | .err c i => .err c i
  | .data i => .data i
  | .raw r p => .raw r p
  | .io => .io
  | .fuel => .fuel

def Res.map {α β : Type} (f : α → β) (r : Res α) : Res β := r.bind fun a rest pos => .ok (f a) rest pos

/-! ## positions -/

/-- `self.error(code)`: `read.position()` — slice: the index; reader: bytes pulled, including a peeked one -/
def errorIdx (env : Env) (rest : Bytes) (pos : Nat) (peeked : Bool) : Nat :=
  if env.src == .reader && peeked && !rest.isEmpty then pos + 1 else pos

/-- `self.peek_error(code)` right after a `peek()`: slice `min(len, index + 1)`, reader: bytes pulled -/
def peekErrorIdx (rest : Bytes) (pos : Nat) : Nat := if rest.isEmpty then pos else pos + 1

/-- a `peek()`/`next()` that finds no byte: end of input (the site's `Eof…` code, at index = length)
    or, with a failing reader, `Error::io` -/
def atEof {α : Type} (env : Env) (c : Code) (pos : Nat) : Res α :=
  if env.flt then .io else .err c pos

/-- `parse_whitespace()` then a byte must be there (it is only peeked):
```rust
let peek = match tri!(self.parse_whitespace()) { Some(b) => b, None => return Err(self.peek_error(ErrorCode::<code>)) };
```
`k b r p`: the peeked byte `b`, the input after it, and the index of `b` -/
def withPeek {α : Type} (env : Env) (c : Code) (rest : Bytes) (pos : Nat) (k : UInt8 → Bytes → Nat → Res α) : Res α :=
  match skipWs rest pos with
  | ([], p) => atEof env c p
  | (b :: r, p) => k b r p

/-- ```rust
fn fix_position(&self, err: Error) -> Error { err.fix_position(move |code| self.error(code)) }
// error.rs: if self.err.line == 0 { f(self.err.code) } else { self }
``` at a site where the reader state is the one the error was raised in -/
def fixPos {α : Type} (env : Env) (peeked : Bool) (r : Res α) : Res α :=
  match r with
  | .raw rest pos => .data (errorIdx env rest pos peeked)
  | r => r

/-- a visitor's verdict (`FromValue.R`) at reader state `(rest, pos)` -/
def ofVisit (r : R) (rest : Bytes) (pos : Nat) : TOut :=
  match r with
  | .ok v => .ok v rest pos
  | .error _ => .raw rest pos

/-! ## the byte-step machine as a sub-parser -/

def valEnv (env : Env) : Machine.Env := { cfg := env.cfg, src := env.src, tgt := .value }
def ignEnv (env : Env) : Machine.Env := { cfg := env.cfg, src := env.src, tgt := .ignored }

/-- the value started at padding height `t` is complete in state `s` -/
def completed (t : Nat) (s : St) : Option JV :=
  match s.mode with
  | .done v => some v
  | .afterElem =>
    if s.stack.length == t then
      match s.stack with
      | .arr (v :: _) :: _ => some v
      | _ => none
    else none
  | _ => none

/-- `Machine.finish` for a run started on `t` padding frames: a number that is complete at end of input
    completes the value -/
def finishT (menv : Machine.Env) (t : Nat) (s : St) : Except Code JV :=
  match s.mode with
  | .num n =>
    match n.phase with
    | .afterMinus | .fracStart | .expStart | .expSign => .error .EofWhileParsingValue
    | _ =>
      match endNumber menv s n with
      | .ok s' => (match completed t s' with | some v => .ok v | none => finishMode menv s')
      | .error (c, _) => .error c
  | _ => finishMode menv s

inductive MOut where
  | ok (v : JV) (next : Nat)
  | err (c : Code) (idx : Nat)
  | io
deriving Repr

/-- `Stream.runPrefix` (run the machine until one value is complete) with two additions: a failing
    reader at the end of the delivered bytes (`flt`), and a start on `t` padding frames so that the
    nested value shares the depth budget of the typed containers around it -/
def runPfx (menv : Machine.Env) (flt : Bool) (t : Nat) (s : St) (i : Nat) : Bytes → MOut
  | [] =>
    if flt then .io else
    match finishT menv t s with
    | .ok v => .ok v i
    | .error c => .err c i
  | b :: bs =>
    match step1 menv s b with
    | .err c a => .err c (errIdx menv a i)
    | .next s' =>
      match completed t s' with
      | some v => .ok v (i + 1)
      | none => runPfx menv flt t s' (i + 1) bs
    | .again s' =>
      match completed t s' with
      | some v => .ok v i                    -- a number ended: `b` is only peeked
      | none =>
        match step1 menv s' b with
        | .err c a => .err c (errIdx menv a i)
        | .next s'' =>
          match completed t s'' with
          | some v => .ok v (i + 1)
          | none => runPfx menv flt t s'' (i + 1) bs
        | .again _ => .err .ExpectedSomeValue (i + 1)      -- unreachable (C14)

/-- padding: `t` open arrays -/
def padStack (t : Nat) : List Frame := List.replicate t (.arr [])

/-- one value from `rest` on the machine; the unread input is what follows the value -/
def machine (menv : Machine.Env) (flt : Bool) (t : Nat) (s : St) (rest : Bytes) (pos : Nat) : Res JV :=
  match runPfx menv flt t s pos rest with
  | .ok v e => .ok v (rest.drop (e - pos)) e
  | .err c i => .err c i
  | .io => .io

/-! ## `parse_ident`, `peek_invalid_type` -/

/-- ```rust
fn parse_ident(&mut self, ident: &[u8]) -> Result<()> {
    for expected in ident {
        match tri!(self.next_char()) {
            None => return Err(self.error(ErrorCode::EofWhileParsingValue)),
            Some(next) => if next != *expected { return Err(self.error(ErrorCode::ExpectedSomeIdent)); }
        } }
    Ok(()) }
``` -/
def parseIdent (env : Env) : Bytes → Bytes → Nat → Res Unit
  | [], rest, pos => .ok () rest pos
  | _ :: _, [], pos => atEof env .EofWhileParsingValue pos
  | e :: es, b :: r, pos => if b == e then parseIdent env es r (pos + 1) else .err .ExpectedSomeIdent (pos + 1)

def isNumStart (b : UInt8) : Bool := b == 0x2d || Machine.isDigit b

/-- ```rust
fn peek_invalid_type(&mut self, exp: &dyn Expected) -> Error {
    let err = match self.peek_or_null().unwrap_or(b'\x00') {
        b'n' => { self.eat_char(); if let Err(err) = self.parse_ident(b"ull") { return err; } de::Error::invalid_type(Unexpected::Unit, exp) }
        b't' => …  b'f' => …
        b'-' => { self.eat_char(); match self.parse_any_number(false) { Ok(n) => n.invalid_type(exp), Err(err) => return err } }
        b'0'..=b'9' => match self.parse_any_number(true) { Ok(n) => n.invalid_type(exp), Err(err) => return err },
        b'"' => { self.eat_char(); self.scratch.clear(); match self.read.parse_str(&mut self.scratch) { Ok(s) => de::Error::invalid_type(Unexpected::Str(&s), exp), Err(err) => return err } }
        b'[' => de::Error::invalid_type(Unexpected::Seq, exp),
        b'{' => de::Error::invalid_type(Unexpected::Map, exp),
        _ => self.peek_error(ErrorCode::ExpectedSomeValue),
    };
    self.fix_position(err) }
```
`rest = b :: _` with `b` peeked. A scalar is parsed exactly as `deserialize_any` would (the machine with
the `Value` target: idents, `parse_any_number`, `parse_str`, and `ExpectedSomeValue` for any other byte),
then the `invalid type` error is positioned after it — with the terminator peeked when it is a number. -/
def peekInvalidType {α : Type} (env : Env) (rest : Bytes) (pos : Nat) : Res α :=
  match rest with
  | [] => .err .ExpectedSomeValue pos            -- not reached: callers have peeked a byte
  | b :: _ =>
    if b == 0x5b || b == 0x7b then .data (errorIdx env rest pos true)
    else
      match machine (valEnv env) env.flt 0 init rest pos with
      | .ok _ rest' pos' => .data (errorIdx env rest' pos' (isNumStart b))
      | .err c i => .err c i
      | .data i => .data i
      | .raw r p => .raw r p
      | .io => .io
      | .fuel => .fuel

/-! ## scalars -/

/-- ```rust
fn deserialize_bool<V>(self, visitor: V) -> Result<V::Value> {
    let peek = match tri!(self.parse_whitespace()) { Some(b) => b, None => return Err(self.peek_error(ErrorCode::EofWhileParsingValue)) };
    let value = match peek {
        b't' => { self.eat_char(); tri!(self.parse_ident(b"rue")); visitor.visit_bool(true) }
        b'f' => { self.eat_char(); tri!(self.parse_ident(b"alse")); visitor.visit_bool(false) }
        _ => Err(self.peek_invalid_type(&visitor)),
    };
    match value { Ok(value) => Ok(value), Err(err) => Err(self.fix_position(err)) } }
``` -/
def deBool (env : Env) (rest : Bytes) (pos : Nat) : TOut :=
  withPeek env .EofWhileParsingValue rest pos fun b r p =>
    if b == 0x74 then (parseIdent env Gen.identTrue r (p + 1)).bind fun _ r' p' => .ok (.bool true) r' p'
    else if b == 0x66 then (parseIdent env Gen.identFalse r (p + 1)).bind fun _ r' p' => .ok (.bool false) r' p'
    else peekInvalidType env (b :: r) p

/-- ```rust
fn deserialize_unit<V>(self, visitor: V) -> Result<V::Value> {
    let peek = match tri!(self.parse_whitespace()) { Some(b) => b, None => return Err(self.peek_error(ErrorCode::EofWhileParsingValue)) };
    let value = match peek {
        b'n' => { self.eat_char(); tri!(self.parse_ident(b"ull")); visitor.visit_unit() }
        _ => Err(self.peek_invalid_type(&visitor)),
    };
    match value { Ok(value) => Ok(value), Err(err) => Err(self.fix_position(err)) } }
fn deserialize_unit_struct(self, _name, visitor) { self.deserialize_unit(visitor) }
``` -/
def deUnit (env : Env) (rest : Bytes) (pos : Nat) : TOut :=
  withPeek env .EofWhileParsingValue rest pos fun b r p =>
    if b == 0x6e then (parseIdent env Gen.identNull r (p + 1)).bind fun _ r' p' => .ok .unit r' p'
    else peekInvalidType env (b :: r) p

/-- numeric targets of `deserialize_number` -/
inductive NumTy where
  | int (w : IntTy)
  | f64
  | f32
deriving Repr, DecidableEq

def f32Zero (neg : Bool) : UInt32 := if neg then 0x80000000 else 0

/-- `float_roundtrip`, `deserialize_f32`: `self.single_precision = true` makes `f64_from_parts` /
    `f64_long_from_parts` compute `lexical::parse_…_float::<f32>(…) as f64` (the correctly rounded f32:
    C07), an infinite result being `NumberOutOfRange`; integers that `parse_number` returns as
    `U64`/`I64` are cast directly by the visitor, and a `-0` or a negative integer below `i64::MIN` whose
    digits fit `u64` is `-(significand as f32) as f64` (rounded once, straight to f32; the visitor's `as f32` is exact).
    `none` = `NumberOutOfRange`. -/
def f32Roundtrip (p : Model.Num.Parts) : Option UInt32 :=
  match Model.Num.intClass p with
  | some (.u64 n) => some (intToF32 n)
  | some (.i64 k) => some (intToF32 k)
  | some _ => none
  | none =>
    if p.frac.isNone && p.exp.isNone && Model.Num.natOfDigits p.int < 2 ^ 64 then
      -- since be03444 (`fix:`): `-(significand as f32) as f64` when `single_precision` is set — one rounding
      some (Spec.Ieee.F32.neg (Spec.Ieee.F32.ofU64 (Model.Num.natOfDigits p.int)))
    else
      let allZero := (p.int ++ p.frac.getD []).all (· == 0x30)
      let overflow := match p.exp with
        | some (_, eds) => Model.Num.expOverflows eds
        | none => false
      if overflow then
        (match p.exp with
          | some (en, _) => if !allZero && !en then none else some (f32Zero p.neg)
          | none => none)
      else
        match Model.Num.exact p with
        | .zero | .tiny => some (f32Zero p.neg)
        | .huge => none
        | .rat n d => if d == 0 then none else Spec.Ieee.roundNE32 p.neg n d

/-- the visitor of the numeric target on a `ParserNumber` (`ParserNumber::visit`: `U64 → visit_u64`,
    `I64 → visit_i64`, `F64 → visit_f64`) — serde's primitive visitors, the same functions as on the `Value`
    side (there `Number::deserialize_any` makes the same three calls) -/
def visitNumber (ty : NumTy) (n : Num) : R :=
  match ty with
  | .int w => numberInt {} w n
  | .f64 => numberF64 {} n
  | .f32 => numberF32 {} n

/-! ### `parse_integer` (the number parser of the typed entry points, in every build)

The literal is scanned into its parts with the error sites of `parse_integer`, `parse_number`,
`parse_decimal`, `parse_exponent` (and their `parse_long_…` twins under `float_roundtrip`, which read the
same syntax); the value is then `Model.Num.convertDefault` / `convertRoundtrip` of the parts — the
conversion functions the machine uses. Every `peek_or_null()` that finds no byte is an end of input
(the literal is complete) or, with a failing reader, `Error::io`. -/

/-- leading digits and the rest -/
def digitsOf : Bytes → Bytes × Bytes
  | [] => ([], [])
  | c :: r => if Machine.isDigit c then ((c :: (digitsOf r).1), (digitsOf r).2) else ([], c :: r)

/-- index (in the exponent's digit string) of the digit on which `overflow!(exp * 10 + digit, i32::MAX)` fires -/
def expOverflowIdx : Nat → Nat → Bytes → Option Nat
  | _, _, [] => none
  | exp, k, c :: cs =>
    if Model.Num.overflowMacro exp (Model.Num.dig c) Model.Num.i32Max then some k
    else expOverflowIdx (exp * 10 + Model.Num.dig c) (k + 1) cs

def mkParts (neg : Bool) (int : Bytes) (frac : Option Bytes) (exp : Option (Bool × Bytes)) : Model.Num.Parts :=
  { neg := neg, int := int, frac := frac, exp := exp, raw := [] }

/-- ```rust
fn parse_exponent(&mut self, positive: bool, significand: u64, starting_exp: i32) -> Result<f64> {
    self.eat_char();
    let positive_exp = match tri!(self.peek_or_null()) { b'+' => { self.eat_char(); true } b'-' => { self.eat_char(); false } _ => true };
    let next = match tri!(self.next_char()) { Some(b) => b, None => return Err(self.error(ErrorCode::EofWhileParsingValue)) };
    let mut exp = match next { c @ b'0'..=b'9' => (c - b'0') as i32, _ => return Err(self.error(ErrorCode::InvalidNumber)) };
    while let c @ b'0'..=b'9' = tri!(self.peek_or_null()) {
        self.eat_char();
        let digit = (c - b'0') as i32;
        if overflow!(exp * 10 + digit, i32::MAX) {
            let zero_significand = significand == 0;
            return self.parse_exponent_overflow(positive, zero_significand, positive_exp);   // Err(self.error(NumberOutOfRange)) if !zero_significand && positive_exp, else swallows the digits: ±0
        }
        exp = exp * 10 + digit;
    }
    … f64_from_parts(positive, significand, final_exp) }
```
`rest` follows the `e`/`E` (`scanExp`), resp. the sign (`scanExpDigits`). -/
def scanExpDigits (env : Env) (neg : Bool) (int : Bytes) (frac : Option Bytes) (expNeg : Bool) (rest : Bytes) (pos : Nat) :
    Res Model.Num.Parts :=
  match rest with
  | [] => atEof env .EofWhileParsingValue pos
  | d :: r2 =>
    if !Machine.isDigit d then .err .InvalidNumber (pos + 1)
    else
      let eds := (digitsOf r2).1
      let r3 := (digitsOf r2).2
      let allZero := (int ++ frac.getD []).all (· == 0x30)
      match expOverflowIdx (Model.Num.dig d) 1 eds with
      | some k =>
        if !allZero && !expNeg then .err .NumberOutOfRange (pos + k + 1)
        else if r3.isEmpty && env.flt then .io
        else .ok (mkParts neg int frac (some (expNeg, d :: eds))) r3 (pos + 1 + eds.length)
      | none =>
        if r3.isEmpty && env.flt then .io
        else .ok (mkParts neg int frac (some (expNeg, d :: eds))) r3 (pos + 1 + eds.length)

def scanExp (env : Env) (neg : Bool) (int : Bytes) (frac : Option Bytes) (rest : Bytes) (pos : Nat) : Res Model.Num.Parts :=
  match rest with
  | [] => atEof env .EofWhileParsingValue pos
  | c :: r =>
    if c == 0x2b then scanExpDigits env neg int frac false r (pos + 1)
    else if c == 0x2d then scanExpDigits env neg int frac true r (pos + 1)
    else scanExpDigits env neg int frac false (c :: r) pos

/-- after the integer digits: ```rust
fn parse_number(&mut self, positive: bool, significand: u64) -> Result<ParserNumber> {
    Ok(match tri!(self.peek_or_null()) {
        b'.' => ParserNumber::F64(tri!(self.parse_decimal(positive, significand, 0))),
        b'e' | b'E' => ParserNumber::F64(tri!(self.parse_exponent(positive, significand, 0))),
        _ => { if positive { ParserNumber::U64(significand) } else { let neg = (significand as i64).wrapping_neg(); if neg >= 0 { ParserNumber::F64(-(significand as f64)) } else { ParserNumber::I64(neg) } } }
    }) }
fn parse_decimal(&mut self, positive: bool, mut significand: u64, exponent_before_decimal_point: i32) -> Result<f64> {
    self.eat_char();
    let mut exponent_after_decimal_point = 0;
    while let c @ b'0'..=b'9' = tri!(self.peek_or_null()) { … }
    // Error if there is not at least one digit after the decimal point.
    if exponent_after_decimal_point == 0 { match tri!(self.peek()) { Some(_) => return Err(self.peek_error(ErrorCode::InvalidNumber)), None => return Err(self.peek_error(ErrorCode::EofWhileParsingValue)) } }
    match tri!(self.peek_or_null()) { b'e' | b'E' => self.parse_exponent(positive, significand, exponent), _ => self.f64_from_parts(positive, significand, exponent) } }
``` -/
def scanAfterInt (env : Env) (neg : Bool) (int : Bytes) (rest : Bytes) (pos : Nat) : Res Model.Num.Parts :=
  match rest with
  | [] => if env.flt then .io else .ok (mkParts neg int none none) [] pos
  | c :: r =>
    if c == 0x2e then
      let fds := (digitsOf r).1
      let r2 := (digitsOf r).2
      let p2 := pos + 1 + fds.length
      match r2 with
      | [] =>
        if fds.isEmpty then atEof env .EofWhileParsingValue p2
        else if env.flt then .io else .ok (mkParts neg int (some fds) none) [] p2
      | c2 :: r3 =>
        if fds.isEmpty then .err .InvalidNumber (p2 + 1)
        else if c2 == 0x65 || c2 == 0x45 then scanExp env neg int (some fds) r3 (p2 + 1)
        else .ok (mkParts neg int (some fds) none) (c2 :: r3) p2
    else if c == 0x65 || c == 0x45 then scanExp env neg int none r (pos + 1)
    else .ok (mkParts neg int none none) (c :: r) pos

/-- ```rust
fn parse_integer(&mut self, positive: bool) -> Result<ParserNumber> {
    let next = match tri!(self.next_char()) { Some(b) => b, None => return Err(self.error(ErrorCode::EofWhileParsingValue)) };
    match next {
        b'0' => { // There can be only one leading '0'.
            match tri!(self.peek_or_null()) { b'0'..=b'9' => Err(self.peek_error(ErrorCode::InvalidNumber)), _ => self.parse_number(positive, 0) } }
        c @ b'1'..=b'9' => { let mut significand = (c - b'0') as u64;
            loop { match tri!(self.peek_or_null()) {
                c @ b'0'..=b'9' => { … if overflow!(significand * 10 + digit, u64::MAX) { return Ok(ParserNumber::F64(tri!(self.parse_long_integer(positive, significand)))); } self.eat_char(); … }
                _ => return self.parse_number(positive, significand), } } }
        _ => Err(self.error(ErrorCode::InvalidNumber)),
    } }
```
`rest` follows the sign. -/
def scanInteger (env : Env) (neg : Bool) (rest : Bytes) (pos : Nat) : Res Model.Num.Parts :=
  match rest with
  | [] => atEof env .EofWhileParsingValue pos
  | c :: r =>
    if c == 0x30 then
      match r with
      | [] => scanAfterInt env neg [c] [] (pos + 1)
      | d :: _ => if Machine.isDigit d then .err .InvalidNumber (pos + 2) else scanAfterInt env neg [c] r (pos + 1)
    else if Machine.isDigit c then
      scanAfterInt env neg (c :: (digitsOf r).1) (digitsOf r).2 (pos + 1 + (digitsOf r).1.length)
    else .err .InvalidNumber (pos + 1)

/-- `b'-' => { self.eat_char(); parse_integer(false) }`, `b'0'..=b'9' => parse_integer(true)` -/
def scanNumber (env : Env) (rest : Bytes) (pos : Nat) : Res Model.Num.Parts :=
  match rest with
  | [] => atEof env .EofWhileParsingValue pos
  | b :: r => if b == 0x2d then scanInteger env true r (pos + 1) else scanInteger env false (b :: r) pos

/-- the `ParserNumber` of a scanned literal (`f64_from_parts` / `f64_long_from_parts`: an infinite result
    is `Err(self.peek_error(ErrorCode::NumberOutOfRange))` at the end of the literal) -/
def parserNumber (env : Env) (p : Model.Num.Parts) : Option Num :=
  match (if env.cfg.fr then Model.Num.convertRoundtrip p else Model.Num.convertDefault p) with
  | .u64 k => some (.pos k)
  | .i64 k => some (.neg k)
  | .f64 b => some (.float b)
  | .outOfRange => none
  | .outOfFuel => none          -- proved unreachable (C14)

/-- ```rust
pub(crate) fn deserialize_number<'any, V>(&mut self, visitor: V) -> Result<V::Value> {
    let peek = match tri!(self.parse_whitespace()) { Some(b) => b, None => return Err(self.peek_error(ErrorCode::EofWhileParsingValue)) };
    let value = match peek {
        b'-' => { self.eat_char(); tri!(self.parse_integer(false)).visit(visitor) }
        b'0'..=b'9' => tri!(self.parse_integer(true)).visit(visitor),
        _ => Err(self.peek_invalid_type(&visitor)),
    };
    match value { Ok(value) => Ok(value), Err(err) => Err(self.fix_position(err)) } }
```
(`do_deserialize_f32` under `float_roundtrip` sets `single_precision` around the same call.)
After `parse_integer` the byte that ended the literal is peeked. -/
def deNumber (env : Env) (ty : NumTy) (rest : Bytes) (pos : Nat) : TOut :=
  withPeek env .EofWhileParsingValue rest pos fun b r p =>
    if isNumStart b then
      (scanNumber env (b :: r) p).bind fun parts rest' pos' =>
        if env.cfg.fr && ty == .f32 then
          match f32Roundtrip parts with
          | some bits => .ok (.f32 bits) rest' pos'
          | none => .err .NumberOutOfRange (peekErrorIdx rest' pos')
        else
          match parserNumber env parts with
          | some n => fixPos env true (ofVisit (visitNumber ty n) rest' pos')
          | none => .err .NumberOutOfRange (peekErrorIdx rest' pos')
    else peekInvalidType env (b :: r) p

/-- ```rust
fn scan_integer128(&mut self, buf: &mut String) -> Result<()> {
    match tri!(self.next_char()) {
        Some(b'0') => { buf.push('0');
            match tri!(self.peek_or_null()) { b'0'..=b'9' => Err(self.peek_error(ErrorCode::InvalidNumber)), _ => Ok(()) } }
        Some(c @ b'1'..=b'9') => { buf.push(c as char);
            while let c @ b'0'..=b'9' = tri!(self.peek_or_null()) { self.eat_char(); buf.push(c as char); }
            Ok(()) }
        Some(_) => Err(self.error(ErrorCode::InvalidNumber)),
        None => Err(self.error(ErrorCode::EofWhileParsingValue)),
    } }
``` -/
def scanDigits (env : Env) (acc : Bytes) : Bytes → Nat → Res Bytes
  | [], pos => if env.flt then .io else .ok acc.reverse [] pos
  | c :: r, pos => if Machine.isDigit c then scanDigits env (c :: acc) r (pos + 1) else .ok acc.reverse (c :: r) pos

def scanInteger128 (env : Env) (rest : Bytes) (pos : Nat) : Res Bytes :=
  match rest with
  | [] => atEof env .EofWhileParsingValue pos
  | c :: r =>
    if c == 0x30 then
      match r with
      | [] => if env.flt then .io else .ok [c] [] (pos + 1)
      | d :: _ => if Machine.isDigit d then .err .InvalidNumber (pos + 2) else .ok [c] r (pos + 1)
    else if Machine.isDigit c then scanDigits env [c] r (pos + 1)
    else .err .InvalidNumber (pos + 1)

/-- ```rust
pub(crate) fn do_deserialize_i128<'any, V>(&mut self, visitor: V) -> Result<V::Value> {
    let mut buf = String::new();
    match tri!(self.parse_whitespace()) {
        Some(b'-') => { self.eat_char(); buf.push('-'); }
        Some(_) => {}
        None => return Err(self.peek_error(ErrorCode::EofWhileParsingValue)),
    }
    tri!(self.scan_integer128(&mut buf));
    let value = match buf.parse() { Ok(int) => visitor.visit_i128(int), Err(_) => return Err(self.error(ErrorCode::NumberOutOfRange)) };
    match value { Ok(value) => Ok(value), Err(err) => Err(self.fix_position(err)) } }
pub(crate) fn do_deserialize_u128<'any, V>(&mut self, visitor: V) -> Result<V::Value> {
    match tri!(self.parse_whitespace()) {
        Some(b'-') => return Err(self.peek_error(ErrorCode::NumberOutOfRange)),
        Some(_) => {}
        None => return Err(self.peek_error(ErrorCode::EofWhileParsingValue)),
    }
    let mut buf = String::new();
    tri!(self.scan_integer128(&mut buf));
    let value = match buf.parse() { Ok(int) => visitor.visit_u128(int), Err(_) => return Err(self.error(ErrorCode::NumberOutOfRange)) };
    … }
```
`w` is `.i128` or `.u128`; `buf.parse()` = `FromValue.rustParseInt`; `self.error(NumberOutOfRange)` has the
byte that ended the digits peeked. -/
def deInt128 (env : Env) (w : IntTy) (rest : Bytes) (pos : Nat) : TOut :=
  withPeek env .EofWhileParsingValue rest pos fun b r p =>
    let finish (neg : Bool) (sc : Res Bytes) : TOut :=
      sc.bind fun ds rest' pos' =>
        match rustParseInt w (if neg then 0x2d :: ds else ds) with
        | some x => .ok (.int x) rest' pos'
        | none => .err .NumberOutOfRange (errorIdx env rest' pos' true)
    if b == 0x2d then
      if w.signed then finish true (scanInteger128 env r (p + 1))
      else .err .NumberOutOfRange (p + 1)
    else finish false (scanInteger128 env (b :: r) p)

def is128 (w : IntTy) : Bool := w.bits == 128

/-- `deserialize_i8 … deserialize_u128` -/
def deInt (env : Env) (w : IntTy) (rest : Bytes) (pos : Nat) : TOut :=
  if is128 w then deInt128 env w rest pos else deNumber env (.int w) rest pos

/-- `self.read.parse_str(&mut self.scratch)` right after the opening quote (validated: UTF-8 check on byte
    sources, surrogates paired): the machine's string sub-states -/
def parseStr (env : Env) (rest : Bytes) (pos : Nat) : Res Bytes :=
  (machine (valEnv env) env.flt 0 { mode := .str {} } rest pos).bind fun v rest' pos' =>
    match v with
    | .str s => .ok s rest' pos'
    | _ => .ok [] rest' pos'                     -- not reached: a string state completes with a string

/-- ```rust
fn deserialize_str<V>(self, visitor: V) -> Result<V::Value> {
    let peek = match tri!(self.parse_whitespace()) { Some(b) => b, None => return Err(self.peek_error(ErrorCode::EofWhileParsingValue)) };
    let value = match peek {
        b'"' => { self.eat_char(); self.scratch.clear();
            match tri!(self.read.parse_str(&mut self.scratch)) { Reference::Borrowed(s) => visitor.visit_borrowed_str(s), Reference::Copied(s) => visitor.visit_str(s) } }
        _ => Err(self.peek_invalid_type(&visitor)),
    };
    match value { Ok(value) => Ok(value), Err(err) => Err(self.fix_position(err)) } }
fn deserialize_char / deserialize_string / deserialize_identifier: self.deserialize_str(visitor)
``` -/
def deStr (env : Env) (visit : Bytes → R) (rest : Bytes) (pos : Nat) : TOut :=
  withPeek env .EofWhileParsingValue rest pos fun b r p =>
    if b == 0x22 then
      (parseStr env r (p + 1)).bind fun s rest' pos' => fixPos env false (ofVisit (visit s) rest' pos')
    else peekInvalidType env (b :: r) p

/-! ### `parse_str_raw` (`validate = false`): escapes decoded, no UTF-8 check, lone surrogates in WTF-8 -/

inductive RawEsc where
  | none
  | bs                                                    -- after `\`
  | hex (acc : List UInt8) (lead : Option Nat)            -- after `\u`
  | lead1 (n1 : Nat)                                      -- a leading surrogate was read: is the next byte `\`?
  | lead2 (n1 : Nat)                                      -- … and the one after it `u`?
deriving Repr

structure RawSt where
  out : Bytes := []             -- reversed
  esc : RawEsc := .none
deriving Repr

inductive RawStep where
  | next (s : RawSt)
  | again (s : RawSt)           -- the byte was only peeked: dispatch it again in the new state
  | done
  | err (c : Code)
deriving Repr

def pushWtf8 (n : Nat) (out : Bytes) : Bytes := (Spec.Denote.utf8 n).reverse ++ out

/-- ```rust
// read.rs parse_str_bytes(scratch, validate = false, …): bytes other than `"` and `\` are copied
// (`skip_to_escape(false)` / `if validate { ControlCharacter… } scratch.push(ch)`)
fn parse_escape(read, validate, scratch) { match tri!(next_or_eof(read)) { b'"' | b'\\' | b'/' | b'b' | b'f' | b'n' | b'r' | b't' => push, b'u' => parse_unicode_escape(..), _ => error(read, ErrorCode::InvalidEscape) } }
fn parse_unicode_escape(read, validate, scratch) {
    let mut n = tri!(read.decode_hex_escape());
    if validate && n >= 0xDC00 && n <= 0xDFFF { return error(read, ErrorCode::LoneLeadingSurrogateInHexEscape); }
    loop {
        if n < 0xD800 || n > 0xDBFF { push_wtf8_codepoint(n as u32, scratch); return Ok(()); }
        let n1 = n;
        if tri!(peek_or_eof(read)) == b'\\' { read.discard(); } else { return if validate { … } else { push_wtf8_codepoint(n1 as u32, scratch); Ok(()) }; }
        if tri!(peek_or_eof(read)) == b'u' { read.discard(); } else { return if validate { … } else { push_wtf8_codepoint(n1 as u32, scratch); parse_escape(read, validate, scratch) }; }
        let n2 = tri!(read.decode_hex_escape());
        if n2 < 0xDC00 || n2 > 0xDFFF { if validate { … } push_wtf8_codepoint(n1 as u32, scratch); n = n2; continue; }
        let n = ((((n1 - 0xD800) as u32) << 10) | (n2 - 0xDC00) as u32) + 0x1_0000;
        push_wtf8_codepoint(n, scratch); return Ok(());
    } }
``` -/
def stepRaw (st : RawSt) (b : UInt8) : RawStep :=
  match st.esc with
  | .none =>
    if b == 0x22 then .done
    else if b == 0x5c then .next { st with esc := .bs }
    else .next { st with out := b :: st.out }
  | .bs =>
    if b == 0x75 then .next { st with esc := .hex [] none }
    else if Spec.Grammar.isSimpleEscape b then .next { out := Spec.Denote.simpleEscape b :: st.out, esc := .none }
    else .err .InvalidEscape
  | .hex acc lead =>
    let acc' := acc ++ [b]
    if acc'.length < 4 then .next { st with esc := .hex acc' lead }
    else
      match hex4 acc' with
      | none => .err .InvalidEscape
      | some n =>
        match lead with
        | none =>
          if n < 0xD800 || n > 0xDBFF then .next { out := pushWtf8 n st.out, esc := .none }
          else .next { st with esc := .lead1 n }
        | some n1 =>
          if n < 0xDC00 || n > 0xDFFF then
            -- `push n1; n = n2; continue`
            let out := pushWtf8 n1 st.out
            if n < 0xD800 || n > 0xDBFF then .next { out := pushWtf8 n out, esc := .none }
            else .next { out := out, esc := .lead1 n }
          else .next { out := pushWtf8 (0x10000 + (n1 - 0xD800) * 0x400 + (n - 0xDC00)) st.out, esc := .none }
  | .lead1 n1 =>
    if b == 0x5c then .next { st with esc := .lead2 n1 }
    else .again { out := pushWtf8 n1 st.out, esc := .none }
  | .lead2 n1 =>
    if b == 0x75 then .next { st with esc := .hex [] (some n1) }
    else .again { out := pushWtf8 n1 st.out, esc := .bs }

/-- `next_or_eof` / `peek_or_eof`: `None => error(read, ErrorCode::EofWhileParsingString)` -/
def runRaw (env : Env) (st : RawSt) : Bytes → Nat → Res Bytes
  | [], pos => atEof env .EofWhileParsingString pos
  | b :: r, pos =>
    match stepRaw st b with
    | .done => .ok st.out.reverse r (pos + 1)
    | .err c => .err c (pos + 1)
    | .next st' => runRaw env st' r (pos + 1)
    | .again st' =>
      match stepRaw st' b with
      | .done => .ok st'.out.reverse r (pos + 1)
      | .err c => .err c (pos + 1)
      | .next st'' => runRaw env st'' r (pos + 1)
      | .again _ => .err .InvalidEscape (pos + 1)          -- unreachable: `.none` and `.bs` consume their byte

def parseStrRaw (env : Env) (rest : Bytes) (pos : Nat) : Res Bytes := runRaw env {} rest pos

/-! ## sequences: `SeqAccess`, `end_seq`, the visitors' `visit_seq` -/

/-- ```rust
check_recursion! { … }:  self.remaining_depth -= 1; if self.remaining_depth == 0 { return Err(self.peek_error(ErrorCode::RecursionLimitExceeded)); }
``` (`remaining_depth` starts at `Gen.remainingDepthInit`; `t` containers are open) -/
def tooDeep (env : Env) (t : Nat) : Bool := !env.cfg.limitOff && t + 1 ≥ Gen.remainingDepthInit

/-- ```rust
fn has_next_element(seq: &mut SeqAccess<'a, R>) -> Result<bool> {
    let peek = match tri!(seq.de.parse_whitespace()) { Some(b) => b, None => return Err(seq.de.peek_error(ErrorCode::EofWhileParsingList)) };
    if peek == b']' { Ok(false) }
    else if seq.first { seq.first = false; Ok(true) }
    else if peek == b',' { seq.de.eat_char();
        match tri!(seq.de.parse_whitespace()) {
            Some(b']') => Err(seq.de.peek_error(ErrorCode::TrailingComma)),
            Some(_) => Ok(true),
            None => Err(seq.de.peek_error(ErrorCode::EofWhileParsingValue)), } }
    else { Err(seq.de.peek_error(ErrorCode::ExpectedListCommaOrEnd)) } }
``` -/
def hasNextElement (env : Env) (first : Bool) (rest : Bytes) (pos : Nat) : Res Bool :=
  withPeek env .EofWhileParsingList rest pos fun b r p =>
    if b == 0x5d then .ok false (b :: r) p
    else if first then .ok true (b :: r) p
    else if b == 0x2c then
      withPeek env .EofWhileParsingValue r (p + 1) fun c r' q => if c == 0x5d then .err .TrailingComma (q + 1) else .ok true (c :: r') q
    else .err .ExpectedListCommaOrEnd (p + 1)

/-- `next_element_seed(seed)`: `if tri!(has_next_element(self)) { Ok(Some(tri!(seed.deserialize(&mut *self.de)))) } else { Ok(None) }` -/
def nextElement (env : Env) (de : Bytes → Nat → TOut) (first : Bool) (rest : Bytes) (pos : Nat) : Res (Option TVal) :=
  (hasNextElement env first rest pos).bind fun more r p =>
    if more then (de r p).map some else .ok none r p

/-- `Vec`'s visitor (`SeqVisitor`, also `ByteBufVisitor::visit_seq`):
    `while let Some(v) = seq.next_element_seed(seed)? { out.push(v); }` -/
def seqLoop (env : Env) (de : Bytes → Nat → TOut) : Nat → Bool → List TVal → Bytes → Nat → Res (List TVal)
  | 0, _, _, _, _ => .fuel
  | n + 1, first, acc, rest, pos =>
    (nextElement env de first rest pos).bind fun o r p =>
      match o with
      | none => .ok acc.reverse r p
      | some v => seqLoop env de n false (v :: acc) r p

/-- serde's fixed-length `TupleVisitor` / derive's struct `visit_seq`:
    `for (i, s) in …  { match seq.next_element_seed(Seed(s))? { Some(v) => out.push(v), None => return Err(invalid_length(i, …)) } }` -/
def tupleLoop (env : Env) (de : Schema → Bytes → Nat → TOut) : List Schema → Bool → List TVal → Bytes → Nat → Res (List TVal)
  | [], _, acc, rest, pos => .ok acc.reverse rest pos
  | s :: ss, first, acc, rest, pos =>
    (nextElement env (de s) first rest pos).bind fun o r p =>
      match o with
      | none => .raw r p                                   -- invalid_length(i)
      | some v => tupleLoop env de ss false (v :: acc) r p

structure EndState where
  res : Res Unit
  rest : Bytes
  pos : Nat
  peeked : Bool

/-- ```rust
fn end_seq(&mut self) -> Result<()> {
    match tri!(self.parse_whitespace()) {
        Some(b']') => { self.eat_char(); Ok(()) }
        Some(b',') => { self.eat_char();
            match self.parse_whitespace() {
                Ok(Some(b']')) => Err(self.peek_error(ErrorCode::TrailingComma)),
                _ => Err(self.peek_error(ErrorCode::TrailingCharacters)), } }
        Some(_) => Err(self.peek_error(ErrorCode::TrailingCharacters)),
        None => Err(self.peek_error(ErrorCode::EofWhileParsingList)),
    } }
```
with the reader state it leaves behind (`fix_position` runs after it, also when its result is dropped).
The inner `match self.parse_whitespace()` swallows a reader error (`_ =>`). -/
def endSeq (env : Env) (rest : Bytes) (pos : Nat) : EndState :=
  match skipWs rest pos with
  | ([], p) => { res := atEof env .EofWhileParsingList p, rest := [], pos := p, peeked := false }
  | (b :: r, p) =>
    if b == 0x5d then { res := .ok () r (p + 1), rest := r, pos := p + 1, peeked := false }
    else if b == 0x2c then
      match skipWs r (p + 1) with
      | ([], q) => { res := .err .TrailingCharacters q, rest := [], pos := q, peeked := false }
      | (c :: r', q) =>
        { res := .err (if c == 0x5d then .TrailingComma else .TrailingCharacters) (q + 1), rest := c :: r', pos := q, peeked := true }
    else { res := .err .TrailingCharacters (p + 1), rest := b :: r, pos := p, peeked := true }

/-- ```rust
match (ret, self.end_seq()) { (Ok(ret), Ok(())) => Ok(ret), (Err(err), _) | (_, Err(err)) => Err(err) }
…  match value { Ok(value) => Ok(value), Err(err) => Err(self.fix_position(err)) }
``` -/
def closeWith {α : Type} (env : Env) (endFn : Bytes → Nat → EndState) (ret : Res α) : Res α :=
  match ret with
  | .ok a rest pos => (endFn rest pos).res.bind fun _ r p => .ok a r p
  | .raw rest pos => let e := endFn rest pos; .data (errorIdx env e.rest e.pos e.peeked)
  | r => r

/-- ```rust
fn deserialize_seq<V>(self, visitor: V) -> Result<V::Value> {
    let peek = match tri!(self.parse_whitespace()) { Some(b) => b, None => return Err(self.peek_error(ErrorCode::EofWhileParsingValue)) };
    let value = match peek {
        b'[' => { check_recursion! { self.eat_char(); let ret = visitor.visit_seq(SeqAccess::new(self)); }
                  match (ret, self.end_seq()) { (Ok(ret), Ok(())) => Ok(ret), (Err(err), _) | (_, Err(err)) => Err(err) } }
        _ => Err(self.peek_invalid_type(&visitor)),
    };
    match value { Ok(value) => Ok(value), Err(err) => Err(self.fix_position(err)) } }
fn deserialize_tuple / deserialize_tuple_struct: self.deserialize_seq(visitor)
```
`visit` is the visitor's `visit_seq` on a fresh `SeqAccess` (`first = true`). -/
def deSeq (env : Env) (t : Nat) (visit : Bytes → Nat → TOut) (rest : Bytes) (pos : Nat) : TOut :=
  withPeek env .EofWhileParsingValue rest pos fun b r p =>
    if b == 0x5b then
      if tooDeep env t then .err .RecursionLimitExceeded (p + 1)
      else closeWith env (endSeq env) (visit r (p + 1))
    else peekInvalidType env (b :: r) p

/-- ```rust
fn deserialize_bytes<V>(self, visitor: V) -> Result<V::Value> {
    let peek = …;
    let value = match peek {
        b'"' => { self.eat_char(); self.scratch.clear();
            match tri!(self.read.parse_str_raw(&mut self.scratch)) { Reference::Borrowed(b) => visitor.visit_borrowed_bytes(b), Reference::Copied(b) => visitor.visit_bytes(b) } }
        b'[' => self.deserialize_seq(visitor),
        _ => Err(self.peek_invalid_type(&visitor)),
    };
    match value { Ok(value) => Ok(value), Err(err) => Err(self.fix_position(err)) } }
fn deserialize_byte_buf: self.deserialize_bytes(visitor)
```
with `serde_bytes::ByteBufVisitor` (`visit_bytes`, and `visit_seq`: `while let Some(b) = seq.next_element::<u8>()?`). -/
def deBytes (env : Env) (t : Nat) (rest : Bytes) (pos : Nat) : TOut :=
  withPeek env .EofWhileParsingValue rest pos fun b r p =>
    if b == 0x22 then (parseStrRaw env r (p + 1)).map .bytes
    else if b == 0x5b then
      deSeq env t (fun r' p' => (seqLoop env (deNumber env (.int .u8)) (r'.length + 1) true [] r' p').map
        fun ys => .bytes (bytesOfInts ys)) (b :: r) p
    else peekInvalidType env (b :: r) p

/-! ## maps: `MapAccess`, `MapKey`, `end_map` -/

/-- ```rust
fn has_next_key(map: &mut MapAccess<'a, R>) -> Result<bool> {
    let peek = match tri!(map.de.parse_whitespace()) { Some(b) => b, None => return Err(map.de.peek_error(ErrorCode::EofWhileParsingObject)) };
    if peek == b'}' { Ok(false) }
    else if map.first { map.first = false; if peek == b'"' { Ok(true) } else { Err(map.de.peek_error(ErrorCode::KeyMustBeAString)) } }
    else if peek == b',' { map.de.eat_char();
        match tri!(map.de.parse_whitespace()) {
            Some(b'"') => Ok(true),
            Some(b'}') => Err(map.de.peek_error(ErrorCode::TrailingComma)),
            Some(_) => Err(map.de.peek_error(ErrorCode::KeyMustBeAString)),
            None => Err(map.de.peek_error(ErrorCode::EofWhileParsingValue)), } }
    else { Err(map.de.peek_error(ErrorCode::ExpectedObjectCommaOrEnd)) } }
```
on `Ok(true)` the unread input starts with the key's opening quote. -/
def hasNextKey (env : Env) (first : Bool) (rest : Bytes) (pos : Nat) : Res Bool :=
  withPeek env .EofWhileParsingObject rest pos fun b r p =>
    if b == 0x7d then .ok false (b :: r) p
    else if first then (if b == 0x22 then .ok true (b :: r) p else .err .KeyMustBeAString (p + 1))
    else if b == 0x2c then
      withPeek env .EofWhileParsingValue r (p + 1) fun c r' q =>
        if c == 0x22 then .ok true (c :: r') q
        else if c == 0x7d then .err .TrailingComma (q + 1)
        else .err .KeyMustBeAString (q + 1)
    else .err .ExpectedObjectCommaOrEnd (p + 1)

/-- ```rust
fn parse_object_colon(&mut self) -> Result<()> {
    match tri!(self.parse_whitespace()) {
        Some(b':') => { self.eat_char(); Ok(()) }
        Some(_) => Err(self.peek_error(ErrorCode::ExpectedColon)),
        None => Err(self.peek_error(ErrorCode::EofWhileParsingObject)),
    } }
``` -/
def parseObjectColon (env : Env) (rest : Bytes) (pos : Nat) : Res Unit :=
  withPeek env .EofWhileParsingObject rest pos fun b r p => if b == 0x3a then .ok () r (p + 1) else .err .ExpectedColon (p + 1)

/-- ```rust
fn end_map(&mut self) -> Result<()> {
    match tri!(self.parse_whitespace()) {
        Some(b'}') => { self.eat_char(); Ok(()) }
        Some(b',') => Err(self.peek_error(ErrorCode::TrailingComma)),
        Some(_) => Err(self.peek_error(ErrorCode::TrailingCharacters)),
        None => Err(self.peek_error(ErrorCode::EofWhileParsingObject)),
    } }
``` -/
def endMap (env : Env) (rest : Bytes) (pos : Nat) : EndState :=
  match skipWs rest pos with
  | ([], p) => { res := atEof env .EofWhileParsingObject p, rest := [], pos := p, peeked := false }
  | (b :: r, p) =>
    if b == 0x7d then { res := .ok () r (p + 1), rest := r, pos := p + 1, peeked := false }
    else { res := .err (if b == 0x2c then .TrailingComma else .TrailingCharacters) (p + 1), rest := b :: r, pos := p, peeked := true }

/-- `MapKey::deserialize_any` (also `char`, `str`, `string`, `identifier`, … by `forward_to_deserialize_any!`):
```rust
self.de.eat_char(); self.de.scratch.clear();
match tri!(self.de.read.parse_str(&mut self.de.scratch)) { Reference::Borrowed(s) => visitor.visit_borrowed_str(s), Reference::Copied(s) => visitor.visit_str(s) }
```
(no `fix_position`: a visitor error leaves unpositioned). `rest` starts with the peeked quote. -/
def keyStr (env : Env) (visit : Bytes → R) (rest : Bytes) (pos : Nat) : TOut :=
  (parseStr env (rest.drop 1) (pos + 1)).bind fun s r p => ofVisit (visit s) r p

/-- ```rust
// deserialize_numeric_key!($method, $delegate)  — `MapKey::deserialize_number` and the 128-bit methods
self.de.eat_char();
match tri!(self.de.peek()) {
    Some(b'0'..=b'9' | b'-') => {}
    Some(_) => return Err(self.de.error(ErrorCode::ExpectedNumericKey)),
    None => return Err(self.de.peek_error(ErrorCode::EofWhileParsingString)),
}
let value = tri!(self.de.$delegate(visitor));
match tri!(self.de.peek()) {
    Some(b'"') => self.de.eat_char(),
    Some(_) => return Err(self.de.peek_error(ErrorCode::ExpectedDoubleQuote)),
    None => return Err(self.de.peek_error(ErrorCode::EofWhileParsingString)),
}
Ok(value)
``` -/
def keyInt (env : Env) (w : IntTy) (rest : Bytes) (pos : Nat) : TOut :=
  match rest.drop 1 with
  | [] => atEof env .EofWhileParsingString (pos + 1)
  | b :: r =>
    if !(isNumStart b) then .err .ExpectedNumericKey (errorIdx env (b :: r) (pos + 1) true)
    else
      (deInt env w (b :: r) (pos + 1)).bind fun v r' p' =>
        match r' with
        | [] => atEof env .EofWhileParsingString p'
        | c :: r'' => if c == 0x22 then .ok v r'' (p' + 1) else .err .ExpectedDoubleQuote (p' + 1)

def identTrueQ : Bytes := Gen.identTrue ++ [0x22]
def identFalseQ : Bytes := Gen.identFalse ++ [0x22]

/-- ```rust
fn deserialize_bool<V>(self, visitor: V) -> Result<V::Value> {      // MapKey
    self.de.eat_char();
    let peek = match tri!(self.de.peek()) { Some(b) => b, None => return Err(self.de.peek_error(ErrorCode::EofWhileParsingValue)) };
    let value = match peek {
        b't' => { self.de.eat_char(); tri!(self.de.parse_ident(b"rue\"")); visitor.visit_bool(true) }
        b'f' => { self.de.eat_char(); tri!(self.de.parse_ident(b"alse\"")); visitor.visit_bool(false) }
        _ => { // Not a boolean: parse the whole key, from its first byte, so that it can be reported.
            self.de.scratch.clear(); let s = tri!(self.de.read.parse_str(&mut self.de.scratch));
            Err(de::Error::invalid_type(Unexpected::Str(&s), &visitor)) }
    };
    match value { Ok(value) => Ok(value), Err(err) => Err(self.de.fix_position(err)) } }
``` -/
def keyBool (env : Env) (rest : Bytes) (pos : Nat) : TOut :=
  match rest.drop 1 with
  | [] => atEof env .EofWhileParsingValue (pos + 1)
  | b :: r =>
    if b == 0x74 then (parseIdent env identTrueQ r (pos + 2)).bind fun _ r' p' => .ok (.bool true) r' p'
    else if b == 0x66 then (parseIdent env identFalseQ r (pos + 2)).bind fun _ r' p' => .ok (.bool false) r' p'
    else (parseStr env (b :: r) (pos + 1)).bind fun _ r' p' => .data (errorIdx env r' p' false)

/-- identifier of a variant (derive's `__Field` visitor: `visit_str`, first match, else `unknown_variant`) -/
def visitVariantId (names : List Bytes) (s : Bytes) : Except Unit Nat :=
  match nameIndex names s with
  | some i => .ok i
  | none => .error ()

/-- `deserialize_identifier` = `deserialize_str` with the identifier visitor; the index is carried as `.int` -/
def deVariantId (env : Env) (names : List Bytes) (rest : Bytes) (pos : Nat) : TOut :=
  deStr env (fun s => (visitVariantId names s).map fun i => .int i) rest pos

/-- `MapKey::deserialize_enum` = `self.de.deserialize_enum(name, variants, visitor)`; the peeked byte is `"`:
    `visitor.visit_enum(UnitVariantAccess::new(self))`, `variant_seed` = the identifier, `unit_variant()` = `Ok(())` -/
def keyUnitEnum (env : Env) (names : List Bytes) (rest : Bytes) (pos : Nat) : TOut :=
  (deVariantId env names rest pos).bind fun v r p =>
    match v with
    | .int i => .ok (.variant i.toNat .unit) r p
    | _ => .raw r p

/-- a key through `MapKey` for each key kind (the request is the one `KeySeed` issues) -/
def deKey (env : Env) (k : KeyKind) (rest : Bytes) (pos : Nat) : TOut :=
  match k with
  | .string => keyStr env (fun s => .ok (.str s)) rest pos
  | .int w => keyInt env w rest pos
  | .bool => keyBool env rest pos
  | .char => keyStr env visitCharStr rest pos
  | .unitEnum names => keyUnitEnum env names rest pos

/-- the map visitor: `while let Some(k) = map.next_key_seed(KeySeed(k))? { let v = map.next_value_seed(Seed(s))?; out.push((k, v)); }` -/
def mapLoop (env : Env) (k : KeyKind) (de : Bytes → Nat → TOut) :
    Nat → Bool → List (TVal × TVal) → Bytes → Nat → Res (List (TVal × TVal))
  | 0, _, _, _, _ => .fuel
  | n + 1, first, acc, rest, pos =>
    (hasNextKey env first rest pos).bind fun more r p =>
      if !more then .ok acc.reverse r p
      else
        (deKey env k r p).bind fun kv r1 p1 =>
          (parseObjectColon env r1 p1).bind fun _ r2 p2 =>
            (de r2 p2).bind fun v r3 p3 => mapLoop env k de n false ((kv, v) :: acc) r3 p3

/-- ```rust
fn deserialize_map<V>(self, visitor: V) -> Result<V::Value> {
    let peek = …;
    let value = match peek {
        b'{' => { check_recursion! { self.eat_char(); let ret = visitor.visit_map(MapAccess::new(self)); }
                  match (ret, self.end_map()) { (Ok(ret), Ok(())) => Ok(ret), (Err(err), _) | (_, Err(err)) => Err(err) } }
        _ => Err(self.peek_invalid_type(&visitor)),
    };
    match value { Ok(value) => Ok(value), Err(err) => Err(self.fix_position(err)) } }
``` -/
def deMap (env : Env) (t : Nat) (visit : Bytes → Nat → TOut) (rest : Bytes) (pos : Nat) : TOut :=
  withPeek env .EofWhileParsingValue rest pos fun b r p =>
    if b == 0x7b then
      if tooDeep env t then .err .RecursionLimitExceeded (p + 1)
      else closeWith env (endMap env) (visit r (p + 1))
    else peekInvalidType env (b :: r) p

/-! ## structs -/

def fieldNames (fs : List (Bytes × Schema)) : List Bytes := fs.map (·.1)

/-- `deserialize_ignored_any`: `tri!(self.ignore_value()); visitor.visit_unit()` — the machine with target `.ignored` -/
def ignoreValue (env : Env) (rest : Bytes) (pos : Nat) : Res Unit :=
  (machine (ignEnv env) env.flt 0 init rest pos).map fun _ => ()

/-- derive's struct `visit_map`:
```rust
while let Some(key) = map.next_key_seed(FieldId { names, deny })? {       // MapKey::deserialize_identifier → deserialize_any → visit_str
    match key {
        Some(i) => { if slots[i].is_some() { return Err(de::Error::duplicate_field(names[i])); }
                     slots[i] = Some(map.next_value_seed(Seed(&fields[i].1))?); }
        None => { let _: IgnoredAny = map.next_value()?; }                 // unknown field, not denied
    } }
```
(`visit_str` of an unknown name under `deny_unknown_fields` is `unknown_field`). -/
def structLoop (env : Env) (de : Schema → Bytes → Nat → TOut) (fs : List (Bytes × Schema)) (deny : Bool) :
    Nat → Bool → List (Option TVal) → Bytes → Nat → Res (List (Option TVal))
  | 0, _, _, _, _ => .fuel
  | n + 1, first, slots, rest, pos =>
    (hasNextKey env first rest pos).bind fun more r p =>
      if !more then .ok slots r p
      else
        (parseStr env (r.drop 1) (p + 1)).bind fun name r1 p1 =>
          match nameIndex (fieldNames fs) name with
          | some i =>
            (match slots.getD i none with
             | some _ => .raw r1 p1                                           -- duplicate_field
             | none =>
               (parseObjectColon env r1 p1).bind fun _ r2 p2 =>
                 match fs[i]? with
                 | some (_, s) =>
                   (de s r2 p2).bind fun v r3 p3 => structLoop env de fs deny n false (slots.set i (some v)) r3 p3
                 | none => .raw r2 p2)                                        -- not reached: `i` indexes `fs`
          | none =>
            if deny then .raw r1 p1                                           -- unknown_field
            else
              (parseObjectColon env r1 p1).bind fun _ r2 p2 =>
                (ignoreValue env r2 p2).bind fun _ r3 p3 => structLoop env de fs deny n false slots r3 p3

/-- the whole `visit_map`: the loop, then every missing field through `missing_field`
    (`FromValue.finishFields`: an `Option` field is `None`, any other is the `missing field` error) -/
def structVisitMap (env : Env) (de : Schema → Bytes → Nat → TOut) (fs : List (Bytes × Schema)) (deny : Bool)
    (rest : Bytes) (pos : Nat) : TOut :=
  (structLoop env de fs deny (rest.length + 1) true (fs.map fun _ => none) rest pos).bind fun slots r p =>
    match finishFields fs slots with
    | .ok vs => .ok (.struct_ vs) r p
    | .error _ => .raw r p

/-- ```rust
fn deserialize_struct<V>(self, _name, _fields, visitor: V) -> Result<V::Value> {
    let peek = …;
    let value = match peek {
        b'[' => { check_recursion! { self.eat_char(); let ret = visitor.visit_seq(SeqAccess::new(self)); }
                  match (ret, self.end_seq()) { … } }
        b'{' => { check_recursion! { self.eat_char(); let ret = visitor.visit_map(MapAccess::new(self)); }
                  match (ret, self.end_map()) { … } }
        _ => Err(self.peek_invalid_type(&visitor)),
    };
    match value { Ok(value) => Ok(value), Err(err) => Err(self.fix_position(err)) } }
``` -/
def deStruct (env : Env) (t : Nat) (de : Nat → Schema → Bytes → Nat → TOut) (fs : List (Bytes × Schema)) (deny : Bool)
    (rest : Bytes) (pos : Nat) : TOut :=
  withPeek env .EofWhileParsingValue rest pos fun b r p =>
    if b == 0x5b then
      if tooDeep env t then .err .RecursionLimitExceeded (p + 1)
      else closeWith env (endSeq env)
        ((tupleLoop env (de (t + 1)) (fs.map (·.2)) true [] r (p + 1)).map .struct_)
    else if b == 0x7b then
      if tooDeep env t then .err .RecursionLimitExceeded (p + 1)
      else closeWith env (endMap env) (structVisitMap env (de (t + 1)) fs deny r (p + 1))
    else peekInvalidType env (b :: r) p

/-! ## enums: `VariantAccess`, `UnitVariantAccess` -/

def variantNames (vs : List (Bytes × VariantShape)) : List Bytes := vs.map (·.1)

/-- `impl VariantAccess for VariantAccess<R>` (the `{ "Variant": payload }` form):
```rust
fn unit_variant(self) -> Result<()> { de::Deserialize::deserialize(self.de) }              // `()`: deserialize_unit
fn newtype_variant_seed<T>(self, seed: T) -> Result<T::Value> { seed.deserialize(self.de) }
fn tuple_variant<V>(self, _len: usize, visitor: V) -> Result<V::Value> { de::Deserializer::deserialize_seq(self.de, visitor) }
fn struct_variant<V>(self, fields, visitor: V) -> Result<V::Value> { de::Deserializer::deserialize_struct(self.de, "", fields, visitor) }
``` -/
def dePayload (env : Env) (t : Nat) (de : Nat → Schema → Bytes → Nat → TOut) (sh : VariantShape) (rest : Bytes) (pos : Nat) : TOut :=
  match sh with
  | .unit => deUnit env rest pos
  | .newtype s => de t s rest pos
  | .tuple ss => deSeq env t (fun r p => (tupleLoop env (de (t + 1)) ss true [] r p).map .seq) rest pos
  | .struct_ fs => deStruct env t de fs false rest pos

/-- ```rust
fn deserialize_enum<V>(self, _name: &str, _variants, visitor: V) -> Result<V::Value> {
    match tri!(self.parse_whitespace()) {
        Some(b'{') => {
            check_recursion! { self.eat_char(); let ret = visitor.visit_enum(VariantAccess::new(self)); }
            let value = tri!(ret);
            match tri!(self.parse_whitespace()) {
                Some(b'}') => { self.eat_char(); Ok(value) }
                Some(_) => Err(self.error(ErrorCode::ExpectedSomeValue)),
                None => Err(self.error(ErrorCode::EofWhileParsingObject)),
            } }
        Some(b'"') => visitor.visit_enum(UnitVariantAccess::new(self)),
        Some(_) => Err(self.peek_error(ErrorCode::ExpectedSomeValue)),
        None => Err(self.peek_error(ErrorCode::EofWhileParsingValue)),
    } }
// VariantAccess::variant_seed:      let val = tri!(seed.deserialize(&mut *self.de)); tri!(self.de.parse_object_colon()); Ok((val, self))
// UnitVariantAccess::variant_seed:  let variant = tri!(seed.deserialize(&mut *self.de)); Ok((variant, self))
// UnitVariantAccess: unit_variant = Ok(()); newtype / tuple / struct = Err(invalid_type(Unexpected::UnitVariant, …))
```
(no `fix_position` here). `de d` deserializes a schema with `d` typed containers open. -/
def deEnum (env : Env) (t : Nat) (de : Nat → Schema → Bytes → Nat → TOut) (vs : List (Bytes × VariantShape))
    (rest : Bytes) (pos : Nat) : TOut :=
  withPeek env .EofWhileParsingValue rest pos fun b r p =>
    if b == 0x7b then
      if tooDeep env t then .err .RecursionLimitExceeded (p + 1)
      else
        (deVariantId env (variantNames vs) r (p + 1)).bind fun iv r1 p1 =>
          let i := match iv with | .int i => i.toNat | _ => 0
          (parseObjectColon env r1 p1).bind fun _ r2 p2 =>
            match vs[i]? with
            | none => .raw r2 p2                                              -- not reached: `i` indexes `vs`
            | some (_, sh) =>
              (dePayload env (t + 1) de sh r2 p2).bind fun payload r3 p3 =>
                withPeek env .EofWhileParsingObject r3 p3 fun c r4 q =>
                  if c == 0x7d then .ok (.variant i payload) r4 (q + 1)
                  else .err .ExpectedSomeValue (errorIdx env (c :: r4) q true)
    else if b == 0x22 then
      (deVariantId env (variantNames vs) (b :: r) p).bind fun iv r1 p1 =>
        let i := match iv with | .int i => i.toNat | _ => 0
        match vs[i]? with
        | some (_, VariantShape.unit) => .ok (.variant i .unit) r1 p1
        | _ => .raw r1 p1
    else .err .ExpectedSomeValue (p + 1)

/-! ## the entry points over the typed universe -/

mutual
def Schema.size : Schema → Nat
  | .option s | .newtype s | .seq s | .map _ s => Schema.size s + 1
  | .tuple ss => Schema.sizeList ss + 1
  | .struct_ fs _ => Schema.sizeFields fs + 1
  | .enum_ vs => Schema.sizeVariants vs + 1
  | _ => 1
def Schema.sizeList : List Schema → Nat
  | [] => 0
  | s :: r => Schema.size s + Schema.sizeList r
def Schema.sizeFields : List (Bytes × Schema) → Nat
  | [] => 0
  | (_, s) :: r => Schema.size s + Schema.sizeFields r
def Schema.sizeVariants : List (Bytes × VariantShape) → Nat
  | [] => 0
  | (_, sh) :: r => VariantShape.size sh + Schema.sizeVariants r
def VariantShape.size : VariantShape → Nat
  | .unit => 1
  | .newtype s => Schema.size s + 1
  | .tuple ss => Schema.sizeList ss + 1
  | .struct_ fs => Schema.sizeFields fs + 1
end

mutual
/-- the schema has a target whose number literals are converted to floats while parsing (`f64`, `f32`, `Value`):
    the sites of the inherent `NumberOutOfRange` exception of C10 -/
def Schema.rangeSite : Schema → Bool
  | .f64 | .f32 | .any => true
  | .option s | .newtype s | .seq s | .map _ s => Schema.rangeSite s
  | .tuple ss => Schema.rangeSiteList ss
  | .struct_ fs _ => Schema.rangeSiteFields fs
  | .enum_ vs => Schema.rangeSiteVariants vs
  | _ => false
def Schema.rangeSiteList : List Schema → Bool
  | [] => false
  | s :: r => Schema.rangeSite s || Schema.rangeSiteList r
def Schema.rangeSiteFields : List (Bytes × Schema) → Bool
  | [] => false
  | (_, s) :: r => Schema.rangeSite s || Schema.rangeSiteFields r
def Schema.rangeSiteVariants : List (Bytes × VariantShape) → Bool
  | [] => false
  | (_, sh) :: r => VariantShape.rangeSite sh || Schema.rangeSiteVariants r
def VariantShape.rangeSite : VariantShape → Bool
  | .unit => false
  | .newtype s => Schema.rangeSite s
  | .tuple ss => Schema.rangeSiteList ss
  | .struct_ fs => Schema.rangeSiteFields fs
end

/-- `seed.deserialize(&mut de)` for the universal seed of schema `s`, with `t` typed containers open,
    on the unread input `rest` at absolute index `pos`. One row per `deserialize_*` (DESIGN App. A). -/
def deTyped (env : Env) : Nat → Nat → Schema → Bytes → Nat → TOut
  | 0, _, _, _, _ => .fuel
  | f + 1, t, s, rest, pos =>
    match s with
    | .bool => deBool env rest pos
    | .int w => deInt env w rest pos
    | .f64 => deNumber env .f64 rest pos
    | .f32 => deNumber env .f32 rest pos
    /- deserialize_char → deserialize_str, `CharVisitor::visit_str` -/
    | .char => deStr env visitCharStr rest pos
    /- deserialize_string → deserialize_str, `StringVisitor::visit_str` -/
    | .string => deStr env (fun x => .ok (.str x)) rest pos
    | .bytes => deBytes env t rest pos
    /- fn deserialize_option: match tri!(self.parse_whitespace()) {
         Some(b'n') => { self.eat_char(); tri!(self.parse_ident(b"ull")); visitor.visit_none() }
         _ => visitor.visit_some(self) } -/
    | .option s' =>
      (match skipWs rest pos with
       | ([], p) => if env.flt then .io else (deTyped env f t s' [] p).map .some
       | (b :: r, p) =>
         if b == 0x6e then (parseIdent env Gen.identNull r (p + 1)).bind fun _ r' p' => .ok .none r' p'
         else (deTyped env f t s' (b :: r) p).map .some)
    | .unit => deUnit env rest pos
    | .unitStruct => deUnit env rest pos
    /- fn deserialize_newtype_struct: visitor.visit_newtype_struct(self)  (the name is not the raw-value token) -/
    | .newtype s' => deTyped env f t s' rest pos
    | .seq s' =>
      deSeq env t (fun r p => (seqLoop env (deTyped env f (t + 1) s') (r.length + 1) true [] r p).map .seq) rest pos
    | .tuple ss =>
      deSeq env t (fun r p => (tupleLoop env (deTyped env f (t + 1)) ss true [] r p).map .seq) rest pos
    | .map k s' =>
      deMap env t (fun r p => (mapLoop env k (deTyped env f (t + 1) s') (r.length + 1) true [] r p).map .map) rest pos
    | .struct_ fs deny => deStruct env t (deTyped env f) fs deny rest pos
    | .enum_ vs => deEnum env t (deTyped env f) vs rest pos
    /- fn deserialize_ignored_any: tri!(self.ignore_value()); visitor.visit_unit() -/
    | .ignored => (ignoreValue env rest pos).map fun _ => .ignored
    /- Value::deserialize: deserializer.deserialize_any(ValueVisitor) — the machine's `Value` target, sharing the depth budget -/
    | .any =>
      (machine (valEnv env) env.flt t { mode := .val .top, stack := padStack t } rest pos).map .any

/-- outcome of a whole document -/
inductive Top where
  | ok (v : TVal)
  | err (c : Code) (idx : Nat)
  /-- visitor error; `none`: never positioned (reported at line 0, column 0) -/
  | data (idx : Option Nat)
  | io
  | fuel

/-- `seed.deserialize(&mut de)` followed by
```rust
pub fn end(&mut self) -> Result<()> {
    match tri!(self.parse_whitespace()) { Some(_) => Err(self.peek_error(ErrorCode::TrailingCharacters)), None => Ok(()) } }
``` -/
def deTypedTop (env : Env) (s : Schema) (bs : Bytes) : Top :=
  match deTyped env (Schema.size s + 1) 0 s bs 0 with
  | .ok v rest pos =>
    (match skipWs rest pos with
     | ([], _) => if env.flt then .io else .ok v
     | (_ :: _, p) => .err .TrailingCharacters (p + 1))
  | .err c i => .err c i
  | .data i => .data (some i)
  | .raw _ _ => .data none
  | .io => .io
  | .fuel => .fuel

end SJ.Model.Typed
