import SJ.Spec.Schema
import SJ.Spec.Ieee
import SJ.Spec.Number
import SJ.Model.Num
/-!
# `src/value/de.rs`: interpreting a `Value` tree as a type, twice

`fromValue` transcribes the OWNED `impl<'de> serde::Deserializer<'de> for Value` (with
`visit_array`, `SeqDeserializer`, `MapDeserializer`, `Map::deserialize_any/enum`, `EnumDeserializer`,
`VariantDeserializer`), `fromValueRef` the BORROWED `impl<'de> serde::Deserializer<'de> for &'de Value`
(with `visit_array_ref`, `SeqRefDeserializer`, `MapRefDeserializer`, `EnumRefDeserializer`,
`VariantRefDeserializer`). They are separate code in the crate and separate transcriptions here
(`SJ.Props.C16` proves them equal). Shared, as in the crate: `Number`'s `Deserializer` impl
(`src/number.rs`) and `MapKeyDeserializer` (one struct, `Cow::Owned` / `Cow::Borrowed`).

The requests come from the universal seed over `Schema` (`harness/src/schema.rs`), whose visitors are
serde's own for the leaves and `serde_derive`'s shapes for the containers; they are transcribed in the
first part of this file ("visitors") and shared by both sides, as they are in Rust.

Errors carry no payload: property C16 compares success/failure and results only.

External code is a parameter (`Ext`): what `ryu` and `f64::to_string` print (needed by
`Number::deserialize_any` under `arbitrary_precision` only). `str::parse::<iN/uN/f64/f32>` and the
`as` casts are modelled by their documented semantics (exact / correctly rounded).
-/
namespace SJ.Model.FromValue
open SJ SJ.Spec.Ieee SJ.Spec.Grammar

structure Cfg where
  po : Bool := false      -- preserve_order (object order is already the iteration order of `JV.obj`)
  fr : Bool := false      -- float_roundtrip (no effect on this side)
  ap : Bool := false      -- arbitrary_precision
deriving Repr, DecidableEq, Inhabited

/-- external printers: for a number literal, what `ryu::Buffer::format_finite` and `f64::to_string`
    print for `lit.parse::<f64>()` -/
structure Ext where
  prints : Bytes → Option (Bytes × Bytes) := fun _ => none

abbrev R := Except Unit TVal
def fail {α : Type} : Except Unit α := .error ()

/-! ## binary32 rounding (f32 targets are outside the claim of C16 but are run) -/

/-- `x as f32` (Spec.Ieee: round once, ties to even, overflow to ±inf) -/
def inf32 (neg : Bool) : UInt32 := F32.inf neg
def f64ToF32 (b : UInt64) : UInt32 := F64.toF32 b

/-- `i as f64` / `i as f32` for an integer -/
def intToF64 (i : Int) : UInt64 := (roundNE64 (i < 0) i.natAbs 1).getD (F64.inf (i < 0))
def intToF32 (i : Int) : UInt32 := (roundNE32 (i < 0) i.natAbs 1).getD (inf32 (i < 0))

/-! ## number literals (`arbitrary_precision`) through `str::parse` -/

/-- `str::parse::<iN>()` / `::<uN>()`: an optional `+` (or `-` for signed types), at least one
    digit, nothing else, and the value in range -/
def rangeChecked (w : IntTy) (v : Int) : Option Int := if w.inRange v then some v else none

/-- the sign step of `from_str_radix`: `[b'+', rest @ ..] => (true, rest)`,
    `[b'-', rest @ ..] if is_signed_ty => (false, rest)`, `_ => (true, src)`; returns (negative, digits) -/
def signSplit (w : IntTy) (s : Bytes) : Bool × Bytes :=
  match s with
  | c :: r => if c == 0x2b then (false, r) else if c == 0x2d && w.signed then (true, r) else (false, s)
  | [] => (false, [])

def parseDigits (w : IntTy) (neg : Bool) (ds : Bytes) : Option Int :=
  if ds.isEmpty || !ds.all isDigit then none
  else rangeChecked w (if neg then -(Model.Num.natOfDigits ds : Int) else Model.Num.natOfDigits ds)

def rustParseInt (w : IntTy) (s : Bytes) : Option Int :=
  parseDigits w (signSplit w s).1 (signSplit w s).2

/-- exponent of a literal: the digits after `e`/`E` with optional sign -/
def litExp : Bytes → Int
  | [] => 0
  | _ :: r => match r with
    | s :: ds =>
      if s == 0x2d then -(Model.Num.natOfDigits ds : Int)
      else if s == 0x2b then Model.Num.natOfDigits ds
      else Model.Num.natOfDigits (s :: ds)
    | [] => 0

/-- a JSON number literal as `(negative, numerator digits, decimal exponent)`:
    value = ± digits · 10^exp -/
def litParts (s : Bytes) : Bool × Nat × Int :=
  let p := Spec.Number.splitNumber s
  let fracDigits := p.frac.drop 1
  (p.minus, Model.Num.natOfDigits (p.int ++ fracDigits), litExp p.exp - fracDigits.length)

/-- number of decimal digits (for the magnitude guard only) -/
def ndigits (n : Nat) : Nat := (Spec.Number.natDigits n).length

/-- `(neg, num, den)` of a literal, or its obvious fate when the exponent is astronomically large
    (guard against computing 10^huge; literals of the correspondence stay far below it) -/
def litRat (s : Bytes) : Bool × Option (Nat × Nat) :=
  let (neg, m, e) := litParts s
  if m == 0 then (neg, some (0, 1))
  else if e > 5000 then (neg, none)                         -- overflow for sure
  else if e < -5000 - (ndigits m : Int) then (neg, some (0, 1))   -- underflow to zero for sure
  else if e ≥ 0 then (neg, some (m * 10 ^ e.toNat, 1)) else (neg, some (m, 10 ^ (-e).toNat))

/-- `str::parse::<f64>()` of a JSON number literal: correctly rounded, overflow gives ±inf -/
def rustParseF64 (s : Bytes) : UInt64 :=
  match litRat s with
  | (neg, none) => F64.inf neg
  | (neg, some (n, d)) => (roundNE64 neg n d).getD (F64.inf neg)

/-- `str::parse::<f32>()` -/
def rustParseF32 (s : Bytes) : UInt32 :=
  match litRat s with
  | (neg, none) => inf32 neg
  | (neg, some (n, d)) => (roundNE32 neg n d).getD (inf32 neg)

/-! ## visitors (serde's / serde_derive's — the same objects on the owned and the borrowed side) -/

/-- serde `impl_deserialize_num!` integer `PrimitiveVisitor`: `visit_i8 … visit_u64` (plus
    `visit_i128/u128` on the 128-bit targets) convert with a range check (`int_to_int!`,
    `int_to_uint!`, `uint_to_self!`, `num_128!`) -/
def visitInt (w : IntTy) (n : Int) : R := if w.inRange n then .ok (.int n) else fail

/-- code points of a (valid) UTF-8 string -/
def utf8Chars : Bytes → List Nat
  | [] => []
  | b :: r =>
    let n := b.toNat
    if n < 0x80 then n :: utf8Chars r
    else if n < 0xE0 then
      match r with
      | c1 :: r' => ((n % 32) * 64 + c1.toNat % 64) :: utf8Chars r'
      | _ => [n]
    else if n < 0xF0 then
      match r with
      | c1 :: c2 :: r' => ((n % 16) * 4096 + (c1.toNat % 64) * 64 + c2.toNat % 64) :: utf8Chars r'
      | _ => [n]
    else
      match r with
      | c1 :: c2 :: c3 :: r' =>
        ((n % 8) * 262144 + (c1.toNat % 64) * 4096 + (c2.toNat % 64) * 64 + c3.toNat % 64) :: utf8Chars r'
      | _ => [n]

/-- serde `CharVisitor::visit_str`: `match (iter.next(), iter.next()) { (Some(c), None) => Ok(c), _ => Err }` -/
def visitCharStr (s : Bytes) : R :=
  match utf8Chars s with
  | [c] => .ok (.char c)
  | _ => fail

/-- `serde::__private::de::missing_field`: `deserialize_option` answers `visit_none`, every other
    request fails with `missing field` -/
def missingField : Schema → R
  | .option _ => .ok .none
  | _ => fail

/-- index of a name in a `FIELDS` / `VARIANTS` list (derive's `__Field` visitor: first match) -/
def nameIndex : List Bytes → Bytes → Option Nat
  | [], _ => none
  | n :: r, k => if n == k then some 0 else (nameIndex r k).map (· + 1)

/-- `Vec`'s visitor: `while let Some(v) = seq.next_element_seed(seed)? { … }`; returns the values and
    what the `SeqAccess` has left (nothing) -/
def seqAll (de : JV → R) : List JV → Except Unit (List TVal × List JV)
  | [] => .ok ([], [])
  | x :: xs =>
    match de x with
    | .error e => .error e
    | .ok y =>
      match seqAll de xs with
      | .error e => .error e
      | .ok (ys, rest) => .ok (y :: ys, rest)

/-- `serde_bytes::ByteBufVisitor::visit_seq`: `while let Some(b) = seq.next_element::<u8>()?` -/
def bytesOfInts : List TVal → Bytes
  | [] => []
  | .int n :: r => UInt8.ofNat n.toNat :: bytesOfInts r
  | _ :: r => bytesOfInts r

/-- a map visitor: `while let Some(k) = map.next_key_seed(kseed)? { let v = map.next_value_seed(vseed)?; … }` -/
def mapAll (keyDe : Bytes → R) (valDe : JV → R) : List (Bytes × JV) → Except Unit (List (TVal × TVal))
  | [] => .ok []
  | (k, v) :: r =>
    match keyDe k with
    | .error e => .error e
    | .ok a =>
      match valDe v with
      | .error e => .error e
      | .ok b =>
        match mapAll keyDe valDe r with
        | .error e => .error e
        | .ok rest => .ok ((a, b) :: rest)

/-- derive's struct `visit_map` loop. `look k v` = the index of the field named `k` and the result of
    `map.next_value_seed(field seed)` on `v`, or `none` for an unknown key (`__ignore`: the value is
    read as `IgnoredAny`, which both `Value` deserializers accept by `visit_unit`; with
    `deny_unknown_fields` the identifier visitor fails instead). A second value for a field is
    `duplicate_field`. -/
def structMapLoop (look : Bytes → JV → Option (Nat × R)) (deny : Bool) :
    List (Bytes × JV) → List (Option TVal) → Except Unit (List (Option TVal))
  | [], slots => .ok slots
  | (k, v) :: rest, slots =>
    match look k v with
    | some (i, r) =>
      match slots.getD i none with
      | some _ => fail
      | none =>
        match r with
        | .error e => .error e
        | .ok t => structMapLoop look deny rest (slots.set i (some t))
    | none => if deny then fail else structMapLoop look deny rest slots

/-- after the loop: every field is its slot or `missing_field` -/
def finishFields : List (Bytes × Schema) → List (Option TVal) → Except Unit (List TVal)
  | [], _ => .ok []
  | (_, s) :: fs, slots =>
    match (match slots.headD none with | some t => (.ok t : R) | none => missingField s) with
    | .error e => .error e
    | .ok t =>
      match finishFields fs slots.tail with
      | .error e => .error e
      | .ok ts => .ok (t :: ts)

/-- derive's struct `visit_map`, given the per-key lookup -/
def structFromMap (look : Bytes → JV → Option (Nat × R)) (fields : List (Bytes × Schema)) (deny : Bool)
    (kvs : List (Bytes × JV)) : R :=
  match structMapLoop look deny kvs (fields.map fun _ => none) with
  | .error e => .error e
  | .ok slots => (finishFields fields slots).map .struct_

/-! ## `src/number.rs`: `impl Deserializer for Number` / `for &Number` (one macro, both impls) -/

/-- the literal a `Number` holds under `arbitrary_precision` (`Number::from(u64/i64)` store `itoa`'s text) -/
def litOf : Num → Option Bytes
  | .lit s => some s
  | .pos n => some (Spec.Number.natDigits n)
  | .neg i => some (Spec.Number.decimal i)
  | .float _ => none

/-- integer target `w` on a number.
```rust
// not arbitrary_precision: deserialize_number!($deserialize => $visit) { self.deserialize_any(visitor) }
match self.n { N::PosInt(u) => visitor.visit_u64(u), N::NegInt(i) => visitor.visit_i64(i), N::Float(f) => visitor.visit_f64(f) }
// arbitrary_precision:
visitor.$visit(tri!(self.n.parse().map_err(|_| invalid_number())))
``` -/
def numberInt (cfg : Cfg) (w : IntTy) (n : Num) : R :=
  if cfg.ap then
    match litOf n with
    | some s => match rustParseInt w s with
      | some x => .ok (.int x)            -- visit_iN of the target's own type: `num_self!`
      | none => fail
    | none => fail
  else
    match n with
    | .pos u => visitInt w u             -- visit_u64
    | .neg i => visitInt w i             -- visit_i64
    | .float _ => fail                   -- visit_f64: not implemented by integer visitors
    | .lit _ => fail

/-- `f64` target on a number (serde's float visitor: `visit_f64` itself, integers `as f64`) -/
def numberF64 (cfg : Cfg) (n : Num) : R :=
  if cfg.ap then
    match litOf n with
    | some s => .ok (.f64 (rustParseF64 s))      -- visitor.visit_f64(self.n.parse()?)
    | none => fail
  else
    match n with
    | .pos u => .ok (.f64 (intToF64 u))          -- visit_u64: `v as f64`
    | .neg i => .ok (.f64 (intToF64 i))          -- visit_i64
    | .float b => .ok (.f64 b)                   -- visit_f64
    | .lit _ => fail

/-- `f32` target on a number -/
def numberF32 (cfg : Cfg) (n : Num) : R :=
  if cfg.ap then
    match litOf n with
    | some s => .ok (.f32 (rustParseF32 s))      -- visitor.visit_f32(self.n.parse()?)
    | none => fail
  else
    match n with
    | .pos u => .ok (.f32 (intToF32 u))          -- visit_u64: `v as f32`
    | .neg i => .ok (.f32 (intToF32 i))
    | .float b => .ok (.f32 (f64ToF32 b))        -- visit_f64: `v as f32`
    | .lit _ => fail

/-- `Number::deserialize_any` with `Value`'s visitor (the `any` target): the number the visitor
    rebuilds, `none` when it yields `Value::Null` (`Number::from_f64` of a non-finite float).
```rust
// not arbitrary_precision
N::PosInt(u) => visitor.visit_u64(u)  // Value::Number(u.into())
N::NegInt(i) => visitor.visit_i64(i)
N::Float(f) => visitor.visit_f64(f)   // Number::from_f64(f).map_or(Value::Null, Value::Number)
// arbitrary_precision
if let Some(u) = self.as_u64() { return visitor.visit_u64(u); }
else if let Some(i) = self.as_i64() { return visitor.visit_i64(i); }
else if let Some(u) = self.as_u128() { return visitor.visit_u128(u); }
else if let Some(i) = self.as_i128() { return visitor.visit_i128(i); }
else if let Some(f) = self.as_f64() {
    if ryu::Buffer::new().format_finite(f) == self.n || f.to_string() == self.n { return visitor.visit_f64(f); }
}
visitor.visit_map(NumberDeserializer { number: Some(self.n) })   // KeyClass::Number: the literal, verbatim
``` -/
def numberAny (cfg : Cfg) (ext : Ext) (n : Num) : Option Num :=
  if cfg.ap then
    match litOf n with
    | none => some n
    | some s =>
      match rustParseInt .u64 s with
      | some u => some (.lit (Spec.Number.decimal u))
      | none =>
      match rustParseInt .i64 s with
      | some i => some (.lit (Spec.Number.decimal i))
      | none =>
      match rustParseInt .u128 s with
      | some u => some (.lit (Spec.Number.decimal u))
      | none =>
      match rustParseInt .i128 s with
      | some i => some (.lit (Spec.Number.decimal i))
      | none =>
        if F64.isFinite (rustParseF64 s) then
          match ext.prints s with
          | some (ryu, disp) => if ryu == s || disp == s then some (.lit ryu) else some (.lit s)
          | none => some (.lit s)
        else some (.lit s)
  else
    match n with
    | .float b => if F64.isFinite b then some n else none
    | _ => some n

/-! ## `MapKeyDeserializer` (value/de.rs) — one struct for both sides -/

/-- `ParserNumber` as far as integer visitors can tell (`F64` is rejected by all of them) -/
inductive PN where
  | u64 (n : Nat)
  | i64 (n : Int)
deriving Repr, DecidableEq

def toI64 (n : Nat) : Int := if n < 2 ^ 63 then n else (n : Int) - 2 ^ 64
def wrappingNeg64 (x : Int) : Int := if x == -(2 : Int) ^ 63 then x else -x

/-- de.rs `parse_number(positive, significand)` at the end of the digits.
```rust
match peek_or_null { b'.' => F64(parse_decimal..), b'e' | b'E' => F64(parse_exponent..),
  _ => if positive { U64(significand) } else { let neg = (significand as i64).wrapping_neg();
         if neg >= 0 { F64(-(significand as f64)) } else { I64(neg) } } }
```
`none` = an error or an `F64` (which every integer visitor rejects). -/
def keyParseNumber (positive : Bool) (sig : Nat) (rest : Bytes) : Option (PN × Bytes) :=
  match rest with
  | c :: _ =>
    if c == 0x2e || c == 0x65 || c == 0x45 then none
    else if positive then some (.u64 sig, rest)
    else
      let neg := wrappingNeg64 (toI64 sig)
      if neg ≥ 0 then none else some (.i64 neg, rest)
  | [] =>
    if positive then some (.u64 sig, rest)
    else
      let neg := wrappingNeg64 (toI64 sig)
      if neg ≥ 0 then none else some (.i64 neg, rest)

/-- the digit loop of de.rs `parse_integer` (`overflow!(significand * 10 + digit, u64::MAX)` switches to
    `parse_long_integer`, an `F64` or an error) -/
def keyDigits (positive : Bool) : Nat → Bytes → Option (PN × Bytes)
  | sig, [] => keyParseNumber positive sig []
  | sig, c :: r =>
    if isDigit c then
      if Model.Num.overflowMacro sig (Model.Num.dig c) Model.Num.u64Max then none
      else keyDigits positive (sig * 10 + Model.Num.dig c) r
    else keyParseNumber positive sig (c :: r)

/-- de.rs `parse_integer(positive)` -/
def keyParseInteger (positive : Bool) : Bytes → Option (PN × Bytes)
  | [] => none                                            -- EofWhileParsingValue
  | c :: r =>
    if c == 0x30 then
      match r with
      | d :: _ => if isDigit d then none else keyParseNumber positive 0 r     -- "only one leading 0"
      | [] => keyParseNumber positive 0 r
    else if isDigit19 c then keyDigits positive (Model.Num.dig c) r
    else none                                             -- InvalidNumber

/-- de.rs `scan_integer128`: `0` not followed by a digit, or `[1-9][0-9]*` -/
def scanInteger128 : Bytes → Option (Bytes × Bytes)
  | [] => none
  | c :: r =>
    if c == 0x30 then
      match r with
      | d :: _ => if isDigit d then none else some ([c], r)
      | [] => some ([c], r)
    else if isDigit19 c then some (c :: r.takeWhile isDigit, r.dropWhile isDigit)
    else none

/-- `deserialize_numeric_key!` on the key text.
```rust
let mut de = crate::Deserializer::from_str(&self.key);
match tri!(de.peek()) { Some(b'0'..=b'9' | b'-') => {} _ => return Err(ExpectedNumericKey) }
let number = tri!(de.$using(visitor));       // deserialize_number | do_deserialize_i128 | do_deserialize_u128
if tri!(de.peek()).is_some() { return Err(ExpectedNumericKey); }
``` -/
def keyInt (w : IntTy) (key : Bytes) : R :=
  match key with
  | [] => fail
  | c :: r =>
    if !(isDigit c || c == 0x2d) then fail else
    match w with
    | .i128 =>
      -- do_deserialize_i128: optional '-', scan_integer128, buf.parse::<i128>(), visit_i128
      let (neg, body) := if c == 0x2d then (true, r) else (false, key)
      match scanInteger128 body with
      | none => fail
      | some (ds, rest) =>
        match rustParseInt .i128 (if neg then 0x2d :: ds else ds) with
        | none => fail                                     -- NumberOutOfRange
        | some x => if rest.isEmpty then .ok (.int x) else fail
    | .u128 =>
      -- do_deserialize_u128: '-' is NumberOutOfRange
      if c == 0x2d then fail else
      match scanInteger128 key with
      | none => fail
      | some (ds, rest) =>
        match rustParseInt .u128 ds with
        | none => fail
        | some x => if rest.isEmpty then .ok (.int x) else fail
    | _ =>
      -- deserialize_number: b'-' => { eat_char; parse_integer(false) }, b'0'..=b'9' => parse_integer(true); `.visit(visitor)`
      match (if c == 0x2d then keyParseInteger false r else keyParseInteger true key) with
      | none => fail
      | some (pn, rest) =>
        match (match pn with | .u64 n => visitInt w n | .i64 n => visitInt w n) with
        | .error e => .error e
        | .ok t => if rest.isEmpty then .ok t else fail

def strTrue : Bytes := [0x74, 0x72, 0x75, 0x65]
def strFalse : Bytes := [0x66, 0x61, 0x6c, 0x73, 0x65]

/-- a key through `MapKeyDeserializer` for each key kind.
* `string`: `deserialize_string` is forwarded to `deserialize_any` =
  `BorrowedCowStrDeserializer::new(self.key).deserialize_any`: `visit_borrowed_str` / `visit_string`;
* `int w`: `deserialize_numeric_key!`;
* `bool`: `if self.key == "true" { visit_bool(true) } else if self.key == "false" { visit_bool(false) } else { Err(invalid_type) }`;
* `char`: forwarded to `deserialize_any`, `CharVisitor::visit_str`;
* `unitEnum`: `self.key.into_deserializer().deserialize_enum(..)`: the identifier by `visit_str`, then `unit_variant()` of a unit-only access. -/
def keyDe (k : KeyKind) (key : Bytes) : R :=
  match k with
  | .string => .ok (.str key)
  | .int w => keyInt w key
  | .bool => if key == strTrue then .ok (.bool true) else if key == strFalse then .ok (.bool false) else fail
  | .char => visitCharStr key
  | .unitEnum names =>
    match nameIndex names key with
    | some i => .ok (.variant i .unit)
    | none => fail                                         -- unknown_variant

/-! ## representation invariant of `Number`: a `Float` is finite (`Number::from_f64` refuses the rest) -/

mutual
def finiteFloats : JV → Bool
  | .num (.float b) => Spec.Ieee.F64.isFinite b
  | .arr xs => finiteFloatsList xs
  | .obj kvs => finiteFloatsMembers kvs
  | _ => true
def finiteFloatsList : List JV → Bool
  | [] => true
  | x :: xs => finiteFloats x && finiteFloatsList xs
def finiteFloatsMembers : List (Bytes × JV) → Bool
  | [] => true
  | (_, v) :: r => finiteFloats v && finiteFloatsMembers r
end

/-! ## OWNED: `impl<'de> serde::Deserializer<'de> for Value` -/

/-- `visit_array`:
```rust
let len = array.len();
let mut deserializer = SeqDeserializer::new(array);
let seq = tri!(visitor.visit_seq(&mut deserializer));
let remaining = deserializer.iter.len();
if remaining == 0 { Ok(seq) } else { Err(invalid_length(len, &"fewer elements in array")) }
```
The argument is what the visitor's `visit_seq` returns: its values and what it left in the iterator. -/
def visitArray (r : Except Unit (List TVal × List JV)) (wrap : List TVal → TVal) : R :=
  match r with
  | .error e => .error e
  | .ok (ys, remaining) => if remaining.isEmpty then .ok (wrap ys) else fail

/-- integer request on an owned `Value`: `deserialize_number!`
```rust
// not arbitrary_precision
match self { Value::Number(n) => n.deserialize_any(visitor), _ => Err(self.invalid_type(&visitor)) }
// arbitrary_precision
match self { Value::Number(n) => n.$method(visitor), _ => self.deserialize_any(visitor) }
```
(under `arbitrary_precision` a non-number is shown to the numeric visitor by `deserialize_any`: unit,
bool, string, seq or map — a numeric visitor accepts none of them) -/
def deInt (cfg : Cfg) (w : IntTy) : JV → R
  | .num n => numberInt cfg w n
  | _ => fail

mutual
/-- `Value::deserialize(value)`: `deserialize_any` of the owned `Value` with `ValueVisitor`.
```rust
Value::Null => visitor.visit_unit(),        // Value::Null
Value::Bool(v) => visitor.visit_bool(v),
Value::Number(n) => n.deserialize_any(visitor),
Value::String(v) => visitor.visit_string(v),
Value::Array(v) => visit_array(v, visitor),  // VecVisitor-like loop over `Value`s
Value::Object(v) => v.deserialize_any(visitor),   // visit_map: KeyClassifier, Map::insert in iteration order
``` -/
def rebuild (cfg : Cfg) (ext : Ext) : JV → JV
  | .null => .null
  | .bool b => .bool b
  | .num n => match numberAny cfg ext n with | some m => .num m | none => .null
  | .str s => .str s
  | .arr xs => .arr (rebuildList cfg ext xs)
  | .obj kvs => .obj (rebuildMembers cfg ext kvs)
def rebuildList (cfg : Cfg) (ext : Ext) : List JV → List JV
  | [] => []
  | x :: xs => rebuild cfg ext x :: rebuildList cfg ext xs
def rebuildMembers (cfg : Cfg) (ext : Ext) : List (Bytes × JV) → List (Bytes × JV)
  | [] => []
  | (k, v) :: r => (k, rebuild cfg ext v) :: rebuildMembers cfg ext r
end

mutual
def fromValue (cfg : Cfg) (ext : Ext) : Schema → JV → R
  /- fn deserialize_bool: match self { Value::Bool(v) => visitor.visit_bool(v), _ => Err(self.invalid_type(&visitor)) } -/
  | .bool, v => match v with
    | .bool b => .ok (.bool b)
    | _ => fail
  /- deserialize_number!(deserialize_i8 … deserialize_u128) -/
  | .int w, v => deInt cfg w v
  /- deserialize_number!(deserialize_f64) -/
  | .f64, v => match v with
    | .num n => numberF64 cfg n
    | _ => fail
  /- deserialize_number!(deserialize_f32) -/
  | .f32, v => match v with
    | .num n => numberF32 cfg n
    | _ => fail
  /- fn deserialize_char: self.deserialize_string(visitor);  deserialize_string: Value::String(v) => visitor.visit_string(v) -/
  | .char, v => match v with
    | .str s => visitCharStr s
    | _ => fail
  /- fn deserialize_string: match self { Value::String(v) => visitor.visit_string(v), _ => Err(invalid_type) } -/
  | .string, v => match v with
    | .str s => .ok (.str s)
    | _ => fail
  /- fn deserialize_byte_buf: match self { Value::String(v) => visitor.visit_string(v),
       Value::Array(v) => visit_array(v, visitor), _ => Err(invalid_type) } -/
  | .bytes, v => match v with
    | .str s => .ok (.bytes s)
    | .arr xs => visitArray (seqAll (deInt cfg .u8) xs) (fun ys => .bytes (bytesOfInts ys))
    | _ => fail
  /- fn deserialize_option: match self { Value::Null => visitor.visit_none(), _ => visitor.visit_some(self) } -/
  | .option s, v => match v with
    | .null => .ok .none
    | _ => (fromValue cfg ext s v).map .some
  /- fn deserialize_unit: match self { Value::Null => visitor.visit_unit(), _ => Err(invalid_type) } -/
  | .unit, v => match v with
    | .null => .ok .unit
    | _ => fail
  /- fn deserialize_unit_struct: self.deserialize_unit(visitor) -/
  | .unitStruct, v => match v with
    | .null => .ok .unit
    | _ => fail
  /- fn deserialize_newtype_struct: visitor.visit_newtype_struct(self)   (name is not the raw-value token) -/
  | .newtype s, v => fromValue cfg ext s v
  /- fn deserialize_seq: match self { Value::Array(v) => visit_array(v, visitor), _ => Err(invalid_type) } -/
  | .seq s, v => match v with
    | .arr xs => visitArray (seqAll (fromValue cfg ext s) xs) .seq
    | _ => fail
  /- fn deserialize_tuple: self.deserialize_seq(visitor) -/
  | .tuple ss, v => match v with
    | .arr xs => visitArray (tupleSeq cfg ext ss xs) .seq
    | _ => fail
  /- fn deserialize_map: match self { Value::Object(v) => v.deserialize_any(visitor), _ => Err(invalid_type) }
     Map::deserialize_any: visit_map(MapDeserializer) then `remaining == 0` ("fewer elements in map"): the map
     visitors consume every entry. MapDeserializer::next_key_seed: seed.deserialize(MapKeyDeserializer { key: Cow::Owned(key) }) -/
  | .map k s, v => match v with
    | .obj kvs => (mapAll (keyDe k) (fromValue cfg ext s) kvs).map .map
    | _ => fail
  /- fn deserialize_struct: match self { Value::Array(v) => visit_array(v, visitor),
       Value::Object(v) => v.deserialize_any(visitor), _ => Err(invalid_type) } -/
  | .struct_ fs deny, v => match v with
    | .arr xs => visitArray (fieldsSeq cfg ext fs xs) .struct_
    | .obj kvs => structFromMap (fieldDe cfg ext fs) fs deny kvs
    | _ => fail
  /- fn deserialize_enum: match self { Value::Object(value) => value.deserialize_enum(name, variants, visitor),
       Value::String(variant) => visitor.visit_enum(EnumDeserializer { variant, value: None }),
       other => Err(invalid_type(other.unexpected(), &"string or map")) }
     Map::deserialize_enum: exactly one entry ("map with a single key"), then
       visitor.visit_enum(EnumDeserializer { variant, value: Some(value) }) -/
  | .enum_ vs, v => match v with
    | .obj kvs => match kvs with
      | [(variant, value)] => variantDe cfg ext vs 0 variant (some value)
      | _ => fail
    | .str variant => variantDe cfg ext vs 0 variant none
    | _ => fail
  /- fn deserialize_ignored_any: drop(self); visitor.visit_unit() -/
  | .ignored, _ => .ok .ignored
  /- Value::deserialize: deserializer.deserialize_any(ValueVisitor) -/
  | .any, v => .ok (.any (rebuild cfg ext v))
/-- the fixed-length tuple visitor over `SeqDeserializer`: the i-th `next_element_seed` must yield a
    value (`invalid_length(i)` otherwise); returns what is left in the iterator -/
def tupleSeq (cfg : Cfg) (ext : Ext) : List Schema → List JV → Except Unit (List TVal × List JV)
  | [], xs => .ok ([], xs)
  | _ :: _, [] => fail
  | s :: ss, x :: xs =>
    match fromValue cfg ext s x with
    | .error e => .error e
    | .ok y =>
      match tupleSeq cfg ext ss xs with
      | .error e => .error e
      | .ok (ys, rest) => .ok (y :: ys, rest)
/-- derive's struct `visit_seq` over `SeqDeserializer`: every field in order -/
def fieldsSeq (cfg : Cfg) (ext : Ext) : List (Bytes × Schema) → List JV → Except Unit (List TVal × List JV)
  | [], xs => .ok ([], xs)
  | _ :: _, [] => fail
  | (_, s) :: fs, x :: xs =>
    match fromValue cfg ext s x with
    | .error e => .error e
    | .ok y =>
      match fieldsSeq cfg ext fs xs with
      | .error e => .error e
      | .ok (ys, rest) => .ok (y :: ys, rest)
/-- `MapDeserializer::next_key_seed` with derive's field identifier (the key reaches `visit_str` /
    `visit_string` through `MapKeyDeserializer::deserialize_any`), then `next_value_seed(seed)` =
    `seed.deserialize(value)` -/
def fieldDe (cfg : Cfg) (ext : Ext) : List (Bytes × Schema) → Bytes → JV → Option (Nat × R)
  | [], _, _ => none
  | (n, s) :: fs, k, v =>
    if n == k then some (0, fromValue cfg ext s v)
    else match fieldDe cfg ext fs k v with
      | some (i, r) => some (i + 1, r)
      | none => none
/-- `EnumDeserializer::variant_seed`: `seed.deserialize(self.variant.into_deserializer())` (a `String`
    deserializer: `visit_string`), then the `VariantDeserializer` method for the variant's shape -/
def variantDe (cfg : Cfg) (ext : Ext) : List (Bytes × VariantShape) → Nat → Bytes → Option JV → R
  | [], _, _, _ => fail                                    -- unknown_variant
  | (n, sh) :: vs, i, k, p =>
    if n == k then (shapeDe cfg ext sh p).map (.variant i)
    else variantDe cfg ext vs (i + 1) k p
/-- `impl VariantAccess for VariantDeserializer` -/
def shapeDe (cfg : Cfg) (ext : Ext) : VariantShape → Option JV → R
  /- fn unit_variant: match self.value { Some(value) => Deserialize::deserialize(value) /* () */, None => Ok(()) } -/
  | .unit, p => match p with
    | none => .ok .unit
    | some v => match v with
      | .null => .ok .unit
      | _ => fail
  /- fn newtype_variant_seed: match self.value { Some(value) => seed.deserialize(value),
       None => Err(invalid_type(Unexpected::UnitVariant, &"newtype variant")) } -/
  | .newtype s, p => match p with
    | some v => fromValue cfg ext s v
    | none => fail
  /- fn tuple_variant: match self.value { Some(Value::Array(v)) => { if v.is_empty() { visitor.visit_unit() }
       else { visit_array(v, visitor) } } Some(other) => Err(invalid_type(.., &"tuple variant")), None => Err(..) }
     (the tuple visitor has no `visit_unit`) -/
  | .tuple ss, p => match p with
    | some (.arr xs) => if xs.isEmpty then fail else visitArray (tupleSeq cfg ext ss xs) .seq
    | _ => fail
  /- fn struct_variant: match self.value { Some(Value::Object(v)) => v.deserialize_any(visitor),
       Some(other) => Err(invalid_type(.., &"struct variant")), None => Err(..) } -/
  | .struct_ fs, p => match p with
    | some (.obj kvs) => structFromMap (fieldDe cfg ext fs) fs false kvs
    | _ => fail
end

/-! ## BORROWED: `impl<'de> serde::Deserializer<'de> for &'de Value` -/

/-- `visit_array_ref` (same text as `visit_array`, over `SeqRefDeserializer`) -/
def visitArrayRef (r : Except Unit (List TVal × List JV)) (wrap : List TVal → TVal) : R :=
  match r with
  | .error e => .error e
  | .ok (ys, remaining) => if remaining.isEmpty then .ok (wrap ys) else fail

/-- integer request on a `&Value`: `deserialize_value_ref_number!` (and `deserialize_number!` for the
    128-bit methods, which the borrowed impl reuses): same two bodies as on the owned side -/
def deIntRef (cfg : Cfg) (w : IntTy) : JV → R
  | .num n => numberInt cfg w n
  | _ => fail

mutual
/-- `Value::deserialize(&value)`: `deserialize_any` of `&Value` with `ValueVisitor`
    (`visit_borrowed_str`, `visit_array_ref`, `&Map::deserialize_any`) -/
def rebuildRef (cfg : Cfg) (ext : Ext) : JV → JV
  | .null => .null
  | .bool b => .bool b
  | .num n => match numberAny cfg ext n with | some m => .num m | none => .null
  | .str s => .str s
  | .arr xs => .arr (rebuildRefList cfg ext xs)
  | .obj kvs => .obj (rebuildRefMembers cfg ext kvs)
def rebuildRefList (cfg : Cfg) (ext : Ext) : List JV → List JV
  | [] => []
  | x :: xs => rebuildRef cfg ext x :: rebuildRefList cfg ext xs
def rebuildRefMembers (cfg : Cfg) (ext : Ext) : List (Bytes × JV) → List (Bytes × JV)
  | [] => []
  | (k, v) :: r => (k, rebuildRef cfg ext v) :: rebuildRefMembers cfg ext r
end

mutual
def fromValueRef (cfg : Cfg) (ext : Ext) : Schema → JV → R
  /- fn deserialize_bool: match *self { Value::Bool(v) => visitor.visit_bool(v), _ => Err(self.invalid_type(&visitor)) } -/
  | .bool, v => match v with
    | .bool b => .ok (.bool b)
    | _ => fail
  /- deserialize_value_ref_number!(deserialize_i8 … u64); deserialize_number!(deserialize_i128 / u128) -/
  | .int w, v => deIntRef cfg w v
  /- deserialize_value_ref_number!(deserialize_f64) -/
  | .f64, v => match v with
    | .num n => numberF64 cfg n
    | _ => fail
  /- deserialize_value_ref_number!(deserialize_f32) -/
  | .f32, v => match v with
    | .num n => numberF32 cfg n
    | _ => fail
  /- fn deserialize_char: self.deserialize_str(visitor);  deserialize_str: Value::String(v) => visitor.visit_borrowed_str(v) -/
  | .char, v => match v with
    | .str s => visitCharStr s
    | _ => fail
  /- fn deserialize_string: self.deserialize_str(visitor) -/
  | .string, v => match v with
    | .str s => .ok (.str s)
    | _ => fail
  /- fn deserialize_byte_buf: self.deserialize_bytes(visitor);  deserialize_bytes: match self {
       Value::String(v) => visitor.visit_borrowed_str(v), Value::Array(v) => visit_array_ref(v, visitor), _ => Err(..) } -/
  | .bytes, v => match v with
    | .str s => .ok (.bytes s)
    | .arr xs => visitArrayRef (seqAll (deIntRef cfg .u8) xs) (fun ys => .bytes (bytesOfInts ys))
    | _ => fail
  /- fn deserialize_option: match *self { Value::Null => visitor.visit_none(), _ => visitor.visit_some(self) } -/
  | .option s, v => match v with
    | .null => .ok .none
    | _ => (fromValueRef cfg ext s v).map .some
  /- fn deserialize_unit: match *self { Value::Null => visitor.visit_unit(), _ => Err(invalid_type) } -/
  | .unit, v => match v with
    | .null => .ok .unit
    | _ => fail
  /- fn deserialize_unit_struct: self.deserialize_unit(visitor) -/
  | .unitStruct, v => match v with
    | .null => .ok .unit
    | _ => fail
  /- fn deserialize_newtype_struct: visitor.visit_newtype_struct(self) -/
  | .newtype s, v => fromValueRef cfg ext s v
  /- fn deserialize_seq: match self { Value::Array(v) => visit_array_ref(v, visitor), _ => Err(invalid_type) } -/
  | .seq s, v => match v with
    | .arr xs => visitArrayRef (seqAll (fromValueRef cfg ext s) xs) .seq
    | _ => fail
  /- fn deserialize_tuple: self.deserialize_seq(visitor) -/
  | .tuple ss, v => match v with
    | .arr xs => visitArrayRef (tupleSeqRef cfg ext ss xs) .seq
    | _ => fail
  /- fn deserialize_map: match self { Value::Object(v) => v.deserialize_any(visitor), _ => Err(invalid_type) }
     &Map::deserialize_any: visit_map(MapRefDeserializer); MapRefDeserializer::next_key_seed:
     seed.deserialize(MapKeyDeserializer { key: Cow::Borrowed(&**key) }) -/
  | .map k s, v => match v with
    | .obj kvs => (mapAll (keyDe k) (fromValueRef cfg ext s) kvs).map .map
    | _ => fail
  /- fn deserialize_struct: match self { Value::Array(v) => visit_array_ref(v, visitor),
       Value::Object(v) => v.deserialize_any(visitor), _ => Err(invalid_type) } -/
  | .struct_ fs deny, v => match v with
    | .arr xs => visitArrayRef (fieldsSeqRef cfg ext fs xs) .struct_
    | .obj kvs => structFromMap (fieldDeRef cfg ext fs) fs deny kvs
    | _ => fail
  /- fn deserialize_enum: match self { Value::Object(value) => value.deserialize_enum(name, variants, visitor),
       Value::String(variant) => visitor.visit_enum(EnumRefDeserializer { variant, value: None }),
       other => Err(invalid_type(other.unexpected(), &"string or map")) }
     &Map::deserialize_enum: exactly one entry, then visit_enum(EnumRefDeserializer { variant, value: Some(value) }) -/
  | .enum_ vs, v => match v with
    | .obj kvs => match kvs with
      | [(variant, value)] => variantDeRef cfg ext vs 0 variant (some value)
      | _ => fail
    | .str variant => variantDeRef cfg ext vs 0 variant none
    | _ => fail
  /- fn deserialize_ignored_any: visitor.visit_unit() -/
  | .ignored, _ => .ok .ignored
  /- Value::deserialize(&value) -/
  | .any, v => .ok (.any (rebuildRef cfg ext v))
/-- the fixed-length tuple visitor over `SeqRefDeserializer` -/
def tupleSeqRef (cfg : Cfg) (ext : Ext) : List Schema → List JV → Except Unit (List TVal × List JV)
  | [], xs => .ok ([], xs)
  | _ :: _, [] => fail
  | s :: ss, x :: xs =>
    match fromValueRef cfg ext s x with
    | .error e => .error e
    | .ok y =>
      match tupleSeqRef cfg ext ss xs with
      | .error e => .error e
      | .ok (ys, rest) => .ok (y :: ys, rest)
/-- derive's struct `visit_seq` over `SeqRefDeserializer` -/
def fieldsSeqRef (cfg : Cfg) (ext : Ext) : List (Bytes × Schema) → List JV → Except Unit (List TVal × List JV)
  | [], xs => .ok ([], xs)
  | _ :: _, [] => fail
  | (_, s) :: fs, x :: xs =>
    match fromValueRef cfg ext s x with
    | .error e => .error e
    | .ok y =>
      match fieldsSeqRef cfg ext fs xs with
      | .error e => .error e
      | .ok (ys, rest) => .ok (y :: ys, rest)
/-- `MapRefDeserializer::next_key_seed` with derive's field identifier, then `next_value_seed` -/
def fieldDeRef (cfg : Cfg) (ext : Ext) : List (Bytes × Schema) → Bytes → JV → Option (Nat × R)
  | [], _, _ => none
  | (n, s) :: fs, k, v =>
    if n == k then some (0, fromValueRef cfg ext s v)
    else match fieldDeRef cfg ext fs k v with
      | some (i, r) => some (i + 1, r)
      | none => none
/-- `EnumRefDeserializer::variant_seed` (a `&str` deserializer: `visit_str`), then `VariantRefDeserializer` -/
def variantDeRef (cfg : Cfg) (ext : Ext) : List (Bytes × VariantShape) → Nat → Bytes → Option JV → R
  | [], _, _, _ => fail
  | (n, sh) :: vs, i, k, p =>
    if n == k then (shapeDeRef cfg ext sh p).map (.variant i)
    else variantDeRef cfg ext vs (i + 1) k p
/-- `impl VariantAccess for VariantRefDeserializer` -/
def shapeDeRef (cfg : Cfg) (ext : Ext) : VariantShape → Option JV → R
  /- fn unit_variant: match self.value { Some(value) => Deserialize::deserialize(value), None => Ok(()) } -/
  | .unit, p => match p with
    | none => .ok .unit
    | some v => match v with
      | .null => .ok .unit
      | _ => fail
  /- fn newtype_variant_seed: match self.value { Some(value) => seed.deserialize(value), None => Err(..) } -/
  | .newtype s, p => match p with
    | some v => fromValueRef cfg ext s v
    | none => fail
  /- fn tuple_variant: match self.value { Some(Value::Array(v)) => { if v.is_empty() { visitor.visit_unit() }
       else { visit_array_ref(v, visitor) } } Some(other) => Err(..), None => Err(..) } -/
  | .tuple ss, p => match p with
    | some (.arr xs) => if xs.isEmpty then fail else visitArrayRef (tupleSeqRef cfg ext ss xs) .seq
    | _ => fail
  /- fn struct_variant: match self.value { Some(Value::Object(v)) => v.deserialize_any(visitor), Some(other) => Err(..), None => Err(..) } -/
  | .struct_ fs, p => match p with
    | some (.obj kvs) => structFromMap (fieldDeRef cfg ext fs) fs false kvs
    | _ => fail
end

end SJ.Model.FromValue
