import SJ.Spec.Schema
import SJ.Spec.Program
import SJ.Spec.Utf8
import SJ.Spec.WF
import SJ.Spec.Image
import SJ.Model.Ser
/-!
# The serializer side of the typed universe: what `Serialize` does for a typed value (C04, typed clause)

`progOf s v` is the serializer program (`SJ.Spec.Program.SVal`: one constructor per `serde::Serializer` entry point, run
by `SJ.Model.Ser.ser`) that `T::serialize` issues for a value `v : TVal` of the Rust type the schema `s` stands for. The
`Serialize` impls themselves are serde's and `serde_derive`'s — code outside `/repo` (recorded in `assumptions` of C04):

```rust
// serde: impls for the leaves
bool → serialize_bool;  i8 … u128 → serialize_i8 … serialize_u128;  f64 / f32 → serialize_f64 / serialize_f32
char → serialize_char;  String → serialize_str;  serde_bytes::ByteBuf → serialize_bytes;  () → serialize_unit
Option<T>: match *self { Some(ref value) => serializer.serialize_some(value), None => serializer.serialize_none() }
Vec<T>: serializer.collect_seq(self)        // default: serialize_seq(Some(len)); serialize_element each; end
(T0, …, Tn): let mut tuple = serializer.serialize_tuple(n)?; tuple.serialize_element(&self.i)?; …; tuple.end()
BTreeMap / HashMap: serializer.collect_map(self)   // default: serialize_map(Some(len)); serialize_entry(k, v) each (= serialize_key; serialize_value); end
// serde_derive
struct U;                 → serializer.serialize_unit_struct("U")
struct N(T);              → serializer.serialize_newtype_struct("N", &self.0)
struct S { a: A, … }      → let mut s = serializer.serialize_struct("S", n)?; s.serialize_field("a", &self.a)?; …; s.end()
enum E { V, … }           → serializer.serialize_unit_variant("E", idx, "V")
enum E { V(T), … }        → serializer.serialize_newtype_variant("E", idx, "V", field)
enum E { V(T0, T1), … }   → let mut s = serializer.serialize_tuple_variant("E", idx, "V", n)?; s.serialize_field(f)?; …; s.end()
enum E { V { a: A }, … }  → let mut s = serializer.serialize_struct_variant("E", idx, "V", n)?; s.serialize_field("a", a)?; …; s.end()
// serde_json: impl Serialize for Value  (`SJ.Model.Ser.ofValue`)
```
The harness op `rtm` (`harness/src/c04m.rs`) makes exactly these calls against the real crate for a generated
(schema, value), and the driver compares the text with `serCompact / serPretty (progOf s v)`.

`valueOf s v` is the JSON value that text denotes (`to_value` of the typed value, in words of the data model) and
`wfTV s v` the well-formedness predicate of the round-trip statement: the value inhabits the type (integers in range,
`char`s are scalar values, strings valid UTF-8, lengths match, variant index in range), field / variant / key names
are distinct valid UTF-8 (a derive invariant), and the documented exception is excluded: `Some(x)` where `x` serialises
as JSON `null`. Import-free (only `SJ.Spec`, `SJ.Model`).
-/
namespace SJ.Model.TypedSer
open SJ SJ.Spec.Program

def intW : IntTy → IntW
  | .i8 => .i8 | .i16 => .i16 | .i32 => .i32 | .i64 => .i64 | .i128 => .i128
  | .u8 => .u8 | .u16 => .u16 | .u32 => .u32 | .u64 => .u64 | .u128 => .u128

/-- a map key: `String`, an integer, `bool`, `char`, or a unit variant of a derive-shaped enum -/
def keyProg : KeyKind → TVal → SVal
  | .string, .str s => .str s
  | .int w, .int n => .int (intW w) n
  | .bool, .bool b => .bool b
  | .char, .char c => .char c
  | .unitEnum names, .variant i _ => .unitVariant (names.getD i [])
  | _, _ => .unit

mutual
/-- the calls `T::serialize` makes for a value of the type `s` (an ill-typed pair is mapped to `unit`: outside `wfTV`) -/
def progOf : Schema → TVal → SVal
  | .bool, v => match v with | .bool b => .bool b | _ => .unit
  | .int w, v => match v with | .int n => .int (intW w) n | _ => .unit
  | .f64, v => match v with | .f64 b => .f64 b | _ => .unit
  | .f32, v => match v with | .f32 b => .f32 b | _ => .unit
  | .char, v => match v with | .char c => .char c | _ => .unit
  | .string, v => match v with | .str s => .str s | _ => .unit
  | .bytes, v => match v with | .bytes b => .bytes b | _ => .unit
  | .option s, v => match v with | .some x => .some (progOf s x) | _ => .none
  | .unit, _ => .unit
  | .unitStruct, _ => .unitStruct
  | .newtype s, v => .newtypeStruct (progOf s v)
  | .seq s, v => match v with | .seq xs => .seq (some xs.length) (xs.map (progOf s)) | _ => .unit
  | .tuple ss, v => match v with | .seq xs => .tuple (progTuple ss xs) | _ => .unit
  | .map k s, v => match v with
    | .map kvs => .map (some kvs.length) (kvs.map fun kv => (keyProg k kv.1, progOf s kv.2))
    | _ => .unit
  | .struct_ fs _, v => match v with | .struct_ xs => .struct_ (progFields fs xs) | _ => .unit
  | .enum_ vs, v => match v with | .variant i p => progVariant vs i p | _ => .unit
  | .ignored, _ => .unit          -- `IgnoredAny` has no `Serialize` impl: outside the claim
  | .any, v => match v with | .any j => Ser.ofValue j | _ => .unit
def progTuple : List Schema → List TVal → List SVal
  | s :: ss, xs => match xs with | x :: xs' => progOf s x :: progTuple ss xs' | [] => []
  | [], _ => []
def progFields : List (Bytes × Schema) → List TVal → List (Bytes × SVal)
  | (n, s) :: fs, xs => match xs with | x :: xs' => (n, progOf s x) :: progFields fs xs' | [] => []
  | [], _ => []
def progVariant : List (Bytes × VariantShape) → Nat → TVal → SVal
  | [], _, _ => .unit
  | (n, sh) :: vs, i, p => match i with | 0 => progShape n sh p | i' + 1 => progVariant vs i' p
def progShape (n : Bytes) : VariantShape → TVal → SVal
  | .unit, _ => .unitVariant n
  | .newtype s, p => .newtypeVariant n (progOf s p)
  | .tuple ss, p => match p with | .seq xs => .tupleVariant n (progTuple ss xs) | _ => .unit
  | .struct_ fs, p => match p with | .struct_ xs => .structVariant n (progFields fs xs) | _ => .unit
end

/-! ## the JSON value of a typed value -/

/-- the text of a map key -/
def keyText : KeyKind → TVal → Bytes
  | .string, .str s => s
  | .int _, .int n => Spec.Number.decimal n
  | .bool, .bool b => if b then [0x74, 0x72, 0x75, 0x65] else [0x66, 0x61, 0x6c, 0x73, 0x65]
  | .char, .char c => Spec.Denote.utf8 c
  | .unitEnum names, .variant i _ => names.getD i []
  | _, _ => []

def intJV (n : Int) : JV := if n < 0 then .num (.neg n) else .num (.pos n.toNat)

mutual
/-- `to_value` of the typed value: what the written text denotes -/
def valueOf : Schema → TVal → JV
  | .bool, v => match v with | .bool b => .bool b | _ => .null
  | .int _, v => match v with | .int n => intJV n | _ => .null
  | .f64, v => match v with | .f64 b => .num (.float b) | _ => .null
  | .f32, _ => .null             -- f32 targets are outside the proved fragment
  | .char, v => match v with | .char c => .str (Spec.Denote.utf8 c) | _ => .null
  | .string, v => match v with | .str s => .str s | _ => .null
  | .bytes, v => match v with | .bytes b => .arr (b.map fun x => .num (.pos x.toNat)) | _ => .null
  | .option s, v => match v with | .some x => valueOf s x | _ => .null
  | .unit, _ => .null
  | .unitStruct, _ => .null
  | .newtype s, v => valueOf s v
  | .seq s, v => match v with | .seq xs => .arr (xs.map (valueOf s)) | _ => .null
  | .tuple ss, v => match v with | .seq xs => .arr (valueTuple ss xs) | _ => .null
  | .map k s, v => match v with | .map kvs => .obj (kvs.map fun kv => (keyText k kv.1, valueOf s kv.2)) | _ => .null
  | .struct_ fs _, v => match v with | .struct_ xs => .obj (valueFields fs xs) | _ => .null
  | .enum_ vs, v => match v with | .variant i p => valueVariant vs i p | _ => .null
  | .ignored, _ => .null
  | .any, v => match v with | .any j => j | _ => .null
def valueTuple : List Schema → List TVal → List JV
  | s :: ss, xs => match xs with | x :: xs' => valueOf s x :: valueTuple ss xs' | [] => []
  | [], _ => []
def valueFields : List (Bytes × Schema) → List TVal → List (Bytes × JV)
  | (n, s) :: fs, xs => match xs with | x :: xs' => (n, valueOf s x) :: valueFields fs xs' | [] => []
  | [], _ => []
def valueVariant : List (Bytes × VariantShape) → Nat → TVal → JV
  | [], _, _ => .null
  | (n, sh) :: vs, i, p => match i with | 0 => valueShape n sh p | i' + 1 => valueVariant vs i' p
def valueShape (n : Bytes) : VariantShape → TVal → JV
  | .unit, _ => .str n
  | .newtype s, p => .obj [(n, valueOf s p)]
  | .tuple ss, p => match p with | .seq xs => .obj [(n, .arr (valueTuple ss xs))] | _ => .null
  | .struct_ fs, p => match p with | .struct_ xs => .obj [(n, .obj (valueFields fs xs))] | _ => .null
end

/-! ## well-formed typed values -/

/-- a Unicode scalar value -/
def isScalar (c : Nat) : Bool := c < 0xD800 || (0xE000 ≤ c && c < 0x110000)

def distinctNames : List Bytes → Bool
  | [] => true
  | n :: r => !r.contains n && distinctNames r

def namesOK (ns : List Bytes) : Bool := ns.all Spec.Utf8.validUtf8 && distinctNames ns

def wfKey : KeyKind → TVal → Bool
  | .string, .str s => Spec.Utf8.validUtf8 s
  | .int w, .int n => w.inRange n
  | .bool, .bool _ => true
  | .char, .char c => isScalar c
  | .unitEnum names, .variant i p => decide (i < names.length) && (match p with | .unit => true | _ => false) && namesOK names
  | _, _ => false

mutual
/-- the value inhabits the type, names are distinct valid UTF-8, floats are finite, and no `Some(x)` has an `x` that
    serialises as `null` -/
def wfTV : Schema → TVal → Bool
  | .bool, v => match v with | .bool _ => true | _ => false
  | .int w, v => match v with | .int n => w.inRange n | _ => false
  | .f64, v => match v with | .f64 b => finite64 b | _ => false
  | .f32, _ => false
  | .char, v => match v with | .char c => isScalar c | _ => false
  | .string, v => match v with | .str s => Spec.Utf8.validUtf8 s | _ => false
  | .bytes, v => match v with | .bytes _ => true | _ => false
  | .option s, v => match v with
    | .none => true
    | .some x => wfTV s x && !(valueOf s x == JV.null)
    | _ => false
  | .unit, v => match v with | .unit => true | _ => false
  | .unitStruct, v => match v with | .unit => true | _ => false
  | .newtype s, v => wfTV s v
  | .seq s, v => match v with | .seq xs => xs.all (wfTV s) | _ => false
  | .tuple ss, v => match v with | .seq xs => wfTuple ss xs | _ => false
  | .map k s, v => match v with | .map kvs => kvs.all fun kv => wfKey k kv.1 && wfTV s kv.2 | _ => false
  | .struct_ fs _, v => match v with | .struct_ xs => namesOK (fs.map (·.1)) && wfFields fs xs | _ => false
  | .enum_ vs, v => match v with | .variant i p => namesOK (vs.map (·.1)) && wfVariant vs i p | _ => false
  | .ignored, _ => false
  | .any, v => match v with | .any j => Spec.Image.valueLitsOK j | _ => false
def wfTuple : List Schema → List TVal → Bool
  | s :: ss, xs => match xs with | x :: xs' => wfTV s x && wfTuple ss xs' | [] => false
  | [], xs => xs.isEmpty
def wfFields : List (Bytes × Schema) → List TVal → Bool
  | (_, s) :: fs, xs => match xs with | x :: xs' => wfTV s x && wfFields fs xs' | [] => false
  | [], xs => xs.isEmpty
def wfVariant : List (Bytes × VariantShape) → Nat → TVal → Bool
  | [], _, _ => false
  | (_, sh) :: vs, i, p => match i with | 0 => wfShape sh p | i' + 1 => wfVariant vs i' p
def wfShape : VariantShape → TVal → Bool
  | .unit, p => match p with | .unit => true | _ => false
  | .newtype s, p => wfTV s p
  | .tuple ss, p => match p with | .seq xs => wfTuple ss xs | _ => false
  | .struct_ fs, p => match p with | .struct_ xs => namesOK (fs.map (·.1)) && wfFields fs xs | _ => false
end

/-! ## the whole serialisable universe: `f32` members and `Value` members

`valueOf` has no place for an `f32` (the serializer prints it with `ryu`'s binary32 digits, which is not the text of any
`f64`): `valueOfL` puts the printed digits there as a number LITERAL (`JV.num (.lit …)`, whose image is the number with
that text), so that `valueOfL r32 s v` is the JSON document `to_string` writes, for every schema. `wfTVx` is `wfTV` for the
whole universe: an `f32` is finite, and a `Value` member is a value of the build (`Spec.WF.shapeOK c`: numbers as `Number`
holds them, valid UTF-8, keys in the map's order). -/

mutual
/-- the document written for the typed value (`f32` members by their printed digits `r32`) -/
def valueOfL (r32 : UInt32 → Bytes) : Schema → TVal → JV
  | .bool, v => match v with | .bool b => .bool b | _ => .null
  | .int _, v => match v with | .int n => intJV n | _ => .null
  | .f64, v => match v with | .f64 b => .num (.float b) | _ => .null
  | .f32, v => match v with | .f32 b => .num (.lit (r32 b)) | _ => .null
  | .char, v => match v with | .char c => .str (Spec.Denote.utf8 c) | _ => .null
  | .string, v => match v with | .str s => .str s | _ => .null
  | .bytes, v => match v with | .bytes b => .arr (b.map fun x => .num (.pos x.toNat)) | _ => .null
  | .option s, v => match v with | .some x => valueOfL r32 s x | _ => .null
  | .unit, _ => .null
  | .unitStruct, _ => .null
  | .newtype s, v => valueOfL r32 s v
  | .seq s, v => match v with | .seq xs => .arr (xs.map (valueOfL r32 s)) | _ => .null
  | .tuple ss, v => match v with | .seq xs => .arr (valueTupleL r32 ss xs) | _ => .null
  | .map k s, v => match v with | .map kvs => .obj (kvs.map fun kv => (keyText k kv.1, valueOfL r32 s kv.2)) | _ => .null
  | .struct_ fs _, v => match v with | .struct_ xs => .obj (valueFieldsL r32 fs xs) | _ => .null
  | .enum_ vs, v => match v with | .variant i p => valueVariantL r32 vs i p | _ => .null
  | .ignored, _ => .null
  | .any, v => match v with | .any j => j | _ => .null
def valueTupleL (r32 : UInt32 → Bytes) : List Schema → List TVal → List JV
  | s :: ss, xs => match xs with | x :: xs' => valueOfL r32 s x :: valueTupleL r32 ss xs' | [] => []
  | [], _ => []
def valueFieldsL (r32 : UInt32 → Bytes) : List (Bytes × Schema) → List TVal → List (Bytes × JV)
  | (n, s) :: fs, xs => match xs with | x :: xs' => (n, valueOfL r32 s x) :: valueFieldsL r32 fs xs' | [] => []
  | [], _ => []
def valueVariantL (r32 : UInt32 → Bytes) : List (Bytes × VariantShape) → Nat → TVal → JV
  | [], _, _ => .null
  | (n, sh) :: vs, i, p => match i with | 0 => valueShapeL r32 n sh p | i' + 1 => valueVariantL r32 vs i' p
def valueShapeL (r32 : UInt32 → Bytes) (n : Bytes) : VariantShape → TVal → JV
  | .unit, _ => .str n
  | .newtype s, p => .obj [(n, valueOfL r32 s p)]
  | .tuple ss, p => match p with | .seq xs => .obj [(n, .arr (valueTupleL r32 ss xs))] | _ => .null
  | .struct_ fs, p => match p with | .struct_ xs => .obj [(n, .obj (valueFieldsL r32 fs xs))] | _ => .null
end

mutual
/-- well-formed typed values of the whole universe (`c`: the build, for `Value` members; `r32`: the `f32` printer, only for the
    test "`Some(x)` with `x` printed as `null`", which does not depend on the digits) -/
def wfTVx (c : Spec.Canon.Cfg) (r32 : UInt32 → Bytes) : Schema → TVal → Bool
  | .bool, v => match v with | .bool _ => true | _ => false
  | .int w, v => match v with | .int n => w.inRange n | _ => false
  | .f64, v => match v with | .f64 b => finite64 b | _ => false
  | .f32, v => match v with | .f32 b => finite32 b | _ => false
  | .char, v => match v with | .char ch => isScalar ch | _ => false
  | .string, v => match v with | .str s => Spec.Utf8.validUtf8 s | _ => false
  | .bytes, v => match v with | .bytes _ => true | _ => false
  | .option s, v => match v with
    | .none => true
    | .some x => wfTVx c r32 s x && !(valueOfL r32 s x == JV.null)
    | _ => false
  | .unit, v => match v with | .unit => true | _ => false
  | .unitStruct, v => match v with | .unit => true | _ => false
  | .newtype s, v => wfTVx c r32 s v
  | .seq s, v => match v with | .seq xs => xs.all (wfTVx c r32 s) | _ => false
  | .tuple ss, v => match v with | .seq xs => wfTupleX c r32 ss xs | _ => false
  | .map k s, v => match v with | .map kvs => kvs.all fun kv => wfKey k kv.1 && wfTVx c r32 s kv.2 | _ => false
  | .struct_ fs _, v => match v with | .struct_ xs => namesOK (fs.map (·.1)) && wfFieldsX c r32 fs xs | _ => false
  | .enum_ vs, v => match v with | .variant i p => namesOK (vs.map (·.1)) && wfVariantX c r32 vs i p | _ => false
  | .ignored, _ => false
  | .any, v => match v with | .any j => Spec.WF.shapeOK c j | _ => false
def wfTupleX (c : Spec.Canon.Cfg) (r32 : UInt32 → Bytes) : List Schema → List TVal → Bool
  | s :: ss, xs => match xs with | x :: xs' => wfTVx c r32 s x && wfTupleX c r32 ss xs' | [] => false
  | [], xs => xs.isEmpty
def wfFieldsX (c : Spec.Canon.Cfg) (r32 : UInt32 → Bytes) : List (Bytes × Schema) → List TVal → Bool
  | (_, s) :: fs, xs => match xs with | x :: xs' => wfTVx c r32 s x && wfFieldsX c r32 fs xs' | [] => false
  | [], xs => xs.isEmpty
def wfVariantX (c : Spec.Canon.Cfg) (r32 : UInt32 → Bytes) : List (Bytes × VariantShape) → Nat → TVal → Bool
  | [], _, _ => false
  | (_, sh) :: vs, i, p => match i with | 0 => wfShapeX c r32 sh p | i' + 1 => wfVariantX c r32 vs i' p
def wfShapeX (c : Spec.Canon.Cfg) (r32 : UInt32 → Bytes) : VariantShape → TVal → Bool
  | .unit, p => match p with | .unit => true | _ => false
  | .newtype s, p => wfTVx c r32 s p
  | .tuple ss, p => match p with | .seq xs => wfTupleX c r32 ss xs | _ => false
  | .struct_ fs, p => match p with | .struct_ xs => namesOK (fs.map (·.1)) && wfFieldsX c r32 fs xs | _ => false
end

mutual
/-- the `f32` members of a typed value (keys have none) -/
def f32sOf : TVal → List UInt32
  | .f32 b => [b]
  | .some v | .variant _ v => f32sOf v
  | .seq xs | .struct_ xs => f32sOfList xs
  | .map kvs => f32sOfPairs kvs
  | _ => []
def f32sOfList : List TVal → List UInt32
  | [] => []
  | x :: r => f32sOf x ++ f32sOfList r
def f32sOfPairs : List (TVal × TVal) → List UInt32
  | [] => []
  | (_, x) :: r => f32sOf x ++ f32sOfPairs r
end

end SJ.Model.TypedSer
