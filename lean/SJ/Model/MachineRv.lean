import SJ.Model.MachineAp
/-!
# `Value` under `raw_value`: the private RawValue token (value/de.rs, raw.rs, de.rs)

`Model.Machine` reads every JSON object as an object; `Model.MachineAp` adds the reading of the private Number token
(`arbitrary_precision`). The crate, built with `raw_value`, has a second such reading:

```rust
// value/de.rs, impl Deserialize for Value, ValueVisitor
fn visit_map<V>(self, mut visitor: V) -> Result<Value, V::Error> where V: MapAccess<'de> {
    match tri!(visitor.next_key_seed(KeyClassifier)) {
        #[cfg(feature = "arbitrary_precision")]
        Some(KeyClass::Number) => { … }
        #[cfg(feature = "raw_value")]
        Some(KeyClass::RawValue) => {
            let value = tri!(visitor.next_value_seed(crate::raw::BoxedFromString));
            crate::from_str(value.get()).map_err(de::Error::custom)
        }
        Some(KeyClass::Map(first_key)) => { … }
        None => Ok(Value::Object(Map::new())),
    } }
// KeyClassifier::visit_str / visit_string on the DECODED key:
    match s { … #[cfg(feature = "raw_value")] crate::raw::TOKEN => Ok(KeyClass::RawValue), _ => Ok(KeyClass::Map(s.to_owned())) }
// raw.rs
pub struct BoxedFromString;
impl<'de> DeserializeSeed<'de> for BoxedFromString {
    type Value = Box<RawValue>;
    fn deserialize<D>(self, deserializer: D) -> Result<Self::Value, D::Error> { deserializer.deserialize_str(self) } }
impl<'de> Visitor<'de> for BoxedFromString {
    fn expecting(&self, formatter: &mut fmt::Formatter) -> fmt::Result { formatter.write_str("raw value") }
    fn visit_str<E>(self, s: &str) -> Result<Self::Value, E> { Ok(RawValue::from_owned(s.to_owned().into_boxed_str())) }
    fn visit_string<E>(self, s: String) -> Result<Self::Value, E> { Ok(RawValue::from_owned(s.into_boxed_str())) } }
// de.rs
pub fn from_str<'a, T>(s: &'a str) -> Result<T> where T: de::Deserialize<'a> { from_trait(read::StrRead::new(s)) }
fn from_trait<'de, R, T>(read: R) -> Result<T> {
    let mut de = Deserializer::new(read);          // remaining_depth: 128 — a FRESH recursion budget
    let value = tri!(de::Deserialize::deserialize(&mut de));
    tri!(de.end());                                 // only whitespace may follow
    Ok(value) }
// error.rs
impl de::Error for Error { fn custom<T: Display>(msg: T) -> Error { make_error(msg.to_string()) } }
fn make_error(mut msg: String) -> Error {
    let (line, column) = parse_line_col(&mut msg).unwrap_or((0, 0));    // " at line L column C" is parsed back out
    Error { err: Box::new(ErrorImpl { code: ErrorCode::Message(msg.into_boxed_str()), line, column }) } }
```

So: after the FIRST key of an object has been read and its decoded text equals `raw::TOKEN`, the member's value is read by
`deserialize_str` with a visitor that has `visit_str` only (a non-string: serde's `invalid type: …, expected raw value`, after
`peek_invalid_type` consumed the scalar, exactly as for the Number token), `visit_str` accepts ANY string, and the DECODED
content of the string is then parsed as a complete JSON text into a `Value` by a fresh `from_str`: `&str` source (no UTF-8
check: it is a `str`), fresh depth budget (128, whatever the outer deserializer's setting), the same feature set — so the
token readings apply again INSIDE the string, recursively. Its value stands for the whole object; its error `e` becomes
`de::Error::custom(e)` = `Message(<e's message>)` — category `Data` — at `e`'s OWN line and column (a position inside the
decoded string; every `fix_position` further out leaves it alone since `line ≠ 0`). Afterwards `end_map` must find `}` next
(a second member is `trailing comma`).

`MachineRv` is `MachineAp` (hence the machine) with this reading added as four extra phases (`RPhase`), entered at the
`:` that follows such a key. The nested parse is a parameter `nested : Bytes → Outcome` of the step function; `parseFuel`
ties the knot by structural recursion on a fuel, `parseTop` supplies `length + 1`: the decoded string is strictly shorter
than the enclosing document (`Proofs.MachineRvFuel`: the fuel never runs out, and `parseTop` satisfies the recursion
equation `parseTop renv bs = run (parseTop renv.inner) renv init 0 bs`).
-/
namespace SJ.Model.MachineRv
open SJ SJ.Gen SJ.Model.Machine

/-- `raw::TOKEN` -/
def token : Bytes := Gen.rawToken

/-- the parse environment of `Model.Machine` plus the feature flag `raw_value` (which `Machine.Cfg` does not have) -/
structure REnv where
  env : Env
  rv : Bool := false
deriving Repr, Inhabited

/-- the environment of the nested `crate::from_str(value.get())`: same features, `&str` source, `Value` target, and a new
    `Deserializer` — the recursion limit is on again even if the outer one had `disable_recursion_limit()` -/
def REnv.inner (r : REnv) : REnv :=
  { env := { cfg := { r.env.cfg with limitOff := false }, src := .str, tgt := .value }, rv := r.rv }

/-- which visitor's `expecting` ends serde's `invalid type` message -/
inductive Expect where
  /-- `NumberFromString`: `string containing a number` -/
  | number
  /-- `BoxedFromString`: `raw value` -/
  | raw
deriving Repr, DecidableEq

/-- the text of an error that went through `de::Error::custom` -/
inductive Msg where
  /-- the `Display` text of an `ErrorCode` -/
  | code (c : Code)
  /-- serde's `invalid type: <unexpected>, expected <expecting>` (wording of `<unexpected>` not modelled) -/
  | invalidType (e : Expect)
deriving Repr, DecidableEq

inductive Outcome where
  | ok (v : JV)
  /-- `Error::syntax(code, line, column)`; `idx`: number of bytes of the input the position counts -/
  | err (c : Code) (idx : Nat)
  /-- serde's `invalid type: …, expected …` (`Data`), at `idx` bytes of the input -/
  | data (e : Expect) (idx : Nat)
  /-- an error of a nested parse (`Number::from_str`, or the `from_str` of the RawValue token) through
      `de::Error::custom`: its message, category `Data`, at the line and column OF THE NESTED TEXT -/
  | custom (m : Msg) (line col : Nat)
deriving Repr

/-- `MachineAp`'s outcomes among `MachineRv`'s -/
def ofAp : MachineAp.Outcome → Outcome
  | .ok v => .ok v
  | .err c i => .err c i
  | .data i => .data .number i
  | .custom c l k => .custom (.code c) l k

/-! ## states -/

/-- reading the value of an object whose first key is the raw token -/
inductive RPhase where
  /-- `deserialize_str`: `parse_whitespace`, then `"` or `peek_invalid_type` -/
  | val
  /-- `parse_str` of the string that holds the JSON text -/
  | str (st : StrSt)
  /-- `peek_invalid_type` consuming a scalar that is not a string (the machine on a scratch state without stack) -/
  | other (inner : Machine.St)
  /-- `end_map` after the nested `from_str` returned `v` -/
  | endMap (v : JV)
deriving Repr

inductive St where
  /-- outside a raw-token object: `MachineAp` (the machine, or a Number-token phase) -/
  | ap (a : MachineAp.St)
  /-- `stack`: the open containers AROUND the raw-token object -/
  | raw (p : RPhase) (stack : List Frame)
deriving Repr

inductive Step where
  | next (s : St)
  | again (s : St)
  | err (c : Code) (a : Adj)
  | data (e : Expect) (a : Adj)
  | custom (m : Msg) (line col : Nat)
deriving Repr

/-- the `:` after the first key of an object, that key being the raw token: `some` of the stack around the object -/
def triggered (renv : REnv) (s : Machine.St) (b : UInt8) : Option (List Frame) :=
  if renv.rv && renv.env.tgt = .value && b == 0x3a then
    match s.mode, s.stack with
    | .afterKey, .obj [] key :: fs => if key = token then some fs else none
    | _, _ => none
  else none

/-- `.map_err(de::Error::custom)`: the failure `o` of the nested parse of `txt` as the enclosing parse reports it — the
    same message, category `Data`, at the line and column INSIDE `txt` (an error that already went through `custom` further
    in keeps its position) -/
def escalate (txt : Bytes) : Outcome → Outcome
  | .ok v => .ok v
  | .err c k => .custom (.code c) (lineCol txt k).1 (lineCol txt k).2
  | .data e k => .custom (.invalidType e) (lineCol txt k).1 (lineCol txt k).2
  | .custom m l c => .custom m l c

/-- `crate::from_str(value.get()).map_err(de::Error::custom)`: `o` is the outcome of the nested parse of `txt` -/
def nestedResult (txt : Bytes) (fs : List Frame) (o : Outcome) : Step :=
  match o with
  | .ok v => .next (.raw (.endMap v) fs)
  | .err c k => .custom (.code c) (lineCol txt k).1 (lineCol txt k).2
  | .data e k => .custom (.invalidType e) (lineCol txt k).1 (lineCol txt k).2
  | .custom m l c => .custom m l c

/-- `next_value_seed(BoxedFromString)` = `parse_object_colon` (the machine's `afterKey`) + `deserialize_str` — the function
    quoted at `MachineAp.stepTok`, with `BoxedFromString` as visitor — then the nested `from_str`, then `end_map`.
    `nested`: the parser for the decoded string. -/
def stepRaw (nested : Bytes → Outcome) (renv : REnv) (p : RPhase) (fs : List Frame) (b : UInt8) : Step :=
  let env := renv.env
  match p with
  | .val =>
    if isWs b then .next (.raw .val fs)
    else if b == 0x22 then .next (.raw (.str {}) fs)
    else if b == 0x5b || b == 0x7b then .data .raw .excl
    else
      match startValue env (MachineAp.scratch (.val .top)) b with
      | .next s' => .next (.raw (.other s') fs)
      | .again _ => .err .ExpectedSomeValue .incl          -- unreachable
      | .err c a => .err c a
  | .str st =>
    match stepStr env (MachineAp.scratch (.str st)) st b with
    | .next s' =>
      match s'.mode with
      | .str st' => .next (.raw (.str st') fs)
      | .done (.str txt) =>
        -- `visitor.visit_str(s)` = `Ok(RawValue::from_owned(..))`; then `crate::from_str(value.get())`
        nestedResult txt fs (nested txt)
      | _ => .err .ExpectedSomeValue .incl                 -- unreachable
    | .again _ => .err .ExpectedSomeValue .incl            -- unreachable
    | .err c a => .err c a
  | .other inner =>
    match Machine.step1 env inner b with
    | .next s' =>
      match s'.mode with
      | .done _ => .data .raw .incl                         -- a literal: its last byte has been consumed
      | _ => .next (.raw (.other s') fs)
    | .again _ => .data .raw .excl                          -- a number ended: `b` is only peeked
    | .err c a => .err c a
  | .endMap v =>
    if isWs b then .next (.raw (.endMap v) fs)
    else if b == 0x7d then .next (.ap (.base (complete fs v)))
    else if b == 0x2c then .err .TrailingComma .incl
    else .err .TrailingCharacters .incl

def liftStep : MachineAp.Step → Step
  | .next s => .next (.ap s)
  | .again s => .again (.ap s)
  | .err c a => .err c a
  | .data a => .data .number a
  | .custom c l k => .custom (.code c) l k

def step1 (nested : Bytes → Outcome) (renv : REnv) (s : St) (b : UInt8) : Step :=
  match s with
  | .ap (.base m) =>
    match triggered renv m b with
    | some fs => .next (.raw .val fs)
    | none => liftStep (MachineAp.step1 renv.env (.base m) b)
  | .ap (.tok p fs) => liftStep (MachineAp.step1 renv.env (.tok p fs) b)
  | .raw p fs => stepRaw nested renv p fs b

/-- what a failed step reports -/
inductive Fail where
  | err (c : Code) (a : Adj)
  | data (e : Expect) (a : Adj)
  | custom (m : Msg) (line col : Nat)
deriving Repr

def step (nested : Bytes → Outcome) (renv : REnv) (s : St) (b : UInt8) : Except Fail St :=
  match step1 nested renv s b with
  | .next s' => .ok s'
  | .err c a => .error (.err c a)
  | .data e a => .error (.data e a)
  | .custom m l k => .error (.custom m l k)
  | .again s' =>
    match step1 nested renv s' b with
    | .next s'' => .ok s''
    | .err c a => .error (.err c a)
    | .data e a => .error (.data e a)
    | .custom m l k => .error (.custom m l k)
    | .again _ => .error (.err .ExpectedSomeValue .incl)     -- unreachable, as in the machine

/-! ## end of input -/

inductive FinErr where
  | err (c : Code)
  | data (e : Expect)
deriving Repr

def finish (renv : REnv) : St → Except FinErr JV
  | .ap a =>
    match MachineAp.finish renv.env a with
    | .ok v => .ok v
    | .error (.err c) => .error (.err c)
    | .error .data => .error (.data .number)
  | .raw .val _ => .error (.err .EofWhileParsingValue)
  | .raw (.str _) _ => .error (.err .EofWhileParsingString)
  | .raw (.other inner) _ =>
    -- `parse_ident`: `EofWhileParsingValue`; `parse_any_number`: the literal is complete (`invalid type`) or cut
    match Machine.finish renv.env inner with
    | .ok _ => .error (.data .raw)
    | .error c => .error (.err c)
  | .raw (.endMap _) _ => .error (.err .EofWhileParsingObject)

/-! ## running -/

def run (nested : Bytes → Outcome) (renv : REnv) (s : St) (i : Nat) : Bytes → Outcome
  | [] =>
    match finish renv s with
    | .ok v => .ok v
    | .error (.err c) => .err c i
    | .error (.data e) => .data e i
  | b :: bs =>
    match step nested renv s b with
    | .ok s' => run nested renv s' (i + 1) bs
    | .error (.err c a) => .err c (errIdx renv.env a i)
    | .error (.data e a) => .data e (errIdx renv.env a i)
    | .error (.custom m l k) => .custom m l k

def init : St := .ap MachineAp.init

/-- the parser with `n` levels of nested `from_str` available; level 0 is never reached from `parseTop`
    (`Proofs.MachineRvFuel.parseFuel_stable`) -/
def parseFuel : Nat → REnv → Bytes → Outcome
  | 0, _, _ => .err .RecursionLimitExceeded 0
  | n + 1, renv, bs => run (parseFuel n renv.inner) renv init 0 bs

/-- `from_str` / `from_slice` / `from_reader` into `Value` (or `IgnoredAny`, for which nothing changes) with the features
    of `renv`. Each nested text is a decoded string literal of the enclosing one, hence strictly shorter: `length + 1`
    levels suffice. -/
def parseTop (renv : REnv) (bs : Bytes) : Outcome := parseFuel (bs.length + 1) renv bs

def Outcome.isOk (o : Outcome) (v : JV) : Bool :=
  match o with
  | .ok v' => JV.beq v' v
  | _ => false
def Outcome.isErr (o : Outcome) (c : Code) (idx : Nat) : Bool :=
  match o with
  | .err c' i => c' == c && i == idx
  | _ => false
def Outcome.isData (o : Outcome) (e : Expect) (idx : Nat) : Bool :=
  match o with
  | .data e' i => e' == e && i == idx
  | _ => false
def Outcome.isCustom (o : Outcome) (m : Msg) (line col : Nat) : Bool :=
  match o with
  | .custom m' l k => m' == m && l == line && k == col
  | _ => false

end SJ.Model.MachineRv
