import SJ.Gen.Ser
import SJ.Spec.Value
/-!
# `format_escaped_str` (src/ser.rs 2081–2157) — local transcription used by `Model.Ser`

Same behaviour as the shared `SJ.Model.Escape.formatEscapedStr` (C05 branch); kept separate so that
it can be swapped: `Model.Ser` uses only `escapeStr` / `escapeContents`, and the proofs use only the
lemma `SJ.Proofs.SerEscape.escapeStr_spec`.

```rust
fn format_escaped_str(writer, formatter, value: &str) -> io::Result<()> {
    tri!(formatter.begin_string(writer));
    tri!(format_escaped_str_contents(writer, formatter, value));
    formatter.end_string(writer)
}
fn format_escaped_str_contents(writer, formatter, value: &str) -> io::Result<()> {
    let bytes = value.as_bytes();
    let mut start = 0;
    for (i, &byte) in bytes.iter().enumerate() {
        let escape = ESCAPE[byte as usize];
        if escape == 0 { continue; }
        if start < i { tri!(formatter.write_string_fragment(writer, &value[start..i])); }
        let char_escape = CharEscape::from_escape_table(escape, byte);
        tri!(formatter.write_char_escape(writer, char_escape));
        start = i + 1;
    }
    if start == bytes.len() { return Ok(()); }
    formatter.write_string_fragment(writer, &value[start..])
}
```
Import-free.
-/
namespace SJ.Model.EscapeLocal
open SJ

/-- `ESCAPE[b]`: `b't'`-style tags (`BB TT NN FF RR QU BS UU`), `0` (`__`) for "not escaped" -/
def escapeKind (b : UInt8) : UInt8 :=
  if b == 0x08 then 0x62        -- BB
  else if b == 0x09 then 0x74   -- TT
  else if b == 0x0a then 0x6e   -- NN
  else if b == 0x0c then 0x66   -- FF
  else if b == 0x0d then 0x72   -- RR
  else if b < 0x20 then 0x75    -- UU
  else if b == 0x22 then 0x22   -- QU
  else if b == 0x5c then 0x5c   -- BS
  else 0                        -- __

/-- `static HEX_DIGITS: [u8; 16] = *b"0123456789abcdef"` -/
def hexDigits : Bytes :=
  [0x30, 0x31, 0x32, 0x33, 0x34, 0x35, 0x36, 0x37, 0x38, 0x39, 0x61, 0x62, 0x63, 0x64, 0x65, 0x66]

/-- `write_char_escape(CharEscape::from_escape_table(escape, byte))`: the one buffer written.
    `from_escape_table`'s `_ => unreachable!()` is the final `[]`. -/
def charEscape (escape byte : UInt8) : Bytes :=
  if escape == 0x62 then [0x5c, 0x62]        -- Backspace      b"\\b"
  else if escape == 0x74 then [0x5c, 0x74]   -- Tab            b"\\t"
  else if escape == 0x6e then [0x5c, 0x6e]   -- LineFeed       b"\\n"
  else if escape == 0x66 then [0x5c, 0x66]   -- FormFeed       b"\\f"
  else if escape == 0x72 then [0x5c, 0x72]   -- CarriageReturn b"\\r"
  else if escape == 0x22 then [0x5c, 0x22]   -- Quote          b"\\\""
  else if escape == 0x5c then [0x5c, 0x5c]   -- ReverseSolidus b"\\\\"
  else if escape == 0x75 then                -- AsciiControl(byte)
    [0x5c, 0x75, 0x30, 0x30, hexDigits.getD (byte >>> 4).toNat 0, hexDigits.getD (byte &&& 0xF).toNat 0]
  else []

/-- the loop of `format_escaped_str_contents`: `frag` is `value[start..i]` (the pending unescaped
    fragment; `start < i` iff it is non-empty), the list argument is `value[i..]` -/
def contentsLoop : Bytes → Bytes → List Bytes
  | frag, [] => if frag.isEmpty then [] else [frag]
  | frag, byte :: rest =>
    let escape := escapeKind byte
    if escape == 0 then contentsLoop (frag ++ [byte]) rest
    else (if frag.isEmpty then [] else [frag]) ++ [charEscape escape byte] ++ contentsLoop [] rest

/-- buffers written by `format_escaped_str_contents` -/
def escapeContents (value : Bytes) : List Bytes := contentsLoop [] value

/-- buffers written by `format_escaped_str`: `"`, fragments and escapes, `"` -/
def escapeStr (value : Bytes) : List Bytes :=
  [Gen.serBeginString] ++ escapeContents value ++ [Gen.serEndString]

end SJ.Model.EscapeLocal
