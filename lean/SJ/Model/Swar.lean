import SJ.Spec.Str
import SJ.Gen.Swar
/-!
# Model of `SliceRead::skip_to_escape`, `skip_to_escape_slow`, `is_escape` (`src/read.rs`)

The 64-bit SWAR scan is transcribed on `BitVec 64` (`Chunk = u64`, the `fast_arithmetic = "64"`
build): `from_le_bytes`, `wrapping_sub`, `^`, `&`, `!`, `<<`, `trailing_zeros` are the bit-vector
operations of the same name. `ONE_BYTES * k` is a constant product that does not overflow for the
extracted constants (`Proofs.Swar.consts`). `memchr::memchr2` is an external crate and is
specified, not modelled: "index of the first occurrence of either needle".
All constants come from `SJ.Gen.Swar`.
-/
namespace SJ.Model.Swar
open SJ

/-- the naive specification (`SJ.Spec.Str.firstEscape`): the smallest `i ≥ index` with
    `i = slice.length` or `slice[i]` an escape byte -/
abbrev firstEscape (slice : Bytes) (index : Nat) (forbidControl : Bool) : Nat :=
  Spec.Str.firstEscape slice index forbidControl

/--
```rust
fn is_escape(ch: u8, including_control_characters: bool) -> bool {
    ch == b'"' || ch == b'\\' || (including_control_characters && ch < 0x20)
}
``` -/
def isEscape (ch : UInt8) (includingControlCharacters : Bool) : Bool :=
  ch == Gen.isEscapeA || ch == Gen.isEscapeB || (includingControlCharacters && ch < Gen.isEscapeCtrlBound)

/-- `memchr::memchr2(n1, n2, haystack)` — specified: first index holding either needle -/
def memchr2 (n1 n2 : UInt8) (haystack : Bytes) : Option Nat :=
  haystack.findIdx? fun b => b == n1 || b == n2

/-- `u64::from_le_bytes` (of a chunk of `STEP` bytes) -/
def fromLeBytes : Bytes → BitVec 64
  | [] => 0
  | b :: bs => b.toBitVec.setWidth 64 ||| (fromLeBytes bs <<< 8)

/-- `const ONE_BYTES: Chunk = Chunk::MAX / 255; // 0x0101...01` -/
def oneBytes : BitVec 64 := BitVec.ofNat 64 ((2 ^ 64 - 1) / Gen.swarOneBytesDiv)

/--
```rust
let contains_ctrl = chars.wrapping_sub(ONE_BYTES * 0x20) & !chars;
let chars_quote = chars ^ (ONE_BYTES * Chunk::from(b'"'));
let contains_quote = chars_quote.wrapping_sub(ONE_BYTES) & !chars_quote;
let chars_backslash = chars ^ (ONE_BYTES * Chunk::from(b'\\'));
let contains_backslash = chars_backslash.wrapping_sub(ONE_BYTES) & !chars_backslash;
let masked = (contains_ctrl | contains_quote | contains_backslash) & (ONE_BYTES << 7);
``` -/
def masked (chars : BitVec 64) : BitVec 64 :=
  let containsCtrl := (chars - oneBytes * BitVec.ofNat 64 Gen.swarCtrl) &&& ~~~chars
  let charsQuote := chars ^^^ (oneBytes * Gen.swarQuote.toBitVec.setWidth 64)
  let containsQuote := (charsQuote - oneBytes) &&& ~~~charsQuote
  let charsBackslash := chars ^^^ (oneBytes * Gen.swarBackslash.toBitVec.setWidth 64)
  let containsBackslash := (charsBackslash - oneBytes) &&& ~~~charsBackslash
  (containsCtrl ||| containsQuote ||| containsBackslash) &&& (oneBytes <<< Gen.swarHighShift)

/--
```rust
for chunk in rest.chunks_exact(STEP) {
    let chars = Chunk::from_le_bytes(chunk.try_into().unwrap());
    … masked …
    if masked != 0 {
        self.index = unsafe { chunk.as_ptr().offset_from(self.slice.as_ptr()) } as usize
            + masked.trailing_zeros() as usize / 8;
        return;
    }
}
```
`chunks_exact(STEP)` yields exactly `rest.len() / STEP` chunks; `n` is the number still to come,
`off` the offset of the current chunk in `self.slice`. `some i`: returned with `self.index = i`;
`none`: the loop ran to completion. -/
def chunkScan (rest : Bytes) (off : Nat) : Nat → Option Nat
  | 0 => none
  | n + 1 =>
    let chars := fromLeBytes (rest.take Gen.swarStep)
    let m := masked chars
    if m != 0 then some (off + m.ctz.toNat / Gen.swarTzDiv)
    else chunkScan (rest.drop Gen.swarStep) (off + Gen.swarStep) n

/-- the `while` loop of `skip_to_escape_slow`, with `fuel ≥ slice.len() - index` iterations allowed -/
def slowLoop (slice : Bytes) (index : Nat) : Nat → Nat
  | 0 => index
  | fuel + 1 =>
    if index < slice.length && !isEscape (slice.getD index 0) Gen.slowInclCtrl
    then slowLoop slice (index + Gen.slowStep) fuel
    else index

/--
```rust
fn skip_to_escape_slow(&mut self) {
    while self.index < self.slice.len() && !is_escape(self.slice[self.index], true) {
        self.index += 1;
    }
}
``` -/
def skipToEscapeSlow (slice : Bytes) (index : Nat) : Nat := slowLoop slice index (slice.length - index)

/--
```rust
fn skip_to_escape(&mut self, forbid_control_characters: bool) {
    // Immediately bail-out on empty strings and consecutive escapes (e.g. \u041b\u0435)
    if self.index == self.slice.len()
        || is_escape(self.slice[self.index], forbid_control_characters) { return; }
    self.index += 1;
    let rest = &self.slice[self.index..];
    if !forbid_control_characters {
        self.index += memchr::memchr2(b'"', b'\\', rest).unwrap_or(rest.len());
        return;
    }
    for chunk in rest.chunks_exact(STEP) { … }
    self.index += rest.len() / STEP * STEP;
    self.skip_to_escape_slow();
}
```
The value of `self.index` on return. Callers keep `index ≤ slice.len()`; for a larger index the
Rust code would panic at `self.slice[self.index]` (the theorems assume `index ≤ slice.length`). -/
def skipToEscape (slice : Bytes) (index : Nat) (forbidControl : Bool) : Nat :=
  if index == slice.length || isEscape (slice.getD index 0) forbidControl then index
  else
    let index := index + 1
    let rest := slice.drop index
    if !forbidControl then
      index + (memchr2 Gen.memchr2A Gen.memchr2B rest).getD rest.length
    else
      match chunkScan rest index (rest.length / Gen.swarStep) with
      | some i => i
      | none => skipToEscapeSlow slice (index + rest.length / Gen.swarStep * Gen.swarStep)

end SJ.Model.Swar
