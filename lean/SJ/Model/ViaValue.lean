import SJ.Model.Typed
import SJ.Model.FromValue
import SJ.Model.Machine
/-!
# The five ways a number literal reaches an integer type (property C06), as functions of the literal's bytes

```rust
serde_json::from_str::<T>(lit)                                        // text            -> textInt
serde_json::from_value::<T>(serde_json::from_str::<Value>(lit)?)      // via Value       -> valueOf, viaValueInt
T::deserialize(&value)                                                // via &Value      -> viaValueRefInt
serde_json::from_str::<BTreeMap<T, ()>>("{\"<lit>\":null}")           // quoted key      -> textKeyInt (MapKey::deserialize_iN)
serde_json::from_value::<BTreeMap<T, ()>>(json!({ lit: null }))       // key of a Value  -> valueKeyInt (MapKeyDeserializer)
```
Nothing new is modelled here: the functions project `Model.Typed.deTypedTop` / `Model.Typed.keyInt` (src/de.rs),
`Model.Machine.parseTop` (the `Value` parser), `Model.FromValue.fromValue` / `fromValueRef` / `keyInt`
(src/value/de.rs, src/number.rs) onto "the integer, or nothing".
-/
namespace SJ.Model.ViaValue
open SJ SJ.Model

/-- the `Value`-side configuration of a build -/
def fvCfg (cfg : Machine.Cfg) : FromValue.Cfg := { po := cfg.po, fr := cfg.fr, ap := cfg.ap }

def okInt : FromValue.R → Option Int
  | .ok (.int x) => some x
  | _ => none

/-- `from_str::<iN/uN>(bs)` -/
def textInt (cfg : Machine.Cfg) (src : Machine.Src) (w : IntTy) (bs : Bytes) : Option Int :=
  match Typed.deTypedTop { cfg := cfg, src := src } (.int w) bs with
  | .ok (.int x) => some x
  | _ => none

/-- `from_str::<Value>(bs).ok()` -/
def valueOf (cfg : Machine.Cfg) (src : Machine.Src) (bs : Bytes) : Option JV :=
  match Machine.parseTop { cfg := cfg, src := src, tgt := .value } bs with
  | .ok v => some v
  | _ => none

/-- `from_value::<iN/uN>(v)` -/
def viaValueInt (cfg : Machine.Cfg) (ext : FromValue.Ext) (w : IntTy) (v : JV) : Option Int :=
  okInt (FromValue.fromValue (fvCfg cfg) ext (.int w) v)

/-- `<iN/uN>::deserialize(&v)` -/
def viaValueRefInt (cfg : Machine.Cfg) (ext : FromValue.Ext) (w : IntTy) (v : JV) : Option Int :=
  okInt (FromValue.fromValueRef (fvCfg cfg) ext (.int w) v)

/-- `MapKey::deserialize_iN` on the quoted key `"bs"` followed by `rest` (the reader stands on the opening quote):
    the integer and the unread input -/
def textKeyInt (cfg : Machine.Cfg) (src : Machine.Src) (w : IntTy) (bs rest : Bytes) (pos : Nat) : Option (Int × Bytes × Nat) :=
  match Typed.keyInt { cfg := cfg, src := src } w (0x22 :: (bs ++ 0x22 :: rest)) pos with
  | .ok (.int x) r q => some (x, r, q)
  | _ => none

/-- `MapKeyDeserializer { key }.deserialize_iN` (key of a `Value` object) -/
def valueKeyInt (w : IntTy) (key : Bytes) : Option Int := okInt (FromValue.keyInt w key)

end SJ.Model.ViaValue
