import SJ.Spec.Value
import SJ.Spec.JsonMacro
import SJ.Gen.JsonMacro
import SJ.Model.ValueIndex
/-!
# Model of `json!` / `json_internal!` (src/macros.rs): the rules, in order, on token trees

`expand` is `json_internal!($tt)`; `munchArray` is the `@array` TT-muncher, `munchObject` /
`munchEntry` the `@object` one. `none` is "does not compile" (no rule matches, `json_unexpected!`,
`json_expect_expr_comma!`, `json_internal!()`, or a key that is not `Into<String>`).
Rules are numbered A1–A11, O1–O18, M1–M8 in source order (`Expected.rules`, tied to the
regenerated `Gen.jsonRules` by `c18_json_rules_tied`).

How macro-by-example matching is modelled (rustc's, assumed): a rule is tried only if all earlier
ones failed; `$x:expr` is attempted only on a token that can begin an expression and then takes one
whole expression unit (`Spec.JsonMacro.TT.lit / expr / paren`); `$($e:expr,)*` matches an
accumulator whose every element is followed by a comma, `$($e:expr),*` one without trailing comma —
the empty accumulator matches both.

```text
A1  (@array [$($elems:expr,)*])                          => vec![$($elems,)*]
A2  (@array [$($elems:expr),*])                          => vec![$($elems),*]
A3–A7 (@array [$($elems:expr,)*] null|true|false|[..]|{..} $($rest:tt)*)
                                                         => @array [$($elems,)* json_internal!(that)] $($rest)*
A8  (@array [$($elems:expr,)*] $next:expr, $($rest:tt)*) => @array [$($elems,)* json_internal!($next),] $($rest)*
A9  (@array [$($elems:expr,)*] $last:expr)               => @array [$($elems,)* json_internal!($last)]
A10 (@array [$($elems:expr),*] , $($rest:tt)*)           => @array [$($elems,)*] $($rest)*
A11 (@array [$($elems:expr),*] $unexpected:tt $($rest:tt)*) => json_unexpected!($unexpected)
O1  (@object $object () () ())                           => {}
O2  (@object $object [$($key:tt)+] ($value:expr) , $($rest:tt)*)
                                   => let _ = $object.insert(($($key)+).into(), $value); @object $object () ($($rest)*) ($($rest)*)
O3  (@object $object [$($key:tt)+] ($value:expr) $unexpected:tt $($rest:tt)*) => json_unexpected!($unexpected)
O4  (@object $object [$($key:tt)+] ($value:expr))        => let _ = $object.insert(($($key)+).into(), $value);
O5–O9 (@object $object ($($key:tt)+) (: null|true|false|[..]|{..} $($rest:tt)*) $copy:tt)
                                   => @object $object [$($key)+] (json_internal!(that)) $($rest)*
O10 (@object $object ($($key:tt)+) (: $value:expr , $($rest:tt)*) $copy:tt)
                                   => @object $object [$($key)+] (json_internal!($value)) , $($rest)*
O11 (@object $object ($($key:tt)+) (: $value:expr) $copy:tt) => @object $object [$($key)+] (json_internal!($value))
O12 (… ($($key:tt)+) (:) $copy:tt)  O13 (… ($($key:tt)+) () $copy:tt)   => json_internal!()      (error)
O14 (… () (: $($rest:tt)*) …)       O15 (… ($($key:tt)*) (, $($rest:tt)*) …) => json_unexpected!(..) (error)
O16 (@object $object () (($key:expr) : $($rest:tt)*) $copy:tt) => @object $object ($key) (: $($rest)*) (: $($rest)*)
O17 (@object $object ($($key:tt)*) (: $($unexpected:tt)+) $copy:tt) => json_expect_expr_comma!(..)  (error)
O18 (@object $object ($($key:tt)*) ($tt:tt $($rest:tt)*) $copy:tt) => @object $object ($($key)* $tt) ($($rest)*) ($($rest)*)
M1–M3 (null) (true) (false)   M4 ([])   M5 ([ $($tt:tt)+ ]) => Value::Array(json_internal!(@array [] $($tt)+))
M6 ({})   M7 ({ $($tt:tt)+ }) => Value::Object({ let mut object = Map::new(); json_internal!(@object object () ($($tt)+) ($($tt)+)); object })
M8 ($other:expr) => to_value(&$other).unwrap()
```
-/
namespace SJ.Model.JsonMacro
open SJ SJ.Spec.JsonMacro

/-- `$x:expr` on one token tree: an expression unit, with the value `json_internal!($x)` = M8 gives it.
    (`true`, `false`, `[..]`, `{..}` are Rust expressions too, but every position an `$x:expr` rule
    could meet them in is guarded by an earlier rule.) -/
def exprValue : TT → Option JV
  | .lit v => some v
  | .expr v => some v
  | .paren v => some v
  | _ => none

/-- the tokens with a dedicated rule in both munchers (A3–A7, O5–O9) -/
def isSpecial : TT → Bool
  | .null | .true_ | .false_ | .arr _ | .obj _ => true
  | _ => false

/-- `($($key)+).into()` as a `String`: the key tokens must form one expression unit whose value is a
    string (`&str`, `String`, `char`, `Cow<str>` … — all serialise as that same string) -/
def keyString : List TT → Option Bytes
  | [t] => match exprValue t with
    | some (.str s) => some s
    | _ => none
  | _ => none

/-- the first statement of O2 / O4, as extracted: `Map::insert` overwrites an existing key;
    `entry(..).or_insert(..)` would keep the first -/
def objectInsert (po : Bool) (k : Bytes) (v : JV) (object : List (Bytes × JV)) : List (Bytes × JV) :=
  if Gen.jsonInsertOverwrites then Model.ValueIndex.mapInsert po k v object
  else Model.ValueIndex.entryOrInsert po k v object

def insertEntry (po : Bool) (object : List (Bytes × JV)) (key : List TT) (value : JV) : Option (List (Bytes × JV)) :=
  (keyString key).map fun k => objectInsert po k value object

/-- accumulator matches `[$($elems:expr,)*]` -/
def commaForm (elems : List JV) (tc : Bool) : Bool := tc || elems.isEmpty
/-- accumulator matches `[$($elems:expr),*]` -/
def plainForm (elems : List JV) (tc : Bool) : Bool := !tc || elems.isEmpty

def startsWithColon : List TT → Bool
  | .colon :: _ => true
  | _ => false

mutual
/-- `json_internal!($tt)` -/
def expand (po : Bool) : TT → Option JV
  | .null => some .null                                                    -- M1
  | .true_ => some (.bool true)                                            -- M2
  | .false_ => some (.bool false)                                          -- M3
  | .arr ts =>
    if ts.isEmpty then some (.arr [])                                      -- M4
    else (munchArray po [] true ts).map .arr                               -- M5
  | .obj ts =>
    if ts.isEmpty then some (.obj [])                                      -- M6
    else (munchObject po [] [] ts).map .obj                                -- M7
  | .lit v => some v                                                       -- M8
  | .expr v => some v
  | .paren v => some v
  | .comma => none
  | .colon => none

/-- `json_internal!(@array [elems] rest)`; `tc`: every accumulated element is followed by a comma -/
def munchArray (po : Bool) (elems : List JV) (tc : Bool) : List TT → Option (List JV)
  | [] => some elems                                                       -- A1 / A2
  | t :: rest =>
    if commaForm elems tc && isSpecial t then                              -- A3–A7
      match expand po t with
      | some v => munchArray po (elems ++ [v]) false rest
      | none => none
    else if commaForm elems tc && (exprValue t).isSome then                -- `$next:expr` / `$last:expr` commit
      match exprValue t, rest with
      | some v, .comma :: rest' => munchArray po (elems ++ [v]) true rest' -- A8
      | some v, [] => some (elems ++ [v])                                  -- A9, then A2
      | _, _ => none                                                       -- A11 or no rule (`t` is not a comma)
    else if plainForm elems tc then
      match t with
      | .comma => munchArray po elems true rest                            -- A10
      | _ => none                                                          -- A11
    else none                                                              -- no rule

/-- `json_internal!(@object object (key) (rest) (rest))` -/
def munchObject (po : Bool) (object : List (Bytes × JV)) (key : List TT) : List TT → Option (List (Bytes × JV))
  | [] => if key.isEmpty then some object                                  -- O1
          else none                                                        -- O13
  | t :: rest =>
    match t with
    | .colon =>
      if key.isEmpty then none                                             -- O14
      else
        match rest with
        | [] => none                                                       -- O12
        | t' :: rest2 =>
          match (if isSpecial t' then expand po t' else exprValue t') with -- O5–O9 | O10, O11
          | some v => munchEntry po object key v rest2
          | none => none                                                   -- O17
    | .comma => none                                                       -- O15
    | .paren v =>
      if key.isEmpty && startsWithColon rest then
        munchObject po object [.expr v] rest                               -- O16
      else munchObject po object (key ++ [t]) rest                         -- O18
    | _ => munchObject po object (key ++ [t]) rest                         -- O18

/-- `json_internal!(@object object [key] (value) rest)` -/
def munchEntry (po : Bool) (object : List (Bytes × JV)) (key : List TT) (value : JV) : List TT → Option (List (Bytes × JV))
  | [] => insertEntry po object key value                                  -- O4
  | .comma :: rest =>                                                      -- O2
    match insertEntry po object key value with
    | some object' => munchObject po object' [] rest
    | none => none
  | _ :: _ => none                                                         -- O3
end

/-- `json!($tt)` -/
def jsonMacro (po : Bool) (t : TT) : Option JV := expand po t

/-! ### the rule list this transcription was written against -/

namespace Expected
def rules : List String := [
  "@array [$($elems:expr,)*]",
  "@array [$($elems:expr),*]",
  "@array [$($elems:expr,)*] null $($rest:tt)*",
  "@array [$($elems:expr,)*] true $($rest:tt)*",
  "@array [$($elems:expr,)*] false $($rest:tt)*",
  "@array [$($elems:expr,)*] [$($array:tt)*] $($rest:tt)*",
  "@array [$($elems:expr,)*] {$($map:tt)*} $($rest:tt)*",
  "@array [$($elems:expr,)*] $next:expr, $($rest:tt)*",
  "@array [$($elems:expr,)*] $last:expr",
  "@array [$($elems:expr),*] , $($rest:tt)*",
  "@array [$($elems:expr),*] $unexpected:tt $($rest:tt)*",
  "@object $object:ident () () ()",
  "@object $object:ident [$($key:tt)+] ($value:expr) , $($rest:tt)*",
  "@object $object:ident [$($key:tt)+] ($value:expr) $unexpected:tt $($rest:tt)*",
  "@object $object:ident [$($key:tt)+] ($value:expr)",
  "@object $object:ident ($($key:tt)+) (: null $($rest:tt)*) $copy:tt",
  "@object $object:ident ($($key:tt)+) (: true $($rest:tt)*) $copy:tt",
  "@object $object:ident ($($key:tt)+) (: false $($rest:tt)*) $copy:tt",
  "@object $object:ident ($($key:tt)+) (: [$($array:tt)*] $($rest:tt)*) $copy:tt",
  "@object $object:ident ($($key:tt)+) (: {$($map:tt)*} $($rest:tt)*) $copy:tt",
  "@object $object:ident ($($key:tt)+) (: $value:expr , $($rest:tt)*) $copy:tt",
  "@object $object:ident ($($key:tt)+) (: $value:expr) $copy:tt",
  "@object $object:ident ($($key:tt)+) (:) $copy:tt",
  "@object $object:ident ($($key:tt)+) () $copy:tt",
  "@object $object:ident () (: $($rest:tt)*) ($colon:tt $($copy:tt)*)",
  "@object $object:ident ($($key:tt)*) (, $($rest:tt)*) ($comma:tt $($copy:tt)*)",
  "@object $object:ident () (($key:expr) : $($rest:tt)*) $copy:tt",
  "@object $object:ident ($($key:tt)*) (: $($unexpected:tt)+) $copy:tt",
  "@object $object:ident ($($key:tt)*) ($tt:tt $($rest:tt)*) $copy:tt",
  "null",
  "true",
  "false",
  "[]",
  "[ $($tt:tt)+ ]",
  "{}",
  "{ $($tt:tt)+ }",
  "$other:expr"
]
def bodies : List String := [
  "$crate::__private::vec![$($elems,)*]",
  "$crate::__private::vec![$($elems),*]",
  "$crate::json_internal!(@array [$($elems,)* $crate::json_internal!(null)] $($rest)*)",
  "$crate::json_internal!(@array [$($elems,)* $crate::json_internal!(true)] $($rest)*)",
  "$crate::json_internal!(@array [$($elems,)* $crate::json_internal!(false)] $($rest)*)",
  "$crate::json_internal!(@array [$($elems,)* $crate::json_internal!([$($array)*])] $($rest)*)",
  "$crate::json_internal!(@array [$($elems,)* $crate::json_internal!({$($map)*})] $($rest)*)",
  "$crate::json_internal!(@array [$($elems,)* $crate::json_internal!($next),] $($rest)*)",
  "$crate::json_internal!(@array [$($elems,)* $crate::json_internal!($last)])",
  "$crate::json_internal!(@array [$($elems,)*] $($rest)*)",
  "$crate::json_unexpected!($unexpected)",
  "",
  "let _ = $object.insert(($($key)+).into(), $value); $crate::json_internal!(@object $object () ($($rest)*) ($($rest)*));",
  "$crate::json_unexpected!($unexpected);",
  "let _ = $object.insert(($($key)+).into(), $value);",
  "$crate::json_internal!(@object $object [$($key)+] ($crate::json_internal!(null)) $($rest)*);",
  "$crate::json_internal!(@object $object [$($key)+] ($crate::json_internal!(true)) $($rest)*);",
  "$crate::json_internal!(@object $object [$($key)+] ($crate::json_internal!(false)) $($rest)*);",
  "$crate::json_internal!(@object $object [$($key)+] ($crate::json_internal!([$($array)*])) $($rest)*);",
  "$crate::json_internal!(@object $object [$($key)+] ($crate::json_internal!({$($map)*})) $($rest)*);",
  "$crate::json_internal!(@object $object [$($key)+] ($crate::json_internal!($value)) , $($rest)*);",
  "$crate::json_internal!(@object $object [$($key)+] ($crate::json_internal!($value)));",
  "$crate::json_internal!();",
  "$crate::json_internal!();",
  "$crate::json_unexpected!($colon);",
  "$crate::json_unexpected!($comma);",
  "$crate::json_internal!(@object $object ($key) (: $($rest)*) (: $($rest)*));",
  "$crate::json_expect_expr_comma!($($unexpected)+);",
  "$crate::json_internal!(@object $object ($($key)* $tt) ($($rest)*) ($($rest)*));",
  "$crate::Value::Null",
  "$crate::Value::Bool(true)",
  "$crate::Value::Bool(false)",
  "$crate::Value::Array($crate::__private::vec![])",
  "$crate::Value::Array($crate::json_internal!(@array [] $($tt)+))",
  "$crate::Value::Object($crate::Map::new())",
  "$crate::Value::Object({ let mut object = $crate::Map::new(); $crate::json_internal!(@object object () ($($tt)+) ($($tt)+)); object })",
  "$crate::to_value(&$other).unwrap()"
]
end Expected

/-- the source's rules (matchers and transcribers, in order) are the transcribed ones -/
def RulesTied : Prop := Gen.jsonRules = Expected.rules ∧ Gen.jsonRuleBodies = Expected.bodies

end SJ.Model.JsonMacro
